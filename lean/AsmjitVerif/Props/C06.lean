/-
  C06 – property theorems.  (Helper lemmas: Lemmas/C06Types, C06SysV, C06Win64, C06A64, C06Shuffle.)

  Part 1: for EVERY signature (any length up to the 32 the API admits, any mix of integer / float / double / vector / opmask
  types of the convention's domain, varargs or not) the model of `FuncDetail::init` returns exactly what the ABI rules of
  Spec/ABI.lean prescribe: every argument's register or stack offset and by-reference flag, the size of the stack-argument
  area, who pops it, red zone / shadow space, stack alignment and the preserved sets.
-/
import AsmjitVerif.Lemmas.C06SysV
import AsmjitVerif.Lemmas.C06Win64
import AsmjitVerif.Lemmas.C06A64
import AsmjitVerif.Lemmas.C06X32
import AsmjitVerif.Spec.Machine
import AsmjitVerif.Lemmas.C06ShuffleLoop
import AsmjitVerif.Lemmas.C06ShuffleTop
import AsmjitVerif.Lemmas.C06ShufflePhase3
import AsmjitVerif.Lemmas.C06ShuffleSel
import AsmjitVerif.Lemmas.C06ShuffleInt
import AsmjitVerif.Lemmas.C06ShuffleAll
namespace AsmjitVerif.C06
open AsmjitVerif.CallConv AsmjitVerif.ABI

/-- zones, stack alignment, callee-pop flag and preserved sets of a convention record agree with the ABI's frame rules -/
def frameMatches (cc : CallConv) (c : Conv) : Prop :=
  cc.hasFlag fCalleePops = c.frame.calleePops ∧ cc.redZone = c.frame.redZone ∧ cc.spillZone = c.frame.shadow ∧
  cc.naturalAlign = c.frame.stackAlign ∧ cc.presGp = maskOf c.frame.presGp ∧ cc.presVec = maskOf c.frame.presVec

theorem x86Ret_x64_some (cc : CallConv) (h : cc.arch = .x64) (t : Nat) : ∃ v, x86Ret cc 0 t = some v := by
  unfold x86Ret
  simp only [gpReturnIndex, h]
  repeat' split
  all_goals first | exact ⟨_, rfl⟩ | (simp_all [idBad, zax])

theorem retLoop_x64_some (cc : CallConv) (h : cc.arch = .x64) (t : Nat) :
    ∃ vs, (if t = tVoid then some [] else retLoop (x86Ret cc) 0 (unpack cc.arch t)) = some vs := by
  by_cases ht : t = tVoid
  · exact ⟨[], by simp [ht]⟩
  · obtain ⟨v, hv⟩ := x86Ret_x64_some cc h t
    refine ⟨[v], ?_⟩
    simp [retLoop, ht, hv, h, unpack_x64]

theorem convOf_x64 {e : Env} {ccid : Nat} {c : Conv} (h : convOf e ccid = some c) (hc : c = .sysv ∨ c = .win64) :
    e.arch = .x64 := by
  obtain ⟨arch, win, darwin⟩ := e
  cases arch
  · exfalso; simp only [convOf] at h
    repeat' split at h
    all_goals first | contradiction | (rcases hc with rfl | rfl <;> simp at h)
  · rfl
  · exfalso; simp only [convOf] at h
    repeat' split at h
    all_goals first | contradiction | (rcases hc with rfl | rfl <;> cases darwin <;> simp at h)

/-- **SysV x86-64**: every signature over integers, float, double, `long double` (class MEMORY, fix C06-15), `__m64` (class SSE,
    fix C06-14), vectors of 4..64 bytes and opmask types – every concrete TypeId. -/
theorem detail_matches_abi_sysv (e : Env) (sig : Signature) (hc : convOf e sig.ccid = some .sysv)
    (hlen : sig.args.length ≤ 32) (hdom : ∀ t ∈ sig.args, sysvDom (deabstract 8 t) = true) :
    ∃ cc d, initFuncDetail e sig = .ok (cc, d) ∧
      d.args = argsFrom .sysv (sig.vaIndex ≠ 255) [] (sig.args.map (deabstract 8)) ∧
      d.argStackSize = argStackSize .sysv (sig.vaIndex ≠ 255) (sig.args.map (deabstract 8)) ∧ frameMatches cc .sysv := by
  have harch := convOf_x64 hc (Or.inl rfl)
  have hrs : e.regSize = 8 := by simp [Env.regSize, harch]
  have hcc := initCallConv_sysv e sig.ccid hc
  obtain ⟨vs, hvs⟩ := retLoop_x64_some ccSysv rfl (deabstract 8 sig.ret)
  obtain ⟨ha, hI⟩ := sysv_loop (decide (sig.vaIndex ≠ 255)) (sig.args.map (deabstract 8)) 0 { stackOffset := ccSysv.spillZone } []
    sysv_init_inv (by intro t ht; obtain ⟨u, hu, rfl⟩ := List.mem_map.1 ht; exact hdom u hu)
  let r := x86ArgLoop ccSysv (decide (sig.vaIndex ≠ 255)) 8 0 { stackOffset := ccSysv.spillZone } (sig.args.map (deabstract 8))
  refine ⟨ccSysv, { argStackSize := r.1.stackOffset, rets := vs, args := r.2, usedGp := r.1.usedGp, usedVec := r.1.usedVec },
    ?_, ?_, ?_, by unfold frameMatches; decide⟩
  · simp only [initFuncDetail, hcc, hrs, show ¬ sig.args.length > 32 by omega, if_false]
    have : ccSysv.arch = .x64 := rfl
    simp only [this] at hvs
    simp only [this, hvs]
    rfl
  · simpa [r] using ha
  · simp only [argStackSize]; simpa [r] using hI.off

/-- **Win64**: every signature over integers, __m64, float, double and vectors (by reference). -/
theorem detail_matches_abi_win64 (e : Env) (sig : Signature) (hc : convOf e sig.ccid = some .win64)
    (hlen : sig.args.length ≤ 32) (hdom : ∀ t ∈ sig.args, win64Dom (deabstract 8 t) = true) :
    ∃ cc d, initFuncDetail e sig = .ok (cc, d) ∧
      d.args = argsFrom .win64 (sig.vaIndex ≠ 255) [] (sig.args.map (deabstract 8)) ∧
      d.argStackSize = argStackSize .win64 (sig.vaIndex ≠ 255) (sig.args.map (deabstract 8)) ∧ frameMatches cc .win64 := by
  have harch := convOf_x64 hc (Or.inr rfl)
  have hrs : e.regSize = 8 := by simp [Env.regSize, harch]
  have hcc := initCallConv_win64 e sig.ccid hc
  obtain ⟨vs, hvs⟩ := retLoop_x64_some ccWin64 rfl (deabstract 8 sig.ret)
  obtain ⟨ha, hI⟩ := win64_loop (decide (sig.vaIndex ≠ 255)) (sig.args.map (deabstract 8)) { stackOffset := ccWin64.spillZone } []
    (by decide) (by intro t ht; obtain ⟨u, hu, rfl⟩ := List.mem_map.1 ht; exact hdom u hu)
  let r := x86ArgLoop ccWin64 (decide (sig.vaIndex ≠ 255)) 8 0 { stackOffset := ccWin64.spillZone } (sig.args.map (deabstract 8))
  refine ⟨ccWin64, { argStackSize := r.1.stackOffset, rets := vs, args := r.2, usedGp := r.1.usedGp, usedVec := r.1.usedVec },
    ?_, ?_, ?_, by unfold frameMatches; decide⟩
  · simp only [initFuncDetail, hcc, hrs, show ¬ sig.args.length > 32 by omega, if_false]
    have : ccWin64.arch = .x64 := rfl
    simp only [this] at hvs
    simp only [this, hvs]
    rfl
  · simpa [r] using ha
  · simp only [argStackSize]; simpa [r] using hI

theorem x86Ret_x86_some (cc : CallConv) (i : Nat) (hi : i < 2) (t : Nat) : ∃ v, x86Ret cc i t = some v := by
  have hg : gpReturnIndex i ≠ idBad := by
    have : i = 0 ∨ i = 1 := by omega
    rcases this with rfl | rfl <;> decide
  unfold x86Ret
  simp only
  repeat' split
  all_goals first | exact ⟨_, rfl⟩ | (exfalso; simp_all)

theorem retLoop_x86_some (cc : CallConv) (h : cc.arch = .x86) (t : Nat) :
    ∃ vs, (if t = tVoid then some [] else retLoop (x86Ret cc) 0 (unpack cc.arch t)) = some vs := by
  by_cases ht : t = tVoid
  · exact ⟨[], by simp [ht]⟩
  · simp only [ht, if_false, h]
    by_cases h64 : t = tInt64 ∨ t = tUInt64
    · rw [unpack_x86_i64 h64]
      obtain ⟨v0, hv0⟩ := x86Ret_x86_some cc 0 (by omega) tUInt32
      obtain ⟨v1, hv1⟩ := x86Ret_x86_some cc 1 (by omega) (t - 2)
      have h2 : t - 2 ≠ tVoid := by rcases h64 with rfl | rfl <;> decide
      have hv0' : x86Ret cc 0 39 = some v0 := hv0
      have h2' : ¬ (t - 2 = 0) := h2
      exact ⟨[v0, v1], by simp [retLoop, hv0', hv1, h2', tUInt32, tVoid]⟩
    · have h1 : t ≠ tInt64 := fun h => h64 (Or.inl h)
      have h2 : t ≠ tUInt64 := fun h => h64 (Or.inr h)
      rw [unpack_x86_small h1 h2]
      obtain ⟨v, hv⟩ := x86Ret_x86_some cc 0 (by omega) t
      exact ⟨[v], by simp [retLoop, hv, ht]⟩

/-- **32-bit x86: cdecl, stdcall, fastcall, thiscall, regparm(1..3)** – every signature over integers of up to 32 bits (64-bit
    integers where the convention has no integer registers – cdecl / stdcall – and, with fix C06-16, in `__fastcall` / `__thiscall`,
    which pass them on the stack as a whole), float, double, vectors (xmm0-2, stack when variadic) and opmask types; 64-bit
    integers under GCC regparm are not written (no rule in Spec/ABI.lean). -/
theorem detail_matches_abi_x32 (e : Env) (sig : Signature) (gp : List Nat) (pops : Bool)
    (hc : convOf e sig.ccid = some (.x32 gp pops))
    (hlen : sig.args.length ≤ 32) (hdom : ∀ t ∈ sig.args, x32Dom gp (deabstract 4 t) = true) :
    ∃ cc d, initFuncDetail e sig = .ok (cc, d) ∧
      d.args = argsFrom (.x32 gp pops) (sig.vaIndex ≠ 255) [] (sig.args.map (deabstract 4)) ∧
      d.argStackSize = argStackSize (.x32 gp pops) (sig.vaIndex ≠ 255) (sig.args.map (deabstract 4)) ∧
      frameMatches cc (.x32 gp pops) := by
  obtain ⟨arch, win, darwin⟩ := e
  cases arch
  case x64 =>
    exfalso; simp only [convOf] at hc
    repeat' split at hc
    all_goals first | contradiction | (simp at hc)
  case a64 =>
    exfalso; simp only [convOf] at hc
    repeat' split at hc
    all_goals first | contradiction | (cases darwin <;> simp at hc)
  case x86 =>
    have hid : sig.ccid ∈ List.range 8 := by
      rw [List.mem_range]
      rcases Nat.lt_or_ge sig.ccid 8 with h | h
      · exact h
      · exfalso
        simp [convOf, show sig.ccid ≠ 0 by omega, show sig.ccid ≠ 1 by omega, show sig.ccid ≠ 2 by omega,
          show sig.ccid ≠ 4 by omega, show sig.ccid ≠ 5 by omega, show sig.ccid ≠ 6 by omega, show sig.ccid ≠ 7 by omega] at hc
    have hw : win ∈ [false, true] := by cases win <;> simp
    have hall := initCallConv_x32_all win hw sig.ccid hid
    have hc' : convOf ⟨.x86, win, false⟩ sig.ccid = some (.x32 gp pops) := hc
    rw [hc'] at hall
    cases hinit : initCallConvX86 win sig.ccid with
    | none => rw [hinit] at hall; simp at hall
    | some cc =>
      rw [hinit] at hall
      simp only [x32CcB, Bool.and_eq_true, beq_iff_eq, Bool.not_eq_true', decide_eq_true_eq, List.all_eq_true, bne_iff_ne, ne_eq] at hall
      obtain ⟨⟨⟨⟨⟨⟨⟨⟨⟨⟨⟨⟨⟨⟨a1, a2⟩, a3⟩, a4⟩, a5⟩, a6⟩, a7⟩, a8⟩, awos⟩, a9⟩, a10⟩, a11⟩, a12⟩, a13⟩, a14⟩ := hall
      have hcc : X32Cc cc gp := ⟨a1, a2, a3, a4, a5, a6, a7, fun k hk => by
        have : gp.getD k 0 ∈ gp := by
          rw [List.getD_eq_getElem?_getD, List.getElem?_eq_getElem hk]; simp
        exact a8 _ this, fun h => by rcases h with rfl | rfl <;> simpa using awos⟩
      obtain ⟨vs, hvs⟩ := retLoop_x86_some cc a1 (deabstract 4 sig.ret)
      obtain ⟨ha, hI⟩ := x32_loop cc gp pops hcc (decide (sig.vaIndex ≠ 255)) (sig.args.map (deabstract 4)) 0
        { stackOffset := cc.spillZone } [] ⟨by simp, by cases (decide (sig.vaIndex ≠ 255)) <;> simp, by simp [x32StackEnd, a11]⟩
        (by intro t ht; obtain ⟨u, hu, rfl⟩ := List.mem_map.1 ht; exact hdom u hu)
      let r := x86ArgLoop cc (decide (sig.vaIndex ≠ 255)) 4 0 { stackOffset := cc.spillZone } (sig.args.map (deabstract 4))
      refine ⟨cc, { argStackSize := r.1.stackOffset, rets := vs, args := r.2, usedGp := r.1.usedGp, usedVec := r.1.usedVec },
        ?_, by simpa [r] using ha, ?_, ?_⟩
      · simp only [initFuncDetail, initCallConv, hinit, Env.regSize, show ¬ sig.args.length > 32 by omega, if_false]
        simp only [a1] at hvs ⊢
        simp only [hvs]
        rfl
      · simp only [argStackSize]; simpa [r] using hI.off
      · unfold frameMatches Conv.frame
        exact ⟨a9, a10, a11, a12, a13, by rw [a14]; rfl⟩

def a64RetDom (t : Nat) : Bool :=
  t = tVoid || (isInt t && !isAbstract t) || isF32F64 t || isVec32 t || isVec64 t || isVec128 t

theorem a64RetDom_lt {t : Nat} (h : a64RetDom t = true) : t < 101 := by
  simp only [a64RetDom, isInt, isF32F64, isVec32, isVec64, isVec128, isAbstract, isBetween, tFloat32, tFloat64, tVoid,
    Bool.or_eq_true, Bool.and_eq_true, decide_eq_true_eq, Bool.not_eq_true'] at h
  rcases h with ((((h | ⟨h, _⟩) | h | h) | h) | h) | h <;> first | omega | (have := of_decide_eq_true h; omega)

theorem a64Ret_some : ∀ t ∈ List.range 101, a64RetDom t = true →
    (if t = tVoid then some [] else retLoop a64Ret 0 [t]).isSome = true := by decide +kernel

/-- **AAPCS64 and Apple arm64**: every signature over integers, float, double, vectors of 4..16 bytes (opmask / mmx types get no
    location on either side). -/
theorem detail_matches_abi_a64 (apple : Bool) (e : Env) (sig : Signature)
    (hc : convOf e sig.ccid = some (if apple then .apple else .aapcs64))
    (hlen : sig.args.length ≤ 32) (hdom : ∀ t ∈ sig.args, a64Dom (deabstract 8 t) = true)
    (hret : a64RetDom (deabstract 8 sig.ret) = true) :
    ∃ cc d, initFuncDetail e sig = .ok (cc, d) ∧
      d.args = argsFrom (if apple then .apple else .aapcs64) false [] (sig.args.map (deabstract 8)) ∧
      d.argStackSize = argStackSize (if apple then .apple else .aapcs64) false (sig.args.map (deabstract 8)) ∧
      frameMatches cc (if apple then .apple else .aapcs64) := by
  have hcc := initCallConv_a64 e sig.ccid apple hc
  have harch : e.arch = .a64 := by
    obtain ⟨arch, win, darwin⟩ := e
    cases arch
    · exfalso; simp only [convOf] at hc
      repeat' split at hc
      all_goals first | contradiction | (cases apple <;> simp at hc)
    · exfalso; simp only [convOf] at hc
      repeat' split at hc
      all_goals first | contradiction | (cases apple <;> cases win <;> simp at hc)
    · rfl
  have hrs : e.regSize = 8 := by simp [Env.regSize, harch]
  have hr := a64Ret_some _ (List.mem_range.2 (a64RetDom_lt hret)) hret
  obtain ⟨vs, hvs⟩ := Option.isSome_iff_exists.1 hr
  obtain ⟨s', as, hl, has, hI⟩ := a64_loop apple (sig.args.map (deabstract 8)) {} [] ⟨by simp, by simp, by simp [a64StackEnd]⟩
    (by intro t ht; obtain ⟨u, hu, rfl⟩ := List.mem_map.1 ht; exact hdom u hu)
  refine ⟨ccA64 apple, { argStackSize := alignUp s'.stackOffset 8, rets := vs, args := as, usedGp := s'.usedGp, usedVec := s'.usedVec },
    ?_, has, ?_, by cases apple <;> (unfold frameMatches; decide)⟩
  · simp only [initFuncDetail, hcc, hrs, show ¬ sig.args.length > 32 by omega, if_false]
    have : (ccA64 apple).arch = .a64 := by cases apple <;> rfl
    simp only [this, hvs, hl]
  · cases apple <;> simp [argStackSize, hI.off]

/-- return values: whenever the rules name a register for a return type, the model's answer is that register
    (all TypeIds, SysV / Win64 / AAPCS64 / Apple) -/
theorem ret_matches_abi : ∀ t ∈ List.range 101,
    (∀ r, retLoc .sysv t = some r → isAbstract t = false → (if t = tVoid then some [] else retLoop (x86Ret ccSysv) 0 (unpack .x64 t)).map
        (·.map fun v => (v.regType, v.regId)) = some r) ∧
    (∀ r, retLoc .win64 t = some r → isAbstract t = false → (if t = tVoid then some [] else retLoop (x86Ret ccWin64) 0 (unpack .x64 t)).map
        (·.map fun v => (v.regType, v.regId)) = some r) ∧
    (∀ r, retLoc .aapcs64 t = some r → isAbstract t = false → (if t = tVoid then some [] else retLoop a64Ret 0 [t]).map
        (·.map fun v => (v.regType, v.regId)) = some r) := by
  decide +kernel

/-! ### former deviations, repaired by fixes/C06-14, C06-15, C06-16 (the model follows the repairs; on the unrepaired code these
    three were the witnesses at which `model = rules` was false) -/

/-- SysV: an `__m64` argument is SSE class: xmm0 (the unrepaired code left it without any location). -/
theorem sysv_mmx_repaired :
    (x86ArgLoop ccSysv false 8 0 { stackOffset := 0 } [50]).2 = [[.reg 50 rtVec128 0]] ∧
    argsFrom .sysv false [] [50] = [[.reg 50 rtVec128 0]] := by decide +kernel

/-- SysV: `long double` is passed in memory, 16 bytes, 16-aligned (the unrepaired code assigned xmm0). -/
theorem sysv_float80_repaired :
    x86ArgLoop ccSysv false 8 0 { stackOffset := 0 } [tInt32, 44, 44] =
      ({ gpPos := 1, stackOffset := 32, usedGp := 1 <<< zdi }, [[.reg tInt32 rtGp32 zdi], [.stack 44 0], [.stack 44 16]]) ∧
    argsFrom .sysv false [] [tInt32, 44, 44] = [[.reg tInt32 rtGp32 zdi], [.stack 44 0], [.stack 44 16]] := by decide +kernel

/-- 32-bit `__fastcall`: `f(int32, int64, int32)` – the 64-bit integer goes to the stack as a whole and does not consume a register
    (the unrepaired code split it: low half in edx, high half on the stack). -/
theorem fastcall_int64_repaired :
    ∃ cc d, initFuncDetail ⟨.x86, true, false⟩ { ccid := 2, args := [tInt32, tInt64, tInt32] } = .ok (cc, d) ∧
      d.args = [[.reg tInt32 rtGp32 1], [.stack tUInt32 0, .stack tInt32 4], [.reg tInt32 rtGp32 2]] ∧ d.argStackSize = 8 :=
  ⟨_, _, rfl, by decide +kernel, by decide +kernel⟩

/-! ### non-vacuity: the hypotheses are satisfiable and the statements say something -/
example : convOf ⟨.x64, false, false⟩ 0 = some .sysv := by decide
example : convOf ⟨.x64, true, false⟩ 2 = some .win64 := by decide
example : convOf ⟨.a64, false, true⟩ 0 = some .apple := by decide
example : ∀ t ∈ [tInt8, tUInt64, tFloat32, tFloat64, tFloat80, 49, 50, 79, 89, 99, 45], sysvDom t = true := by decide
-- ten doubles then a 16-byte vector on SysV: registers xmm0-7, stack 0, 8, then the vector at 16; 32 bytes of stack
example : ∃ cc d, initFuncDetail ⟨.x64, false, false⟩ { ccid := 0, args := List.replicate 10 tFloat64 ++ [79] } = .ok (cc, d) ∧
    d.args.drop 8 = [[.stack tFloat64 0], [.stack tFloat64 8], [.stack 79 16]] ∧ d.argStackSize = 32 :=
  ⟨_, _, rfl, by decide +kernel, by decide +kernel⟩

/-! ## Part 2 – the argument shuffle (`Model/ArgShuffle.lean` on `Spec/Machine.lean`)

  Full-strength statement (NOT proved in this generality; proved for register and stack arguments into registers, every covered kind:
  `shuffle_correct_typed`, end of this section):

    theorem shuffle_correct (cfg f argsSa vals) :
      (emitArgsAssignment cfg f argsSa vals).1 = none →
      judge cfg.arch f vals (emitArgsAssignment cfg f argsSa vals).2 = some true

  i.e. whatever list is produced with `kOk` puts into every destination the (extended) value of its argument, for every
  assignment.  What is proved here: (a) the typed move selection – for EVERY pair of integer types and every register pair the
  instruction `emit_arg_move` selects on x86 turns a source-form token into a destination-form token (sign- or zero-extension exactly
  as `VarInfo.required` says), for register and memory sources, and the same for AArch64 moves and loads (fix C06-13); (b) the
  former K3/K4/K5 witnesses, now emitted correctly or refused (fixes C06-11, C06-12, C06-13), and the refusal of a 3-cycle (#20), on
  the model that the correspondence ties to the real code; (c) the schedule-level induction for the register phase
  (`shuffle_regphase_correct`) and, from the real entry point, `shuffle_correct_regs` and its hypothesis-free instance for integer
  arguments `shuffle_correct_int_regs` (end of this section). -/
section Shuffle
open AsmjitVerif.Shuffle AsmjitVerif.Machine

def intTys : List Nat := [34, 35, 36, 37, 38, 39, 40, 41]

/-- token of a variable (dstType, srcType) after the instruction `i` whose source operand carries `srcBytes` bytes -/
def afterMove (dt st : Nat) (i : Inst) (srcBytes : Nat) : Option Tok :=
  let vars := [{ srcType := st, dstType := dt : VarInfo }]
  match i.ops with
  | .reg ra _ :: _ => (effect i.name ra srcBytes).map fun (k, c, w) => moveTok vars (initTok vars 0) k c w
  | _ => none

/-- does the instruction x86 `emit_arg_move` selects for (destination type, source type, registers / stack slot) leave the
    destination register holding the argument in destination form? -/
def x86MoveOk (drt srt dt st d s : Nat) (mem : Bool) : Bool :=
  let src := if mem then Opnd.mem 4 8 0 else .reg srt s
  match x86ArgMove { arch := .x64 } drt d dt src st with
  | some i =>
    match i.ops with
    | [.reg _ d', .reg rb s'] => !mem && d' == d && s' == s && (afterMove dt st i (regBytes rb)).map (·.dv) == some true
    | [.reg _ d', .mem b o sz] => mem && d' == d && b == 4 && o == 8 && (afterMove dt st i sz).map (·.dv) == some true
    | _ => false
  | none => false

/-- **x86 typed move selection**: for every integer destination / source type pair, every GP register pair (any 32/64-bit views)
    (ids 0..3: the ids are only copied into the operands) and for stack sources, `emit_arg_move` selects an instruction after which the destination holds the argument extended as its
    type requires (movsx/movsxd exactly when both are signed and the destination is wider, movzx / 32-bit mov otherwise). -/
theorem x86_int_arg_move_extends : ∀ dt ∈ intTys, ∀ st ∈ intTys, ∀ drt ∈ [5, 6], ∀ srt ∈ [5, 6],
    ∀ d ∈ List.range 4, ∀ s ∈ List.range 4, x86MoveOk drt srt dt st d s false = true ∧ x86MoveOk drt srt dt st d s true = true := by
  decide +kernel

def a64LoadOk (dt st d : Nat) : Bool :=
  match a64ArgMove (if tySize dt ≤ 4 then 5 else 6) d dt (.mem 31 16 0) st with
  | some i =>
    match i.ops with
    | [.reg _ d', .mem 31 16 0] => d' == d && (afterMove dt st i 0).map (·.dv) == some true
    | _ => false
  | none => false

/-- **AArch64 loads of stack arguments** (`ldrsb/ldrsh/ldrsw/ldrb/ldrh/ldr`) extend as required, for every integer type pair
    (fix C06-13; the unrepaired code loaded a widened `uint32` with `ldr x` and sign-extended a signed source into an unsigned
    destination). -/
theorem a64_int_load_extends : ∀ dt ∈ intTys, ∀ st ∈ intTys, ∀ d ∈ List.range 31, a64LoadOk dt st d = true := by
  decide +kernel

/-! ### the former witnesses against the full-strength `shuffle_correct` (model = real code by the `sh` correspondence) -/
def frX64 : FrameIn := ⟨false, false, 4, 8, 8, [0, 0, 0, 0], [0xF038, 0, 0, 0]⟩
def frA64 : FrameIn := ⟨false, false, 31, 0, 0, [0, 0, 0, 0], [0x7FFC0000, 0xFF00, 0, 0]⟩

/-- former K3, repaired by fixes/C06-12: `f(int64 a @rdi, int32 b @rsi)` with a → rsi and b → rdi as int64: the `xchg` is followed
    by `movsxd rdi, edi` in the next pass (the unrepaired code stopped after the `xchg` with kOk). -/
theorem shuffle_swap_ext_repaired :
    let vals := [(FuncValue.reg 40 6 7, some (FuncValue.reg 40 6 6)), (FuncValue.reg 38 5 6, some (FuncValue.reg 40 6 7))]
    let r := emitArgsAssignment { arch := .x64 } frX64 255 vals
    r = (none, [⟨.xchg, false, [.reg 6 6, .reg 6 7]⟩, ⟨.movsxd, false, [.reg 6 7, .reg 5 7]⟩]) ∧
    judge .x64 frX64 vals r.2 = some true := by
  refine ⟨by decide +kernel, by decide +kernel⟩

/-- former K4, repaired by fixes/C06-11: a → rsi, b (in rsi) → xmm7: the occupant's destination is in another group, so no
    exchange; the assignment is refused (`kInvalidAssignment` of the cross-group check) instead of returning kOk with b lost. -/
theorem shuffle_cross_group_refused :
    let vals := [(FuncValue.reg 40 6 7, some (FuncValue.reg 40 6 6)), (FuncValue.reg 40 6 6, some (FuncValue.reg 0 11 7))]
    emitArgsAssignment { arch := .x64 } frX64 255 vals = (some "InvalidAssignment", []) := by decide +kernel

/-- former K5, repaired by fixes/C06-13: AArch64 `int8 @w0 → x0 as int64` is `sxtb x0, w0` (was `mov x0, x0`). -/
theorem shuffle_a64_ext_repaired :
    let vals := [(FuncValue.reg 34 5 0, some (FuncValue.reg 40 6 0))]
    let r := emitArgsAssignment { arch := .a64 } frA64 255 vals
    r = (none, [⟨.sxtb, false, [.reg 6 0, .reg 5 0]⟩]) ∧ judge .a64 frA64 vals r.2 = some true := by
  refine ⟨by decide +kernel, by decide +kernel⟩

/-- #20 (completeness, not soundness): the 3-cycle rdi→rsi→rdx→rdi is refused with kInvalidState although `xchg` could solve it. -/
theorem shuffle_cycle3_refused :
    (emitArgsAssignment { arch := .x64 } frX64 255
      [(FuncValue.reg 40 6 7, some (FuncValue.reg 40 6 6)), (FuncValue.reg 40 6 6, some (FuncValue.reg 40 6 2)),
       (FuncValue.reg 40 6 2, some (FuncValue.reg 40 6 7))]) = (some "InvalidState", []) := by decide +kernel

-- non-vacuity: schedules that are emitted and judged correct (a 2-cycle of same-type registers; a widening self-move; a stack load)
example :
    let vals := [(FuncValue.reg 40 6 7, some (FuncValue.reg 40 6 6)), (FuncValue.reg 40 6 6, some (FuncValue.reg 40 6 7))]
    let r := emitArgsAssignment { arch := .x64 } frX64 255 vals
    r.1 = none ∧ r.2.length = 1 ∧ judge .x64 frX64 vals r.2 = some true := by decide +kernel
example :
    let vals := [(FuncValue.reg 34 5 7, some (FuncValue.reg 40 6 7)), (FuncValue.stack 36 0, some (FuncValue.reg 38 5 3))]
    let r := emitArgsAssignment { arch := .x64 } frX64 255 vals
    r.1 = none ∧ r.2.length = 2 ∧ judge .x64 frX64 vals r.2 = some true := by decide +kernel

/-! ### the register phase, every assignment (schedule-level induction)

  `Lemmas/C06ShuffleInv|Step|Swap|Loop` prove, by induction over the visits of a pass and over the passes of the `for (;;)` loop of
  `emit_args_assignment`, the invariant `C06S.WF`:
    * `_phys_to_var_id` is the inverse of the variables' current registers;
    * every variable's value sits in its current register as a token of that variable – in source form while it was never moved,
      in destination form after a move (to its destination *or* to a scratch register) or an exchange;
    * an instruction only writes a register that holds no variable (`EmitMove` into an unassigned register / a self-move), or
      exchanges two variables' registers (`xchg`) updating both; done variables sit in their destination in destination form;
    * a variable that an exchange moved keeps source form (an exchange extends nothing) and is left not done when it needs
      extension (fix C06-12), so a later pass extends it in place.
  Consequence (`shuffle_regphase_correct`): for ANY number of register arguments in any groups (GP, vector, mask, mm) with arbitrary
  injective register destinations – chains, 2-cycles (exchanged on x86 GP, broken through a scratch register elsewhere), longer
  cycles (through a scratch register where there is no `xchg`; refused on x86 GP, defect #20), widening self-moves – if the pass loop
  returns `ok`, the emitted list, executed on the machine from the state that held the context's tokens, leaves every variable's
  destination register holding that variable in destination form.
  Hypotheses `C06S.Hyp`:
    * `first`/`again` – the instruction `emit_arg_move` selects for the variable's (destination, source) register types and type ids
      is a two-register move inside the group that produces destination form (proved for every integer pair on x86 and, with
      fix C06-13, on AArch64: `C06S.x86_int_moves_ok`, `C06S.a64_int_moves_ok`);
    * `visOk` – the machine judges with the variables' own type ids; `swapInt` – variables of the group that has an exchange
      instruction (x86 GP) are concrete integers that fit their registers.  No hypothesis about exchanges is left (fix C06-12).
    * a destination in another group (former K4) is excluded by `WF` itself and refused by the code (fix C06-11).
  NOT covered by this theorem (stated, not proved): (1) that `init_work_data` establishes `WF` for the initial context (a fold over
  the arguments; needs pairwise distinct source registers, which every FuncDetail has) – so the statement below starts from a
  well-formed context instead of from `emitArgsAssignment`; (2) phase 1 (stack destinations) and phase 3 (stack sources) and the
  stack-argument (SA) variable. -/
theorem shuffle_regphase_correct (p : C06S.Params) (hy : C06S.Hyp p) (e : Emit) (M : State) (hw : C06S.WF p e M)
    (fuel : Nat) (e' : Emit) (h : shuffleLoop p.cfg p.n fuel e {} = .ok e')
    (hall : ∀ i, i < p.n → (e'.ctx.var i).cur.isReg = true) :
    ∃ M', run p.vis p.f p.cfg.arch p.M0 e'.out = some M' ∧
      ∀ i, i < p.n → destOk M' i (.reg (groupOf (p.out i).regType) (p.out i).regId) = true :=
  C06S.regphase_correct p hy e M hw fuel e' h hall

/-- **phase 3 (the load tail), every assignment**: from a well-formed context in which every register variable is done (what the
    pass loop leaves), for any number of stack-resident variables, if the load loop returns `ok` then it needed one iteration and
    the emitted list leaves EVERY destination register holding its variable in destination form – the loads hit only registers that
    hold no variable (destinations are pairwise distinct) and read the slot the argument arrived in.  Hypotheses `C06S.Hyp3`: the
    selected load produces destination form (`load`), no destination is the register the stack arguments are addressed through
    (`nsa`), destinations pairwise distinct (`dd`), and that register addresses the incoming arguments (`saLoc`: `sp` without dynamic
    alignment, the frame pointer with it – the moving SA variable is NOT covered).  The invariant `WF` is the generalised one
    (register-resident variables `VarOK`, stack-resident variables `StkOK`); all phase-2 lemmas are proved for it, so phase 2 followed by
    phase 3 composes.  Not yet linked to `emitArgsAssignment` (the `init_work_data` lemma still assumes register sources). -/
theorem shuffle_phase3_correct (p : C06S.Params) (sa : Nat) (h3 : C06S.Hyp3 p sa) (e : Emit) (M : State) (hw : C06S.WF p e M)
    (hd : C06S.AllRegDone p e) (e' : Emit) (ic' : Nat)
    (h : (List.range p.n).foldlM (stackLoadVar p.cfg p.f sa) (e, 1) = .ok (e', ic')) :
    ic' = 1 ∧ ∃ M', run p.vis p.f p.cfg.arch p.M0 e'.out = some M' ∧
      ∀ i, i < p.n → destOk M' i (.reg (groupOf (p.out i).regType) (p.out i).regId) = true := by
  obtain ⟨hic, ⟨M', hw'⟩, hd', hall, _⟩ := C06S.phase3_ok p sa h3 (List.range p.n) e M hw hd (fun j hj => List.mem_range.1 hj) e' ic' h
  refine ⟨hic, M', hw'.runs, fun i hi => ?_⟩
  have hr := hall i (List.mem_range.2 hi)
  have hv := hw'.var i hi hr
  obtain ⟨tok, hget, htv, _, hdn⟩ := hv.tok
  obtain ⟨hreg, hdv⟩ := hdn (hd' i hi hr)
  unfold destOk
  have : M'.get (Loc.reg (groupOf (p.out i).regType) (p.out i).regId) = some tok := by
    rw [← hv.out, ← hv.grp, ← hreg]; exact hget
  simp [this, htv, hdv]

/-- **`shuffle_correct`, register-only assignments, from the real entry point.**  For every assignment in which every argument
    sits in a register (id < 32, no two arguments in the same register – true of every FuncDetail) and is assigned a register of
    the same group (`RegOnly`; a destination in another group is refused, fix C06-11): if `emit_args_assignment` returns kOk with list
    `prog`, then `judge (run prog (setup …)) = true`, i.e. every destination holds its argument extended as its type requires.
    Hypotheses: `Hyp` (the selected moves produce destination form; discharged for integers in `shuffle_correct_int_regs`) and
    `DoneInitOk` (a variable `init_work_data` marks done in place needs no conversion – false e.g. for a float source whose
    destination is the same vector register typed double).  `Lemmas/C06ShuffleInit|Top` prove that `init_work_data` establishes
    the invariant (`initWorkData_wf`), so nothing is assumed about the context.
    Still excluded: stack sources / destinations (phases 1 and 3) and a requested SA register (`args.sa_reg_id`). -/
theorem shuffle_correct_regs (cfg : Cfg) (f : FrameIn) (vals : List (FuncValue × Option FuncValue))
    (hr : C06S.RegOnly vals) (hd0 : C06S.DoneInitOk vals) (hy : C06S.Hyp (C06S.paramsOf cfg f vals))
    (hok : (emitArgsAssignment cfg f 255 vals).1 = none) :
    judge cfg.arch f vals (emitArgsAssignment cfg f 255 vals).2 = some true :=
  C06S.shuffle_correct_regs cfg f vals hr hd0 hy hok

/-- **`Hyp.first` / `Hyp.again` hold for every x86 integer variable and EVERY register id** (32-bit and 64-bit targets, SSE / AVX /
    AVX-512 emitters): `x86ArgMove` is `x86Sel` (which never sees a register id) followed by `MoveSel.apply`, so the finite check
    `C06S.x86_int_sel_ok` over all integer type pairs and GP32/GP64 views lifts to all ids (`C06S.moveOkAt_x86`).  Together with
    `shuffle_correct_regs` this removes the selection hypothesis for integer arguments on x86 (see `shuffle_correct_int_regs`). -/
theorem x86_int_hyp_all_ids (cfg : Cfg) (hcfg : cfg ∈ C06S.x86Cfgs) (vis : List VarInfo) (i dt st rtD rtS : Nat)
    (hdt : dt ∈ intTys) (hst : st ∈ intTys) (hrd : rtD ∈ [5, 6]) (hrs : rtS ∈ [5, 6]) (hvi : vis[i]? = some ⟨st, dt⟩) (d s : Nat) :
    C06S.moveOkAt cfg vis rtD dt rtS st (initTok vis i) d s = true ∧
    ∀ b, C06S.moveOkAt cfg vis rtD dt rtD dt ⟨i, b, true⟩ d s = true :=
  C06S.x86_int_moves_ok cfg hcfg vis i dt st rtD rtS hdt hst hrd hrs hvi d s

/-- former K7, repaired by fixes/C06-9 (the model follows the repair): a float in xmm0 whose destination is xmm0 typed double is
    no longer marked done by `init_work_data`; the self-move `cvtss2sd xmm0, xmm0` is emitted and the destination is right.
    (On the unrepaired code nothing was emitted and kOk returned.) -/
theorem shuffle_same_reg_conv_repaired :
    let vals := [(FuncValue.reg 42 11 0, some (FuncValue.reg 80 11 0))]
    let r := emitArgsAssignment { arch := .x64 } frX64 255 vals
    r = (none, [⟨.cvtss2sd, false, [.reg 11 0, .reg 11 0]⟩]) ∧ judge .x64 frX64 vals r.2 = some true := by
  refine ⟨by decide +kernel, by decide +kernel⟩

/-- former K8, repaired by fixes/C06-8: AArch64, dynamically aligned frame without frame pointer, `x0 -> x1`.
    (a) when the frame's SA register is the one `init_work_data` now picks (a register that is no destination: x2) the assignment is
    emitted and judged correct with the base pointer tracked; (b) when the caller forces the SA register into the destination (x1)
    the pass bound `2·var_count + 2` ends the ping-pong with `kInvalidState` after ten moves – on the unrepaired code the call never
    returned. -/
theorem shuffle_a64_sa_repaired :
    let fr2 : FrameIn := ⟨false, true, 2, -1, 0, [12799, 0, 0, 0], [2147221504, 65280, 0, 0]⟩
    let fr1 : FrameIn := ⟨false, true, 1, -1, 0, [12799, 0, 0, 0], [2147221504, 65280, 0, 0]⟩
    let vals := [(FuncValue.reg 40 6 0, some (FuncValue.reg 0 6 1)), (FuncValue.stack 40 0, some (FuncValue.reg 0 6 9)),
                 (FuncValue.stack 40 8, some (FuncValue.reg 0 6 10))]
    let r2 := emitArgsAssignment { arch := .a64 } fr2 255 vals
    let r1 := emitArgsAssignment { arch := .a64 } fr1 255 vals
    r2.1 = none ∧ judgeSA .a64 fr2 vals r2.2 = some true ∧ r1.1.isSome = true ∧ r1.2.length = 10 := by decide +kernel

/-- fixes/C06-10: a requested SA register that is not an allocable GP register (here the stack pointer, `set_sa_reg_id(rsp)`) is refused
    with `kInvalidPhysId`, like a destination register of an argument would be.  The unrepaired code accepted it, emitted
    `mov rsp, rbp` and loaded the stack argument from `[rsp + 7]` with `kOk`. -/
theorem shuffle_sa_sp_refused :
    let fr : FrameIn := ⟨false, true, 5, -1, 8, [0, 0, 0, 0], [0xF038, 0, 0, 0]⟩
    let vals := [(FuncValue.reg 40 6 7, none), (FuncValue.stack 40 8, some (FuncValue.reg 0 5 10))]
    emitArgsAssignment { arch := .x64 } fr 4 vals = (some "InvalidPhysId", []) := by decide +kernel

/-! non-vacuity: the 2-cycle `rdi -> rsi, rsi -> rdi` of two int64 arguments on x86-64 satisfies every hypothesis, the model returns
    kOk, and the initial context `init_work_data` builds for it satisfies the invariant `WF` -/
def vals2 : List (FuncValue × Option FuncValue) :=
  [(FuncValue.reg 40 6 7, some (FuncValue.reg 40 6 6)), (FuncValue.reg 40 6 6, some (FuncValue.reg 40 6 7))]

theorem vals2_regOnly : C06S.RegOnly vals2 := by
  constructor
  · intro i hi
    have : i = 0 ∨ i = 1 := by simp [vals2] at hi; omega
    rcases this with rfl | rfl <;> exact ⟨rfl, ⟨rfl, rfl, rfl, by decide, rfl, rfl⟩⟩
  · intro i j hi hj hij
    have h1 : i = 0 ∨ i = 1 := by simp [vals2] at hi; omega
    have h2 : j = 0 ∨ j = 1 := by simp [vals2] at hj; omega
    rcases h1 with rfl | rfl <;> rcases h2 with rfl | rfl <;> first | exact absurd rfl hij | decide

theorem vals2_intRegs : C06S.IntRegs vals2 := by
  intro i hi
  have : i = 0 ∨ i = 1 := by simp [vals2] at hi; omega
  rcases this with rfl | rfl <;> decide +kernel

theorem vals2_doneInit : C06S.DoneInitOk vals2 := C06S.doneInitOk_of_int vals2 vals2_regOnly vals2_intRegs

theorem vals2_hyp : C06S.Hyp (C06S.paramsOf { arch := .x64 } frX64 vals2) :=
  C06S.hyp_of_int _ (Or.inl (by simp [C06S.x86Cfgs])) frX64 vals2 vals2_regOnly vals2_intRegs

example : (emitArgsAssignment { arch := .x64 } frX64 255 vals2).1 = none ∧
    judge .x64 frX64 vals2 (emitArgsAssignment { arch := .x64 } frX64 255 vals2).2 = some true :=
  ⟨by decide +kernel, shuffle_correct_regs _ _ _ vals2_regOnly vals2_doneInit vals2_hyp (by decide +kernel)⟩

/-- a concrete reachable initial context satisfies the invariant -/
example : ∃ ctx, initWorkData .x64 frX64 255 vals2 = .ok ctx ∧
    C06S.WF (C06S.paramsOf { arch := .x64 } frX64 vals2) { ctx := ctx } (C06S.paramsOf { arch := .x64 } frX64 vals2).M0 := by
  cases h : initWorkData .x64 frX64 255 vals2 with
  | error e =>
    have : (match initWorkData .x64 frX64 255 vals2 with | .ok _ => true | .error _ => false) = true := by decide +kernel
    rw [h] at this; exact absurd this (by simp)
  | ok ctx => exact ⟨ctx, rfl, (C06S.initWorkData_wf { arch := .x64 } frX64 vals2 vals2_regOnly vals2_doneInit ctx h).1⟩

/-- **`shuffle_correct` for integer arguments in GP registers – x86 (32/64-bit; SSE / AVX / AVX-512 emitters) and AArch64, every
    assignment, from the real entry point, no hypothesis on the code's choices.**  For any number of arguments that are concrete
    integers (int8 … uint64) sitting in pairwise distinct 32/64-bit GP registers wide enough for their types, assigned to GP
    registers with any integer destination types (narrower, equal or wider; signed or unsigned; destination TypeId may be left to the
    register): if `emit_args_assignment` returns kOk then every destination register holds its argument, sign-extended when both
    types are signed and zero-extended otherwise – however sources and destinations overlap (chains, exchanged 2-cycles with or
    without widening, cycles broken through a scratch register, widening in place).  This is the statement that was false at the
    K3 and K5 witnesses before fixes C06-12 / C06-13. -/
theorem shuffle_correct_int_regs (cfg : Cfg) (hcfg : cfg ∈ C06S.x86Cfgs ∨ cfg.arch = .a64) (f : FrameIn)
    (vals : List (FuncValue × Option FuncValue)) (hr : C06S.RegOnly vals) (hint : C06S.IntRegs vals)
    (hok : (emitArgsAssignment cfg f 255 vals).1 = none) :
    judge cfg.arch f vals (emitArgsAssignment cfg f 255 vals).2 = some true :=
  C06S.shuffle_correct_int_regs cfg hcfg f vals hr hint hok

/-- non-vacuity of `shuffle_correct_int_regs` at the former K3 witness: the hypotheses hold and the code answers kOk -/
def valsK3 : List (FuncValue × Option FuncValue) :=
  [(FuncValue.reg 40 6 7, some (FuncValue.reg 40 6 6)), (FuncValue.reg 38 5 6, some (FuncValue.reg 40 6 7))]

theorem valsK3_regOnly : C06S.RegOnly valsK3 := by
  constructor
  · intro i hi
    have : i = 0 ∨ i = 1 := by simp [valsK3] at hi; omega
    rcases this with rfl | rfl <;> exact ⟨rfl, ⟨rfl, rfl, rfl, by decide, rfl, rfl⟩⟩
  · intro i j hi hj hij
    have h1 : i = 0 ∨ i = 1 := by simp [valsK3] at hi; omega
    have h2 : j = 0 ∨ j = 1 := by simp [valsK3] at hj; omega
    rcases h1 with rfl | rfl <;> rcases h2 with rfl | rfl <;> first | exact absurd rfl hij | decide

theorem valsK3_intRegs : C06S.IntRegs valsK3 := by
  intro i hi
  have : i = 0 ∨ i = 1 := by simp [valsK3] at hi; omega
  rcases this with rfl | rfl <;> decide +kernel

example : judge .x64 frX64 valsK3 (emitArgsAssignment { arch := .x64 } frX64 255 valsK3).2 = some true :=
  shuffle_correct_int_regs { arch := .x64 } (Or.inl (by simp [C06S.x86Cfgs])) frX64 valsK3 valsK3_regOnly valsK3_intRegs (by decide +kernel)

/-- **every register group** (round 10): like `shuffle_correct_int_regs`, for register-only assignments whose variables are of any
    covered kind (`C06S.KindOk`): integers in GP registers; float / double / any vector type in vector registers (x86 xmm/ymm/zmm
    under SSE, AVX and AVX-512 emitters; AArch64 b/h/s/d/q views), including float <-> double conversions; on x86 opmask types in k
    registers and `__m64` in mm registers.  No hypothesis about the code's choices; any frame. -/
theorem shuffle_correct_typed_regs (cfg : Cfg) (hcfg : cfg ∈ C06S.x86Cfgs ∨ cfg.arch = .a64) (f : FrameIn)
    (vals : List (FuncValue × Option FuncValue)) (hr : C06S.RegOnly vals) (ht : C06S.TypedRegs cfg.arch vals)
    (hok : (emitArgsAssignment cfg f 255 vals).1 = none) :
    judge cfg.arch f vals (emitArgsAssignment cfg f 255 vals).2 = some true :=
  C06S.shuffle_correct_typed_regs cfg hcfg f vals hr ht hok

/-- **headline (round 10): register AND stack arguments into registers, from the real entry point, no hypothesis about the code's
    choices.**  Inputs (`C06S.SrcDst`, `C06S.TypedSrcs`): every argument has a register destination; register arguments sit in pairwise
    distinct registers and stay in their group, stack arguments in pairwise distinct slots, destinations pairwise distinct (the API
    answers kOverlappedRegs otherwise); every variable is of a covered kind (as above; for stack arguments the slot's type and the
    destination's type/register).  Frame: the incoming stack arguments are addressed through sp or the frame pointer
    (`hsa`: not "dynamic alignment without frame pointer"), and that register is no destination (`hnsa`; the API refuses it).
    Then: `init_work_data` establishes the invariant (`C06S.initWorkData_wf2`), the pass loop leaves every register argument done
    (`C06S.loop_ok`), the load loop needs one iteration and loads every stack argument from the slot it arrived in into a register
    that holds no variable (`C06S.phase3_ok`), and `judge` = true: every destination holds its argument extended / converted as its
    type requires.
    NOT covered (`_partial` in this sense; full statement at the top of this section): stack destinations (phase 1), the moving
    stack-arguments base pointer (dynamic alignment without frame pointer, or `set_sa_reg_id`), `long double`; and the clause
    "nothing else the convention preserves is clobbered" is only implied for the variables' own registers (a write hits an
    unassigned register of `work_regs` or exchanges two variables) – preserved-register bookkeeping is C07's frame. -/
theorem shuffle_correct_typed (cfg : Cfg) (hcfg : cfg ∈ C06S.x86Cfgs ∨ cfg.arch = .a64) (f : FrameIn)
    (vals : List (FuncValue × Option FuncValue)) (hr : C06S.SrcDst vals) (ht : C06S.TypedSrcs cfg.arch vals)
    (hsa : (f.da && !f.fp) = false)
    (hnsa : ∀ i, i < vals.length →
      ¬ ((C06S.dstAt vals i).regId = C06S.saFixed cfg.arch f ∧ groupOf (C06S.dstAt vals i).regType = 0))
    (hok : (emitArgsAssignment cfg f 255 vals).1 = none) :
    judge cfg.arch f vals (emitArgsAssignment cfg f 255 vals).2 = some true :=
  C06S.shuffle_correct_typed cfg hcfg f vals hr ht hsa hnsa hok

/-- the same with the selection facts as hypotheses (any types): what remains to be assumed outside the covered kinds -/
theorem shuffle_correct_srcs_partial (cfg : Cfg) (f : FrameIn) (vals : List (FuncValue × Option FuncValue))
    (hr : C06S.SrcDst vals) (hd0 : C06S.DoneInitOk2 vals) (hsa : (f.da && !f.fp) = false)
    (hy : C06S.Hyp (C06S.paramsOf cfg f vals))
    (hload : ∀ i d off, i < vals.length → d < 32 →
      C06S.loadOkAt cfg (C06S.paramsOf cfg f vals).vis ((C06S.paramsOf cfg f vals).out i).regType
        ((C06S.paramsOf cfg f vals).out i).typeId ((C06S.paramsOf cfg f vals).src i).typeId
        (initTok (C06S.paramsOf cfg f vals).vis i) d (C06S.saFixed cfg.arch f) off = true)
    (hnsa : ∀ i, i < vals.length →
      ¬ ((C06S.dstAt vals i).regId = C06S.saFixed cfg.arch f ∧ groupOf (C06S.dstAt vals i).regType = 0))
    (hok : (emitArgsAssignment cfg f 255 vals).1 = none) :
    judge cfg.arch f vals (emitArgsAssignment cfg f 255 vals).2 = some true :=
  C06S.shuffle_correct_srcs cfg f vals hr hd0 hsa hy hload hnsa hok

/-- non-vacuity of `shuffle_correct_typed`: a widening register argument, a stack argument and a float -> double conversion -/
def valsMix : List (FuncValue × Option FuncValue) :=
  [(FuncValue.reg 34 5 7, some (FuncValue.reg 40 6 6)), (FuncValue.stack 36 0, some (FuncValue.reg 38 5 3)),
   (FuncValue.reg 42 11 0, some (FuncValue.reg 80 11 1))]

theorem valsMix_srcDst : C06S.SrcDst valsMix := by
  refine ⟨?_, ?_, ?_⟩
  · intro i hi
    have : i = 0 ∨ i = 1 ∨ i = 2 := by simp [valsMix] at hi; omega
    rcases this with rfl | rfl | rfl
    · exact ⟨rfl, Or.inl ⟨rfl, rfl, rfl, by decide, rfl, rfl⟩⟩
    · exact ⟨rfl, Or.inr ⟨rfl, rfl, rfl, rfl⟩⟩
    · exact ⟨rfl, Or.inl ⟨rfl, rfl, rfl, by decide, rfl, rfl⟩⟩
  · intro i j hi hj hij
    have h1 : i = 0 ∨ i = 1 ∨ i = 2 := by simp [valsMix] at hi; omega
    have h2 : j = 0 ∨ j = 1 ∨ j = 2 := by simp [valsMix] at hj; omega
    rcases h1 with rfl | rfl | rfl <;> rcases h2 with rfl | rfl | rfl <;> first | exact absurd rfl hij | decide
  · intro i j hi hj hij
    have h1 : i = 0 ∨ i = 1 ∨ i = 2 := by simp [valsMix] at hi; omega
    have h2 : j = 0 ∨ j = 1 ∨ j = 2 := by simp [valsMix] at hj; omega
    rcases h1 with rfl | rfl | rfl <;> rcases h2 with rfl | rfl | rfl <;> first | exact absurd rfl hij | decide

theorem valsMix_typed : C06S.TypedSrcs .x64 valsMix := by
  intro i hi
  have : i = 0 ∨ i = 1 ∨ i = 2 := by simp [valsMix] at hi; omega
  rcases this with rfl | rfl | rfl
  · exact ⟨fun _ => Or.inl (by decide), fun h => absurd h (by decide)⟩
  · exact ⟨fun h => absurd h (by decide), fun _ => Or.inl (by decide)⟩
  · exact ⟨fun _ => Or.inr (Or.inl (by decide)), fun h => absurd h (by decide)⟩

example : judge .x64 frX64 valsMix (emitArgsAssignment { arch := .x64 } frX64 255 valsMix).2 = some true :=
  shuffle_correct_typed { arch := .x64 } (Or.inl (by simp [C06S.x86Cfgs])) frX64 valsMix valsMix_srcDst valsMix_typed (by decide)
    (by
      intro i hi
      have : i = 0 ∨ i = 1 ∨ i = 2 := by simp [valsMix] at hi; omega
      rcases this with rfl | rfl | rfl <;> decide)
    (by decide +kernel)

-- non-vacuity of the selection hypotheses: an x86-64 int64 -> int64 variable satisfies `first` and `again` for every register pair
example : ∀ d ∈ List.range 32, ∀ s ∈ List.range 32,
    C06S.moveOkAt { arch := .x64 } [⟨40, 40⟩] 6 40 6 40 (initTok [⟨40, 40⟩] 0) d s = true ∧
    C06S.moveOkAt { arch := .x64 } [⟨40, 40⟩] 6 40 6 40 ⟨0, false, true⟩ d s = true := by decide +kernel
-- the former K5 class satisfies them now (fix C06-13: `sxtb`)
example : C06S.moveOkAt { arch := .a64 } [⟨34, 40⟩] 6 40 5 34 (initTok [⟨34, 40⟩] 0) 0 0 = true := by decide +kernel
-- an exchange alone does not extend (why fix C06-12 leaves a widening variable of an exchanged pair not done)
example : (C06S.swapTok [⟨40, 40⟩] 6 (initTok [⟨40, 40⟩] 0)).dv = true := by decide +kernel
example : (C06S.swapTok [⟨38, 40⟩] 6 (initTok [⟨38, 40⟩] 0)).dv = false := by decide +kernel

end Shuffle

end AsmjitVerif.C06
