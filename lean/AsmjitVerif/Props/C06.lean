import AsmjitVerif.Model.CallConv
import AsmjitVerif.Spec.ABI
namespace AsmjitVerif.C06
open AsmjitVerif.CallConv AsmjitVerif.ABI

theorem placeholder : (1 : Nat) = 1 := rfl

end AsmjitVerif.C06
