/-
C16 (3) — reuse of one Compiler / register-allocator pass for many functions: after `run_on_function` nothing the
Compiler keeps (nodes' pass data, virtual registers' work registers, the pass's own vectors) points into the pass arena,
for every function, every set of used / spilled registers and every number of functions (repaired code, fixes/C16-2.patch);
the pinned code leaves dead `RABlock` pointers in label nodes (witness).  Model: Model/RAReuse.lean (lifetimes only).
Tie: harness/c16.cpp prints pd / wr (nodes with pass data, virtual registers with a work register) in every dump and the
Lean monitor `noDeadRefs` (Spec/Reuse.lean) demands both to be 0 - on x86 and AArch64 Compiler programs.
-/
import AsmjitVerif.Model.RAReuse
namespace AsmjitVerif.RAReuse

/-- **one function leaves nothing behind** (any function id, any use / spill sets, any clean starting state) -/
theorem run_on_function_clean (s : St) (f : Nat) (uses spilled : Nat → Bool) (h : clean s) :
    clean (runOnFunction true s f uses spilled) := by
  obtain ⟨hn, hv, _⟩ := h
  refine ⟨?_, ?_, rfl⟩
  · intro n hmem
    simp only [runOnFunction, cleanup, resetVirtRegData, resetNodePassData, rewrite, build, if_true, List.map_map,
      List.mem_map, List.mem_mapIdx] at hmem
    obtain ⟨m, ⟨i, hi, rfl⟩, rfl⟩ := hmem
    have h0 := hn s.nodes[i] (List.getElem_mem hi)
    generalize s.nodes[i] = nd at h0 ⊢
    cases nd with | mk k fn p =>
    simp only at h0
    subst h0
    by_cases hf : fn = f <;> cases k <;> simp [hf]
  · intro v hmem
    simp only [runOnFunction, cleanup, resetVirtRegData, resetNodePassData, rewrite, build, if_true, List.mem_mapIdx,
      List.getElem_mapIdx] at hmem
    obtain ⟨i, hi, rfl⟩ := hmem
    have hi' : i < s.vregs.length := by simpa using hi
    have h0 := hv s.vregs[i] (List.getElem_mem hi')
    by_cases hu : uses i = true <;> simp [hu, h0]

/-- **… for any number of functions** (`BaseRAPass::run`): multi-function reuse of one Compiler -/
theorem run_all_clean (fs : List Nat) (uses spilled : Nat → Nat → Bool) : ∀ s, clean s → clean (runAll true s uses spilled fs) := by
  induction fs with
  | nil => intro s h; exact h
  | cons f r ih => intro s h; exact ih _ (run_on_function_clean s f (uses f) (spilled f) h)

/-- what the harness prints is then zero -/
theorem pd_wr_zero_of_clean (s : St) (h : clean s) : pd s = 0 ∧ wr s = 0 := by
  obtain ⟨hn, hv, _⟩ := h
  constructor
  · simp only [pd, List.length_eq_zero_iff, List.filter_eq_nil_iff]
    intro n hmem; simp [hn n hmem]
  · simp only [wr, List.length_eq_zero_iff, List.filter_eq_nil_iff]
    intro v hmem; simp [hv v hmem]

/-- a two-function program: f0 = label, inst, inst; f1 = inst, label; three virtual registers -/
def sample : St :=
  { nodes := [{ kind := .label, fn := 0 }, { kind := .inst, fn := 0 }, { kind := .inst, fn := 0 },
              { kind := .inst, fn := 1 }, { kind := .label, fn := 1 }, { kind := .other, fn := 1 }],
    vregs := [{}, {}, {}] }

-- non-vacuity: the sample is clean, and the allocator really creates data for it before cleaning up
example : clean sample := by decide
example : pd (build sample 0 fun _ => true) = 3 ∧ wr (build sample 0 fun _ => true) = 3 := by decide
example : pd (runAll true sample (fun _ _ => true) (fun _ i => i == 1) [0, 1]) = 0 := by decide
-- the spill information deliberately survives on the VirtReg (`assign_stack_slot`), the pointer does not
example : (runAll true sample (fun _ _ => true) (fun _ i => i == 1) [0, 1]).vregs = [{}, { hasStack := true }, {}] := by decide

/-- **the pinned code** (no reset of label pass data): after the first function its label node holds a pointer of
    generation 0 while the arena is at generation 1 - a dead `RABlock*`; it is still there after the second function. -/
def pinned1 : St := runOnFunction false sample 0 (fun _ => true) (fun _ => false)
def pinned2 : St := runAll false sample (fun _ _ => true) (fun _ _ => false) [0, 1]

theorem unfixed_leaves_dead_pointer_witness :
    (pinned1.nodes.head?.bind (·.pass)).map (Ptr.dead pinned1) = some true ∧ pd pinned1 = 1 ∧
    (pinned2.nodes.head?.bind (·.pass)).map (Ptr.dead pinned2) = some true ∧ pd pinned2 = 2 ∧ ¬ clean pinned2 := by decide

end AsmjitVerif.RAReuse
