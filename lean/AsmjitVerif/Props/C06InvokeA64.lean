/-
  C06 – AArch64 invoke lowering (`a64LowerValue` of Model/InvokeLower.lean on the byte machine Spec/InvokeMachineA64.lean).
    * `a64_imm_value`: for every 64-bit immediate and every integer type the value `move_imm_to_reg_arg` moves has the immediate's
      low `size_of(type)` bytes;
    * `store8_first_and_overflow`: the 8-byte `str` of an immediate stack argument leaves the value's first byte at the argument's
      address – and also writes the byte 7 places further, whatever was there (the next packed Apple arguments or the caller's
      locals): the open finding C06-K10 on the byte machine.
  The real post-RA lists of every generated AArch64 call are judged by the byte machine (monitor); no list theorem for AArch64.
-/
import AsmjitVerif.Model.InvokeLower
import AsmjitVerif.Spec.InvokeMachineA64
import AsmjitVerif.Props.C06Invoke
import Std.Tactic.BVDecide
namespace AsmjitVerif.C06InvokeA64
open AsmjitVerif.CallConv AsmjitVerif.Invoke AsmjitVerif.InvokeSpec AsmjitVerif.InvokeSpecA64 AsmjitVerif.C06Invoke

theorem a64_imm_value (imm : BitVec 64) :
    (∀ w, a64ImmValue 34 imm = some w → lowBytes 1 w = lowBytes 1 imm) ∧ (∀ w, a64ImmValue 35 imm = some w → lowBytes 1 w = lowBytes 1 imm) ∧
    (∀ w, a64ImmValue 36 imm = some w → lowBytes 2 w = lowBytes 2 imm) ∧ (∀ w, a64ImmValue 37 imm = some w → lowBytes 2 w = lowBytes 2 imm) ∧
    (∀ w, a64ImmValue 38 imm = some w → lowBytes 4 w = lowBytes 4 imm) ∧ (∀ w, a64ImmValue 39 imm = some w → lowBytes 4 w = lowBytes 4 imm) ∧
    (∀ w, a64ImmValue 40 imm = some w → w = imm) ∧ (∀ w, a64ImmValue 41 imm = some w → w = imm) := by
  refine ⟨?_, ?_, ?_, ?_, ?_, ?_, ?_, ?_⟩ <;> intro w h <;> simp [a64ImmValue] at h <;> subst h
  · rw [lb1, lb1]; simp only [sext8]; bv_decide
  · rw [lb1, lb1]; simp only [zext8]; bv_decide
  · rw [lb2, lb2]; simp only [sext16]; bv_decide
  · rw [lb2, lb2]; simp only [zext16]; bv_decide
  · rw [lb4, lb4]; simp only [sext32]; bv_decide
  · rw [lb4, lb4]; simp only [zext32]; bv_decide
  · rfl
  · rfl

theorem byte_setByte_same (m : MA) (a : Int) (b : BVal) : (m.setByte a b).byte a = some b := by simp [MA.setByte, MA.byte]

theorem byte_setByte_ne (m : MA) (a a' : Int) (b : BVal) (h : a ≠ a') : (m.setByte a b).byte a' = m.byte a' := by
  unfold MA.setByte MA.byte
  simp only
  have h1 : ((a, b).1 == a') = false := by simpa using h
  simp only [List.find?_cons, h1]
  congr 1
  induction m.mem with
  | nil => rfl
  | cons x l ih =>
    by_cases hx : x.1 = a
    · have : (x.1 != a) = false := by simp [hx]
      have h2 : (x.1 == a') = false := by simp [hx]; exact h
      simp [List.filter, this, h2, ih]
    · have : (x.1 != a) = true := by simpa using hx
      simp only [List.filter, this, List.find?_cons]
      split <;> simp_all

/-- the first byte an 8-byte store writes, read back; and the bytes it writes BEYOND a 1-byte argument (open finding C06-K10):
    whatever was at `a + 1 … a + 7` – the next packed arguments, or the caller's locals – is replaced -/
theorem store8_first_and_overflow (m : MA) (a : Int) (v : BitVec 64) :
    (storeBytes m a 8 v).byte a = some (.num (byteOf v 0)) ∧
    (storeBytes m a 8 v).byte (a + 7) = some (.num (byteOf v 7)) := by
  have ne : ∀ (i j : Nat), i ≠ j → a + (i : Int) ≠ a + (j : Int) := fun i j h => by omega
  unfold storeBytes
  simp only [List.range, List.range.loop, List.foldl]
  refine ⟨?_, ?_⟩
  · rw [byte_setByte_ne _ _ _ _ (by have := ne 7 0 (by decide); simpa using this),
        byte_setByte_ne _ _ _ _ (by have := ne 6 0 (by decide); simpa using this),
        byte_setByte_ne _ _ _ _ (by have := ne 5 0 (by decide); simpa using this),
        byte_setByte_ne _ _ _ _ (by have := ne 4 0 (by decide); simpa using this),
        byte_setByte_ne _ _ _ _ (by have := ne 3 0 (by decide); simpa using this),
        byte_setByte_ne _ _ _ _ (by have := ne 2 0 (by decide); simpa using this),
        byte_setByte_ne _ _ _ _ (by have := ne 1 0 (by decide); simpa using this)]
    simpa using byte_setByte_same m (a + (0 : Nat)) (.num (byteOf v 0))
  · simpa using byte_setByte_same _ (a + (7 : Nat)) (.num (byteOf v 7))

end AsmjitVerif.C06InvokeA64
