/-
  C06 – AArch64 invoke lowering (`a64LowerValue` of Model/InvokeLower.lean on the byte machine Spec/InvokeMachineA64.lean).
    * `a64_imm_value`: for every 64-bit immediate and every integer type the value `move_imm_to_reg_arg` moves has the immediate's
      low `size_of(type)` bytes;
    * `storeBytes_exact`, `a64_imm_stack_machine` (fix C06-21): an immediate stack argument is stored in exactly `size_of(type)`
      bytes: the immediate's low bytes inside the slot, nothing outside it;
    * `a64_reg_reg_arg_machine` (fix C06-22, the former finding C06-K11): a narrower register is extended as the parameter type requires;
    * `store8_first_and_overflow`: what an 8-byte store does to a 1-byte slot (the former finding C06-K10: it also writes the byte 7
      places further – the next packed Apple arguments or the caller's locals).
  The real post-RA lists of every generated AArch64 call are judged by the byte machine (monitor); no list theorem for AArch64.
-/
import AsmjitVerif.Model.InvokeLower
import AsmjitVerif.Spec.InvokeMachineA64
import AsmjitVerif.Props.C06Invoke
import Std.Tactic.BVDecide
namespace AsmjitVerif.C06InvokeA64
open AsmjitVerif.CallConv AsmjitVerif.Invoke AsmjitVerif.InvokeSpec AsmjitVerif.InvokeSpecA64 AsmjitVerif.C06Invoke

theorem a64_imm_value (imm : BitVec 64) :
    (∀ w, a64ImmValue 34 imm = some w → lowBytes 1 w = lowBytes 1 imm) ∧ (∀ w, a64ImmValue 35 imm = some w → lowBytes 1 w = lowBytes 1 imm) ∧
    (∀ w, a64ImmValue 36 imm = some w → lowBytes 2 w = lowBytes 2 imm) ∧ (∀ w, a64ImmValue 37 imm = some w → lowBytes 2 w = lowBytes 2 imm) ∧
    (∀ w, a64ImmValue 38 imm = some w → lowBytes 4 w = lowBytes 4 imm) ∧ (∀ w, a64ImmValue 39 imm = some w → lowBytes 4 w = lowBytes 4 imm) ∧
    (∀ w, a64ImmValue 40 imm = some w → w = imm) ∧ (∀ w, a64ImmValue 41 imm = some w → w = imm) := by
  refine ⟨?_, ?_, ?_, ?_, ?_, ?_, ?_, ?_⟩ <;> intro w h <;> simp [a64ImmValue] at h <;> subst h
  · rw [lb1, lb1]; simp only [sext8]; bv_decide
  · rw [lb1, lb1]; simp only [zext8]; bv_decide
  · rw [lb2, lb2]; simp only [sext16]; bv_decide
  · rw [lb2, lb2]; simp only [zext16]; bv_decide
  · rw [lb4, lb4]; simp only [sext32]; bv_decide
  · rw [lb4, lb4]; simp only [zext32]; bv_decide
  · rfl
  · rfl

theorem byte_setByte_same (m : MA) (a : Int) (b : BVal) : (m.setByte a b).byte a = some b := by simp [MA.setByte, MA.byte]

theorem byte_setByte_ne (m : MA) (a a' : Int) (b : BVal) (h : a ≠ a') : (m.setByte a b).byte a' = m.byte a' := by
  unfold MA.setByte MA.byte
  simp only
  have h1 : ((a, b).1 == a') = false := by simpa using h
  simp only [List.find?_cons, h1]
  congr 1
  induction m.mem with
  | nil => rfl
  | cons x l ih =>
    by_cases hx : x.1 = a
    · have : (x.1 != a) = false := by simp [hx]
      have h2 : (x.1 == a') = false := by simp [hx]; exact h
      simp [List.filter, this, h2, ih]
    · have : (x.1 != a) = true := by simpa using hx
      simp only [List.filter, this, List.find?_cons]
      split <;> simp_all

/-- the first byte an 8-byte store writes, read back; and the bytes it writes BEYOND a 1-byte argument (open finding C06-K10):
    whatever was at `a + 1 … a + 7` – the next packed arguments, or the caller's locals – is replaced -/
theorem store8_first_and_overflow (m : MA) (a : Int) (v : BitVec 64) :
    (storeBytes m a 8 v).byte a = some (.num (byteOf v 0)) ∧
    (storeBytes m a 8 v).byte (a + 7) = some (.num (byteOf v 7)) := by
  have ne : ∀ (i j : Nat), i ≠ j → a + (i : Int) ≠ a + (j : Int) := fun i j h => by omega
  unfold storeBytes
  simp only [List.range, List.range.loop, List.foldl]
  refine ⟨?_, ?_⟩
  · rw [byte_setByte_ne _ _ _ _ (by have := ne 7 0 (by decide); simpa using this),
        byte_setByte_ne _ _ _ _ (by have := ne 6 0 (by decide); simpa using this),
        byte_setByte_ne _ _ _ _ (by have := ne 5 0 (by decide); simpa using this),
        byte_setByte_ne _ _ _ _ (by have := ne 4 0 (by decide); simpa using this),
        byte_setByte_ne _ _ _ _ (by have := ne 3 0 (by decide); simpa using this),
        byte_setByte_ne _ _ _ _ (by have := ne 2 0 (by decide); simpa using this),
        byte_setByte_ne _ _ _ _ (by have := ne 1 0 (by decide); simpa using this)]
    simpa using byte_setByte_same m (a + (0 : Nat)) (.num (byteOf v 0))
  · simpa using byte_setByte_same _ (a + (7 : Nat)) (.num (byteOf v 7))

/-- a store of `n` bytes writes exactly `[a, a + n)`: the value's bytes inside, everything else untouched -/
theorem storeBytes_exact (a : Int) (v : BitVec 64) : ∀ (n : Nat) (m : MA),
    (∀ j, j < n → (storeBytes m a n v).byte (a + (j : Nat)) = some (.num (byteOf v j))) ∧
    (∀ b, (b < a ∨ a + (n : Nat) ≤ b) → (storeBytes m a n v).byte b = m.byte b) := by
  intro n
  induction n with
  | zero => intro m; exact ⟨fun j hj => absurd hj (by omega), fun b _ => by simp [storeBytes]⟩
  | succ n ih =>
    intro m
    have hs : storeBytes m a (n + 1) v = (storeBytes m a n v).setByte (a + (n : Nat)) (.num (byteOf v n)) := by
      simp [storeBytes, List.range_succ, List.foldl_append]
    obtain ⟨h1, h2⟩ := ih m
    rw [hs]
    refine ⟨fun j hj => ?_, fun b hb => ?_⟩
    · by_cases hjn : j = n
      · subst hjn; exact byte_setByte_same _ _ _
      · rw [byte_setByte_ne _ _ _ _ (by omega)]; exact h1 j (by omega)
    · rw [byte_setByte_ne _ _ _ _ (by omega)]; exact h2 b (by omega)

/-- the store `move_reg_to_stack_arg` selects for a GP argument of `n` bytes held in x register `id` -/
def stInst (n id : Nat) (off : Int) : XI :=
  if n = 1 then ⟨.strb, false, [.reg 5 id, .mem a64SpId off 0], false⟩
  else if n = 2 then ⟨.strh, false, [.reg 5 id, .mem a64SpId off 0], false⟩
  else if n = 4 then ⟨.str, false, [.reg 5 id, .mem a64SpId off 0], false⟩
  else ⟨.str, false, [.reg 6 id, .mem a64SpId off 0], false⟩

/-- **AArch64 immediate stack argument (fix C06-21), every immediate, every integer type, any machine state**: `a64LowerValue`
    emits `mov x, imm'` and a store that writes exactly the `size_of(type)` bytes of the argument's slot – the immediate's low bytes –
    and nothing outside `[off, off + size_of(type))` (Apple arm64 packs small stack arguments: the neighbours and the caller's
    locals are not touched; this was the finding C06-K10) -/
theorem a64_imm_stack_machine (s : LSt) (arg : FuncValue) (hdt : arg.typeId ∈ intTys8) (hr : arg.isReg = false) (imm : BitVec 64)
    (s' : LSt) (op' : ArgOp) (h : a64LowerValue s arg (.imm imm) = .ok (s', op')) (m : MA) :
    ∃ i1 i2 m1 m2 w, s'.out = s.out ++ [i1, i2] ∧ InvokeSpecA64.step m i1 = some m1 ∧ InvokeSpecA64.step m1 i2 = some m2 ∧
      a64ImmValue arg.typeId imm = some w ∧ m2 = storeBytes m1 arg.stackOffset (tySize arg.typeId) w ∧
      (∀ j, j < tySize arg.typeId → m2.byte ((arg.stackOffset : Int) + (j : Nat)) = some (.num (byteOf w j))) ∧
      (∀ b, (b < (arg.stackOffset : Int) ∨ (arg.stackOffset : Int) + (tySize arg.typeId : Nat) ≤ b) → m2.byte b = m1.byte b) := by
  generalize hd : arg.typeId = dt at *
  unfold a64LowerValue at h
  simp only [hd, hr, Bool.false_eq_true, if_false] at h
  cases hw : a64ImmValue dt imm with
  | none => rw [hw] at h; simp at h
  | some w =>
    rw [hw] at h
    simp only [intTys8, List.mem_cons, List.mem_nil_iff, or_false] at hdt
    have hex := storeBytes_exact arg.stackOffset w (tySize dt)
    rcases hdt with rfl | rfl | rfl | rfl | rfl | rfl | rfl | rfl <;>
      (simp [tySize, LSt.emit] at h; obtain ⟨rfl, _⟩ := h
       refine ⟨⟨.mov, false, [.reg 6 s.nextV, .imm w], false⟩, stInst (tySize arg.typeId) s.nextV arg.stackOffset, m.setGp s.nextV w, _, w,
         by simp [stInst, tySize, hd], ?_, ?_, rfl, rfl, (hex _).1, (hex _).2⟩
       · simp [InvokeSpecA64.step, isGpRt]
       · simp [InvokeSpecA64.step, stInst, isGpRt, MA.getGp, MA.setGp, gpBytes, a64SpId, tySize, hd])

/-- **AArch64, a narrower register for a wider integer parameter (fix C06-22; register and stack positions), every type pair the
    lowering extends, every register content**: the extension instruction leaves, in the new register the invoke passes (or stores
    by the argument's size), the value extended as the parameter type requires – sign extension when both types are signed, zero
    extension otherwise.  This was the finding C06-K11. -/
theorem a64_reg_reg_arg_machine (dt : Nat) (hdt : dt ∈ intTys8) (st : Nat) (hst : st ∈ intTys8) (hn : a64NeedsExt dt st = true)
    (id vid : Nat) (m : MA) (x : BitVec 64) (hg : m.getGp vid = some x) :
    ∃ m' v, InvokeSpecA64.step m (a64ExtInst dt st id vid).1 = some m' ∧ m'.getGp id = some v ∧
      lowBytes (tySize dt) v = lowBytes (tySize dt) (widen dt st x) := by
  simp only [intTys8, List.mem_cons, List.mem_nil_iff, or_false] at hdt hst
  rcases hdt with rfl | rfl | rfl | rfl | rfl | rfl | rfl | rfl <;> rcases hst with rfl | rfl | rfl | rfl | rfl | rfl | rfl | rfl <;>
    first
    | (exact absurd hn (by decide))
    | (refine ⟨_, _, by simp [a64ExtInst, InvokeSpecA64.step, isGp8, isGp16, tySize, isGpRt, hg]; rfl, by simp [MA.getGp, MA.setGp]; rfl, ?_⟩
       simp [tySize, lowBytes, widen, isInt, isBetween, sext8, sext16, sext32, zext8, zext16, zext32] <;> bv_decide)

end AsmjitVerif.C06InvokeA64
