/-
C03 — every label reference resolves to the position where the label was bound.

Theorems over ALL programs (`List Op`, any interleaving of label creation, references of every menu shape on the three
architectures, binds, data, aligns, section switches, flatten / resolve / relocate) of the model
Model/CodeHolder.lean + Model/RefSite.lean + Model/Prog.lean:

 * `unresolved_count_exact`   at every reachable state `_unresolved_fixup_count` = number of pending fixups
                              (on unbound labels + on the cross-section list); `count_zero_iff_none_pending`.
 * `fixups_well_formed`       at every reachable state every fixup on the cross-section list names a *bound* label
                              (so `resolve` can always evaluate it; this is what defect #18 broke), and a bound label
                              carries no fixups by construction of `LabelEntry`.
 * `bind_patch_exact`, `resolve_patch_exact`
                              a fixup leaves the lists only after `write_offset` accepted exactly
                              `label position - site + addend`; a refused write keeps it (and `bind` says InvalidDisplacement).
 * `patched_field_designates` byte-level meaning of an accepted write for the x86 / data formats: the patched field
                              decodes (Spec/Offset.lean) to exactly the displacement written, bytes outside untouched.
 * `short_form_only_if_representable`, `label_delta_exact_or_refused`.

Full-strength end-to-end statement (not proved as one theorem, checked by the monitor on every explored program and
on the model's own runs):
   ∀ ops, judge (ghostRun g0 (answers of run ops)) (dump (run ops)) ≠ bad
The layers above are its ingredients; what is missing is the inductive frame argument that no later emission or patch
overwrites an already patched field (regions of distinct instructions are disjoint).
-/
import AsmjitVerif.Lemmas.CodeHolder
import AsmjitVerif.Spec.RefSemantics
import AsmjitVerif.Props.C17
import AsmjitVerif.Lemmas.WriteOffset
import Std.Tactic.BVDecide
namespace AsmjitVerif.CodeHolder
open AsmjitVerif.Offset

/-- the counter says exactly how many fixups are pending -/
def CountExact (s : State) : Prop := s.count = pending s

theorem countExact_of_core {s s' : State} (hl : s'.labels = s.labels) (hf : s'.fixups = s.fixups) (hc : s'.count = s.count)
    (h : CountExact s) : CountExact s' := by
  unfold CountExact pending at *
  rw [hl, hf, hc]; exact h

theorem newFixup_countExact (s : State) (l : Nat) (f : Fixup) (h : CountExact s) : CountExact (newFixup s l f) := by
  unfold newFixup
  split
  · rename_i fx heq
    have := pendingOnLabels_set s.labels l (.unbound fx) (.unbound (f :: fx)) heq
    unfold CountExact pending at *
    simp [weight] at *
    omega
  · unfold CountExact pending at *
    simp at *
    omega
  · exact h

theorem bindLabel_countExact (s : State) (l sec : Nat) (off : BitVec 64) (h : CountExact s) :
    CountExact (bindLabel s l sec off).1 := by
  unfold bindLabel
  cases hle : s.labels[l]? with
  | none => exact h
  | some le =>
    dsimp only
    by_cases hs : sec ≥ s.secs.length
    · simp only [hs, if_true]; exact h
    · simp only [hs, if_false]
      cases le with
      | bound _ _ => exact h
      | unbound fx =>
        dsimp only
        split
        · exact h
        have h1 := pendingOnLabels_set s.labels l (.unbound fx) (.bound sec off) hle
        have h2 := bindLoop_total l sec off fx { secs := s.secs, relocs := s.relocs, kept := [], resolved := 0, err := .ok }
        unfold CountExact pending at *
        simp [weight] at *
        omega

theorem resolve_countExact (s : State) (h : CountExact s) : CountExact (resolve s).1 := by
  unfold resolve
  split
  · exact h
  · have h2 := resolveLoop_total s.labels s.fixups { secs := s.secs, relocs := s.relocs, kept := [], resolved := 0, err := .ok }
    unfold CountExact pending at *
    simp at *
    omega

@[simp] theorem countExact_emit (s : State) (bs : Bytes) : CountExact (s.emit bs) ↔ CountExact s := Iff.rfl
@[simp] theorem countExact_newReloc (s : State) (r : Reloc) : CountExact (newReloc s r).1 ↔ CountExact s := Iff.rfl
theorem countExact_addAddress (s : State) (a : BitVec 64) : CountExact (addAddress s a) ↔ CountExact s := by
  have h := addAddress_core s a
  unfold CountExact pending
  rw [h.1, h.2.1, h.2.2]

syntax "frame_core" ident : tactic
macro_rules
  | `(tactic| frame_core $h) => `(tactic|
      (try dsimp only) <;> (repeat' split) <;> (try dsimp only) <;>
      (try simp only [countExact_emit, countExact_newReloc, countExact_addAddress]) <;> first
        | exact $h
        | exact countExact_of_core rfl rfl rfl $h
        | (apply newFixup_countExact
           (try simp only [countExact_emit, countExact_newReloc, countExact_addAddress])
           first | exact $h | exact countExact_of_core rfl rfl rfl $h))

theorem x86MemAbsM_countExact (s : State) (sh : AShape) (a : AddrT) (t : BitVec 64) (h : CountExact s) :
    CountExact (x86MemAbsM s sh a t).1 := by
  unfold x86MemAbsM; frame_core h

theorem step_countExact (s : State) (op : Op) (h : CountExact s) : CountExact (step s op).1 := by
  cases op with
  | newLabel =>
    simp only [step]
    unfold newLabel CountExact pending at *
    simp [pendingOnLabels_append, pendingOnLabels] at *
    exact h
  | newSection a o => simp only [step]; unfold newSection; frame_core h
  | «section» id => simp only [step]; unfold switchSection; frame_core h
  | bind l => simp only [step]; unfold bind; exact bindLabel_countExact _ _ _ _ h
  | align n => simp only [step]; unfold alignZero; frame_core h
  | embed bs => simp only [step]; unfold embed; frame_core h
  | jmp k opt l => simp only [step]; unfold x86JmpLabel emitJmpCallRel; frame_core h
  | mem k l d => simp only [step]; unfold x86MemLabel; frame_core h
  | a64 k l a => simp only [step]; unfold a64RelLabel; frame_core h
  | elabel l n => simp only [step]; unfold embedLabel; frame_core h
  | edelta l b n => simp only [step]; unfold embedLabelDelta; frame_core h
  | vsize i v => simp only [step]; unfold setVirtSize; frame_core h
  | flatten => simp only [step]; unfold flatten; frame_core h
  | resolve => simp only [step]; exact resolve_countExact _ h
  | relocate b => simp only [step]; unfold relocate; frame_core h
  | jmpAbs k opt t =>
    simp only [step]
    unfold x86JmpAbs emitJmpCallRel
    have hA := addAddress_core s t
    frame_core h
  | a64Abs k t => simp only [step]; unfold a64RelAbs; frame_core h
  | memAbs k a t =>
    simp only [step]
    split
    · exact h
    · unfold x86MemAbs
      cases (MKind.ashape s.arch k).moffs with
      | none => exact x86MemAbsM_countExact _ _ _ _ h
      | some mo =>
        dsimp only
        split
        · exact (countExact_emit _ _).mpr h
        · exact x86MemAbsM_countExact _ _ _ _ h

theorem run_countExact (s : State) (ops : List Op) (h : CountExact s) : CountExact (run s ops) := by
  induction ops generalizing s with
  | nil => exact h
  | cons op rest ih => exact ih _ (step_countExact s op h)

/-- **C03 (counter).** For every program, on every architecture and base: after any sequence of API calls the reported
number of unresolved references equals the number of fixups that are still pending. -/
theorem unresolved_count_exact (arch : Arch) (base : BitVec 64) (ops : List Op) :
    (run (State.init arch base) ops).count = pending (run (State.init arch base) ops) :=
  run_countExact _ ops (by simp [CountExact, pending, State.init, pendingOnLabels])

/-- the counter is zero exactly when no fixup remains anywhere -/
theorem count_zero_iff_none_pending (arch : Arch) (base : BitVec 64) (ops : List Op) :
    (run (State.init arch base) ops).count = 0 ↔
      (pendingOnLabels (run (State.init arch base) ops).labels = 0 ∧ (run (State.init arch base) ops).fixups = []) := by
  rw [unresolved_count_exact]
  unfold pending
  constructor
  · intro h
    have : (run (State.init arch base) ops).fixups.length = 0 := by omega
    exact ⟨by omega, List.eq_nil_of_length_eq_zero this⟩
  · rintro ⟨h1, h2⟩
    simp [h1, h2]


/-! ### the cross-section list only names bound labels (the invariant defect #18 broke) -/

/-- every fixup on the global list `_fixups` carries the id of a label that is bound -/
def FixupsWF (s : State) : Prop :=
  ∀ f ∈ s.fixups, ∃ l sec off, f.lr = some l ∧ s.labels[l]? = some (.bound sec off)

theorem fixupsWF_of_core {s s' : State} (hl : s'.labels = s.labels) (hf : s'.fixups = s.fixups) (h : FixupsWF s) : FixupsWF s' := by
  unfold FixupsWF at *
  rw [hl, hf]; exact h

@[simp] theorem fixupsWF_emit (s : State) (bs : Bytes) : FixupsWF (s.emit bs) ↔ FixupsWF s := Iff.rfl
@[simp] theorem fixupsWF_newReloc (s : State) (r : Reloc) : FixupsWF (newReloc s r).1 ↔ FixupsWF s := Iff.rfl
theorem fixupsWF_addAddress (s : State) (a : BitVec 64) : FixupsWF (addAddress s a) ↔ FixupsWF s := by
  have h := addAddress_core s a
  unfold FixupsWF
  rw [h.1, h.2.1]

/-- overwriting an entry that is not bound keeps every bound entry -/
theorem bound_after_set (ls : List LabelEntry) (l : Nat) (e : LabelEntry) (fx : List Fixup) (hl : ls[l]? = some (.unbound fx))
    (k sec : Nat) (off : BitVec 64) (h : ls[k]? = some (.bound sec off)) : (ls.set l e)[k]? = some (.bound sec off) := by
  by_cases hk : l = k
  · subst hk; rw [hl] at h; cases h
  · rw [List.getElem?_set_ne hk]; exact h

theorem newFixup_fixupsWF (s : State) (l : Nat) (f : Fixup) (h : FixupsWF s) : FixupsWF (newFixup s l f) := by
  unfold newFixup
  split
  · rename_i fx heq
    intro g hg
    obtain ⟨k, sec, off, h1, h2⟩ := h g hg
    exact ⟨k, sec, off, h1, bound_after_set _ _ _ _ heq _ _ _ h2⟩
  · rename_i sec off heq
    intro g hg
    simp only [List.mem_cons] at hg
    rcases hg with rfl | hg
    · exact ⟨l, sec, off, rfl, heq⟩
    · exact h g hg
  · exact h

theorem bindStep_kept (l toSec : Nat) (toOff : BitVec 64) (acc : Acc) (f g : Fixup)
    (hg : g ∈ (bindStep l toSec toOff acc f).kept) : g ∈ acc.kept ∨ g.lr = some l := by
  unfold bindStep at hg
  split at hg
  · exact .inl hg
  · split at hg
    · simp at hg; rcases hg with hg | rfl
      · exact .inl hg
      · exact .inr rfl
    · dsimp only at hg
      split at hg
      · exact .inl hg
      · simp at hg; rcases hg with hg | rfl
        · exact .inl hg
        · exact .inr rfl

theorem bindLoop_kept (l toSec : Nat) (toOff : BitVec 64) (fx : List Fixup) (acc : Acc) (g : Fixup)
    (hg : g ∈ (fx.foldl (bindStep l toSec toOff) acc).kept) : g ∈ acc.kept ∨ g.lr = some l := by
  induction fx generalizing acc with
  | nil => exact .inl hg
  | cons f rest ih =>
    rcases ih _ hg with h | h
    · exact bindStep_kept _ _ _ _ _ _ h
    · exact .inr h

theorem bindLabel_fixupsWF (s : State) (l sec : Nat) (off : BitVec 64) (h : FixupsWF s) :
    FixupsWF (bindLabel s l sec off).1 := by
  unfold bindLabel
  cases hle : s.labels[l]? with
  | none => exact h
  | some le =>
    dsimp only
    by_cases hs : sec ≥ s.secs.length
    · simp only [hs, if_true]; exact h
    · simp only [hs, if_false]
      cases le with
      | bound _ _ => exact h
      | unbound fx =>
        dsimp only
        split
        · exact h
        intro g hg
        simp only [List.mem_append] at hg
        have hlt : l < s.labels.length := by
          rcases Nat.lt_or_ge l s.labels.length with h' | h'
          · exact h'
          · rw [List.getElem?_eq_none h'] at hle; cases hle
        rcases hg with hg | hg
        · rcases bindLoop_kept _ _ _ _ _ _ hg with hk | hk
          · simp at hk
          · exact ⟨l, sec, off, hk, by simp [hlt]⟩
        · obtain ⟨k, sec', off', h1, h2⟩ := h g hg
          exact ⟨k, sec', off', h1, bound_after_set _ _ _ _ hle _ _ _ h2⟩

theorem resolveStep_kept (labels : List LabelEntry) (acc : Acc) (f g : Fixup)
    (hg : g ∈ (resolveStep labels acc f).kept) : g ∈ acc.kept ∨ g = f := by
  unfold resolveStep at hg
  split at hg
  · dsimp only [addOverflow] at hg
    split at hg
    · simp at hg; exact hg
    · split at hg
      · exact .inl hg
      · simp at hg; exact hg
  · simp at hg; exact hg

theorem resolveLoop_kept (labels : List LabelEntry) (fx : List Fixup) (acc : Acc) (g : Fixup)
    (hg : g ∈ (fx.foldl (resolveStep labels) acc).kept) : g ∈ acc.kept ∨ g ∈ fx := by
  induction fx generalizing acc with
  | nil => exact .inl hg
  | cons f rest ih =>
    rcases ih _ hg with h | h
    · rcases resolveStep_kept _ _ _ _ h with h | h
      · exact .inl h
      · exact .inr (by simp [h])
    · exact .inr (by simp [h])

theorem resolve_fixupsWF (s : State) (h : FixupsWF s) : FixupsWF (resolve s).1 := by
  unfold resolve
  split
  · exact h
  · intro g hg
    rcases resolveLoop_kept _ _ _ _ hg with hk | hk
    · simp at hk
    · exact h g hk

syntax "frame_wf" ident : tactic
macro_rules
  | `(tactic| frame_wf $h) => `(tactic|
      (try dsimp only) <;> (repeat' split) <;> (try dsimp only) <;>
      (try simp only [fixupsWF_emit, fixupsWF_newReloc, fixupsWF_addAddress]) <;> first
        | exact $h
        | exact fixupsWF_of_core rfl rfl $h
        | (apply newFixup_fixupsWF
           (try simp only [fixupsWF_emit, fixupsWF_newReloc, fixupsWF_addAddress])
           first | exact $h | exact fixupsWF_of_core rfl rfl $h))

theorem x86MemAbsM_fixupsWF (s : State) (sh : AShape) (a : AddrT) (t : BitVec 64) (h : FixupsWF s) :
    FixupsWF (x86MemAbsM s sh a t).1 := by
  unfold x86MemAbsM; frame_wf h

theorem step_fixupsWF (s : State) (op : Op) (h : FixupsWF s) : FixupsWF (step s op).1 := by
  cases op with
  | newLabel =>
    simp only [step]
    intro g hg
    obtain ⟨k, sec, off, h1, h2⟩ := h g hg
    refine ⟨k, sec, off, h1, ?_⟩
    unfold newLabel
    have hlt : k < s.labels.length := by
      rcases Nat.lt_or_ge k s.labels.length with h' | h'
      · exact h'
      · rw [List.getElem?_eq_none h'] at h2; cases h2
    simp [List.getElem?_append_left hlt, h2]
  | newSection a o => simp only [step]; unfold newSection; frame_wf h
  | «section» id => simp only [step]; unfold switchSection; frame_wf h
  | bind l => simp only [step]; unfold bind; exact bindLabel_fixupsWF _ _ _ _ h
  | align n => simp only [step]; unfold alignZero; frame_wf h
  | embed bs => simp only [step]; unfold embed; frame_wf h
  | jmp k opt l => simp only [step]; unfold x86JmpLabel emitJmpCallRel; frame_wf h
  | mem k l d => simp only [step]; unfold x86MemLabel; frame_wf h
  | a64 k l a => simp only [step]; unfold a64RelLabel; frame_wf h
  | elabel l n => simp only [step]; unfold embedLabel; frame_wf h
  | edelta l b n => simp only [step]; unfold embedLabelDelta; frame_wf h
  | vsize i v => simp only [step]; unfold setVirtSize; frame_wf h
  | flatten => simp only [step]; unfold flatten; frame_wf h
  | resolve => simp only [step]; exact resolve_fixupsWF _ h
  | relocate b => simp only [step]; unfold relocate; frame_wf h
  | jmpAbs k opt t => simp only [step]; unfold x86JmpAbs emitJmpCallRel; frame_wf h
  | a64Abs k t => simp only [step]; unfold a64RelAbs; frame_wf h
  | memAbs k a t =>
    simp only [step]
    split
    · exact h
    · unfold x86MemAbs
      cases (MKind.ashape s.arch k).moffs with
      | none => exact x86MemAbsM_fixupsWF _ _ _ _ h
      | some mo =>
        dsimp only
        split
        · exact (fixupsWF_emit _ _).mpr h
        · exact x86MemAbsM_fixupsWF _ _ _ _ h

/-- **C03 (no fixup is ever orphaned).** For every program: each fixup on the cross-section list names a bound label, so
`resolve_cross_section_fixups` can evaluate every one of them (on the pinned tree a reference to a label already bound
in another section overwrote that label's offset instead: defect #18). -/
theorem fixups_well_formed (arch : Arch) (base : BitVec 64) (ops : List Op) :
    FixupsWF (run (State.init arch base) ops) := by
  have : ∀ (s : State), FixupsWF s → FixupsWF (run s ops) := by
    induction ops with
    | nil => intro s h; exact h
    | cons op rest ih => intro s h; exact ih _ (step_fixupsWF s op h)
  exact this _ (by intro f hf; simp [State.init] at hf)

/-- non-vacuity: a program that leaves one fixup on the cross-section list and two on an unbound label (x86-64:
`jmp L0` from a second section after L0 was bound in .text, two references to the unbound L1) -/
example :
    let s := run (State.init .x64 noBase)
      [.newLabel, .newLabel, .bind 0, .newSection 16 0, .section 1, .jmp .jmp .dflt 0, .jmp .jz .dflt 1, .mem .lea 1 0#32]
    s.count = 3 ∧ s.fixups.length = 1 ∧ pendingOnLabels s.labels = 2 := by decide

/-- ... and `flatten` + `resolve` patches the cross-section one: `jmp` at offset 0 of section 1 (offset 16) to .text+0
gets rel32 = 0 - (16 + 5) = -21 -/
example :
    let s := run (State.init .x64 noBase)
      [.newLabel, .bind 0, .embed [0x90#8], .newSection 16 0, .section 1, .jmp .jmp .dflt 0, .flatten, .resolve]
    s.count = 0 ∧ s.fixups = [] ∧ (s.secs[1]?.map (·.buf)) = some [0xE9#8, 0xEB#8, 0xFF#8, 0xFF#8, 0xFF#8] := by decide


/-! ### a fixup disappears only after an exact patch; a refused patch is kept and reported -/

/-- **never truncates (bind).** One iteration of the patch loop of `bind_label` on a same-section fixup `f`:
either `write_offset` accepted exactly `to_offset - f.offset + f.rel` (then, and only then, the fixup is dropped),
or it refused it and the fixup stays on the list (now naming the label) and the call reports InvalidDisplacement. -/
theorem bind_patch_exact (l toSec : Nat) (toOff : BitVec 64) (acc : Acc) (f : Fixup) (hlr : f.lr = none) (hsec : f.sec = toSec) :
    let disp : BitVec 64 := toOff - BitVec.ofNat 64 f.offset + f.rel
    let acc' := bindStep l toSec toOff acc f
    (∃ sec buf', acc.secs[toSec]? = some sec ∧ writeOffset sec.buf f.offset disp f.fmt = some buf' ∧
        acc'.secs = setBuf acc.secs toSec buf' ∧ acc'.resolved = acc.resolved + 1 ∧ acc'.kept = acc.kept ∧ acc'.err = acc.err)
    ∨ ((∀ sec, acc.secs[toSec]? = some sec → writeOffset sec.buf f.offset disp f.fmt = none) ∧
        acc'.secs = acc.secs ∧ acc'.resolved = acc.resolved ∧ acc'.kept = acc.kept ++ [{ f with lr := some l }] ∧
        acc'.err = .invalidDisplacement) := by
  intro disp acc'
  show _ ∨ _
  unfold acc' disp bindStep
  rw [hlr]
  simp only [hsec, ne_eq, not_true_eq_false, if_false]
  cases hs : acc.secs[toSec]? with
  | none => right; simp
  | some sec =>
    simp only [Option.bind_some]
    cases hw : writeOffset sec.buf f.offset (toOff - BitVec.ofNat 64 f.offset + f.rel) f.fmt with
    | none => right; simp [hw]
    | some b => left; exact ⟨sec, b, rfl, hw, rfl, rfl, rfl, rfl⟩

/-- **never truncates (resolve).** One iteration of `resolve_cross_section_fixups` on a fixup whose label is bound at
`(lsec, loff)`: the fixup is dropped only after `write_offset` accepted exactly
`(section offset + label offset) - (section offset + site) + addend`, computed without 64-bit wrap-around. -/
theorem resolve_patch_exact (labels : List LabelEntry) (acc : Acc) (f : Fixup) (l lsec : Nat) (loff : BitVec 64)
    (hl : f.lr = some l) (hb : labels[l]? = some (.bound lsec loff))
    (hres : (resolveStep labels acc f).resolved = acc.resolved + 1) :
    let tgt := secOffset acc.secs lsec + loff
    let src := secOffset acc.secs f.sec + BitVec.ofNat 64 f.offset
    (secOffset acc.secs lsec).toNat + loff.toNat < 2 ^ 64 ∧ (secOffset acc.secs f.sec).toNat + f.offset % 2 ^ 64 < 2 ^ 64 ∧
    ∃ sec buf', acc.secs[f.sec]? = some sec ∧ writeOffset sec.buf f.offset (tgt - src + f.rel) f.fmt = some buf' ∧
      (resolveStep labels acc f).secs = setBuf acc.secs f.sec buf' := by
  intro tgt src
  unfold resolveStep at hres ⊢
  simp only [hl, Option.bind_some, hb, addOverflow] at hres ⊢
  by_cases ho : (secOffset acc.secs lsec + loff < secOffset acc.secs lsec ||
      secOffset acc.secs f.sec + BitVec.ofNat 64 f.offset < secOffset acc.secs f.sec) = true
  · simp [ho] at hres
  · simp only [ho] at hres ⊢
    simp only [Bool.or_eq_true, decide_eq_true_eq, not_or, BitVec.not_lt] at ho
    have h1 : (secOffset acc.secs lsec).toNat + loff.toNat < 2 ^ 64 := by
      have := ho.1
      rw [BitVec.le_def, BitVec.toNat_add] at this
      rcases Nat.lt_or_ge ((secOffset acc.secs lsec).toNat + loff.toNat) (2 ^ 64) with h | h
      · exact h
      · have hl := loff.isLt
        have hs := (secOffset acc.secs lsec).isLt
        rw [Nat.mod_eq_sub_mod h, Nat.mod_eq_of_lt (by omega)] at this
        omega
    have h2 : (secOffset acc.secs f.sec).toNat + f.offset % 2 ^ 64 < 2 ^ 64 := by
      have := ho.2
      rw [BitVec.le_def, BitVec.toNat_add, BitVec.toNat_ofNat] at this
      rcases Nat.lt_or_ge ((secOffset acc.secs f.sec).toNat + f.offset % 2 ^ 64) (2 ^ 64) with h | h
      · exact h
      · have hl : f.offset % 2 ^ 64 < 2 ^ 64 := Nat.mod_lt _ (by decide)
        have hs := (secOffset acc.secs f.sec).isLt
        rw [Nat.mod_eq_sub_mod h, Nat.mod_eq_of_lt (by omega)] at this
        omega
    refine ⟨h1, h2, ?_⟩
    cases hs : acc.secs[f.sec]? with
    | none => simp [hs] at hres
    | some sec =>
      simp only [hs, Option.bind_some] at hres ⊢
      cases hw : writeOffset sec.buf f.offset
          (secOffset acc.secs lsec + loff - (secOffset acc.secs f.sec + BitVec.ofNat 64 f.offset) + f.rel) f.fmt with
      | none => simp [hw] at hres
      | some b => exact ⟨sec, b, rfl, hw, by simp⟩

/-! ### what an accepted patch means in bytes (x86 rel8/rel32 + RIP, every AArch64 field, 32-bit absolute) -/

theorem fits4 (f : OffsetFormat) (h : f.valueSize = 4) : FitsValueSize f := by
  intro off m _; rw [h]; exact m.isLt

theorem fS1_fits : FitsValueSize fS1 := by
  intro off m h
  have : m < 256#32 := by
    unfold fS1 at h
    offset_unfold
    split at h
    · simp at h
    · rename_i value u heq
      simp at heq h
      bv_decide
  simpa [fS1, simpleValue, BitVec.lt_def] using this

/-- the fixup formats of the two assemblers (`EmitRel`: rel8 / rel32; `EmitOp_Rel`: imm26, imm19, imm14, ADR, ADRP) -/
def fixupFormats : List OffsetFormat := [fmtS 1, fmtS 4, A64Kind.imm26.fmt, A64Kind.imm19.fmt, A64Kind.imm14.fmt, A64Kind.adr.fmt, A64Kind.adrp.fmt]

/-- **resolved_ref_correct (one patch, byte level).** For every fixup format of both backends, every buffer, position and
64-bit displacement: if `write_offset` accepts and the field was zero (as emitted), the patched field read back by the
independent decoder of Spec/Offset.lean designates exactly the displacement written (so `site + rel + decode = label`),
the buffer keeps its size and every byte outside the value is unchanged. -/
theorem patched_field_designates : ∀ f ∈ fixupFormats, ∀ (buf buf' : Bytes) (pos : Nat) (off : BitVec 64) (old : Nat),
    writeOffset buf pos off f = some buf' →
    loadLE buf (pos + f.valueOffset) f.valueSize = some old →
    BitVec.ofNat 32 old &&& fieldMask32 f = 0#32 →
    ∃ new, loadLE buf' (pos + f.valueOffset) f.valueSize = some new ∧ decode32 f (BitVec.ofNat 32 new) = off ∧
      buf'.length = buf.length ∧
      (∀ i, (i < pos + f.valueOffset ∨ pos + f.valueOffset + f.valueSize ≤ i) → buf'[i]? = buf[i]?) := by
  intro f hf
  simp only [fixupFormats, List.mem_cons, List.mem_nil_iff, or_false] at hf
  rcases hf with h | h | h | h | h | h | h <;> subst h
  · exact writeOffset_designates _ (.inl rfl) fS1_exact fS1_fits
  · exact writeOffset_designates _ (.inr (.inr rfl)) fS4_exact (fits4 _ rfl)
  · exact writeOffset_designates _ (.inr (.inr rfl)) fImm26_exact (fits4 _ rfl)
  · exact writeOffset_designates _ (.inr (.inr rfl)) fImm19_exact (fits4 _ rfl)
  · exact writeOffset_designates _ (.inr (.inr rfl)) fImm14_exact (fits4 _ rfl)
  · exact writeOffset_designates _ (.inr (.inr rfl)) fAdr_exact (fits4 _ rfl)
  · exact writeOffset_designates _ (.inr (.inr rfl)) fAdrp_exact (fits4 _ rfl)

/-- non-vacuity: patching the rel32 of `e9 00000000` at position 0 with -21 -/
example : writeOffset [0xE9#8, 0#8, 0#8, 0#8, 0#8] 1 (BitVec.ofInt 64 (-21)) (fmtS 4) = some [0xE9#8, 0xEB#8, 0xFF#8, 0xFF#8, 0xFF#8] := by decide

/-! ### short / long form selection, label deltas -/

/-- **short_long_selection_sound.** `EmitJmpCallRel` picks the rel8 form only when the displacement measured from the end of
the 2-byte form is representable in 8 bits, and then the byte it emits designates the same target as the rel32 would:
`sext(rel8) + 2 = rel32 + inst32_size` (mod 2^32). -/
theorem short_form_only_if_representable (rel32 : BitVec 32) (inst32 : BitVec 32) :
    let r8 : BitVec 32 := rel32 + inst32 - 2#32
    isInt8of32 r8 = true → ((r8.truncate 8).signExtend 32 : BitVec 32) + 2#32 = rel32 + inst32 := by
  intro r8 h
  simp only [isInt8of32, beq_iff_eq] at h
  rw [h]
  unfold r8
  bv_decide

/-- when the rel8 is not representable (or the long form is requested) the encoder never produces the short form:
it emits the rel32 form or refuses with InvalidDisplacement - it never truncates the displacement to 8 bits -/
theorem no_short_form_when_unrepresentable (s : State) (sh : JShape) (opt : FormOpt) (rel32 : BitVec 32)
    (h : ¬ (isInt8of32 (rel32 + BitVec.ofNat 32 (sh.op32.length + 4) - BitVec.ofNat 32 2) = true ∧ opt ≠ .long)) :
    emitJmpCallRel s sh opt rel32 = (s, .invalidDisplacement) ∨
    emitJmpCallRel s sh opt rel32 = (s.emit (sh.pre ++ sh.op32 ++ leBytes rel32.toNat 4), .ok) := by
  unfold emitJmpCallRel
  dsimp only
  cases sh.op8 with
  | none => dsimp only; split <;> simp
  | some o8 => dsimp only; rw [if_neg h]; split <;> simp

/-- and when it is representable and a rel8 opcode exists, the short form is what is emitted -/
theorem short_form_when_representable (s : State) (sh : JShape) (opt : FormOpt) (rel32 : BitVec 32) (o8 : BitVec 8)
    (h8 : sh.op8 = some o8)
    (h : isInt8of32 (rel32 + BitVec.ofNat 32 (sh.op32.length + 4) - BitVec.ofNat 32 2) = true ∧ opt ≠ .long) :
    emitJmpCallRel s sh opt rel32 =
      (s.emit (sh.pre ++ [o8, (rel32 + BitVec.ofNat 32 (sh.op32.length + 4) - BitVec.ofNat 32 2).truncate 8]), .ok) := by
  unfold emitJmpCallRel
  dsimp only
  rw [h8]
  dsimp only
  rw [if_pos h]

/-- **label_delta_exact.** A signed value that passes the range test of the repaired `embed_label_delta` is recovered
exactly by sign-extending the `size` bytes that are written (sizes 1, 2, 4; size 8 is the identity). -/
theorem label_delta_exact_or_refused (delta : BitVec 64) :
    (isEncodableOffset64 delta 8 = true → (delta.truncate 8).signExtend 64 = delta) ∧
    (isEncodableOffset64 delta 16 = true → (delta.truncate 16).signExtend 64 = delta) ∧
    (isEncodableOffset64 delta 32 = true → (delta.truncate 32).signExtend 64 = delta) ∧
    (isEncodableOffset64 delta 8 = false → ∀ b : BitVec 8, b.signExtend 64 ≠ delta) ∧
    (isEncodableOffset64 delta 16 = false → ∀ b : BitVec 16, b.signExtend 64 ≠ delta) ∧
    (isEncodableOffset64 delta 32 = false → ∀ b : BitVec 32, b.signExtend 64 ≠ delta) := by
  simp only [isEncodableOffset64]
  refine ⟨?_, ?_, ?_, ?_, ?_, ?_⟩ <;> intros <;> bv_decide

-- the model refuses a bound/bound delta that does not fit (the pinned code wrote 300 as 0x2C, 130 as 0x82 = -126: defect #5)
set_option maxRecDepth 100000 in
example :
    let s := run (State.init .x64 noBase) [.newLabel, .newLabel, .bind 0, .embed (zeros 130), .bind 1]
    (step s (.edelta 1 0 1)).2 = .invalidDisplacement ∧ (step s (.edelta 1 0 2)).2 = .ok := by decide

end AsmjitVerif.CodeHolder
