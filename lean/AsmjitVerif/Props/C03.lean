import AsmjitVerif.Model.Prog
import AsmjitVerif.Spec.RefSemantics
namespace AsmjitVerif.CodeHolder
theorem stub_c03 : (State.init .x64 noBase).count = 0 := rfl
end AsmjitVerif.CodeHolder
