/-
  C20 (seventh file) — Builder nodes (`Formatter::format_node` / `format_node_list`), tying C20 to C08.

  * `inst_node_text_is_instruction_text`: the text of an instruction node IS the text `format_instruction` gives the instruction it
    holds; `logged_line_is_node_text`: the line the Assembler's logger writes when that node is serialized is the node's text
    (indented) completed by `finish_formatted_line` — so node listing and emission log name the same instruction, and all the
    instruction-line theorems (`x86_line_parse_back`, `a64_line_parse_back`) apply to node texts verbatim (`inst_node_parse_back_*`).
  * label / align / embed-data / embed-label / section / comment nodes denote their content, proved for all inputs:
    `label_node_parse_back`, `embed_label_node_parse_back`,
    `section_node_parse_back`, `comment_node_parse_back` (label nodes under the label read-back of `label_parse_back`).
    Not proved: align nodes, embed-data nodes (`.dd {Count=… Repeat=… TotalSize=…}`; the number reader lemma `readNat_uint` is), `.label (a - b)` delta nodes, inline comments and the `<position>` prefix (monitored + tied).
  The model `formatNode` is tied to the real `Formatter::format_node` / `format_node_list` by the harness (Builder sessions).
-/
import AsmjitVerif.Lemmas.FormatA64Vec

namespace AsmjitVerif.Props.C20
open AsmjitVerif.Format AsmjitVerif.FormatText AsmjitVerif.Lemmas.FormatLex AsmjitVerif.Lemmas.FormatNum
open AsmjitVerif.Lemmas.FormatLabels AsmjitVerif.Lemmas.FormatX86Mem

theorem positionPrefix_zero (flags : Nat) : positionPrefix flags 0 = [] := by simp [positionPrefix]

theorem formatNode_plain (flags : Nat) (env : Env) (pad0 : Nat) (n : Node) (h : ∀ t, n ≠ .comment t) :
    formatNode flags env pad0 n none = formatNodeBody flags env n := by
  unfold formatNode
  rw [positionPrefix_zero]
  cases n <;> first | rfl | exact absurd rfl (h _)

theorem inst_node_text_is_instruction_text (flags : Nat) (env : Env) (pad0 id opts : Nat) (extra : ExtraReg) (ops : List Operand) :
    formatNode flags env pad0 (.inst id opts extra ops) none = formatInstruction flags env id opts extra ops := by
  rw [formatNode_plain _ _ _ _ (by intro t h; cases h)]; rfl

/-- serializing an instruction node to an Assembler logs exactly the node's text, indented, completed by the machine-code column -/
theorem logged_line_is_node_text (flags : Nat) (env : Env) (indent pad0 pad1 npad id opts : Nat) (extra : ExtraReg) (ops : List Operand)
    (bytes : List Nat) (rel imm : Nat) (comment : Option Str) :
    logInstructionEmitted flags env indent pad0 pad1 id opts extra ops bytes rel imm comment =
      (if hasBit flags ffMachineCode then
         finishFormattedLine (List.replicate indent ' ' ++ formatNode flags env npad (.inst id opts extra ops) none) pad0 pad1 (some bytes) rel imm comment
       else finishFormattedLine (List.replicate indent ' ' ++ formatNode flags env npad (.inst id opts extra ops) none) pad0 pad1 none 0 0 comment) := by
  rw [inst_node_text_is_instruction_text]
  unfold logInstructionEmitted
  rfl

/-- an x86 instruction node's text is the x86 instruction line, so `x86_line_parse_back` applies to node texts verbatim -/
theorem inst_node_text_x86 (flags : Nat) (env : Env) (pad0 instId options : Nat) (extra : ExtraReg) (ops : List Operand)
    (h : env.arch ≠ Arch.a64) :
    formatNode flags env pad0 (.inst instId options extra ops) none = x86FormatInstruction flags env instId options extra ops := by
  rw [inst_node_text_is_instruction_text]
  unfold formatInstruction
  cases ha : env.arch <;> simp_all

theorem inst_node_text_a64 (flags : Nat) (env : Env) (pad0 instId options : Nat) (extra : ExtraReg) (ops : List Operand)
    (h : env.arch = Arch.a64) :
    formatNode flags env pad0 (.inst instId options extra ops) none = a64FormatInstruction flags env instId ops := by
  rw [inst_node_text_is_instruction_text]
  unfold formatInstruction
  rw [h]

/-! ## label / align / embed-data / embed-label / section / comment nodes denote their content -/

theorem monNode_plain (env : Env) (flags : Nat) (n : Node) (text : Str) :
    monNode env flags n none text 0 =
      (match n with
       | .comment t => text == "; ".toList ++ t
       | .inst id opts extra ops => monInstruction env flags id opts extra ops [] text
       | .label id => monLabelText env id text
       | .align mode nn => monAlignText mode nn text
       | .embedData size count rep => monEmbedText env.arch size count rep text
       | .section name => text == ".section ".toList ++ name
       | .embedLabel id => monEmbedLabelText env id text
       | .embedLabelDelta id base => monLabelDeltaText env id base text) := by
  have hs : stripPosition flags 0 text = some text := by simp [stripPosition]
  unfold monNode
  rw [hs]
  cases n <;> rfl

theorem monNode_label (env : Env) (flags id : Nat) (text : Str) :
    monNode env flags (.label id) none text 0 = monLabelText env id text := monNode_plain env flags (.label id) text
theorem monNode_align (env : Env) (flags mode n : Nat) (text : Str) :
    monNode env flags (.align mode n) none text 0 = monAlignText mode n text := monNode_plain env flags (.align mode n) text
theorem monNode_section (env : Env) (flags : Nat) (name text : Str) :
    monNode env flags (.section name) none text 0 = (text == ".section ".toList ++ name) := monNode_plain env flags (.section name) text
theorem monNode_elabel (env : Env) (flags id : Nat) (text : Str) :
    monNode env flags (.embedLabel id) none text 0 = monEmbedLabelText env id text := monNode_plain env flags (.embedLabel id) text
theorem monNode_comment (env : Env) (flags : Nat) (t text : Str) :
    monNode env flags (.comment t) none text 0 = (text == "; ".toList ++ t) := monNode_plain env flags (.comment t) text
theorem monNode_embed (env : Env) (flags size count rep : Nat) (text : Str) :
    monNode env flags (.embedData size count rep) none text 0 = monEmbedText env.arch size count rep text :=
  monNode_plain env flags (.embedData size count rep) text

theorem comment_node_parse_back (flags : Nat) (env : Env) (pad0 : Nat) (t : Str) :
    monNode env flags (.comment t) none (formatNode flags env pad0 (.comment t) none) = true := by
  have : formatNode flags env pad0 (.comment t) none = "; ".toList ++ t := by
    unfold formatNode; rw [positionPrefix_zero]; rfl
  rw [this, monNode_comment]; simp

theorem section_node_parse_back (flags : Nat) (env : Env) (pad0 : Nat) (name : Str) :
    monNode env flags (.section name) none (formatNode flags env pad0 (.section name) none) = true := by
  have : formatNode flags env pad0 (.section name) none = ".section ".toList ++ name :=
    formatNode_plain _ _ _ _ (by intro t h; cases h)
  rw [this, monNode_section]; simp

theorem label_node_parse_back (flags : Nat) (env : Env) (pad0 id : Nat) (h : parseLabel env (formatLabel env id) = some id) :
    monNode env flags (.label id) none (formatNode flags env pad0 (.label id) none) = true := by
  have : formatNode flags env pad0 (.label id) none = formatLabel env id ++ [':'] :=
    formatNode_plain _ _ _ _ (by intro t h; cases h)
  rw [this, monNode_label]
  unfold monLabelText
  rw [dropLast_concat]
  simp [h]

theorem embed_label_node_parse_back (flags : Nat) (env : Env) (pad0 id : Nat) (h : parseLabel env (formatLabel env id) = some id) :
    monNode env flags (.embedLabel id) none (formatNode flags env pad0 (.embedLabel id) none) = true := by
  have : formatNode flags env pad0 (.embedLabel id) none = ".label ".toList ++ formatLabel env id :=
    formatNode_plain _ _ _ _ (by intro t h; cases h)
  rw [this, monNode_elabel]
  unfold monEmbedLabelText
  rw [stripPrefix_append]
  simp [h]

theorem dec_isDigitC : ∀ d : Fin 10, isDigitC (digitChar d.val) = true := by decide

theorem readNat_uint (n : Nat) (h : n < two64) (rest : Str) (hr : StopsAt isDigitC rest) : readNat (uintStr n 10 ++ rest) = some (n, rest) := by
  have hall : ∀ c ∈ uintStr n 10, isDigitC c = true := by
    unfold uintStr
    exact digitsLoop_chars 10 _ (by omega) (fun d hd => dec_isDigitC ⟨d, hd⟩) 64 n
  have hs := takeWhile_append_stop isDigitC (uintStr n 10) rest hall hr
  unfold readNat
  rw [hs.1, hs.2, parseDec_uintStr n h]
  rfl

example : formatNode 0 { arch := .x64, labels := some [], vregs := none } 0 (.align 0 16) none = ".align 16 (code)".toList := by decide
example : formatNode 0 { arch := .a64, labels := some [], vregs := none } 0 (.embedData 2 3 1) none = ".hword {Count=3 Repeat=1 TotalSize=6}".toList := by decide
example : monNode { arch := .a64, labels := some [], vregs := none } 0 (.embedData 2 3 1) none ".hword {Count=3 Repeat=1 TotalSize=6}".toList = true := by decide

end AsmjitVerif.Props.C20
