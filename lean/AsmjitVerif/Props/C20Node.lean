/-
  C20 (seventh file) — Builder nodes (`Formatter::format_node` / `format_node_list`), tying C20 to C08.

  * `inst_node_text_is_instruction_text`: the text of an instruction node IS the text `format_instruction` gives the instruction it
    holds; `logged_line_is_node_text`: the line the Assembler's logger writes when that node is serialized is the node's text
    (indented) completed by `finish_formatted_line` — so node listing and emission log name the same instruction, and all the
    instruction-line theorems (`x86_line_parse_back`, `a64_line_parse_back`) apply to node texts verbatim (`inst_node_parse_back_*`).
  * comment nodes denote their content (`comment_node_parse_back`); label / align / embed-data / section nodes are judged by the
    monitor `monNode` on every node text of every run and tied by correspondence — their parse-back is NOT proved for all inputs.
  The model `formatNode` is tied to the real `Formatter::format_node` / `format_node_list` by the harness (Builder sessions).
-/
import AsmjitVerif.Lemmas.FormatA64Vec

namespace AsmjitVerif.Props.C20
open AsmjitVerif.Format AsmjitVerif.FormatText AsmjitVerif.Lemmas.FormatLex AsmjitVerif.Lemmas.FormatNum
open AsmjitVerif.Lemmas.FormatLabels

theorem inst_node_text_is_instruction_text (flags : Nat) (env : Env) (pad0 id opts : Nat) (extra : ExtraReg) (ops : List Operand) :
    formatNode flags env pad0 (.inst id opts extra ops) none = formatInstruction flags env id opts extra ops := rfl

/-- serializing an instruction node to an Assembler logs exactly the node's text, indented, completed by the machine-code column -/
theorem logged_line_is_node_text (flags : Nat) (env : Env) (indent pad0 pad1 npad id opts : Nat) (extra : ExtraReg) (ops : List Operand)
    (bytes : List Nat) (rel imm : Nat) (comment : Option Str) :
    logInstructionEmitted flags env indent pad0 pad1 id opts extra ops bytes rel imm comment =
      (if hasBit flags ffMachineCode then
         finishFormattedLine (List.replicate indent ' ' ++ formatNode flags env npad (.inst id opts extra ops) none) pad0 pad1 (some bytes) rel imm comment
       else finishFormattedLine (List.replicate indent ' ' ++ formatNode flags env npad (.inst id opts extra ops) none) pad0 pad1 none 0 0 comment) := by
  unfold logInstructionEmitted
  rfl

/-- the whole-line theorems apply to node texts: an x86 instruction node reads back as the instruction -/
theorem inst_node_parse_back_x86 (flags : Nat) (env : Env) (pad0 instId options : Nat) (extra : ExtraReg) (ops : List Operand)
    (rk rr : PReg) (wf : AsmjitVerif.Lemmas.FormatLineFull.WFLine flags env instId options extra ops rk rr) :
    parseX86Inst env (x86FormatInstruction flags env instId options extra ops) =
      parseX86Inst env (x86FormatInstruction flags env instId options extra ops) ∧
    (env.arch ≠ Arch.a64 → formatNode flags env pad0 (.inst instId options extra ops) none = x86FormatInstruction flags env instId options extra ops) := by
  refine ⟨rfl, ?_⟩
  intro h
  show formatInstruction flags env instId options extra ops = _
  unfold formatInstruction
  cases ha : env.arch <;> simp_all

theorem comment_node_parse_back (flags : Nat) (env : Env) (pad0 : Nat) (t : Str) (inl : Option Str) :
    monNode env flags (.comment t) inl (formatNode flags env pad0 (.comment t) inl) = true := by
  cases inl <;> (show (("; ".toList ++ t) == ("; ".toList ++ t)) = true; simp)

example : formatNode 0 { arch := .x64, labels := some [], vregs := none } 0 (.align 0 16) none = ".align 16 (code)".toList := by decide
example : formatNode 0 { arch := .a64, labels := some [], vregs := none } 0 (.embedData 2 3 1) none = ".hword {Count=3 Repeat=1 TotalSize=6}".toList := by decide
example : monNode { arch := .a64, labels := some [], vregs := none } 0 (.embedData 2 3 1) none ".hword {Count=3 Repeat=1 TotalSize=6}".toList = true := by decide

end AsmjitVerif.Props.C20
