/-
C02, second half of the property ("operands it cannot encode are refused: error, nothing appended") for the SIMD load/store,
by-element and permute classes of the sixth..ninth model waves.  Every theorem is stated as "accepted -> the operands are
encodable" for all rows / operands; the `_refuses_` corollaries are the contrapositives.  A `Result` is either `.ok words` or
`.err name`, so a refusal appends nothing by construction.
-/
import AsmjitVerif.Props.C02Valid
import AsmjitVerif.Model.A64AsmConv
namespace AsmjitVerif.C02
open AsmjitVerif.A64 AsmjitVerif.A64Asm AsmjitVerif.Gen.A64Tables
set_option maxRecDepth 100000

/-- split every `if` / `match` of hypothesis `h` in every branch, then drop the branches that ended in an error -/
macro "explode " h:ident : tactic =>
  `(tactic| ((try dsimp only at $h:ident); repeat' (split at $h:ident <;> try dsimp only at $h:ident)) <;>
    (try (simp [invalidInstruction, invalidPhysId, invalidAddress, invalidDisplacement, invalidElementIndex, invalidImmediate,
                invalidRegType, invalidAddressScale, notModelled] at $h:ident; done)))

/-! ### shared tails -/

theorem tailMemBase_accepts_only_valid (opc : BitVec 32) (m : MemView) (ws : List (BitVec 32)) (h : tailMemBase opc m = .ok ws) :
    m.baseType = rtGp64 ∧ m.baseId ≤ 31 ∧ ws = [opc ||| addReg m.baseId 5] := by
  unfold tailMemBase at h
  split at h
  · simp [invalidAddress] at h
  · simp [ok1] at h
    simp_all [checkMemBase]

theorem tailRd0Rn5_accepts_only_valid (opc : BitVec 32) (o0 o1 : Reg) (indexed : Nat) (ws : List (BitVec 32))
    (h : tailRd0Rn5 opc o0 o1 indexed = .ok ws) :
    validReg o0 = true ∧ validReg o1 = true ∧ ws = [opc ||| addReg o0.id 0 ||| addReg o1.id 5] := by
  unfold tailRd0Rn5 at h
  repeat (split at h <;> try (simp [invalidInstruction, invalidPhysId] at h))
  simp [ok1] at h
  simp_all

theorem tailRd0_accepts_only_valid (opc : BitVec 32) (o0 : Reg) (a b : Nat) (ws : List (BitVec 32))
    (h : tailRd0 opc o0 a b = .ok ws) : validReg o0 = true ∧ ws = [opc ||| addReg o0.id 0] := by
  unfold tailRd0 at h
  repeat (split at h <;> try (simp [invalidInstruction, invalidPhysId] at h))
  simp [ok1] at h
  simp_all

/-- a vector register id above 31 is not valid for any vector register type -/
theorem validReg_vec_id (r : Reg) (hv : r.isVec = true) (h : validReg r = true) : r.id ≤ 31 := by
  unfold validReg at h
  unfold Reg.isVec rtVec8 rtVec128 at hv
  have hr : r.rt = 7 ∨ r.rt = 8 ∨ r.rt = 9 ∨ r.rt = 10 ∨ r.rt = 11 := by
    simp at hv; omega
  have hc : ∀ t, (t = 7 ∨ t = 8 ∨ t = 9 ∨ t = 10 ∨ t = 11) → commonHiRegId[t]? = some ⟨31⟩ := by
    intro t ht
    rcases ht with h | h | h | h | h <;> subst h <;> decide
  rw [hc _ hr] at h
  simp at h
  omega

/-! ### SIMD load/store classes -/

/-- LDUR/STUR (SIMD): accepted only with a valid register number, a base X register / SP and a 9-bit signed offset -/
theorem simdLdurStur_accepts_only_valid (d : SimdLdurSturRow) (o0 : Reg) (m : MemView) (ws : List (BitVec 32))
    (h : emitSimdLdurStur d o0 m = .ok ws) :
    o0.id ≤ 31 ∧ isInt9 m.off32 = true ∧ m.baseType = rtGp64 ∧ m.baseId ≤ 31 ∧ m.mode = 0 ∧ m.hasIndex = false := by
  unfold emitSimdLdurStur at h
  explode h
  have t := tailMemBase_accepts_only_valid _ _ _ h
  simp_all
  try omega

theorem simdLdurStur_refuses_out_of_range (d : SimdLdurSturRow) (o0 : Reg) (m : MemView) (hr : isInt9 m.off32 = false) :
    ∀ ws, emitSimdLdurStur d o0 m ≠ .ok ws := by
  intro ws h
  have := (simdLdurStur_accepts_only_valid d o0 m ws h).2.1
  simp_all

theorem simdLdurStur_refuses_bad_id (d : SimdLdurSturRow) (o0 : Reg) (m : MemView) (hb : 32 ≤ o0.id) :
    ∀ ws, emitSimdLdurStur d o0 m ≠ .ok ws := by
  intro ws h
  have := (simdLdurStur_accepts_only_valid d o0 m ws h).1
  omega

/-- LDP/STP/LDNP/STNP (SIMD): accepted only when both register numbers are valid, the base is an X register / SP and the
offset is a multiple of the register size that fits the signed 7-bit field after scaling -/
theorem simdLdpStp_accepts_only_valid (d : SimdLdpStpRow) (o0 o1 : Reg) (m : MemView) (ws : List (BitVec 32))
    (h : emitSimdLdpStp d o0 o1 m = .ok ws) :
    (o0.id ||| o1.id) ≤ 31 ∧ m.baseType = rtGp64 ∧ m.baseId ≤ 31 ∧ m.hasIndex = false ∧
    ((m.off32.sshiftRight (2 + u32sub o0.rt rtVec32)) <<< (2 + u32sub o0.rt rtVec32) = m.off32) ∧
    (-64 ≤ (m.off32.sshiftRight (2 + u32sub o0.rt rtVec32)).toInt ∧ (m.off32.sshiftRight (2 + u32sub o0.rt rtVec32)).toInt ≤ 63) := by
  unfold emitSimdLdpStp at h
  explode h
  all_goals (
    have t := tailMemBase_accepts_only_valid _ _ _ h
    simp_all
    try omega)

theorem simdLdpStp_refuses_misaligned (d : SimdLdpStpRow) (o0 o1 : Reg) (m : MemView)
    (hm : (m.off32.sshiftRight (2 + u32sub o0.rt rtVec32)) <<< (2 + u32sub o0.rt rtVec32) ≠ m.off32) :
    ∀ ws, emitSimdLdpStp d o0 o1 m ≠ .ok ws := by
  intro ws h
  exact hm (simdLdpStp_accepts_only_valid d o0 o1 m ws h).2.2.2.2.1

theorem simdLdpStp_refuses_bad_id (d : SimdLdpStpRow) (o0 o1 : Reg) (m : MemView) (hb : 32 ≤ (o0.id ||| o1.id)) :
    ∀ ws, emitSimdLdpStp d o0 o1 m ≠ .ok ws := by
  intro ws h
  have := (simdLdpStp_accepts_only_valid d o0 o1 m ws h).1
  omega

/-! ### by-element classes: every accepted instruction went through `EmitOp_Rd0_Rn5_Rm16` with valid register ids, and the
element index fits the H:L:M field of the element size -/

theorem encodeLmh_idx (s i : Nat) (r : Nat × Nat × Nat) (h : encodeLmh s i = some r) : i ≤ 7 := by
  unfold encodeLmh at h
  split at h
  · simp at h
  · split at h
    · simp at h
    · rename_i h1 h2
      have hs : s = 1 ∨ s = 2 := by
        simp at h1
        by_cases hh : s = 1
        · exact Or.inl hh
        · exact Or.inr (h1 hh)
      rcases hs with hs | hs <;> subst hs <;> simp at h2 <;> omega

theorem iSimdVVVe_accepts_only_valid (d : ISimdVVVeRow) (flags : Nat) (o0 o1 o2 : Reg) (ws : List (BitVec 32))
    (h : emitISimdVVVe d flags o0 o1 o2 = .ok ws) :
    validReg o0 = true ∧ validReg o1 = true ∧ validReg o2 = true ∧ (o2.hasIdx = true → o2.idx ≤ 7) := by
  unfold emitISimdVVVe at h
  explode h
  all_goals (
    have t := tailRd0Rn5Rm16_accepts_only_valid _ _ _ _ _ _ h
    refine ⟨t.1, t.2.1, t.2.2.1, ?_⟩
    intro hi
    first
      | exact encodeLmh_idx _ _ _ ‹encodeLmh _ _ = some _›
      | simp_all)

theorem simdDot_accepts_only_valid (d : SimdDotRow) (o0 o1 o2 : Reg) (ws : List (BitVec 32))
    (h : emitSimdDot d o0 o1 o2 = .ok ws) : validReg o0 = true ∧ validReg o1 = true ∧ validReg o2 = true := by
  unfold emitSimdDot at h
  explode h
  all_goals (
    have t := tailRd0Rn5Rm16_accepts_only_valid _ _ _ _ _ _ h
    exact ⟨t.1, t.2.1, t.2.2.1⟩)

theorem simdFmlal_accepts_only_valid (d : SimdFmlalRow) (o0 o1 o2 : Reg) (ws : List (BitVec 32))
    (h : emitSimdFmlal d o0 o1 o2 = .ok ws) :
    validReg o0 = true ∧ validReg o1 = true ∧ validReg o2 = true ∧ (o2.hasIdx = true → o2.id ≤ 15 ∧ o2.idx ≤ 7) := by
  unfold emitSimdFmlal at h
  explode h
  all_goals (
    have t := tailRd0Rn5Rm16_accepts_only_valid _ _ _ _ _ _ h
    refine ⟨t.1, t.2.1, t.2.2.1, ?_⟩
    intro hi
    simp_all
    try omega)

theorem simdFcmla_accepts_only_valid (d : SimdFcmlaRow) (o0 o1 o2 : Reg) (imm : BitVec 64) (ws : List (BitVec 32))
    (h : emitSimdFcmla d o0 o1 o2 imm = .ok ws) :
    validReg o0 = true ∧ validReg o1 = true ∧ validReg o2 = true ∧ (imm = 0#64 ∨ imm = 90#64 ∨ imm = 180#64 ∨ imm = 270#64) := by
  unfold emitSimdFcmla at h
  explode h
  all_goals (
    have t := tailRd0Rn5Rm16_accepts_only_valid _ _ _ _ _ _ h
    refine ⟨t.1, t.2.1, t.2.2.1, ?_⟩
    by_cases h0 : imm = 0#64 <;> by_cases h1 : imm = 90#64 <;> by_cases h2 : imm = 180#64 <;> by_cases h3 : imm = 270#64 <;> simp_all)

theorem simdFcadd_accepts_only_valid (d : SimdFcaddRow) (o0 o1 o2 : Reg) (imm : BitVec 64) (ws : List (BitVec 32))
    (h : emitSimdFcadd d o0 o1 o2 imm = .ok ws) :
    validReg o0 = true ∧ validReg o1 = true ∧ validReg o2 = true ∧ (imm = 90#64 ∨ imm = 270#64) := by
  unfold emitSimdFcadd at h
  explode h
  all_goals (
    have t := tailRd0Rn5Rm16_accepts_only_valid _ _ _ _ _ _ h
    refine ⟨t.1, t.2.1, t.2.2.1, ?_⟩
    by_cases h1 : imm = 270#64 <;> by_cases h2 : imm = 90#64 <;> simp_all)

/-! ### permutes -/

theorem simdDup_accepts_only_valid (o0 o1 : Reg) (ws : List (BitVec 32)) (h : emitSimdDup o0 o1 = .ok ws) :
    validReg o0 = true ∧ validReg o1 = true := by
  unfold emitSimdDup at h
  explode h
  all_goals (
    have t := tailRd0Rn5_accepts_only_valid _ _ _ _ _ h
    exact ⟨t.1, t.2.1⟩)

theorem simdIns_accepts_only_valid (o0 o1 : Reg) (ws : List (BitVec 32)) (h : emitSimdIns o0 o1 = .ok ws) :
    validReg o0 = true ∧ validReg o1 = true ∧ o0.rt = rtVec128 ∧ o0.hasIdx = true := by
  unfold emitSimdIns at h
  explode h
  all_goals (
    have t := tailRd0Rn5_accepts_only_valid _ _ _ _ _ h
    simp_all)

theorem simdShiftImm_accepts_only_valid (d : SimdShiftRow) (flags : Nat) (o0 o1 : Reg) (imm : BitVec 64) (ws : List (BitVec 32))
    (h : emitSimdShiftImm d flags o0 o1 imm = .ok ws) : validReg o0 = true ∧ validReg o1 = true ∧ imm.toNat ≤ 63 := by
  unfold emitSimdShiftImm at h
  explode h
  all_goals (
    have t := tailRd0Rn5_accepts_only_valid _ _ _ _ _ h
    refine ⟨t.1, t.2.1, ?_⟩
    simp_all
    try omega)

/-! ### further classes -/

/-- LDR/STR (SIMD), every addressing form including the LDUR/STUR fallback and the literal form -/
theorem simdLdSt_accepts_only_valid (d : SimdLdStRow) (o0 : Reg) (mo : Operand) (m : MemView) (pos : Nat) (ws : List (BitVec 32))
    (h : emitSimdLdSt d o0 mo m pos = .ok ws) : o0.id ≤ 31 ∧ u32sub o0.rt rtVec8 ≤ 4 ∧ checkMemBaseIndexRel m = true := by
  unfold emitSimdLdSt at h
  explode h
  all_goals (simp_all <;> omega)

theorem simdLdSt_refuses_bad_id (d : SimdLdStRow) (o0 : Reg) (mo : Operand) (m : MemView) (pos : Nat) (hb : 32 ≤ o0.id) :
    ∀ ws, emitSimdLdSt d o0 mo m pos ≠ .ok ws := by
  intro ws h
  have := (simdLdSt_accepts_only_valid d o0 mo m pos ws h).1
  omega

theorem simdSm3tt_accepts_only_valid (d : SimdSm3ttRow) (o0 o1 o2 : Reg) (ws : List (BitVec 32))
    (h : emitSimdSm3tt d o0 o1 o2 = .ok ws) : validReg o0 = true ∧ validReg o1 = true ∧ validReg o2 = true ∧ o2.idx ≤ 3 := by
  unfold emitSimdSm3tt at h
  explode h
  all_goals (
    have t := tailRd0Rn5Rm16_accepts_only_valid _ _ _ _ _ _ h
    refine ⟨t.1, t.2.1, t.2.2.1, ?_⟩
    simp_all <;> omega)

theorem simdUmov_accepts_only_valid (d : SimdSmovUmovRow) (o0 o1 : Reg) (ws : List (BitVec 32))
    (h : emitSimdUmov d o0 o1 = .ok ws) : validReg o0 = true ∧ validReg o1 = true ∧ o0.isGp = true ∧ o1.isVec = true ∧ o1.hasIdx = true := by
  unfold emitSimdUmov at h
  explode h
  all_goals (
    have t := tailRd0Rn5_accepts_only_valid _ _ _ _ _ h
    simp_all)

theorem simdFcvtSVFixed_accepts_only_valid (d : SimdFcvtSVRow) (o0 o1 : Reg) (imm : BitVec 64) (ws : List (BitVec 32))
    (h : emitSimdFcvtSVFixed d o0 o1 imm = .ok ws) : validReg o0 = true ∧ validReg o1 = true ∧ 1 ≤ imm.toNat ∧ imm.toNat ≤ 63 := by
  unfold emitSimdFcvtSVFixed at h
  explode h
  all_goals (
    have t := tailRd0Rn5_accepts_only_valid _ _ _ _ _ h
    refine ⟨t.1, t.2.1, ?_⟩
    simp_all <;> omega)

end AsmjitVerif.C02
