/-
C10 — sections are laid out without overlap and the flattened image is exact.

All theorems are about `Model/Sections.lean` (the REPAIRED code: fixes/C10-1.patch, C10-2.patch) and are stated for every
reachable section table `run ops` (any history of new_section / append / set_virtual_size / address-table / call-abs /
flatten / relocate operations) or for every table whatsoever.  `Spec/Sections.lean` holds the meaning
(`OrderSorted`, `NoOverlap`, `OffsetsMonotone`, `Aligned`, `idealOffsets`, `idealEnd`, `codeSizeSpec`, `imageByte`, `fitsB`).

Not proved here: byte patching of relocations (C04's subject); the allocator behind `JitRuntime::add` (C09).
-/
import AsmjitVerif.Lemmas.SectionsRun
import AsmjitVerif.Lemmas.SectionsSize
import AsmjitVerif.Lemmas.SectionsCopy
import AsmjitVerif.Lemmas.SectionsBuild
import AsmjitVerif.Lemmas.SectionsJit
import AsmjitVerif.Lemmas.SectionsRed
namespace AsmjitVerif.Sections

/-- every reachable table is strictly sorted by (order, id), its ids are below the section count, `.text` is first and
    every other section has a power-of-two alignment (`Pre`) -/
theorem reachable_table_inv (ops : List Op) :
    OrderSorted (run ops).secs ∧ (∀ s ∈ (run ops).secs, s.id < (run ops).secs.length) ∧ Pre 0 (run ops).secs :=
  ⟨(run_inv ops).sorted, (run_inv ops).ids, (run_inv ops).pre⟩

/-- `flatten` succeeds exactly when the ideal (unbounded) layout fits 64 bits: no silent wrap, no spurious refusal -/
theorem flatten_ok_iff (ops : List Op) :
    (flatten (run ops)).2 = .ok () ↔ idealEnd 0 (run ops).secs < U64 := by
  have h := flattenCheck_iff 0 (run ops).secs (run_inv ops).pre (by unfold U64; omega)
  unfold flatten
  split
  · rename_i hc; simp [h.mp hc]
  · rename_i hc
    constructor
    · intro h'; cases h'
    · intro h'; exact absurd (h.mpr h') hc

/-- a refused `flatten` reports `kTooLarge` and leaves the table untouched (any table) -/
theorem flatten_refusal_is_tooLarge (h : Holder) (hne : (flatten h).2 ≠ .ok ()) : flatten h = (h, .error .tooLarge) := by
  unfold flatten at hne ⊢
  split
  · rename_i hc; rw [if_pos hc] at hne; exact absurd rfl hne
  · rfl

/-- the layout after a successful `flatten` of any reachable table: offsets are exactly the least aligned offsets of the
    ideal layout computed from the sizes before the call; sections do not overlap; offsets follow the order; non-empty
    sections are aligned; identity, order, alignment, data are kept, real sizes only grow, empty sections stay empty -/
theorem flatten_layout (ops : List Op) (hok : (flatten (run ops)).2 = .ok ()) :
    (flatten (run ops)).1.secs.map (·.offset) = idealOffsets 0 (run ops).secs ∧
    NoOverlap (flatten (run ops)).1.secs ∧ OffsetsMonotone (flatten (run ops)).1.secs ∧ Aligned (flatten (run ops)).1.secs ∧
    layoutChk 0 0 (flatten (run ops)).1.secs = true ∧
    AllRel Rel (run ops).secs (flatten (run ops)).1.secs := by
  have hfit := (flatten_ok_iff ops).mp hok
  have hc := (flattenCheck_iff 0 (run ops).secs (run_inv ops).pre (by unfold U64; omega)).mpr hfit
  obtain ⟨hA, hB, hC, _⟩ := assign_good 0 (run ops).secs (run_inv ops).pre hfit
  have hs := layoutChk_sound hB
  unfold flatten
  rw [if_pos hc]
  exact ⟨hA, hs.1, hs.2.1, hs.2.2, hB, hC⟩

/-- the reported size after a successful `flatten` of any reachable table is the ideal size, is what `code_size()` said
    before the call (the estimate is stable — defect #17 broke exactly this), is the end of the last section by order with
    non-zero real size, is the end of the very last section, is the largest section end, and no section ends behind it -/
theorem flatten_code_size (ops : List Op) (hok : (flatten (run ops)).2 = .ok ()) :
    codeSize (flatten (run ops)).1 = idealEnd 0 (run ops).secs ∧
    codeSize (flatten (run ops)).1 = codeSize (run ops) ∧
    codeSize (flatten (run ops)).1 = endOfLastNonEmpty 0 (flatten (run ops)).1.secs ∧
    codeSize (flatten (run ops)).1 = lastEnd (flatten (run ops)).1.secs ∧
    codeSize (flatten (run ops)).1 = imageEnd (flatten (run ops)).1.secs ∧
    ∀ b ∈ (flatten (run ops)).1.secs, b.offset + b.realSize ≤ codeSize (flatten (run ops)).1 := by
  have hfit := (flatten_ok_iff ops).mp hok
  have hpre := (run_inv ops).pre
  have hc := (flattenCheck_iff 0 (run ops).secs hpre (by unfold U64; omega)).mpr hfit
  obtain ⟨_, _, _, hD⟩ := assign_good 0 (run ops).secs hpre hfit
  have hE := (assign_idealEnd 0 (run ops).secs hpre hfit).1
  have hN := assign_ends 0 (run ops).secs hpre hfit
  have hI := assign_imageEnd (run ops).secs hpre hfit
  have hne : (run ops).secs ≠ [] := by
    obtain ⟨t, rest, h, _⟩ := (run_inv ops).shape
    rw [h]; simp
  have hpost : Pre 0 (assign 0 (run ops).secs) := (InvS.transfer (assign_keys 0 _) (run_inv ops)).pre
  have hsecs : (flatten (run ops)).1.secs = assign 0 (run ops).secs := by
    unfold flatten; rw [if_pos hc]
  have h1 : codeSize (flatten (run ops)).1 = idealEnd 0 (run ops).secs := by
    unfold codeSize
    rw [hsecs, codeSizeOf_eq_spec _ hpost]
    unfold codeSizeSpec
    rw [hE, if_pos hfit]
  have h2 : codeSize (run ops) = idealEnd 0 (run ops).secs := by
    unfold codeSize
    rw [codeSizeOf_eq_spec _ hpre]
    unfold codeSizeSpec
    rw [if_pos hfit]
  refine ⟨h1, by rw [h1, h2], by rw [h1, hsecs, hN.1], by rw [h1, hsecs, hN.2 hne], by rw [h1, hsecs, hI], ?_⟩
  intro b hb
  rw [h1]
  rw [hsecs] at hb
  exact hD b hb

/-- `code_size()` of every reachable table (flattened or not) is the ideal size, saturated at SIZE_MAX when that does not
    fit 64 bits (the pinned `code_size` wraps silently when `align_up` overflows: `codeSizeOld_wraps`) -/
theorem code_size_exact (ops : List Op) : codeSize (run ops) = codeSizeSpec (run ops).secs :=
  codeSizeOf_eq_spec _ (run_inv ops).pre

/-- flattening again (after any further operations or none) keeps succeeding with the same size as long as nothing
    else changed: `flatten` is a size fixpoint -/
theorem flatten_again_same_size (ops : List Op) (hok : (flatten (run ops)).2 = .ok ()) :
    (flatten (run (ops ++ [Op.flatten]))).2 = .ok () ∧
    codeSize (flatten (run (ops ++ [Op.flatten]))).1 = codeSize (run ops) := by
  have hrun : run (ops ++ [Op.flatten]) = (flatten (run ops)).1 := by simp [run, step]
  have h1 := flatten_code_size ops hok
  have hfit := (flatten_ok_iff ops).mp hok
  have hc := (flattenCheck_iff 0 (run ops).secs (run_inv ops).pre (by unfold U64; omega)).mpr hfit
  have hE := (assign_idealEnd 0 (run ops).secs (run_inv ops).pre hfit).1
  have hok2 : (flatten (run (ops ++ [Op.flatten]))).2 = .ok () := by
    rw [flatten_ok_iff (ops ++ [Op.flatten]), hrun]
    unfold flatten; rw [if_pos hc]
    show idealEnd 0 (assign 0 (run ops).secs) < U64
    rw [hE]; exact hfit
  refine ⟨hok2, ?_⟩
  have h2 := flatten_code_size (ops ++ [Op.flatten]) hok2
  rw [h2.2.1, hrun, h1.2.1]

/-- `copy_flattened_data` never writes outside the destination — every table (flattened or not), every destination size,
    all four flag combinations -/
theorem copyFlattened_no_fault (h : Holder) (dst : List Byte) (flags : CopyFlags) : copyFlattened h dst flags ≠ .fault :=
  copyFlattenedSecs_no_fault' h.secs dst flags

/-- it refuses exactly the destinations in which some section's buffer does not fit -/
theorem copyFlattened_refuses_iff (h : Holder) (dst : List Byte) (flags : CopyFlags) :
    (∃ e, copyFlattened h dst flags = .error e) ↔ fitsB dst.length h.secs = false :=
  copyFlattenedSecs_refuses_iff' h.secs dst flags

/-- on a table without overlap the accepted copy is the specified image byte for byte: section bytes at their offsets,
    zeros in virtual tails / behind the data when asked, old content everywhere else; the length is unchanged -/
theorem copyFlattened_exact (h : Holder) (dst : List Byte) (flags : CopyFlags)
    (hfit : fitsB dst.length h.secs = true) (hno : NoOverlap h.secs) :
    ∃ d, copyFlattened h dst flags = .ok d ∧ d.length = dst.length ∧
      ∀ k, k < dst.length → d[k]? = some (imageByte h.secs dst.length flags (fun i => dst.getD i 0) k) :=
  copyFlattenedSecs_exact' h.secs dst flags hfit hno

/-- end to end: flatten any reachable table, then copy into any destination that fits, with any flags -/
theorem copy_after_flatten_exact (ops : List Op) (hok : (flatten (run ops)).2 = .ok ()) (dst : List Byte) (flags : CopyFlags)
    (hfit : fitsB dst.length (flatten (run ops)).1.secs = true) :
    ∃ d, copyFlattened (flatten (run ops)).1 dst flags = .ok d ∧ d.length = dst.length ∧
      ∀ k, k < dst.length → d[k]? = some (imageByte (flatten (run ops)).1.secs dst.length flags (fun i => dst.getD i 0) k) :=
  copyFlattened_exact _ dst flags hfit (flatten_layout ops hok).2.1

/-- `copy_section_data` never writes outside the destination -/
theorem copySection_no_fault (h : Holder) (dst : List Byte) (id : Nat) (flags : CopyFlags) :
    copySection h dst id flags ≠ .fault := copySection_no_fault' h dst id flags

/-- `copy_section_data` of a valid section: refused (kInvalidArgument) when the destination is smaller than the buffer;
    otherwise the result has the destination's length and is, byte for byte, the section's buffer followed by zeros
    (kPadSectionBuffer) or by the old content -/
theorem copySection_exact (h : Holder) (dst : List Byte) (id : Nat) (flags : CopyFlags) (s : Section)
    (hv : h.validId id = true) (hs : findSec h.secs id = some s) :
    (dst.length < s.bufSize → copySection h dst id flags = .error .invalidArgument) ∧
    (s.bufSize ≤ dst.length → ∃ d, copySection h dst id flags = .ok d ∧ d.length = dst.length ∧
        ∀ k, k < dst.length → d[k]? = some (sectionImageByte s flags (fun i => dst.getD i 0) k)) :=
  copySection_spec' h dst id flags s hv hs

/-- the size estimated before relocation is never smaller than the size after it: for every program built by
    new_section / data / virtual-size / address-table / call-abs operations (`BuildOK`: no flatten or relocate inside,
    the virtual size of `.addrtab` itself is left to `add_address_to_address_table`; fewer than 2^60 operations so that
    8 bytes per entry cannot wrap), relocated to any base, directly or after `flatten` (the `JitRuntime::_add` order) -/
theorem estimate_ge_final (ops : List Op) (hb : BuildOK init ops) (hl : ops.length < 2 ^ 60) (base : Nat) :
    codeSize (relocate (run ops) base).1 ≤ codeSize (run ops) ∧
    codeSize (relocate (flatten (run ops)).1 base).1 ≤ codeSize (flatten (run ops)).1 := by
  have hat := build_addrTabOK ops hb hl
  have hinv := run_inv ops
  refine ⟨relocate_code_size_le _ hinv hat base, ?_⟩
  have hinv' : InvS (flatten (run ops)).1.secs := by
    have := run_inv (ops ++ [Op.flatten])
    simpa [run, step] using this
  exact relocate_code_size_le _ hinv' (flatten_addrTabOK _ hinv hat) base

/-- `RelocationSummary::code_size_reduction` never overshoots: in the `JitRuntime::_add` order (build, flatten, relocate to
    any base) final `code_size()` + reported reduction ≤ estimate, i.e. the `estimate - reduction` bytes that `_add` keeps
    after shrinking the span still hold the whole final image -/
theorem reduction_never_overshoots (ops : List Op) (hb : BuildOK init ops) (hl : ops.length < 2 ^ 60)
    (hok : (flatten (run ops)).2 = .ok ()) (base : Nat) :
    codeSize (relocate (flatten (run ops)).1 base).1 + (relocate (flatten (run ops)).1 base).2.2 ≤ codeSize (flatten (run ops)).1 := by
  have hinv : InvS (flatten (run ops)).1.secs := by
    have := run_inv (ops ++ [Op.flatten])
    simpa [run, step] using this
  have hat := flatten_addrTabOKv _ (run_inv ops) (build_addrTabOKv ops hb hl)
  have hfit := (flatten_ok_iff ops).mp hok
  have hc := (flattenCheck_iff 0 (run ops).secs (run_inv ops).pre (by unfold U64; omega)).mpr hfit
  have hE := (assign_idealEnd 0 (run ops).secs (run_inv ops).pre hfit).1
  have hns : idealEnd 0 (flatten (run ops)).1.secs < U64 := by
    unfold flatten; rw [if_pos hc]
    show idealEnd 0 (assign 0 (run ops).secs) < U64
    rw [hE]; exact hfit
  exact relocate_reduction_bound _ hinv hat base hns

/-- state form of the same: whenever no entry has a slot yet and `.addrtab` reserves 8 bytes per entry -/
theorem estimate_ge_final_state (h : Holder) (hinv : InvS h.secs) (hat : AddrTabOK h) (base : Nat) :
    codeSize (relocate h base).1 ≤ codeSize h := relocate_code_size_le h hinv hat base

/-- the copy loop of `JitRuntime::_add` over a list of sections that the span holds (`offset + real_size ≤ size`) and
    that do not overlap writes exactly what `copy_flattened_data(kPadSectionBuffer)` writes over the same list, and that is
    the specified image byte for byte -/
theorem installed_image_exact_list (l : List Section) (dst : List Byte)
    (hfit : ∀ s ∈ l, s.offset + s.realSize ≤ dst.length) (hno : NoOverlap l) :
    ∃ d, jitCopy l dst = some d ∧ copyFlattenedSecs l dst { padSection := true, padTarget := false } = .ok d ∧
      d.length = dst.length ∧
      ∀ k, k < dst.length → d[k]? = some (imageByte l dst.length { padSection := true, padTarget := false } (fun i => dst.getD i 0) k) := by
  obtain ⟨d, e', h1, h2⟩ := jitCopy_eq_copyLoop l dst 0 hfit
  have hfits : fitsB dst.length l = true := by
    unfold fitsB
    rw [List.all_eq_true]
    intro s hs
    have := hfit s hs
    have : s.bufSize ≤ s.realSize := by unfold Section.realSize; omega
    simp; omega
  obtain ⟨d', hd', hlen, hget⟩ := copyFlattenedSecs_exact' l dst { padSection := true, padTarget := false } hfits hno
  have hdd : d' = d := by
    unfold copyFlattenedSecs at hd'
    rw [h1] at hd'
    simpa using hd'.symm
  subst hdd
  exact ⟨d', h2, hd', hlen, hget⟩

/-- what the copy loop of `JitRuntime::_add` installs (sections walked in ID order, `code->_sections`) into a span that
    holds every section is exactly what `copy_flattened_data(kPadSectionBuffer)` (sections walked BY ORDER) produces for
    the same state, and that is the specified image byte for byte; no write leaves the span (`jitCopy ≠ none`) -/
theorem installed_image_exact (h : Holder) (hinv : InvS h.secs) (hno : NoOverlap h.secs) (dst : List Byte)
    (hfit : ∀ s ∈ h.secs, s.offset + s.realSize ≤ dst.length) :
    ∃ d, jitCopy (byId h.secs) dst = some d ∧
      copyFlattened h dst { padSection := true, padTarget := false } = .ok d ∧ d.length = dst.length ∧
      ∀ k, k < dst.length → d[k]? = some (imageByte h.secs dst.length { padSection := true, padTarget := false } (fun i => dst.getD i 0) k) := by
  obtain ⟨d, h1, h2⟩ := jitCopy_byId_eq h.secs hinv dst hfit hno
  obtain ⟨d', _, h3, hlen, hget⟩ := installed_image_exact_list h.secs dst hfit hno
  have : d' = d := by rw [h2] at h3; cases h3; rfl
  subst this
  exact ⟨d', h1, h2, hlen, hget⟩

/-- the `JitRuntime::_add` sequence on any built program: flatten, relocate to any base, copy into a zeroed span of
    any size `n ≥` the estimate: the installed bytes are the flattened image of the RELOCATED state -/
theorem installed_image_after_relocate (ops : List Op) (hb : BuildOK init ops) (hl : ops.length < 2 ^ 60)
    (hok : (flatten (run ops)).2 = .ok ()) (base n : Nat) (hn : codeSize (flatten (run ops)).1 ≤ n) :
    ∃ d, jitCopy (byId (relocate (flatten (run ops)).1 base).1.secs) (zeros n) = some d ∧
      copyFlattened (relocate (flatten (run ops)).1 base).1 (zeros n) { padSection := true, padTarget := false } = .ok d := by
  have hinv : InvS (flatten (run ops)).1.secs := by
    have := run_inv (ops ++ [Op.flatten])
    simpa [run, step] using this
  have hat := flatten_addrTabOK _ (run_inv ops) (build_addrTabOK ops hb hl)
  have hshr := relocate_shrinks (flatten (run ops)).1 hat base
  have hinv2 := InvS.transfer (relocate_keys (flatten (run ops)).1 base) hinv
  have hno2 := noOverlap_of_shrinks hshr (flatten_layout ops hok).2.1
  have hbound := (flatten_code_size ops hok).2.2.2.2.2
  obtain ⟨d, h1, h2, _, _⟩ := installed_image_exact (relocate (flatten (run ops)).1 base).1 hinv2 hno2 (zeros n) (by
    intro s' hs'
    obtain ⟨s, hs, hss⟩ := hshr.mem_right s' hs'
    have := hbound s hs
    rw [zeros_length, hss.2.2]
    have := hss.2.1
    omega)
  exact ⟨d, h1, h2⟩

/-- the whole (repaired) `JitRuntime::_add` on any built program and any span address never takes a write outside the span
    (the model's `none`): it either reports an error (kTooLarge, kNoCodeGenerated, a relocation error) or installs bytes -/
theorem jitAdd_no_fault (ops : List Op) (hb : BuildOK init ops) (hl : ops.length < 2 ^ 60) (base : Nat) :
    (jitAdd (run ops) base).2 ≠ none := by
  unfold jitAdd
  cases hf : flatten (run ops) with
  | mk h1 r =>
    dsimp only
    cases r with
    | error e => simp
    | ok u =>
      cases u
      dsimp only
      split
      · simp
      · cases hr : relocate h1 base with
        | mk h2 rr =>
          obtain ⟨r2, red⟩ := rr
          dsimp only
          cases r2 with
          | error e => simp
          | ok u2 =>
            cases u2
            dsimp only
            split
            · simp
            · have hok : (flatten (run ops)).2 = .ok () := by rw [hf]
              obtain ⟨d, hd, _⟩ := installed_image_after_relocate ops hb hl hok base (codeSize (flatten (run ops)).1) (Nat.le_refl _)
              rw [hf, hr] at hd
              dsimp only at hd
              rw [hd]
              simp

/-- a REUSED CodeHolder (`reinit()`, or `reset(kSoft|kHard)` + `init()`) carries exactly the section table of a fresh one,
    whatever it held before — in particular `.text` (the embedded section object that survives the reset) starts again with
    offset 0, virtual size 0 and an empty buffer, and no address table, entries or relocations remain -/
theorem reinit_table_eq_fresh (h : Holder) : reinit h = init := reinit_eq_init h

/-- hence a second use is indistinguishable from the same operations on a fresh holder: same table, same `code_size()`,
    same flatten result, same copies (all are functions of the table) -/
theorem reuse_indistinguishable (ops1 ops2 : List Op) : run (ops1 ++ [Op.reinit] ++ ops2) = run ops2 := by
  simp [run, step, reinit_eq_init]

/-! ### non-vacuity and the defects of the pinned code, in Lean -/

/-- `.text` 1 byte, `.a` empty align 16, `.b` 1 byte align 16 -/
def ex17 : List Op :=
  [.appendData 0 [0x90], .newSection ".a" 16 0, .newSection ".b" 16 0, .appendData 2 [0xCC]]

example : (flatten (run ex17)).2.toBool = true := by decide
example : (flatten (run ex17)).1.secs.map (·.offset) = [0, 1, 16] := by decide
example : (flatten (run ex17)).1.secs.map (·.vsize) = [16, 0, 0] := by decide
example : codeSize (run ex17) = 17 ∧ codeSize (flatten (run ex17)).1 = 17 := by decide
example : copyFlattened (flatten (run ex17)).1 (List.replicate 18 0xAA) { padSection := true, padTarget := false }
    = .ok ([0x90] ++ List.replicate 15 0 ++ [0xCC, 0xAA]) := by decide
example : copyFlattened (flatten (run ex17)).1 (List.replicate 16 0xAA) { padSection := true, padTarget := true }
    = .error .invalidArgument := by decide
/-- order: a later section with a smaller order value goes first; equal orders keep creation order -/
example : (run [.newSection "x" 1 5, .newSection "y" 1 (-1), .newSection "z" 1 5]).secs.map (·.id) = [0, 2, 1, 3] := by decide

/-- a far call and a near jump from `.text`: two address-table entries reserved, one used at base 0x10000 -/
def exCall : List Op := [.emitCall 0 false 0x7fff123456789abc, .emitCall 0 true 0x1000]

example : BuildOK init exCall := ⟨trivial, trivial, trivial⟩
example : codeSize (flatten (run exCall)).1 = 32 := by decide
example : codeSize (relocate (flatten (run exCall)).1 0x10000).1 = 24 ∧ (relocate (flatten (run exCall)).1 0x10000).2.2 = 8 := by decide
example : (flatten (run exCall)).2.toBool = true := by decide
example : (jitCopy (byId (relocate (flatten (run exCall)).1 0x10000).1.secs) (zeros 32)).isSome = true := by decide
example : copySection (run ex17) (List.replicate 3 0xAA) 2 { padSection := true, padTarget := false } = .ok [0xCC, 0, 0] := by decide
example : copySection (run ex17) [] 2 { padSection := true, padTarget := false } = .error .invalidArgument := by decide
/-- address table NOT last (a later section with order INT_MAX): the used slot becomes its buffer, the virtual size and
    `code_size()` stay, no reduction is reported (repaired relocate_to_base, C04-1) -/
def exCallMid : List Op := exCall ++ [.newSection "z" 1 2147483647, .appendData 2 [0xC3]]

example : BuildOK init exCallMid := ⟨trivial, trivial, trivial, trivial, trivial⟩
example : codeSize (flatten (run exCallMid)).1 = 33 ∧ codeSize (relocate (flatten (run exCallMid)).1 0x10000).1 = 33 ∧
    (relocate (flatten (run exCallMid)).1 0x10000).2.2 = 0 ∧
    ((relocate (flatten (run exCallMid)).1 0x10000).1.secs.map (·.bufSize)) = [12, 8, 1] := by decide
/-- repaired `JitRuntime::_add` (fixes/C10-4.patch): only an unused address-table entry → nothing to install -/
example : (jitAdd (run [.addAddress 0x1234]) 0x10000).2.isSome = true ∧
    (match (jitAdd (run [.addAddress 0x1234]) 0x10000).2 with | some (.error .noCodeGenerated) => true | _ => false) = true := by decide

/-- first use pads `.text` (virtual size 16 after flatten); after reinit the second use lays out like a fresh holder -/
example : ((flatten (run ex17)).1.secs.map (·.vsize)) = [16, 0, 0] ∧
    (run (ex17 ++ [Op.flatten, Op.reinit, .appendData 0 [0x90, 0x90], .newSection "b" 4 0, .appendData 1 [0xC3], .flatten])).secs.map
      (fun s => (s.offset, s.vsize)) = [(0, 4), (4, 0)] := by decide

/-- defect #17 (pinned second loop of `flatten`): the empty section `.a` receives the alignment gap as virtual size, so
    `code_size()` changes from 17 to 33 and the table stops being a fixpoint -/
theorem flattenOld_breaks_code_size :
    codeSizeOf (run ex17).secs = 17 ∧ codeSizeOf (flattenOld (run ex17)).1.secs = 33 ∧
    (flattenOld (run ex17)).1.secs.map (·.vsize) = [1, 15, 0] := by decide

/-- `.text` 1 byte, a virtual-only section of 2^64-10 bytes, then a 16-aligned section: the true size exceeds 2^64 -/
def exWrap : List Op :=
  [.appendData 0 [0x90], .newSection ".a" 1 0, .setVsize 1 18446744073709551606, .newSection ".b" 16 0, .appendData 2 [0xCC]]

/-- pinned `code_size`: `align_up` wraps to 0, no overflow is recorded and the reported size is 1 -/
theorem codeSizeOld_wraps : codeSizeOfOld (run exWrap).secs = 1 ∧ codeSizeOf (run exWrap).secs = sizeMax ∧
    (flatten (run exWrap)).2.toBool = false := by decide

end AsmjitVerif.Sections
