import AsmjitVerif.Spec.Sections
namespace AsmjitVerif.Sections
theorem placeholder_c10 : init.secs.length = 1 := rfl
end AsmjitVerif.Sections
