/-
C02, system-register moves (kEncodingBaseMrs / BaseMsr register form): for every system register id AsmJit accepts
(`SysReg::encode(op0, op1, CRn, CRm, op2)` = op0:op1:CRn:CRm:op2, 16 bits, op0<1> = 1) the word carries exactly these five
fields at the architectural positions (o0 = bit 19, op1 = 18:16, CRn = 15:12, CRm = 11:8, op2 = 7:5), and the instruction is
judged `full` over the database forms; ids outside the encodable range are refused.
-/
import AsmjitVerif.Props.C02Rel
namespace AsmjitVerif.C02
open AsmjitVerif.A64 AsmjitVerif.A64Asm AsmjitVerif.A64Spec AsmjitVerif.Gen.A64Tables

/-- the architectural fields of the word are the components of the id - all ids, both opcodes -/
theorem sysreg_arch_fields (opc id rt : BitVec 32)
    (hc : opc &&& 0x001FFFFF#32 = 0x00100000#32) (hid : id.ult 0x10000#32 = true) (h15 : id &&& 0x8000#32 = 0x8000#32)
    (hrt : rt.ult 32#32 = true) :
    ((opc ||| (id <<< 5) ||| (rt <<< 0)) >>> 19) &&& 3#32 = (id >>> 14) &&& 3#32 ∧      -- op0
    ((opc ||| (id <<< 5) ||| (rt <<< 0)) >>> 16) &&& 7#32 = (id >>> 11) &&& 7#32 ∧      -- op1
    ((opc ||| (id <<< 5) ||| (rt <<< 0)) >>> 12) &&& 15#32 = (id >>> 7) &&& 15#32 ∧     -- CRn
    ((opc ||| (id <<< 5) ||| (rt <<< 0)) >>> 8) &&& 15#32 = (id >>> 3) &&& 15#32 ∧      -- CRm
    ((opc ||| (id <<< 5) ||| (rt <<< 0)) >>> 5) &&& 7#32 = id &&& 7#32 ∧                -- op2
    ((opc ||| (id <<< 5) ||| (rt <<< 0)) >>> 0) &&& 31#32 = rt ∧
    (opc ||| (id <<< 5) ||| (rt <<< 0)) &&& 0xFFE00000#32 = opc &&& 0xFFE00000#32 := by
  bv_decide

theorem sysreg_fields (opc id rt mask value : BitVec 32)
    (hc : opc &&& 0x001FFFFF#32 = 0x00100000#32) (hm : mask &&& 0x000FFFFF#32 = 0#32) (hv : opc &&& mask = value)
    (hid : id.ult 0x10000#32 = true) (h15 : id &&& 0x8000#32 = 0x8000#32) (hrt : rt.ult 32#32 = true) :
    (opc ||| (id <<< 5) ||| (rt <<< 0)) &&& mask = value ∧
    ((opc ||| (id <<< 5) ||| (rt <<< 0)) >>> 0) &&& 31#32 = rt ∧
    ((opc ||| (id <<< 5) ||| (rt <<< 0)) >>> 5) &&& 0xFFFF#32 = id := by
  bv_decide

/-- what the MRS model accepts and emits - and nothing else -/
theorem mrs_accepts_iff (o0 : Reg) (imm : BitVec 64) (ws : List (BitVec 32)) :
    emitMrs o0 imm = .ok ws ↔
      (o0.isGp64 = true ∧ checkGpId o0 idZR = true ∧ imm.toNat ≤ 0xFFFF ∧ (imm.toNat >>> 15) % 2 = 1 ∧
       ws = [0xD5300000#32 ||| addImm imm.toNat 5 ||| addReg o0.id 0]) := by
  unfold emitMrs
  constructor
  · intro h
    repeat (split at h <;> try (simp [invalidInstruction, invalidPhysId, invalidImmediate] at h))
    simp [ok1] at h
    simp_all
    try omega
  · rintro ⟨h1, h2, h3, h4, h5⟩
    have : ¬ imm.toNat > 0xFFFF := by omega
    simp [h1, h2, this, h4, h5, ok1]

theorem msrReg_accepts_iff (imm : BitVec 64) (o1 : Reg) (ws : List (BitVec 32)) :
    emitMsrReg imm o1 = .ok ws ↔
      (o1.isGp64 = true ∧ checkGpId o1 idZR = true ∧ imm.toNat ≤ 0xFFFF ∧ (imm.toNat >>> 15) % 2 = 1 ∧
       ws = [0xD5100000#32 ||| addImm imm.toNat 5 ||| addReg o1.id 0]) := by
  unfold emitMsrReg
  constructor
  · intro h
    repeat (split at h <;> try (simp [invalidInstruction, invalidPhysId, invalidImmediate] at h))
    simp [ok1] at h
    simp_all
    try omega
  · rintro ⟨h1, h2, h3, h4, h5⟩
    have : ¬ imm.toNat > 0xFFFF := by omega
    simp [h1, h2, this, h4, h5, ok1]

/-- refusal: an id that is not a 16-bit id with op0<1> = 1 is never encoded -/
theorem mrs_refuses_bad_id (o0 : Reg) (imm : BitVec 64) (hbad : imm.toNat > 0xFFFF ∨ (imm.toNat >>> 15) % 2 = 0) :
    ∀ ws, emitMrs o0 imm ≠ .ok ws := by
  intro ws h
  have := (mrs_accepts_iff o0 imm ws).mp h
  omega

theorem msrReg_refuses_bad_id (imm : BitVec 64) (o1 : Reg) (hbad : imm.toNat > 0xFFFF ∨ (imm.toNat >>> 15) % 2 = 0) :
    ∀ ws, emitMsrReg imm o1 ≠ .ok ws := by
  intro ws h
  have := (msrReg_accepts_iff imm o1 ws).mp h
  omega

/-! ### end to end -/

def isSysregForm (f : Form) (regFirst : Bool) (n0 : String) (opc : BitVec 32) : Bool :=
  f.ops == (if regFirst then [.gp .x64 n0 false, .immU "sysreg" 1] else [.immU "sysreg" 1, .gp .x64 n0 false]) &&
  f.fields.filter (·.name == n0) == [⟨n0, [⟨0, 0, 5⟩]⟩] &&
  f.fields.filter (·.name == "sysreg") == [⟨"sysreg", [⟨5, 0, 16⟩]⟩] &&
  f.freeFields.isEmpty && decide (f.mask < 2 ^ 32) && decide (f.value < 2 ^ 32) &&
  (BitVec.ofNat 32 f.mask &&& 0x000FFFFF#32 == 0#32) && (opc &&& BitVec.ofNat 32 f.mask == BitVec.ofNat 32 f.value)

theorem rows_mrs_msr_have_forms :
    ((formsNamed "mrs").any fun f => isSysregForm f true "Rd" 0xD5300000#32) = true ∧
    ((formsNamed "msr").any fun f => isSysregForm f false "Rs" 0xD5100000#32) = true := by
  constructor <;> decide +kernel

theorem sysreg_word (opc : BitVec 32) (f : Form) (n0 : String) (o : Reg) (imm : BitVec 64) (pc : BitVec 64)
    (hc : opc &&& 0x001FFFFF#32 = 0x00100000#32)
    (hR : f.fields.filter (·.name == n0) = [⟨n0, [⟨0, 0, 5⟩]⟩]) (hS : f.fields.filter (·.name == "sysreg") = [⟨"sysreg", [⟨5, 0, 16⟩]⟩])
    (hmlt : f.mask < 2 ^ 32) (hvlt : f.value < 2 ^ 32) (hmk : BitVec.ofNat 32 f.mask &&& 0x000FFFFF#32 = 0#32)
    (hv : opc &&& BitVec.ofNat 32 f.mask = BitVec.ofNat 32 f.value)
    (h3 : imm.toNat ≤ 0xFFFF) (h4 : (imm.toNat >>> 15) % 2 = 1) :
    let w := opc ||| addImm imm.toNat 5 ||| addReg o.id 0
    w.toNat &&& f.mask = f.value ∧
    ({ fields := f.fields, w := w.toNat, pc := pc, name := f.name } : Ctx).get n0 = some (o.id % 32) ∧
    ({ fields := f.fields, w := w.toNat, pc := pc, name := f.name } : Ctx).get "sysreg" = some imm.toNat := by
  intro w
  have hidu : (BitVec.ofNat 32 imm.toNat).ult 0x10000#32 = true := by simp [BitVec.ult, BitVec.toNat_ofNat]; omega
  have hidn : (BitVec.ofNat 32 imm.toNat).toNat = imm.toNat := by simp [BitVec.toNat_ofNat]; omega
  have hb : ((BitVec.ofNat 32 imm.toNat) >>> 15) &&& 1#32 = 1#32 := by
    apply BitVec.eq_of_toNat_eq
    have := toNat_fieldN (BitVec.ofNat 32 imm.toNat) 15 1 (by decide)
    rw [hidn, show BitVec.ofNat 32 (2 ^ 1 - 1) = 1#32 from rfl] at this
    rw [← this]
    simpa using h4
  have h15 : BitVec.ofNat 32 imm.toNat &&& 0x8000#32 = 0x8000#32 := by
    generalize BitVec.ofNat 32 imm.toNat = I at hb ⊢
    bv_decide
  obtain ⟨k1, k2, k3⟩ := sysreg_fields opc (BitVec.ofNat 32 imm.toNat) (BitVec.ofNat 32 (o.id % 32)) (BitVec.ofNat 32 f.mask) (BitVec.ofNat 32 f.value)
    hc hmk hv hidu h15 (ofNat_mod32_ult _)
  have hw : w = opc ||| (BitVec.ofNat 32 imm.toNat <<< 5) ||| (BitVec.ofNat 32 (o.id % 32) <<< 0) := by simp [w, addImm, addReg]
  rw [hw]
  generalize (opc ||| (BitVec.ofNat 32 imm.toNat <<< 5) ||| (BitVec.ofNat 32 (o.id % 32) <<< 0)) = ww at *
  have t : ww.toNat &&& f.mask = f.value := by
    rw [toNat_and_mask ww f.mask hmlt, k1]; simp [BitVec.toNat_ofNat, Nat.mod_eq_of_lt hvlt]
  have f0 : (ww.toNat >>> 0) % 2 ^ 5 = o.id % 32 := by rw [toNat_field, k2, ofNat_mod32_toNat]
  have f5 : (ww.toNat >>> 5) % 2 ^ 16 = imm.toNat := by
    rw [toNat_fieldN ww 5 16 (by decide), show (BitVec.ofNat 32 (2 ^ 16 - 1)) = 0xFFFF#32 from rfl, k3, hidn]
  have g0 := ctx_get_single f.fields ww.toNat pc f.name n0 0 hR
  have g5 := ctx_get_one f.fields ww.toNat pc f.name "sysreg" 5 16 hS
  rw [f0] at g0; rw [f5] at g5
  exact ⟨t, g0, g5⟩

/-- **End-to-end, mrs Xt, <sysreg>** - every system register id -/
theorem mrs_end_to_end (o0 : Reg) (imm : BitVec 64) (p : Nat) (wf0 : GpWellFormed o0) (ws : List (BitVec 32)) (pc : BitVec 64)
    (h : emitMrs o0 imm = .ok ws) : judge (formsNamed "mrs") "mrs" [.reg o0, .imm imm p] pc (.ok ws) = .full := by
  obtain ⟨h1, h2, h3, h4, h5⟩ := (mrs_accepts_iff o0 imm ws).mp h
  have hany := rows_mrs_msr_have_forms.1
  rw [List.any_eq_true] at hany
  obtain ⟨f, hfmem, hform⟩ := hany
  simp only [isSysregForm, if_true, Bool.and_eq_true, beq_iff_eq, decide_eq_true_eq] at hform
  obtain ⟨⟨⟨⟨⟨⟨⟨hops, hR⟩, hS⟩, hfree⟩, hmlt⟩, hvlt⟩, hmk⟩, hv⟩ := hform
  obtain ⟨t, g0, g5⟩ := sysreg_word 0xD5300000#32 f "Rd" o0 imm pc (by decide) hR hS hmlt hvlt hmk hv h3 h4
  have hnum := checked_id_designates o0 idZR (Or.inr rfl) h2
  rw [show (idZR == idSP) = false by decide] at hnum
  have g : gpOk .x64 false o0 := ⟨by simpa [gpWidthOk, Reg.isGp64] using h1, wf0.1, wf0.2, hnum⟩
  have m0 := matchOp_gp _ .x64 "Rd" false o0 [.imm imm p] g0 g
  have m1 := matchOp_immU1 { fields := f.fields, w := _, pc := pc, name := f.name } "sysreg" imm p [] g5
  have hfull : f.isPartial = false := by simp [Form.isPartial, hops, OpSpec.isPartial, hfree]
  subst h5
  apply judge_full_of_any_name _ _ _ _ _ (by decide)
  rw [List.any_eq_true]
  refine ⟨f, hfmem, ?_⟩
  simp only [hfull, Bool.not_false, Bool.true_and, describes, Form.matchesTemplate, t, hops, matchOps, m0, m1]
  simp

/-- **End-to-end, msr <sysreg>, Xt** - every system register id -/
theorem msrReg_end_to_end (imm : BitVec 64) (p : Nat) (o1 : Reg) (wf1 : GpWellFormed o1) (ws : List (BitVec 32)) (pc : BitVec 64)
    (h : emitMsrReg imm o1 = .ok ws) : judge (formsNamed "msr") "msr" [.imm imm p, .reg o1] pc (.ok ws) = .full := by
  obtain ⟨h1, h2, h3, h4, h5⟩ := (msrReg_accepts_iff imm o1 ws).mp h
  have hany := rows_mrs_msr_have_forms.2
  rw [List.any_eq_true] at hany
  obtain ⟨f, hfmem, hform⟩ := hany
  simp only [isSysregForm, Bool.false_eq_true, if_false, Bool.and_eq_true, beq_iff_eq, decide_eq_true_eq] at hform
  obtain ⟨⟨⟨⟨⟨⟨⟨hops, hR⟩, hS⟩, hfree⟩, hmlt⟩, hvlt⟩, hmk⟩, hv⟩ := hform
  obtain ⟨t, g0, g5⟩ := sysreg_word 0xD5100000#32 f "Rs" o1 imm pc (by decide) hR hS hmlt hvlt hmk hv h3 h4
  have hnum := checked_id_designates o1 idZR (Or.inr rfl) h2
  rw [show (idZR == idSP) = false by decide] at hnum
  have g : gpOk .x64 false o1 := ⟨by simpa [gpWidthOk, Reg.isGp64] using h1, wf1.1, wf1.2, hnum⟩
  have m0 := matchOp_immU1 { fields := f.fields, w := _, pc := pc, name := f.name } "sysreg" imm p [.reg o1] g5
  have m1 := matchOp_gp _ .x64 "Rs" false o1 [] g0 g
  have hfull : f.isPartial = false := by simp [Form.isPartial, hops, OpSpec.isPartial, hfree]
  subst h5
  apply judge_full_of_any_name _ _ _ _ _ (by decide)
  rw [List.any_eq_true]
  refine ⟨f, hfmem, ?_⟩
  simp only [hfull, Bool.not_false, Bool.true_and, describes, Form.matchesTemplate, t, hops, matchOps, m0, m1]
  simp

/-! ### SYS, MSR (immediate) and AT / DC / IC / TLBI: where the operation fields go - all values -/

theorem sys_arch_fields (op1 crn crm op2 rt : BitVec 32)
    (h1 : op1.ult 8#32 = true) (h2 : crn.ult 16#32 = true) (h3 : crm.ult 16#32 = true) (h4 : op2.ult 8#32 = true) (h5 : rt.ult 32#32 = true) :
    ((0xD5080000#32 ||| (op1 <<< 16) ||| (crn <<< 12) ||| (crm <<< 8) ||| (op2 <<< 5) ||| (rt <<< 0)) >>> 16) &&& 7#32 = op1 ∧
    ((0xD5080000#32 ||| (op1 <<< 16) ||| (crn <<< 12) ||| (crm <<< 8) ||| (op2 <<< 5) ||| (rt <<< 0)) >>> 12) &&& 15#32 = crn ∧
    ((0xD5080000#32 ||| (op1 <<< 16) ||| (crn <<< 12) ||| (crm <<< 8) ||| (op2 <<< 5) ||| (rt <<< 0)) >>> 8) &&& 15#32 = crm ∧
    ((0xD5080000#32 ||| (op1 <<< 16) ||| (crn <<< 12) ||| (crm <<< 8) ||| (op2 <<< 5) ||| (rt <<< 0)) >>> 5) &&& 7#32 = op2 ∧
    ((0xD5080000#32 ||| (op1 <<< 16) ||| (crn <<< 12) ||| (crm <<< 8) ||| (op2 <<< 5) ||| (rt <<< 0)) >>> 0) &&& 31#32 = rt ∧
    (0xD5080000#32 ||| (op1 <<< 16) ||| (crn <<< 12) ||| (crm <<< 8) ||| (op2 <<< 5) ||| (rt <<< 0)) &&& 0xFFF80000#32 = 0xD5080000#32 := by
  bv_decide

/-- SYS: accepted exactly for op1, op2 < 8, CRn, CRm < 16 and Xt a valid X register (or absent = XZR), and then the word is the
fields at their places -/
theorem sys_accepts_facts (op1 crn crm op2 : BitVec 64) (o4 : Operand) (ws : List (BitVec 32)) (h : emitSys op1 crn crm op2 o4 = .ok ws) :
    op1.toNat ≤ 7 ∧ crn.toNat ≤ 15 ∧ crm.toNat ≤ 15 ∧ op2.toNat ≤ 7 ∧
    ((∃ r, o4 = .reg r ∧ r.isGp64 = true ∧ checkGpId r idZR = true ∧
        ws = [0xD5080000#32 ||| addImm op1.toNat 16 ||| addImm crn.toNat 12 ||| addImm crm.toNat 8 ||| addImm op2.toNat 5 ||| addImm (r.id % 32) 0]) ∨
     (o4 = .none ∧ ws = [0xD5080000#32 ||| addImm op1.toNat 16 ||| addImm crn.toNat 12 ||| addImm crm.toNat 8 ||| addImm op2.toNat 5 ||| addImm 31 0])) := by
  unfold emitSys at h
  split at h
  · simp [invalidImmediate] at h
  · rename_i hr
    simp only [Bool.or_eq_true, decide_eq_true_eq, not_or, Nat.not_lt] at hr
    refine ⟨by omega, by omega, by omega, by omega, ?_⟩
    dsimp only at h
    split at h
    · rename_i r
      split at h
      · simp [invalidInstruction] at h
      · split at h
        · simp [invalidPhysId] at h
        · simp only [ok1, Result.ok.injEq] at h
          left
          exact ⟨r, rfl, by simp_all, by simp_all, h.symm⟩
    · simp only [ok1, Result.ok.injEq] at h
      right; exact ⟨rfl, h.symm⟩
    · simp [invalidInstruction] at h

theorem sys_refuses_out_of_range (op1 crn crm op2 : BitVec 64) (o4 : Operand)
    (hbad : op1.toNat > 7 ∨ crn.toNat > 15 ∨ crm.toNat > 15 ∨ op2.toNat > 7) : ∀ ws, emitSys op1 crn crm op2 o4 ≠ .ok ws := by
  intro ws h
  have := sys_accepts_facts op1 crn crm op2 o4 ws h
  omega

/-- MSR (immediate): the PSTATE field number op1:op2 and the 4-bit immediate -/
theorem msrImm_arch_fields (op crm : BitVec 32) (h1 : op.ult 32#32 = true) (h2 : crm.ult 16#32 = true) :
    ((0xD500401F#32 ||| ((op >>> 3) <<< 16) ||| (crm <<< 8) ||| ((op &&& 7#32) <<< 5)) >>> 16) &&& 7#32 = op >>> 3 ∧
    ((0xD500401F#32 ||| ((op >>> 3) <<< 16) ||| (crm <<< 8) ||| ((op &&& 7#32) <<< 5)) >>> 8) &&& 15#32 = crm ∧
    ((0xD500401F#32 ||| ((op >>> 3) <<< 16) ||| (crm <<< 8) ||| ((op &&& 7#32) <<< 5)) >>> 5) &&& 7#32 = op &&& 7#32 ∧
    (0xD500401F#32 ||| ((op >>> 3) <<< 16) ||| (crm <<< 8) ||| ((op &&& 7#32) <<< 5)) &&& 0xFFF8F01F#32 = 0xD500401F#32 := by
  bv_decide

theorem msrImm_accepts_iff (op crm : BitVec 64) (ws : List (BitVec 32)) :
    emitMsrImm op crm = .ok ws ↔
      (op.toNat ≤ 0x1F ∧ crm.toNat ≤ 0xF ∧
       ws = [0xD500401F#32 ||| addImm (op.toNat >>> 3) 16 ||| addImm crm.toNat 8 ||| addImm (op.toNat % 8) 5]) := by
  unfold emitMsrImm
  constructor
  · intro h
    repeat (split at h <;> try (simp [invalidImmediate] at h))
    simp [ok1] at h
    refine ⟨by omega, by omega, h.symm⟩
  · rintro ⟨h1, h2, h3⟩
    have a : ¬ op.toNat > 0x1F := by omega
    have b : ¬ crm.toNat > 0xF := by omega
    simp [a, b, h3, ok1]

/-- AT / DC / IC / TLBI: the 15-bit operation number op1:CRn:CRm:op2 is placed at bits 19:5 unchanged, and only numbers of the
instruction's own group (the row's verify mask / data) are accepted -/
theorem atDcIcTlbi_accepts_facts (d : BaseAtDcIcTlbiRow) (imm : BitVec 64) (o1 : Operand) (ws : List (BitVec 32))
    (h : emitAtDcIcTlbi d imm o1 = .ok ws) :
    imm.toNat ≤ 0x7FFF ∧ imm.toNat &&& d.imm_verify_mask = d.imm_verify_data ∧
    ((∃ r, o1 = .reg r ∧ r.isGp64 = true ∧ checkGpId r idZR = true ∧ ws = [0xD5080000#32 ||| addImm imm.toNat 5 ||| addReg r.id 0]) ∨
     (o1 = .none ∧ d.mandatory_reg = 0 ∧ ws = [0xD5080000#32 ||| addImm imm.toNat 5 ||| addReg 31 0])) := by
  unfold emitAtDcIcTlbi at h
  cases o1 with
  | none =>
    simp only [] at h
    repeat (split at h <;> try (simp [invalidInstruction, invalidImmediate] at h))
    simp only [ok1, Result.ok.injEq] at h
    simp_all
    try omega
  | reg r =>
    simp only [] at h
    repeat (split at h <;> try (simp [invalidInstruction, invalidImmediate, invalidPhysId] at h))
    simp only [ok1, Result.ok.injEq] at h
    simp_all
    try omega
  | imm _ _ => simp [notModelled] at h
  | fimm _ => simp [notModelled] at h
  | mem _ => simp [notModelled] at h
  | abs _ => simp [notModelled] at h
  | label => simp [notModelled] at h
  | memLabel _ => simp [notModelled] at h

theorem sysop_field (imm rt : BitVec 32) (h1 : imm.ult 0x8000#32 = true) (h2 : rt.ult 32#32 = true) :
    ((0xD5080000#32 ||| (imm <<< 5) ||| (rt <<< 0)) >>> 5) &&& 0x3FFF#32 = imm &&& 0x3FFF#32 ∧      -- op1:CRn:CRm:op2
    ((0xD5080000#32 ||| (imm <<< 5) ||| (rt <<< 0)) >>> 0) &&& 31#32 = rt ∧
    (0xD5080000#32 ||| (imm <<< 5) ||| (rt <<< 0)) &&& 0xFFF00000#32 = 0xD5000000#32 := by
  bv_decide

end AsmjitVerif.C02
