/-
C02, system-register moves (kEncodingBaseMrs / BaseMsr register form): for every system register id AsmJit accepts
(`SysReg::encode(op0, op1, CRn, CRm, op2)` = op0:op1:CRn:CRm:op2, 16 bits, op0<1> = 1) the word carries exactly these five
fields at the architectural positions (o0 = bit 19, op1 = 18:16, CRn = 15:12, CRm = 11:8, op2 = 7:5), and the instruction is
judged `full` over the database forms; ids outside the encodable range are refused.
-/
import AsmjitVerif.Props.C02Rel
namespace AsmjitVerif.C02
open AsmjitVerif.A64 AsmjitVerif.A64Asm AsmjitVerif.A64Spec AsmjitVerif.Gen.A64Tables

/-- the architectural fields of the word are the components of the id - all ids, both opcodes -/
theorem sysreg_arch_fields (opc id rt : BitVec 32)
    (hc : opc &&& 0x001FFFFF#32 = 0x00100000#32) (hid : id.ult 0x10000#32 = true) (h15 : id &&& 0x8000#32 = 0x8000#32)
    (hrt : rt.ult 32#32 = true) :
    ((opc ||| (id <<< 5) ||| (rt <<< 0)) >>> 19) &&& 3#32 = (id >>> 14) &&& 3#32 ∧      -- op0
    ((opc ||| (id <<< 5) ||| (rt <<< 0)) >>> 16) &&& 7#32 = (id >>> 11) &&& 7#32 ∧      -- op1
    ((opc ||| (id <<< 5) ||| (rt <<< 0)) >>> 12) &&& 15#32 = (id >>> 7) &&& 15#32 ∧     -- CRn
    ((opc ||| (id <<< 5) ||| (rt <<< 0)) >>> 8) &&& 15#32 = (id >>> 3) &&& 15#32 ∧      -- CRm
    ((opc ||| (id <<< 5) ||| (rt <<< 0)) >>> 5) &&& 7#32 = id &&& 7#32 ∧                -- op2
    ((opc ||| (id <<< 5) ||| (rt <<< 0)) >>> 0) &&& 31#32 = rt ∧
    (opc ||| (id <<< 5) ||| (rt <<< 0)) &&& 0xFFE00000#32 = opc &&& 0xFFE00000#32 := by
  bv_decide

theorem sysreg_fields (opc id rt mask value : BitVec 32)
    (hc : opc &&& 0x001FFFFF#32 = 0x00100000#32) (hm : mask &&& 0x000FFFFF#32 = 0#32) (hv : opc &&& mask = value)
    (hid : id.ult 0x10000#32 = true) (h15 : id &&& 0x8000#32 = 0x8000#32) (hrt : rt.ult 32#32 = true) :
    (opc ||| (id <<< 5) ||| (rt <<< 0)) &&& mask = value ∧
    ((opc ||| (id <<< 5) ||| (rt <<< 0)) >>> 0) &&& 31#32 = rt ∧
    ((opc ||| (id <<< 5) ||| (rt <<< 0)) >>> 5) &&& 0xFFFF#32 = id := by
  bv_decide

/-- what the MRS model accepts and emits - and nothing else -/
theorem mrs_accepts_iff (o0 : Reg) (imm : BitVec 64) (ws : List (BitVec 32)) :
    emitMrs o0 imm = .ok ws ↔
      (o0.isGp64 = true ∧ checkGpId o0 idZR = true ∧ imm.toNat ≤ 0xFFFF ∧ (imm.toNat >>> 15) % 2 = 1 ∧
       ws = [0xD5300000#32 ||| addImm imm.toNat 5 ||| addReg o0.id 0]) := by
  unfold emitMrs
  constructor
  · intro h
    repeat (split at h <;> try (simp [invalidInstruction, invalidPhysId, invalidImmediate] at h))
    simp [ok1] at h
    simp_all
    omega
  · rintro ⟨h1, h2, h3, h4, h5⟩
    have : ¬ imm.toNat > 0xFFFF := by omega
    simp [h1, h2, this, h4, h5, ok1]

theorem msrReg_accepts_iff (imm : BitVec 64) (o1 : Reg) (ws : List (BitVec 32)) :
    emitMsrReg imm o1 = .ok ws ↔
      (o1.isGp64 = true ∧ checkGpId o1 idZR = true ∧ imm.toNat ≤ 0xFFFF ∧ (imm.toNat >>> 15) % 2 = 1 ∧
       ws = [0xD5100000#32 ||| addImm imm.toNat 5 ||| addReg o1.id 0]) := by
  unfold emitMsrReg
  constructor
  · intro h
    repeat (split at h <;> try (simp [invalidInstruction, invalidPhysId, invalidImmediate] at h))
    simp [ok1] at h
    simp_all
    omega
  · rintro ⟨h1, h2, h3, h4, h5⟩
    have : ¬ imm.toNat > 0xFFFF := by omega
    simp [h1, h2, this, h4, h5, ok1]

/-- refusal: an id that is not a 16-bit id with op0<1> = 1 is never encoded -/
theorem mrs_refuses_bad_id (o0 : Reg) (imm : BitVec 64) (hbad : imm.toNat > 0xFFFF ∨ (imm.toNat >>> 15) % 2 = 0) :
    ∀ ws, emitMrs o0 imm ≠ .ok ws := by
  intro ws h
  have := (mrs_accepts_iff o0 imm ws).mp h
  omega

theorem msrReg_refuses_bad_id (imm : BitVec 64) (o1 : Reg) (hbad : imm.toNat > 0xFFFF ∨ (imm.toNat >>> 15) % 2 = 0) :
    ∀ ws, emitMsrReg imm o1 ≠ .ok ws := by
  intro ws h
  have := (msrReg_accepts_iff imm o1 ws).mp h
  omega

end AsmjitVerif.C02
