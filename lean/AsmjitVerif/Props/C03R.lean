/-
C03, the monitor's bookkeeping agrees with the model's log. The independent monitor (Spec/RefSemantics.`ghostStep`) never sees
fixups: it records a reference from what the assembler *answered* (error code, size of the current section after the call)
and from the op. This file proves that, run on the model's own answers, its `Ref` records name the same field as the model's
`GRef` log entries: same section, same field position (x86: the field ends where the instruction - minus trailing immediate -
ends; AArch64: the field is the instruction word at `start`), same label, and the addends are related as `bridge_x86` /
`bridge_a64` (Props/C03B) require. Together with C03B this carries `resolved_ref_correct` to the verdict of `judgeRel` on the
monitor's own records.
-/
import AsmjitVerif.Props.C03L
namespace AsmjitVerif.CodeHolder
open AsmjitVerif.Offset
open AsmjitVerif.RefSpec

/-- buffer length of section `i` (0 when there is no such section - what the monitor assumes for a section it has not seen) -/
def secLen (secs : List Section) (i : Nat) : Nat := match secs[i]? with | some sec => sec.buf.length | none => 0

theorem curOff_eq_secLen (s : State) : s.curOff = secLen s.secs s.cur := rfl

/-- all section lengths agree -/
def LensEq (a b : List Section) : Prop := ∀ i, secLen b i = secLen a i

theorem LensEq.refl (a : List Section) : LensEq a a := fun _ => rfl
theorem LensEq.trans {a b c : List Section} (h1 : LensEq a b) (h2 : LensEq b c) : LensEq a c := fun i => (h2 i).trans (h1 i)

theorem lensEq_modifySec (secs : List Section) (i : Nat) (f : Section → Section) (hf : ∀ s, (f s).buf.length = s.buf.length) :
    LensEq secs (modifySec secs i f) := by
  intro j
  unfold secLen
  by_cases hij : i = j
  · subst hij
    cases hs : secs[i]? with
    | none => unfold modifySec; rw [hs]; dsimp only; rw [hs]
    | some sec => rw [modifySec_get_same _ _ _ _ hs]; exact hf sec
  · rw [modifySec_get_ne _ _ _ _ hij]

theorem writeOffset_len (buf buf' : Bytes) (pos : Nat) (off : BitVec 64) (f : OffsetFormat)
    (h : writeOffset buf pos off f = some buf') : buf'.length = buf.length := by
  unfold writeOffset at h
  dsimp only at h
  split at h
  · split at h
    · exact storeLE_length _ _ _ _ _ h
    · cases h
  · split at h
    · split at h
      · exact storeLE_length _ _ _ _ _ h
      · cases h
    · cases h

theorem lensEq_setBuf_write (secs : List Section) (i pos : Nat) (off : BitVec 64) (f : OffsetFormat) (buf' : Bytes)
    (h : (secs[i]?).bind (fun sec => writeOffset sec.buf pos off f) = some buf') : LensEq secs (setBuf secs i buf') := by
  cases hs : secs[i]? with
  | none => rw [hs] at h; cases h
  | some sec =>
    rw [hs] at h
    simp only [Option.bind_some] at h
    intro j
    unfold secLen setBuf
    by_cases hij : i = j
    · subst hij
      rw [modifySec_get_same _ _ _ _ hs, hs]
      exact writeOffset_len _ _ _ _ _ h
    · rw [modifySec_get_ne _ _ _ _ hij]

theorem bindStep_lens (l toSec : Nat) (toOff : BitVec 64) (acc : Acc) (f : Fixup) : LensEq acc.secs (bindStep l toSec toOff acc f).secs := by
  unfold bindStep
  split
  · exact LensEq.refl _
  · split
    · exact LensEq.refl _
    · dsimp only
      split
      · rename_i buf' hb; exact lensEq_setBuf_write _ _ _ _ _ _ hb
      · exact LensEq.refl _

theorem bindLoop_lens (l toSec : Nat) (toOff : BitVec 64) : ∀ (fx : List Fixup) (acc : Acc),
    LensEq acc.secs (fx.foldl (bindStep l toSec toOff) acc).secs := by
  intro fx
  induction fx with
  | nil => intro acc; exact LensEq.refl _
  | cons f rest ih => intro acc; exact (bindStep_lens l toSec toOff acc f).trans (ih _)

theorem bindLabel_lens (s : State) (l sec : Nat) (off : BitVec 64) : LensEq s.secs (bindLabel s l sec off).1.secs := by
  unfold bindLabel
  repeat' split
  all_goals first
    | exact LensEq.refl _
    | exact bindLoop_lens _ _ _ _ _

theorem resolveStep_lens (labels : List LabelEntry) (acc : Acc) (f : Fixup) : LensEq acc.secs (resolveStep labels acc f).secs := by
  unfold resolveStep
  split
  · dsimp only
    split
    · exact LensEq.refl _
    · split
      · rename_i buf' hb; exact lensEq_setBuf_write _ _ _ _ _ _ hb
      · exact LensEq.refl _
  · exact LensEq.refl _

theorem resolve_lens (s : State) : LensEq s.secs (resolve s).1.secs := by
  unfold resolve
  split
  · exact LensEq.refl _
  · dsimp only
    have : ∀ (fx : List Fixup) (acc : Acc), LensEq acc.secs (fx.foldl (resolveStep s.labels) acc).secs := by
      intro fx
      induction fx with
      | nil => intro acc; exact LensEq.refl _
      | cons f rest ih => intro acc; exact (resolveStep_lens _ acc f).trans (ih _)
    exact this s.fixups { secs := s.secs, relocs := s.relocs, kept := [], resolved := 0, err := .ok }

theorem lensEq_append_empty (secs : List Section) (sec : Section) (h : sec.buf = []) : LensEq secs (secs ++ [sec]) := by
  intro i
  unfold secLen
  by_cases hi : i < secs.length
  · rw [List.getElem?_append_left hi]
  · rw [List.getElem?_eq_none (Nat.le_of_not_lt hi)]
    by_cases he : i = secs.length
    · subst he; simp [h]
    · rw [List.getElem?_eq_none (by simp; omega)]

theorem flattenAssign_lens : ∀ (ord : List Nat) (secs : List Section) (off : BitVec 64) (prev : Option Nat),
    LensEq secs (flattenAssign secs ord off prev) := by
  intro ord
  induction ord with
  | nil => intro secs off prev; exact LensEq.refl _
  | cons i rest ih =>
    intro secs off prev
    unfold flattenAssign
    split
    · exact ih _ _ _
    · split
      · refine LensEq.trans (b := modifySec secs i _) ?_ (ih _ _ _)
        exact lensEq_modifySec _ _ _ (fun _ => rfl)
      · dsimp only
        refine LensEq.trans ?_ (ih _ _ _)
        refine LensEq.trans ?_ (lensEq_modifySec _ _ _ (fun _ => rfl))
        split
        · exact lensEq_modifySec _ _ _ (fun _ => rfl)
        · exact LensEq.refl _

theorem addAddress_lens (s : State) (a : BitVec 64) : LensEq s.secs (addAddress s a).secs ∧ (addAddress s a).cur = s.cur ∧
    (addAddress s a).ghost = s.ghost := by
  unfold addAddress
  split
  · exact ⟨LensEq.refl _, rfl, rfl⟩
  · cases s.addrTabSec with
    | some i => exact ⟨lensEq_modifySec _ _ _ (fun _ => rfl), rfl, rfl⟩
    | none => exact ⟨(lensEq_append_empty _ _ rfl).trans (lensEq_modifySec _ _ _ (fun _ => rfl)), rfl, rfl⟩

/-- effect of (part of) one call on the cursor bookkeeping and the log: the current section stays, it grows by `n` bytes, no
other section changes its length, `newg` is appended to the log -/
structure Eff (s s' : State) (newg : List GRef) (n : Nat) : Prop where
  cur   : s'.cur = s.cur
  valid : s.cur < s'.secs.length
  lens  : ∀ i, i ≠ s.cur → secLen s'.secs i = secLen s.secs i
  grow  : secLen s'.secs s.cur = secLen s.secs s.cur + n
  ghost : s'.ghost = s.ghost ++ newg

theorem eff_refl (s : State) (hc : s.cur < s.secs.length) : Eff s s [] 0 :=
  ⟨rfl, hc, fun _ _ => rfl, rfl, by simp⟩

theorem eff_of_lens {s s' : State} (hc : s.cur < s.secs.length) (hcur : s'.cur = s.cur) (hl : LensEq s.secs s'.secs)
    (hlen : s.secs.length ≤ s'.secs.length) (hg : s'.ghost = s.ghost) : Eff s s' [] 0 :=
  ⟨hcur, Nat.lt_of_lt_of_le hc hlen, fun i _ => hl i, hl _, by simp [hg]⟩

theorem eff_emit {s x : State} {g : List GRef} {n : Nat} (h : Eff s x g n) (bs : Bytes) : Eff s (x.emit bs) g (n + bs.length) := by
  obtain ⟨sec, hsec⟩ : ∃ sec, x.secs[s.cur]? = some sec := ⟨x.secs[s.cur]'h.valid, by simp [h.valid]⟩
  have hget : (x.emit bs).secs[s.cur]? = some { sec with buf := sec.buf ++ bs } := by
    unfold State.emit; rw [h.cur]; exact modifySec_get_same _ _ _ _ hsec
  refine ⟨h.cur, ?_, ?_, ?_, h.ghost⟩
  · exact getElem?_lt hget
  · intro i hi
    rw [← h.lens i hi]
    unfold secLen State.emit
    rw [h.cur, modifySec_get_ne _ _ _ _ (Ne.symm hi)]
  · have hx : secLen x.secs s.cur = sec.buf.length := by unfold secLen; rw [hsec]
    have hy : secLen (x.emit bs).secs s.cur = sec.buf.length + bs.length := by
      unfold secLen; rw [hget]; simp only [List.length_append]
    rw [hy, ← hx, h.grow]; omega

theorem eff_secs_same {s x y : State} {g : List GRef} {n : Nat} (h : Eff s x g n) (hs : y.secs = x.secs) (hc : y.cur = x.cur)
    (hg : y.ghost = x.ghost) : Eff s y g n :=
  ⟨hc.trans h.cur, hs ▸ h.valid, fun i hi => by rw [hs]; exact h.lens i hi, by rw [hs]; exact h.grow, hg.trans h.ghost⟩

theorem newFixup_ghost_some (x : State) (l : Nat) (f : Fixup) (rid : Nat) (h : f.lr = some rid) : (newFixup x l f).ghost = x.ghost := by
  unfold newFixup logRef; rw [h]; split <;> rfl

theorem newFixup_ghost_none (x : State) (l : Nat) (f : Fixup) (le : LabelEntry) (hl : x.labels[l]? = some le) (h : f.lr = none) :
    (newFixup x l f).ghost = x.ghost ++ [f.toG l] := by
  unfold newFixup logRef; rw [hl, h]; cases le <;> rfl

theorem eff_newReloc {s x : State} {g : List GRef} {n : Nat} (h : Eff s x g n) (r : Reloc) : Eff s (newReloc x r).1 g n :=
  eff_secs_same h rfl rfl rfl

theorem eff_newFixup_some {s x : State} {g : List GRef} {n : Nat} (h : Eff s x g n) (l : Nat) (f : Fixup) (rid : Nat)
    (hlr : f.lr = some rid) : Eff s (newFixup x l f) g n :=
  eff_secs_same h (newFixup_secs x l f).1 (newFixup_secs x l f).2 (newFixup_ghost_some x l f rid hlr)

theorem eff_newFixup_none {s x : State} {n : Nat} (h : Eff s x [] n) (l : Nat) (f : Fixup) (le : LabelEntry)
    (hl : x.labels[l]? = some le) (hlr : f.lr = none) : Eff s (newFixup x l f) [f.toG l] n := by
  have h0 := eff_secs_same (y := newFixup x l f) (g := []) h (newFixup_secs x l f).1 (newFixup_secs x l f).2
  refine ⟨(newFixup_secs x l f).2.trans h.cur, (newFixup_secs x l f).1 ▸ h.valid, ?_, ?_, ?_⟩
  · intro i hi; rw [(newFixup_secs x l f).1]; exact h.lens i hi
  · rw [(newFixup_secs x l f).1]; exact h.grow
  · rw [newFixup_ghost_none x l f le hl hlr, h.ghost]; simp

theorem eff_addAddress {s x : State} {g : List GRef} {n : Nat} (h : Eff s x g n) (a : BitVec 64) : Eff s (addAddress x a) g n := by
  obtain ⟨hl, hc, hg⟩ := addAddress_lens x a
  refine ⟨hc.trans h.cur, ?_, fun i hi => (hl i).trans (h.lens i hi), (hl _).trans h.grow, hg.trans h.ghost⟩
  have : secLen (addAddress x a).secs s.cur = secLen x.secs s.cur := hl _
  by_cases hv : s.cur < (addAddress x a).secs.length
  · exact hv
  · exfalso
    -- the table section is only ever appended: the section list never shrinks
    have hlen : x.secs.length ≤ (addAddress x a).secs.length := by
      unfold addAddress
      split
      · exact Nat.le_refl _
      · cases x.addrTabSec <;> simp [modifySec_length]
    exact hv (Nat.lt_of_lt_of_le h.valid hlen)

/-- `Eff` with the growth left open -/
def Quiet (s s' : State) : Prop := ∃ n, Eff s s' [] n

theorem quiet_refl (s : State) (hc : s.cur < s.secs.length) : Quiet s s := ⟨0, eff_refl s hc⟩
theorem quiet_emit {s x : State} (h : Quiet s x) (bs : Bytes) : Quiet s (x.emit bs) := by
  obtain ⟨n, h⟩ := h; exact ⟨_, eff_emit h bs⟩
theorem quiet_newReloc {s x : State} (h : Quiet s x) (r : Reloc) : Quiet s (newReloc x r).1 := by
  obtain ⟨n, h⟩ := h; exact ⟨_, eff_newReloc h r⟩
theorem quiet_addAddress {s x : State} (h : Quiet s x) (a : BitVec 64) : Quiet s (addAddress x a) := by
  obtain ⟨n, h⟩ := h; exact ⟨_, eff_addAddress h a⟩
theorem quiet_newFixup_some {s x : State} (h : Quiet s x) (l : Nat) (f : Fixup) (rid : Nat) (hlr : f.lr = some rid) :
    Quiet s (newFixup x l f) := by
  obtain ⟨n, h⟩ := h; exact ⟨_, eff_newFixup_some h l f rid hlr⟩
theorem quiet_same {s x y : State} (h : Quiet s x) (hs : y.secs = x.secs) (hc : y.cur = x.cur) (hg : y.ghost = x.ghost) : Quiet s y := by
  obtain ⟨n, h⟩ := h; exact ⟨_, eff_secs_same h hs hc hg⟩

/-- closes `Quiet s LEAF` for a leaf state made of emit / newReloc / addAddress / reloc-linked newFixup -/
syntax "quiet_build" term : tactic
macro_rules
  | `(tactic| quiet_build $hc) => `(tactic|
      ((try dsimp only) <;> repeat (first
        | refine quiet_emit ?_ _
        | refine quiet_newReloc ?_ _
        | refine quiet_addAddress ?_ _
        | refine quiet_newFixup_some ?_ _ _ _ rfl
        | exact quiet_refl _ $hc
        | exact quiet_same (quiet_refl _ $hc) rfl rfl rfl)))

/-- where the logged reference of a call sits, relative to what the call answers (`s'.curOff` = size after the call) -/
def RefShape (s s' : State) (op : Op) (g : GRef) : Prop :=
  match op with
  | .jmp _ _ l => g.sec = s.cur ∧ g.label = l ∧
      ((g.fmt = fmtS 1 ∧ g.rel = BitVec.ofInt 64 (-1)) ∨ (g.fmt = fmtS 4 ∧ g.rel = BitVec.ofInt 64 (-4))) ∧
      g.offset + g.fmt.valueSize = s'.curOff ∧ LeadOK s' g s.curOff
  | .mem k l d => g.sec = s.cur ∧ g.label = l ∧ g.fmt = fmtS 4 ∧
      g.rel = d.signExtend 64 - BitVec.ofNat 64 (4 + (k.shape s.arch).imm.length) ∧
      g.offset + 4 + (k.shape s.arch).imm.length = s'.curOff ∧ s.arch.is32 = false
  | .a64 k l a => g.sec = s.cur ∧ g.label = l ∧ g.fmt = k.kind.fmt ∧ g.rel = a ∧ g.offset = s.curOff
  | _ => False

def StepEff (s : State) (op : Op) : Prop :=
  Quiet s (step s op).1 ∨ ∃ g n, Eff s (step s op).1 [g] n ∧ (step s op).2 = .ok ∧ RefShape s (step s op).1 op g

theorem eff_curOff {s s' : State} {g : List GRef} {n : Nat} (h : Eff s s' g n) : s'.curOff = s.curOff + n := by
  rw [curOff_eq_secLen, curOff_eq_secLen, h.cur]; exact h.grow

theorem x86MemAbsM_quiet (s : State) (sh : AShape) (a : AddrT) (t : BitVec 64) (hc : s.cur < s.secs.length) :
    Quiet s (x86MemAbsM s sh a t).1 := by
  unfold x86MemAbsM
  dsimp only
  repeat' split
  all_goals quiet_build hc

theorem quiet_of_lens {s s' : State} (hcur : s'.cur = s.cur) (hl : LensEq s.secs s'.secs) (hv : s.cur < s'.secs.length)
    (hg : s'.ghost = s.ghost) : Quiet s s' :=
  ⟨0, ⟨hcur, hv, fun i _ => hl i, hl _, by simp [hg]⟩⟩

theorem bindLabel_cur_ghost (s : State) (l sec : Nat) (off : BitVec 64) :
    (bindLabel s l sec off).1.cur = s.cur ∧ (bindLabel s l sec off).1.ghost = s.ghost := by
  unfold bindLabel
  repeat' split
  all_goals exact ⟨rfl, rfl⟩

theorem resolve_cur_ghost (s : State) : (resolve s).1.cur = s.cur ∧ (resolve s).1.ghost = s.ghost := by
  unfold resolve
  split <;> exact ⟨rfl, rfl⟩

theorem zeros_len (n : Nat) : (zeros n).length = n := by simp [zeros]

theorem jmp_eff (s : State) (sh : JShape) (opt : FormOpt) (l : Nat) (h : Inv s)
    (hS : ∀ o8, sh.op8 = some o8 → BranchLead (sh.pre ++ [o8]) 1) (hL : sh.op32 ≠ [] → BranchLead (sh.pre ++ sh.op32) 4) :
    Quiet s (x86JmpLabel s sh opt l).1 ∨ ∃ g n, Eff s (x86JmpLabel s sh opt l).1 [g] n ∧ (x86JmpLabel s sh opt l).2 = .ok ∧
      (g.sec = s.cur ∧ g.label = l ∧
        ((g.fmt = fmtS 1 ∧ g.rel = BitVec.ofInt 64 (-1)) ∨ (g.fmt = fmtS 4 ∧ g.rel = BitVec.ofInt 64 (-4))) ∧
        g.offset + g.fmt.valueSize = s.curOff + n ∧ LeadOK (x86JmpLabel s sh opt l).1 g s.curOff) := by
  have hc := h.cur
  unfold x86JmpLabel emitJmpCallRel
  repeat' (first | split | dsimp only)
  all_goals first
    | (left; quiet_build hc; done)
    | (right
       refine ⟨_, _, eff_emit (eff_newFixup_none (eff_emit (eff_refl s hc) _) l _ _ (by assumption) rfl) _, rfl, rfl, rfl, ?_, ?_, ?_⟩
       · first | exact .inl ⟨rfl, rfl⟩ | exact .inr ⟨rfl, rfl⟩
       · simp only [Fixup.toG, fmtS, simpleValue, List.length_append, List.length_singleton, zeros_len]; omega
       · first
           | (refine ⟨_, hS _ (by assumption), ?_, fun i hi => site_lead_stable s h _ _ l _ rfl ?_ i hi⟩
              · simp only [Fixup.toG, List.length_append, List.length_singleton]; omega
              · simp only [List.length_append, List.length_singleton]; omega)
           | (refine ⟨_, hL (by intro e; simp_all), ?_, fun i hi => site_lead_stable s h _ _ l _ rfl ?_ i hi⟩
              · simp only [Fixup.toG, List.length_append]; omega
              · simp only [List.length_append]; omega))

theorem mem_eff (s : State) (sh : MShape) (l : Nat) (d : BitVec 32) (hc : s.cur < s.secs.length) :
    Quiet s (x86MemLabel s sh l d).1 ∨ ∃ g n, Eff s (x86MemLabel s sh l d).1 [g] n ∧ (x86MemLabel s sh l d).2 = .ok ∧
      (g.sec = s.cur ∧ g.label = l ∧ g.fmt = fmtS 4 ∧ g.rel = d.signExtend 64 - BitVec.ofNat 64 (4 + sh.imm.length) ∧
        g.offset + 4 + sh.imm.length = s.curOff + n ∧ s.arch.is32 = false) := by
  unfold x86MemLabel
  repeat' (first | split | dsimp only)
  all_goals first
    | (left; quiet_build hc; done)
    | (right
       refine ⟨_, _, eff_emit (eff_newFixup_none (eff_emit (eff_refl s hc) _) l _ _ (by assumption) rfl) _, rfl, rfl, rfl, rfl, rfl, ?_, ?_⟩
       · simp only [Fixup.toG, List.length_append, zeros_len]; omega
       · simpa using (by assumption : ¬ s.arch.is32 = true))

theorem a64_eff (s : State) (opcode : BitVec 32) (k : A64Kind) (l : Nat) (a : BitVec 64) (hc : s.cur < s.secs.length) :
    Quiet s (a64RelLabel s opcode k l a).1 ∨ ∃ g n, Eff s (a64RelLabel s opcode k l a).1 [g] n ∧ (a64RelLabel s opcode k l a).2 = .ok ∧
      (g.sec = s.cur ∧ g.label = l ∧ g.fmt = k.fmt ∧ g.rel = a ∧ g.offset = s.curOff) := by
  unfold a64RelLabel
  repeat' (first | split | dsimp only)
  all_goals first
    | (left; quiet_build hc; done)
    | (right
       exact ⟨_, _, eff_emit (eff_newFixup_none (eff_refl s hc) l _ _ (by assumption) rfl) _, rfl, rfl, rfl, rfl, rfl, rfl⟩)

/-- **step_eff.** every assembling call other than `section`: the current section stays and grows, no other section changes
its length, and the log gains nothing - or exactly one reference, placed where `RefShape` says -/
theorem step_eff (s : State) (op : Op) (hop : op.early = true) (hns : ∀ id, op ≠ .section id) (h : Inv s) : StepEff s op := by
  have hc := h.cur
  have hv : (step s op).1.cur < (step s op).1.secs.length := (step_inv s op hop h).cur
  cases op with
  | newLabel => left; simp only [step]; exact quiet_same (quiet_refl s hc) rfl rfl rfl
  | newSection a o =>
    left; simp only [step]; unfold newSection
    split
    · exact quiet_refl s hc
    · exact quiet_of_lens rfl (lensEq_append_empty _ _ rfl) (by simp; omega) rfl
  | «section» id => exact absurd rfl (hns id)
  | bind l =>
    left
    simp only [step] at hv ⊢
    unfold bind at hv ⊢
    obtain ⟨h1, h2⟩ := bindLabel_cur_ghost s l s.cur (BitVec.ofNat 64 s.curOff)
    rw [h1] at hv
    exact quiet_of_lens h1 (bindLabel_lens _ _ _ _) hv h2
  | align n => left; simp only [step]; unfold alignZero; repeat' split
               all_goals quiet_build hc
  | embed bs => left; simp only [step]; unfold embed; quiet_build hc
  | jmp k opt l =>
    unfold StepEff
    simp only [step, RefShape]
    split
    · left; exact quiet_refl s hc
    · rcases jmp_eff s (k.shape s.arch) opt l h (fun o8 ho => branchLead_short _ _ o8 ho) (fun ho => branchLead_long _ _ ho)
        with hq | ⟨g, n, he, hok, h1, h2, h3, h4, h5⟩
      · left; exact hq
      · right; refine ⟨g, n, he, hok, h1, h2, h3, ?_, h5⟩
        rw [eff_curOff he]; exact h4
  | mem k l d =>
    unfold StepEff
    simp only [step, RefShape]
    split
    · left; exact quiet_refl s hc
    · rcases mem_eff s (k.shape s.arch) l d hc with hq | ⟨g, n, he, hok, h1, h2, h3, h4, h5, h6⟩
      · left; exact hq
      · right; refine ⟨g, n, he, hok, h1, h2, h3, h4, ?_, h6⟩
        rw [eff_curOff he]; exact h5
  | a64 k l a =>
    unfold StepEff
    simp only [step, RefShape]
    split
    · left; exact quiet_refl s hc
    · rcases a64_eff s k.opcode k.kind l a hc with hq | ⟨g, n, he, hok, h1, h2, h3, h4, h5⟩
      · left; exact hq
      · right; exact ⟨g, n, he, hok, h1, h2, h3, h4, h5⟩
  | elabel l n => left; simp only [step]; unfold embedLabel; repeat' (first | split | dsimp only)
                  all_goals quiet_build hc
  | edelta l b n => left; simp only [step]; unfold embedLabelDelta; repeat' (first | split | dsimp only)
                    all_goals quiet_build hc
  | vsize i v =>
    left; simp only [step]; unfold setVirtSize
    split
    · exact quiet_of_lens rfl (lensEq_modifySec _ _ _ (fun _ => rfl)) (by rw [modifySec_length]; exact hc) rfl
    · exact quiet_refl s hc
  | flatten =>
    left
    simp only [step] at hv ⊢
    have hfl : (flatten s).1 = s ∨ (flatten s).1 = { s with secs := flattenAssign s.secs (byOrder s.secs) 0#64 none } := by
      unfold flatten; dsimp only; split
      · left; rfl
      · right; rfl
    rcases hfl with e | e
    · rw [e]; exact quiet_refl s hc
    · rw [e] at hv ⊢
      exact quiet_of_lens rfl (flattenAssign_lens _ _ _ _) hv rfl
  | resolve =>
    left
    simp only [step] at hv ⊢
    obtain ⟨h1, h2⟩ := resolve_cur_ghost s
    rw [h1] at hv
    exact quiet_of_lens h1 (resolve_lens s) hv h2
  | relocate b => cases hop
  | jmpAbs k opt t =>
    left; simp only [step]; unfold x86JmpAbs emitJmpCallRel
    dsimp only
    repeat' split
    all_goals quiet_build hc
  | a64Abs k t => left; simp only [step]; unfold a64RelAbs; repeat' (first | split | dsimp only)
                  all_goals quiet_build hc
  | memAbs k a t =>
    left
    simp only [step]
    split
    · exact quiet_refl s hc
    · unfold x86MemAbs
      cases (MKind.ashape s.arch k).moffs with
      | none => exact x86MemAbsM_quiet _ _ _ _ hc
      | some mo =>
        dsimp only
        split
        · quiet_build hc
        · exact x86MemAbsM_quiet _ _ _ _ hc

/-- calls after which the monitor does not update its size table leave every section length as it was -/
def Op.sizeless : Op → Bool
  | .newLabel | .newSection _ _ | .bind _ | .vsize _ _ | .flatten | .resolve => true
  | _ => false

theorem still_of_lens {s s' : State} (hcur : s'.cur = s.cur) (hl : LensEq s.secs s'.secs) (hv : s.cur < s'.secs.length)
    (hg : s'.ghost = s.ghost) : Eff s s' [] 0 :=
  ⟨hcur, hv, fun i _ => hl i, hl _, by simp [hg]⟩

theorem step_still (s : State) (op : Op) (hop : op.early = true) (hsz : op.sizeless = true) (h : Inv s) : Eff s (step s op).1 [] 0 := by
  have hc := h.cur
  have hv : (step s op).1.cur < (step s op).1.secs.length := (step_inv s op hop h).cur
  cases op with
  | newLabel => simp only [step]; exact eff_secs_same (eff_refl s hc) rfl rfl rfl
  | newSection a o =>
    simp only [step]; unfold newSection
    split
    · exact eff_refl s hc
    · exact still_of_lens rfl (lensEq_append_empty _ _ rfl) (by simp; omega) rfl
  | bind l =>
    simp only [step] at hv ⊢
    unfold bind at hv ⊢
    obtain ⟨h1, h2⟩ := bindLabel_cur_ghost s l s.cur (BitVec.ofNat 64 s.curOff)
    rw [h1] at hv
    exact still_of_lens h1 (bindLabel_lens _ _ _ _) hv h2
  | vsize i v =>
    simp only [step]; unfold setVirtSize
    split
    · exact still_of_lens rfl (lensEq_modifySec _ _ _ (fun _ => rfl)) (by rw [modifySec_length]; exact hc) rfl
    · exact eff_refl s hc
  | flatten =>
    simp only [step] at hv ⊢
    have hfl : (flatten s).1 = s ∨ (flatten s).1 = { s with secs := flattenAssign s.secs (byOrder s.secs) 0#64 none } := by
      unfold flatten; dsimp only; split
      · left; rfl
      · right; rfl
    rcases hfl with e | e
    · rw [e]; exact eff_refl s hc
    · rw [e] at hv ⊢
      exact still_of_lens rfl (flattenAssign_lens _ _ _ _) hv rfl
  | resolve =>
    simp only [step] at hv ⊢
    obtain ⟨h1, h2⟩ := resolve_cur_ghost s
    rw [h1] at hv
    exact still_of_lens h1 (resolve_lens s) hv h2
  | _ => cases hsz

/-! ### the architecture never changes -/

@[simp] theorem newReloc_arch (s : State) (r : Reloc) : (newReloc s r).1.arch = s.arch := rfl
@[simp] theorem newFixup_arch (s : State) (l : Nat) (f : Fixup) : (newFixup s l f).arch = s.arch := by
  unfold newFixup; split <;> rfl
@[simp] theorem addAddress_arch (s : State) (a : BitVec 64) : (addAddress s a).arch = s.arch := by
  unfold addAddress
  split
  · rfl
  · cases s.addrTabSec <;> rfl
theorem bindLabel_arch (s : State) (l sec : Nat) (off : BitVec 64) : (bindLabel s l sec off).1.arch = s.arch := by
  unfold bindLabel
  repeat' split
  all_goals rfl

syntax "arch_same" : tactic
macro_rules
  | `(tactic| arch_same) => `(tactic|
      (repeat' (first | split | dsimp only)) <;> first
        | rfl
        | (simp only [emit_arch, newReloc_arch, newFixup_arch, addAddress_arch]; done))

theorem x86MemAbsM_arch (s : State) (sh : AShape) (a : AddrT) (t : BitVec 64) : (x86MemAbsM s sh a t).1.arch = s.arch := by
  unfold x86MemAbsM; arch_same

theorem step_arch (s : State) (op : Op) (hop : op.early = true) : (step s op).1.arch = s.arch := by
  cases op with
  | newLabel => rfl
  | newSection a o => simp only [step]; unfold newSection; arch_same
  | «section» id => simp only [step]; unfold switchSection; arch_same
  | bind l => simp only [step]; unfold bind; exact bindLabel_arch _ _ _ _
  | align n => simp only [step]; unfold alignZero; arch_same
  | embed bs => rfl
  | jmp k opt l => simp only [step]; unfold x86JmpLabel emitJmpCallRel; arch_same
  | mem k l d => simp only [step]; unfold x86MemLabel; arch_same
  | a64 k l a => simp only [step]; unfold a64RelLabel; arch_same
  | elabel l n => simp only [step]; unfold embedLabel; arch_same
  | edelta l b n => simp only [step]; unfold embedLabelDelta; arch_same
  | vsize i v => simp only [step]; unfold setVirtSize; arch_same
  | flatten => simp only [step]; unfold flatten; arch_same
  | resolve => simp only [step]; unfold resolve; arch_same
  | relocate b => cases hop
  | jmpAbs k opt t => simp only [step]; unfold x86JmpAbs emitJmpCallRel; arch_same
  | a64Abs k t => simp only [step]; unfold a64RelAbs; arch_same
  | memAbs k a t =>
    simp only [step]
    split
    · rfl
    · unfold x86MemAbs
      cases (MKind.ashape s.arch k).moffs with
      | none => exact x86MemAbsM_arch _ _ _ _
      | some mo =>
        dsimp only
        split
        · rfl
        · exact x86MemAbsM_arch _ _ _ _

/-! ### the monitor's size table -/

theorem getD_append_zero (l : List Nat) (i : Nat) : (l ++ [0]).getD i 0 = l.getD i 0 := by
  simp only [List.getD_eq_getElem?_getD]
  by_cases hi : i < l.length
  · rw [List.getElem?_append_left hi]
  · rw [List.getElem?_eq_none (Nat.le_of_not_lt hi)]
    by_cases he : i = l.length
    · subst he; simp
    · rw [List.getElem?_eq_none (by simp; omega)]

theorem getD_setSize (sizes : List Nat) (i n j : Nat) :
    (setSize sizes i n).getD j 0 = if j = i then n else sizes.getD j 0 := by
  unfold setSize
  simp only [List.getD_eq_getElem?_getD]
  split
  · rename_i hi
    by_cases hj : j = i
    · subst hj; simp [hi]
    · simp [hj, List.getElem?_set_ne (Ne.symm hj)]
  · rename_i hi
    simp only [List.getElem?_append, List.getElem?_replicate, List.length_append, List.length_replicate]
    by_cases hj : j = i
    · subst hj
      have h1 : ¬ j < sizes.length + (j - sizes.length) := by omega
      have h2 : j - (sizes.length + (j - sizes.length)) = 0 := by omega
      simp [h1, h2]
    · simp only [hj, if_false]
      by_cases hlt : j < sizes.length
      · have h1 : j < sizes.length + (i - sizes.length) := by omega
        simp [h1, hlt]
      · rw [List.getElem?_eq_none (Nat.le_of_not_lt hlt)]
        by_cases hj2 : j < i
        · have h1 : j < sizes.length + (i - sizes.length) := by omega
          have h2 : j - sizes.length < i - sizes.length := by omega
          simp [h1, hlt, h2]
        · have h1 : ¬ j < sizes.length + (i - sizes.length) := by omega
          have h2 : j - (sizes.length + (i - sizes.length)) ≠ 0 := by omega
          simp [h1, h2]

/-! ### simulation -/

/-- a record of the monitor and an entry of the model's log name the same field of the same reference -/
def Match (s : State) (g : GRef) (r : Ref) : Prop :=
  r.sec = g.sec ∧ r.label = g.label ∧
  ((r.kind = .x86rel ∧ r.addend = 0#64 ∧
      ((g.fmt = fmtS 1 ∧ g.rel = BitVec.ofInt 64 (-1)) ∨ (g.fmt = fmtS 4 ∧ g.rel = BitVec.ofInt 64 (-4))) ∧
      g.offset + g.fmt.valueSize = r.stop ∧ LeadOK s g r.start) ∨
   (∃ immLen, r.kind = .x86rip immLen ∧ g.fmt = fmtS 4 ∧ g.rel = r.addend - BitVec.ofNat 64 (4 + immLen) ∧
      g.offset + 4 + immLen = r.stop) ∨
   (∃ k, r.kind = .a64 k ∧ g.fmt = k.fmt ∧ g.rel = r.addend ∧ g.offset = r.start))

theorem match_grow {s s' : State} {g : GRef} {r : Ref} (hi : Inv s) (hg : Grow s s') (h : Match s g r) : Match s' g r := by
  obtain ⟨h1, h2, h3⟩ := h
  refine ⟨h1, h2, ?_⟩
  rcases h3 with ⟨a, b, c, d, e⟩ | h3 | h3
  · exact .inl ⟨a, b, c, d, leadOK_grow hi hg e⟩
  · exact .inr (.inl h3)
  · exact .inr (.inr h3)

structure Sim (s : State) (gh : Ghost) : Prop where
  arch  : gh.arch = s.arch
  cur   : gh.cur = s.cur
  sizes : ∀ i, getSize gh i = secLen s.secs i
  refs  : ∀ g ∈ s.ghost, ∃ r ∈ gh.refs, Match s g r

theorem sim_of_still {s s' : State} {gh gh' : Ghost} (hi : Inv s) (hgr : Grow s s') (he : Eff s s' [] 0) (ha : s'.arch = s.arch) (hs : Sim s gh)
    (h1 : gh'.arch = gh.arch) (h2 : gh'.cur = gh.cur) (h3 : ∀ i, getSize gh' i = getSize gh i) (h4 : gh'.refs = gh.refs) :
    Sim s' gh' := by
  refine ⟨by rw [h1, hs.arch, ha], by rw [h2, hs.cur, he.cur], ?_, ?_⟩
  · intro i
    rw [h3, hs.sizes]
    by_cases hi : i = s.cur
    · subst hi; have := he.grow; omega
    · exact (he.lens i hi).symm
  · intro g hg
    rw [he.ghost, List.append_nil] at hg
    rw [h4]
    obtain ⟨r, hr, hm⟩ := hs.refs g hg
    exact ⟨r, hr, match_grow hi hgr hm⟩

theorem sim_of_grow {s s' : State} {gh gh' : Ghost} {newg : List GRef} {n : Nat} (hi : Inv s) (hgr : Grow s s') (he : Eff s s' newg n) (ha : s'.arch = s.arch)
    (hs : Sim s gh) (h1 : gh'.arch = gh.arch) (h2 : gh'.cur = gh.cur) (h3 : gh'.sizes = setSize gh.sizes gh.cur s'.curOff)
    (h4 : ∀ r ∈ gh.refs, r ∈ gh'.refs) (h5 : ∀ g ∈ newg, ∃ r ∈ gh'.refs, Match s' g r) : Sim s' gh' := by
  refine ⟨by rw [h1, hs.arch, ha], by rw [h2, hs.cur, he.cur], ?_, ?_⟩
  · intro i
    unfold getSize
    rw [h3, getD_setSize, hs.cur]
    by_cases hi : i = s.cur
    · subst hi; rw [if_pos rfl, curOff_eq_secLen, he.cur]
    · rw [if_neg hi, he.lens i hi]; exact hs.sizes i
  · intro g hg
    rw [he.ghost, List.mem_append] at hg
    rcases hg with hg | hg
    · obtain ⟨r, hr, hm⟩ := hs.refs g hg; exact ⟨r, h4 r hr, match_grow hi hgr hm⟩
    · exact h5 g hg

/-- **sim_step.** One call of the model and one transition of the monitor fed with the model's answers keep the simulation. -/
theorem sim_step (s : State) (gh : Ghost) (op : Op) (hop : op.early = true) (h : Inv s) (hs : Sim s gh) :
    Sim (step s op).1 (ghostStep gh op (step s op).2 (step s op).1.curOff) := by
  have ha := step_arch s op hop
  have hgr := step_grow s op hop h
  cases op with
  | «section» id =>
    simp only [step, ghostStep]
    unfold switchSection
    split
    · rename_i hcnd
      simp only [if_true]
      have hgr' : Grow s { s with cur := id } := by
        have := hgr; simp only [step] at this; unfold switchSection at this; rw [if_pos hcnd] at this; exact this
      refine ⟨hs.arch, rfl, hs.sizes, fun g hg => ?_⟩
      obtain ⟨r, hr, hm⟩ := hs.refs g hg
      exact ⟨r, hr, match_grow h hgr' hm⟩
    · simp only [reduceCtorEq, if_false]
      exact hs
  | newLabel =>
    have he := step_still s .newLabel hop rfl h
    simp only [ghostStep]
    exact sim_of_still h hgr he ha hs rfl rfl (fun _ => rfl) rfl
  | newSection a o =>
    have he := step_still s (.newSection a o) hop rfl h
    simp only [ghostStep]
    split
    · exact sim_of_still h hgr he ha hs rfl rfl (fun i => by unfold getSize; exact getD_append_zero _ _) rfl
    · exact sim_of_still h hgr he ha hs rfl rfl (fun _ => rfl) rfl
  | bind l =>
    have he := step_still s (.bind l) hop rfl h
    simp only [ghostStep]
    split
    · exact sim_of_still h hgr he ha hs rfl rfl (fun _ => rfl) rfl
    · exact sim_of_still h hgr he ha hs rfl rfl (fun _ => rfl) rfl
  | vsize i v =>
    have he := step_still s (.vsize i v) hop rfl h
    simp only [ghostStep]
    exact sim_of_still h hgr he ha hs rfl rfl (fun _ => rfl) rfl
  | flatten =>
    have he := step_still s .flatten hop rfl h
    simp only [ghostStep]
    exact sim_of_still h hgr he ha hs rfl rfl (fun _ => rfl) rfl
  | resolve =>
    have he := step_still s .resolve hop rfl h
    simp only [ghostStep]
    exact sim_of_still h hgr he ha hs rfl rfl (fun _ => rfl) rfl
  | relocate b => cases hop
  | align n =>
    rcases step_eff s (.align n) hop (by intro id e; cases e) h with ⟨n, he⟩ | ⟨g, n, he, _, hsh⟩
    · simp only [ghostStep]
      exact sim_of_grow h hgr he ha hs rfl rfl rfl (fun r hr => hr) (by intro g hg; cases hg)
    · exact absurd hsh (by simp [RefShape])
  | embed bs =>
    rcases step_eff s (.embed bs) hop (by intro id e; cases e) h with ⟨n, he⟩ | ⟨g, n, he, _, hsh⟩
    · simp only [ghostStep]
      exact sim_of_grow h hgr he ha hs rfl rfl rfl (fun r hr => hr) (by intro g hg; cases hg)
    · exact absurd hsh (by simp [RefShape])
  | jmp k opt l =>
    rcases step_eff s (.jmp k opt l) hop (by intro id e; cases e) h with ⟨n, he⟩ | ⟨g, n, he, hok, hsh⟩
    · simp only [ghostStep]
      split
      · exact sim_of_grow h hgr he ha hs rfl rfl rfl (fun r hr => List.mem_append_left _ hr) (by intro g hg; cases hg)
      · exact sim_of_grow h hgr he ha hs rfl rfl rfl (fun r hr => hr) (by intro g hg; cases hg)
    · simp only [ghostStep, hok, if_true]
      refine sim_of_grow h hgr he ha hs rfl rfl rfl (fun r hr => List.mem_append_left _ hr) ?_
      intro g' hg'
      simp only [List.mem_singleton] at hg'
      subst hg'
      refine ⟨_, List.mem_append_right _ (List.mem_singleton.2 rfl), ?_⟩
      simp only [RefShape] at hsh
      obtain ⟨h1, h2, h3, h4, h5⟩ := hsh
      refine ⟨by rw [h1]; exact hs.cur, h2.symm, .inl ⟨rfl, rfl, h3, h4, ?_⟩⟩
      show LeadOK _ g' (getSize gh gh.cur)
      rw [hs.sizes, hs.cur]; exact h5
  | mem k l d =>
    rcases step_eff s (.mem k l d) hop (by intro id e; cases e) h with ⟨n, he⟩ | ⟨g, n, he, hok, hsh⟩
    · simp only [ghostStep]
      split
      · exact sim_of_grow h hgr he ha hs rfl rfl rfl (fun r hr => List.mem_append_left _ hr) (by intro g hg; cases hg)
      · exact sim_of_grow h hgr he ha hs rfl rfl rfl (fun r hr => hr) (by intro g hg; cases hg)
    · simp only [ghostStep, hok, if_true]
      refine sim_of_grow h hgr he ha hs rfl rfl rfl (fun r hr => List.mem_append_left _ hr) ?_
      intro g' hg'
      simp only [List.mem_singleton] at hg'
      subst hg'
      refine ⟨_, List.mem_append_right _ (List.mem_singleton.2 rfl), ?_⟩
      simp only [RefShape] at hsh
      obtain ⟨h1, h2, h3, h4, h5, h6⟩ := hsh
      have hx : gh.arch ≠ .x86 := by
        rw [hs.arch]; intro e; rw [e] at h6; cases h6
      refine ⟨by rw [h1]; exact hs.cur, h2.symm, .inr (.inl ⟨(k.shape s.arch).imm.length, ?_, h3, h4, h5⟩)⟩
      have hx' : s.arch ≠ .x86 := by rw [← hs.arch]; exact hx
      simp only [hs.arch]
      rw [if_neg hx']
  | a64 k l a =>
    rcases step_eff s (.a64 k l a) hop (by intro id e; cases e) h with ⟨n, he⟩ | ⟨g, n, he, hok, hsh⟩
    · simp only [ghostStep]
      split
      · exact sim_of_grow h hgr he ha hs rfl rfl rfl (fun r hr => List.mem_append_left _ hr) (by intro g hg; cases hg)
      · exact sim_of_grow h hgr he ha hs rfl rfl rfl (fun r hr => hr) (by intro g hg; cases hg)
    · simp only [ghostStep, hok, if_true]
      refine sim_of_grow h hgr he ha hs rfl rfl rfl (fun r hr => List.mem_append_left _ hr) ?_
      intro g' hg'
      simp only [List.mem_singleton] at hg'
      subst hg'
      refine ⟨_, List.mem_append_right _ (List.mem_singleton.2 rfl), ?_⟩
      simp only [RefShape] at hsh
      obtain ⟨h1, h2, h3, h4, h5⟩ := hsh
      refine ⟨by rw [h1]; exact hs.cur, h2.symm, .inr (.inr ⟨k.kind, rfl, h3, h4, ?_⟩)⟩
      rw [h5, curOff_eq_secLen, ← hs.sizes, hs.cur]
  | elabel l n =>
    rcases step_eff s (.elabel l n) hop (by intro id e; cases e) h with ⟨n, he⟩ | ⟨g, n, he, _, hsh⟩
    · simp only [ghostStep]
      split
      · exact sim_of_grow h hgr he ha hs rfl rfl rfl (fun r hr => List.mem_append_left _ hr) (by intro g hg; cases hg)
      · exact sim_of_grow h hgr he ha hs rfl rfl rfl (fun r hr => hr) (by intro g hg; cases hg)
    · exact absurd hsh (by simp [RefShape])
  | edelta l b n =>
    rcases step_eff s (.edelta l b n) hop (by intro id e; cases e) h with ⟨n, he⟩ | ⟨g, n, he, _, hsh⟩
    · simp only [ghostStep]
      split
      · exact sim_of_grow h hgr he ha hs rfl rfl rfl (fun r hr => List.mem_append_left _ hr) (by intro g hg; cases hg)
      · exact sim_of_grow h hgr he ha hs rfl rfl rfl (fun r hr => hr) (by intro g hg; cases hg)
    · exact absurd hsh (by simp [RefShape])
  | jmpAbs k opt t =>
    rcases step_eff s (.jmpAbs k opt t) hop (by intro id e; cases e) h with ⟨n, he⟩ | ⟨g, n, he, _, hsh⟩
    · simp only [ghostStep]
      split
      · exact sim_of_grow h hgr he ha hs rfl rfl rfl (fun r hr => List.mem_append_left _ hr) (by intro g hg; cases hg)
      · exact sim_of_grow h hgr he ha hs rfl rfl rfl (fun r hr => hr) (by intro g hg; cases hg)
    · exact absurd hsh (by simp [RefShape])
  | a64Abs k t =>
    rcases step_eff s (.a64Abs k t) hop (by intro id e; cases e) h with ⟨n, he⟩ | ⟨g, n, he, _, hsh⟩
    · simp only [ghostStep]
      split
      · exact sim_of_grow h hgr he ha hs rfl rfl rfl (fun r hr => List.mem_append_left _ hr) (by intro g hg; cases hg)
      · exact sim_of_grow h hgr he ha hs rfl rfl rfl (fun r hr => hr) (by intro g hg; cases hg)
    · exact absurd hsh (by simp [RefShape])
  | memAbs k a t =>
    rcases step_eff s (.memAbs k a t) hop (by intro id e; cases e) h with ⟨n, he⟩ | ⟨g, n, he, _, hsh⟩
    · simp only [ghostStep]
      split
      · exact sim_of_grow h hgr he ha hs rfl rfl rfl (fun r hr => List.mem_append_left _ hr) (by intro g hg; cases hg)
      · exact sim_of_grow h hgr he ha hs rfl rfl rfl (fun r hr => hr) (by intro g hg; cases hg)
    · exact absurd hsh (by simp [RefShape])

/-- the answers of the model, as the check script feeds them to the monitor: (op, error, size of the current section) -/
def trace : State → List Op → List (Op × Err × Nat)
  | _, [] => []
  | s, op :: rest => (op, (step s op).2, (step s op).1.curOff) :: trace (step s op).1 rest

theorem sim_run (ops : List Op) : ∀ (s : State) (gh : Ghost), (∀ op ∈ ops, op.early = true) → Inv s → Sim s gh →
    Sim (run s ops) (ghostRun gh (trace s ops)) := by
  induction ops with
  | nil => intro s gh _ _ hs; exact hs
  | cons op rest ih =>
    intro s gh hops h hs
    have ho := hops op List.mem_cons_self
    exact ih _ _ (fun o h' => hops o (List.mem_cons_of_mem _ h')) (step_inv s op ho h) (sim_step s gh op ho h hs)

theorem sim_init (arch : Arch) (base : BitVec 64) (ib : Option (BitVec 64)) :
    Sim (State.init arch base) { arch := arch, initBase := ib } := by
  refine ⟨rfl, rfl, ?_, ?_⟩
  · intro i
    unfold getSize secLen
    simp only [State.init]
    cases i with
    | zero => rfl
    | succ j => simp
  · intro g hg; simp [State.init] at hg

theorem sim_resolve (s : State) (gh : Ghost) (h : Inv s) (hs : Sim s gh) :
    Sim (resolve s).1 (ghostStep gh .resolve (resolve s).2 (resolve s).1.curOff) := by
  obtain ⟨h1, h2⟩ := resolve_cur_ghost s
  have ha : (resolve s).1.arch = s.arch := by unfold resolve; split <;> rfl
  simp only [ghostStep]
  refine ⟨by rw [hs.arch, ha], by rw [hs.cur, h1], fun i => by rw [hs.sizes, resolve_lens s i], ?_⟩
  intro g hg
  rw [h2] at hg
  obtain ⟨r, hr, hm⟩ := hs.refs g hg
  exact ⟨r, hr, match_grow h (grow_resolve s h) hm⟩

/-- **monitor_refs_match.** For every program of the menu finished by `flatten` + `resolve`: the monitor, fed with nothing
but the answers of the calls, holds for every entry of the model's log a record that names the same field. -/
theorem monitor_refs_match (arch : Arch) (base : BitVec 64) (ib : Option (BitVec 64)) (ops : List Op) (hops : ∀ op ∈ ops, op.early = true) :
    let s1 := run (State.init arch base) (ops ++ [.flatten])
    Sim (run (State.init arch base) (ops ++ [.flatten, .resolve]))
      (ghostStep (ghostRun { arch := arch, initBase := ib } (trace (State.init arch base) (ops ++ [.flatten]))) .resolve
        (resolve s1).2 (resolve s1).1.curOff) := by
  intro s1
  have hfl : ∀ op ∈ ops ++ [Op.flatten], op.early = true := by
    intro op hop
    rcases List.mem_append.1 hop with h1 | h1
    · exact hops op h1
    · simp at h1; rw [h1]; rfl
  have hsim := sim_run (ops ++ [.flatten]) _ _ hfl (inv_init arch base) (sim_init arch base ib)
  have e : ops ++ [Op.flatten, Op.resolve] = (ops ++ [Op.flatten]) ++ [Op.resolve] := by simp
  rw [e, run_append]
  exact sim_resolve _ _ (run_inv _ _ hfl (inv_init arch base)) hsim

theorem fmtS_ne_a64 (n : Nat) (k : A64Kind) (hn : n = 1 ∨ n = 4) : fmtS n ≠ k.fmt := by
  rcases hn with rfl | rfl <;> cases k <;> simp [fmtS, simpleValue, A64Kind.fmt, immValue]

/-- **monitor_verdict_x86.** The bridge, closed for x86: for every program of the menu finished by `flatten` + `resolve`, every
x86 reference of the model's log whose fixup is gone has a record in the monitor's own bookkeeping (built from the answers of
the calls only), and the monitor's CPU reading *computed from that record* - anchor = end of the instruction `r.stop`, field =
the `n` bytes before the trailing immediate, target = label address + `r.addend` - is `correct`. -/
theorem monitor_verdict_x86 (arch : Arch) (base : BitVec 64) (ib : Option (BitVec 64)) (ops : List Op) (hops : ∀ op ∈ ops, op.early = true)
    (g : GRef) (hg : g ∈ (run (State.init arch base) (ops ++ [.flatten, .resolve])).ghost)
    (n : Nat) (hn : n = 1 ∨ n = 4) (hf : g.fmt = fmtS n)
    (hnp : ¬ Pending (run (State.init arch base) (ops ++ [.flatten, .resolve])) g) :
    let s := run (State.init arch base) (ops ++ [.flatten, .resolve])
    let s1 := run (State.init arch base) (ops ++ [.flatten])
    let gh := ghostStep (ghostRun { arch := arch, initBase := ib } (trace (State.init arch base) (ops ++ [.flatten]))) .resolve
                (resolve s1).2 (resolve s1).1.curOff
    ∃ r ∈ gh.refs, Match s g r ∧ ∃ lsec loff v,
      s.labels[r.label]? = some (.bound lsec loff) ∧ field s.secs g = some v ∧ g.offset + n ≤ r.stop ∧
      judgeRel (some (secOffset s.secs lsec + loff + r.addend)) (secOffset s.secs r.sec + BitVec.ofNat 64 r.stop) false
        (sextN n v) (fmtS n) = .correct := by
  intro s s1 gh
  have hsim : Sim s gh := monitor_refs_match arch base ib ops hops
  obtain ⟨r, hr, hm⟩ := hsim.refs g hg
  refine ⟨r, hr, hm, ?_⟩
  obtain ⟨hsec, hlab, hk⟩ := hm
  have hvs : g.fmt.valueSize = n := by rw [hf]; rfl
  rcases hk with ⟨_, hadd, hrel, hstop, _⟩ | ⟨immLen, _, hf4, hrel, hstop⟩ | ⟨k, _, hfk, _, _⟩
  · -- rel8 / rel32 of a branch
    have hrel' : g.rel = r.addend - BitVec.ofNat 64 (n + 0) := by
      rw [hadd]
      rcases hrel with ⟨h1, h2⟩ | ⟨h1, h2⟩
      · have : n = 1 := by rw [hf] at h1; rcases hn with rfl | rfl; rfl; simp [fmtS, simpleValue] at h1
        subst this; rw [h2]; decide
      · have : n = 4 := by rw [hf] at h1; rcases hn with rfl | rfl; simp [fmtS, simpleValue] at h1; rfl
        subst this; rw [h2]; decide
    obtain ⟨lsec, loff, v, hb, hv, hj⟩ := resolved_ref_judged arch base ops hops g hg n 0 hn hf r.addend hrel' hnp
    refine ⟨lsec, loff, v, by rw [hlab]; exact hb, hv, by omega, ?_⟩
    rw [hsec, ← hstop, hvs]
    exact hj
  · -- [rip + label + disp] followed by immLen immediate bytes
    have h4 : n = 4 := by rw [hf] at hf4; rcases hn with rfl | rfl; simp [fmtS, simpleValue] at hf4; rfl
    subst h4
    obtain ⟨lsec, loff, v, hb, hv, hj⟩ := resolved_ref_judged arch base ops hops g hg 4 immLen hn hf r.addend hrel hnp
    refine ⟨lsec, loff, v, by rw [hlab]; exact hb, hv, by omega, ?_⟩
    rw [hsec, ← hstop]
    exact hj
  · exact absurd (hf.symm.trans hfk) (fmtS_ne_a64 n k hn)

/-- **monitor_verdict_a64.** … and for AArch64: the record's kind names the format of the logged field, the field is the
instruction word at `r.start`, and the monitor's reading `pc + decode(field) = label address + addend` is `correct`
(ADRP: `bridge_adrp` gives the page equation for the same word). -/
theorem monitor_verdict_a64 (arch : Arch) (base : BitVec 64) (ib : Option (BitVec 64)) (ops : List Op) (hops : ∀ op ∈ ops, op.early = true)
    (g : GRef) (hg : g ∈ (run (State.init arch base) (ops ++ [.flatten, .resolve])).ghost)
    (k0 : A64Kind) (hf : g.fmt = k0.fmt)
    (hnp : ¬ Pending (run (State.init arch base) (ops ++ [.flatten, .resolve])) g) :
    let s := run (State.init arch base) (ops ++ [.flatten, .resolve])
    let s1 := run (State.init arch base) (ops ++ [.flatten])
    let gh := ghostStep (ghostRun { arch := arch, initBase := ib } (trace (State.init arch base) (ops ++ [.flatten]))) .resolve
                (resolve s1).2 (resolve s1).1.curOff
    ∃ r ∈ gh.refs, Match s g r ∧ ∃ k lsec loff v,
      r.kind = .a64 k ∧ s.labels[r.label]? = some (.bound lsec loff) ∧ field s.secs g = some v ∧ g.offset = r.start ∧
      judgeRel (some (secOffset s.secs lsec + loff + r.addend)) (secOffset s.secs r.sec + BitVec.ofNat 64 r.start) false
        (decode32 k.fmt (BitVec.ofNat 32 v)) k.fmt = .correct := by
  intro s s1 gh
  have hsim : Sim s gh := monitor_refs_match arch base ib ops hops
  obtain ⟨r, hr, hm⟩ := hsim.refs g hg
  refine ⟨r, hr, hm, ?_⟩
  obtain ⟨hsec, hlab, hk⟩ := hm
  rcases hk with ⟨_, _, hrel, _, _⟩ | ⟨immLen, _, hf4, _, _⟩ | ⟨k, hkind, hfk, hrel, hstart⟩
  · exfalso
    rcases hrel with ⟨h1, _⟩ | ⟨h1, _⟩
    · exact fmtS_ne_a64 1 k0 (.inl rfl) (h1.symm.trans hf)
    · exact fmtS_ne_a64 4 k0 (.inr rfl) (h1.symm.trans hf)
  · exact absurd (hf4.symm.trans hf) (fmtS_ne_a64 4 k0 (.inr rfl))
  · rcases resolved_ref_correct arch base ops hops g hg with ⟨lsec, loff, hb, hd⟩ | ⟨hp, _⟩
    · obtain ⟨v, hv, hj⟩ := bridge_a64 s.secs g k hfk lsec loff hd
      refine ⟨k, lsec, loff, v, hkind, by rw [hlab]; exact hb, hv, hstart, ?_⟩
      rw [hsec, ← hstart, ← hrel]
      exact hj
    · exact absurd hp hnp

/-- **monitor_branch_field.** The monitor's opcode-based field location is the model's logged field: for every program of the
menu finished by `flatten` + `resolve` and every logged reference that the monitor recorded as a branch (`x86rel`),
`x86BranchField`, run on the final bytes of the section from the record's `start`, returns exactly the logged field's offset
and size, and the field ends at the record's `stop` (so `judgeRef`'s "branch-length" test passes and the displacement it loads
is the logged field). With `monitor_verdict_x86` this closes the bridge from `resolved_ref_correct` to `judgeRef`. -/
theorem monitor_branch_field (arch : Arch) (base : BitVec 64) (ib : Option (BitVec 64)) (ops : List Op) (hops : ∀ op ∈ ops, op.early = true) :
    let s := run (State.init arch base) (ops ++ [.flatten, .resolve])
    let s1 := run (State.init arch base) (ops ++ [.flatten])
    let gh := ghostStep (ghostRun { arch := arch, initBase := ib } (trace (State.init arch base) (ops ++ [.flatten]))) .resolve
                (resolve s1).2 (resolve s1).1.curOff
    ∀ g ∈ s.ghost, ∃ r ∈ gh.refs, Match s g r ∧
      (r.kind = .x86rel → ∀ sec, s.secs[r.sec]? = some sec →
        x86BranchField sec.buf r.start = some (g.offset, g.fmt.valueSize) ∧ g.offset + g.fmt.valueSize = r.stop) := by
  intro s s1 gh g hg
  have hsim : Sim s gh := monitor_refs_match arch base ib ops hops
  obtain ⟨r, hr, hm⟩ := hsim.refs g hg
  refine ⟨r, hr, hm, ?_⟩
  intro hk sec hsec
  obtain ⟨hsecEq, _, hkinds⟩ := hm
  rcases hkinds with ⟨_, _, _, hstop, hlead⟩ | ⟨immLen, hk2, _⟩ | ⟨k, hk2, _⟩
  · exact ⟨leadOK_decodes hlead sec (by rw [← hsecEq]; exact hsec), hstop⟩
  · rw [hk] at hk2; cases hk2
  · rw [hk] at hk2; cases hk2

end AsmjitVerif.CodeHolder
