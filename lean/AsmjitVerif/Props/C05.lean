/-
C05 - Register allocation preserves the meaning of Compiler programs.

`validate` (Model/RAIR.lean) is run by the driver on the node list of every function the harness builds with the
real Compiler, before and after `run_passes()`. The theorems below say, once and for all, what an accepted pair means:

  for EVERY interpretation of the instruction keys as functions of the values they read (over any value domain),
  every argument list and every initial memory, the two programs are observationally indistinguishable: each finite
  observation (calls made so far with their argument values and the memory they saw; whether and with which return
  values and final memory the function returned, got stuck, or is still running) of one program is an observation of
  the other. Loops, irreducible control flow and non-termination are covered: the invariant is per pair of
  program points, the stutter measure `d` rules out one side running alone for ever.

The statement is about programs in the IR; which IR a dumped node list denotes (operand RW classification from
InstAPI::query_rw_info, instruction keys, prolog/epilog = frame instructions, ABI locations from FuncDetail) is the
driver's translation, which is trusted and described in notes/C05.md. The property quantifies over all programs;
the theorem quantifies over all inputs of each *checked* program (programs are sampled) - partial by construction.
-/
import AsmjitVerif.Lemmas.C05Sim
import AsmjitVerif.Gen.VexEvex

namespace AsmjitVerif.RAIR

variable {Val : Type}

/-- the initial state for an argument list: argument i is stored where the function expects it -/
def initState (args : List Loc) (vals : List Val) (dflt mem : Val) : State Val :=
  { pc := 0, regs := assign (fun _ => dflt) args (fun i => vals.getD i dflt), mem := mem }

/-- an accepted certificate is locally consistent everywhere -/
theorem validate_certOK {vsz : Loc → Nat} {pre post : Prog} {aP aQ : List Loc} {cert : Cert}
    (h : validate vsz pre post aP aQ cert = true) : CertOK vsz pre post cert := by
  intro q es e hes he
  simp only [validate, Bool.and_eq_true, List.all_eq_true, List.mem_range] at h
  have hq : q < cert.size := by
    rcases Nat.lt_or_ge q cert.size with h' | h'
    · exact h'
    · rw [Array.getElem?_eq_none h'] at hes; exact absurd hes (by simp)
  have := h.2 q hq
  rw [hes] at this
  exact this e he

/-- related initial states are certified -/
theorem validate_init {vsz : Loc → Nat} {pre post : Prog} {aP aQ : List Loc} {cert : Cert}
    (h : validate vsz pre post aP aQ cert = true) (sP sQ : State Val) (hp : sP.pc = 0) (hq : sQ.pc = 0)
    (hm : sP.mem = sQ.mem) (hargs : Holds (aQ.zip aP) sP.regs sQ.regs) : ∃ d, RelSt cert sP sQ d := by
  simp only [validate, Bool.and_eq_true] at h
  exact rel_of_okSucc h.1.2 hp hq hm hargs

/-- forward simulation: every finite observation of the virtual-register program is one of the allocated program -/
theorem sim_forward (I : Interp Val) {vsz : Loc → Nat} {pre post : Prog} {cert : Cert} (hc : CertOK vsz pre post cert) :
    ∀ (n d : Nat) (sP sQ : State Val), RelSt cert sP sQ d → ∃ m, exec I post m sQ = exec I pre n sP := by
  intro n
  induction n with
  | zero => intro d sP sQ _; exact ⟨0, rfl⟩
  | succ n ih =>
    intro d
    induction d using Nat.strongRecOn with
    | _ d ihd =>
      intro sP sQ hr
      cases sim_step I hc hr with
      | twinNext sP' sQ' ev d' h1 h2 hr' =>
        obtain ⟨m, hm⟩ := ih d' sP' sQ' hr'
        exact ⟨m + 1, by simp only [exec, h1, h2, hm]⟩
      | twinDone vals mm h1 h2 => exact ⟨1, by simp only [exec, h1, h2]⟩
      | twinStuck h1 h2 => exact ⟨1, by simp only [exec, h1, h2]⟩
      | postOnly sQ' d' h2 hlt hr' =>
        obtain ⟨m, hm⟩ := ihd d' hlt sP sQ' hr'
        exact ⟨m + 1, by simp only [exec, h2, hm, Option.toList_none, List.nil_append]⟩
      | preOnly sP' d' h1 _ hr' =>
        obtain ⟨m, hm⟩ := ih d' sP' sQ hr'
        exact ⟨m, by simp only [exec, h1, hm, Option.toList_none, List.nil_append]⟩

/-- backward simulation: every finite observation of the allocated program is one of the virtual-register program -/
theorem sim_backward (I : Interp Val) {vsz : Loc → Nat} {pre post : Prog} {cert : Cert} (hc : CertOK vsz pre post cert) :
    ∀ (m d : Nat) (sP sQ : State Val), RelSt cert sP sQ d → ∃ n, exec I pre n sP = exec I post m sQ := by
  intro m
  induction m with
  | zero => intro d sP sQ _; exact ⟨0, rfl⟩
  | succ m ih =>
    intro d
    induction d using Nat.strongRecOn with
    | _ d ihd =>
      intro sP sQ hr
      cases sim_step I hc hr with
      | twinNext sP' sQ' ev d' h1 h2 hr' =>
        obtain ⟨n, hn⟩ := ih d' sP' sQ' hr'
        exact ⟨n + 1, by simp only [exec, h1, h2, hn]⟩
      | twinDone vals mm h1 h2 => exact ⟨1, by simp only [exec, h1, h2]⟩
      | twinStuck h1 h2 => exact ⟨1, by simp only [exec, h1, h2]⟩
      | postOnly sQ' d' h2 _ hr' =>
        obtain ⟨n, hn⟩ := ih d' sP sQ' hr'
        exact ⟨n, by simp only [exec, h2, hn, Option.toList_none, List.nil_append]⟩
      | preOnly sP' d' h1 hlt hr' =>
        obtain ⟨n, hn⟩ := ihd d' hlt sP' sQ hr'
        exact ⟨n + 1, by simp only [exec, h1, hn, Option.toList_none, List.nil_append]⟩

theorem initState_holds {aP aQ : List Loc} (hP : nodupB aP = true) (hQ : nodupB aQ = true) (vals : List Val) (dflt mem : Val) :
    Holds (aQ.zip aP) (initState aP vals dflt mem).regs (initState aQ vals dflt mem).regs :=
  fun l v hm => assign_zip aQ aP _ _ _ l v (nodupB_sound hQ) (nodupB_sound hP) hm

/-- **Soundness of the validator (the C05 theorem).** If `validate` accepts, then for every interpretation of the
    instructions, all argument values and every initial memory: whatever the virtual-register program is observed to
    do within `n` steps (calls + arguments, return values, final memory, stuck, still running), the allocated
    program is observed to do within some `m` steps. -/
theorem validate_sound {vsz : Loc → Nat} {pre post : Prog} {aP aQ : List Loc} {cert : Cert}
    (h : validate vsz pre post aP aQ cert = true) (I : Interp Val) (vals : List Val) (dflt mem : Val) (n : Nat) :
    ∃ m, exec I post m (initState aQ vals dflt mem) = exec I pre n (initState aP vals dflt mem) := by
  have hh := h
  simp only [validate, Bool.and_eq_true] at hh
  obtain ⟨d, hr⟩ := validate_init h (initState aP vals dflt mem) (initState aQ vals dflt mem) rfl rfl rfl
    (initState_holds hh.1.1.1.2 hh.1.1.2 vals dflt mem)
  exact sim_forward I (validate_certOK h) n d _ _ hr

/-- ... and conversely: the allocated program does nothing the virtual-register program does not do
    (in particular it terminates only if the original does, with the same result, and makes no extra call). -/
theorem validate_sound_conv {vsz : Loc → Nat} {pre post : Prog} {aP aQ : List Loc} {cert : Cert}
    (h : validate vsz pre post aP aQ cert = true) (I : Interp Val) (vals : List Val) (dflt mem : Val) (m : Nat) :
    ∃ n, exec I pre n (initState aP vals dflt mem) = exec I post m (initState aQ vals dflt mem) := by
  have hh := h
  simp only [validate, Bool.and_eq_true] at hh
  obtain ⟨d, hr⟩ := validate_init h (initState aP vals dflt mem) (initState aQ vals dflt mem) rfl rfl rfl
    (initState_holds hh.1.1.1.2 hh.1.1.2 vals dflt mem)
  exact sim_backward I (validate_certOK h) m d _ _ hr

/-- the form the property is worded in: same return value, same memory effects, same calls with the same arguments -/
theorem validate_sound_returns {vsz : Loc → Nat} {pre post : Prog} {aP aQ : List Loc} {cert : Cert}
    (h : validate vsz pre post aP aQ cert = true) (I : Interp Val) (vals : List Val) (dflt mem : Val)
    (n : Nat) (calls : List (Event Val)) (rets : List Val) (mem' : Val)
    (hpre : exec I pre n (initState aP vals dflt mem) = (calls, .ret rets mem')) :
    ∃ m, exec I post m (initState aQ vals dflt mem) = (calls, .ret rets mem') := by
  obtain ⟨m, hm⟩ := validate_sound h I vals dflt mem n
  exact ⟨m, hm.trans hpre⟩

/-- the same for arbitrary related initial states (arguments in any registers, equal memory) -/
theorem validate_sound_states {vsz : Loc → Nat} {pre post : Prog} {aP aQ : List Loc} {cert : Cert}
    (h : validate vsz pre post aP aQ cert = true) (I : Interp Val) (sP sQ : State Val)
    (hp : sP.pc = 0) (hq : sQ.pc = 0) (hm : sP.mem = sQ.mem) (hargs : ∀ l v, (l, v) ∈ aQ.zip aP → sQ.regs l = sP.regs v) :
    (∀ n, ∃ m, exec I post m sQ = exec I pre n sP) ∧ (∀ m, ∃ n, exec I pre n sP = exec I post m sQ) := by
  obtain ⟨d, hr⟩ := validate_init h sP sQ hp hq hm hargs
  exact ⟨fun n => sim_forward I (validate_certOK h) n d _ _ hr, fun m => sim_backward I (validate_certOK h) m d _ _ hr⟩

/-! ## non-vacuity: a spilled loop is accepted, a missing reload / wrong register is refused -/

namespace Example
/- virtual program:  v1 := f(a0);  L: v1 := g(v1, a0); if c(v1) goto L; ret v1       (a0 = loc 100, v1 = loc 101)
   allocated:        r1 := f(r0); [slot := r0]; L: [r0 := slot]; r1 := g(r1, r0); if c(r1) goto L; ret r1
   (r0 = 0, r1 = 1, slot = 50) - the inserted save sits before the loop, the inserted load inside it -/
def pre : Prog := #[.op "f" [100] [101] [] false false, .op "g" [101, 100] [101] [] false false, .jcc "c" [101] 1, .ret [101]]
def post : Prog := #[.op "f" [0] [1] [] false false, .move 50 0 8, .move 0 50 8, .op "g" [1, 0] [1] [2] false false,
                     .jcc "c" [1] 2, .ret [1]]
def cert : Cert := #[[⟨0, 0, [(0, 100)]⟩], [⟨1, 2, [(1, 101), (0, 100)]⟩], [⟨1, 1, [(50, 100), (1, 101)]⟩],
                     [⟨1, 0, [(0, 100), (50, 100), (1, 101)]⟩], [⟨2, 0, [(1, 101), (50, 100)]⟩], [⟨3, 0, [(1, 101)]⟩]]
/-- the same allocated program with the reload dropped -/
def postBad : Prog := #[.op "f" [0] [1] [] false false, .move 50 0 8, .op "g" [1, 0] [1] [0] false false,
                        .jcc "c" [1] 2, .ret [1]]
def certBad : Cert := #[[⟨0, 0, [(0, 100)]⟩], [⟨1, 1, [(1, 101), (0, 100)]⟩], [⟨1, 0, [(0, 100), (50, 100), (1, 101)]⟩],
                        [⟨2, 0, [(1, 101), (50, 100)]⟩], [⟨3, 0, [(1, 101)]⟩]]
end Example

example : validate (fun _ => 8) Example.pre Example.post [100] [0] Example.cert = true := by decide
example : validate (fun _ => 8) Example.pre Example.postBad [100] [0] Example.certBad = false := by decide
/-- the theorem applies to the accepted example -/
example (I : Interp Nat) (x mem n : Nat) :
    ∃ m, exec I Example.post m (initState [0] [x] 0 mem) = exec I Example.pre n (initState [100] [x] 0 mem) :=
  validate_sound (vsz := fun _ => 8) (cert := Example.cert) (by decide) I [x] 0 mem n

/-! ## scope of the statement: `Prog` is an arbitrary control-flow graph (conditional and unconditional jumps to any index, annotated
   indirect jumps with any number of targets, calls as observable events, any number of loop iterations - `exec` is bounded only by its
   fuel argument, which the theorems quantify over). Nothing is restricted to straight-line or structured code: `validate_sound` IS the
   full statement (no `_partial`). Non-vacuity with a jump table, a call that clobbers registers and a join: -/

namespace ExampleCfg
/- 0: t := sel(a)   1: jump table on t -> {2, 4}   2: r := call h(a) [memory, event]   3: jmp 5   4: r := a   5: ret r -/
def pre : Prog := #[.op "sel" [100] [101] [] false false, .jtab "jt" [101] [2, 4], .op "call h" [100] [102] [] true true, .jmp 5,
                    .move 102 100 8, .ret [102]]
def post : Prog := #[.op "sel" [0] [1] [] false false, .jtab "jt" [1] [2, 4], .op "call h" [0] [2] [1, 3] true true, .jmp 5,
                     .move 2 0 8, .ret [2]]
def cert : Cert := #[[⟨0, 0, [(0, 100)]⟩], [⟨1, 0, [(1, 101), (0, 100)]⟩], [⟨2, 0, [(0, 100)]⟩], [⟨3, 0, [(2, 102)]⟩], [⟨4, 0, [(0, 100)]⟩],
                     [⟨5, 0, [(2, 102)]⟩]]
end ExampleCfg

example : validate (fun _ => 8) ExampleCfg.pre ExampleCfg.post [100] [0] ExampleCfg.cert = true := by decide

/-! ## the rewriter's VEX -> EVEX table (regenerated from x86rapass.cpp) only renames an instruction to an EVEX form of the SAME
    operation (pairs regenerated from db/isa_x86.json: same operand encoding, prefix, opcode map, opcode, tail, operand kinds) -/

theorem rewriter_rows_are_siblings :
    AsmjitVerif.Gen.rewriterRows.all (fun r => AsmjitVerif.Gen.vexEvexPairs.contains r) = true := by decide

/-- non-vacuity: the table is not empty and a wrong renaming is not a sibling -/
example : AsmjitVerif.Gen.rewriterRows.length ≥ 8 ∧ AsmjitVerif.Gen.vexEvexPairs.contains ("vpandn", "vpandd") = false := by decide

end AsmjitVerif.RAIR
