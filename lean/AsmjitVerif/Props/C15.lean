/-
C15 - allocation failure yields an error: never a crash, leak or wrong code.

Model: Model/Fault.lean (the allocating operations of CodeHolder, embed_label_delta's expression branch, grow_buffer,
ArenaVector append/reserve, String append - every allocation request decided by a universally quantified oracle).
Spec: Spec/Fault.lean (`specStep`: the failure-free meaning on the observable state; `runGood`: monitor of workload runs).

Proved here, for EVERY oracle `o` (every pattern of failing requests), every state and every argument:
* `fail_atomic`            an out-of-memory answer leaves the observable state exactly as it was (all operations but addAddr)
* `addAddr_fail_partial`   add_address_to_address_table: unchanged, or only the (empty) address table section was created
* `ensureAddrTab_view`     what `ensure_address_table_section()` can leave behind
* `reserve_gives_room`, `reserve_ok_has_room`   the capacity obtained by `reserve_additional(n)` - under any oracle - holds the
                           `n` items appended unchecked afterwards (the reserve-then-append discipline)
* `reserve_fail_keeps`     a failed reservation keeps the capacity and consumed exactly one injected failure
* `no_fault_no_oom_partial` without an injected failure new_label_id / vector append never answer out of memory

FULL-STRENGTH statements NOT proved yet (they are judged on every run by the monitor instead: `Driver/C15 m` replays the real
code's answers against `specStep`, and the model is compared with the real code line by line):
  `answer_refines_spec : step op o s = (o', s', e) → e ≠ .oom → (s'.v, e) = specStep op s.v`  (every answer other than
  out-of-memory is exactly the failure-free effect, under any oracle),
  `runRetry_eq_specRun : (runRetry ops o s).1.v = (specRun ops s.v).1 ∧ (runRetry ops o s).2 = (specRun ops s.v).2` (repeating
  failed calls converges to the failure-free history, for every history and oracle; an instance is checked by `decide` below),
  `never_corrupt : (run ops o St.init).1.corrupt = false` (the driver prints CORRUPT if the model ever sets the flag).
-/
import AsmjitVerif.Lemmas.Fault
namespace AsmjitVerif.Fault
open AsmjitVerif

/-- the operations whose failure is atomic -/
def Op.atomic : Op → Bool
  | .addAddr _ => false
  | _ => true

/-- `fail_atomic`: for every fault pattern, an operation answered `kOutOfMemory` has not changed anything a client can observe -/
theorem fail_atomic (op : Op) (o o' : Oracle) (s s' : St) (hop : op.atomic = true)
    (h : step op o s = (o', s', .oom)) : s'.v = s.v := by
  cases op <;> simp only [step] at h
  case newSection n a r => exact newSection_oom _ _ _ _ _ _ _ h
  case newLabel => exact newLabel_oom _ _ _ _ h
  case newNamed n t p => exact newNamed_oom _ _ _ _ _ _ _ h
  case newReloc t => exact newReloc_oom _ _ _ _ _ h
  case exprReloc => exact exprReloc_oom _ _ _ _ h
  case newFixup => exact newFixup_oom _ _ _ _ h
  case freeFixup => exact freeFixup_oom _ _ _ _ h
  case addAddr a => simp [Op.atomic] at hop
  case emit a b => exact emit_oom _ _ _ _ _ _ h
  case vappend x => exact vappend_oom _ _ _ _ _ h
  case vreserve n => exact vreserve_oom _ _ _ _ _ h
  case sappend n c => exact sappend_oom _ _ _ _ _ _ h

/-- the view after `ensure_address_table_section()` succeeded -/
def withAddrTab (v : View) : View :=
  { commitSection v [46, 97, 100, 100, 114, 116, 97, 98] 8 2147483647 with addrTab := some v.sections.length }

/-- what `ensure_address_table_section()` leaves behind: nothing new, or exactly the new empty section -/
theorem ensureAddrTab_view (o : Oracle) (s : St) :
    (ensureAddrTab o s).2.1.v = s.v ∨ (s.v.addrTab = none ∧ (ensureAddrTab o s).2.1.v = withAddrTab s.v) := by
  unfold ensureAddrTab
  split
  · left; rfl
  · rename_i hat
    generalize hns : newSection o s _ 8 2147483647 = r
    obtain ⟨o1, s1, e⟩ := r
    unfold ensureTail
    by_cases he : e = .ok
    · subst he
      right
      refine ⟨hat, ?_⟩
      have hv : s1.v = commitSection s.v [46, 97, 100, 100, 114, 116, 97, 98] 8 2147483647 := by
        unfold newSection at hns
        repeat' split at hns
        all_goals (first | (cases hns; done) | (cases hns; rfl) | skip)
      simp [withAddrTab, hv]
    · left
      simp only [he, if_false]
      unfold newSection at hns
      repeat' split at hns
      all_goals (first | (cases hns; rfl) | (cases hns; simp at he) | skip)

/-- `addAddr_fail_partial`: a failed `add_address_to_address_table` either changed nothing or created only the address
table section (no entry, virtual size 0) - and only when there was none before -/
theorem addAddr_fail_partial (a : Nat) (o o' : Oracle) (s s' : St)
    (h : addAddr o s a = (o', s', .oom)) : s'.v = s.v ∨ (s.v.addrTab = none ∧ s'.v = withAddrTab s.v) := by
  unfold addAddr at h
  split at h
  · cases h
  · have hv := ensureAddrTab_view o s
    generalize ensureAddrTab o s = r at h hv
    obtain ⟨o1, s1, oid⟩ := r
    unfold addAddrTail at h
    simp only at h hv
    repeat' split at h
    all_goals (first | (cases h; done) | (cases h; exact hv) | skip)

end AsmjitVerif.Fault

namespace AsmjitVerif.Fault
open AsmjitVerif

/-- `reserve_gives_room`: the capacity `reserve_additional(n)` obtains holds `size + n` items, so the `append_unchecked`
calls that follow it (the reserve-then-append discipline of codeholder.cpp / builder.cpp) stay inside the allocation -/
theorem reserve_gives_room (size n item : Nat) (hi : 0 < item) (hn : 0 < n)
    (hb : (size + n) * item + Vector.kGrowThreshold < Arena.u64) : size + n ≤ growCap size n item :=
  growCap_ge size n item hi hn hb

/-- `reserve_ok_has_room`: whenever `reserveAdd` reports success, under ANY oracle, the capacity it returns has room for the
`n` items (either it already had, or it was grown) -/
theorem reserve_ok_has_room (o o1 : Oracle) (size cap n item c : Nat) (hi : 0 < item) (hn : 0 < n) (hsc : size ≤ cap)
    (hb : (size + n) * item + Vector.kGrowThreshold < Arena.u64)
    (h : reserveAdd o size cap n item = (o1, c, true)) : size + n ≤ c := by
  rcases reserveAdd_cases o size cap n item with ⟨h1, hlt⟩ | ⟨o2, _, h1, _⟩ | ⟨o2, _, h1, _⟩
  · rw [h1] at h; cases h; omega
  · rw [h1] at h; cases h
  · rw [h1] at h; cases h; exact growCap_ge size n item hi hn hb

/-- `reserve_fail_keeps`: a failed reservation keeps the old capacity and consumed exactly one injected failure -/
theorem reserve_fail_keeps (o o1 : Oracle) (size cap n item c : Nat)
    (h : reserveAdd o size cap n item = (o1, c, false)) : c = cap ∧ faults o1 < faults o := by
  rcases reserveAdd_cases o size cap n item with ⟨h1, _⟩ | ⟨o2, hr, h1, _⟩ | ⟨o2, _, h1, _⟩
  · rw [h1] at h; cases h
  · rw [h1] at h; cases h; exact ⟨rfl, req_true_faults _ _ hr⟩
  · rw [h1] at h; cases h

theorem reserveAdd_nil (size cap n item : Nat) :
    (reserveAdd [] size cap n item).2.2 = true ∧ (reserveAdd [] size cap n item).1 = [] := by
  unfold reserveAdd; split <;> simp [req]

/-- `no_fault_no_oom_partial`: with no failure injected (`o = []`) `new_label_id` and `ArenaVector::append` never answer
out of memory - an out-of-memory answer is always caused by a failed request.  (Full statement: for every operation;
proved here for these two, monitored for the rest: `runGood` demands `fired > 0` for every reported error.) -/
theorem no_fault_no_oom_partial (s : St) : (newLabel [] s).2.2 ≠ .oom ∧ ∀ x, (vappend [] s x).2.2 ≠ .oom := by
  constructor
  · unfold newLabel
    have := reserveAdd_nil s.v.labels.length s.c.labCap 1 16
    generalize reserveAdd [] s.v.labels.length s.c.labCap 1 16 = r at this ⊢
    obtain ⟨o1, c1, b⟩ := r
    simp only at this
    obtain ⟨rfl, rfl⟩ := this
    simp
  · intro x
    unfold vappend
    have := reserveAdd_nil s.v.vec.length s.c.vecCap 1 4
    generalize reserveAdd [] s.v.vec.length s.c.vecCap 1 4 = r at this ⊢
    obtain ⟨o1, c1, b⟩ := r
    simp only at this
    obtain ⟨rfl, rfl⟩ := this
    simp

-- non-vacuity: concrete fault patterns on the initial state
/-- the only request of this `new_section` (the Section object; both vectors still have room) fails -/
example : (newSection [true] St.init [46, 98] 8 0).2.2 = .oom ∧
    (newSection [true] St.init [46, 98] 8 0).2.1.v = St.init.v := by decide
example : (step (.newLabel) [true] St.init).2.2 = .oom ∧ (step (.newLabel) [] St.init).2.2 = .ok := by decide
/-- a failed `add_address` that already created the section: exactly the partial state of `addAddr_fail_partial` -/
example : (addAddr [false, true] St.init 0x1234).2.2 = .oom ∧
    (addAddr [false, true] St.init 0x1234).2.1.v = withAddrTab St.init.v := by decide
set_option maxRecDepth 100000 in
/-- a tolerated failure: the rehash of the label hash table fails, the label is created all the same -/
example : (step (.newNamed [97] 2 0xFFFFFFFF) [false, false, true]
            (step (.newNamed [98] 2 0xFFFFFFFF) [] St.init).2.1).2.2 = .ok := by decide
/-- the retry protocol ends with the failure-free view -/
example : (runRetry [.newLabel, .newSection [46, 98] 8 0, .vappend 7] [true, false, true, true] St.init).1.v =
    (specRun [.newLabel, .newSection [46, 98] 8 0, .vappend 7] St.init.v).1 := by decide

end AsmjitVerif.Fault
