/-
C15 - allocation failure yields an error: never a crash, leak or wrong code.

Model: Model/Fault.lean (the allocating operations of CodeHolder, embed_label_delta's expression branch, grow_buffer / embed
with the section BYTES, ArenaVector append/reserve, String append - every allocation request decided by a universally
quantified oracle).  Spec: Spec/Fault.lean (`specStep`: the failure-free meaning on the observable state incl. the bytes;
`runGood`: monitor of workload runs).  Helper lemmas: Lemmas/Fault*.lean.

Proved here, for EVERY oracle `o` (every pattern of failing requests), every state, every argument, every history:
* `fail_atomic`, `fail_atomic_exact`  an out-of-memory answer leaves the observable state exactly as it was; the only
                            exception is add_address_to_address_table, which may have created exactly the empty `.addrtab`
                            section (stated exactly: `withAddrTab`)
* `answer_refines_spec`     every answer other than out-of-memory is exactly the failure-free effect and answer
* `oom_consumes_fault`, `no_fault_no_oom`   failures are only consumed; an out-of-memory answer consumed one; without a pending
                            failure no operation answers out of memory
* `retry_converges`, `runRetry_eq_specRun`  repeating each failed call until it is answered otherwise ends - for every
                            history and every oracle - in exactly the failure-free history: same answers, same final
                            observable state (sections with their bytes, labels, relocations, address table, vector, string)
* `never_corrupt`           after every prefix of every history under every oracle the component invariant holds: every
                            capacity covers its size, every section buffer has room for its bytes, and no `append_unchecked`
                            / buffer write ever ran without room (histories of total weight < 2^40, far beyond memory)
* `reserve_gives_room`, `reserve_ok_has_room`, `reserve_fail_keeps`   the reserve-then-append discipline of one reservation
Round 3 (second part of this file), again for every oracle:
* `pool_add_nofault_is_c19`, `pool_add_fail_atomic`, `pool_add_retry_equal`   `ConstPool::add` (repaired order, Model/FaultPool):
                            with no failure it IS C19's `ConstPool.add` (C19's theorems are about it); an add answered out of
                            memory changed nothing at all; repeating it with memory available is C19's add on the old pool
* `hash_insert_any_oracle`, `hash_rehash_refused_degrades`, `hash_insert_nofault_is_c18`   `ArenaHash::_insert/_rehash`
* `bits_resize_fail_atomic`, `bits_resize_nofault_is_c18`   `ArenaBitSet::_resize`
* `new_block_fail_atomic`, `jit_add_fail_atomic`, `jit_add_ok`   `JitAllocator_new_block` (plain and dual mapping) and
                            `JitRuntime::_add` as resource models: a failure leaves no mapping / descriptor / record / span behind
Round 4: the operations `inst` (plain x86 instruction: `ensure_space(16)` + bytes) and `jmpf` (jump to an unbound label:
`ensure_space`, `new_fixup`, `E9 00000000`) are part of `Op` - every theorem of the first part covers them; and BaseBuilder
(Model/FaultBuilder: `_emit` with inline comment, `new_label`, `bind`/`label_node_of`, `align`, `embed`, `embed_label`, `comment`):
* `builder_fail_atomic_exact`  an out-of-memory answer left the node list untouched; a failed `new_label()` may have used up
                            exactly one label id of the CodeHolder
* `builder_answer_refines_spec`  any other answer is the failure-free effect (tolerance: an inline comment that cannot be
                            duplicated is dropped, the instruction node is still added)
* `builder_oom_consumes_fault`, `builder_never_corrupt`
Round 5: BaseCompiler (Model/FaultCompiler: `new_virt_reg`, `add_func` = `new_func_node` + linking, `invoke`, `_emit`, `end_func`):
`compiler_fail_atomic_exact` (nodes, cursor, registers, open function untouched; only `add_func` may use up label ids, at most
two), `compiler_answer_refines_spec` (tolerance: a long register name that cannot be copied is dropped),
`compiler_oom_consumes_fault`, `compiler_never_corrupt`; and `JitAllocator::alloc` on C09's allocator model (Model/FaultJit):
`jit_alloc_nofault_is_c09`, `jit_alloc_fail_atomic` (no resource left, no block inserted, every block keeps bit vectors /
accounting / flags, pools and counters untouched).
-/
import AsmjitVerif.Lemmas.FaultInv
import AsmjitVerif.Lemmas.FaultPool
import AsmjitVerif.Lemmas.FaultMore
import AsmjitVerif.Lemmas.FaultBuilder
import AsmjitVerif.Lemmas.FaultCompiler
import AsmjitVerif.Lemmas.FaultJit
import AsmjitVerif.Lemmas.FaultArena
namespace AsmjitVerif.Fault
open AsmjitVerif

/-- `fail_atomic`: for every fault pattern, an operation answered `kOutOfMemory` has not changed anything a client can observe
(all operations except `add_address_to_address_table`, see `fail_atomic_exact`) -/
theorem fail_atomic (op : Op) (o o' : Oracle) (s s' : St) (hop : op.atomic = true)
    (h : step op o s = (o', s', .oom)) : s'.v = s.v :=
  step_oom_atomic op o o' s s' hop h

/-- `fail_atomic_exact`: EVERY operation answered `kOutOfMemory` left the observable state as it was, except that a failed
`add_address_to_address_table(a)` (for a new address, when no address table existed) may have created exactly the empty
address table section: name `.addrtab`, alignment 8, order INT32_MAX, no bytes, virtual size 0, registered as the table -/
theorem fail_atomic_exact (op : Op) (o o' : Oracle) (s s' : St) (h : step op o s = (o', s', .oom)) :
    s'.v = s.v ∨ ∃ a, op = .addAddr a ∧ s.v.addrTab = none ∧ ¬ a ∈ s.v.addrs ∧ s'.v = withAddrTab s.v :=
  step_oom_mid op s.v o o' s s' (Or.inl rfl) h

/-- `answer_refines_spec`: under any oracle, an answer other than out-of-memory is exactly the failure-free effect -/
theorem answer_refines_spec (op : Op) (o o' : Oracle) (s s' : St) (e : Err) (h : step op o s = (o', s', e)) (he : e ≠ .oom) :
    (s'.v, e) = specStep op s.v :=
  step_ref op o o' s s' e h he

/-- `oom_consumes_fault`: an operation only consumes pending failures, and an out-of-memory answer consumed at least one -/
theorem oom_consumes_fault (op : Op) (o o' : Oracle) (s s' : St) (e : Err) (h : step op o s = (o', s', e)) :
    faults o' ≤ faults o ∧ (e = .oom → faults o' < faults o) :=
  step_faults op o o' s s' e h

/-- `no_fault_no_oom`: when no failure is pending no operation answers out of memory -/
theorem no_fault_no_oom (op : Op) (o o' : Oracle) (s s' : St) (e : Err) (hf : faults o = 0)
    (h : step op o s = (o', s', e)) : e ≠ .oom := by
  intro he
  have := (step_faults op o o' s s' e h).2 he
  omega

/-- `retry_converges`: repeating a failed call (memory may fail again: the oracle goes on) until it is answered otherwise
yields exactly the failure-free answer and effect -/
theorem retry_converges (op : Op) (o o' : Oracle) (s s' : St) (e : Err) (h : retry o.length op o s = (o', s', e)) :
    e ≠ .oom ∧ (s'.v, e) = specStep op s.v :=
  retry_spec o.length op s.v o o' s s' e (Or.inl rfl) (faults_le_length o) h

/-- `runRetry_eq_specRun`: for every history and every fault oracle, the retry protocol ends in the failure-free history: the
same answers and the same final observable state (which contains the bytes of every section) -/
theorem runRetry_eq_specRun : ∀ (ops : List Op) (o : Oracle) (s : St),
    (runRetry ops o s).1.v = (specRun ops s.v).1 ∧ (runRetry ops o s).2 = (specRun ops s.v).2
  | [], o, s => by simp [runRetry, specRun]
  | op :: rest, o, s => by
    unfold runRetry specRun
    generalize hr : retry o.length op o s = r
    obtain ⟨o1, s1, e⟩ := r
    have hc := retry_converges op o o1 s s1 e hr
    have ih := runRetry_eq_specRun rest o1 s1
    rw [← hc.2]
    simp only
    exact ⟨ih.1, by rw [ih.2]⟩

/-- `never_corrupt`: after every prefix of every history, under every oracle, the component invariant holds - capacities
cover sizes, every buffer has room for its bytes, the `corrupt` flag (an unchecked append / write without room) is never set -/
theorem never_corrupt (ops pre : List Op) (o : Oracle) (hpre : pre <+: ops) (hw : 1 + totalWeight ops ≤ 2 ^ 40) :
    Inv (run pre o St.init).1 ∧ (run pre o St.init).1.corrupt = false := by
  obtain ⟨t, rfl⟩ := hpre
  have hI := run_inv pre o St.init 1 init_inv.1 init_inv.2 (by rw [totalWeight_append] at hw; omega)
  exact ⟨hI, hI.1.1⟩

/-- `reserve_gives_room`: the capacity `reserve_additional(n)` obtains holds `size + n` items -/
theorem reserve_gives_room (size n item : Nat) (hi : 0 < item) (hn : 0 < n)
    (hb : (size + n) * item + Vector.kGrowThreshold < Arena.u64) : size + n ≤ growCap size n item :=
  growCap_ge size n item hi hn hb

/-- `reserve_ok_has_room`: whenever `reserveAdd` reports success, under ANY oracle, the capacity it returns has room -/
theorem reserve_ok_has_room (o o1 : Oracle) (size cap n item c : Nat) (hi : 0 < item) (hn : 0 < n) (hsc : size ≤ cap)
    (hb : (size + n) * item + Vector.kGrowThreshold < Arena.u64)
    (h : reserveAdd o size cap n item = (o1, c, true)) : size + n ≤ c :=
  reserve_room o o1 size cap n item c h hi hn hsc hb

/-- `reserve_fail_keeps`: a failed reservation keeps the old capacity and consumed exactly one injected failure -/
theorem reserve_fail_keeps (o o1 : Oracle) (size cap n item c : Nat)
    (h : reserveAdd o size cap n item = (o1, c, false)) : c = cap ∧ faults o1 < faults o := by
  rcases reserveAdd_cases o size cap n item with ⟨h1, _⟩ | ⟨o2, hr, h1, _⟩ | ⟨o2, _, h1, _⟩
  · rw [h1] at h; cases h
  · rw [h1] at h; cases h; exact ⟨rfl, req_true_faults _ _ hr⟩
  · rw [h1] at h; cases h

/-! ## ConstPool::add, ArenaHash, ArenaBitSet, JitAllocator blocks under the oracle -/

/-- `pool_add_nofault_is_c19`: with the oracle that never fails `addF` is exactly C19's `ConstPool.add` -/
theorem pool_add_nofault_is_c19 (s : FaultPool.FPool) (data : ConstPool.Bytes) :
    (FaultPool.addF [] s data).1 = [] ∧ (FaultPool.addF [] s data).2.1.p = (ConstPool.add s.p data).1 ∧
    (FaultPool.addF [] s data).2.2 = FaultPool.ofResult (ConstPool.add s.p data).2 :=
  FaultPool.addF_nofault s data

/-- `pool_add_fail_atomic`: under every oracle an add answered out of memory changed nothing (trees, gaps, size, alignment,
gap free list) and consumed an injected failure -/
theorem pool_add_fail_atomic (o o' : Oracle) (s s' : FaultPool.FPool) (data : ConstPool.Bytes)
    (h : FaultPool.addF o s data = (o', s', .oom)) : s' = s ∧ faults o' < faults o :=
  ⟨FaultPool.addF_fail_atomic o o' s s' data h, FaultPool.addF_oom_consumes o o' s s' data h⟩

/-- `pool_add_retry_equal`: repeating a failed add once memory is available gives exactly what C19's add gives on the pool
before the failure: same pool, same offset -/
theorem pool_add_retry_equal (o o' : Oracle) (s s' : FaultPool.FPool) (data : ConstPool.Bytes)
    (h : FaultPool.addF o s data = (o', s', .oom)) :
    (FaultPool.addF [] s' data).2.1.p = (ConstPool.add s.p data).1 ∧
    (FaultPool.addF [] s' data).2.2 = FaultPool.ofResult (ConstPool.add s.p data).2 := by
  rw [FaultPool.addF_fail_atomic o o' s s' data h]
  exact (FaultPool.addF_nofault s data).2

/-- `hash_insert_any_oracle`: whatever the oracle answers to the rehash request, `_insert` keeps every node reachable and adds
exactly the node -/
theorem hash_insert_any_oracle (o : Oracle) (a : Arena.State) (t : Hash.Table) (n : Hash.Node) (hw : Hash.WF t)
    (hh : n.hash < 2 ^ 32) (hfresh : n.uid ∉ (Hash.allNodes t).map Hash.Node.uid) :
    Hash.WF (FaultMore.hashInsertF o a t n).2.2.1 ∧
    (Hash.allNodes (FaultMore.hashInsertF o a t n).2.2.1).Perm (n :: Hash.allNodes t) :=
  FaultMore.hashInsertF_spec o a t n hw hh hfresh

/-- `hash_rehash_refused_degrades`: a refused rehash leaves the linked table and the arena as they are -/
theorem hash_rehash_refused_degrades (o : Oracle) (a : Arena.State) (t : Hash.Table) (n : Hash.Node)
    (h : (FaultMore.hashInsertF o a t n).2.2.2 = true) :
    (FaultMore.hashInsertF o a t n).2.2.1 = FaultMore.hashLink t n ∧ (FaultMore.hashInsertF o a t n).2.1 = a ∧
    faults (FaultMore.hashInsertF o a t n).1 < faults o :=
  FaultMore.hashInsertF_refused o a t n h

theorem hash_insert_nofault_is_c18 (a : Arena.State) (t : Hash.Table) (n : Hash.Node) :
    (FaultMore.hashInsertF [] a t n).1 = [] ∧
    ((FaultMore.hashInsertF [] a t n).2.1, (FaultMore.hashInsertF [] a t n).2.2.1) = Hash.insert a t n ∧
    (FaultMore.hashInsertF [] a t n).2.2.2 = false :=
  FaultMore.hashInsertF_nofault a t n

/-- `bits_resize_fail_atomic`: a `_resize` whose arena request is refused answers kOutOfMemory with arena and bit set untouched -/
theorem bits_resize_fail_atomic (o o1 : Oracle) (a : Arena.State) (b : Bits.BitSet) (newSize ideal : Nat) (v : Bool)
    (hn : FaultMore.bitsNeedsAlloc b newSize ideal = true) (hr : req o = (true, o1)) :
    FaultMore.bitsResizeF o a b newSize ideal v = (o1, some (a, b, .oom)) :=
  FaultMore.bitsResizeF_fail_atomic o o1 a b newSize ideal v hn hr

theorem bits_resize_nofault_is_c18 (a : Arena.State) (b : Bits.BitSet) (newSize ideal : Nat) (v : Bool) :
    FaultMore.bitsResizeF [] a b newSize ideal v = ([], Bits.resizeI a b newSize ideal v) :=
  FaultMore.bitsResizeF_nofault a b newSize ideal v

/-- `new_block_fail_atomic`: a failed `JitAllocator_new_block` (plain or dual mapping, any failing request) leaves no mapping,
descriptor or record behind; a successful one owns exactly its mappings and its record -/
theorem new_block_fail_atomic (dual : Bool) (o : Oracle) (r : FaultMore.Res) :
    ((FaultMore.newBlockF dual o r).2.2 = false →
      (FaultMore.newBlockF dual o r).2.1 = r ∧ faults (FaultMore.newBlockF dual o r).1 < faults o) ∧
    ((FaultMore.newBlockF dual o r).2.2 = true →
      (FaultMore.newBlockF dual o r).2.1 = { r with maps := r.maps + (if dual then 2 else 1), heap := r.heap + 1 }) :=
  FaultMore.newBlockF_spec dual o r

/-- `jit_add_fail_atomic`: a failed `JitRuntime::_add` holds no span and no stray resource -/
theorem jit_add_fail_atomic (dual needBlock relocAllocs : Bool) (o : Oracle) (r : FaultMore.Res) (spans : Nat)
    (h : (FaultMore.jitAddF dual needBlock relocAllocs o r spans).2.2.2 = false) :
    (FaultMore.jitAddF dual needBlock relocAllocs o r spans).2.2.1 = spans ∧
    ((FaultMore.jitAddF dual needBlock relocAllocs o r spans).2.1 = r ∨
     (needBlock = true ∧ (FaultMore.jitAddF dual needBlock relocAllocs o r spans).2.1 =
        { r with maps := r.maps + (if dual then 2 else 1), heap := r.heap + 1 })) :=
  FaultMore.jitAddF_fail dual needBlock relocAllocs o r spans h

theorem jit_add_ok (dual needBlock relocAllocs : Bool) (o : Oracle) (r : FaultMore.Res) (spans : Nat)
    (h : (FaultMore.jitAddF dual needBlock relocAllocs o r spans).2.2.2 = true) :
    (FaultMore.jitAddF dual needBlock relocAllocs o r spans).2.2.1 = spans + 1 :=
  FaultMore.jitAddF_ok dual needBlock relocAllocs o r spans h

/-! ## the arena under a per-request heap oracle (C18's model) -/

/-- `arena_safe_any_heap_oracle`: every history of alloc_oneshot / alloc_reusable / free_reusable / reset in which EACH operation
may or may not get memory from the heap keeps the arena invariant and C18's `safe` (live regions aligned, inside their blocks,
pairwise disjoint, dynamic blocks registered) - C18's `arena_safe` fixes one heap limit for the whole history -/
theorem arena_safe_any_heap_oracle (minBlock staticSize mallocMax : Nat) (ops : List (Arena.AOp × Bool)) :
    Arena.Inv (FaultArena.runF ops (Arena.init minBlock staticSize mallocMax, [])).1
              (FaultArena.runF ops (Arena.init minBlock staticSize mallocMax, [])).2 ∧
    Arena.safe (FaultArena.runF ops (Arena.init minBlock staticSize mallocMax, [])).1
               (FaultArena.runF ops (Arena.init minBlock staticSize mallocMax, [])).2 = true :=
  FaultArena.arena_safe_any_heap_oracle minBlock staticSize mallocMax ops

/-- `arena_reusable_fail_frontier`: when `alloc_reusable` answers null - the leftover of the current block was handed to the
size-class lists and the heap then refused the new block - everything owned (client regions and pooled pieces, the leftover
included) lies below the bump frontier: `alloc_oneshot` cannot hand the pooled leftover out a second time -/
theorem arena_reusable_fail_frontier {s : Arena.State} {live : Arena.Live} (hI : Arena.Inv s live) (size : Nat)
    (s' : Arena.State) (asz : Nat) (h : Arena.allocReusable s size = (s', none, asz)) :
    Arena.Inv s' live ∧ ∀ pos off sz, (Arena.Loc.managed pos off, sz) ∈ Arena.owned s' live →
      off + sz ≤ s'.blocks.getD pos 0 ∧ (pos < s'.cur ∨ (pos = s'.cur ∧ off + sz ≤ s'.ptr)) :=
  FaultArena.reusable_fail_frontier hI size s' asz h

/-- 24 bytes are left, a 100-byte pooled request needs the 128-byte class, the heap refuses the new block: null, one 16-byte
piece was pooled at offset 1000 and `_ptr` moved past it -/
example : (Arena.allocReusable { blocks := [1024], ptr := 1000, mallocMax := 0 } 100).2.1 = none ∧
    (Arena.allocReusable { blocks := [1024], ptr := 1000, mallocMax := 0 } 100).1.ptr = 1016 ∧
    (Arena.allocReusable { blocks := [1024], ptr := 1000, mallocMax := 0 } 100).1.slots.getD 0 [] = [Arena.Loc.managed 0 1000] := by decide

/-! ## BaseBuilder -/

/-- `builder_fail_atomic_exact`: under every oracle a Builder call answered out of memory left the node list untouched.  What
else may have changed, exactly: a failed `new_label()` may have used up one label id of the CodeHolder; a failed `_emit` has
CLEARED the emitter's one-shot state (extra register = `{k}` write mask / REP count, instruction options, inline comment) -
exactly the one-shot state a successful `_emit` leaves (`builder_emit_clears_like_success`) -/
theorem builder_fail_atomic_exact (op : FaultBuilder.BOp) (o o' : Oracle) (s s' : FaultBuilder.BSt)
    (h : FaultBuilder.bstep op o s = (o', s', .oom)) :
    s'.v = s.v ∨ (op = .newLabel ∧ s'.v = { s.v with labelCount := s.v.labelCount + 1 }) ∨
    (∃ k, op = .emit k ∧ s'.v = FaultBuilder.clearOneShot s.v) :=
  FaultBuilder.bstep_oom_exact op o o' s s' h

/-- the one-shot state after a successful `_emit` is the cleared one: the failed call and the successful call differ only in
the node -/
theorem builder_emit_clears_like_success (k : Nat) (v : FaultBuilder.BView) :
    (FaultBuilder.bspec (.emit k) v).1 =
      { FaultBuilder.clearOneShot v with nodes := v.nodes ++ [.inst k v.pendExtra v.pendOpts v.pendCmt] } := rfl

/-- `builder_failed_emit_leaves_no_mask`: after an `_emit` answered out of memory - whatever mask / REP register / options /
comment it carried - the NEXT instruction is emitted exactly as the failure-free run of the remaining calls emits it: no extra
register, no options, no comment of the failed call; the node list before it is the one before the failed call -/
theorem builder_failed_emit_leaves_no_mask (k j : Nat) (o o' : Oracle) (s s' : FaultBuilder.BSt)
    (h : FaultBuilder.bstep (.emit k) o s = (o', s', .oom)) :
    (FaultBuilder.bspec (.emit j) s'.v).1 =
      { FaultBuilder.clearOneShot s.v with nodes := s.v.nodes ++ [.inst j 0 0 false] } := by
  rcases FaultBuilder.bstep_oom_exact _ _ _ _ _ h with h1 | ⟨h1, _⟩ | ⟨k', _, h1⟩
  · have := FaultBuilder.emit_oom o o' s s' k (by simpa [FaultBuilder.bstep] using h)
    rw [this]; rfl
  · cases h1
  · rw [h1]; rfl

/-- `builder_answer_refines_spec`: an answer other than out of memory is the failure-free answer and effect, except that an
inline comment that cannot be duplicated is dropped (the node keeps its extra register and options) -/
theorem builder_answer_refines_spec (op : FaultBuilder.BOp) (o o' : Oracle) (s s' : FaultBuilder.BSt) (e : Err)
    (h : FaultBuilder.bstep op o s = (o', s', e)) (he : e ≠ .oom) :
    (s'.v, e) = FaultBuilder.bspec op s.v ∨
    (∃ k, op = .emit k ∧ s.v.pendCmt = true ∧ e = .ok ∧
      s'.v = { FaultBuilder.clearOneShot s.v with nodes := s.v.nodes ++ [.inst k s.v.pendExtra s.v.pendOpts false] }) :=
  FaultBuilder.bstep_ref op o o' s s' e h he

theorem builder_oom_consumes_fault (op : FaultBuilder.BOp) (o o' : Oracle) (s s' : FaultBuilder.BSt) (e : Err)
    (h : FaultBuilder.bstep op o s = (o', s', e)) : faults o' ≤ faults o ∧ (e = .oom → faults o' < faults o) :=
  FaultBuilder.bstep_faults op o o' s s' e h

/-- `builder_never_corrupt`: after every history of Builder calls under every oracle, `_label_entries` and `_label_nodes` have
room for what they hold and no unchecked append / resize ran without room -/
theorem builder_never_corrupt (ops : List FaultBuilder.BOp) (o : Oracle) (hlen : ops.length ≤ 2 ^ 39) :
    FaultBuilder.BInv (FaultBuilder.brun ops o {}).1 :=
  FaultBuilder.brun_binv ops o {} (by unfold FaultBuilder.BInv; decide) (by simp; omega)

/-- a failed `new_label()` that used up a label id; a dropped inline comment -/
example : (FaultBuilder.bstep .newLabel [false, true] {}).2.2 = .oom ∧ (FaultBuilder.bstep .newLabel [false, true] {}).2.1.v.labelCount = 1 := by decide
/-- a masked instruction (`k(k1)`) whose node cannot be allocated: out of memory and the mask is gone -/
example : (FaultBuilder.bstep (.emit 4) [true] { v := { pendExtra := 1, pendOpts := 2, pendCmt := true }, c := {} }).2.1.v = ({} : FaultBuilder.BView) := by decide
example : (FaultBuilder.bstep (.emit 1) [false, true] { v := { pendCmt := true }, c := {} }).2.1.v.nodes = [.section 0, .inst 1 0 0 false] := by decide

/-! ## BaseCompiler -/

/-- `compiler_fail_atomic_exact`: a Compiler call answered out of memory left nodes, cursor, registers and the open function
untouched, and no one-shot state (extra register, options) of the failed call pending (`afterFail`: cleared by `_emit`,
`add_func`, `invoke`); only `add_func` may have used up label ids, at most two -/
theorem compiler_fail_atomic_exact (op : FaultCompiler.COp) (o o' : Oracle) (s s' : FaultCompiler.CSt)
    (h : FaultCompiler.cstep op o s = (o', s', .oom)) :
    FaultCompiler.shape s'.v = FaultCompiler.shape (FaultCompiler.afterFail op s.v) ∧ s.v.labelCount ≤ s'.v.labelCount ∧
    s'.v.labelCount ≤ s.v.labelCount + 2 ∧ ((∀ n, op ≠ .addFunc n) → s'.v = FaultCompiler.afterFail op s.v) :=
  FaultCompiler.cstep_oom_exact op o o' s s' h

theorem compiler_answer_refines_spec (op : FaultCompiler.COp) (o o' : Oracle) (s s' : FaultCompiler.CSt) (e : Err)
    (h : FaultCompiler.cstep op o s = (o', s', e)) (he : e ≠ .oom) :
    (s'.v, e) = FaultCompiler.cspec op s.v ∨
    (op = .newReg true ∧ e = .ok ∧ s'.v = { s.v with regs := s.v.regs ++ [false] }) :=
  FaultCompiler.cstep_ref op o o' s s' e h he

theorem compiler_oom_consumes_fault (op : FaultCompiler.COp) (o o' : Oracle) (s s' : FaultCompiler.CSt) (e : Err)
    (h : FaultCompiler.cstep op o s = (o', s', e)) : faults o' ≤ faults o ∧ (e = .oom → faults o' < faults o) :=
  FaultCompiler.cstep_faults op o o' s s' e h

theorem compiler_never_corrupt (ops : List FaultCompiler.COp) (o : Oracle) (hlen : ops.length ≤ 2 ^ 38) :
    FaultCompiler.CInv (FaultCompiler.crun ops o {}).1 :=
  FaultCompiler.crun_inv ops o {} (by unfold FaultCompiler.CInv; decide) (by simp; omega) (by simp; omega)

/-- a failed `add_func` whose exit label was registered (its `_label_nodes.resize_grow` failed): one label id used up, no node -/
example : (FaultCompiler.cstep (.addFunc 2) [false, false, false, true] {}).2.2 = .oom ∧
    (FaultCompiler.cstep (.addFunc 2) [false, false, false, true] {}).2.1.v = { ({} : FaultCompiler.CView) with labelCount := 1 } := by decide

/-! ## JitAllocator::alloc on C09's model -/

theorem jit_alloc_nofault_is_c09 (a : JitAlloc.Alloc) (res : FaultMore.Res) (reqSize : Nat) :
    (FaultJit.allocF [] a res reqSize).1 = [] ∧
    ((FaultJit.allocF [] a res reqSize).2.1, (FaultJit.allocF [] a res reqSize).2.2.2) = a.alloc reqSize :=
  FaultJit.allocF_nofault a res reqSize

/-- `jit_alloc_fail_atomic`: `alloc` answered kOutOfMemory because the new block could not be obtained: no resource is left, no
block was inserted, every block keeps its bit vectors, accounting and flags, pools / counters / ids are untouched -/
theorem jit_alloc_fail_atomic (o o' : Oracle) (a a' : JitAlloc.Alloc) (res res' : FaultMore.Res) (reqSize : Nat)
    (h : FaultJit.allocF o a res reqSize = (o', a', res', .error JitAlloc.Err.OutOfMemory)) :
    res' = res ∧ a'.blocks.map FaultJit.core = a.blocks.map FaultJit.core ∧ a'.pools = a.pools ∧
    a'.allocCount = a.allocCount ∧ a'.nextId = a.nextId ∧ a'.cfg = a.cfg ∧ faults o' < faults o :=
  FaultJit.allocF_fail_atomic o o' a a' res res' reqSize h

-- non-vacuity
/-- the second mmap of a dual-mapped block fails: nothing is left (the first mapping is unmapped, the descriptor closed) -/
example : FaultMore.newBlockF true [false, false, false, true] {} = ([], {}, false) := by decide
example : (FaultMore.newBlockF true [] {}).2.1 = { maps := 2, fds := 0, heap := 1 } := by decide
/-- relocation fails after a new block was mapped for the span: no span, the block is owned by the allocator -/
example : FaultMore.jitAddF false true true [false, false, true] {} 0 = ([], { maps := 1, fds := 0, heap := 1 }, 0, false) := by decide
/-- a failed node request of ConstPool::add, then the repetition -/
example : (FaultPool.addF [true] {} [1#8, 2#8]).2.2 = .oom ∧ (FaultPool.addF [] {} [1#8, 2#8]).2.2 = .ok 0 := by decide

-- non-vacuity: concrete fault patterns on the initial state
/-- the only request of this `new_section` (the Section object; both vectors still have room) fails -/
example : (newSection [true] St.init [46, 98] 8 0).2.2 = .oom ∧
    (newSection [true] St.init [46, 98] 8 0).2.1.v = St.init.v := by decide
example : (step (.newLabel) [true] St.init).2.2 = .oom ∧ (step (.newLabel) [] St.init).2.2 = .ok := by decide
/-- a failed `add_address` that already created the section: exactly the partial state of `addAddr_fail_partial` -/
example : (addAddr [false, true] St.init 0x1234).2.2 = .oom ∧
    (addAddr [false, true] St.init 0x1234).2.1.v = withAddrTab St.init.v := by decide
set_option maxRecDepth 100000 in
/-- a tolerated failure: the rehash of the label hash table fails, the label is created all the same -/
example : (step (.newNamed [97] 2 0xFFFFFFFF) [false, false, true]
            (step (.newNamed [98] 2 0xFFFFFFFF) [] St.init).2.1).2.2 = .ok := by decide
/-- the retry protocol ends with the failure-free view -/
example : (runRetry [.newLabel, .newSection [46, 98] 8 0, .vappend 7] [true, false, true, true] St.init).1.v =
    (specRun [.newLabel, .newSection [46, 98] 8 0, .vappend 7] St.init.v).1 := by decide

end AsmjitVerif.Fault
