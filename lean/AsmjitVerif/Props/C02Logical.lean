/-
C02, end-to-end for kEncodingBaseLogical with an immediate (and / ands / orr / eor / bic / bics  Rd, Rn, #bitmask): every
accepted instruction is judged `full` over the database forms.  The immediate side is C17's `logical_sound64/32`
(`encode_logical_imm` decodes back through the Arm ARM `DecodeBitMasks`), the field side is bit-blasted here.
-/
import AsmjitVerif.Props.C02MemOff
import AsmjitVerif.Props.C02Mov
namespace AsmjitVerif.C02
open AsmjitVerif.A64 AsmjitVerif.A64Asm AsmjitVerif.A64Spec AsmjitVerif.A64Imm AsmjitVerif.Gen.A64Tables

theorem logical_fields (opc x n r s rd rn mask value : BitVec 32)
    (hc : opc &&& 0x807FFFFF#32 = 0#32) (hm : mask &&& 0x007FFFFF#32 = 0#32) (hv : (opc ||| (x <<< 31)) &&& mask = value)
    (hn : n.ult 2#32 = true) (hr : r.ult 64#32 = true) (hs : s.ult 64#32 = true)
    (h0 : rd.ult 32#32 = true) (h1 : rn.ult 32#32 = true) :
    (opc ||| (x <<< 31) ||| (n <<< 22) ||| (r <<< 16) ||| (s <<< 10) ||| (rn <<< 5) ||| (rd <<< 0)) &&& mask = value ∧
    ((opc ||| (x <<< 31) ||| (n <<< 22) ||| (r <<< 16) ||| (s <<< 10) ||| (rn <<< 5) ||| (rd <<< 0)) >>> 0) &&& 31#32 = rd ∧
    ((opc ||| (x <<< 31) ||| (n <<< 22) ||| (r <<< 16) ||| (s <<< 10) ||| (rn <<< 5) ||| (rd <<< 0)) >>> 5) &&& 31#32 = rn ∧
    ((opc ||| (x <<< 31) ||| (n <<< 22) ||| (r <<< 16) ||| (s <<< 10) ||| (rn <<< 5) ||| (rd <<< 0)) >>> 10) &&& 8191#32 =
      (n <<< 12) ||| (r <<< 6) ||| s := by
  bv_decide

theorem imm13_parts (n r s : BitVec 32) (hn : n.ult 2#32 = true) (hr : r.ult 64#32 = true) (hs : s.ult 64#32 = true) :
    ((((n <<< 12) ||| (r <<< 6) ||| s) >>> 12) &&& 1#32 = n) ∧ ((((n <<< 12) ||| (r <<< 6) ||| s) >>> 6) &&& 63#32 = r) ∧
    ((((n <<< 12) ||| (r <<< 6) ||| s) >>> 0) &&& 63#32 = s) := by
  bv_decide

/-- the value the spec compares the decoded mask with -/
def logicalWant (name : String) (b64 : Bool) (v : BitVec 64) : BitVec 64 :=
  let want := if b64 then v else v &&& 0xFFFFFFFF#64
  if name == "bic" || name == "bics" then (if b64 then ~~~want else (~~~want) &&& 0xFFFFFFFF#64) else want

theorem matchOp_logical (c : Ctx) (b64 : Bool) (v : BitVec 64) (p : Nat) (rest : List Operand) (n r s : BitVec 32)
    (hn : n.ult 2#32 = true) (hr : r.ult 64#32 = true) (hs : s.ult 64#32 = true)
    (hget : c.get "imm" = some ((n <<< 12) ||| (r <<< 6) ||| s).toNat)
    (hdec : (if b64 then decodeBitMasks (n == 1#32) (s.truncate 6) (r.truncate 6)
             else decodeBitMasks32 (n == 1#32) (s.truncate 6) (r.truncate 6)) = some (logicalWant c.name b64 v)) :
    matchOp c (.logical "imm" b64) (.imm v p :: rest) = some rest := by
  obtain ⟨p1, p2, p3⟩ := imm13_parts n r s hn hr hs
  generalize hE : ((n <<< 12) ||| (r <<< 6) ||| s) = E at *
  have e1 : (E.toNat >>> 12) % 2 = n.toNat := by
    have := toNat_fieldN E 12 1 (by decide); rw [show BitVec.ofNat 32 (2 ^ 1 - 1) = 1#32 from rfl, p1] at this; simpa using this
  have e2 : (E.toNat >>> 6) % 64 = r.toNat := by
    have := toNat_fieldN E 6 6 (by decide); rw [show BitVec.ofNat 32 (2 ^ 6 - 1) = 63#32 from rfl, p2] at this; simpa using this
  have e3 : E.toNat % 64 = s.toNat := by
    have := toNat_fieldN E 0 6 (by decide); rw [show BitVec.ofNat 32 (2 ^ 6 - 1) = 63#32 from rfl, p3] at this; simpa using this
  have hn1 : (n.toNat == 1) = (n == 1#32) := by
    by_cases h : n = 1#32
    · rw [h]; decide
    · have : n.toNat ≠ 1 := fun hh => h (BitVec.eq_of_toNat_eq (by simpa using hh))
      rw [show (n.toNat == 1) = false from by simpa using this, show (n == 1#32) = false from by simpa using h]
  simp only [matchOp, hget, e1, e2, e3, ofNat6_toNat, hn1]
  unfold logicalWant at hdec
  simp only [] at hdec
  simp [hdec]

def isLogicalImmForm (f : Form) (wd : GpW) (spd : Bool) (b64 : Bool) (opcx : BitVec 32) : Bool :=
  f.ops == [.gp wd "Rd" spd, .gp wd "Rn" false, .logical "imm" b64] &&
  f.fields.filter (·.name == "Rd") == [⟨"Rd", [⟨0, 0, 5⟩]⟩] &&
  f.fields.filter (·.name == "Rn") == [⟨"Rn", [⟨5, 0, 5⟩]⟩] &&
  f.fields.filter (·.name == "imm") == [⟨"imm", [⟨10, 0, 13⟩]⟩] &&
  f.freeFields.isEmpty && decide (f.mask < 2 ^ 32) && decide (f.value < 2 ^ 32) &&
  (BitVec.ofNat 32 f.mask &&& 0x007FFFFF#32 == 0#32) && (opcx &&& BitVec.ofNat 32 f.mask == BitVec.ofNat 32 f.value)

theorem logical_imm_describes (f : Form) (wd : GpW) (spd b64 : Bool) (opc x : BitVec 32) (o0 o1 : Reg) (v : BitVec 64) (p : Nat)
    (e : LogicalImm) (pc : BitVec 64)
    (hf : isLogicalImmForm f wd spd b64 (opc ||| (x <<< 31)) = true) (hc : opc &&& 0x807FFFFF#32 = 0#32)
    (h0 : gpOk wd spd o0) (h1 : gpOk wd false o1)
    (hn : e.n.ult 2#32 = true) (hr : e.r.ult 64#32 = true) (hs : e.s.ult 64#32 = true)
    (hdec : (if b64 then decodeBitMasks (e.n == 1#32) (e.s.truncate 6) (e.r.truncate 6)
             else decodeBitMasks32 (e.n == 1#32) (e.s.truncate 6) (e.r.truncate 6)) = some (logicalWant f.name b64 v)) :
    describes f [.reg o0, .reg o1, .imm v p] pc
      (opc ||| (x <<< 31) ||| (e.n <<< 22) ||| (e.r <<< 16) ||| (e.s <<< 10) ||| (BitVec.ofNat 32 (o1.id % 32) <<< 5) |||
       (BitVec.ofNat 32 (o0.id % 32) <<< 0)) = true := by
  simp only [isLogicalImmForm, Bool.and_eq_true, beq_iff_eq, decide_eq_true_eq] at hf
  obtain ⟨⟨⟨⟨⟨⟨⟨⟨hops, hRd⟩, hRn⟩, hIm⟩, _hfree⟩, hmlt⟩, hvlt⟩, hm⟩, hv⟩ := hf
  obtain ⟨k1, k2, k3, k4⟩ := logical_fields opc x e.n e.r e.s (BitVec.ofNat 32 (o0.id % 32)) (BitVec.ofNat 32 (o1.id % 32))
    (BitVec.ofNat 32 f.mask) (BitVec.ofNat 32 f.value) hc hm hv hn hr hs (ofNat_mod32_ult _) (ofNat_mod32_ult _)
  generalize hw' : (opc ||| (x <<< 31) ||| (e.n <<< 22) ||| (e.r <<< 16) ||| (e.s <<< 10) ||| (BitVec.ofNat 32 (o1.id % 32) <<< 5) |||
       (BitVec.ofNat 32 (o0.id % 32) <<< 0)) = w at *
  have t : w.toNat &&& f.mask = f.value := by
    rw [toNat_and_mask w f.mask hmlt, k1]; simp [BitVec.toNat_ofNat, Nat.mod_eq_of_lt hvlt]
  have f0 : (w.toNat >>> 0) % 2 ^ 5 = o0.id % 32 := by rw [toNat_field, k2, ofNat_mod32_toNat]
  have f5 : (w.toNat >>> 5) % 2 ^ 5 = o1.id % 32 := by rw [toNat_field, k3, ofNat_mod32_toNat]
  have f10 : (w.toNat >>> 10) % 2 ^ 13 = ((e.n <<< 12) ||| (e.r <<< 6) ||| e.s).toNat := by
    rw [toNat_fieldN w 10 13 (by decide), show (BitVec.ofNat 32 (2 ^ 13 - 1)) = 8191#32 from rfl, k4]
  have g0 := ctx_get_single f.fields w.toNat pc f.name "Rd" 0 hRd
  have g5 := ctx_get_single f.fields w.toNat pc f.name "Rn" 5 hRn
  have g10 := ctx_get_one f.fields w.toNat pc f.name "imm" 10 13 hIm
  rw [f0] at g0; rw [f5] at g5; rw [f10] at g10
  have m0 := matchOp_gp _ wd "Rd" spd o0 [.reg o1, .imm v p] g0 h0
  have m1 := matchOp_gp _ wd "Rn" false o1 [.imm v p] g5 h1
  have m2 := matchOp_logical { fields := f.fields, w := w.toNat, pc := pc, name := f.name } b64 v p [] e.n e.r e.s hn hr hs g10 hdec
  simp only [describes, Form.matchesTemplate, t, hops, matchOps, m0, m1, m2]
  simp

/-- decidable per-row condition tying the instruction table to the database -/
def logicalRowOk (name : String) (d : BaseLogicalRow) : Bool :=
  let op : BitVec 32 := w32 d.immediate_op <<< 23
  let isANDS := (op &&& 0x60000000#32) == 0x60000000#32
  (op &&& 0x807FFFFF#32 == 0#32) && name != "mov" && name != "bic" && name != "bics" &&
  [(rtGp32, 0), (rtGp64, 1)].all fun tx =>
    (formsNamed name).any fun f => isLogicalImmForm f (wOfRt tx.1) (!isANDS) (tx.1 == rtGp64) (op ||| (BitVec.ofNat 32 tx.2 <<< 31))

set_option maxRecDepth 1000000 in
/-- rows with `negate_imm` (bic, bics, orn, eon with an immediate - AsmJit's inverted-immediate convenience forms) have no
database form under their own mnemonic; the monitor judges them through the alias and they are not covered here -/
theorem rows_baseLogical_imm_have_forms :
    instTable.toList.all (fun r => r.enc != encBaseLogical ||
      (match baseLogical[r.idx]? with
       | some d => d.immediate_op == 0 || d.negate_imm != 0 || logicalRowOk r.name d
       | none => false)) = true := by decide +kernel

theorem logicalImm_accepts_facts (d : BaseLogicalRow) (o0 o1 : Reg) (imm : BitVec 64) (hneg : d.negate_imm = 0) (ws : List (BitVec 32))
    (h : emitLogicalImm d o0 o1 imm = .ok ws) :
    ∃ x li, ((o0.rt = rtGp32 ∧ x = 0) ∨ (o0.rt = rtGp64 ∧ x = 1)) ∧ o0.sameSig o1 = true ∧
      encodeLogicalImm (imm &&& (if x != 0 then BitVec.allOnes 64 else 0xFFFFFFFF#64)) (if x != 0 then 64 else 32) = some li ∧
      checkGpId o0 (if ((w32 d.immediate_op <<< 23) &&& 0x60000000#32) == 0x60000000#32 then idZR else idSP) = true ∧
      checkGpId o1 idZR = true ∧
      ws = [(w32 d.immediate_op <<< 23) ||| addImm x 31 ||| (li.n <<< 22) ||| (li.r <<< 16) ||| (li.s <<< 10) ||| addReg o1.id 5 ||| addReg o0.id 0] := by
  unfold emitLogicalImm at h
  by_cases hty : (checkGpType o0 kWX && o0.sameSig o1) = true
  · simp only [hty, Bool.not_true, Bool.false_eq_true, if_false, hneg, bne_self_eq_false] at h
    simp only [Bool.and_eq_true] at hty
    have hr := gp_rt_of_check o0 kWX (by decide) hty.1
    have hx : (o0.rt = rtGp32 ∧ xOf o0 kWX = 0) ∨ (o0.rt = rtGp64 ∧ xOf o0 kWX = 1) := by
      rcases hr with a | a <;> simp [xOf, a, rtGp32, rtGp64, kWX]
    split at h
    · simp [invalidImmediate] at h
    · rename_i li hli
      by_cases hid : (!checkGpId o0 (if ((w32 d.immediate_op <<< 23) &&& 0x60000000#32) == 0x60000000#32 then idZR else idSP) ||
                      !checkGpId o1 idZR) = true
      · rw [if_pos hid] at h; simp [invalidPhysId] at h
      · rw [if_neg hid] at h
        simp only [ok1, Result.ok.injEq] at h
        simp only [Bool.or_eq_true, Bool.not_eq_true', not_or, Bool.not_eq_false] at hid
        exact ⟨xOf o0 kWX, li, hx, hty.2, hli, hid.1, hid.2, h.symm⟩
  · simp [hty, invalidInstruction] at h

theorem mem_formsNamed_name (n : String) (f : Form) (h : f ∈ formsNamed n) : f.name = n := by
  unfold formsNamed at h
  have := (List.mem_filter.mp h).2
  simpa using this

/-- **End-to-end, kEncodingBaseLogical (immediate)**: and / ands / eor / orr  Rd|SP, Rn, #bitmask -/
theorem logicalImm_end_to_end (r : InstRow) (hr : r ∈ instTable.toList) (henc : r.enc = encBaseLogical)
    (d : BaseLogicalRow) (hd : baseLogical[r.idx]? = some d) (hop : (d.immediate_op == 0) = false) (hneg : d.negate_imm = 0)
    (o0 o1 : Reg) (imm : BitVec 64) (p : Nat) (wf0 : GpWellFormed o0) (wf1 : GpWellFormed o1)
    (ws : List (BitVec 32)) (pc : BitVec 64) (h : emitLogicalImm d o0 o1 imm = .ok ws) :
    judge (formsNamed r.name) r.name [.reg o0, .reg o1, .imm imm p] pc (.ok ws) = .full := by
  have hrow := (List.all_eq_true.mp rows_baseLogical_imm_have_forms) r hr
  simp only [henc, bne_self_eq_false, Bool.false_or, hd, hop, hneg] at hrow
  obtain ⟨x, li, hcase, hsig, hli, hid0, hid1, hws⟩ := logicalImm_accepts_facts d o0 o1 imm hneg ws h
  simp only [logicalRowOk, Bool.and_eq_true, beq_iff_eq, bne_iff_ne, ne_eq] at hrow
  obtain ⟨⟨⟨⟨hclean, _⟩, hnb⟩, hnbs⟩, hall⟩ := hrow
  have hmem : (o0.rt, x) ∈ [(rtGp32, 0), (rtGp64, 1)] := by
    rcases hcase with ⟨a, b⟩ | ⟨a, b⟩ <;> simp [a, b]
  have hcombo := (List.all_eq_true.mp hall) (o0.rt, x) hmem
  rw [List.any_eq_true] at hcombo
  obtain ⟨f, hfmem, hform⟩ := hcombo
  have hfname := mem_formsNamed_name r.name f hfmem
  have hrt1 : o1.rt = o0.rt := by
    unfold Reg.sameSig at hsig; simp only [Bool.and_eq_true, beq_iff_eq] at hsig; exact hsig.1.1.1.symm
  have hgw0 : gpWidthOk (wOfRt o0.rt) o0 = true := by
    rcases hcase with ⟨a, _⟩ | ⟨a, _⟩ <;> simp [wOfRt, gpWidthOk, a, rtGp32, rtGp64]
  have hgw1 : gpWidthOk (wOfRt o0.rt) o1 = true := by
    rcases hcase with ⟨a, _⟩ | ⟨a, _⟩ <;> simp [wOfRt, gpWidthOk, a, hrt1, rtGp32, rtGp64]
  have hnum1 := checked_id_designates o1 idZR (Or.inr rfl) hid1
  rw [show (idZR == idSP) = false by decide] at hnum1
  have g1 : gpOk (wOfRt o0.rt) false o1 := ⟨hgw1, wf1.1, wf1.2, hnum1⟩
  -- destination: SP for and / orr / eor, ZR for ands
  generalize hA : (((w32 d.immediate_op <<< 23) &&& 0x60000000#32) == 0x60000000#32) = isANDS at *
  have g0 : gpOk (wOfRt o0.rt) (!isANDS) o0 := by
    cases isANDS
    · have := checked_id_designates o0 idSP (Or.inl rfl) (by simpa using hid0)
      rw [show (idSP == idSP) = true by decide] at this
      exact ⟨hgw0, wf0.1, wf0.2, this⟩
    · have := checked_id_designates o0 idZR (Or.inr rfl) (by simpa using hid0)
      rw [show (idZR == idSP) = false by decide] at this
      exact ⟨hgw0, wf0.1, wf0.2, this⟩
  -- the immediate: C17
  have hwant : ∀ b64, logicalWant f.name b64 imm = (if b64 then imm else imm &&& 0xFFFFFFFF#64) := by
    intro b64
    unfold logicalWant
    rw [hfname]
    have h1 : (r.name == "bic") = false := by simpa using hnb
    have h2 : (r.name == "bics") = false := by simpa using hnbs
    simp [h1, h2]
  have hsound : li.n.ult 2#32 = true ∧ li.r.ult 64#32 = true ∧ li.s.ult 64#32 = true ∧
      (if o0.rt == rtGp64 then decodeBitMasks (li.n == 1#32) (li.s.truncate 6) (li.r.truncate 6)
       else decodeBitMasks32 (li.n == 1#32) (li.s.truncate 6) (li.r.truncate 6)) = some (logicalWant f.name (o0.rt == rtGp64) imm) := by
    rw [hwant]
    rcases hcase with ⟨a, b⟩ | ⟨a, b⟩
    · subst b
      simp only [show ((0 : Nat) != 0) = false by decide, Bool.false_eq_true, if_false] at hli
      have hv : (imm &&& 0xFFFFFFFF#64) &&& 0xFFFFFFFF00000000#64 = 0#64 := by bv_decide
      obtain ⟨s1, s2, s3, s4, s5⟩ := logical_sound32 _ li hv hli
      refine ⟨by rw [s1]; decide, s5, s4, ?_⟩
      have h64 : (o0.rt == rtGp64) = false := by simp [a, rtGp32, rtGp64]
      simp [h64, decodeBitMasks32, decodeBitMasks, s1, s2, s3]
    · subst b
      simp only [show ((1 : Nat) != 0) = true by decide, if_true] at hli
      have hall1 : imm &&& BitVec.allOnes 64 = imm := by bv_decide
      rw [hall1] at hli
      obtain ⟨s1, s2, s3, s4, s5⟩ := logical_sound64 _ li hli
      refine ⟨s3, s5, s4, ?_⟩
      have h64 : (o0.rt == rtGp64) = true := by simp [a]
      simp [h64, decodeBitMasks, s1, s2]
  obtain ⟨sn, sr, ss, sdec⟩ := hsound
  have hdesc := logical_imm_describes f (wOfRt o0.rt) (!isANDS) (o0.rt == rtGp64) (w32 d.immediate_op <<< 23) (BitVec.ofNat 32 x) o0 o1 imm p li pc
    hform hclean g0 g1 sn sr ss sdec
  have hfull : f.isPartial = false := by
    simp only [isLogicalImmForm, Bool.and_eq_true, beq_iff_eq] at hform
    obtain ⟨⟨⟨⟨⟨⟨⟨⟨hops, _⟩, _⟩, _⟩, hfree⟩, _⟩, _⟩, _⟩, _⟩ := hform
    simp [Form.isPartial, hops, OpSpec.isPartial, hfree]
  subst hws
  apply judge_full_of_any
  · intro rr v pp hc; simp at hc
  · rw [List.any_eq_true]
    refine ⟨f, hfmem, ?_⟩
    simp only [hfull, Bool.not_false, Bool.true_and]
    simpa [addReg, addImm] using hdesc

/-! ### rows with `negate_imm`: bic / bics / orn / eon with an immediate are and / ands / orr / eor of the inverted immediate -/

/-- the negating row emits exactly what the same row without negation emits for `~imm` -/
theorem logicalImm_negate_alias (d : BaseLogicalRow) (o0 o1 : Reg) (imm : BitVec 64) (hneg : d.negate_imm ≠ 0) :
    emitLogicalImm d o0 o1 imm = emitLogicalImm { d with negate_imm := 0 } o0 o1 (~~~imm) := by
  unfold emitLogicalImm
  have h1 : (d.negate_imm != 0) = true := by simpa using hneg
  simp only [h1, if_true, bne_self_eq_false, Bool.false_eq_true, if_false]
  have e : ∀ m : BitVec 64, (imm ^^^ m) &&& m = ~~~imm &&& m := by intro m; bv_decide
  by_cases hx : (xOf o0 kWX != 0) = true <;> simp only [hx, if_true, Bool.false_eq_true, if_false, e]

/-- … and the negating rows share the opcode of their positive counterpart: bic ~ and, bics ~ ands, orn ~ orr, eon ~ eor -/
def negatePartner (name : String) : Option String :=
  match name with
  | "bic" => some "and" | "bics" => some "ands" | "orn" => some "orr" | "eon" => some "eor"
  | _ => none

def logicalNegRowOk (name : String) (d : BaseLogicalRow) : Bool :=
  match negatePartner name with
  | none => false
  | some pn =>
    instTable.toList.any fun r' => r'.name == pn && r'.enc == encBaseLogical &&
      (match baseLogical[r'.idx]? with
       | some d' => d'.immediate_op == d.immediate_op && d'.negate_imm == 0 && d'.shifted_op != d.shifted_op
       | none => false)

set_option maxRecDepth 1000000 in
theorem rows_baseLogical_negate_partner :
    instTable.toList.all (fun r => r.enc != encBaseLogical ||
      (match baseLogical[r.idx]? with
       | some d => d.immediate_op == 0 || d.negate_imm == 0 || logicalNegRowOk r.name d
       | none => false)) = true := by decide +kernel

end AsmjitVerif.C02
