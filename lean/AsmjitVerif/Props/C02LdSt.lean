/-
C02, end-to-end for `ldr / str / ldrb / … Rt, [Xn|SP, #off]` (kEncodingBaseLdSt, immediate offset without write-back):
the scaled unsigned form (OpSpec `.memOff "Rn" "offZ" false scale .fixed`) when the offset is a multiple of the access size
below 4096 * size, and otherwise the unscaled LDUR/STUR row (`rmSImm9_unscaled_end_to_end` under the alias mnemonic).
-/
import AsmjitVerif.Props.C02Logical
namespace AsmjitVerif.C02
open AsmjitVerif.A64 AsmjitVerif.A64Asm AsmjitVerif.A64Spec AsmjitVerif.Gen.A64Tables

theorem uoff_fields (opcx imm rd rn mask value : BitVec 32)
    (hc : opcx &&& 0x003FFFFF#32 = 0#32) (hm : mask &&& 0x003FFFFF#32 = 0#32) (hv : opcx &&& mask = value)
    (hi : imm.ult 4096#32 = true) (h0 : rd.ult 32#32 = true) (h1 : rn.ult 32#32 = true) :
    (opcx ||| (imm <<< 10) ||| (rd <<< 0) ||| (rn <<< 5)) &&& mask = value ∧
    ((opcx ||| (imm <<< 10) ||| (rd <<< 0) ||| (rn <<< 5)) >>> 0) &&& 31#32 = rd ∧
    ((opcx ||| (imm <<< 10) ||| (rd <<< 0) ||| (rn <<< 5)) >>> 5) &&& 31#32 = rn ∧
    ((opcx ||| (imm <<< 10) ||| (rd <<< 0) ||| (rn <<< 5)) >>> 10) &&& 4095#32 = imm := by
  bv_decide

/-- the unsigned 12-bit field times the access size is exactly the operand's offset -/
theorem uimm12_field (off : BitVec 32) (sh : Nat) (hsh : sh ≤ 4) (h1 : (off >>> sh).toNat < 4096) (h2 : (off >>> sh) <<< sh = off) :
    ((off >>> sh).toNat : Int) * ((2 ^ sh : Nat) : Int) = off.toInt := by
  have h3 := congrArg BitVec.toNat h2
  simp only [BitVec.toNat_shiftLeft, BitVec.toNat_ushiftRight, Nat.shiftLeft_eq, Nat.shiftRight_eq_div_pow] at h1 h3 ⊢
  have hlt := off.isLt
  have key : (off.toNat / 2 ^ sh) * 2 ^ sh = off.toNat ∧ off.toNat < 65536 := by
    have : sh = 0 ∨ sh = 1 ∨ sh = 2 ∨ sh = 3 ∨ sh = 4 := by omega
    rcases this with h | h | h | h | h <;> subst h <;> simp at h1 h3 ⊢ <;> omega
  have hi : off.toInt = (off.toNat : Int) := by
    rw [BitVec.toInt_eq_toNat_cond, if_pos (by omega)]
  rw [hi, ← Int.natCast_mul, key.1]

def isMemOffZForm (f : Form) (wd : GpW) (n0 : String) (scale : Nat) (opcx : BitVec 32) : Bool :=
  f.ops == [.gp wd n0 false, .memOff "Rn" "offZ" false scale .fixed] &&
  f.fields.filter (·.name == n0) == [⟨n0, [⟨0, 0, 5⟩]⟩] &&
  f.fields.filter (·.name == "Rn") == [⟨"Rn", [⟨5, 0, 5⟩]⟩] &&
  f.fields.filter (·.name == "offZ") == [⟨"offZ", [⟨10, 0, 12⟩]⟩] &&
  f.freeFields.isEmpty && decide (f.mask < 2 ^ 32) && decide (f.value < 2 ^ 32) &&
  (BitVec.ofNat 32 f.mask &&& 0x003FFFFF#32 == 0#32) && (opcx &&& BitVec.ofNat 32 f.mask == BitVec.ofNat 32 f.value)

/-- base X0..X30 / SP, no index, no write-back, offset = field * scale -/
def MemOffZOk (m : Mem) (field scale : Nat) : Prop :=
  m.baseType = rtGp64 ∧ m.baseId ≤ 31 ∧ m.indexType = 0 ∧ m.mode = 0 ∧ m.off.toInt = (field : Int) * (scale : Int)

theorem matchOp_memOffZ (c : Ctx) (m : Mem) (rest : List Operand) (field scale : Nat) (hm : MemOffZOk m field scale)
    (ho : c.get "offZ" = some field) (hb : c.get "Rn" = some (m.baseId % 32)) :
    matchOp c (.memOff "Rn" "offZ" false scale .fixed) (.mem m :: rest) = some rest := by
  obtain ⟨h1, h2, h3, h4, h5⟩ := hm
  have hg : gpNumber { rt := rtGp64, id := m.baseId } true = some (m.baseId % 32) := by
    unfold gpNumber
    by_cases hlt : m.baseId < 31
    · simp [hlt]; omega
    · have : m.baseId = 31 := by omega
      simp [this, idSP]
  simp [matchOp, ho, hb, memBaseOk, h1, h3, h4, h5, hg]

theorem memoffz_describes (f : Form) (wd : GpW) (n0 : String) (scale : Nat) (opcx imm : BitVec 32) (o0 : Reg) (m : Mem) (pc : BitVec 64)
    (hf : isMemOffZForm f wd n0 scale opcx = true) (hc : opcx &&& 0x003FFFFF#32 = 0#32) (h0 : gpOk wd false o0)
    (hi : imm.toNat < 4096) (hm : MemOffZOk m imm.toNat scale) :
    describes f [.reg o0, .mem m] pc
      (opcx ||| (imm <<< 10) ||| (BitVec.ofNat 32 (o0.id % 32) <<< 0) ||| (BitVec.ofNat 32 (m.baseId % 32) <<< 5)) = true := by
  simp only [isMemOffZForm, Bool.and_eq_true, beq_iff_eq, decide_eq_true_eq] at hf
  obtain ⟨⟨⟨⟨⟨⟨⟨⟨hops, hR0⟩, hRn⟩, hOf⟩, _hfree⟩, hmlt⟩, hvlt⟩, hmk⟩, hv⟩ := hf
  have hiu : imm.ult 4096#32 = true := by simp [BitVec.ult]; omega
  obtain ⟨k1, k2, k3, k4⟩ := uoff_fields opcx imm (BitVec.ofNat 32 (o0.id % 32)) (BitVec.ofNat 32 (m.baseId % 32))
    (BitVec.ofNat 32 f.mask) (BitVec.ofNat 32 f.value) hc hmk hv hiu (ofNat_mod32_ult _) (ofNat_mod32_ult _)
  generalize hw' : (opcx ||| (imm <<< 10) ||| (BitVec.ofNat 32 (o0.id % 32) <<< 0) ||| (BitVec.ofNat 32 (m.baseId % 32) <<< 5)) = w at *
  have t : w.toNat &&& f.mask = f.value := by
    rw [toNat_and_mask w f.mask hmlt, k1]; simp [BitVec.toNat_ofNat, Nat.mod_eq_of_lt hvlt]
  have f0 : (w.toNat >>> 0) % 2 ^ 5 = o0.id % 32 := by rw [toNat_field, k2, ofNat_mod32_toNat]
  have f5 : (w.toNat >>> 5) % 2 ^ 5 = m.baseId % 32 := by rw [toNat_field, k3, ofNat_mod32_toNat]
  have f10 : (w.toNat >>> 10) % 2 ^ 12 = imm.toNat := by
    rw [toNat_fieldN w 10 12 (by decide), show (BitVec.ofNat 32 (2 ^ 12 - 1)) = 4095#32 from rfl, k4]
  have g0 := ctx_get_single f.fields w.toNat pc f.name n0 0 hR0
  have g5 := ctx_get_single f.fields w.toNat pc f.name "Rn" 5 hRn
  have g10 := ctx_get_one f.fields w.toNat pc f.name "offZ" 10 12 hOf
  rw [f0] at g0; rw [f5] at g5; rw [f10] at g10
  have m0 := matchOp_gp _ wd n0 false o0 [.mem m] g0 h0
  have m1 := matchOp_memOffZ { fields := f.fields, w := w.toNat, pc := pc, name := f.name } m [] imm.toNat scale hm g10 g5
  simp only [describes, Form.matchesTemplate, t, hops, matchOps, m0, m1]
  simp

/-- the shift the model applies to the offset: log2 of the access size (the W/X selection of `ldr/str` adds one) -/
def ldStShift (d : BaseLdStRow) (x : Nat) : Nat := d.u_offset_shift + (x &&& (if d.u_offset_shift == 2 then 1 else 0))

def ldStRowOk (name : String) (d : BaseLdStRow) : Bool :=
  decide (d.reg_type ≤ 3) && name != "mov" &&
  [rtGp32, rtGp64].all fun rt =>
    !checkGpType { rt := rt, id := 0 } d.reg_type ||
    (let x := xOf { rt := rt, id := 0 } d.reg_type
     let opcx := (w32 d.u_offset_op <<< 22) ^^^ addImm x d.x_offset
     decide (ldStShift d x ≤ 4) && (opcx &&& 0x003FFFFF#32 == 0#32) &&
     (formsNamed name).any fun f => ["Rd", "Rs", "Rt"].any fun n0 => isMemOffZForm f (wOfRt rt) n0 (2 ^ ldStShift d x) opcx)

set_option maxRecDepth 1000000 in
theorem rows_baseLdSt_scaled_have_forms :
    instTable.toList.all (fun r => r.enc != encBaseLdSt ||
      (match baseLdSt[r.idx]? with
       | some d => ldStRowOk r.name d
       | none => false)) = true := by decide +kernel

/-- whether the scaled unsigned form can hold the offset (the model's - and the source's - decision) -/
def ldStScaledOk (off : BitVec 32) (sh : Nat) : Prop := (off >>> sh).toNat < 4096 ∧ (off >>> sh) <<< sh = off

theorem ldSt_scaled_accepts_facts (d : BaseLdStRow) (o0 : Reg) (mo : Operand) (m : Mem) (pos : Nat)
    (hb : m.baseType = rtGp64) (hi : m.indexType = 0) (hmode : m.mode = 0)
    (hsc : ldStScaledOk m.off (ldStShift d (xOf o0 d.reg_type))) (ws : List (BitVec 32))
    (h : emitLdSt d o0 mo (viewOf m) pos = .ok ws) :
    checkGpType o0 d.reg_type = true ∧ checkGpId o0 idZR = true ∧ m.baseId ≤ 31 ∧
    ws = [((w32 d.u_offset_op <<< 22) ^^^ addImm (xOf o0 d.reg_type) d.x_offset) |||
          ((m.off >>> ldStShift d (xOf o0 d.reg_type)) <<< 10) ||| addReg o0.id 0 ||| addReg m.baseId 5] := by
  unfold emitLdSt at h
  by_cases h1 : checkGpType o0 d.reg_type = true
  · by_cases h2 : checkGpId o0 idZR = true
    · simp only [h1, h2, Bool.not_true, Bool.false_eq_true, if_false] at h
      by_cases h3 : checkMemBaseIndexRel (viewOf m) = true
      · have hbr : (viewOf m).hasBaseReg = true := by simp [viewOf, MemView.hasBaseReg, hb, rtGp64, rtLabel]
        have hix : (viewOf m).hasIndex = false := by simp [viewOf, MemView.hasIndex, hi]
        simp only [h3, hbr, hix, Bool.not_true, Bool.false_eq_true, if_false, if_true] at h
        simp only [show (viewOf m).mode = 0 from hmode, show (viewOf m).off32 = m.off from rfl] at h
        obtain ⟨s1, s2⟩ := hsc
        unfold ldStShift at s1 s2 ⊢
        generalize d.u_offset_shift + (xOf o0 d.reg_type &&& if (d.u_offset_shift == 2) = true then 1 else 0) = sh at h s1 s2 ⊢
        have hd1 : decide ((m.off >>> sh).toNat < 4096) = true := decide_eq_true s1
        have hd2 : (m.off >>> sh <<< sh != m.off) = false := by rw [s2]; simp
        rw [if_neg (by decide), hd1, hd2] at h
        simp only [Bool.not_true, Bool.or_self, Bool.false_eq_true, if_false] at h
        unfold tailMemBase at h
        split at h
        · simp [invalidAddress] at h
        · rename_i hcb
          simp only [ok1, Result.ok.injEq] at h
          simp [checkMemBase] at hcb
          refine ⟨h1, h2, ?_, ?_⟩
          · have := hcb.2; simpa [viewOf] using this
          · rw [← h]; rfl
      · simp [h3, invalidAddress] at h
    · simp [h1, h2, invalidPhysId] at h
  · simp [h1, invalidInstruction] at h

/-- **End-to-end, kEncodingBaseLdSt, scaled unsigned offset** -/
theorem ldSt_scaled_end_to_end (r : InstRow) (hr : r ∈ instTable.toList) (henc : r.enc = encBaseLdSt)
    (d : BaseLdStRow) (hd : baseLdSt[r.idx]? = some d) (o0 : Reg) (mo : Operand) (m : Mem) (pos : Nat)
    (hb : m.baseType = rtGp64) (hi : m.indexType = 0) (hmode : m.mode = 0)
    (hsc : ldStScaledOk m.off (ldStShift d (xOf o0 d.reg_type)))
    (wf0 : GpWellFormed o0) (ws : List (BitVec 32)) (pc : BitVec 64)
    (h : emitLdSt d o0 mo (viewOf m) pos = .ok ws) :
    judge (formsNamed r.name) r.name [.reg o0, .mem m] pc (.ok ws) = .full := by
  have hrow := (List.all_eq_true.mp rows_baseLdSt_scaled_have_forms) r hr
  simp only [henc, bne_self_eq_false, Bool.false_or, hd] at hrow
  obtain ⟨hty, hid, hbid, hws⟩ := ldSt_scaled_accepts_facts d o0 mo m pos hb hi hmode hsc ws h
  simp only [ldStRowOk, Bool.and_eq_true, beq_iff_eq, decide_eq_true_eq] at hrow
  obtain ⟨⟨hty3, _⟩, hall⟩ := hrow
  have hrt := gp_rt_of_check o0 d.reg_type hty3 hty
  have hmem : o0.rt ∈ [rtGp32, rtGp64] := by rcases hrt with a | a <;> simp [a]
  have hcombo := (List.all_eq_true.mp hall) o0.rt hmem
  have hck : checkGpType { rt := o0.rt, id := 0 } d.reg_type = true := by simpa [checkGpType] using hty
  have hx : xOf { rt := o0.rt, id := 0 } d.reg_type = xOf o0 d.reg_type := by simp [xOf]
  simp only [hck, Bool.not_true, Bool.false_or, hx, Bool.and_eq_true, beq_iff_eq, decide_eq_true_eq] at hcombo
  obtain ⟨⟨hsh4, hclean⟩, hany⟩ := hcombo
  rw [List.any_eq_true] at hany
  obtain ⟨f, hfmem, hn⟩ := hany
  rw [List.any_eq_true] at hn
  obtain ⟨n0, _, hform⟩ := hn
  have g0 : gpOk (wOfRt o0.rt) false o0 := by
    have := gpOk_of_checks o0 d.reg_type idZR hty3 (Or.inr rfl) wf0 hty hid
    rw [show (idZR == idSP) = false by decide] at this
    exact this
  obtain ⟨s1, s2⟩ := hsc
  have hmo : MemOffZOk m (m.off >>> ldStShift d (xOf o0 d.reg_type)).toNat (2 ^ ldStShift d (xOf o0 d.reg_type)) :=
    ⟨hb, hbid, hi, hmode, (uimm12_field m.off _ hsh4 s1 s2).symm⟩
  have hdesc := memoffz_describes f (wOfRt o0.rt) n0 _ _ (m.off >>> ldStShift d (xOf o0 d.reg_type)) o0 m pc hform hclean g0 s1 hmo
  have hfull : f.isPartial = false := by
    simp only [isMemOffZForm, Bool.and_eq_true, beq_iff_eq] at hform
    obtain ⟨⟨⟨⟨⟨⟨⟨⟨hops, _⟩, _⟩, _⟩, hfree⟩, _⟩, _⟩, _⟩, _⟩ := hform
    simp [Form.isPartial, hops, OpSpec.isPartial, hfree]
  subst hws
  apply judge_full_of_any
  · intro rr v pp hc; simp at hc
  · rw [List.any_eq_true]
    refine ⟨f, hfmem, ?_⟩
    simp only [hfull, Bool.not_false, Bool.true_and]
    simpa [addReg, addImm] using hdesc

/-! ### the other side of the decision: the unscaled LDUR/STUR row -/

def ldStAltOk (name : String) (d : BaseLdStRow) : Bool :=
  match instTable[d.u_alt_inst_id]? with
  | some r' =>
    r'.enc == encBaseRM_SImm9 && unscaledAlias name == some r'.name &&
    (match baseRM_SImm9[r'.idx]? with
     | some d9 => d9.imm_shift == 0 && d9.reg_hi_id == idZR
     | none => false)
  | none => false

set_option maxRecDepth 1000000 in
theorem rows_baseLdSt_alt :
    instTable.toList.all (fun r => r.enc != encBaseLdSt ||
      (match baseLdSt[r.idx]? with
       | some d => ldStAltOk r.name d
       | none => false)) = true := by decide +kernel

theorem ldSt_ok_prechecks (d : BaseLdStRow) (o0 : Reg) (mo : Operand) (mv : MemView) (pos : Nat) (ws : List (BitVec 32))
    (h : emitLdSt d o0 mo mv pos = .ok ws) :
    checkGpType o0 d.reg_type = true ∧ checkGpId o0 idZR = true ∧ checkMemBaseIndexRel mv = true := by
  unfold emitLdSt at h
  by_cases h1 : checkGpType o0 d.reg_type = true
  · by_cases h2 : checkGpId o0 idZR = true
    · by_cases h3 : checkMemBaseIndexRel mv = true
      · exact ⟨h1, h2, h3⟩
      · simp [h1, h2, h3, invalidAddress] at h
    · simp [h1, h2, invalidPhysId] at h
  · simp [h1, invalidInstruction] at h

set_option maxRecDepth 100000 in
/-- **End-to-end, kEncodingBaseLdSt, offset the scaled form cannot hold**: the word is the unscaled alias' (`ldur`, `stur`, …) and is
judged `full` over the alias' forms - this is how the monitor looks it up (`unscaledAlias`). -/
theorem ldSt_unscaled_end_to_end (r : InstRow) (hr : r ∈ instTable.toList) (henc : r.enc = encBaseLdSt)
    (d : BaseLdStRow) (hd : baseLdSt[r.idx]? = some d) (o0 : Reg) (mo : Operand) (m : Mem) (pos : Nat)
    (hb : m.baseType = rtGp64) (hi : m.indexType = 0) (hmode : m.mode = 0)
    (hns : ¬ ldStScaledOk m.off (ldStShift d (xOf o0 d.reg_type)))
    (wf0 : GpWellFormed o0) (ws : List (BitVec 32)) (pc : BitVec 64)
    (h : emitLdSt d o0 mo (viewOf m) pos = .ok ws) :
    ∃ alias, unscaledAlias r.name = some alias ∧ judge (formsNamed alias) alias [.reg o0, .mem m] pc (.ok ws) = .full := by
  have hrow := (List.all_eq_true.mp rows_baseLdSt_alt) r hr
  simp only [henc, bne_self_eq_false, Bool.false_or, hd] at hrow
  unfold ldStAltOk at hrow
  obtain ⟨hty, hid, hrel⟩ := ldSt_ok_prechecks d o0 mo (viewOf m) pos ws h
  have hbr : (viewOf m).hasBaseReg = true := by simp [viewOf, MemView.hasBaseReg, hb, rtGp64, rtLabel]
  have hix : (viewOf m).hasIndex = false := by simp [viewOf, MemView.hasIndex, hi]
  have hns' : (let sh := d.u_offset_shift + (xOf o0 d.reg_type &&& (if d.u_offset_shift == 2 then 1 else 0))
               ¬(((viewOf m).off32 >>> sh).toNat < 4096 ∧ ((viewOf m).off32 >>> sh) <<< sh = (viewOf m).off32)) := by
    intro sh
    unfold ldStScaledOk ldStShift at hns
    rw [show (viewOf m).off32 = m.off from rfl]
    exact hns
  have hmode' : (viewOf m).mode = 0 := hmode
  have heq := ldSt_fallback_eq d o0 mo (viewOf m) pos hty hid hrel hbr hix hmode' hns'
  rw [heq] at h
  cases hr' : instTable[d.u_alt_inst_id]? with
  | none => rw [hr'] at hrow; cases hrow
  | some r' =>
    rw [hr'] at hrow h
    simp only [Bool.and_eq_true, beq_iff_eq] at hrow h
    obtain ⟨⟨henc', halias⟩, hrow9⟩ := hrow
    cases hd9 : baseRM_SImm9[r'.idx]? with
    | none => rw [hd9] at hrow9; cases hrow9
    | some d9 =>
      rw [hd9] at hrow9 h
      simp only [Bool.and_eq_true, beq_iff_eq] at hrow9 h
      have hmem' : r' ∈ instTable.toList := Array.mem_toList_iff.mpr (Array.mem_of_getElem? hr')
      exact ⟨r'.name, halias, rmSImm9_unscaled_end_to_end r' hmem' henc' d9 hd9 hrow9.1 hrow9.2 (by simp [memOffRelaxed]) o0 m hmode wf0 ws pc h⟩

end AsmjitVerif.C02
