/-
C01 property theorems, LEGACY classes with a memory operand, table layer: `front_cls_correct_{lrm,lmr,lrmi}_mem` - for EVERY regenerated
(row, form) pair of the classes ExtRm / ExtRm_P / X86Rm / X86Rm_NoSize ([reg, MEM]), X86Mr / X86Mr_NoSize ([MEM, reg]) and ExtRmi / ExtRmi_P
([reg, MEM, imm8]) whose r/m operand has a memory alternative, ALL register numbers 0..15 and every address form with an `AddrFormL`
instance (here: `seg:[base + disp]`, 64- or 32-bit base, ALL displacements), the bytes `EmitX86M` writes satisfy the monitor.
-/
import AsmjitVerif.Props.C01FrontLegMem
import AsmjitVerif.Props.C01RowsMem
import AsmjitVerif.Props.C01RowsArith
set_option linter.constructorNameAsVariable false
set_option linter.unusedSimpArgs false
set_option linter.unusedVariables false
set_option maxRecDepth 100000
namespace AsmjitVerif.Props.C01
open Spec.X86 Model.X86 AsmjitVerif.Lemmas.X86Parse AsmjitVerif.Gen.X86ClassRows

/-- the opcode word the legacy class hands to `EmitX86M`: like `finalOpLeg`, but the `_P` classes look at the register operand only -/
def finalOpLegM (e : Entry) : BitVec 32 :=
  let k0 := e.kinds.getD 0 .none
  if e.enc == 0x4D || e.enc == 0x53 then e.mainOp ||| ((if isXmmKind k0 then 1#32 else 0#32) <<< 21) else finalOpLeg e

def legRuleMOk (r : Rule) (nimm pp : Nat) : Bool :=
  r.modes &&& 2 != 0 && (r.space == 0 && (r.pp &&& 8 == 0 && (((r.pp &&& 1 != 0 || r.osz == 16) == (pp == 1)) && (((r.pp &&& 2 != 0) == (pp == 2)) &&
  (((r.pp &&& 4 != 0) == (pp == 3)) && (pp < 4 && (!r.ri && ((r.modKind == 1 || r.modKind == 3) && (r.modr == 8 && (r.modrm == 8 &&
  (r.immBytes == nimm && (r.relBytes == 0 && (!r.moff && (!r.a67 && !r.immRev))))))))))))))

theorem legRuleMOk_spec (r : Rule) (n pp : Nat) (h : legRuleMOk r n pp = true) : LegRuleM r n pp ∧ (r.modes &&& 2 != 0) = true := by
  simp only [legRuleMOk, Bool.and_eq_true, Bool.or_eq_true, beq_iff_eq, bne_iff_ne, ne_eq, Bool.not_eq_true', decide_eq_true_eq] at h
  obtain ⟨hmodes, hs, hpp8, h66, hF3, hF2, hpplt, hri, hmk, hmr, hmrm, himm, hrel, hmoff, ha67, hrev⟩ := h
  exact ⟨⟨hs, hpp8, by simpa using h66, by simpa using hF3, by simpa using hF2, hpplt, hri, hmk, hmr, hmrm, himm, hrel, hmoff, ha67, hrev⟩, by simpa using hmodes⟩

def legCoreM (e : Entry) (nimm : Nat) : Bool :=
  legRuleMOk e.rule nimm ((finalOpLegM e >>> 21) &&& 3#32).toNat && (legAgreeOk e.rule (finalOpLegM e) && finalOpLegM e &&& 0xF780FC00#32 == 0#32)

def entryOkLrmMem (e : Entry) : Bool :=
  match e.rule.ops, e.kinds with
  | [f0, f1], [k0, _] =>
    !anyMemAlt f1 ||
    ((e.enc == 0x4A || e.enc == 0x4D || e.enc == 0x14 || e.enc == 0x16 || e.enc == 0x21 || e.enc == 0x56 || e.enc == 0x2c) && (legCoreM e 0 &&
    (f0.role == .reg && (f1.role == .rm && (plainKind k0 && (noFix f0 && formOpMatches e.rule.oszEff f0 (.reg k0 0)))))))
  | _, _ => false

def entryOkLmrMem (e : Entry) : Bool :=
  match e.rule.ops, e.kinds with
  | [f0, f1], [_, k1] =>
    !anyMemAlt f0 ||
    ((e.enc == 0x17 || e.enc == 0x18 || e.enc == 0x56 || e.enc == 0x2c) && (legCoreM e 0 &&
    (f0.role == .rm && (f1.role == .reg && (plainKind k1 && (noFix f1 && formOpMatches e.rule.oszEff f1 (.reg k1 0)))))))
  | _, _ => false

def entryOkLrmiMem (e : Entry) : Bool :=
  match e.rule.ops, e.kinds with
  | [f0, f1, f3], [k0, _] =>
    !anyMemAlt f1 ||
    ((e.enc == 0x52 || e.enc == 0x53) && (legCoreM e 1 &&
    (f0.role == .reg && (f1.role == .rm && (f3.role == .imm && (immBitsOf f3 == 8 && (!(immSignOf f3 == 1) && (plainKind k0 && (noFix f0 &&
      formOpMatches e.rule.oszEff f0 (.reg k0 0))))))))))
  | _, _ => false

theorem lrm_mem_entries_ok : lrmChunks.all (fun c => c.all entryOkLrmMem) = true := by decide +kernel
theorem lmr_mem_entries_ok : lmrChunks.all (fun c => c.all entryOkLmrMem) = true := by decide +kernel
theorem lrmi_mem_entries_ok : lrmiChunks.all (fun c => c.all entryOkLrmiMem) = true := by decide +kernel

theorem legCoreM_spec (e : Entry) (n : Nat) (h : legCoreM e n = true) :
    LegRuleM e.rule n ((finalOpLegM e >>> 21) &&& 3#32).toNat ∧ (e.rule.modes &&& 2 != 0) = true ∧ LegAgree e.rule (finalOpLegM e) ∧
    finalOpLegM e &&& 0xF780FC00#32 = 0#32 := by
  simp only [legCoreM, Bool.and_eq_true, beq_iff_eq] at h
  obtain ⟨hR, hA, hm⟩ := h
  obtain ⟨R, hmode⟩ := legRuleMOk_spec _ _ _ hR
  exact ⟨R, hmode, (legAgreeOk_spec _ _ hA).1, hm⟩

/-- **front_cls_correct with a memory operand, legacy classes ExtRm / ExtRm_P / X86Rm / X86Rm_NoSize / `imul reg, mem`**: `reg, MEM` -/
theorem front_cls_correct_lrm_mem (e : Entry) (ch : List Entry) (hch : ch ∈ lrmChunks) (he : e ∈ ch)
    (c : Model.X86.Ctx) (ctx : Spec.X86.Ctx) (r0 xb : BitVec 32) (size : Nat) (m : Mem) (mo : MemOp) (pfx : List (BitVec 8))
    (mb : BitVec 32 → BitVec 8) (sib : Option (BitVec 8)) (ds : List (BitVec 8))
    (AF : AddrFormL c ctx m mo pfx xb mb sib ds) (hsize : mo.size = size) (hm64 : ctx.mode64 = true) (h0 : r0 < 16#32)
    (hsz : ∀ f1, e.rule.ops[1]? = some f1 → hasMemAlt f1 size = true) :
    ∃ bytes k0 k1, e.kinds = [k0, k1] ∧ emitX86M c (finalOpLegM e) 0#32 r0 m 0 0 = .ok bytes ∧
      formOk ctx e.rule [.reg k0 r0.toNat, .mem mo] {} bytes = true := by
  have hok := mem_chunks_ok lrm_mem_entries_ok e ch hch he
  unfold entryOkLrmMem at hok
  split at hok
  · rename_i f0 f1 k0 k1 hops hkinds
    have hm1 : hasMemAlt f1 size = true := hsz f1 (by rw [hops]; rfl)
    simp only [hasMemAlt_any f1 size hm1, Bool.not_true, Bool.false_or, Bool.and_eq_true, Bool.or_eq_true, beq_iff_eq] at hok
    obtain ⟨-, hC, ra, rb, p0, n0, m0⟩ := hok
    obtain ⟨R, hmode, A, hmask⟩ := legCoreM_spec _ _ hC
    have hal : alignOps e.rule.oszEff e.rule.ops [.reg k0 r0.toNat, .mem mo] = some [(f0, some (.reg k0 r0.toNat)), (f1, some (.mem mo))] := by
      rw [hops]
      exact alignOps2 _ _ _ _ _ (by rw [formOpMatches_reg_nofix _ _ _ _ n0]; exact m0) (hasMemAlt_matches _ _ _ _ hm1 hsize AF.hvsib)
    obtain ⟨bytes, hb, hf⟩ := legM_rm_formOk c ctx e.rule (finalOpLegM e) r0 xb m mo pfx mb sib ds AF k0 f0 f1 hm64 hmode hmask h0
      (plainKind_spec _ p0) R A ra rb hal
    exact ⟨bytes, k0, k1, hkinds, hb, hf⟩
  · simp at hok

/-- **front_cls_correct with a memory operand, legacy classes X86Mr / X86Mr_NoSize**: `MEM, reg` -/
theorem front_cls_correct_lmr_mem (e : Entry) (ch : List Entry) (hch : ch ∈ lmrChunks) (he : e ∈ ch)
    (c : Model.X86.Ctx) (ctx : Spec.X86.Ctx) (r0 xb : BitVec 32) (size : Nat) (m : Mem) (mo : MemOp) (pfx : List (BitVec 8))
    (mb : BitVec 32 → BitVec 8) (sib : Option (BitVec 8)) (ds : List (BitVec 8))
    (AF : AddrFormL c ctx m mo pfx xb mb sib ds) (hsize : mo.size = size) (hm64 : ctx.mode64 = true) (h0 : r0 < 16#32)
    (hsz : ∀ f0, e.rule.ops[0]? = some f0 → hasMemAlt f0 size = true) :
    ∃ bytes k0 k1, e.kinds = [k0, k1] ∧ emitX86M c (finalOpLegM e) 0#32 r0 m 0 0 = .ok bytes ∧
      formOk ctx e.rule [.mem mo, .reg k1 r0.toNat] {} bytes = true := by
  have hok := mem_chunks_ok lmr_mem_entries_ok e ch hch he
  unfold entryOkLmrMem at hok
  split at hok
  · rename_i f0 f1 k0 k1 hops hkinds
    have hm0 : hasMemAlt f0 size = true := hsz f0 (by rw [hops]; rfl)
    simp only [hasMemAlt_any f0 size hm0, Bool.not_true, Bool.false_or, Bool.and_eq_true, Bool.or_eq_true, beq_iff_eq] at hok
    obtain ⟨-, hC, ra, rb, p1, n1, m1⟩ := hok
    obtain ⟨R, hmode, A, hmask⟩ := legCoreM_spec _ _ hC
    have hal : alignOps e.rule.oszEff e.rule.ops [.mem mo, .reg k1 r0.toNat] = some [(f0, some (.mem mo)), (f1, some (.reg k1 r0.toNat))] := by
      rw [hops]
      exact alignOps2 _ _ _ _ _ (hasMemAlt_matches _ _ _ _ hm0 hsize AF.hvsib) (by rw [formOpMatches_reg_nofix _ _ _ _ n1]; exact m1)
    obtain ⟨bytes, hb, hf⟩ := legM_mr_formOk c ctx e.rule (finalOpLegM e) r0 xb m mo pfx mb sib ds AF k1 f0 f1 hm64 hmode hmask h0
      (plainKind_spec _ p1) R A ra rb hal
    exact ⟨bytes, k0, k1, hkinds, hb, hf⟩
  · simp at hok

/-- **front_cls_correct with a memory operand, legacy classes ExtRmi / ExtRmi_P**: `reg, MEM, imm8` -/
theorem front_cls_correct_lrmi_mem (e : Entry) (ch : List Entry) (hch : ch ∈ lrmiChunks) (he : e ∈ ch)
    (c : Model.X86.Ctx) (ctx : Spec.X86.Ctx) (r0 xb : BitVec 32) (size : Nat) (m : Mem) (mo : MemOp) (pfx : List (BitVec 8))
    (mb : BitVec 32 → BitVec 8) (sib : Option (BitVec 8)) (ds : List (BitVec 8))
    (AF : AddrFormL c ctx m mo pfx xb mb sib ds) (hsize : mo.size = size) (hm64 : ctx.mode64 = true) (h0 : r0 < 16#32)
    (imm : BitVec 64)
    (hsz : ∀ f1, e.rule.ops[1]? = some f1 → hasMemAlt f1 size = true)
    (himm : ∀ f3, e.rule.ops[2]? = some f3 → formOpMatches e.rule.oszEff f3 (.imm imm) = true) :
    ∃ bytes k0 k1, e.kinds = [k0, k1] ∧ emitX86M c (finalOpLegM e) 0#32 r0 m imm 1 = .ok bytes ∧
      formOk ctx e.rule [.reg k0 r0.toNat, .mem mo, .imm imm] {} bytes = true := by
  have hok := mem_chunks_ok lrmi_mem_entries_ok e ch hch he
  unfold entryOkLrmiMem at hok
  split at hok
  · rename_i f0 f1 f3 k0 k1 hops hkinds
    have hm1 : hasMemAlt f1 size = true := hsz f1 (by rw [hops]; rfl)
    have m3 : formOpMatches e.rule.oszEff f3 (.imm imm) = true := himm f3 (by rw [hops]; rfl)
    simp only [hasMemAlt_any f1 size hm1, Bool.not_true, Bool.false_or, Bool.and_eq_true, Bool.or_eq_true, beq_iff_eq, Bool.not_eq_true'] at hok
    obtain ⟨-, hC, ra, rb, r3, hib, hsg, p0, n0, m0⟩ := hok
    obtain ⟨R, hmode, A, hmask⟩ := legCoreM_spec _ _ hC
    have hal : alignOps e.rule.oszEff e.rule.ops [.reg k0 r0.toNat, .mem mo, .imm imm] =
        some [(f0, some (.reg k0 r0.toNat)), (f1, some (.mem mo)), (f3, some (.imm imm))] := by
      rw [hops]
      exact alignOps3i _ _ _ _ _ _ _ (by rw [formOpMatches_reg_nofix _ _ _ _ n0]; exact m0) (hasMemAlt_matches _ _ _ _ hm1 hsize AF.hvsib) m3
    obtain ⟨bytes, hb, hf⟩ := legM_rmi_formOk c ctx e.rule (finalOpLegM e) r0 xb m mo pfx mb sib ds AF k0 f0 f1 hm64 hmode hmask h0
      (plainKind_spec _ p0) R f3 imm r3 hib hsg A ra rb hal
    exact ⟨bytes, k0, k1, hkinds, hb, hf⟩
  · simp at hok

/-- the class switch reaches `EmitX86M` with exactly these arguments (classes ExtRm, X86Rm_NoSize: no opcode adjustment) -/
theorem dispatch_lrm_mem (c : Model.X86.Ctx) (row : Row) (t0 i0 : Nat) (m : Mem) (henc : row.encoding = 0x4a ∨ row.encoding = 0x16) :
    dispatch c row 0#32 (.reg t0 i0) (.mem m) .none .none = emitX86M c row.mainOp 0#32 (r32 i0) m 0 0 := by
  rcases henc with h | h <;> simp [dispatch, h, sig3, Op.kind, Op.id]

/-! ### classes X86Arith / X86Test with a memory operand and a 16 / 32 / 64-bit register -/

/-- `op reg, MEM`: the class uses the `opcode + 2` direction -/
def finalOpArithRM (e : Entry) : BitVec 32 := addArithBySize (e.mainOp + 2#32) (kindSize (e.kinds.getD 0 .none))

def legCoreA (e : Entry) (op : BitVec 32) : Bool :=
  legRuleMOk e.rule 0 ((op >>> 21) &&& 3#32).toNat && (legAgreeOk e.rule op && op &&& 0xF780FC00#32 == 0#32)

theorem legCoreA_spec (e : Entry) (op : BitVec 32) (h : legCoreA e op = true) :
    LegRuleM e.rule 0 ((op >>> 21) &&& 3#32).toNat ∧ (e.rule.modes &&& 2 != 0) = true ∧ LegAgree e.rule op ∧ op &&& 0xF780FC00#32 = 0#32 := by
  simp only [legCoreA, Bool.and_eq_true, beq_iff_eq] at h
  obtain ⟨hR, hA, hm⟩ := h
  obtain ⟨R, hmode⟩ := legRuleMOk_spec _ _ _ hR
  exact ⟨R, hmode, (legAgreeOk_spec _ _ hA).1, hm⟩

def entryOkArithMrMem (e : Entry) : Bool :=
  match e.rule.ops, e.kinds with
  | [f0, f1], [k0, k1] =>
    is8 k0 || !anyMemAlt f0 ||
    ((e.enc == 0x19 || e.enc == 0x3D) && (legCoreA e (finalOpArith e) && (kindSize k0 == kindSize k1 &&
    (f0.role == .rm && (f1.role == .reg && (plainKind k1 && (noFix f1 && formOpMatches e.rule.oszEff f1 (.reg k1 0))))))))
  | _, _ => false

def entryOkArithRmMem (e : Entry) : Bool :=
  match e.rule.ops, e.kinds with
  | [f0, f1], [k0, _] =>
    is8 k0 || !anyMemAlt f1 ||
    (e.enc == 0x19 && (legCoreA e (finalOpArithRM e) &&
    (f0.role == .reg && (f1.role == .rm && (plainKind k0 && (noFix f0 && formOpMatches e.rule.oszEff f0 (.reg k0 0)))))))
  | _, _ => false

theorem arith_mr_mem_entries_ok : larithChunks.all (fun c => c.all entryOkArithMrMem) = true := by decide +kernel
theorem arith_rm_mem_entries_ok : larithrmChunks.all (fun c => c.all entryOkArithRmMem) = true := by decide +kernel

/-- **front_cls_correct, classes X86Arith / X86Test, `op MEM, reg`** (16 / 32 / 64-bit registers) -/
theorem front_cls_correct_arith_mr_mem (e : Entry) (ch : List Entry) (hch : ch ∈ larithChunks) (he : e ∈ ch)
    (c : Model.X86.Ctx) (ctx : Spec.X86.Ctx) (r0 xb : BitVec 32) (size : Nat) (m : Mem) (mo : MemOp) (pfx : List (BitVec 8))
    (mb : BitVec 32 → BitVec 8) (sib : Option (BitVec 8)) (ds : List (BitVec 8))
    (AF : AddrFormL c ctx m mo pfx xb mb sib ds) (hsize : mo.size = size) (hm64 : ctx.mode64 = true) (h0 : r0 < 16#32)
    (hsz : ∀ f0, e.rule.ops[0]? = some f0 → hasMemAlt f0 size = true)
    (h8 : ∀ k0 k1, e.kinds = [k0, k1] → is8 k0 = false) :
    ∃ bytes k0 k1, e.kinds = [k0, k1] ∧ emitX86M c (finalOpArith e) 0#32 r0 m 0 0 = .ok bytes ∧
      formOk ctx e.rule [.mem mo, .reg k1 r0.toNat] {} bytes = true := by
  have hok := mem_chunks_ok arith_mr_mem_entries_ok e ch hch he
  unfold entryOkArithMrMem at hok
  split at hok
  · rename_i f0 f1 k0 k1 hops hkinds
    have hm0 : hasMemAlt f0 size = true := hsz f0 (by rw [hops]; rfl)
    simp only [h8 k0 k1 hkinds, hasMemAlt_any f0 size hm0, Bool.not_true, Bool.false_or, Bool.or_self, Bool.and_eq_true, Bool.or_eq_true, beq_iff_eq] at hok
    obtain ⟨-, hC, -, ra, rb, p1, n1, m1⟩ := hok
    obtain ⟨R, hmode, A, hmask⟩ := legCoreA_spec _ _ hC
    have hal : alignOps e.rule.oszEff e.rule.ops [.mem mo, .reg k1 r0.toNat] = some [(f0, some (.mem mo)), (f1, some (.reg k1 r0.toNat))] := by
      rw [hops]
      exact alignOps2 _ _ _ _ _ (hasMemAlt_matches _ _ _ _ hm0 hsize AF.hvsib) (by rw [formOpMatches_reg_nofix _ _ _ _ n1]; exact m1)
    obtain ⟨bytes, hb, hf⟩ := legM_mr_formOk c ctx e.rule (finalOpArith e) r0 xb m mo pfx mb sib ds AF k1 f0 f1 hm64 hmode hmask h0
      (plainKind_spec _ p1) R A ra rb hal
    exact ⟨bytes, k0, k1, hkinds, hb, hf⟩
  · simp at hok

/-- **front_cls_correct, class X86Arith, `op reg, MEM`** (16 / 32 / 64-bit registers; the `opcode + 2` direction) -/
theorem front_cls_correct_arith_rm_mem (e : Entry) (ch : List Entry) (hch : ch ∈ larithrmChunks) (he : e ∈ ch)
    (c : Model.X86.Ctx) (ctx : Spec.X86.Ctx) (r0 xb : BitVec 32) (size : Nat) (m : Mem) (mo : MemOp) (pfx : List (BitVec 8))
    (mb : BitVec 32 → BitVec 8) (sib : Option (BitVec 8)) (ds : List (BitVec 8))
    (AF : AddrFormL c ctx m mo pfx xb mb sib ds) (hsize : mo.size = size) (hm64 : ctx.mode64 = true) (h0 : r0 < 16#32)
    (hsz : ∀ f1, e.rule.ops[1]? = some f1 → hasMemAlt f1 size = true)
    (h8 : ∀ k0 k1, e.kinds = [k0, k1] → is8 k0 = false) :
    ∃ bytes k0 k1, e.kinds = [k0, k1] ∧ emitX86M c (finalOpArithRM e) 0#32 r0 m 0 0 = .ok bytes ∧
      formOk ctx e.rule [.reg k0 r0.toNat, .mem mo] {} bytes = true := by
  have hok := mem_chunks_ok arith_rm_mem_entries_ok e ch hch he
  unfold entryOkArithRmMem at hok
  split at hok
  · rename_i f0 f1 k0 k1 hops hkinds
    have hm1 : hasMemAlt f1 size = true := hsz f1 (by rw [hops]; rfl)
    simp only [h8 k0 k1 hkinds, hasMemAlt_any f1 size hm1, Bool.not_true, Bool.false_or, Bool.or_self, Bool.and_eq_true, Bool.or_eq_true, beq_iff_eq] at hok
    obtain ⟨-, hC, ra, rb, p0, n0, m0⟩ := hok
    obtain ⟨R, hmode, A, hmask⟩ := legCoreA_spec _ _ hC
    have hal : alignOps e.rule.oszEff e.rule.ops [.reg k0 r0.toNat, .mem mo] = some [(f0, some (.reg k0 r0.toNat)), (f1, some (.mem mo))] := by
      rw [hops]
      exact alignOps2 _ _ _ _ _ (by rw [formOpMatches_reg_nofix _ _ _ _ n0]; exact m0) (hasMemAlt_matches _ _ _ _ hm1 hsize AF.hvsib)
    obtain ⟨bytes, hb, hf⟩ := legM_rm_formOk c ctx e.rule (finalOpArithRM e) r0 xb m mo pfx mb sib ds AF k0 f0 f1 hm64 hmode hmask h0
      (plainKind_spec _ p0) R A ra rb hal
    exact ⟨bytes, k0, k1, hkinds, hb, hf⟩
  · simp at hok

/-- the class switch reaches `EmitX86M` with exactly these arguments -/
theorem dispatch_arith_mem (c : Model.X86.Ctx) (row : Row) (k : RegKind) (i : Nat) (m : Mem) (henc : row.encoding = 0x19)
    (hk : k = .gpw ∨ k = .gpd ∨ k = .gpq) :
    dispatch c row 0#32 (.mem m) (.reg (rtypeOf k) i) .none .none = emitX86M c (addArithBySize row.mainOp (kindSize k)) 0#32 (r32 i) m 0 0 ∧
    dispatch c row 0#32 (.reg (rtypeOf k) i) (.mem m) .none .none = emitX86M c (addArithBySize (row.mainOp + 2#32) (kindSize k)) 0#32 (r32 i) m 0 0 := by
  rcases hk with h | h | h <;> subst h <;> constructor <;>
    simp [dispatch, henc, sig3, Op.kind, Op.id, Op.rmSize, rtypeOf, kindSize]

/-! ### class ExtMov (movaps / movups / movapd / movdqa / movdqu / movq ...): its entries are part of the `lrm` (load: main opcode) and `lmr`
(store: alternative opcode) chunks, so `front_cls_correct_lrm(_mem)` / `front_cls_correct_lmr(_mem)` cover them; this is the class switch. -/

theorem dispatch_extmov (c : Model.X86.Ctx) (row : Row) (t0 t1 i0 i1 : Nat) (m : Mem) (henc : row.encoding = 0x56) :
    dispatch c row 0#32 (.reg t0 i0) (.reg t1 i1) .none .none = emitX86R row.mainOp 0#32 (r32 i0) (r32 i1) 0 0 ∧
    (row.altOp ≠ 0#32 → dispatch c row oModMR (.reg t0 i0) (.reg t1 i1) .none .none = emitX86R row.altOp oModMR (r32 i1) (r32 i0) 0 0) ∧
    dispatch c row 0#32 (.reg t0 i0) (.mem m) .none .none = emitX86M c row.mainOp 0#32 (r32 i0) m 0 0 ∧
    dispatch c row 0#32 (.mem m) (.reg t1 i1) .none .none = emitX86M c row.altOp 0#32 (r32 i1) m 0 0 := by
  refine ⟨?_, ?_, ?_, ?_⟩
  · simp [dispatch, henc, sig3, Op.kind, Op.id]
  · intro h
    have h' : (row.altOp == 0#32) = false := by simpa using h
    simp [dispatch, henc, sig3, Op.kind, Op.id, oModMR, h']
  · simp [dispatch, henc, sig3, Op.kind, Op.id]
  · simp [dispatch, henc, sig3, Op.kind, Op.id]

/-- the ModMR option itself does not influence the bytes `EmitX86R` writes -/
theorem emitX86R_modmr (op a b : BitVec 32) (i : BitVec 64) (n : Nat) : emitX86R op oModMR a b i n = emitX86R op 0#32 a b i n := by
  have e : extractRex op oModMR = extractRex op 0#32 := by simp only [extractRex, oModMR]; bv_decide
  simp only [emitX86R, e]

/-! ### classes X86M_Only (one memory operand: fxsave, prefetch*, clflush, lgdt, fldcw, ...) and X86Set (setcc r8 / m8) -/

def legRuleMDOk (r : Rule) (nimm pp d : Nat) : Bool :=
  r.modes &&& 2 != 0 && (r.space == 0 && (r.pp &&& 8 == 0 && (((r.pp &&& 1 != 0 || r.osz == 16) == (pp == 1)) && (((r.pp &&& 2 != 0) == (pp == 2)) &&
  (((r.pp &&& 4 != 0) == (pp == 3)) && (pp < 4 && (!r.ri && ((r.modKind == 1 || r.modKind == 3) && (r.modr == d && (r.modrm == 8 &&
  (r.immBytes == nimm && (r.relBytes == 0 && (!r.moff && (!r.a67 && !r.immRev))))))))))))))

theorem legRuleMDOk_spec (r : Rule) (n pp d : Nat) (h : legRuleMDOk r n pp d = true) : LegRuleMD r n pp d ∧ (r.modes &&& 2 != 0) = true := by
  simp only [legRuleMDOk, Bool.and_eq_true, Bool.or_eq_true, beq_iff_eq, bne_iff_ne, ne_eq, Bool.not_eq_true', decide_eq_true_eq] at h
  obtain ⟨hmodes, hs, hpp8, h66, hF3, hF2, hpplt, hri, hmk, hmr, hmrm, himm, hrel, hmoff, ha67, hrev⟩ := h
  exact ⟨⟨hs, hpp8, by simpa using h66, by simpa using hF3, by simpa using hF2, hpplt, hri, hmk, hmr, hmrm, himm, hrel, hmoff, ha67, hrev⟩, by simpa using hmodes⟩

theorem alignOps1 (osz : Nat) (f0 : FormOp) (o0 : Operand) (h0 : formOpMatches osz f0 o0 = true) :
    alignOps osz [f0] [o0] = some [(f0, some o0)] := by
  simp [alignOps, h0]

/-- the form's digit is the one the class hands to the emitter (`extract_mod_o` of the main opcode), or the form has none -/
def digitAgrees (e : Entry) : Bool := e.rule.modr == 8 || e.rule.modr == (digitOf e).toNat

def entryOkLmMem (e : Entry) : Bool :=
  match e.rule.ops with
  | [f0] =>
    !anyMemAlt f0 || e.rule.pp &&& 8 != 0 ||       -- FWAIT-prefixed form (`fstcw` = 9B D9 /7): not covered
    ((e.enc == 0x0E || e.enc == 0x38) && (legRuleMDOk e.rule 0 ((e.mainOp >>> 21) &&& 3#32).toNat e.rule.modr && (digitAgrees e &&
      (legAgreeOk e.rule e.mainOp && (e.mainOp &&& 0xF780FC00#32 == 0#32 && f0.role == .rm)))))
  | _ => false

theorem lm_mem_entries_ok : lmChunks.all (fun c => c.all entryOkLmMem) = true := by decide +kernel

/-- **front_cls_correct with a memory operand, classes X86M_Only and X86Set**: one memory operand, every address form with an `AddrFormL`
instance (base / base+index*scale / RIP-relative, segment override, 32-bit address registers, ALL displacements). -/
theorem front_cls_correct_lm_mem (e : Entry) (ch : List Entry) (hch : ch ∈ lmChunks) (he : e ∈ ch)
    (c : Model.X86.Ctx) (ctx : Spec.X86.Ctx) (xb : BitVec 32) (size : Nat) (m : Mem) (mo : MemOp) (pfx : List (BitVec 8))
    (mb : BitVec 32 → BitVec 8) (sib : Option (BitVec 8)) (ds : List (BitVec 8))
    (AF : AddrFormL c ctx m mo pfx xb mb sib ds) (hsize : mo.size = size) (hm64 : ctx.mode64 = true) (hfw : e.rule.pp &&& 8 = 0)
    (hsz : ∀ f0, e.rule.ops[0]? = some f0 → hasMemAlt f0 size = true) :
    ∃ bytes, emitX86M c e.mainOp 0#32 (digitOf e) m 0 0 = .ok bytes ∧ formOk ctx e.rule [.mem mo] {} bytes = true := by
  have hok := mem_chunks_ok lm_mem_entries_ok e ch hch he
  unfold entryOkLmMem at hok
  split at hok
  · rename_i f0 hops
    have hm0 : hasMemAlt f0 size = true := hsz f0 (by rw [hops]; rfl)
    simp only [hasMemAlt_any f0 size hm0, hfw, bne_self_eq_false, Bool.not_true, Bool.false_or, Bool.and_eq_true, Bool.or_eq_true, beq_iff_eq, digitAgrees] at hok
    obtain ⟨-, hR, hdg, hA, hmask, ra⟩ := hok
    obtain ⟨R, hmode⟩ := legRuleMDOk_spec _ _ _ _ hR
    have A := (legAgreeOk_spec _ _ hA).1
    have hal : alignOps e.rule.oszEff e.rule.ops [.mem mo] = some [(f0, some (.mem mo))] := by
      rw [hops]
      exact alignOps1 _ _ _ (hasMemAlt_matches _ _ _ _ hm0 hsize AF.hvsib)
    have hd : digitOf e < 8#32 := by simp only [digitOf]; bv_decide
    exact legM_m_formOk c ctx e.rule e.mainOp (digitOf e) xb m mo pfx mb sib ds AF f0 e.rule.modr hm64 hmode hmask hd R
      (by intro h8; rcases hdg with h | h <;> omega) A ra hal
  · simp at hok

/-! class X86Set with a register: ALL 8-bit registers (AL..R15B, SPL..DIL with a forced REX, AH..BH without) -/

def entryOkSetR (e : Entry) : Bool :=
  match e.rule.ops, e.kinds with
  | [f0], [k0] =>
    e.enc == 0x38 && (legRuleDOk e.rule 0 ((e.mainOp >>> 21) &&& 3#32).toNat e.rule.modr && (digitAgrees e && (legAgreeOk e.rule e.mainOp &&
    (f0.role == .rm && ((k0 == .gpb || k0 == .gpbhi) && (noFix f0 && formOpMatches e.rule.oszEff f0 (.reg k0 0)))))))
  | _, [] => true      -- X86M_Only entries of the chunk: no register form
  | _, _ => false

theorem set_entries_ok : lmChunks.all (fun c => c.all entryOkSetR) = true := by decide +kernel

theorem front_cls_correct_set_r (e : Entry) (ch : List Entry) (hch : ch ∈ lmChunks) (he : e ∈ ch)
    (ctx : Spec.X86.Ctx) (r0 : BitVec 32) (k0 : RegKind) (hk : e.kinds = [k0]) (hm64 : ctx.mode64 = true) (h0 : r0 < 16#32)
    (hhi : k0 = .gpbhi → r0 < 4#32) (bytes : List (BitVec 8))
    (hb : emitX86R e.mainOp (fix1 k0 r0).1 (digitOf e) (fix1 k0 r0).2 0 0 = .ok bytes) :
    formOk ctx e.rule [.reg k0 r0.toNat] {} bytes = true := by
  have hok := mem_chunks_ok set_entries_ok e ch hch he
  unfold entryOkSetR at hok
  split at hok
  · rename_i f0 k0' hops hkinds
    have hkk : k0' = k0 := by rw [hkinds] at hk; injection hk with hk _
    subst hkk
    simp only [Bool.and_eq_true, Bool.or_eq_true, beq_iff_eq, digitAgrees] at hok
    obtain ⟨-, hR, hdg, hA, ra, hk8, n0, m0⟩ := hok
    obtain ⟨A, hmask⟩ := legAgreeOk_spec _ _ hA
    have R := legRuleDOk_spec _ _ _ _ hR
    have hal : alignOps e.rule.oszEff e.rule.ops [.reg k0' r0.toNat] = some [(f0, some (.reg k0' r0.toNat))] := by
      rw [hops]
      exact alignOps1 _ _ _ (by rw [formOpMatches_reg_nofix _ _ _ _ n0]; exact m0)
    have hd : digitOf e < 8#32 := by simp only [digitOf]; bv_decide
    exact rOnly_formOk ctx e.rule e.mainOp (digitOf e) r0 k0' f0 e.rule.modr hm64 (by simpa using R.hmodes) hmask
      (by rcases hk8 with h | h <;> simp [h]) hd h0 hhi R (by intro h8; rcases hdg with h | h <;> omega) A ra hal bytes hb
  · rename_i hkinds; rw [hkinds] at hk; cases hk
  · simp at hok

/-- the class switches: X86M_Only, X86Set -/
theorem dispatch_m_only (c : Model.X86.Ctx) (row : Row) (m : Mem) (henc : row.encoding = 0x0e ∨ row.encoding = 0x38) :
    dispatch c row 0#32 (.mem m) .none .none .none = emitX86M c row.mainOp 0#32 ((row.mainOp >>> 18) &&& 7#32) m 0 0 := by
  rcases henc with h | h <;> simp [dispatch, h, sig3, Op.kind]

theorem dispatch_set_r (c : Model.X86.Ctx) (row : Row) (k0 : RegKind) (i0 : Nat) (henc : row.encoding = 0x38) (hk : k0 = .gpb ∨ k0 = .gpbhi) :
    dispatch c row 0#32 (.reg (rtypeOf k0) i0) .none .none .none =
      emitX86R row.mainOp (fix1 k0 (r32 i0)).1 ((row.mainOp >>> 18) &&& 7#32) (fix1 k0 (r32 i0)).2 0 0 := by
  rcases hk with h | h <;> subst h <;>
    simp [dispatch, henc, sig3, Op.kind, Op.id, rtypeOf, fix1, fixK, fixupGpb, Op.isGp8Hi]

/-- class X86Mov, control / debug register moves (64-bit mode: `mov r64, crN|drN`, `mov crN|drN, r64`): the entries are part of the `lmr` /
`lrm` chunks (`finalOpLeg` = 0F 20 / 0F 21 / 0F 22 / 0F 23), so `front_cls_correct_lmr` / `front_cls_correct_lrm` cover them for ALL register
numbers 0..15; this is the class switch -/
theorem dispatch_mov_crdr (c : Model.X86.Ctx) (row : Row) (i0 i1 : Nat) (henc : row.encoding = 0x2c) (hm : c.mode64 = true) :
    dispatch c row 0#32 (.reg (rtypeOf .gpq) i0) (.reg (rtypeOf .creg) i1) .none .none = emitX86R 0x120#32 0#32 (r32 i1) (r32 i0) 0 0 ∧
    dispatch c row 0#32 (.reg (rtypeOf .gpq) i0) (.reg (rtypeOf .dreg) i1) .none .none = emitX86R 0x121#32 0#32 (r32 i1) (r32 i0) 0 0 ∧
    dispatch c row 0#32 (.reg (rtypeOf .creg) i0) (.reg (rtypeOf .gpq) i1) .none .none = emitX86R 0x122#32 0#32 (r32 i0) (r32 i1) 0 0 ∧
    dispatch c row 0#32 (.reg (rtypeOf .dreg) i0) (.reg (rtypeOf .gpq) i1) .none .none = emitX86R 0x123#32 0#32 (r32 i0) (r32 i1) 0 0 := by
  refine ⟨?_, ?_, ?_, ?_⟩ <;> simp [dispatch, henc, sig3, Op.kind, Op.id, Op.isGp, rtypeOf, hm]

end AsmjitVerif.Props.C01
