/-
C04, known base: `EmitJmpCall` with an immediate target when the CodeHolder already has a base address (and the section an
offset) encodes the displacement directly instead of recording a relocation. These theorems state what the direct path
writes, for every state / shape / target / base, in the same CPU reading as `Props/C04E.reloc_rel_correct` uses for the
relocated image (`end of instruction + sign-extended field = target`), and conclude that the two paths put the same rel32
into an instruction that ends at the same address.
-/
import AsmjitVerif.Props.C04E
namespace AsmjitVerif.CodeHolder
open AsmjitVerif.Offset

/-- the displacement `EmitJmpCall` computes when base and section offset are known -/
def directRel64 (s : State) (sh : JShape) (B so target : BitVec 64) : BitVec 64 :=
  target - (BitVec.ofNat 64 (s.curOff + sh.pre.length) + B + so) - BitVec.ofNat 64 (sh.op32.length + 4)

/-- **known_base_direct.** 64-bit mode, base and section offset known, displacement in rel32 range: the site is encoded by
`EmitJmpCallRel` with exactly the truncated displacement (no relocation entry), and that rel32 - read as the CPU does, from
the end of the rel32 form - reaches the target; if the short form is chosen, its rel8 read from the end of the 2-byte form
reaches the target as well (`hop`: the opcode of the rel32 form is at most 11 bytes - an instruction has at most 15). -/
theorem known_base_direct (s : State) (sh : JShape) (opt : FormOpt) (B so target : BitVec 64)
    (ha : absLocation s = some (B, so)) (h64 : s.arch.is32 = false) (hr : isInt32 (directRel64 s sh B so target) = true)
    (hop : sh.op32.length ≤ 11) :
    let rel64 := directRel64 s sh B so target
    let endAddr (n : Nat) := B + so + BitVec.ofNat 64 (s.curOff + sh.pre.length) + BitVec.ofNat 64 n
    x86JmpAbs s sh opt target = emitJmpCallRel s sh opt (rel64.truncate 32) ∧
    endAddr (sh.op32.length + 4) + (rel64.truncate 32).signExtend 64 = target ∧
    (isInt8of32 (rel64.truncate 32 + BitVec.ofNat 32 (sh.op32.length + 4) - BitVec.ofNat 32 2) = true →
      endAddr 2 + ((rel64.truncate 32 + BitVec.ofNat 32 (sh.op32.length + 4) - BitVec.ofNat 32 2).truncate 8).signExtend 64 = target) := by
  intro rel64 endAddr
  refine ⟨?_, ?_, ?_⟩
  · unfold x86JmpAbs
    simp only [ha]
    have : isInt32 (target - (BitVec.ofNat 64 (s.curOff + sh.pre.length) + B + so) - BitVec.ofNat 64 (sh.op32.length + 4)) = true := hr
    simp only [this, h64, or_true, if_true]
    rfl
  · have hr' : isInt32 rel64 = true := hr
    simp only [isInt32, beq_iff_eq] at hr'
    rw [hr']
    show B + so + BitVec.ofNat 64 (s.curOff + sh.pre.length) + BitVec.ofNat 64 (sh.op32.length + 4) +
      (target - (BitVec.ofNat 64 (s.curOff + sh.pre.length) + B + so) - BitVec.ofNat 64 (sh.op32.length + 4)) = target
    generalize BitVec.ofNat 64 (s.curOff + sh.pre.length) = ip
    generalize BitVec.ofNat 64 (sh.op32.length + 4) = i32
    bv_omega
  · intro h8
    have hr' : isInt32 rel64 = true := hr
    have hlen : BitVec.ofNat 32 (sh.op32.length + 4) = (BitVec.ofNat 64 (sh.op32.length + 4)).truncate 32 := by
      simp [BitVec.truncate_eq_setWidth, BitVec.setWidth_ofNat_of_le]
    rw [hlen] at h8 ⊢
    have hsmall : BitVec.ofNat 64 (sh.op32.length + 4) ≤ 15#64 := by
      rw [BitVec.le_def]; simp only [BitVec.toNat_ofNat]; omega
    clear hlen ha h64 hr
    have e : rel64 = target - (BitVec.ofNat 64 (s.curOff + sh.pre.length) + B + so) - BitVec.ofNat 64 (sh.op32.length + 4) := rfl
    show B + so + BitVec.ofNat 64 (s.curOff + sh.pre.length) + BitVec.ofNat 64 2 + _ = target
    generalize BitVec.ofNat 64 (s.curOff + sh.pre.length) = ip at e ⊢
    generalize BitVec.ofNat 64 (sh.op32.length + 4) = i32 at e h8 hsmall ⊢
    generalize rel64 = r at e h8 hr' ⊢
    simp only [isInt32, isInt8of32] at hr' h8
    have h2 : BitVec.ofNat 64 2 = 2#64 := rfl
    have h3 : BitVec.ofNat 32 2 = 2#32 := rfl
    rw [h2]; rw [h3] at h8 ⊢
    bv_decide

/-- **known_base_unreachable.** 64-bit mode, base known, displacement outside the rel32 range: nothing is encoded directly -
a jcc/jecxz/loop is refused with InvalidDisplacement, a jmp/call falls back to the relocation path (the address table). -/
theorem known_base_unreachable (s : State) (sh : JShape) (opt : FormOpt) (B so target : BitVec 64)
    (ha : absLocation s = some (B, so)) (h64 : s.arch.is32 = false) (hr : isInt32 (directRel64 s sh B so target) = false) :
    (sh.jmpOrCall = false → x86JmpAbs s sh opt target = (s, .invalidDisplacement)) ∧
    (sh.jmpOrCall = true → (x86JmpAbs s sh opt target).2 = .ok →
      (x86JmpAbs s sh opt target).1.relocs.length = s.relocs.length + 1) := by
  have hh : isInt32 (target - (BitVec.ofNat 64 (s.curOff + sh.pre.length) + B + so) - BitVec.ofNat 64 (sh.op32.length + 4)) = false := hr
  refine ⟨?_, ?_⟩
  · intro hj
    unfold x86JmpAbs
    simp only [ha]
    simp [hh, h64, hj]
  · intro hj
    unfold x86JmpAbs
    simp only [ha]
    simp only [hh, h64, hj]
    try dsimp only
    repeat' split
    all_goals intro he
    all_goals first
      | (exfalso; simp at he; done)
      | (exfalso; rename_i heq; simp at heq; done)
      | simp [newReloc, State.emit, addAddress_relocs]

/-- **known_base_equiv.** Two rel32 fields of an instruction that ends at the same address `E` and reaches the same target
are the same 32 bits: the direct encoding with a known base (`known_base_direct`) and the relocation of the same site to
that base (`reloc_rel_correct`, first alternative) produce the same displacement. -/
theorem known_base_equiv (E target v1 v2 : BitVec 64)
    (h1 : E + (v1.truncate 32).signExtend 64 = target) (h2 : E + (v2.truncate 32).signExtend 64 = target) :
    v1.truncate 32 = v2.truncate 32 := by
  bv_decide

/-- **known_base_equiv_program.** End to end: take any program assembled without a base, finished by flatten + resolve and
relocated successfully to `B` (64-bit mode), and any AbsToRel entry `re` of it. Compare with a direct encoding of the same
target at a site `sd` of a CodeHolder whose base is already `B`, whose section has the offset of `re`'s section, and whose
rel32 form ends where `re`'s region ends. Then the rel32 found in the relocated image is exactly the rel32 the direct path
emits (`known_base_direct`: `emitJmpCallRel … (directRel64 …).truncate 32`). -/
theorem known_base_equiv_program (arch : Arch) (base0 : BitVec 64) (ops : List Op) (hops : ∀ op ∈ ops, op.early = true)
    (B : BitVec 64) (s' : State) (n : Nat)
    (h : relocate (run (State.init arch base0) (ops ++ [.flatten, .resolve])) B = (s', .ok, n))
    (re : Reloc) (hre : re ∈ (run (State.init arch base0) (ops ++ [.flatten, .resolve])).relocs)
    (hty : re.type = .absToRel) (h64 : ¬ arch.regSize ≤ 4)
    (harch : (run (State.init arch base0) (ops ++ [.flatten, .resolve])).arch = arch)
    (sd : State) (sh : JShape)
    (ha : absLocation sd = some (B, secOffset (run (State.init arch base0) (ops ++ [.flatten, .resolve])).secs re.srcSec))
    (hd64 : sd.arch.is32 = false)
    (hend : sd.curOff + sh.pre.length + (sh.op32.length + 4) = re.srcOff + re.regionSize)
    (hr : isInt32 (directRel64 sd sh B (secOffset (run (State.init arch base0) (ops ++ [.flatten, .resolve])).secs re.srcSec) re.payload) = true)
    (hop : sh.op32.length ≤ 11) :
    ∃ v, RDecodes s'.secs re.rgn v ∧
      v.truncate 32 = (directRel64 sd sh B (secOffset (run (State.init arch base0) (ops ++ [.flatten, .resolve])).secs re.srcSec) re.payload).truncate 32 := by
  rcases reloc_rel_correct arch base0 ops hops B s' n h re hre (Or.inl hty) h64 harch with ⟨v, hv, _, heq⟩ | ⟨hx, _⟩
  · refine ⟨v, hv, ?_⟩
    have hk := (known_base_direct sd sh .dflt B _ re.payload ha hd64 hr hop).2.1
    have hE : B + secOffset (run (State.init arch base0) (ops ++ [.flatten, .resolve])).secs re.srcSec +
        BitVec.ofNat 64 re.srcOff + BitVec.ofNat 64 re.regionSize =
        B + secOffset (run (State.init arch base0) (ops ++ [.flatten, .resolve])).secs re.srcSec +
        BitVec.ofNat 64 (sd.curOff + sh.pre.length) + BitVec.ofNat 64 (sh.op32.length + 4) := by
      rw [BitVec.add_assoc (B + _), BitVec.add_assoc (B + _), ← BitVec.ofNat_add, ← BitVec.ofNat_add, hend]
    exact known_base_equiv _ re.payload v _ heq (by rw [hE]; exact hk)
  · rw [hty] at hx; cases hx

/-- non-vacuity: with base 0x10000 known, `call 0x20000` is encoded directly (E8 rel32, rel32 = 0x20000 - 0x10005) and no
relocation entry is made; without a base the same call is `40 E8 00000000` plus an X64AddressEntry -/
example :
    let s := run (State.init .x64 0x10000#64) [.jmpAbs .call .dflt 0x20000#64]
    let u := run (State.init .x64 noBase) [.jmpAbs .call .dflt 0x20000#64]
    absLocation (State.init .x64 0x10000#64) = some (0x10000#64, 0#64) ∧
    (s.secs[0]?.map (·.buf)) = some [0xE8#8, 0xFB#8, 0xFF#8, 0#8, 0#8] ∧ s.relocs.length = 0 ∧
    (u.secs[0]?.map (·.buf)) = some [0x40#8, 0xE8#8, 0#8, 0#8, 0#8, 0#8] ∧ u.relocs.length = 1 := by decide

end AsmjitVerif.CodeHolder
