/-
C05 - the translator's width-aware rules (Model/RAIdioms.lean, used by Driver/C05.lean) proved against the BitVec semantics of
Spec/X86Regs.lean.  `w` = operand width in bytes, `vs` = size of the virtual register in bytes, both in {1, 2, 4, 8}; the byte
masks are the ones InstAPI::query_rw_info reports for a `w`-byte general-purpose write (`gpWMask`, `gpEMask`).
A wrong rule (the allocator's old `and r, 0` = "content unchanged", a width-blind `xor al, al` = "write only") breaks a proof here.
-/
import Std.Tactic.BVDecide
import AsmjitVerif.Model.RAIdioms
import AsmjitVerif.Spec.X86Regs

namespace AsmjitVerif.C05Idioms
open AsmjitVerif.RAIdioms AsmjitVerif.X86Regs

def widths : List Nat := [1, 2, 4, 8]

/-! ## (a) idiom rules -/

/-- `xor r, r` / `sub r, r` (`eor`): when the rule says "not read" (the write covers the virtual register) the observable
    result does not depend on what the register held -/
theorem zero_rule_sound (name : String) (op : AluOp) (w vs : Nat) (hw : w ∈ widths) (hvs : vs ∈ widths) (a b : BitVec 64)
    (hop : gpOpOfName name = some op)
    (hrule : classify name 2 true true none (covers vs (gpWMask w) (gpEMask w)) (extendsLive vs (gpEMask w)) = .zero false) :
    trunc vs (gpWrite w a (alu op w a a)) = trunc vs (gpWrite w b (alu op w b b)) := by
  have hz : sameRegZero name = true := by
    unfold classify at hrule; simp only [Bool.true_and] at hrule
    by_cases h : sameRegZero name = true
    · exact h
    · simp [h] at hrule
      split at hrule <;> simp_all
  have hop' : op = .xor ∨ op = .sub := by
    unfold gpOpOfName at hop
    split at hop <;> first | (exfalso; revert hz; decide) | (simp at hop; subst hop; simp) | (simp at hop)
  have hcov : covers vs (gpWMask w) (gpEMask w) = true := by
    unfold classify at hrule; simp only [hz, Bool.true_and, Bool.and_self, if_true] at hrule
    simpa using hrule
  simp only [widths, List.mem_cons, List.mem_nil_iff, or_false] at hw hvs
  rcases hw with rfl | rfl | rfl | rfl <;> rcases hvs with rfl | rfl | rfl | rfl <;> rcases hop' with rfl | rfl <;>
    first
    | (exfalso; revert hcov; decide)
    | (simp only [trunc, gpWrite, alu, lowMask]; bv_decide)

/-- ... and when the write does not cover the virtual register the rule keeps the read (`xor al, al` of a 32-bit register) -/
theorem zero_rule_partial_reads (name : String) (vs w : Nat) (h : covers vs (gpWMask w) (gpEMask w) = false) (hz : sameRegZero name = true) :
    classify name 2 true true none (covers vs (gpWMask w) (gpEMask w)) (extendsLive vs (gpEMask w)) = .zero true := by
  simp [classify, hz, h]

/-- the read IS needed there: `xor al, al` on a 4-byte virtual register depends on the old value -/
theorem zero_rule_partial_witness :
    ∃ a b : BitVec 64, trunc 4 (gpWrite 1 a (alu .xor 1 a a)) ≠ trunc 4 (gpWrite 1 b (alu .xor 1 b b)) :=
  ⟨0x100#64, 0x200#64, by decide⟩

/-- `or r, r` / `and r, r`: when the rule says "keeps its value" the observable value is unchanged -/
theorem keep_same_rule_sound (name : String) (op : AluOp) (w vs : Nat) (hw : w ∈ widths) (hvs : vs ∈ widths) (a : BitVec 64)
    (hop : gpOpOfName name = some op)
    (hrule : classify name 2 true true none (covers vs (gpWMask w) (gpEMask w)) (extendsLive vs (gpEMask w)) = .keep) :
    trunc vs (gpWrite w a (alu op w a a)) = trunc vs a := by
  have hnz : sameRegZero name = false := by
    unfold classify at hrule; simp only [Bool.true_and] at hrule
    by_cases h : sameRegZero name = true
    · simp [h] at hrule
    · simpa using h
  have hk : sameRegKeep name = true ∧ extendsLive vs (gpEMask w) = false := by
    unfold classify at hrule; simp only [hnz, Bool.true_and, Bool.false_eq_true, if_false] at hrule
    by_cases h : sameRegKeep name = true
    · by_cases h2 : extendsLive vs (gpEMask w) = true
      · simp [h, h2] at hrule
      · exact ⟨h, by simpa using h2⟩
    · simp [h] at hrule
  have hop' : op = .or ∨ op = .and := by
    unfold gpOpOfName at hop
    split at hop <;> first | (exfalso; have := hk.1; revert this; decide) | (simp at hop; subst hop; simp) | (simp at hop)
  have hext := hk.2
  simp only [widths, List.mem_cons, List.mem_nil_iff, or_false] at hw hvs
  rcases hw with rfl | rfl | rfl | rfl <;> rcases hvs with rfl | rfl | rfl | rfl <;> rcases hop' with rfl | rfl <;>
    first
    | (exfalso; revert hext; decide)
    | (simp only [trunc, gpWrite, alu, lowMask]; bv_decide)

/-- without the "no zero-extension into live bytes" condition the rule would be wrong: `or eax, eax` changes a 64-bit register -/
theorem keep_needs_no_extension : ∃ a : BitVec 64, trunc 8 (gpWrite 4 a (alu .or 4 a a)) ≠ trunc 8 a :=
  ⟨0xFFFFFFFF00000001#64, by decide⟩

/-- `op r, 0` for add / or / xor / sub / shl / shr / sar / rol / ror: when the rule says "keeps its value" the value is unchanged -/
theorem imm_zero_rule_sound (name : String) (op : AluOp) (w vs : Nat) (hw : w ∈ widths) (hvs : vs ∈ widths) (a : BitVec 64)
    (hop : gpOpOfName name = some op)
    (hrule : classify name 2 false false (some "0") (covers vs (gpWMask w) (gpEMask w)) (extendsLive vs (gpEMask w)) = .keep) :
    trunc vs (gpWrite w a (alu op w a 0#64)) = trunc vs a := by
  have hk : immZeroKeep name = true ∧ extendsLive vs (gpEMask w) = false := by
    unfold classify at hrule
    by_cases h : immZeroKeep name = true
    · by_cases h2 : extendsLive vs (gpEMask w) = true
      · simp [h, h2] at hrule
      · exact ⟨h, by simpa using h2⟩
    · simp [h] at hrule
  have hne : op ≠ .and := by
    intro h; subst h
    unfold gpOpOfName at hop
    split at hop <;> first | (have := hk.1; revert this; decide) | (simp at hop)
  have hext := hk.2
  simp only [widths, List.mem_cons, List.mem_nil_iff, or_false] at hw hvs
  rcases hw with rfl | rfl | rfl | rfl <;> rcases hvs with rfl | rfl | rfl | rfl <;> cases op <;>
    first
    | (exact absurd rfl hne)
    | (exfalso; revert hext; decide)
    | (simp only [trunc, gpWrite, alu, lowMask, countMask]; bv_decide)

/-- `and r, 0` is NOT in the class "keeps its value" (the allocator's table had it there: fixes/C05-4.patch) ... -/
theorem and_zero_is_not_keep (cov ext : Bool) : classify "and" 2 false false (some "0") cov ext = .none := by
  cases cov <;> cases ext <;> decide

/-- ... and it must not be: it changes the register -/
theorem and_zero_changes_the_register : ∃ a : BitVec 64, trunc 8 (gpWrite 8 a (alu .and 8 a 0#64)) ≠ trunc 8 a :=
  ⟨1#64, by decide⟩

/-- `or r, -1`: when the rule says "not read" the observable result does not depend on what the register held -/
theorem ones_rule_sound (w vs : Nat) (hw : w ∈ widths) (hvs : vs ∈ widths) (a b : BitVec 64)
    (hrule : classify "or" 2 false false (some "-1") (covers vs (gpWMask w) (gpEMask w)) (extendsLive vs (gpEMask w)) = .ones) :
    trunc vs (gpWrite w a (alu .or w a 0xFFFFFFFFFFFFFFFF#64)) = trunc vs (gpWrite w b (alu .or w b 0xFFFFFFFFFFFFFFFF#64)) := by
  have hcov : covers vs (gpWMask w) (gpEMask w) = true := by
    cases h : covers vs (gpWMask w) (gpEMask w) with
    | true => rfl
    | false =>
      rw [h] at hrule
      cases h2 : extendsLive vs (gpEMask w) <;> rw [h2] at hrule <;> exact absurd hrule (by decide)
  simp only [widths, List.mem_cons, List.mem_nil_iff, or_false] at hw hvs
  rcases hw with rfl | rfl | rfl | rfl <;> rcases hvs with rfl | rfl | rfl | rfl <;>
    first
    | (exfalso; revert hcov; decide)
    | (simp only [trunc, gpWrite, alu, lowMask]; bv_decide)

/-- vector forms of the zero / keep idioms (the lane structure does not matter for xor / or / and; `psubd`, `pcmpeqd` lane-wise) -/
theorem vec_zero_idioms (a b : BitVec 128) : a ^^^ a = b ^^^ b ∧ psubd a a = psubd b b ∧ pcmpeqd a a = pcmpeqd b b := by
  refine ⟨by bv_decide, ?_, ?_⟩
  · simp only [psubd, lanes32] <;> bv_decide
  · simp only [pcmpeqd, lanes32] <;> bv_decide

theorem vec_keep_idioms (a : BitVec 512) : a ||| a = a ∧ a &&& a = a := by
  constructor <;> bv_decide

/-! ## (b) register-to-memory substitution of a written operand -/

/-- when the rule does not refuse (`regToMemLost = false`), writing the `w`-byte result into the home slot instead of the register
    gives the same observable value of the `vs`-byte virtual register, whatever the result and the old content are -/
theorem reg_to_mem_rule_sound (w vs : Nat) (hw : w ∈ widths) (hvs : vs ∈ widths) (old res : BitVec 64)
    (hrule : regToMemLost true vs (gpWMask w) (gpEMask w) = false) :
    trunc vs (memWrite w old res) = trunc vs (gpWrite w old res) := by
  simp only [widths, List.mem_cons, List.mem_nil_iff, or_false] at hw hvs
  rcases hw with rfl | rfl | rfl | rfl <;> rcases hvs with rfl | rfl | rfl | rfl <;>
    first
    | (exfalso; revert hrule; decide)
    | (simp only [trunc, gpWrite, memWrite, lowMask] <;> bv_decide)

/-- the refused case really differs: a 32-bit result of a 64-bit virtual register (fixes/C05-2.patch) -/
theorem reg_to_mem_refused_case : regToMemLost true 8 (gpWMask 4) (gpEMask 4) = true ∧
    ∃ old res : BitVec 64, trunc 8 (memWrite 4 old res) ≠ trunc 8 (gpWrite 4 old res) :=
  ⟨by decide, 0xFFFFFFFF00000000#64, 1#64, by decide⟩

/-- a read operand replaced by its home slot: reading `size` bytes of the slot = reading the low `size` bytes of the register -/
theorem reg_to_mem_read (size : Nat) (v : BitVec 64) : trunc size v = trunc size (trunc 8 v) := by
  simp only [trunc, lowMask]; split <;> try bv_decide

/-! ## (c) move whitelist: a whitelisted move of `bytes` bytes copies every virtual register of at most `bytes` bytes exactly
   (for every pair of sizes, not only the architectural ones) -/

theorem getLsbD_vecMask (b i : Nat) : (vecMask b).getLsbD i = (decide (i < 8 * b) && decide (i < 512)) := by
  simp only [vecMask, BitVec.getLsbD_ofNat, Nat.testBit_two_pow_sub_one]
  by_cases h1 : i < 512 <;> by_cases h2 : i < 8 * b <;> simp [h1, h2]

theorem zx_move_copies (bytes vs : Nat) (hle : vs ≤ bytes) (old src : BitVec 512) :
    vtrunc vs (zxWrite bytes old src) = vtrunc vs src := by
  apply BitVec.eq_of_getLsbD_eq
  intro i hi
  simp only [vtrunc, zxWrite, BitVec.getLsbD_and, getLsbD_vecMask]
  by_cases h1 : i < 8 * vs
  · have h2 : i < 8 * bytes := by omega
    simp [h1, h2, hi]
  · simp [h1]

theorem merge_move_copies (bytes vs : Nat) (hle : vs ≤ bytes) (old src : BitVec 512) :
    vtrunc vs (mergeWrite bytes old src) = vtrunc vs src := by
  apply BitVec.eq_of_getLsbD_eq
  intro i hi
  simp only [vtrunc, mergeWrite, BitVec.getLsbD_and, BitVec.getLsbD_or, BitVec.getLsbD_not, getLsbD_vecMask]
  by_cases h1 : i < 8 * vs
  · have h2 : i < 8 * bytes := by omega
    simp [h1, h2, hi]
  · simp [h1]

/-- the width guard is needed: a 4-byte move does not copy an 8-byte virtual register -/
theorem narrow_move_does_not_copy : ∃ old src : BitVec 512, vtrunc 8 (zxWrite 4 old src) ≠ vtrunc 8 src := by
  refine ⟨0#512, BitVec.ofNat 512 (2 ^ 40), ?_⟩
  intro h
  have := congrArg (fun x => x.getLsbD 40) h
  simp only [vtrunc, zxWrite, BitVec.getLsbD_and, getLsbD_vecMask, BitVec.getLsbD_ofNat] at this
  revert this
  decide

/-- the bytes the translator attributes to each whitelisted mnemonic never exceed what the instruction moves:
    the mnemonic's own width (kmovb 1, kmovw 2, movd/movss/kmovd 4, movq/movsd/kmovq 8), the register size, the memory operand size -/
theorem moveBytes_le (name : String) (regSize : Nat) (memSize : Option Nat) :
    moveBytes name regSize memSize ≤ moveCap name ∧
    (match memSize with | some m => moveBytes name regSize memSize ≤ (if m = 0 then regSize else m) | none => moveBytes name regSize memSize ≤ regSize) := by
  unfold moveBytes
  cases memSize with
  | none => exact ⟨Nat.min_le_left _ _, Nat.min_le_right _ _⟩
  | some m =>
    refine ⟨Nat.min_le_left _ _, ?_⟩
    by_cases h : m = 0 <;> simp [h] <;> exact Nat.min_le_right _ _

example : moveCap "kmovw" = 2 ∧ moveCap "movd" = 4 ∧ moveCap "vmovq" = 8 ∧ moveCap "vmovdqa32" = 64 ∧ moveBytes "mov" 4 (some 0) = 4 ∧
    moveBytes "movzx" 4 (some 1) = 1 := by decide

end AsmjitVerif.C05Idioms
