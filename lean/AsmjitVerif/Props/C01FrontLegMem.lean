/-
C01 property theorems, front-end layer: LEGACY-space instructions with a MEMORY operand (`EmitX86M` + `EmitModSib`): segment override, 67,
mandatory / operand-size prefix, REX (W from the opcode word, R = reg[3], X = index[3], B = base[3]), escape, opcode, ModRM / SIB / disp
(plain disp8: no compression in the legacy space), immediate. Generic in the address form (`AddrFormL`); instance `addrFormL_base`.
-/
import AsmjitVerif.Props.C01FrontMemX
import AsmjitVerif.Props.C01FrontArith
import AsmjitVerif.Lemmas.X86ParseLegMem
set_option linter.constructorNameAsVariable false
set_option linter.unusedSimpArgs false
set_option linter.unusedVariables false
namespace AsmjitVerif.Props.C01
open Spec.X86 Model.X86 AsmjitVerif.Lemmas.X86Parse

/-- the REX byte `EmitX86M` writes: W from the opcode word, R = reg[3], X / B from `xb` (bit 4 / bit 3), as an optional byte -/
def rexOfM (opcode opReg xb : BitVec 32) : Option (BitVec 8) :=
  let rex := ((xb >>> 3) &&& 1#32) ||| ((xb >>> 3) &&& 2#32) ||| ((opReg >>> 1) &&& 4#32) ||| extractRex opcode 0#32
  if (rex &&& 0x7F#32) != 0#32 then some ((rex &&& 0x7F#32 ||| 0x40#32).truncate 8) else none

/-- what an address form provides for the legacy emitter -/
structure AddrFormL (c : Model.X86.Ctx) (ctx : Spec.X86.Ctx) (m : Mem) (mo : MemOp) (pfx : List (BitVec 8)) (xb : BitVec 32)
    (mb : BitVec 32 → BitVec 8) (sib : Option (BitVec 8)) (ds : List (BitVec 8)) : Prop where
  hxb : xb < 32#32
  hpl : ∀ pp, pp < 4 → PfxList3 false (pfx ++ ppBytes pp)
  hpc : ∀ pp, pp < 4 → PfxCountsL (pfx ++ ppBytes pp) mo pp
  hvsib : vsibOf mo = .none
  hbc : mo.bcst = 0
  shape : ∀ o7, o7 < 8#32 → (bits (mb o7) 6 2 ≠ 3 ∧ (bits (mb o7) 0 3 == 4) = sib.isSome ∧ ds.length = dispLen (mb o7) sib ∧ bits (mb o7) 3 3 = o7.toNat)
  chk : ∀ (rule : Rule) (p : Parsed) o7 pp, o7 < 8#32 → pp < 4 → MemFields p (pfx ++ ppBytes pp) (mb o7) sib ds (xb.getLsbD 3) (xb.getLsbD 4) →
            p.vexKind = 0 → checkMem ctx rule p mo = .ok ()
  emit : ∀ (opcode opReg : BitVec 32) (imm : BitVec 64) (n : Nat), opReg < 16#32 → opcode &&& 0xF780FC00#32 = 0#32 →
    emitX86M c opcode 0#32 opReg m imm n =
      .ok (pfx ++ ppBytes ((opcode >>> 21) &&& 3#32).toNat ++ ((rexOfM opcode opReg xb).toList ++ (legacyEscape ((opcode >>> 8) &&& 3#32).toNat ++
           opcode.truncate 8 :: mb (opReg &&& 7#32) :: (sib.toList ++ ds ++ emitImmediate imm n))))

/-- the parser on the bytes of `EmitX86M` -/
theorem legM_parsed (rule : Rule) (opcode opReg xb : BitVec 32) (pfx : List (BitVec 8)) (mb : BitVec 8) (sib : Option (BitVec 8)) (ds : List (BitVec 8))
    (imm : BitVec 64) (n : Nat) {d : Nat}
    (hopc : opcode &&& 0xF780FC00#32 = 0#32) (ho : opReg < 16#32) (hb : xb < 32#32)
    (R : LegRuleMD rule n ((opcode >>> 21) &&& 3#32).toNat d) (A : LegAgree rule opcode)
    (hpl : PfxList3 false (pfx ++ ppBytes ((opcode >>> 21) &&& 3#32).toNat))
    (hmodne : bits mb 6 2 ≠ 3) (fsib : (bits mb 0 3 == 4) = sib.isSome) (hdl : ds.length = dispLen mb sib)
    (freg : bits mb 3 3 = (opReg &&& 7#32).toNat) :
    ∃ p, parse true rule (pfx ++ ppBytes ((opcode >>> 21) &&& 3#32).toNat ++ ((rexOfM opcode opReg xb).toList ++ (legacyEscape ((opcode >>> 8) &&& 3#32).toNat ++
           opcode.truncate 8 :: mb :: (sib.toList ++ ds ++ emitImmediate imm n)))) = .ok p ∧
      LegParsedM rule p mb (pfx ++ ppBytes ((opcode >>> 21) &&& 3#32).toNat) ∧
      regNum false p.R (bits mb 3 3) = opReg.toNat ∧
      MemFields p (pfx ++ ppBytes ((opcode >>> 21) &&& 3#32).toNat) mb sib ds (xb.getLsbD 3) (xb.getLsbD 4) ∧
      p.vexKind = 0 ∧ p.imm = emitImmediate imm n := by
  obtain ⟨hop, hmap, hw, hsafe⟩ := A
  have hlen : (emitImmediate imm n).length = rule.immBytes + rule.relBytes := by
    rw [(imm_le_exact imm n).1, R.himm, R.hrel]; rfl
  have hmaplt : rule.map < 4 := by
    rw [hmap]
    have : (opcode >>> 8) &&& 3#32 < 4#32 := by bv_decide
    simpa [BitVec.lt_def] using this
  have hrexv : ∀ b, rexOfM opcode opReg xb = some b → b >>> 4 = 4#8 ∧
      (b.getLsbD 3 = opcode.getLsbD 27) ∧ (b.getLsbD 2 = opReg.getLsbD 3) ∧ (b.getLsbD 1 = xb.getLsbD 4) ∧ (b.getLsbD 0 = xb.getLsbD 3) := by
    intro b hb'
    unfold rexOfM at hb'
    dsimp only at hb'
    split at hb'
    · injection hb' with hb'; subst hb'; simp only [extractRex] at *; refine ⟨?_, ?_, ?_, ?_, ?_⟩ <;> bv_decide
    · contradiction
  have hnone : rexOfM opcode opReg xb = none → opcode.getLsbD 27 = false ∧ opReg.getLsbD 3 = false ∧ xb.getLsbD 4 = false ∧ xb.getLsbD 3 = false := by
    intro hn
    unfold rexOfM at hn
    dsimp only at hn
    split at hn
    · contradiction
    · rename_i hz; simp only [extractRex] at hz; refine ⟨?_, ?_, ?_, ?_⟩ <;> bv_decide
  have hrexH : ∀ b, rexOfM opcode opReg xb = some b → b.toNat / 16 = 4 ∧ isLegacyPrefix b false = false := by
    intro b hb'
    obtain ⟨h4, -⟩ := hrexv b hb'
    refine ⟨toNat_div16_eq4 b h4, ?_⟩
    rw [Bool.eq_false_iff]
    intro hh
    simp only [isLegacyPrefix, Bool.or_eq_true, beq_iff_eq, Bool.false_and, Bool.or_false] at hh
    bv_decide
  have hoH : rule.map = 0 → isLegacyPrefix (opcode.truncate 8) false = false ∧
      (rexOfM opcode opReg xb = none → (opcode.truncate 8 : BitVec 8).toNat / 16 ≠ 4) := by
    intro hm0
    have hm0' : (opcode >>> 8) &&& 3#32 = 0#32 := by
      apply BitVec.eq_of_toNat_eq; rw [← hmap, hm0]; rfl
    obtain ⟨s1, s2⟩ := hsafe hm0'
    refine ⟨s1, fun _ h => s2 ?_⟩
    apply BitVec.eq_of_toNat_eq
    simpa [BitVec.toNat_ushiftRight, Nat.shiftRight_eq_div_pow] using h
  have hpl' : PfxList3 (rule.pp &&& 8 != 0) (pfx ++ ppBytes ((opcode >>> 21) &&& 3#32).toNat) := by rw [R.hpp8]; exact hpl
  have hparse := parse_legacy_mem rule _ (rexOfM opcode opReg xb) (opcode.truncate 8) mb sib ds (emitImmediate imm n) hpl'
    R.hs R.hpp8 hmaplt (by rcases R.hmk with h | h <;> simp [h]) hrexH hoH hmodne fsib hdl hlen R.hmoff
  rw [hmap] at hparse
  refine ⟨_, hparse, ⟨rfl, rfl, rfl, hmodne, ?_, ?_, rfl⟩, ?_, ⟨rfl, rfl, rfl, rfl, rfl, rfl, ?_, ?_⟩, rfl, rfl⟩
  · show (opcode.truncate 8 : BitVec 8).toNat = rule.opcode
    rw [hop]; exact toNat_eq_of_zext _ _ (by omega) (by bv_decide)
  · rcases hw with h | h
    · exact Or.inl h
    · right
      have hc : (opcode >>> 27) &&& 1#32 = 0#32 ∨ (opcode >>> 27) &&& 1#32 = 1#32 := by bv_decide
      simp only [rexBit]
      cases hr : rexOfM opcode opReg xb with
      | none =>
        obtain ⟨w0, -, -, -⟩ := hnone hr
        rcases hc with hc | hc
        · rw [h, hc]; simp
        · exfalso; bv_decide
      | some b =>
        obtain ⟨-, wb, -, -, -⟩ := hrexv b hr
        simp only [bit]
        rcases hc with hc | hc
        · rw [h, hc, wb]; simp; bv_decide
        · rw [h, hc, wb]; simp; bv_decide
  · show regNum false (rexBit (rexOfM opcode opReg xb) 2) (bits mb 3 3) = opReg.toNat
    rw [freg]
    have e3 : (opReg &&& 7#32).toNat = ((opReg &&& 7#32).truncate 3 : BitVec 3).toNat := by
      have : (opReg &&& 7#32) < 8#32 := by bv_decide
      have : (opReg &&& 7#32).toNat < 8 := by simpa [BitVec.lt_def] using this
      rw [BitVec.truncate, BitVec.toNat_setWidth]; exact (Nat.mod_eq_of_lt this).symm
    rw [e3]
    simp only [rexBit]
    cases hr : rexOfM opcode opReg xb with
    | none =>
      obtain ⟨-, r0, -, -⟩ := hnone hr
      exact regNum_eq _ _ _ opReg (by simp; bv_decide)
    | some b =>
      obtain ⟨-, -, rb, -, -⟩ := hrexv b hr
      exact regNum_eq _ _ _ opReg (by simp only [bit, rb]; simp; bv_decide)
  · show rexBit (rexOfM opcode opReg xb) 0 = xb.getLsbD 3
    simp only [rexBit]
    cases hr : rexOfM opcode opReg xb with
    | none => obtain ⟨-, -, -, b0⟩ := hnone hr; exact b0.symm
    | some b => obtain ⟨-, -, -, -, bb⟩ := hrexv b hr; exact bb
  · show rexBit (rexOfM opcode opReg xb) 1 = xb.getLsbD 4
    simp only [rexBit]
    cases hr : rexOfM opcode opReg xb with
    | none => obtain ⟨-, -, x0, -⟩ := hnone hr; exact x0.symm
    | some b => obtain ⟨-, -, -, bx, -⟩ := hrexv b hr; exact bx

/-- legacy shape [reg, MEM]: the bytes of `EmitX86M` satisfy the monitor -/
theorem legM_rm_formOk (c : Model.X86.Ctx) (ctx : Spec.X86.Ctx) (rule : Rule) (opcode opReg xb : BitVec 32) (m : Mem) (mo : MemOp) (pfx : List (BitVec 8))
    (mb : BitVec 32 → BitVec 8) (sib : Option (BitVec 8)) (ds : List (BitVec 8))
    (AF : AddrFormL c ctx m mo pfx xb mb sib ds) (k0 : RegKind) (f0 f1 : FormOp)
    (hm64 : ctx.mode64 = true) (hmode : (rule.modes &&& 2 != 0) = true) (hopc : opcode &&& 0xF780FC00#32 = 0#32) (ho : opReg < 16#32)
    (hk0 : PlainKind k0) (R : LegRuleM rule 0 ((opcode >>> 21) &&& 3#32).toNat) (A : LegAgree rule opcode)
    (hf0 : f0.role = .reg) (hf1 : f1.role = .rm)
    (hal : alignOps rule.oszEff rule.ops [.reg k0 opReg.toNat, .mem mo] = some [(f0, some (.reg k0 opReg.toNat)), (f1, some (.mem mo))]) :
    ∃ bytes, emitX86M c opcode 0#32 opReg m 0 0 = .ok bytes ∧ formOk ctx rule [.reg k0 opReg.toNat, .mem mo] {} bytes = true := by
  rw [AF.emit opcode opReg 0 0 ho hopc]
  refine ⟨_, rfl, ?_⟩
  have ho7 : opReg &&& 7#32 < 8#32 := by bv_decide
  have hpplt : ((opcode >>> 21) &&& 3#32).toNat < 4 := R.hpplt
  obtain ⟨s1, s2, s3, s4⟩ := AF.shape _ ho7
  obtain ⟨p, hp, P, hR, F, hvk, hi⟩ := legM_parsed rule opcode opReg xb pfx _ sib ds 0 0 hopc ho AF.hxb R A (AF.hpl _ hpplt) s1 s2 s3 s4
  have hc := AF.chk rule p _ _ ho7 hpplt F hvk
  exact leg_rm_mem_formOk ctx rule p _ _ _ _ k0 f0 f1 _ mo hm64 hmode hk0 R hf0 hf1 (AF.hpc _ hpplt) AF.hvsib AF.hbc hal hp P hR hc

/-- legacy shape [MEM, reg]: the bytes of `EmitX86M` satisfy the monitor -/
theorem legM_mr_formOk (c : Model.X86.Ctx) (ctx : Spec.X86.Ctx) (rule : Rule) (opcode opReg xb : BitVec 32) (m : Mem) (mo : MemOp) (pfx : List (BitVec 8))
    (mb : BitVec 32 → BitVec 8) (sib : Option (BitVec 8)) (ds : List (BitVec 8))
    (AF : AddrFormL c ctx m mo pfx xb mb sib ds) (k0 : RegKind) (f0 f1 : FormOp)
    (hm64 : ctx.mode64 = true) (hmode : (rule.modes &&& 2 != 0) = true) (hopc : opcode &&& 0xF780FC00#32 = 0#32) (ho : opReg < 16#32)
    (hk0 : PlainKind k0) (R : LegRuleM rule 0 ((opcode >>> 21) &&& 3#32).toNat) (A : LegAgree rule opcode)
    (hf0 : f0.role = .rm) (hf1 : f1.role = .reg)
    (hal : alignOps rule.oszEff rule.ops [.mem mo, .reg k0 opReg.toNat] = some [(f0, some (.mem mo)), (f1, some (.reg k0 opReg.toNat))]) :
    ∃ bytes, emitX86M c opcode 0#32 opReg m 0 0 = .ok bytes ∧ formOk ctx rule [.mem mo, .reg k0 opReg.toNat] {} bytes = true := by
  rw [AF.emit opcode opReg 0 0 ho hopc]
  refine ⟨_, rfl, ?_⟩
  have ho7 : opReg &&& 7#32 < 8#32 := by bv_decide
  have hpplt : ((opcode >>> 21) &&& 3#32).toNat < 4 := R.hpplt
  obtain ⟨s1, s2, s3, s4⟩ := AF.shape _ ho7
  obtain ⟨p, hp, P, hR, F, hvk, hi⟩ := legM_parsed rule opcode opReg xb pfx _ sib ds 0 0 hopc ho AF.hxb R A (AF.hpl _ hpplt) s1 s2 s3 s4
  have hc := AF.chk rule p _ _ ho7 hpplt F hvk
  exact leg_mr_mem_formOk ctx rule p _ _ _ _ k0 f0 f1 _ mo hm64 hmode hk0 R hf0 hf1 (AF.hpc _ hpplt) AF.hvsib AF.hbc hal hp P hR hc

/-- legacy shape [MEM] (ModRM.reg = the digit handed over as `opReg`, or free): the bytes of `EmitX86M` satisfy the monitor -/
theorem legM_m_formOk (c : Model.X86.Ctx) (ctx : Spec.X86.Ctx) (rule : Rule) (opcode opReg xb : BitVec 32) (m : Mem) (mo : MemOp) (pfx : List (BitVec 8))
    (mb : BitVec 32 → BitVec 8) (sib : Option (BitVec 8)) (ds : List (BitVec 8))
    (AF : AddrFormL c ctx m mo pfx xb mb sib ds) (f0 : FormOp) (d : Nat)
    (hm64 : ctx.mode64 = true) (hmode : (rule.modes &&& 2 != 0) = true) (hopc : opcode &&& 0xF780FC00#32 = 0#32) (ho : opReg < 8#32)
    (R : LegRuleMD rule 0 ((opcode >>> 21) &&& 3#32).toNat d) (hd : d < 8 → opReg.toNat = d) (A : LegAgree rule opcode)
    (hf0 : f0.role = .rm)
    (hal : alignOps rule.oszEff rule.ops [.mem mo] = some [(f0, some (.mem mo))]) :
    ∃ bytes, emitX86M c opcode 0#32 opReg m 0 0 = .ok bytes ∧ formOk ctx rule [.mem mo] {} bytes = true := by
  have ho16 : opReg < 16#32 := by bv_decide
  rw [AF.emit opcode opReg 0 0 ho16 hopc]
  refine ⟨_, rfl, ?_⟩
  have ho7 : opReg &&& 7#32 < 8#32 := by bv_decide
  have hpplt : ((opcode >>> 21) &&& 3#32).toNat < 4 := R.hpplt
  obtain ⟨s1, s2, s3, s4⟩ := AF.shape _ ho7
  obtain ⟨p, hp, P, hR, F, hvk, hi⟩ := legM_parsed rule opcode opReg xb pfx _ sib ds 0 0 hopc ho16 AF.hxb R A (AF.hpl _ hpplt) s1 s2 s3 s4
  have hc := AF.chk rule p _ _ ho7 hpplt F hvk
  refine leg_m_mem_formOk ctx rule p _ _ _ _ d f0 mo hm64 hmode R ?_ hf0 (AF.hpc _ hpplt) AF.hvsib AF.hbc hal hp P hc
  intro hd8
  rw [s4, ← hd hd8]
  have : opReg &&& 7#32 = opReg := by bv_decide
  rw [this]

/-- legacy shape [MEM, imm] with a digit: the bytes of `EmitX86M` satisfy the monitor (the immediate's conditions are the hypothesis `hic`) -/
theorem legM_mi_formOk (c : Model.X86.Ctx) (ctx : Spec.X86.Ctx) (rule : Rule) (opcode opReg xb : BitVec 32) (m : Mem) (mo : MemOp) (pfx : List (BitVec 8))
    (mb : BitVec 32 → BitVec 8) (sib : Option (BitVec 8)) (ds : List (BitVec 8))
    (AF : AddrFormL c ctx m mo pfx xb mb sib ds) (f0 f3 : FormOp) (d : Nat) (v imm1 : BitVec 64) (isz : Nat)
    (hm64 : ctx.mode64 = true) (hmode : (rule.modes &&& 2 != 0) = true) (hopc : opcode &&& 0xF780FC00#32 = 0#32) (ho : opReg < 8#32)
    (R : LegRuleMD rule isz ((opcode >>> 21) &&& 3#32).toNat d) (hd : d < 8 → opReg.toNat = d) (A : LegAgree rule opcode)
    (hf0 : f0.role = .rm)
    (hic : ∀ p : Parsed, p.imm = emitImmediate imm1 isz → allOk (opConds ctx rule p 0 f3 (.imm v)).1 = true)
    (hal : alignOps rule.oszEff rule.ops [.mem mo, .imm v] = some [(f0, some (.mem mo)), (f3, some (.imm v))]) :
    ∃ bytes, emitX86M c opcode 0#32 opReg m imm1 isz = .ok bytes ∧ formOk ctx rule [.mem mo, .imm v] {} bytes = true := by
  have ho16 : opReg < 16#32 := by bv_decide
  rw [AF.emit opcode opReg imm1 isz ho16 hopc]
  refine ⟨_, rfl, ?_⟩
  have ho7 : opReg &&& 7#32 < 8#32 := by bv_decide
  have hpplt : ((opcode >>> 21) &&& 3#32).toNat < 4 := R.hpplt
  obtain ⟨s1, s2, s3, s4⟩ := AF.shape _ ho7
  obtain ⟨p, hp, P, hR, F, hvk, hi⟩ := legM_parsed rule opcode opReg xb pfx _ sib ds imm1 isz hopc ho16 AF.hxb R A (AF.hpl _ hpplt) s1 s2 s3 s4
  have hc := AF.chk rule p _ _ ho7 hpplt F hvk
  refine leg_mi_mem_formOk ctx rule p _ _ _ _ d isz f0 f3 mo v hm64 hmode R ?_ hf0 (hic p hi) (AF.hpc _ hpplt) AF.hvsib AF.hbc hal hp P hc
  intro hd8
  rw [s4, ← hd hd8]
  have : opReg &&& 7#32 = opReg := by bv_decide
  rw [this]

/-- legacy shape [MEM, register not encoded] with a digit -/
theorem legM_mreg_formOk (c : Model.X86.Ctx) (ctx : Spec.X86.Ctx) (rule : Rule) (opcode opReg xb : BitVec 32) (m : Mem) (mo : MemOp) (pfx : List (BitVec 8))
    (mb : BitVec 32 → BitVec 8) (sib : Option (BitVec 8)) (ds : List (BitVec 8))
    (AF : AddrFormL c ctx m mo pfx xb mb sib ds) (f0 f3 : FormOp) (d : Nat) (k1 : RegKind) (i1 : Nat) (imm1 : BitVec 64) (isz : Nat)
    (hm64 : ctx.mode64 = true) (hmode : (rule.modes &&& 2 != 0) = true) (hopc : opcode &&& 0xF780FC00#32 = 0#32) (ho : opReg < 8#32)
    (R : LegRuleMD rule isz ((opcode >>> 21) &&& 3#32).toNat d) (hd : d < 8 → opReg.toNat = d) (A : LegAgree rule opcode)
    (hf0 : f0.role = .rm)
    (hic : ∀ p : Parsed, p.imm = emitImmediate imm1 isz → allOk (opConds ctx rule p 0 f3 (.reg k1 i1)).1 = true)
    (hal : alignOps rule.oszEff rule.ops [.mem mo, .reg k1 i1] = some [(f0, some (.mem mo)), (f3, some (.reg k1 i1))]) :
    ∃ bytes, emitX86M c opcode 0#32 opReg m imm1 isz = .ok bytes ∧ formOk ctx rule [.mem mo, .reg k1 i1] {} bytes = true := by
  have ho16 : opReg < 16#32 := by bv_decide
  rw [AF.emit opcode opReg imm1 isz ho16 hopc]
  refine ⟨_, rfl, ?_⟩
  have ho7 : opReg &&& 7#32 < 8#32 := by bv_decide
  have hpplt : ((opcode >>> 21) &&& 3#32).toNat < 4 := R.hpplt
  obtain ⟨s1, s2, s3, s4⟩ := AF.shape _ ho7
  obtain ⟨p, hp, P, hR, F, hvk, hi⟩ := legM_parsed rule opcode opReg xb pfx _ sib ds imm1 isz hopc ho16 AF.hxb R A (AF.hpl _ hpplt) s1 s2 s3 s4
  have hc := AF.chk rule p _ _ ho7 hpplt F hvk
  refine leg_mreg_mem_formOk ctx rule p _ _ _ _ d isz f0 f3 mo k1 i1 hm64 hmode R ?_ hf0 (hic p hi) (AF.hpc _ hpplt) AF.hvsib AF.hbc hal hp P hc
  intro hd8
  rw [s4, ← hd hd8]
  have : opReg &&& 7#32 = opReg := by bv_decide
  rw [this]

/-- legacy shape [reg, MEM, imm8]: the bytes of `EmitX86M` satisfy the monitor -/
theorem legM_rmi_formOk (c : Model.X86.Ctx) (ctx : Spec.X86.Ctx) (rule : Rule) (opcode opReg xb : BitVec 32) (m : Mem) (mo : MemOp) (pfx : List (BitVec 8))
    (mb : BitVec 32 → BitVec 8) (sib : Option (BitVec 8)) (ds : List (BitVec 8))
    (AF : AddrFormL c ctx m mo pfx xb mb sib ds) (k0 : RegKind) (f0 f1 : FormOp)
    (hm64 : ctx.mode64 = true) (hmode : (rule.modes &&& 2 != 0) = true) (hopc : opcode &&& 0xF780FC00#32 = 0#32) (ho : opReg < 16#32)
    (hk0 : PlainKind k0) (R : LegRuleM rule 1 ((opcode >>> 21) &&& 3#32).toNat) (f3 : FormOp) (imm : BitVec 64) (hf3 : f3.role = .imm) (hib : immBitsOf f3 = 8) (hsg : (immSignOf f3 == 1) = false) (A : LegAgree rule opcode)
    (hf0 : f0.role = .reg) (hf1 : f1.role = .rm)
    (hal : alignOps rule.oszEff rule.ops [.reg k0 opReg.toNat, .mem mo, .imm imm] = some [(f0, some (.reg k0 opReg.toNat)), (f1, some (.mem mo)), (f3, some (.imm imm))]) :
    ∃ bytes, emitX86M c opcode 0#32 opReg m imm 1 = .ok bytes ∧ formOk ctx rule [.reg k0 opReg.toNat, .mem mo, .imm imm] {} bytes = true := by
  rw [AF.emit opcode opReg imm 1 ho hopc]
  refine ⟨_, rfl, ?_⟩
  have ho7 : opReg &&& 7#32 < 8#32 := by bv_decide
  have hpplt : ((opcode >>> 21) &&& 3#32).toNat < 4 := R.hpplt
  obtain ⟨s1, s2, s3, s4⟩ := AF.shape _ ho7
  obtain ⟨p, hp, P, hR, F, hvk, hi⟩ := legM_parsed rule opcode opReg xb pfx _ sib ds imm 1 hopc ho AF.hxb R A (AF.hpl _ hpplt) s1 s2 s3 s4
  have hc := AF.chk rule p _ _ ho7 hpplt F hvk
  exact leg_rmi_mem_formOk ctx rule p _ _ _ _ k0 f0 f1 _ mo hm64 hmode hk0 R f3 imm hf3 hib hsg (by simp [hi, emitImmediate]) hf0 hf1 (AF.hpc _ hpplt) AF.hvsib AF.hbc hal hp P hR hc

/-! ### the address form `seg:[base + disp]` for the legacy emitter -/

theorem segPfxL_ok (seg : Nat) (a32 : Bool) (pp : Nat) (mo : MemOp) (hpp : pp < 4) (hseg : mo.seg = seg) (hwa : wantedAddrSize true mo = (if a32 then 32 else 64)) :
    PfxList3 false ((segmentPrefix seg ++ aoBytes a32) ++ ppBytes pp) ∧ PfxCountsL ((segmentPrefix seg ++ aoBytes a32) ++ ppBytes pp) mo pp ∧
    ((segmentPrefix seg ++ aoBytes a32) ++ ppBytes pp).contains 0x67#8 = a32 := by
  have hc : seg = 0 ∨ seg = 1 ∨ seg = 2 ∨ seg = 3 ∨ seg = 4 ∨ seg = 5 ∨ seg = 6 ∨ 7 ≤ seg := by omega
  have hp : pp = 0 ∨ pp = 1 ∨ pp = 2 ∨ pp = 3 := by omega
  have key : ∀ s : Nat, ∀ a : Bool, ∀ q : Nat, (s = 0 ∨ s = 1 ∨ s = 2 ∨ s = 3 ∨ s = 4 ∨ s = 5 ∨ s = 6 ∨ 7 ≤ s) → (q = 0 ∨ q = 1 ∨ q = 2 ∨ q = 3) →
      PfxList3 false ((segmentPrefix s ++ aoBytes a) ++ ppBytes q) ∧
      ((segmentPrefix s ++ aoBytes a) ++ ppBytes q).count 0x66#8 = (if q == 1 then 1 else 0) ∧
      ((segmentPrefix s ++ aoBytes a) ++ ppBytes q).count 0xF3#8 = (if q == 2 then 1 else 0) ∧
      ((segmentPrefix s ++ aoBytes a) ++ ppBytes q).count 0xF2#8 = (if q == 3 then 1 else 0) ∧
      ((segmentPrefix s ++ aoBytes a) ++ ppBytes q).count 0xF0#8 = 0 ∧ ((segmentPrefix s ++ aoBytes a) ++ ppBytes q).count 0x9B#8 = 0 ∧
      ((segmentPrefix s ++ aoBytes a) ++ ppBytes q).filter isSegByte = (match segPrefix s with | some b => [b] | Option.none => []) ∧
      ((segmentPrefix s ++ aoBytes a) ++ ppBytes q).count 0x67#8 ≤ 1 ∧ ((segmentPrefix s ++ aoBytes a) ++ ppBytes q).contains 0x67#8 = a := by
    intro s a q hs hq
    have hlist : ∀ l : List (BitVec 8), l.length ≤ 3 → (∀ x ∈ l, isLegacyPrefix x false = true) → PfxList3 false l := by
      intro l hl hx
      match l, hl, hx with
      | [], _, _ => exact Or.inl (Or.inl rfl)
      | [x], _, hx => exact Or.inl (Or.inr (Or.inl ⟨x, rfl, hx x (by simp)⟩))
      | [x, y], _, hx => exact Or.inl (Or.inr (Or.inr ⟨x, y, rfl, hx x (by simp), hx y (by simp)⟩))
      | [x, y, z], _, hx => exact Or.inr ⟨x, y, z, rfl, hx x (by simp), hx y (by simp), hx z (by simp)⟩
    rcases hs with h | h | h | h | h | h | h | h
    iterate 7 (subst h; rcases hq with h' | h' | h' | h' <;> subst h' <;> cases a <;>
      (refine ⟨hlist _ (by decide) (by decide), by decide⟩))
    obtain ⟨k, rfl⟩ : ∃ k, s = k + 7 := ⟨s - 7, by omega⟩
    rcases hq with h' | h' | h' | h' <;> subst h' <;> cases a <;>
      (refine ⟨hlist _ (by simp [segmentPrefix, aoBytes, ppBytes]) (by simp [segmentPrefix, aoBytes, ppBytes, isLegacyPrefix]), ?_⟩;
       simp [segmentPrefix, segPrefix, aoBytes, ppBytes, isSegByte])
  obtain ⟨a, c66, cF3, cF2, cF0, c9B, cseg, c67, cc⟩ := key seg a32 pp hc hp
  exact ⟨a, ⟨c66, cF3, cF2, cF0, c9B, by rw [hseg]; exact cseg, c67, by rw [cc, hwa]; cases a32 <;> rfl⟩, cc⟩

/-- `EmitX86M` on `seg:[base + disp]` -/
theorem emitX86M_base_bytes (c : Model.X86.Ctx) (opcode opReg rb : BitVec 32) (size : Nat) (d imm : BitVec 64) (n : Nat) (seg : Nat) (a32 : Bool)
    (hm : c.mode64 = true) (hts : c.tsib = false) (ho : opReg < 16#32) (hb : rb < 16#32) (hopc : opcode &&& 0xF780FC00#32 = 0#32) :
    emitX86M c opcode 0#32 opReg (memBase size rb d seg a32) imm n =
      .ok ((segmentPrefix seg ++ aoBytes a32) ++ ppBytes ((opcode >>> 21) &&& 3#32).toNat ++ ((rexOfM opcode opReg rb).toList ++
           (legacyEscape ((opcode >>> 8) &&& 3#32).toNat ++
            opcode.truncate 8 :: memMb (opReg &&& 7#32) rb (d.truncate 32) 0#32 :: ((memSib (opReg &&& 7#32) rb (d.truncate 32) 0#32).toList ++
              memDs rb (d.truncate 32) 0#32 ++ emitImmediate imm n)))) := by
  have hoff : (memBase size rb d seg a32).offLo32 = d.truncate 32 := rfl
  have hcd : cdShiftOf opcode = 0#32 := by simp only [cdShiftOf, kCDSHL_Mask]; bv_decide
  have hrexok : ∀ ri : BitVec 32, ri = 0x0D#32 ∨ ri = 0x8D#32 →
      ¬ ((((rb >>> 3) &&& 1#32) ||| ((0#32 >>> 2) &&& 2#32) ||| ((opReg >>> 1) &&& 4#32)) &&& ri ||| extractRex opcode 0#32) > 0x80#32 := by
    intro ri hri; simp only [extractRex]; rcases hri with h | h <;> subst h <;> bv_decide
  have hrexeq : ∀ ri : BitVec 32, ri = 0x0D#32 ∨ ri = 0x8D#32 →
      ((((rb >>> 3) &&& 1#32) ||| ((0#32 >>> 2) &&& 2#32) ||| ((opReg >>> 1) &&& 4#32)) &&& ri ||| extractRex opcode 0#32) &&& 0x7F#32 =
      (((rb >>> 3) &&& 1#32) ||| ((rb >>> 3) &&& 2#32) ||| ((opReg >>> 1) &&& 4#32) ||| extractRex opcode 0#32) &&& 0x7F#32 := by
    intro ri hri; simp only [extractRex]; rcases hri with h | h <;> subst h <;> bv_decide
  unfold emitX86M
  cases a32
  · have h1 := hrexok 0x0D#32 (Or.inl rfl)
    have h2 := hrexeq 0x0D#32 (Or.inl rfl)
    simp only [memBase, Bool.false_eq_true, ↓reduceIte, memInfo_gp64, Model.X86.Ctx.aoMask, hm, BitVec.ofNat_toNat, BitVec.setWidth_eq,
      show (0x0D#32 &&& 0x80#32 != 0#32) = false from by decide, emitRex, h1, bind, Except.bind, pure, Except.pure, BitVec.ofNat_eq_ofNat, h2,
      emitPP_eq opcode (by bv_decide), emitMM_eq opcode (by bv_decide)]
    rw [emitModSib_base_parts c _ _ _ _ _ rb 0#32 0x0D#32 _ imm n hts (by decide) (by decide)]
    simp only [hcd, aoBytes, rexOfM, memMb, memSib, memDs, Bool.false_eq_true, ↓reduceIte]
    split <;> simp [Mem.offLo32]
  · have h1 := hrexok 0x8D#32 (Or.inr rfl)
    have h2 := hrexeq 0x8D#32 (Or.inr rfl)
    simp only [memBase, ↓reduceIte, memInfo_gp32, Model.X86.Ctx.aoMask, hm, BitVec.ofNat_toNat, BitVec.setWidth_eq,
      show (0x8D#32 &&& 0x80#32 != 0#32) = true from by decide, emitRex, h1, bind, Except.bind, pure, Except.pure, BitVec.ofNat_eq_ofNat, h2,
      emitPP_eq opcode (by bv_decide), emitMM_eq opcode (by bv_decide)]
    rw [emitModSib_base_parts c _ _ _ _ _ rb 0#32 0x8D#32 _ imm n hts (by decide) (by decide)]
    simp only [hcd, aoBytes, rexOfM, memMb, memSib, memDs, ↓reduceIte]
    split <;> simp [Mem.offLo32]

/-- the address form `seg:[base + disp]` (64-bit or - `a32` - 32-bit base register) for the legacy emitter -/
theorem addrFormL_base (c : Model.X86.Ctx) (ctx : Spec.X86.Ctx) (rb : BitVec 32) (size : Nat) (d : BitVec 64) (seg : Nat) (a32 : Bool)
    (hm : c.mode64 = true) (hts : c.tsib = false) (hm64 : ctx.mode64 = true) (hb : rb < 16#32) :
    AddrFormL c ctx (memBase size rb d seg a32) (memOpBase size rb d seg a32) (segmentPrefix seg ++ aoBytes a32) rb
      (fun o7 => memMb o7 rb (d.truncate 32) 0#32) (memSib 0#32 rb (d.truncate 32) 0#32) (memDs rb (d.truncate 32) 0#32) := by
  have hsibeq : ∀ o7 : BitVec 32, memSib o7 rb (d.truncate 32) 0#32 = memSib 0#32 rb (d.truncate 32) 0#32 := by
    intro o7; simp only [memSib, memHead]; split <;> rfl
  refine ⟨by bv_decide, ?_, ?_, rfl, rfl, ?_, ?_, ?_⟩
  · intro pp hpp
    exact (segPfxL_ok seg a32 pp (memOpBase size rb d seg a32) hpp rfl (by cases a32 <;> rfl)).1
  · intro pp hpp
    exact (segPfxL_ok seg a32 pp (memOpBase size rb d seg a32) hpp rfl (by cases a32 <;> rfl)).2.1
  · intro o7 ho
    have := memParts_shape o7 rb (d.truncate 32) 0#32 ho
    rw [← hsibeq o7]
    exact this
  · intro rule p o7 pp ho hpp F hvk
    have h67 := (segPfxL_ok seg a32 pp (memOpBase size rb d seg a32) hpp rfl (by cases a32 <;> rfl)).2.2
    have hx4 : rb.getLsbD 4 = false := by bv_decide
    rw [hx4, ← hsibeq o7] at F
    exact memParts_checkMem ctx rule p o7 rb 0#32 size d hm64 ho hb (by decide) seg a32 0 _ h67 F (by simp [hvk])
  · intro opcode opReg imm n ho hopc
    rw [emitX86M_base_bytes c opcode opReg rb size d imm n seg a32 hm hts ho hb hopc, hsibeq]

/-! ### the address forms `seg:[base + index * scale + disp]` and `seg:[rip + disp32]` for the legacy emitter -/

theorem emitX86M_index_bytes (c : Model.X86.Ctx) (opcode opReg rb rx : BitVec 32) (size sh : Nat) (d imm : BitVec 64) (n : Nat) (seg : Nat) (a32 : Bool)
    (hm : c.mode64 = true) (ho : opReg < 16#32) (hb : rb < 16#32) (hx : rx < 16#32) (hx4 : rx ≠ 4#32) (hopc : opcode &&& 0xF780FC00#32 = 0#32) :
    emitX86M c opcode 0#32 opReg (memBaseIndex size rb rx sh d seg a32) imm n =
      .ok ((segmentPrefix seg ++ aoBytes a32) ++ ppBytes ((opcode >>> 21) &&& 3#32).toNat ++ ((rexOfM opcode opReg (xbOf rb rx)).toList ++
           (legacyEscape ((opcode >>> 8) &&& 3#32).toNat ++
            opcode.truncate 8 :: idxMb (opReg &&& 7#32) (memVariant (rb &&& 7#32) (d.truncate 32) 0#32) ::
              ((some (idxSib (BitVec.ofNat 32 sh) (rx &&& 7#32) (rb &&& 7#32))).toList ++ memDs rb (d.truncate 32) 0#32 ++ emitImmediate imm n)))) := by
  have hcd : cdShiftOf opcode = 0#32 := by simp only [cdShiftOf, kCDSHL_Mask]; bv_decide
  have hrexok : ∀ ri : BitVec 32, ri = 0x0F#32 ∨ ri = 0x8F#32 →
      ¬ ((((rb >>> 3) &&& 1#32) ||| ((rx >>> 2) &&& 2#32) ||| ((opReg >>> 1) &&& 4#32)) &&& ri ||| extractRex opcode 0#32) > 0x80#32 := by
    intro ri hri; simp only [extractRex]; rcases hri with h | h <;> subst h <;> bv_decide
  have hrexeq : ∀ ri : BitVec 32, ri = 0x0F#32 ∨ ri = 0x8F#32 →
      ((((rb >>> 3) &&& 1#32) ||| ((rx >>> 2) &&& 2#32) ||| ((opReg >>> 1) &&& 4#32)) &&& ri ||| extractRex opcode 0#32) &&& 0x7F#32 =
      (((xbOf rb rx >>> 3) &&& 1#32) ||| ((xbOf rb rx >>> 3) &&& 2#32) ||| ((opReg >>> 1) &&& 4#32) ||| extractRex opcode 0#32) &&& 0x7F#32 := by
    intro ri hri; simp only [extractRex, xbOf]; rcases hri with h | h <;> subst h <;> bv_decide
  unfold emitX86M
  cases a32
  · have h1 := hrexok 0x0F#32 (Or.inl rfl)
    have h2 := hrexeq 0x0F#32 (Or.inl rfl)
    simp only [memBaseIndex, Bool.false_eq_true, ↓reduceIte, memInfo_gp64_gp64, Model.X86.Ctx.aoMask, hm, BitVec.ofNat_toNat, BitVec.setWidth_eq,
      show (0x0F#32 &&& 0x80#32 != 0#32) = false from by decide, emitRex, h1, bind, Except.bind, pure, Except.pure, BitVec.ofNat_eq_ofNat, h2,
      emitPP_eq opcode (by bv_decide), emitMM_eq opcode (by bv_decide)]
    rw [emitModSib_index_parts c _ _ _ _ _ rb rx 0x0F#32 _ imm n (by decide) (by decide) (by decide) hx4]
    simp only [hcd, aoBytes, rexOfM, memDs, Bool.false_eq_true, ↓reduceIte]
    split <;> simp [Mem.offLo32]
  · have h1 := hrexok 0x8F#32 (Or.inr rfl)
    have h2 := hrexeq 0x8F#32 (Or.inr rfl)
    simp only [memBaseIndex, ↓reduceIte, memInfo_gp32_gp32, Model.X86.Ctx.aoMask, hm, BitVec.ofNat_toNat, BitVec.setWidth_eq,
      show (0x8F#32 &&& 0x80#32 != 0#32) = true from by decide, emitRex, h1, bind, Except.bind, pure, Except.pure, BitVec.ofNat_eq_ofNat, h2,
      emitPP_eq opcode (by bv_decide), emitMM_eq opcode (by bv_decide)]
    rw [emitModSib_index_parts c _ _ _ _ _ rb rx 0x8F#32 _ imm n (by decide) (by decide) (by decide) hx4]
    simp only [hcd, aoBytes, rexOfM, memDs, ↓reduceIte]
    split <;> simp [Mem.offLo32]

theorem addrFormL_index (c : Model.X86.Ctx) (ctx : Spec.X86.Ctx) (rb rx : BitVec 32) (size sh : Nat) (d : BitVec 64) (seg : Nat) (a32 : Bool)
    (hm : c.mode64 = true) (hm64 : ctx.mode64 = true) (hb : rb < 16#32) (hx : rx < 16#32) (hx4 : rx ≠ 4#32) (hsh : sh < 4) :
    AddrFormL c ctx (memBaseIndex size rb rx sh d seg a32) (memOpBaseIndex size rb rx sh d seg a32) (segmentPrefix seg ++ aoBytes a32) (xbOf rb rx)
      (fun o7 => idxMb o7 (memVariant (rb &&& 7#32) (d.truncate 32) 0#32)) (some (idxSib (BitVec.ofNat 32 sh) (rx &&& 7#32) (rb &&& 7#32)))
      (memDs rb (d.truncate 32) 0#32) := by
  have hwa : wantedAddrSize true (memOpBaseIndex size rb rx sh d seg a32) = (if a32 then 32 else 64) := by cases a32 <;> rfl
  have AFv := addrForm_index (c := { c with preferEvex := false, extraId := 0#32, vsib := false }) ctx rb rx 0#32 size sh d seg a32 hm rfl rfl (by decide) rfl hm64 hb hx hx4 hsh
  refine ⟨AFv.hxb, ?_, ?_, by cases a32 <;> rfl, rfl, ?_, ?_, ?_⟩
  · intro pp hpp
    exact (segPfxL_ok seg a32 pp _ hpp rfl hwa).1
  · intro pp hpp
    exact (segPfxL_ok seg a32 pp _ hpp rfl hwa).2.1
  · intro o7 ho
    exact AFv.shape o7 0#32 ho
  · intro rule p o7 pp ho hpp F hvk
    have h67 := (segPfxL_ok seg a32 pp _ hpp rfl hwa).2.2
    have h3 : (xbOf rb rx).getLsbD 3 = rb.getLsbD 3 := by simp only [xbOf]; bv_decide
    have h4 : (xbOf rb rx).getLsbD 4 = rx.getLsbD 3 := by simp only [xbOf]; bv_decide
    rw [h3, h4] at F
    exact idxParts_checkMem ctx rule p o7 rb rx 0#32 size sh d hm64 ho hb hx hx4 hsh (by decide) seg a32 0 _ h67 F (by simp [hvk])
  · intro opcode opReg imm n ho hopc
    exact emitX86M_index_bytes c opcode opReg rb rx size sh d imm n seg a32 hm ho hb hx hx4 hopc

theorem emitX86M_rip_bytes (c : Model.X86.Ctx) (opcode opReg : BitVec 32) (size : Nat) (d imm : BitVec 64) (n : Nat) (seg : Nat)
    (hm : c.mode64 = true) (ho : opReg < 16#32) (hopc : opcode &&& 0xF780FC00#32 = 0#32) :
    emitX86M c opcode 0#32 opReg (memRip size d seg) imm n =
      .ok ((segmentPrefix seg ++ aoBytes false) ++ ppBytes ((opcode >>> 21) &&& 3#32).toNat ++ ((rexOfM opcode opReg 0#32).toList ++
           (legacyEscape ((opcode >>> 8) &&& 3#32).toNat ++
            opcode.truncate 8 :: ripMb (opReg &&& 7#32) :: ((none : Option (BitVec 8)).toList ++ le32 (d.truncate 32) ++ emitImmediate imm n)))) := by
  have h1 : ¬ ((((0#32 >>> 3) &&& 1#32) ||| ((0#32 >>> 2) &&& 2#32) ||| ((opReg >>> 1) &&& 4#32)) &&& 0x2C#32 ||| extractRex opcode 0#32) > 0x80#32 := by
    simp only [extractRex]; bv_decide
  have h2 : ((((0#32 >>> 3) &&& 1#32) ||| ((0#32 >>> 2) &&& 2#32) ||| ((opReg >>> 1) &&& 4#32)) &&& 0x2C#32 ||| extractRex opcode 0#32) &&& 0x7F#32 =
      (((0#32 >>> 3) &&& 1#32) ||| ((0#32 >>> 3) &&& 2#32) ||| ((opReg >>> 1) &&& 4#32) ||| extractRex opcode 0#32) &&& 0x7F#32 := by
    simp only [extractRex]; bv_decide
  unfold emitX86M
  simp only [memRip, memInfo_rip, Model.X86.Ctx.aoMask, hm, ↓reduceIte, BitVec.ofNat_eq_ofNat,
    show (0x2C#32 &&& 0x80#32 != 0#32) = false from by decide, emitRex, h1, bind, Except.bind, pure, Except.pure, h2,
    emitPP_eq opcode (by bv_decide), emitMM_eq opcode (by bv_decide)]
  rw [emitModSib_rip_parts c _ _ _ _ _ 0#32 0#32 _ imm n hm]
  simp only [aoBytes, rexOfM, Bool.false_eq_true, ↓reduceIte]
  split <;> simp [Mem.offLo32]

theorem addrFormL_rip (c : Model.X86.Ctx) (ctx : Spec.X86.Ctx) (size : Nat) (d : BitVec 64) (seg : Nat)
    (hm : c.mode64 = true) (hm64 : ctx.mode64 = true) :
    AddrFormL c ctx (memRip size d seg) (memOpRip size d seg) (segmentPrefix seg ++ aoBytes false) 0#32
      (fun o7 => ripMb o7) none (le32 (d.truncate 32)) := by
  have hwa : wantedAddrSize true (memOpRip size d seg) = (if false then 32 else 64) := by simp [wantedAddrSize, memOpRip]
  have AFv := addrForm_rip (c := { c with preferEvex := false, extraId := 0#32, vsib := false }) ctx 0#32 size d seg hm rfl rfl (by decide) rfl hm64
  refine ⟨by decide, ?_, ?_, rfl, rfl, ?_, ?_, ?_⟩
  · intro pp hpp
    exact (segPfxL_ok seg false pp _ hpp rfl hwa).1
  · intro pp hpp
    exact (segPfxL_ok seg false pp _ hpp rfl hwa).2.1
  · intro o7 ho
    exact AFv.shape o7 0#32 ho
  · intro rule p o7 pp ho hpp F hvk
    have h67 := (segPfxL_ok seg false pp _ hpp rfl hwa).2.2
    obtain ⟨hpm, hps, hpd, hpv, hpp', hpa, hpB, hpX⟩ := F
    obtain ⟨f1, f2, f3⟩ := ripMb_factsBV o7 ho
    refine checkMem_rip ctx rule p (memOpRip size d seg) _ hm64 (by rw [hpp']; exact h67) hpa hpm f1 f2 rfl rfl hps (by rw [hpd]; rfl) ?_
    rw [hpv, leNat_le32]
    simp [memOpRip, BitVec.toNat_setWidth]
  · intro opcode opReg imm n ho hopc
    exact emitX86M_rip_bytes c opcode opReg size d imm n seg hm ho hopc

end AsmjitVerif.Props.C01
