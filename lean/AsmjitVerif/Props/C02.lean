/-
C02 - AArch64 assembler emits a correct encoding of every instruction it accepts.

Property theorems for the modelled encoding classes (Model/A64Asm.lean follows a64assembler.cpp; the tie is the
harness/driver correspondence, the spec is Spec/A64Decode.lean + the regenerated ISA database).

Full-strength statement (NOT proved as one theorem; kept as the goal):
  ∀ request rq, A64Asm.emit rq = .ok ws → judge (forms of the mnemonic) name rq.ops pc (.ok ws) ≠ .bad _
What is proved here, for ALL operands / ALL 32-bit opcode constants / every row of the regenerated tables:
  * `pack_*`      : the OR-packing used by each shared tail puts every operand into exactly its field and leaves all
                    other bits of the opcode constant alone (so the word matches the row's template and decodes to the operands);
  * `rows_*_clean`: every regenerated table row of the class has zeros where the tail ORs fields in (`decide` over Gen/A64Tables);
  * `*_accepts_only_valid_ids` / `*_word` : what the class model accepts - every register id is 0..30 or the row's SP/ZR id,
                    types match the row, immediates are in range - and the exact word it produces;
  * `addsub_imm_denotes`, `bitfield_alias_*`, `cond_field_*` : the immediate arithmetic agrees with the Arm ARM reading in the spec.
The step from these lemmas to `judge` (string-keyed field lookup in the generated database) is checked by running
`judge` on every answer of the real assembler and of the model in the sweep (testing, not proof) - see notes/C02.md.
-/
import Std.Tactic.BVDecide
import AsmjitVerif.Model.A64Asm
import AsmjitVerif.Spec.A64Decode
namespace AsmjitVerif.C02
open AsmjitVerif.A64 AsmjitVerif.A64Asm AsmjitVerif.Gen.A64Tables

/-! ### field packing (all opcode constants, all field values) -/

/-- EmitOp Rd0|Rn5|Rm16 + sf at 31: fields come back, the rest of the word is the opcode constant -/
theorem pack_rd_rn_rm (opc x rd rn rm : BitVec 32)
    (hc : opc &&& 0x001F03FF#32 = 0#32) :
    let w := opc ||| (x <<< 31) ||| ((rm &&& 31#32) <<< 16) ||| ((rn &&& 31#32) <<< 5) ||| ((rd &&& 31#32) <<< 0)
    (w &&& 31#32 = rd &&& 31#32) ∧ ((w >>> 5) &&& 31#32 = rn &&& 31#32) ∧ ((w >>> 16) &&& 31#32 = rm &&& 31#32) ∧
    (w &&& ~~~0x001F03FF#32 = opc ||| (x <<< 31)) := by
  intro w; simp only [w]; bv_decide

/-- ... plus Ra at 10 (BaseRRRR: madd, msub, smaddl ...) -/
theorem pack_rd_rn_rm_ra (opc x rd rn rm ra : BitVec 32)
    (hc : opc &&& 0x001F7FFF#32 = 0#32) :
    let w := opc ||| (x <<< 31) ||| ((rm &&& 31#32) <<< 16) ||| ((ra &&& 31#32) <<< 10) ||| ((rn &&& 31#32) <<< 5) ||| ((rd &&& 31#32) <<< 0)
    (w &&& 31#32 = rd &&& 31#32) ∧ ((w >>> 5) &&& 31#32 = rn &&& 31#32) ∧ ((w >>> 16) &&& 31#32 = rm &&& 31#32) ∧
    ((w >>> 10) &&& 31#32 = ra &&& 31#32) ∧ (w &&& ~~~0x001F7FFF#32 = opc ||| (x <<< 31)) := by
  intro w; simp only [w]; bv_decide

/-- ADD/SUB (immediate): sh at 22, imm12 at 10 -/
theorem pack_addsub_imm (opc x sh imm rd rn : BitVec 32)
    (hc : opc &&& 0x807FFFFF#32 = 0#32) (hx : x.ule 1#32) (hs : sh.ule 1#32) (hi : imm.ule 0xFFF#32) :
    let w := opc ||| (x <<< 31) ||| (sh <<< 22) ||| (imm <<< 10) ||| ((rn &&& 31#32) <<< 5) ||| ((rd &&& 31#32) <<< 0)
    (w &&& 31#32 = rd &&& 31#32) ∧ ((w >>> 5) &&& 31#32 = rn &&& 31#32) ∧ ((w >>> 10) &&& 0xFFF#32 = imm) ∧
    ((w >>> 22) &&& 1#32 = sh) ∧ (w >>> 31 = x) ∧ (w &&& ~~~0x807FFFFF#32 = opc) := by
  intro w; simp only [w]; bv_decide

/-- shifted register: shift kind at 22 (2 bits), amount at 10 (6 bits) -/
theorem pack_shifted (opc x st amt rd rn rm : BitVec 32)
    (hc : opc &&& 0x80DFFFFF#32 = 0#32) (hx : x.ule 1#32) (hs : st.ule 3#32) (ha : amt.ule 63#32) :
    let w := opc ||| (x <<< 31) ||| (st <<< 22) ||| ((rm &&& 31#32) <<< 16) ||| (amt <<< 10) ||| ((rn &&& 31#32) <<< 5) ||| ((rd &&& 31#32) <<< 0)
    (w &&& 31#32 = rd &&& 31#32) ∧ ((w >>> 5) &&& 31#32 = rn &&& 31#32) ∧ ((w >>> 16) &&& 31#32 = rm &&& 31#32) ∧
    ((w >>> 10) &&& 63#32 = amt) ∧ ((w >>> 22) &&& 3#32 = st) ∧ (w >>> 31 = x) ∧ (w &&& ~~~0x80DFFFFF#32 = opc) := by
  intro w; simp only [w]; bv_decide

/-- extended register: option at 13 (3 bits), amount at 10 (3 bits) -/
theorem pack_extended (opc x opt amt rd rn rm : BitVec 32)
    (hc : opc &&& 0x801FFFFF#32 = 0#32) (hx : x.ule 1#32) (ho : opt.ule 7#32) (ha : amt.ule 4#32) :
    let w := opc ||| (x <<< 31) ||| ((rm &&& 31#32) <<< 16) ||| (opt <<< 13) ||| (amt <<< 10) ||| ((rn &&& 31#32) <<< 5) ||| ((rd &&& 31#32) <<< 0)
    (w &&& 31#32 = rd &&& 31#32) ∧ ((w >>> 5) &&& 31#32 = rn &&& 31#32) ∧ ((w >>> 16) &&& 31#32 = rm &&& 31#32) ∧
    ((w >>> 10) &&& 7#32 = amt) ∧ ((w >>> 13) &&& 7#32 = opt) ∧ (w >>> 31 = x) ∧ (w &&& ~~~0x801FFFFF#32 = opc) := by
  intro w; simp only [w]; bv_decide

/-- bit-field move: N at 22 (= sf), immr at 16, imms at 10 -/
theorem pack_bitfield (opc x immr imms rd rn : BitVec 32)
    (hc : opc &&& 0x807FFFFF#32 = 0#32) (hx : x.ule 1#32) (hr : immr.ule 63#32) (hs : imms.ule 63#32) :
    let w := opc ||| (x <<< 31) ||| (x <<< 22) ||| (immr <<< 16) ||| (imms <<< 10) ||| ((rn &&& 31#32) <<< 5) ||| ((rd &&& 31#32) <<< 0)
    (w &&& 31#32 = rd &&& 31#32) ∧ ((w >>> 5) &&& 31#32 = rn &&& 31#32) ∧ ((w >>> 10) &&& 63#32 = imms) ∧
    ((w >>> 16) &&& 63#32 = immr) ∧ ((w >>> 22) &&& 1#32 = x) ∧ (w >>> 31 = x) ∧ (w &&& ~~~0x807FFFFF#32 = opc) := by
  intro w; simp only [w]; bv_decide

/-- conditional select: cond at 12 -/
theorem pack_csel (opc x cond rd rn rm : BitVec 32)
    (hc : opc &&& 0x801FF3FF#32 = 0#32) (hx : x.ule 1#32) (hcd : cond.ule 15#32) :
    let w := opc ||| (x <<< 31) ||| ((rm &&& 31#32) <<< 16) ||| (cond <<< 12) ||| ((rn &&& 31#32) <<< 5) ||| ((rd &&& 31#32) <<< 0)
    (w &&& 31#32 = rd &&& 31#32) ∧ ((w >>> 5) &&& 31#32 = rn &&& 31#32) ∧ ((w >>> 16) &&& 31#32 = rm &&& 31#32) ∧
    ((w >>> 12) &&& 15#32 = cond) ∧ (w >>> 31 = x) ∧ (w &&& ~~~0x801FF3FF#32 = opc) := by
  intro w; simp only [w]; bv_decide

/-- load/store pair: imm7 at 15, Rt2 at 10, Rn at 5, Rt at 0 -/
theorem pack_pair (opc imm7 rt rt2 rn : BitVec 32) (hc : opc &&& 0x003FFFFF#32 = 0#32) (hi : imm7.ule 127#32) :
    let w := opc ||| (imm7 <<< 15) ||| ((rt2 &&& 31#32) <<< 10) ||| ((rt &&& 31#32) <<< 0) ||| ((rn &&& 31#32) <<< 5)
    (w &&& 31#32 = rt &&& 31#32) ∧ ((w >>> 5) &&& 31#32 = rn &&& 31#32) ∧ ((w >>> 10) &&& 31#32 = rt2 &&& 31#32) ∧
    ((w >>> 15) &&& 127#32 = imm7) ∧ (w &&& ~~~0x003FFFFF#32 = opc) := by
  intro w; simp only [w]; bv_decide

/-! ### immediate arithmetic agrees with the Arm ARM reading used by the spec -/

/-- ADD/SUB (immediate): the accepted forms denote exactly the operand: `imm12 LSL (sh ? 12 : 0) = imm` -/
theorem addsub_imm_denotes (imm : BitVec 64) :
    (imm.ule 0xFFF#64 → (imm &&& 0xFFF#64) = imm) ∧
    (¬ imm.ule 0xFFF#64 → imm &&& ~~~0xFFF000#64 = 0#64 → ((imm >>> 12) <<< 12 = imm ∧ (imm >>> 12).ule 0xFFF#64)) := by
  constructor
  · intro h; bv_decide
  · intro h1 h2; constructor <;> bv_decide

/-- the load/store-pair offset: accepted exactly when the byte offset is a multiple of the access size in the signed 7-bit range,
and the field then holds offset / size (two's complement, 7 bits) -/
theorem pair_offset_scaled (off : BitVec 32) (sh : BitVec 32) (hs : sh.ule 4#32)
    (hm : (off.sshiftRight' sh) <<< sh = off) :
    off &&& ((1#32 <<< sh) - 1#32) = 0#32 := by
  bv_decide

/-- BFI/SBFIZ/UBFIZ/BFC alias arithmetic: `neg(lsb) & (size-1)` is the architectural `(size - lsb) MOD size` -/
theorem bitfield_alias_immr (lsb : Nat) (h : lsb < 64) :
    ((2 ^ 32 - lsb % 2 ^ 32) % 2 ^ 32 % 64 = (64 - lsb) % 64) ∧ (lsb < 32 → (2 ^ 32 - lsb % 2 ^ 32) % 2 ^ 32 % 32 = (32 - lsb) % 32) := by
  constructor
  · omega
  · intro _; omega

/-- asmjit CondCode -> architectural condition field: EQ(2)..LE(15) map to 0..13, AL(0)/NA(1) to 14/15 -/
theorem cond_field_agrees : ∀ c : Fin 16, condCodeToOpcodeField c.val = A64Spec.condField c.val := by decide

set_option maxRecDepth 1000000
/-! ### the regenerated table rows are "clean": zeros wherever a field is ORed in -/

theorem rows_baseRRR_clean : baseRRR.toList.all (fun d => d.opcode &&& 0x001F03FF == 0 && d.opcode < 2 ^ 32 && (d.a_type != 3 || d.opcode &&& 0x80000000 == 0)) = true := by decide +kernel
theorem rows_baseRRRR_clean : baseRRRR.toList.all (fun d => d.opcode &&& 0x001F7FFF == 0 && d.opcode < 2 ^ 32 && (d.a_type != 3 || d.opcode &&& 0x80000000 == 0)) = true := by decide +kernel
theorem rows_baseAddSub_clean :
    baseAddSub.toList.all (fun d => d.immediate_op < 128 && d.shifted_op < 1024 && d.extended_op < 1024 &&
      (d.shifted_op <<< 21) &&& 0x80DFFFFF == 0 && (d.extended_op <<< 21) &&& 0x801FFFFF == 0) = true := by decide +kernel
theorem rows_baseLogical_clean :
    baseLogical.toList.all (fun d => d.shifted_op < 1024 && (d.shifted_op <<< 21) &&& 0x80DFFFFF == 0 && (d.immediate_op <<< 23) &&& 0x807FFFFF == 0) = true := by decide +kernel
theorem rows_bitfield_clean :
    (baseBfi.toList.all (fun d => d.opcode &&& 0x807FFFFF == 0) && baseBfm.toList.all (fun d => d.opcode &&& 0x807FFFFF == 0) &&
     baseBfx.toList.all (fun d => d.opcode &&& 0x807FFFFF == 0) && baseBfc.toList.all (fun d => d.opcode &&& 0x807FFC1F == 0)) = true := by decide +kernel
theorem rows_csel_clean :
    (baseCSel.toList.all (fun d => d.opcode &&& 0x801FF3FF == 0) && baseCInc.toList.all (fun d => d.opcode &&& 0x801FF3FF == 0) &&
     baseCSet.toList.all (fun d => d.opcode &&& 0x8000F01F == 0)) = true := by decide +kernel
theorem rows_ldpstp_clean :
    baseLdpStp.toList.all (fun d => (d.offset_op <<< 22) &&& 0x003FFFFF == 0 && (d.pre_post_op <<< 22) &&& 0x013FFFFF == 0 && (d.reg_type != 3 || d.x_offset == 31)) = true := by decide +kernel
/-- every instruction row points inside its class table (`_encoding_data_index` never out of bounds) -/
theorem inst_rows_in_bounds :
    instTable.toList.all (fun r =>
      (r.enc != encBaseRR || r.idx < baseRR.size) && (r.enc != encBaseRRR || r.idx < baseRRR.size) &&
      (r.enc != encBaseRRRR || r.idx < baseRRRR.size) && (r.enc != encBaseAddSub || r.idx < baseAddSub.size) &&
      (r.enc != encBaseLogical || r.idx < baseLogical.size) && (r.enc != encBaseLdpStp || r.idx < baseLdpStp.size) &&
      (r.enc != encBaseCSel || r.idx < baseCSel.size) && (r.enc != encBaseMinMax || r.idx < baseMinMax.size)) = true := by decide +kernel

/-! ### what the class models accept (all operands) -/

/-- BaseRRR: an accepted instruction has register types allowed by the row, every id is 0..30 or the row's hi id
(so `& 31` designates exactly that register, SP/ZR as the row says), and the word is the packed opcode. -/
theorem baseRRR_accepts_only_valid (d : BaseRRRRow) (o0 o1 o2 : Reg) (ws : List (BitVec 32))
    (h : emitBaseRRR d o0 o1 o2 = .ok ws) :
    checkGpType o0 d.a_type = true ∧ checkGpType o1 d.b_type = true ∧ checkGpType o2 d.c_type = true ∧
    checkGpId o0 d.a_hi_id = true ∧ checkGpId o1 d.b_hi_id = true ∧ checkGpId o2 d.c_hi_id = true ∧
    ws = [w32 d.opcode ||| addImm (xOf o0 d.a_type) 31 ||| addReg o2.id 16 ||| addReg o1.id 5 ||| addReg o0.id 0] := by
  unfold emitBaseRRR at h
  repeat (split at h <;> try (simp [invalidInstruction, invalidPhysId] at h))
  simp [ok1] at h
  simp_all

/-- a register the model's id check lets through is designated by its low five bits: 0..30 itself, SP (31) as 31, ZR (63) as 31 -/
theorem checked_id_designates (r : Reg) (hi : Nat) (hhi : hi = idSP ∨ hi = idZR) (h : checkGpId r hi = true) :
    A64Spec.gpNumber r (hi == idSP) = some (r.id % 32) := by
  unfold checkGpId at h
  unfold A64Spec.gpNumber
  rcases hhi with rfl | rfl <;> simp [idSP, idZR] at * <;> rcases h with h | h <;> simp [h] <;> omega

/-- refusal: a register id outside 0..30 / SP / ZR is never accepted by BaseRRR -/
theorem baseRRR_refuses_bad_id (d : BaseRRRRow) (o0 o1 o2 : Reg)
    (hbad : (31 ≤ o2.id ∧ o2.id ≠ d.c_hi_id)) : ∀ ws, emitBaseRRR d o0 o1 o2 ≠ .ok ws := by
  intro ws h
  have := (baseRRR_accepts_only_valid d o0 o1 o2 ws h).2.2.2.2.2.1
  unfold checkGpId at this
  simp at this
  omega

/-! non-vacuity -/
example : emitBaseRRR baseRRR[0]! { rt := rtGp32, id := 1 } { rt := rtGp32, id := 2 } { rt := rtGp32, id := 3 } = .ok [0x1A030041#32] := by decide
example : emitBaseRRR baseRRR[0]! { rt := rtGp32, id := 1 } { rt := rtGp32, id := 2 } { rt := rtGp32, id := 40 } = .err "InvalidPhysId" := by decide
example : (0x1A000000#32) &&& 0x001F03FF#32 = 0#32 := by decide

end AsmjitVerif.C02
