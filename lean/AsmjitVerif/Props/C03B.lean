/-
C03, bridge from the model-level end-to-end theorems (Props/C03E: `Final` - the field *decodes*, under the Spec/Offset
decoder, to `label address - site + fixup addend`) to the CPU reading used by the independent monitor
(Spec/RefSemantics.`judgeRel`: anchor + displacement = label address + addend, with the anchor the ISA prescribes:
end of the instruction on x86, address of the instruction on AArch64, page of it for ADRP).
What stays outside these theorems is only the monitor's own bookkeeping: that its `Ref` records (start / stop / kind,
taken from the assembler's cursor) name the same field as the model's `GRef`, and the opcode-based field location of
`x86BranchField` - both evaluated on every explored program.
-/
import AsmjitVerif.Props.C03E
import AsmjitVerif.Spec.RefSemantics
import AsmjitVerif.Lemmas.Bytes
namespace AsmjitVerif.CodeHolder
open AsmjitVerif.Offset
open AsmjitVerif.RefSpec

theorem arith4 (X k Y a : BitVec 64) : X + k + (Y - X + (a - k)) = Y + a := by
  simp only [BitVec.sub_eq_add_neg]
  have h1 : X + k + (Y + -X + (a + -k)) = (X + -X) + (k + -k) + (Y + a) := by ac_rfl
  rw [h1, BitVec.add_right_neg, BitVec.add_right_neg]
  simp

theorem arith3 (X Y r : BitVec 64) : X + (Y - X + r) = Y + r := by
  simp only [BitVec.sub_eq_add_neg]
  have h1 : X + (Y + -X + r) = (X + -X) + (Y + r) := by ac_rfl
  rw [h1, BitVec.add_right_neg]
  simp

/-- the Spec/Offset decoder on a plain signed 1-byte field is sign extension of the byte -/
theorem decode_signed1 (v : Nat) : decode32 (fmtS 1) (BitVec.ofNat 32 v) = sextN 1 v := by
  have e : (BitVec.ofNat (8 * 1) v : BitVec (8 * 1)) = (BitVec.ofNat 32 v).truncate 8 := by
    simp [BitVec.truncate_eq_setWidth, BitVec.setWidth_ofNat_of_le]
  simp only [decode32, fmtS, simpleValue, sextN, sext64]
  rw [e]
  generalize BitVec.ofNat 32 v = w
  show _ = BitVec.signExtend 64 (BitVec.truncate 8 w)
  simp only [Nat.reduceMul, Nat.reducePow, Nat.reduceSub]
  bv_decide

/-- … and on a plain signed 4-byte field sign extension of the word -/
theorem decode_signed4 (v : Nat) : decode32 (fmtS 4) (BitVec.ofNat 32 v) = sextN 4 v := by
  simp only [decode32, fmtS, simpleValue, sextN, sext64]
  show _ = BitVec.signExtend 64 (BitVec.ofNat 32 v)
  generalize BitVec.ofNat 32 v = w
  simp only [Nat.reduceMul, Nat.reducePow, Nat.reduceSub]
  bv_decide

/-- **bridge_x86.** x86 relative fields (rel8 / rel32 of jmp, jcc, call, jecxz, loop; disp32 of `[rip + label + disp]`
followed by `immLen` immediate bytes): a logged reference whose field decodes to `label address - site + rel`, with the
fixup addend `rel = addend - (n + immLen)` the assembler uses, is judged `correct` by the monitor's CPU reading
`end of instruction + sign-extended field = label address + addend`. -/
theorem bridge_x86 (secs : List Section) (g : GRef) (n immLen : Nat) (hn : n = 1 ∨ n = 4) (hf : g.fmt = fmtS n)
    (lsec : Nat) (loff addend : BitVec 64) (hrel : g.rel = addend - BitVec.ofNat 64 (n + immLen))
    (hd : Decodes secs g (crossDisp secs lsec loff g.sec g.offset g.rel)) :
    ∃ v, field secs g = some v ∧
      judgeRel (some (secOffset secs lsec + loff + addend)) (secOffset secs g.sec + BitVec.ofNat 64 (g.offset + n + immLen)) false
        (sextN n v) (fmtS n) = .correct := by
  obtain ⟨v, hv, hdec⟩ := hd
  refine ⟨v, hv, ?_⟩
  have hs : sextN n v = crossDisp secs lsec loff g.sec g.offset g.rel := by
    rw [← hdec, hf]
    rcases hn with rfl | rfl
    · exact (decode_signed1 v).symm
    · exact (decode_signed4 v).symm
  unfold judgeRel
  rw [hs, hrel]
  unfold crossDisp
  have e : secOffset secs g.sec + BitVec.ofNat 64 (g.offset + n + immLen) +
      (secOffset secs lsec + loff - (secOffset secs g.sec + BitVec.ofNat 64 g.offset) + (addend - BitVec.ofNat 64 (n + immLen))) =
      secOffset secs lsec + loff + addend := by
    rw [Nat.add_assoc, BitVec.ofNat_add, ← BitVec.add_assoc (secOffset secs g.sec) (BitVec.ofNat 64 g.offset)]
    exact arith4 _ _ _ _
  simp [e]

/-- **bridge_a64.** AArch64 pc-relative fields other than ADRP (b/bl imm26, b.cond/cbz imm19, tbz imm14, adr): the
Spec/Offset decoder is the ISA reading of the field, the anchor is the instruction's own address and the fixup addend is the
reference's addend - a reference that decodes to `label address - site + addend` is judged `correct`. -/
theorem bridge_a64 (secs : List Section) (g : GRef) (k : A64Kind) (hf : g.fmt = k.fmt)
    (lsec : Nat) (loff : BitVec 64)
    (hd : Decodes secs g (crossDisp secs lsec loff g.sec g.offset g.rel)) :
    ∃ v, field secs g = some v ∧
      judgeRel (some (secOffset secs lsec + loff + g.rel)) (secOffset secs g.sec + BitVec.ofNat 64 g.offset) false
        (decode32 k.fmt (BitVec.ofNat 32 v)) k.fmt = .correct := by
  obtain ⟨v, hv, hdec⟩ := hd
  refine ⟨v, hv, ?_⟩
  unfold judgeRel
  rw [← hf, hdec]
  unfold crossDisp
  have e : secOffset secs g.sec + BitVec.ofNat 64 g.offset +
      (secOffset secs lsec + loff - (secOffset secs g.sec + BitVec.ofNat 64 g.offset) + g.rel) = secOffset secs lsec + loff + g.rel := by
    exact arith3 _ _ _
  simp [e]

/-- **bridge_adrp.** ADRP: the field decodes to a multiple of 4096, so `page(pc) + field = page(target)` whenever the
field decodes to `target - pc` -/
theorem bridge_adrp (secs : List Section) (g : GRef) (hf : g.fmt = A64Kind.adrp.fmt) (lsec : Nat) (loff : BitVec 64)
    (hd : Decodes secs g (crossDisp secs lsec loff g.sec g.offset g.rel)) :
    ∃ v, field secs g = some v ∧
      ((secOffset secs g.sec + BitVec.ofNat 64 g.offset) &&& ~~~ 0xFFF#64) + decode32 A64Kind.adrp.fmt (BitVec.ofNat 32 v) =
        ((secOffset secs lsec + loff + g.rel) &&& ~~~ 0xFFF#64) := by
  obtain ⟨v, hv, hdec⟩ := hd
  refine ⟨v, hv, ?_⟩
  rw [hf] at hdec
  have hpage : decode32 A64Kind.adrp.fmt (BitVec.ofNat 32 v) &&& 0xFFF#64 = 0#64 := by
    simp only [decode32, A64Kind.fmt, immValue]
    generalize sext64 21 _ = y
    bv_decide
  unfold crossDisp at hdec
  have hT : secOffset secs lsec + loff + g.rel =
      (secOffset secs g.sec + BitVec.ofNat 64 g.offset) + decode32 A64Kind.adrp.fmt (BitVec.ofNat 32 v) := by
    rw [hdec]; exact (arith3 _ _ _).symm
  rw [hT]
  generalize decode32 A64Kind.adrp.fmt (BitVec.ofNat 32 v) = d at hpage ⊢
  generalize secOffset secs g.sec + BitVec.ofNat 64 g.offset = P
  bv_decide

/-- **resolved_ref_judged.** End to end, for every program of the menu: after `flatten` + `resolve`, every logged x86
reference whose label is bound and whose fixup is gone is `correct` under the monitor's CPU reading. (The hypothesis on
`rel` is how `EmitJmpCall` / `EmitModSib` create their fixups: `-1`, `-4`, `disp - 4 - immLen`.) -/
theorem resolved_ref_judged (arch : Arch) (base : BitVec 64) (ops : List Op) (hops : ∀ op ∈ ops, op.early = true)
    (g : GRef) (hg : g ∈ (run (State.init arch base) (ops ++ [.flatten, .resolve])).ghost)
    (n immLen : Nat) (hn : n = 1 ∨ n = 4) (hf : g.fmt = fmtS n) (addend : BitVec 64)
    (hrel : g.rel = addend - BitVec.ofNat 64 (n + immLen))
    (hnp : ¬ Pending (run (State.init arch base) (ops ++ [.flatten, .resolve])) g) :
    let s := run (State.init arch base) (ops ++ [.flatten, .resolve])
    ∃ lsec loff v, s.labels[g.label]? = some (.bound lsec loff) ∧ field s.secs g = some v ∧
      judgeRel (some (secOffset s.secs lsec + loff + addend)) (secOffset s.secs g.sec + BitVec.ofNat 64 (g.offset + n + immLen)) false
        (sextN n v) (fmtS n) = .correct := by
  intro s
  rcases resolved_ref_correct arch base ops hops g hg with ⟨lsec, loff, hb, hd⟩ | ⟨hp, _⟩
  · obtain ⟨v, hv, hj⟩ := bridge_x86 s.secs g n immLen hn hf lsec loff addend hrel hd
    exact ⟨lsec, loff, v, hb, hv, hj⟩
  · exact absurd hp hnp

end AsmjitVerif.CodeHolder
