/-
C11 (second file) — static storage, process-wide caches, the lock, the write path, the runtime handles: theorems by kernel
evaluation over data regenerated from objdump (Gen/StaticRefs.lean) and clang's AST (Gen/StaticDecls.lean, Gen/LockMap.lean) of the
current tree.  See the header of Props/C11.lean, items (e) and (g).
-/
import AsmjitVerif.Props.C11
import AsmjitVerif.Gen.StaticRefs
import AsmjitVerif.Gen.StaticDecls
namespace AsmjitVerif.LockMap

/-! ### (e) machine code and static storage (Gen/StaticRefs.lean) -/

/-- variables of the verification hooks: null unless a harness sets them before any thread starts -/
def hookVars : List String := ["asmjit_verif_arena_fail", "asmjit_verif_jit_event"]

/-- name of a function without its parameter list -/
def fnBase (f : String) : String := String.ofList (f.toList.takeWhile (· != '('))

/-- the reviewed init-once accessors: the only functions whose machine code may refer to writable static storage.
(`open` and `alloc_dual_mapping` contain the inlined bodies of `get_mfd_exec_flag`, `generate_random_bits` and
`get_anonymous_memory_strategy`; `hardened_runtime_info` that of `has_hardened_runtime`.) -/
def accessorFns : List (String × String) :=
  [("asmjit/core/cpuinfo.cpp", "asmjit::CpuInfo::host"),
   ("asmjit/core/virtmem.cpp", "asmjit::VirtMem::info"),
   ("asmjit/core/virtmem.cpp", "asmjit::VirtMem::large_page_size"),
   ("asmjit/core/virtmem.cpp", "asmjit::VirtMem::hardened_runtime_info"),
   ("asmjit/core/virtmem.cpp", "asmjit::VirtMem::has_hardened_runtime"),
   ("asmjit/core/virtmem.cpp", "asmjit::VirtMem::get_mfd_exec_flag"),
   ("asmjit/core/virtmem.cpp", "asmjit::VirtMem::generate_random_bits"),
   ("asmjit/core/virtmem.cpp", "asmjit::VirtMem::get_anonymous_memory_strategy"),
   ("asmjit/core/virtmem.cpp", "asmjit::VirtMem::AnonymousMemory::open"),
   ("asmjit/core/virtmem.cpp", "asmjit::VirtMem::alloc_dual_mapping")]

/-- translation units that hold the init-once caches; every other unit (CodeHolder, emitters, Builder, Compiler, register
allocator, formatter, instruction databases, arena and containers, JIT allocator and runtime) is "code generation" here -/
def cacheUnits : List String := ["asmjit/core/cpuinfo.cpp", "asmjit/core/virtmem.cpp"]

/-- every object that lives in a writable data section of any translation unit - whatever its binding (local, global, weak,
GNU-unique) - is on the reviewed list -/
theorem all_writable_statics_reviewed : ∀ o ∈ writableObjects, allowedGlobals.contains o.2 = true := by
  decide +kernel

/-- nothing is thread-local either (no hidden per-thread caches whose first use could differ between threads) -/
theorem no_thread_locals : threadLocals = [] := by
  decide +kernel

/-- every reference from machine code into a writable data section is made by a reviewed init-once accessor or names a hook
variable -/
theorem only_reviewed_accessors_touch_statics :
    ∀ r ∈ staticRefs, hookVars.contains r.2.2 = true ∨ accessorFns.contains (r.1, fnBase r.2.1) = true := by
  decide +kernel

/-- **Threads that use their own holders/emitters/compilers share nothing**: outside cpuinfo.cpp / virtmem.cpp no machine
code of the library refers to writable static storage at all (hook variables aside) - only to constant tables -/
theorem codegen_units_share_nothing :
    ∀ r ∈ staticRefs, cacheUnits.contains r.1 = false → hookVars.contains r.2.2 = true := by
  decide +kernel

/-- non-vacuity: the listing does see the init-once caches and their accessor -/
example : ("asmjit/core/cpuinfo.cpp", "asmjit::CpuInfo::host()", "asmjit::CpuInfo::host()::cpu_info_global") ∈ staticRefs := by
  decide +kernel
example : ("asmjit/core/virtmem.cpp", "asmjit::VirtMem::info()::vm_info") ∈ writableObjects := by decide +kernel
example : fnBase "asmjit::CpuInfo::host()" = "asmjit::CpuInfo::host" := by decide

/-! ### (g) process-wide caches, the lock, the write path, the runtime handles (Gen/StaticDecls.lean, tools/ast_statics.py) -/

def hasPrefix (pre s : String) : Bool := pre.toList.isPrefixOf s.toList

/-- the two host-information records: plain structs, written only inside the init-once accessor before its atomic flag is
stored (`init_once_publish_discipline`).  Two threads that both find the flag clear both write the record: that first-use
race is the one the property excludes ("once the host information has been initialised"); constructing any JitRuntime or
JitAllocator on one thread performs both initialisations. -/
def publishedByFlag : List String :=
  ["asmjit::CpuInfo::host()::cpu_info_global", "asmjit::VirtMem::info()::vm_info"]

/-- the declared type (clang AST) of every object that lives in writable static storage is known … -/
theorem static_decls_cover_writable_objects : staticDecls.map (fun d => (d.1, d.2.1)) = writableObjects := by
  decide +kernel

/-- … and **every process-wide cache is a `std::atomic`** (no data race whoever touches it, under a lock or not), a
host-information record published by an atomic flag, a compiler-made guard variable (synchronised by `__cxa_guard_acquire`)
or a verification-hook variable.  (Finding C11-1: `memfd_create_not_supported` was `volatile uint32_t`.) -/
theorem writable_statics_are_atomic_or_published :
    ∀ d ∈ staticDecls, (hasPrefix "std::atomic<" d.2.2 || publishedByFlag.contains d.2.1 || hookVars.contains d.2.1 ||
      (d.2.2 == "<compiler>" && hasPrefix "guard variable for " d.2.1)) = true := by
  decide +kernel

/-- accesses of an init-once accessor in source order: it starts by loading the flag; the record is written only in a nested
block (the `if (!flag.load())` body), every write is followed by a store of the flag in that block, nothing is written after
a store, and the flag is used for nothing else -/
def publishOk : List (String × Nat) → Bool
  | ("load", d0) :: rest =>
    let ix := rest.zipIdx
    let writes := ix.filter (·.1.1 == "write")
    let stores := ix.filter (·.1.1 == "store")
    !writes.isEmpty && !stores.isEmpty &&
    writes.all (fun w => decide (w.1.2 > d0) && stores.any (fun st => decide (st.2 > w.2) && decide (st.1.2 > d0))) &&
    writes.all (fun w => stores.all fun st => decide (w.2 < st.2)) &&
    rest.all (fun e => ["load", "store", "write", "read"].contains e.1)
  | _ => false

theorem init_once_publish_discipline :
    publishEvents.map (·.1) = ["asmjit/core/cpuinfo.cpp:host", "asmjit/core/virtmem.cpp:info"] ∧
    ∀ p ∈ publishEvents, publishOk p.2 = true := by
  decide +kernel

example : publishOk [("load", 1), ("write", 2), ("store", 2), ("read", 1)] = true := by decide +kernel
/-- publishing before the record is complete, an unconditional write, a write after the store are refused -/
example : publishOk [("load", 1), ("store", 2), ("write", 2), ("read", 1)] = false := by decide +kernel
example : publishOk [("load", 1), ("write", 1), ("store", 2)] = false := by decide +kernel
example : publishOk [("load", 1), ("write", 2), ("store", 2), ("write", 1)] = false := by decide +kernel

/-- the allocator's lock is a pthread mutex and `LockGuard` holds it for its scope (osutils_p.h as compiled on this platform;
the mutual exclusion of pthread itself is trusted) -/
theorem lock_is_a_pthread_mutex :
    lockCalls = [("Lock::lock", ["pthread_mutex_lock"]), ("Lock::unlock", ["pthread_mutex_unlock"]),
                 ("LockGuard::LockGuard", ["lock"]), ("LockGuard::~LockGuard", ["unlock"])] := by
  decide +kernel

/-- the write path: both `JitAllocator::write` overloads, the scoped writes and the `WriteScope` helpers touch the shared
bookkeeping only through `JitAllocatorImpl_shrink` / `release`, i.e. under the lock -/
def isWritePath (f : String) : Bool :=
  hasPrefix "JitAllocator::write" f || hasPrefix "JitAllocator::scoped_write" f || hasPrefix "JitAllocator::begin_write_scope" f ||
  hasPrefix "JitAllocator::end_write_scope" f || hasPrefix "JitAllocator::flush_write_scope" f || hasPrefix "WriteScope::" f

set_option maxRecDepth 100000 in
theorem write_paths_disciplined : ∀ fb ∈ lockMap, isWritePath fb.1 = true → disciplined lockMap prot 8 fb.1 = true := by
  decide +kernel

example : ((lockMap.filter fun fb => isWritePath fb.1).length ≥ 7) = true := by decide +kernel

/-- the handles through which threads reach the shared state (`JitAllocator::_impl`, `JitRuntime::_allocator`) are assigned
only by constructors / destructors: `add` and `release` of one runtime share nothing but the allocator -/
def handleFields : List (String × String) := [("JitAllocator", "_impl"), ("JitRuntime", "_allocator")]
def isCtorLike (f : String) : Bool :=
  exclusiveFns.contains f || hasPrefix "JitRuntime::JitRuntime" f || hasPrefix "JitRuntime::~JitRuntime" f

set_option maxRecDepth 100000 in
theorem runtime_handles_only_written_by_constructors :
    ∀ fb ∈ lockMap, isCtorLike fb.1 = false → ∀ w ∈ writesOfEvs fb.2, handleFields.contains w = false := by
  decide +kernel

/-- the anchored constant-table units, the runtime and the OS utilities own no writable object at all -/
def tableUnits : List String :=
  ["asmjit/core/archtraits.cpp", "asmjit/core/globals.cpp", "asmjit/core/instdb.cpp", "asmjit/x86/x86instdb.cpp",
   "asmjit/arm/a64instdb.cpp", "asmjit/core/jitruntime.cpp", "asmjit/core/osutils.cpp"]

theorem table_units_have_no_writable_object : ∀ o ∈ writableObjects, tableUnits.contains o.1 = false := by
  decide +kernel

/-- mapping, protecting, write-protection scopes and instruction-cache flushes keep no process-wide state of their own
(hook variables aside) -/
def vmHelpers : List String :=
  ["asmjit::VirtMem::protect_jit_memory", "asmjit::VirtMem::flush_instruction_cache", "asmjit::VirtMem::protect",
   "asmjit::VirtMem::alloc", "asmjit::VirtMem::release", "asmjit::VirtMem::release_dual_mapping"]

theorem jit_scopes_touch_no_static :
    ∀ r ∈ staticRefs, hookVars.contains r.2.2 = true ∨ vmHelpers.contains (fnBase r.2.1) = false := by
  decide +kernel

end AsmjitVerif.LockMap
