/-
C01 property theorems: AVX-512 decorations ({k}, {z}, {er}, {sae}) on the register forms of the VEX-family classes in 32-BIT MODE (registers 0..7; the
options word carries the invalid-REX mark 0x80000000 there). Same statements and proofs as Props/C01FrontDec.lean with `parse false`.
-/
import AsmjitVerif.Props.C01FrontOpt
import AsmjitVerif.Props.C01FrontDec
set_option linter.constructorNameAsVariable false
set_option linter.unusedSimpArgs false
set_option linter.unusedVariables false
set_option maxRecDepth 100000
namespace AsmjitVerif.Props.C01
open Spec.X86 Model.X86 AsmjitVerif.Lemmas.X86Parse AsmjitVerif.Gen.X86ClassRows

/-- with a decoration the EVEX branch is taken, with the prefix word of the option block -/
theorem emitVexEvexR_dec32 (c : Model.X86.Ctx) (opcode options reg vvvvv rm aaa x' : BitVec 32) (imm : BitVec 64) (n : Nat)
    (hpe : c.preferEvex = false) (hk : c.extraId = aaa) (ha : aaa < 8#32)
    (hopt : options &&& ~~~0x80EC0000#32 = 0#32) (hdec : aaa ≠ 0#32 ∨ options &&& 0x008C0000#32 ≠ 0#32)
    (hx' : vexEvexROptions c (xR opcode 0#32 reg vvvvv rm aaa) options = .ok x') :
    emitVexEvexR c opcode options (reg + (vvvvv <<< 7)) rm imm n =
      .ok (le32 (evexWord x' opcode) ++ [opcode.truncate 8] ++ ([modrmRR (reg + (vvvvv <<< 7)) rm] ++ emitImmByteOrDword imm n)) := by
  have hxe : extractLLMMMMM opcode options = extractLLMMMMM opcode 0#32 := by
    simp only [extractLLMMMMM, oEvex, kLL_Mask, kMM_Mask]; bv_decide
  have hx : xR opcode 0#32 reg vvvvv rm aaa = xOfR opcode 0#32 (reg + (vvvvv <<< 7)) rm aaa := rfl
  rw [hx] at hx'
  unfold xOfR at hx'
  obtain ⟨r1, r2, r3, r4, r5, r6⟩ := evex_r_options_roundtrip c _ options x' (by
    simp only [extractLLMMMMM, oEvex, kLL_Mask, kMM_Mask]; bv_decide) hx'
  have hne : (x' &&& 0x00D78150#32 != 0#32) = true := by
    simp only [bne_iff_ne, ne_eq]
    simp only [oER, oSAE] at r2 r4
    rcases hdec with h | h
    · simp only [extractLLMMMMM, oEvex, kLL_Mask, kMM_Mask] at r1; bv_decide
    · by_cases h2 : options &&& (0x40000#32 ||| 0x80000#32) != 0#32
      · simp only [h2, ↓reduceIte] at r4; bv_decide
      · simp only [h2] at r4; bv_decide
  simp only [emitVexEvexR, hk, hxe, hx', hpe, Bool.false_and, Bool.false_eq_true, ↓reduceIte, hne, bind, Except.bind, pure, Except.pure, modrmRR]

/-- the EVEX prefix word after the option block, against the word before it: only P2's z, L'L and b change -/
theorem evexWord_options32 (c : Model.X86.Ctx) (opcode options reg vvvvv rm aaa x' : BitVec 32)
    (ha : aaa < 8#32) (hopt : options &&& ~~~0x80EC0000#32 = 0#32)
    (hx' : vexEvexROptions c (xR opcode 0#32 reg vvvvv rm aaa) options = .ok x') :
    evexWord x' opcode &&& 0x0FFFFFFF#32 = evexWord (xR opcode 0#32 reg vvvvv rm aaa) opcode &&& 0x0FFFFFFF#32 ∧
    (evexWord x' opcode).getLsbD 31 = optZ options ∧
    (evexWord x' opcode).getLsbD 28 = (optER options || optSAE options) ∧
    (optER options = true → ((evexWord x' opcode >>> 29) &&& 3#32) = (options >>> 21) &&& 3#32) ∧
    (optER options = false → optSAE options = false → ((evexWord x' opcode >>> 29) &&& 3#32) = (opcode >>> 29) &&& 3#32) := by
  obtain ⟨r1, r2, r3, r4, r5, r6⟩ := evex_r_options_roundtrip c _ options x' (by
    simp only [xR, extractLLMMMMM, oEvex, kLL_Mask, kMM_Mask]; bv_decide) hx'
  simp only [oER, oSAE] at r2 r4 r5 r6
  simp only [optZ, optER, optSAE]
  generalize hxdef : xR opcode 0#32 reg vvvvv rm aaa = x at *
  have hx23 : x &&& 0x00980000#32 = 0#32 := by
    rw [← hxdef]; simp only [xR, extractLLMMMMM, oEvex, kLL_Mask, kMM_Mask]; bv_decide
  have hxLL : (x >>> 21) &&& 3#32 = (opcode >>> 29) &&& 3#32 := by
    rw [← hxdef]; simp only [xR, extractLLMMMMM, oEvex, kLL_Mask, kMM_Mask]; bv_decide
  by_cases h2 : options &&& (0x40000#32 ||| 0x80000#32) != 0#32
  · simp only [h2, ↓reduceIte] at r4
    by_cases h3 : options &&& 0x40000#32 != 0#32
    · have r5' := r5 h3
      simp only [evexWord]
      refine ⟨?_, ?_, ?_, ?_, ?_⟩
      · bv_decide
      · bv_decide
      · bv_decide
      · intro _; bv_decide
      · intro h; exfalso; revert h; bv_decide
    · have h3' : options &&& 0x40000#32 = 0#32 := by simpa using h3
      have r6' := r6 h3' (by bv_decide)
      simp only [evexWord]
      refine ⟨?_, ?_, ?_, ?_, ?_⟩
      · bv_decide
      · bv_decide
      · bv_decide
      · intro h; exfalso; revert h; bv_decide
      · intro _ h; exfalso; revert h; bv_decide
  · simp only [h2] at r4
    have h2' : options &&& (0x40000#32 ||| 0x80000#32) = 0#32 := by simpa using h2
    have r2' := r2 h2'
    simp only [evexWord]
    refine ⟨?_, ?_, ?_, ?_, ?_⟩
    · bv_decide
    · bv_decide
    · bv_decide
    · intro h; exfalso; revert h; bv_decide
    · intro _ _; bv_decide

/-- the parser on the decorated EVEX register form: the decorations are read back exactly -/
theorem evexR_parsed_dec32 (c : Model.X86.Ctx) (rule : Rule) (opcode options reg vvvvv rm aaa x' : BitVec 32) (imm : List (BitVec 8))
    (hr : reg < 8#32) (hv : vvvvv < 8#32) (hm : rm < 8#32) (ha : aaa < 8#32) (hxop : opcode &&& 0x800#32 = 0#32)
    (hopt : options &&& ~~~0x80EC0000#32 = 0#32)
    (hx' : vexEvexROptions c (xR opcode 0#32 reg vvvvv rm aaa) options = .ok x')
    (R : VexRule rule imm.length) (hs : rule.space = 2) (A : RowAgree rule opcode true) :
    ∃ p, parse false rule (le32 (evexWord x' opcode) ++ [opcode.truncate 8] ++ ([modrmRR (reg + (vvvvv <<< 7)) rm] ++ imm)) = .ok p ∧
      EvexParsedD rule p (modrmRR (reg + (vvvvv <<< 7)) rm) aaa.toNat (optZ options) (optER options) (optSAE options) (optRC options) ∧
      regNum p.R' p.R (bits (modrmRR (reg + (vvvvv <<< 7)) rm) 3 3) = reg.toNat ∧
      regNum p.V' false p.vvvv = vvvvv.toNat ∧
      regNum (p.vexKind == 4 && p.X) p.B (bits (modrmRR (reg + (vvvvv <<< 7)) rm) 0 3) = rm.toNat ∧ p.imm = imm := by
  obtain ⟨hop, hmap, hpp, hw, hl⟩ := A
  have hs' : rule.space = 1 ∨ rule.space = 2 ∨ rule.space = 3 := Or.inr (Or.inl hs)
  obtain ⟨q1, q31, q28, qer, qno⟩ := evexWord_options32 c opcode options reg vvvvv rm aaa x' ha hopt hx'
  obtain ⟨e0, e15, e14, e13, e12, e11, e8, e23, e19, e18, e16, e31, e29, e28, e27, e24⟩ :=
    vex_evex_r_roundtrip opcode 0#32 reg vvvvv rm aaa (by bv_decide) (by bv_decide) (by bv_decide) ha hxop (by decide)
  generalize evexWord (xR opcode 0#32 reg vvvvv rm aaa) opcode = w at *
  generalize evexWord x' opcode = w' at *
  have hb0 : w'.truncate 8 = 0x62#8 := by bv_decide
  simp only [le32, List.cons_append, List.nil_append, hb0]
  have hmodb := modrmRR_mod (reg + (vvvvv <<< 7)) rm
  rw [parse_evex_reg false rule _ _ _ _ _ imm (fun _ => congrArg BitVec.toNat (show BitVec.extractLsb' 6 2 _ = 3#2 by bv_decide)) hs R.hpp8 (by rcases R.hmk with h | h <;> simp [h]) (by simp only [bit]; bv_decide)
        (by simp only [bit]; bv_decide) hmodb (by simp [R.himm, R.hrel]) R.hmoff]
  refine ⟨_, rfl, ?_, ?_, ?_, ?_, rfl⟩
  · refine ⟨rfl, rfl, rfl, rfl, hmodb, ?_, ?_, ?_, ?_, ?_, ?_, ?_, ?_, ?_, ?_⟩
    · show (opcode.truncate 8 : BitVec 8).toNat = rule.opcode
      rw [hop]; exact toNat_eq_of_zext _ _ (by omega) (by bv_decide)
    · show bits _ 0 3 = rule.map
      rw [hmap]; exact toNat_eq_of_zext _ _ (by omega) (by bv_decide)
    · show bits _ 0 2 = ppWant rule
      rw [hpp]; exact toNat_eq_of_zext _ _ (by omega) (by bv_decide)
    · rw [wWant_nonlegacy rule hs']
      rcases hw with h | h
      · exact Or.inl h
      · right
        simp only [↓reduceIte] at h
        have hc : ((opcode >>> 27) ||| (opcode >>> 28)) &&& 1#32 = 0#32 ∨ ((opcode >>> 27) ||| (opcode >>> 28)) &&& 1#32 = 1#32 := by bv_decide
        rcases hc with hc | hc
        · rw [h, hc]; simp only [bit]; simp; bv_decide
        · rw [h, hc]; simp only [bit]; simp; bv_decide
    · -- L: the form's, unless b is set
      rcases hl with h | h
      · exact Or.inl h
      · by_cases hb : (optER options || optSAE options) = true
        · right; left
          show bit (BitVec.truncate 8 (w' >>> 24)) 4 = true
          rw [← hb, ← q28]; simp only [bit]; bv_decide
        · right; right
          have hb' : optER options = false ∧ optSAE options = false := by
            cases h1 : optER options <;> cases h2 : optSAE options <;> simp_all
          have := qno hb'.1 hb'.2
          show bits _ 5 2 = rule.l; rw [h]; exact toNat_eq_of_zext _ _ (by omega) (by bv_decide)
    · show bits _ 0 3 = aaa.toNat
      exact toNat_eq_of_zext _ _ (by omega) (by bv_decide)
    · show bit _ 7 = optZ options
      rw [← q31]; simp only [bit]; bv_decide
    · show bit _ 4 = (optER options || optSAE options)
      rw [← q28]; simp only [bit]; bv_decide
    · intro her
      have := qer her
      show bits _ 5 2 = ((options >>> 21) &&& 3#32).toNat
      exact toNat_eq_of_zext _ _ (by omega) (by bv_decide)
    · show bits _ 0 3 < 8
      have := (BitVec.extractLsb' 0 3 (BitVec.truncate 8 (w' >>> 8))).isLt
      exact this
  · exact regNum_eq _ _ _ reg (by simp only [bit, modrmRR, encodeMod]; bv_decide)
  · exact regNum_eq4 _ _ vvvvv (by simp only [bit]; bv_decide)
  · exact regNum_eq _ _ _ rm (by simp only [bit, modrmRR, encodeMod]; bv_decide)

/-- shape [reg, vvvv, rm] with decorations: whatever `EmitVexEvexR` emits satisfies the monitor called with the same decorations -/
theorem vexR_rvm_formOk_dec32 (c : Model.X86.Ctx) (ctx : Spec.X86.Ctx) (rule : Rule) (opcode options reg vvvvv rm aaa x' : BitVec 32)
    (k0 k1 k2 : RegKind) (f0 f1 f2 : FormOp)
    (hpe : c.preferEvex = false) (hk : c.extraId = aaa) (hm64 : ctx.mode64 = false) (hmode : (rule.modes &&& 1 != 0) = true)
    (hr : reg < 8#32) (hv : vvvvv < 8#32) (hm : rm < 8#32) (ha : aaa < 8#32) (hxop : opcode &&& 0x800#32 = 0#32)
    (hopt : options &&& ~~~0x80EC0000#32 = 0#32) (hdec : aaa ≠ 0#32 ∨ options &&& 0x008C0000#32 ≠ 0#32)
    (hx' : vexEvexROptions c (xR opcode 0#32 reg vvvvv rm aaa) options = .ok x')
    (hk0 : PlainKind k0) (hk1 : PlainKind k1) (hk2 : PlainKind k2)
    (R : VexRule rule 0) (D : DecorAllowed rule aaa.toNat (optZ options) (optER options) (optSAE options))
    (hs : rule.space = 2) (A : RowAgree rule opcode true)
    (hf0 : f0.role = .reg) (hf1 : f1.role = .vvvv) (hf2 : f2.role = .rm)
    (hal : alignOps rule.oszEff rule.ops [.reg k0 reg.toNat, .reg k1 vvvvv.toNat, .reg k2 rm.toNat] =
           some [(f0, some (.reg k0 reg.toNat)), (f1, some (.reg k1 vvvvv.toNat)), (f2, some (.reg k2 rm.toNat))]) :
    ∃ bytes, emitVexEvexR c opcode options (reg + (vvvvv <<< 7)) rm 0 0 = .ok bytes ∧
      formOk ctx rule [.reg k0 reg.toNat, .reg k1 vvvvv.toNat, .reg k2 rm.toNat]
        (decorOf aaa.toNat (optZ options) (optER options) (optSAE options) (optRC options)) bytes = true := by
  rw [emitVexEvexR_dec32 c opcode options reg vvvvv rm aaa x' 0 0 hpe hk ha hopt hdec hx']
  refine ⟨_, rfl, ?_⟩
  obtain ⟨p, hp, P, h0, h1, h2, -⟩ := evexR_parsed_dec32 c rule opcode options reg vvvvv rm aaa x' [] hr hv hm ha hxop hopt hx' R hs A
  simp only [emitImmByteOrDword] at *
  exact vex_rvm_formOk_dec ctx rule p _ _ k0 k1 k2 f0 f1 f2 _ _ _ _ _ _ _ _ (by simpa [hm64] using hmode) hk0 hk1 hk2 R D hf0 hf1 hf2 hal
    (by rw [hm64]; exact hp) P h0 h1 h2

/-- shape [reg, rm] with decorations: whatever `EmitVexEvexR` emits satisfies the monitor called with the same decorations -/
theorem vexR_rm_formOk_dec32 (c : Model.X86.Ctx) (ctx : Spec.X86.Ctx) (rule : Rule) (opcode options reg rm aaa x' : BitVec 32)
    (k0 k2 : RegKind) (f0 f2 : FormOp)
    (hpe : c.preferEvex = false) (hk : c.extraId = aaa) (hm64 : ctx.mode64 = false) (hmode : (rule.modes &&& 1 != 0) = true)
    (hr : reg < 8#32) (hm : rm < 8#32) (ha : aaa < 8#32) (hxop : opcode &&& 0x800#32 = 0#32)
    (hopt : options &&& ~~~0x80EC0000#32 = 0#32) (hdec : aaa ≠ 0#32 ∨ options &&& 0x008C0000#32 ≠ 0#32)
    (hx' : vexEvexROptions c (xR opcode 0#32 reg 0#32 rm aaa) options = .ok x')
    (hk0 : PlainKind k0) (hk2 : PlainKind k2)
    (R : VexRule rule 0) (D : DecorAllowed rule aaa.toNat (optZ options) (optER options) (optSAE options))
    (hs : rule.space = 2) (A : RowAgree rule opcode true)
    (hf0 : f0.role = .reg) (hf2 : f2.role = .rm)
    (hal : alignOps rule.oszEff rule.ops [.reg k0 reg.toNat, .reg k2 rm.toNat] =
           some [(f0, some (.reg k0 reg.toNat)), (f2, some (.reg k2 rm.toNat))]) :
    ∃ bytes, emitVexEvexR c opcode options (reg + (0#32 <<< 7)) rm 0 0 = .ok bytes ∧
      formOk ctx rule [.reg k0 reg.toNat, .reg k2 rm.toNat]
        (decorOf aaa.toNat (optZ options) (optER options) (optSAE options) (optRC options)) bytes = true := by
  rw [emitVexEvexR_dec32 c opcode options reg 0#32 rm aaa x' 0 0 hpe hk ha hopt hdec hx']
  refine ⟨_, rfl, ?_⟩
  obtain ⟨p, hp, P, h0, h1, h2, -⟩ := evexR_parsed_dec32 c rule opcode options reg 0#32 rm aaa x' [] hr (by decide) hm ha hxop hopt hx' R hs A
  simp only [emitImmByteOrDword] at *
  exact vex_rm_formOk_dec ctx rule p _ _ k0 k2 f0 f2 _ _ _ _ _ _ _ (by simpa [hm64] using hmode) hk0 hk2 R D hf0 hf2 hal
    (by rw [hm64]; exact hp) P h0 h1 h2

/-- shape [reg, vvvv, rm, imm8] with decorations: whatever `EmitVexEvexR` emits satisfies the monitor called with the same decorations -/
theorem vexR_rvmi_formOk_dec32 (c : Model.X86.Ctx) (ctx : Spec.X86.Ctx) (rule : Rule) (opcode options reg vvvvv rm aaa x' : BitVec 32)
    (k0 k1 k2 : RegKind) (f0 f1 f2 : FormOp)
    (hpe : c.preferEvex = false) (hk : c.extraId = aaa) (hm64 : ctx.mode64 = false) (hmode : (rule.modes &&& 1 != 0) = true)
    (hr : reg < 8#32) (hv : vvvvv < 8#32) (hm : rm < 8#32) (ha : aaa < 8#32) (hxop : opcode &&& 0x800#32 = 0#32)
    (hopt : options &&& ~~~0x80EC0000#32 = 0#32) (hdec : aaa ≠ 0#32 ∨ options &&& 0x008C0000#32 ≠ 0#32)
    (hx' : vexEvexROptions c (xR opcode 0#32 reg vvvvv rm aaa) options = .ok x')
    (hk0 : PlainKind k0) (hk1 : PlainKind k1) (hk2 : PlainKind k2)
    (R : VexRule rule 1) (f3 : FormOp) (imm : BitVec 64) (hf3 : f3.role = .imm) (hib : immBitsOf f3 = 8) (D : DecorAllowed rule aaa.toNat (optZ options) (optER options) (optSAE options))
    (hs : rule.space = 2) (A : RowAgree rule opcode true)
    (hf0 : f0.role = .reg) (hf1 : f1.role = .vvvv) (hf2 : f2.role = .rm)
    (hal : alignOps rule.oszEff rule.ops [.reg k0 reg.toNat, .reg k1 vvvvv.toNat, .reg k2 rm.toNat, .imm imm] =
           some [(f0, some (.reg k0 reg.toNat)), (f1, some (.reg k1 vvvvv.toNat)), (f2, some (.reg k2 rm.toNat)), (f3, some (.imm imm))]) :
    ∃ bytes, emitVexEvexR c opcode options (reg + (vvvvv <<< 7)) rm imm 1 = .ok bytes ∧
      formOk ctx rule [.reg k0 reg.toNat, .reg k1 vvvvv.toNat, .reg k2 rm.toNat, .imm imm]
        (decorOf aaa.toNat (optZ options) (optER options) (optSAE options) (optRC options)) bytes = true := by
  rw [emitVexEvexR_dec32 c opcode options reg vvvvv rm aaa x' imm 1 hpe hk ha hopt hdec hx']
  refine ⟨_, rfl, ?_⟩
  obtain ⟨p, hp, P, h0, h1, h2, hi⟩ := evexR_parsed_dec32 c rule opcode options reg vvvvv rm aaa x' [imm.truncate 8] hr hv hm ha hxop hopt hx' R hs A
  simp only [emitImmByteOrDword, Nat.one_ne_zero, beq_self_eq_true, ↓reduceIte, show ((1:Nat) == 0) = false from rfl, Bool.false_eq_true] at *
  exact vex_rvmi_formOk_dec ctx rule p _ _ k0 k1 k2 f0 f1 f2 _ _ _ _ _ _ _ _ (by simpa [hm64] using hmode) hk0 hk1 hk2 R f3 imm hf3 hib (by simp [hi]) D hf0 hf1 hf2 hal
    (by rw [hm64]; exact hp) P h0 h1 h2

/-- shape [reg, rm, imm8] with decorations: whatever `EmitVexEvexR` emits satisfies the monitor called with the same decorations -/
theorem vexR_rmi_formOk_dec32 (c : Model.X86.Ctx) (ctx : Spec.X86.Ctx) (rule : Rule) (opcode options reg rm aaa x' : BitVec 32)
    (k0 k2 : RegKind) (f0 f2 : FormOp)
    (hpe : c.preferEvex = false) (hk : c.extraId = aaa) (hm64 : ctx.mode64 = false) (hmode : (rule.modes &&& 1 != 0) = true)
    (hr : reg < 8#32) (hm : rm < 8#32) (ha : aaa < 8#32) (hxop : opcode &&& 0x800#32 = 0#32)
    (hopt : options &&& ~~~0x80EC0000#32 = 0#32) (hdec : aaa ≠ 0#32 ∨ options &&& 0x008C0000#32 ≠ 0#32)
    (hx' : vexEvexROptions c (xR opcode 0#32 reg 0#32 rm aaa) options = .ok x')
    (hk0 : PlainKind k0) (hk2 : PlainKind k2)
    (R : VexRule rule 1) (f3 : FormOp) (imm : BitVec 64) (hf3 : f3.role = .imm) (hib : immBitsOf f3 = 8) (D : DecorAllowed rule aaa.toNat (optZ options) (optER options) (optSAE options))
    (hs : rule.space = 2) (A : RowAgree rule opcode true)
    (hf0 : f0.role = .reg) (hf2 : f2.role = .rm)
    (hal : alignOps rule.oszEff rule.ops [.reg k0 reg.toNat, .reg k2 rm.toNat, .imm imm] =
           some [(f0, some (.reg k0 reg.toNat)), (f2, some (.reg k2 rm.toNat)), (f3, some (.imm imm))]) :
    ∃ bytes, emitVexEvexR c opcode options (reg + (0#32 <<< 7)) rm imm 1 = .ok bytes ∧
      formOk ctx rule [.reg k0 reg.toNat, .reg k2 rm.toNat, .imm imm]
        (decorOf aaa.toNat (optZ options) (optER options) (optSAE options) (optRC options)) bytes = true := by
  rw [emitVexEvexR_dec32 c opcode options reg 0#32 rm aaa x' imm 1 hpe hk ha hopt hdec hx']
  refine ⟨_, rfl, ?_⟩
  obtain ⟨p, hp, P, h0, h1, h2, hi⟩ := evexR_parsed_dec32 c rule opcode options reg 0#32 rm aaa x' [imm.truncate 8] hr (by decide) hm ha hxop hopt hx' R hs A
  simp only [emitImmByteOrDword, Nat.one_ne_zero, beq_self_eq_true, ↓reduceIte, show ((1:Nat) == 0) = false from rfl, Bool.false_eq_true] at *
  exact vex_rmi_formOk_dec ctx rule p _ _ k0 k2 f0 f2 _ _ _ _ _ _ _ (by simpa [hm64] using hmode) hk0 hk2 R f3 imm hf3 hib (by simp [hi]) D hf0 hf2 hal
    (by rw [hm64]; exact hp) P h0 h1 h2

/-- **front_cls_correct with AVX-512 decorations, classes VexRvm / VexRvm_Lx, EVEX forms.** For EVERY regenerated (row, EVEX form) pair,
ALL register numbers 0..31, ALL mask registers k0..k7, ALL combinations of {z} / {er} + rounding mode / {sae} the encoder's option block
accepts (`vexEvexROptions` succeeds) and the form allows (`DecorAllowed`): the bytes satisfy the monitor CALLED WITH THESE DECORATIONS -
EVEX.aaa = k, EVEX.z, EVEX.b = er ∨ sae, EVEX.L'L = rounding mode. -/
theorem front_cls_correct_rvm_dec32 (e : Entry) (ch : List Entry) (hch : ch ∈ rvmChunks) (he : e ∈ ch) (hsp : e.rule.space = 2)
    (c : Model.X86.Ctx) (ctx : Spec.X86.Ctx) (reg vvvvv rm aaa options x' : BitVec 32)
    (hpe : c.preferEvex = false) (hk : c.extraId = aaa) (hm64 : ctx.mode64 = false) (hm32 : (e.rule.modes &&& 1 != 0) = true)
    (hr : reg < 8#32) (hv : vvvvv < 8#32) (hm : rm < 8#32) (ha : aaa < 8#32)
    (hopt : options &&& ~~~0x80EC0000#32 = 0#32) (hdec : aaa ≠ 0#32 ∨ options &&& 0x008C0000#32 ≠ 0#32)
    (hx' : vexEvexROptions c (xR (finalOp e 0x75) 0#32 reg vvvvv rm aaa) options = .ok x')
    (D : DecorAllowed e.rule aaa.toNat (optZ options) (optER options) (optSAE options)) :
    ∃ bytes k0 k1 k2, e.kinds = [k0, k1, k2] ∧
      emitVexEvexR c (finalOp e 0x75) options (packRegVvvvv reg.toNat vvvvv.toNat) (r32 rm.toNat) 0 0 = .ok bytes ∧
      formOk ctx e.rule [.reg k0 reg.toNat, .reg k1 vvvvv.toNat, .reg k2 rm.toNat]
        (decorOf aaa.toNat (optZ options) (optER options) (optSAE options) (optRC options)) bytes = true := by
  have hok := mem_chunks_ok rvm_entries_ok e ch hch he
  unfold entryOkRvm at hok
  split at hok
  · rename_i f0 f1 f2 k0 k1 k2 hops hkinds
    simp only [Bool.and_eq_true, Bool.or_eq_true, beq_iff_eq] at hok
    obtain ⟨-, hR, hA, -, r0, r1, r2, hS⟩ := hok
    obtain ⟨R, -⟩ := vexRuleOk_spec _ _ hR
    obtain ⟨A, hxop, -⟩ := rowAgreeOk_spec _ _ hA
    obtain ⟨p0, p1, p2, hal⟩ := shapeOk3_spec _ _ _ _ _ _ _ hops hS
    rw [hsp] at A
    obtain ⟨bytes, hb, hf⟩ := vexR_rvm_formOk_dec32 c ctx e.rule (finalOp e 0x75) options reg vvvvv rm aaa x' k0 k1 k2 f0 f1 f2 hpe hk hm64
      hm32 hr hv hm ha hxop hopt hdec hx' p0 p1 p2 R D hsp A r0 r1 r2 (hal _ _ _)
    refine ⟨bytes, k0, k1, k2, hkinds, ?_, hf⟩
    rw [packRegVvvvv_eq reg vvvvv (by bv_decide) (by bv_decide)]
    simpa [r32] using hb
  · simp at hok

/-- **front_cls_correct with AVX-512 decorations, classes VexRm / VexRm_Lx, EVEX forms** -/
theorem front_cls_correct_rm_dec32 (e : Entry) (ch : List Entry) (hch : ch ∈ rmChunks) (he : e ∈ ch) (hsp : e.rule.space = 2)
    (c : Model.X86.Ctx) (ctx : Spec.X86.Ctx) (reg rm aaa options x' : BitVec 32)
    (hpe : c.preferEvex = false) (hk : c.extraId = aaa) (hm64 : ctx.mode64 = false) (hm32 : (e.rule.modes &&& 1 != 0) = true)
    (hr : reg < 8#32) (hm : rm < 8#32) (ha : aaa < 8#32)
    (hopt : options &&& ~~~0x80EC0000#32 = 0#32) (hdec : aaa ≠ 0#32 ∨ options &&& 0x008C0000#32 ≠ 0#32)
    (hx' : vexEvexROptions c (xR (finalOp e 0x6B) 0#32 reg 0#32 rm aaa) options = .ok x')
    (D : DecorAllowed e.rule aaa.toNat (optZ options) (optER options) (optSAE options)) :
    ∃ bytes k0 k2, e.kinds = [k0, k2] ∧
      emitVexEvexR c (finalOp e 0x6B) options (r32 reg.toNat) (r32 rm.toNat) 0 0 = .ok bytes ∧
      formOk ctx e.rule [.reg k0 reg.toNat, .reg k2 rm.toNat] (decorOf aaa.toNat (optZ options) (optER options) (optSAE options) (optRC options)) bytes = true := by
  have hok := mem_chunks_ok rm_entries_ok e ch hch he
  unfold entryOkRm at hok
  split at hok
  · rename_i f0 f2 k0 k2 hops hkinds
    simp only [Bool.and_eq_true, Bool.or_eq_true, beq_iff_eq] at hok
    obtain ⟨-, hR, hA, -, r0, r2, hS⟩ := hok
    obtain ⟨R, -⟩ := vexRuleOk_spec _ _ hR
    obtain ⟨A, hxop, hvx⟩ := rowAgreeOk_spec _ _ hA
    obtain ⟨p0, p2, m0, m2⟩ := shapeOk2_spec _ _ _ _ _ hS
    have hal : ∀ i0 i2, alignOps e.rule.oszEff e.rule.ops [.reg k0 i0, .reg k2 i2] = some [(f0, some (.reg k0 i0)), (f2, some (.reg k2 i2))] := by
      intro i0 i2; rw [hops]; exact alignOps2 _ _ _ _ _ (m0 i0) (m2 i2)
    have e0 : reg + ((0#32 : BitVec 32) <<< 7) = reg := by bv_decide
    rw [hsp] at A
    obtain ⟨bytes, hb, hf⟩ := vexR_rm_formOk_dec32 c ctx e.rule (finalOp e 0x6B) options reg rm aaa x' k0 k2 f0 f2 hpe hk hm64
      hm32 hr hm ha hxop hopt hdec hx' p0 p2 R D hsp A r0 r2 (hal _ _)
    refine ⟨bytes, k0, k2, hkinds, ?_, hf⟩
    rw [e0] at hb
    simpa [r32] using hb
  · simp at hok

/-- **front_cls_correct with AVX-512 decorations, classes VexRvmi / VexRvmi_Lx, EVEX forms** -/
theorem front_cls_correct_rvmi_dec32 (e : Entry) (ch : List Entry) (hch : ch ∈ rvmiChunks) (he : e ∈ ch) (hsp : e.rule.space = 2)
    (c : Model.X86.Ctx) (ctx : Spec.X86.Ctx) (reg vvvvv rm aaa options x' : BitVec 32) (imm : BitVec 64)
    (hpe : c.preferEvex = false) (hk : c.extraId = aaa) (hm64 : ctx.mode64 = false) (hm32 : (e.rule.modes &&& 1 != 0) = true)
    (himm : ∀ f3, e.rule.ops[3]? = some f3 → formOpMatches e.rule.oszEff f3 (.imm imm) = true)
    (hr : reg < 8#32) (hv : vvvvv < 8#32) (hm : rm < 8#32) (ha : aaa < 8#32)
    (hopt : options &&& ~~~0x80EC0000#32 = 0#32) (hdec : aaa ≠ 0#32 ∨ options &&& 0x008C0000#32 ≠ 0#32)
    (hx' : vexEvexROptions c (xR (finalOp e 0x7C) 0#32 reg vvvvv rm aaa) options = .ok x')
    (D : DecorAllowed e.rule aaa.toNat (optZ options) (optER options) (optSAE options)) :
    ∃ bytes k0 k1 k2, e.kinds = [k0, k1, k2] ∧
      emitVexEvexR c (finalOp e 0x7C) options (packRegVvvvv reg.toNat vvvvv.toNat) (r32 rm.toNat) imm 1 = .ok bytes ∧
      formOk ctx e.rule [.reg k0 reg.toNat, .reg k1 vvvvv.toNat, .reg k2 rm.toNat, .imm imm] (decorOf aaa.toNat (optZ options) (optER options) (optSAE options) (optRC options)) bytes = true := by
  have hok := mem_chunks_ok rvmi_entries_ok e ch hch he
  unfold entryOkRvmi at hok
  split at hok
  · rename_i f0 f1 f2 f3 k0 k1 k2 hops hkinds
    simp only [Bool.and_eq_true, Bool.or_eq_true, beq_iff_eq] at hok
    obtain ⟨-, hR, hA, -, r0, r1, r2, r3, hib, hS⟩ := hok
    obtain ⟨R, -⟩ := vexRuleOk_spec _ _ hR
    obtain ⟨A, hxop, hvx⟩ := rowAgreeOk_spec _ _ hA
    obtain ⟨p0, p1, p2, m0, m1, m2⟩ := shapeOk3_specB _ _ _ _ _ _ _ hS
    have m3 : formOpMatches e.rule.oszEff f3 (.imm imm) = true := himm f3 (by rw [hops]; rfl)
    have hal : ∀ i0 i1 i2, alignOps e.rule.oszEff e.rule.ops [.reg k0 i0, .reg k1 i1, .reg k2 i2, .imm imm] =
        some [(f0, some (.reg k0 i0)), (f1, some (.reg k1 i1)), (f2, some (.reg k2 i2)), (f3, some (.imm imm))] := by
      intro i0 i1 i2; rw [hops]; exact alignOps4 _ _ _ _ _ _ _ _ _ (m0 i0) (m1 i1) (m2 i2) m3
    rw [hsp] at A
    obtain ⟨bytes, hb, hf⟩ := vexR_rvmi_formOk_dec32 c ctx e.rule (finalOp e 0x7C) options reg vvvvv rm aaa x' k0 k1 k2 f0 f1 f2 hpe hk hm64
      hm32 hr hv hm ha hxop hopt hdec hx' p0 p1 p2 R f3 imm r3 hib D hsp A r0 r1 r2 (hal _ _ _)
    refine ⟨bytes, k0, k1, k2, hkinds, ?_, hf⟩
    rw [packRegVvvvv_eq reg vvvvv (by bv_decide) (by bv_decide)]
    simpa [r32] using hb
  · simp at hok

/-- **front_cls_correct with AVX-512 decorations, classes VexRmi / VexRmi_Lx, EVEX forms** -/
theorem front_cls_correct_rmi_dec32 (e : Entry) (ch : List Entry) (hch : ch ∈ rmiChunks) (he : e ∈ ch) (hsp : e.rule.space = 2)
    (c : Model.X86.Ctx) (ctx : Spec.X86.Ctx) (reg rm aaa options x' : BitVec 32) (imm : BitVec 64)
    (hpe : c.preferEvex = false) (hk : c.extraId = aaa) (hm64 : ctx.mode64 = false) (hm32 : (e.rule.modes &&& 1 != 0) = true)
    (himm : ∀ f3, e.rule.ops[2]? = some f3 → formOpMatches e.rule.oszEff f3 (.imm imm) = true)
    (hr : reg < 8#32) (hm : rm < 8#32) (ha : aaa < 8#32)
    (hopt : options &&& ~~~0x80EC0000#32 = 0#32) (hdec : aaa ≠ 0#32 ∨ options &&& 0x008C0000#32 ≠ 0#32)
    (hx' : vexEvexROptions c (xR (finalOp e 0x71) 0#32 reg 0#32 rm aaa) options = .ok x')
    (D : DecorAllowed e.rule aaa.toNat (optZ options) (optER options) (optSAE options)) :
    ∃ bytes k0 k2, e.kinds = [k0, k2] ∧
      emitVexEvexR c (finalOp e 0x71) options (r32 reg.toNat) (r32 rm.toNat) imm 1 = .ok bytes ∧
      formOk ctx e.rule [.reg k0 reg.toNat, .reg k2 rm.toNat, .imm imm] (decorOf aaa.toNat (optZ options) (optER options) (optSAE options) (optRC options)) bytes = true := by
  have hok := mem_chunks_ok rmi_entries_ok e ch hch he
  unfold entryOkRmi at hok
  split at hok
  · rename_i f0 f2 f3 k0 k2 hops hkinds
    simp only [Bool.and_eq_true, Bool.or_eq_true, beq_iff_eq] at hok
    obtain ⟨-, hR, hA, -, r0, r2, r3, hib, hS⟩ := hok
    obtain ⟨R, -⟩ := vexRuleOk_spec _ _ hR
    obtain ⟨A, hxop, hvx⟩ := rowAgreeOk_spec _ _ hA
    obtain ⟨p0, p2, m0, m2⟩ := shapeOk2_spec _ _ _ _ _ hS
    have m3 : formOpMatches e.rule.oszEff f3 (.imm imm) = true := himm f3 (by rw [hops]; rfl)
    have hal : ∀ i0 i2, alignOps e.rule.oszEff e.rule.ops [.reg k0 i0, .reg k2 i2, .imm imm] =
        some [(f0, some (.reg k0 i0)), (f2, some (.reg k2 i2)), (f3, some (.imm imm))] := by
      intro i0 i2; rw [hops]; exact alignOps3i _ _ _ _ _ _ _ (m0 i0) (m2 i2) m3
    have e0 : reg + ((0#32 : BitVec 32) <<< 7) = reg := by bv_decide
    rw [hsp] at A
    obtain ⟨bytes, hb, hf⟩ := vexR_rmi_formOk_dec32 c ctx e.rule (finalOp e 0x71) options reg rm aaa x' k0 k2 f0 f2 hpe hk hm64
      hm32 hr hm ha hxop hopt hdec hx' p0 p2 R f3 imm r3 hib D hsp A r0 r2 (hal _ _)
    refine ⟨bytes, k0, k2, hkinds, ?_, hf⟩
    rw [e0] at hb
    simpa [r32] using hb
  · simp at hok

/-! ### `evex()` together with decorations: EVEX is chosen anyway, the option changes no byte (64- and 32-bit mode) -/

theorem vexEvexROptions_force (c : Model.X86.Ctx) (x options x' : BitVec 32) (hopt : options &&& ~~~0x80EC0000#32 = 0#32)
    (hx' : vexEvexROptions c x options = .ok x') :
    vexEvexROptions c (x ||| 0x10#32) (options ||| 0x1000#32) = .ok (x' ||| 0x10#32) := by
  have t1 : (options ||| 0x1000#32) &&& (0x800000#32 ||| 0x40000#32 ||| 0x80000#32) = options &&& (0x800000#32 ||| 0x40000#32 ||| 0x80000#32) := by bv_decide
  have t2 : (options ||| 0x1000#32) &&& (0x40000#32 ||| 0x80000#32) = options &&& (0x40000#32 ||| 0x80000#32) := by bv_decide
  have t3 : (options ||| 0x1000#32) &&& 0x40000#32 = options &&& 0x40000#32 := by bv_decide
  have t4 : (options ||| 0x1000#32) &&& 0x800000#32 = options &&& 0x800000#32 := by bv_decide
  have t5 : (options ||| 0x1000#32) &&& 0x600000#32 = options &&& 0x600000#32 := by bv_decide
  have t6 : ∀ y : BitVec 32, ((x ||| 0x10#32 ||| y) &&& 0x600000#32 != 0x400000#32) = ((x ||| y) &&& 0x600000#32 != 0x400000#32) := by
    intro y
    have : (x ||| 0x10#32 ||| y) &&& 0x600000#32 = (x ||| y) &&& 0x600000#32 := by bv_decide
    rw [this]
  simp only [vexEvexROptions, oZMask, oER, oSAE, t1, t2, t3, t4, t5, t6] at hx' ⊢
  by_cases hA : (options &&& (0x800000#32 ||| 0x40000#32 ||| 0x80000#32) != 0#32) = true <;>
  by_cases hB : (options &&& (0x40000#32 ||| 0x80000#32) != 0#32) = true <;>
  by_cases hC : ((x ||| options &&& 0x800000#32) &&& 0x600000#32 != 0x400000#32 && c.hasBcst) = true <;>
  by_cases hD : (options &&& 0x40000#32 != 0#32) = true <;>
  by_cases hE : (!c.hasER) = true <;> by_cases hF : (!c.hasSAE) = true <;>
  simp only [hA, hB, hC, hD, hE, hF, ↓reduceIte, Except.ok.injEq, reduceCtorEq] at hx' ⊢ <;>
  first | (subst hx'; bv_decide) | (subst hx'; rfl) | skip

/-- with a decoration in force, `evex()` changes no byte: every `front_cls_correct_*_dec` / `_dec32` theorem admits the option -/
theorem emitVexEvexR_evex_dec (c : Model.X86.Ctx) (opcode options reg vvvvv rm aaa x' : BitVec 32) (imm : BitVec 64) (n : Nat)
    (hpe : c.preferEvex = false) (hk : c.extraId = aaa) (ha : aaa < 8#32)
    (hopt : options &&& ~~~0x80EC0000#32 = 0#32) (hdec : aaa ≠ 0#32 ∨ options &&& 0x008C0000#32 ≠ 0#32)
    (hx' : vexEvexROptions c (xR opcode 0#32 reg vvvvv rm aaa) options = .ok x') :
    emitVexEvexR c opcode (options ||| oEvex) (reg + (vvvvv <<< 7)) rm imm n = emitVexEvexR c opcode options (reg + (vvvvv <<< 7)) rm imm n := by
  rw [emitVexEvexR_dec32 c opcode options reg vvvvv rm aaa x' imm n hpe hk ha hopt hdec hx']
  have hxe : extractLLMMMMM opcode (options ||| 0x1000#32) = extractLLMMMMM opcode 0#32 ||| 0x10#32 := by
    simp only [extractLLMMMMM, oEvex, kLL_Mask, kMM_Mask]; bv_decide
  have hx : xR opcode 0#32 reg vvvvv rm aaa = xOfR opcode 0#32 (reg + (vvvvv <<< 7)) rm aaa := rfl
  rw [hx] at hx'
  unfold xOfR at hx'
  have hx2 := vexEvexROptions_force c _ options x' hopt hx'
  have hxx : ((reg + (vvvvv <<< 7)) <<< 4 &&& 0xF980#32 ||| rm <<< 2 &&& 0x60#32 ||| (extractLLMMMMM opcode 0#32 ||| 0x10#32) ||| aaa <<< 16) =
      ((reg + (vvvvv <<< 7)) <<< 4 &&& 0xF980#32 ||| rm <<< 2 &&& 0x60#32 ||| extractLLMMMMM opcode 0#32 ||| aaa <<< 16) ||| 0x10#32 := by bv_decide
  have hne : ((x' ||| 0x10#32) &&& 0x00D78150#32 != 0#32) = true := by simp only [bne_iff_ne, ne_eq]; bv_decide
  have hw : evexWord (x' ||| 0x10#32) opcode = evexWord x' opcode := by simp only [evexWord]; bv_decide
  simp only [emitVexEvexR, oEvex, hk, hxe, hxx, hx2, hpe, Bool.false_and, Bool.false_eq_true, ↓reduceIte, hne, hw, bind, Except.bind, pure, Except.pure, modrmRR]

end AsmjitVerif.Props.C01
