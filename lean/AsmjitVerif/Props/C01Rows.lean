/-
C01 property theorems, front-end layer, part 2: the table layer.

`Gen/X86ClassRows.lean` is regenerated on every run from the compiled instruction tables of /repo (harness `row`: encoding class,
main opcode word, flags) and from db/isa_x86.json: one entry per (instruction, database form) whose operands are all class
registers, for the classes VexRvm / VexRvm_Lx (shape reg,vvvv,rm), VexRm / VexRm_Lx, VexRvmi / VexRvmi_Lx, VexRmi / VexRmi_Lx.
`entryOk` decides, per entry, everything the symbolic theorems of Props/C01Front.lean assume about a row and a form:
the opcode word the class computes (main opcode | LL by register size for the _Lx classes) carries the form's opcode byte, map,
mandatory prefix, W and L; the form is a /r form of the right encoding space without fixed ModRM digits; its operands take the
entry's register kinds in the roles of the class. `*_entries_ok` evaluates it over every regenerated entry (`decide +kernel`);
`front_cls_correct_*` combine both layers: for EVERY entry and EVERY register numbers the bytes of the class model satisfy the monitor.
-/
import AsmjitVerif.Props.C01Front
import AsmjitVerif.Model.X86Front
import AsmjitVerif.Gen.X86ClassRows
set_option linter.constructorNameAsVariable false
set_option maxRecDepth 100000
namespace AsmjitVerif.Props.C01
open Spec.X86 Model.X86 AsmjitVerif.Lemmas.X86Parse AsmjitVerif.Gen.X86ClassRows

/-- RegType number (core/operand.h) of a register kind, as the harness / model use it -/
def rtypeOf : RegKind → Nat
  | .gpb => 2 | .gpbhi => 3 | .gpw => 4 | .gpd => 5 | .gpq => 6 | .xmm => 11 | .ymm => 12 | .zmm => 13 | .k => 16 | .tmm => 17
  | .sreg => 25 | .creg => 26 | .dreg => 27 | .mm => 28 | .st => 29 | .bnd => 30 | .rip => 31 | .label => 1 | .none => 0

def plainKind (k : RegKind) : Bool := k != .gpbhi && k != .gpb && k != .sreg

/-- the opcode word the class hands to `EmitVexEvexR`: `_Lx` classes add LL from the sizes of the first two operands -/
def finalOp (e : Entry) (lxEnc : Nat) : BitVec 32 :=
  if e.enc == 0x7B then          -- VexRvmi_KEvex
    e.mainOp ||| ((if e.kinds.getD 0 .none == .k then 1#32 else 0#32) <<< 12)
  else if e.enc == 0x76 || e.enc == 0x7D then          -- VexRvm_Lx_KEvex / VexRvmi_Lx_KEvex: EVEX is forced when the destination is a mask register
    (e.mainOp ||| ((if e.kinds.getD 0 .none == .k then 1#32 else 0#32) <<< 12)) |||
      opcodeLBySize ((Op.reg (rtypeOf (e.kinds.getD 0 .none)) 0).rmSize ||| (Op.reg (rtypeOf (e.kinds.getD 1 .none)) 0).rmSize)
  else if e.enc == lxEnc then
    e.mainOp ||| opcodeLBySize ((Op.reg (rtypeOf (e.kinds.getD 0 .none)) 0).rmSize ||| (Op.reg (rtypeOf (e.kinds.getD 1 .none)) 0).rmSize)
  else if e.enc == 0x83 || e.enc == 0x84 then      -- VexRmMr / VexRmMr_Lx: load = main opcode, store ([rm, reg] entries) = alternative opcode, LL kept
    let base := if e.enc == 0x84 then
        e.mainOp ||| opcodeLBySize ((Op.reg (rtypeOf (e.kinds.getD 0 .none)) 0).rmSize ||| (Op.reg (rtypeOf (e.kinds.getD 1 .none)) 0).rmSize)
      else e.mainOp
    let store : Bool := match e.rule.ops with | f0 :: _ => f0.role == .rm | _ => false
    if store then (base &&& kLL_Mask) ||| e.altOp else base
  else if e.enc == 0x73 then      -- VexRvm_Wx: W from a 64-bit destination or an 8-byte r/m operand
    e.mainOp ||| (if e.kinds.getD 0 .none == .gpq || (Op.reg (rtypeOf (e.kinds.getD 2 .none)) 0).rmSize == 8 then kW else 0#32)
  else e.mainOp

def noFix (f : FormOp) : Bool := f.alts.all fun a => match a with | .reg _ (some _) => false | _ => true

def vexRuleOk (r : Rule) (nimm : Nat) : Bool :=
  r.modes &&& 2 != 0 && ((r.space == 1 || r.space == 2) && (r.pp &&& 8 == 0 && (!r.ri && ((r.modKind == 1 || r.modKind == 2) && (r.modr == 8 &&
  (r.modrm == 8 && (r.immBytes == nimm && (r.relBytes == 0 && (!r.moff && (!r.a67 && (!r.immRev && r.osz == 0)))))))))))

theorem vexRuleOk_spec (r : Rule) (n : Nat) (h : vexRuleOk r n = true) : VexRule r n ∧ (r.space = 1 ∨ r.space = 2) := by
  simp only [vexRuleOk, Bool.and_eq_true, Bool.or_eq_true, beq_iff_eq, bne_iff_ne, ne_eq, Bool.not_eq_true'] at h
  obtain ⟨hmodes, hsp, hpp8, hri, hmk, hmr, hmrm, himm, hrel, hmoff, ha67, hrev, hosz⟩ := h
  exact ⟨⟨hmodes, by rcases hsp with h | h <;> simp [h], hpp8, hri, hmk, hmr, hmrm, himm, hrel, hmoff, ha67, hrev, hosz⟩, hsp⟩

def rowAgreeOk (r : Rule) (op : BitVec 32) : Bool :=
  r.opcode == (op &&& 0xFF#32).toNat && (r.map == ((op >>> 8) &&& 0xF#32).toNat && (ppWant r == ((op >>> 21) &&& 3#32).toNat &&
  ((r.w == 2 || r.w == (if r.space == 2 then ((op >>> 27) ||| (op >>> 28)) &&& 1#32 else (op >>> 27) &&& 1#32).toNat) &&
  ((r.l == 3 || r.l == ((op >>> 29) &&& 3#32).toNat) &&
  (op &&& 0x800#32 == 0#32 && (r.space == 2 || (op &&& 0x40001000#32 == 0#32 && op &&& 0x1F00#32 != 0#32)))))))

theorem rowAgreeOk_spec (r : Rule) (op : BitVec 32) (h : rowAgreeOk r op = true) :
    RowAgree r op (r.space == 2) ∧ op &&& 0x800#32 = 0#32 ∧ (r.space = 1 → op &&& 0x40001000#32 = 0#32 ∧ op &&& 0x1F00#32 ≠ 0#32) := by
  simp only [rowAgreeOk, Bool.and_eq_true, Bool.or_eq_true, beq_iff_eq, bne_iff_ne, ne_eq] at h
  obtain ⟨hop, hmap, hpp, hw, hl, hxop, hvexc⟩ := h
  refine ⟨⟨hop, hmap, hpp, ?_, hl⟩, hxop, ?_⟩
  · rcases hw with h | h
    · exact Or.inl h
    · right
      rw [h]
      by_cases h2 : r.space = 2 <;> simp [h2]
  · intro h1
    rcases hvexc with h | h
    · omega
    · exact h

theorem plainKind_spec (k : RegKind) (h : plainKind k = true) : PlainKind k := by
  simp only [plainKind, Bool.and_eq_true, bne_iff_ne, ne_eq] at h
  exact ⟨h.1.1, h.1.2, h.2⟩

theorem formOpMatches_reg_nofix (osz : Nat) (f : FormOp) (k : RegKind) (id : Nat) (h : noFix f = true) :
    formOpMatches osz f (.reg k id) = formOpMatches osz f (.reg k 0) := by
  unfold formOpMatches noFix at *
  generalize f.alts = l at h ⊢
  induction l with
  | nil => rfl
  | cons a as ih =>
    simp only [List.all_cons, Bool.and_eq_true] at h
    simp only [List.any_cons, ih h.2]
    congr 1
    cases a with
    | reg k' fx =>
      cases fx with
      | none => simp [altMatches]
      | some x => simp at h
    | mem _ _ => simp [altMatches]
    | imm _ _ _ => simp [altMatches]
    | rel _ => simp [altMatches]

theorem alignOps3 (osz : Nat) (f0 f1 f2 : FormOp) (o0 o1 o2 : Operand)
    (h0 : formOpMatches osz f0 o0 = true) (h1 : formOpMatches osz f1 o1 = true) (h2 : formOpMatches osz f2 o2 = true) :
    alignOps osz [f0, f1, f2] [o0, o1, o2] = some [(f0, some o0), (f1, some o1), (f2, some o2)] := by
  simp [alignOps, h0, h1, h2]

theorem packRegVvvvv_eq (a b : BitVec 32) (ha : a < 32#32) (hb : b < 32#32) : packRegVvvvv a.toNat b.toNat = a + (b <<< 7) := by
  apply BitVec.eq_of_toNat_eq
  have ha' : a.toNat < 32 := by simpa [BitVec.lt_def] using ha
  have hb' : b.toNat < 32 := by simpa [BitVec.lt_def] using hb
  simp only [packRegVvvvv, BitVec.toNat_add, BitVec.toNat_shiftLeft, Nat.shiftLeft_eq, BitVec.toNat_ofNat]
  omega

/-- the three operands of the shape take the entry's kinds, for every register number -/
def shapeOk3 (r : Rule) (f0 f1 f2 : FormOp) (k0 k1 k2 : RegKind) : Bool :=
  plainKind k0 && (plainKind k1 && (plainKind k2 && (noFix f0 && (noFix f1 && (noFix f2 &&
  (formOpMatches r.oszEff f0 (.reg k0 0) && (formOpMatches r.oszEff f1 (.reg k1 0) && formOpMatches r.oszEff f2 (.reg k2 0))))))))

theorem shapeOk3_spec (r : Rule) (f0 f1 f2 : FormOp) (k0 k1 k2 : RegKind) (hops : r.ops = [f0, f1, f2]) (h : shapeOk3 r f0 f1 f2 k0 k1 k2 = true) :
    PlainKind k0 ∧ PlainKind k1 ∧ PlainKind k2 ∧
      (∀ i0 i1 i2, alignOps r.oszEff r.ops [.reg k0 i0, .reg k1 i1, .reg k2 i2] =
        some [(f0, some (.reg k0 i0)), (f1, some (.reg k1 i1)), (f2, some (.reg k2 i2))]) := by
  simp only [shapeOk3, Bool.and_eq_true] at h
  obtain ⟨p0, p1, p2, n0, n1, n2, m0, m1, m2⟩ := h
  refine ⟨plainKind_spec _ p0, plainKind_spec _ p1, plainKind_spec _ p2, ?_⟩
  intro i0 i1 i2
  rw [hops]
  exact alignOps3 _ _ _ _ _ _ _ (by rw [formOpMatches_reg_nofix _ _ _ _ n0]; exact m0) (by rw [formOpMatches_reg_nofix _ _ _ _ n1]; exact m1)
    (by rw [formOpMatches_reg_nofix _ _ _ _ n2]; exact m2)

/-- shape reg, vvvv, rm: everything the symbolic layer assumes about a (row, form) pair -/
def entryOkRvm (e : Entry) : Bool :=
  match e.rule.ops, e.kinds with
  | [f0, f1, f2], [k0, k1, k2] =>
    (e.enc == 0x72 || e.enc == 0x75 || e.enc == 0x73 || e.enc == 0x76) && (vexRuleOk e.rule 0 && (rowAgreeOk e.rule (finalOp e 0x75) && (e.iflags &&& 0x1000000#32 == 0#32 &&
    (f0.role == .reg && (f1.role == .vvvv && (f2.role == .rm && shapeOk3 e.rule f0 f1 f2 k0 k1 k2))))))
  | _, _ => false

theorem rvm_entries_ok : rvmChunks.all (fun c => c.all entryOkRvm) = true := by decide +kernel

/-- **front_cls_correct, classes VexRvm and VexRvm_Lx, EVEX forms.** For EVERY (instruction row, database form) pair of the regenerated
tables and ALL register numbers 0..31 for which EVEX is needed, the bytes the class emits satisfy the monitor. -/
theorem front_cls_correct_rvm_evex (e : Entry) (ch : List Entry) (hch : ch ∈ rvmChunks) (he : e ∈ ch) (hsp : e.rule.space = 2)
    (c : Model.X86.Ctx) (ctx : Spec.X86.Ctx) (reg vvvvv rm : BitVec 32)
    (hpe : c.preferEvex = false) (hk : c.extraId = 0#32) (hm64 : ctx.mode64 = true)
    (hr : reg < 32#32) (hv : vvvvv < 32#32) (hm : rm < 32#32)
    (hev : xR (finalOp e 0x75) 0#32 reg vvvvv rm 0#32 &&& 0x00D78150#32 ≠ 0#32) :
    ∃ bytes k0 k1 k2, e.kinds = [k0, k1, k2] ∧
      emitVexEvexR c (finalOp e 0x75) 0#32 (packRegVvvvv reg.toNat vvvvv.toNat) (r32 rm.toNat) 0 0 = .ok bytes ∧
      formOk ctx e.rule [.reg k0 reg.toNat, .reg k1 vvvvv.toNat, .reg k2 rm.toNat] {} bytes = true := by
  have hok : entryOkRvm e = true := by
    have := rvm_entries_ok
    rw [List.all_eq_true] at this
    have h2 := this ch hch
    rw [List.all_eq_true] at h2
    exact h2 e he
  unfold entryOkRvm at hok
  split at hok
  · rename_i f0 f1 f2 k0 k1 k2 hops hkinds
    simp only [Bool.and_eq_true, Bool.or_eq_true, beq_iff_eq] at hok
    obtain ⟨-, hR, hA, -, r0, r1, r2, hS⟩ := hok
    obtain ⟨R, -⟩ := vexRuleOk_spec _ _ hR
    obtain ⟨A, hxop, -⟩ := rowAgreeOk_spec _ _ hA
    obtain ⟨p0, p1, p2, hal⟩ := shapeOk3_spec _ _ _ _ _ _ _ hops hS
    rw [hsp] at A
    obtain ⟨bytes, hb, hf⟩ := vexR_rvm_formOk_evex c ctx e.rule (finalOp e 0x75) reg vvvvv rm k0 k1 k2 f0 f1 f2 hpe hk hm64 (by simpa using R.hmodes) hr hv hm hxop hev
      p0 p1 p2 R hsp A r0 r1 r2 (hal _ _ _)
    refine ⟨bytes, k0, k1, k2, hkinds, ?_, hf⟩
    rw [packRegVvvvv_eq reg vvvvv hr hv]
    simpa [r32] using hb
  · simp at hok

/-- **front_cls_correct, classes VexRvm and VexRvm_Lx, VEX forms** (register numbers 0..15; VEX3 or VEX2 as the emitter chooses). -/
theorem front_cls_correct_rvm_vex (e : Entry) (ch : List Entry) (hch : ch ∈ rvmChunks) (he : e ∈ ch) (hsp : e.rule.space = 1)
    (c : Model.X86.Ctx) (ctx : Spec.X86.Ctx) (reg vvvvv rm : BitVec 32)
    (hpe : c.preferEvex = false) (hk : c.extraId = 0#32) (hm64 : ctx.mode64 = true)
    (hr : reg < 16#32) (hv : vvvvv < 16#32) (hm : rm < 16#32) :
    ∃ bytes k0 k1 k2, e.kinds = [k0, k1, k2] ∧
      emitVexEvexR c (finalOp e 0x75) 0#32 (packRegVvvvv reg.toNat vvvvv.toNat) (r32 rm.toNat) 0 0 = .ok bytes ∧
      formOk ctx e.rule [.reg k0 reg.toNat, .reg k1 vvvvv.toNat, .reg k2 rm.toNat] {} bytes = true := by
  have hok : entryOkRvm e = true := by
    have := rvm_entries_ok
    rw [List.all_eq_true] at this
    have h2 := this ch hch
    rw [List.all_eq_true] at h2
    exact h2 e he
  unfold entryOkRvm at hok
  split at hok
  · rename_i f0 f1 f2 k0 k1 k2 hops hkinds
    simp only [Bool.and_eq_true, Bool.or_eq_true, beq_iff_eq] at hok
    obtain ⟨-, hR, hA, -, r0, r1, r2, hS⟩ := hok
    obtain ⟨R, -⟩ := vexRuleOk_spec _ _ hR
    obtain ⟨A, hxop, hvx⟩ := rowAgreeOk_spec _ _ hA
    obtain ⟨hll, hmm⟩ := hvx hsp
    obtain ⟨p0, p1, p2, hal⟩ := shapeOk3_spec _ _ _ _ _ _ _ hops hS
    have A' : RowAgree e.rule (finalOp e 0x75) false := by rw [hsp] at A; exact A
    obtain ⟨bytes, hb, hf⟩ := vexR_rvm_formOk_vex c ctx e.rule (finalOp e 0x75) reg vvvvv rm k0 k1 k2 f0 f1 f2 hpe hk hm64 (by simpa using R.hmodes) hr hv hm hxop hll hmm
      p0 p1 p2 R hsp A' r0 r1 r2 (hal _ _ _)
    refine ⟨bytes, k0, k1, k2, hkinds, ?_, hf⟩
    rw [packRegVvvvv_eq reg vvvvv (by bv_decide) (by bv_decide)]
    simpa [r32] using hb
  · simp at hok

/-- the class dispatch of the front-end model for VexRvm / VexRvm_Lx with three register operands IS that backend call -/
theorem dispatch_rvm (c : Model.X86.Ctx) (row : Row) (options : BitVec 32) (t0 t1 t2 i0 i1 i2 : Nat) (henc : row.encoding = 0x72 ∨ row.encoding = 0x75) :
    dispatch c row options (.reg t0 i0) (.reg t1 i1) (.reg t2 i2) .none =
      emitVexEvexR c (if row.encoding = 0x75 then row.mainOp ||| opcodeLBySize ((Op.reg t0 i0).rmSize ||| (Op.reg t1 i1).rmSize) else row.mainOp)
        options (packRegVvvvv i0 i1) (r32 i2) 0 0 := by
  rcases henc with h | h <;> simp [dispatch, h, sig3, Op.kind, Op.id]

/-! ### the other shapes: [reg, rm] (VexRm / VexRm_Lx), [reg, vvvv, rm, imm8] (VexRvmi / VexRvmi_Lx), [reg, rm, imm8] (VexRmi / VexRmi_Lx) -/

theorem alignOps2 (osz : Nat) (f0 f2 : FormOp) (o0 o2 : Operand)
    (h0 : formOpMatches osz f0 o0 = true) (h2 : formOpMatches osz f2 o2 = true) :
    alignOps osz [f0, f2] [o0, o2] = some [(f0, some o0), (f2, some o2)] := by
  simp [alignOps, h0, h2]

theorem alignOps3i (osz : Nat) (f0 f2 f3 : FormOp) (o0 o2 o3 : Operand)
    (h0 : formOpMatches osz f0 o0 = true) (h2 : formOpMatches osz f2 o2 = true) (h3 : formOpMatches osz f3 o3 = true) :
    alignOps osz [f0, f2, f3] [o0, o2, o3] = some [(f0, some o0), (f2, some o2), (f3, some o3)] := by
  simp [alignOps, h0, h2, h3]

theorem alignOps4 (osz : Nat) (f0 f1 f2 f3 : FormOp) (o0 o1 o2 o3 : Operand)
    (h0 : formOpMatches osz f0 o0 = true) (h1 : formOpMatches osz f1 o1 = true) (h2 : formOpMatches osz f2 o2 = true)
    (h3 : formOpMatches osz f3 o3 = true) :
    alignOps osz [f0, f1, f2, f3] [o0, o1, o2, o3] = some [(f0, some o0), (f1, some o1), (f2, some o2), (f3, some o3)] := by
  simp [alignOps, h0, h1, h2, h3]

def shapeOk2 (r : Rule) (f0 f2 : FormOp) (k0 k2 : RegKind) : Bool :=
  plainKind k0 && (plainKind k2 && (noFix f0 && (noFix f2 &&
  (formOpMatches r.oszEff f0 (.reg k0 0) && formOpMatches r.oszEff f2 (.reg k2 0)))))

theorem shapeOk2_spec (r : Rule) (f0 f2 : FormOp) (k0 k2 : RegKind) (h : shapeOk2 r f0 f2 k0 k2 = true) :
    PlainKind k0 ∧ PlainKind k2 ∧ (∀ i0, formOpMatches r.oszEff f0 (.reg k0 i0) = true) ∧ (∀ i2, formOpMatches r.oszEff f2 (.reg k2 i2) = true) := by
  simp only [shapeOk2, Bool.and_eq_true] at h
  obtain ⟨p0, p2, n0, n2, m0, m2⟩ := h
  exact ⟨plainKind_spec _ p0, plainKind_spec _ p2, fun i => by rw [formOpMatches_reg_nofix _ _ _ _ n0]; exact m0,
    fun i => by rw [formOpMatches_reg_nofix _ _ _ _ n2]; exact m2⟩

theorem shapeOk3_specB (r : Rule) (f0 f1 f2 : FormOp) (k0 k1 k2 : RegKind) (h : shapeOk3 r f0 f1 f2 k0 k1 k2 = true) :
    PlainKind k0 ∧ PlainKind k1 ∧ PlainKind k2 ∧ (∀ i, formOpMatches r.oszEff f0 (.reg k0 i) = true) ∧
      (∀ i, formOpMatches r.oszEff f1 (.reg k1 i) = true) ∧ (∀ i, formOpMatches r.oszEff f2 (.reg k2 i) = true) := by
  simp only [shapeOk3, Bool.and_eq_true] at h
  obtain ⟨p0, p1, p2, n0, n1, n2, m0, m1, m2⟩ := h
  exact ⟨plainKind_spec _ p0, plainKind_spec _ p1, plainKind_spec _ p2, fun i => by rw [formOpMatches_reg_nofix _ _ _ _ n0]; exact m0,
    fun i => by rw [formOpMatches_reg_nofix _ _ _ _ n1]; exact m1, fun i => by rw [formOpMatches_reg_nofix _ _ _ _ n2]; exact m2⟩

def entryOkRm (e : Entry) : Bool :=
  match e.rule.ops, e.kinds with
  | [f0, f2], [k0, k2] =>
    (e.enc == 0x68 || e.enc == 0x6B || e.enc == 0x83 || e.enc == 0x84) && (vexRuleOk e.rule 0 && (rowAgreeOk e.rule (finalOp e 0x6B) && (e.iflags &&& 0x1000000#32 == 0#32 &&
    (f0.role == .reg && (f2.role == .rm && shapeOk2 e.rule f0 f2 k0 k2)))))
  | _, _ => false

def entryOkRvmi (e : Entry) : Bool :=
  match e.rule.ops, e.kinds with
  | [f0, f1, f2, f3], [k0, k1, k2] =>
    (e.enc == 0x7A || e.enc == 0x7C || e.enc == 0x7B || e.enc == 0x7D) && (vexRuleOk e.rule 1 && (rowAgreeOk e.rule (finalOp e 0x7C) && (e.iflags &&& 0x1000000#32 == 0#32 &&
    (f0.role == .reg && (f1.role == .vvvv && (f2.role == .rm && (f3.role == .imm && (immBitsOf f3 == 8 && shapeOk3 e.rule f0 f1 f2 k0 k1 k2))))))))
  | _, _ => false

def entryOkRmi (e : Entry) : Bool :=
  match e.rule.ops, e.kinds with
  | [f0, f2, f3], [k0, k2] =>
    (e.enc == 0x6F || e.enc == 0x71) && (vexRuleOk e.rule 1 && (rowAgreeOk e.rule (finalOp e 0x71) && (e.iflags &&& 0x1000000#32 == 0#32 &&
    (f0.role == .reg && (f2.role == .rm && (f3.role == .imm && (immBitsOf f3 == 8 && shapeOk2 e.rule f0 f2 k0 k2)))))))
  | _, _ => false

theorem rm_entries_ok : rmChunks.all (fun c => c.all entryOkRm) = true := by decide +kernel
theorem rvmi_entries_ok : rvmiChunks.all (fun c => c.all entryOkRvmi) = true := by decide +kernel
theorem rmi_entries_ok : rmiChunks.all (fun c => c.all entryOkRmi) = true := by decide +kernel

theorem mem_chunks_ok {chunks : List (List Entry)} {ok : Entry → Bool} (h : chunks.all (fun c => c.all ok) = true)
    (e : Entry) (ch : List Entry) (hch : ch ∈ chunks) (he : e ∈ ch) : ok e = true := by
  rw [List.all_eq_true] at h
  have h2 := h ch hch
  rw [List.all_eq_true] at h2
  exact h2 e he

/-- **front_cls_correct, classes VexRm and VexRm_Lx** (EVEX forms with numbers 0..31 when EVEX is needed, VEX forms with numbers 0..15). -/
theorem front_cls_correct_rm (e : Entry) (ch : List Entry) (hch : ch ∈ rmChunks) (he : e ∈ ch)
    (c : Model.X86.Ctx) (ctx : Spec.X86.Ctx) (reg rm : BitVec 32)
    (hpe : c.preferEvex = false) (hk : c.extraId = 0#32) (hm64 : ctx.mode64 = true)
    (hids : (e.rule.space = 2 ∧ reg < 32#32 ∧ rm < 32#32 ∧ xR (finalOp e 0x6B) 0#32 reg 0#32 rm 0#32 &&& 0x00D78150#32 ≠ 0#32) ∨
            (e.rule.space = 1 ∧ reg < 16#32 ∧ rm < 16#32)) :
    ∃ bytes k0 k2, e.kinds = [k0, k2] ∧
      emitVexEvexR c (finalOp e 0x6B) 0#32 (r32 reg.toNat) (r32 rm.toNat) 0 0 = .ok bytes ∧
      formOk ctx e.rule [.reg k0 reg.toNat, .reg k2 rm.toNat] {} bytes = true := by
  have hok := mem_chunks_ok rm_entries_ok e ch hch he
  unfold entryOkRm at hok
  split at hok
  · rename_i f0 f2 k0 k2 hops hkinds
    simp only [Bool.and_eq_true, Bool.or_eq_true, beq_iff_eq] at hok
    obtain ⟨-, hR, hA, -, r0, r2, hS⟩ := hok
    obtain ⟨R, -⟩ := vexRuleOk_spec _ _ hR
    obtain ⟨A, hxop, hvx⟩ := rowAgreeOk_spec _ _ hA
    obtain ⟨p0, p2, m0, m2⟩ := shapeOk2_spec _ _ _ _ _ hS
    have hal : ∀ i0 i2, alignOps e.rule.oszEff e.rule.ops [.reg k0 i0, .reg k2 i2] = some [(f0, some (.reg k0 i0)), (f2, some (.reg k2 i2))] := by
      intro i0 i2; rw [hops]; exact alignOps2 _ _ _ _ _ (m0 i0) (m2 i2)
    have e0 : reg + ((0#32 : BitVec 32) <<< 7) = reg := by bv_decide
    rcases hids with ⟨hsp, hr, hm, hev⟩ | ⟨hsp, hr, hm⟩
    · rw [hsp] at A
      obtain ⟨bytes, hb, hf⟩ := vexR_rm_formOk_evex c ctx e.rule (finalOp e 0x6B) reg rm k0 k2 f0 f2 hpe hk hm64 (by simpa using R.hmodes) hr hm hxop hev p0 p2 R hsp A r0 r2 (hal _ _)
      refine ⟨bytes, k0, k2, hkinds, ?_, hf⟩
      rw [e0] at hb
      simpa [r32] using hb
    · obtain ⟨hll, hmm⟩ := hvx hsp
      have A' : RowAgree e.rule (finalOp e 0x6B) false := by rw [hsp] at A; exact A
      obtain ⟨bytes, hb, hf⟩ := vexR_rm_formOk_vex c ctx e.rule (finalOp e 0x6B) reg rm k0 k2 f0 f2 hpe hk hm64 (by simpa using R.hmodes) hr hm hxop hll hmm p0 p2 R hsp A' r0 r2 (hal _ _)
      refine ⟨bytes, k0, k2, hkinds, ?_, hf⟩
      rw [e0] at hb
      simpa [r32] using hb
  · simp at hok

/-- **front_cls_correct, classes VexRvmi and VexRvmi_Lx**: for every 8-bit immediate the form admits. -/
theorem front_cls_correct_rvmi (e : Entry) (ch : List Entry) (hch : ch ∈ rvmiChunks) (he : e ∈ ch)
    (c : Model.X86.Ctx) (ctx : Spec.X86.Ctx) (reg vvvvv rm : BitVec 32) (imm : BitVec 64)
    (hpe : c.preferEvex = false) (hk : c.extraId = 0#32) (hm64 : ctx.mode64 = true)
    (himm : ∀ f3, e.rule.ops[3]? = some f3 → formOpMatches e.rule.oszEff f3 (.imm imm) = true)
    (hids : (e.rule.space = 2 ∧ reg < 32#32 ∧ vvvvv < 32#32 ∧ rm < 32#32 ∧ xR (finalOp e 0x7C) 0#32 reg vvvvv rm 0#32 &&& 0x00D78150#32 ≠ 0#32) ∨
            (e.rule.space = 1 ∧ reg < 16#32 ∧ vvvvv < 16#32 ∧ rm < 16#32)) :
    ∃ bytes k0 k1 k2, e.kinds = [k0, k1, k2] ∧
      emitVexEvexR c (finalOp e 0x7C) 0#32 (packRegVvvvv reg.toNat vvvvv.toNat) (r32 rm.toNat) imm 1 = .ok bytes ∧
      formOk ctx e.rule [.reg k0 reg.toNat, .reg k1 vvvvv.toNat, .reg k2 rm.toNat, .imm imm] {} bytes = true := by
  have hok := mem_chunks_ok rvmi_entries_ok e ch hch he
  unfold entryOkRvmi at hok
  split at hok
  · rename_i f0 f1 f2 f3 k0 k1 k2 hops hkinds
    simp only [Bool.and_eq_true, Bool.or_eq_true, beq_iff_eq] at hok
    obtain ⟨-, hR, hA, -, r0, r1, r2, r3, hib, hS⟩ := hok
    obtain ⟨R, -⟩ := vexRuleOk_spec _ _ hR
    obtain ⟨A, hxop, hvx⟩ := rowAgreeOk_spec _ _ hA
    obtain ⟨p0, p1, p2, m0, m1, m2⟩ := shapeOk3_specB _ _ _ _ _ _ _ hS
    have m3 : formOpMatches e.rule.oszEff f3 (.imm imm) = true := himm f3 (by rw [hops]; rfl)
    have hal : ∀ i0 i1 i2, alignOps e.rule.oszEff e.rule.ops [.reg k0 i0, .reg k1 i1, .reg k2 i2, .imm imm] =
        some [(f0, some (.reg k0 i0)), (f1, some (.reg k1 i1)), (f2, some (.reg k2 i2)), (f3, some (.imm imm))] := by
      intro i0 i1 i2; rw [hops]; exact alignOps4 _ _ _ _ _ _ _ _ _ (m0 i0) (m1 i1) (m2 i2) m3
    rcases hids with ⟨hsp, hr, hv, hm, hev⟩ | ⟨hsp, hr, hv, hm⟩
    · rw [hsp] at A
      obtain ⟨bytes, hb, hf⟩ := vexR_rvmi_formOk_evex c ctx e.rule (finalOp e 0x7C) reg vvvvv rm k0 k1 k2 f0 f1 f2 hpe hk hm64 (by simpa using R.hmodes) hr hv hm hxop hev
        p0 p1 p2 R f3 imm r3 hib hsp A r0 r1 r2 (hal _ _ _)
      refine ⟨bytes, k0, k1, k2, hkinds, ?_, hf⟩
      rw [packRegVvvvv_eq reg vvvvv hr hv]
      simpa [r32] using hb
    · obtain ⟨hll, hmm⟩ := hvx hsp
      have A' : RowAgree e.rule (finalOp e 0x7C) false := by rw [hsp] at A; exact A
      obtain ⟨bytes, hb, hf⟩ := vexR_rvmi_formOk_vex c ctx e.rule (finalOp e 0x7C) reg vvvvv rm k0 k1 k2 f0 f1 f2 hpe hk hm64 (by simpa using R.hmodes) hr hv hm hxop hll hmm
        p0 p1 p2 R f3 imm r3 hib hsp A' r0 r1 r2 (hal _ _ _)
      refine ⟨bytes, k0, k1, k2, hkinds, ?_, hf⟩
      rw [packRegVvvvv_eq reg vvvvv (by bv_decide) (by bv_decide)]
      simpa [r32] using hb
  · simp at hok

/-- **front_cls_correct, classes VexRmi and VexRmi_Lx**. -/
theorem front_cls_correct_rmi (e : Entry) (ch : List Entry) (hch : ch ∈ rmiChunks) (he : e ∈ ch)
    (c : Model.X86.Ctx) (ctx : Spec.X86.Ctx) (reg rm : BitVec 32) (imm : BitVec 64)
    (hpe : c.preferEvex = false) (hk : c.extraId = 0#32) (hm64 : ctx.mode64 = true)
    (himm : ∀ f3, e.rule.ops[2]? = some f3 → formOpMatches e.rule.oszEff f3 (.imm imm) = true)
    (hids : (e.rule.space = 2 ∧ reg < 32#32 ∧ rm < 32#32 ∧ xR (finalOp e 0x71) 0#32 reg 0#32 rm 0#32 &&& 0x00D78150#32 ≠ 0#32) ∨
            (e.rule.space = 1 ∧ reg < 16#32 ∧ rm < 16#32)) :
    ∃ bytes k0 k2, e.kinds = [k0, k2] ∧
      emitVexEvexR c (finalOp e 0x71) 0#32 (r32 reg.toNat) (r32 rm.toNat) imm 1 = .ok bytes ∧
      formOk ctx e.rule [.reg k0 reg.toNat, .reg k2 rm.toNat, .imm imm] {} bytes = true := by
  have hok := mem_chunks_ok rmi_entries_ok e ch hch he
  unfold entryOkRmi at hok
  split at hok
  · rename_i f0 f2 f3 k0 k2 hops hkinds
    simp only [Bool.and_eq_true, Bool.or_eq_true, beq_iff_eq] at hok
    obtain ⟨-, hR, hA, -, r0, r2, r3, hib, hS⟩ := hok
    obtain ⟨R, -⟩ := vexRuleOk_spec _ _ hR
    obtain ⟨A, hxop, hvx⟩ := rowAgreeOk_spec _ _ hA
    obtain ⟨p0, p2, m0, m2⟩ := shapeOk2_spec _ _ _ _ _ hS
    have m3 : formOpMatches e.rule.oszEff f3 (.imm imm) = true := himm f3 (by rw [hops]; rfl)
    have hal : ∀ i0 i2, alignOps e.rule.oszEff e.rule.ops [.reg k0 i0, .reg k2 i2, .imm imm] =
        some [(f0, some (.reg k0 i0)), (f2, some (.reg k2 i2)), (f3, some (.imm imm))] := by
      intro i0 i2; rw [hops]; exact alignOps3i _ _ _ _ _ _ _ (m0 i0) (m2 i2) m3
    have e0 : reg + ((0#32 : BitVec 32) <<< 7) = reg := by bv_decide
    rcases hids with ⟨hsp, hr, hm, hev⟩ | ⟨hsp, hr, hm⟩
    · rw [hsp] at A
      obtain ⟨bytes, hb, hf⟩ := vexR_rmi_formOk_evex c ctx e.rule (finalOp e 0x71) reg rm k0 k2 f0 f2 hpe hk hm64 (by simpa using R.hmodes) hr hm hxop hev p0 p2 R f3 imm r3 hib hsp A r0 r2 (hal _ _)
      refine ⟨bytes, k0, k2, hkinds, ?_, hf⟩
      rw [e0] at hb
      simpa [r32] using hb
    · obtain ⟨hll, hmm⟩ := hvx hsp
      have A' : RowAgree e.rule (finalOp e 0x71) false := by rw [hsp] at A; exact A
      obtain ⟨bytes, hb, hf⟩ := vexR_rmi_formOk_vex c ctx e.rule (finalOp e 0x71) reg rm k0 k2 f0 f2 hpe hk hm64 (by simpa using R.hmodes) hr hm hxop hll hmm p0 p2 R f3 imm r3 hib hsp A' r0 r2 (hal _ _)
      refine ⟨bytes, k0, k2, hkinds, ?_, hf⟩
      rw [e0] at hb
      simpa [r32] using hb
  · simp at hok

/-! ### legacy encoding space: ExtRm, ExtRm_P, X86Rm, X86Rm_NoSize ([reg, rm]), X86Mr, X86Mr_NoSize ([rm, reg]), ExtRmi, ExtRmi_P ([reg, rm, imm8]) -/

def isXmmKind (k : RegKind) : Bool := k == .xmm
def kindSize (k : RegKind) : Nat := (Op.reg (rtypeOf k) 0).rmSize

/-- the opcode word the legacy class hands to `EmitX86R` -/
def finalOpLeg (e : Entry) : BitVec 32 :=
  let k0 := e.kinds.getD 0 .none
  let k1 := e.kinds.getD 1 .none
  if e.enc == 0x4D || e.enc == 0x53 then e.mainOp ||| ((if isXmmKind k0 || isXmmKind k1 then 1#32 else 0#32) <<< 21)      -- ExtRm_P / ExtRmi_P
  else if e.enc == 0x14 then addPrefixBySize e.mainOp (kindSize k0)                                                        -- X86Rm
  else if e.enc == 0x17 then addPrefixBySize e.mainOp (kindSize k1)                                                        -- X86Mr
  else if e.enc == 0x21 then addPrefixBySize 0x1AF#32 (kindSize k0)                                                        -- X86Imul reg, reg (0F AF /r)
  else if e.enc == 0x2c then                                                                                                -- X86Mov, control / debug registers
    (match k0, k1 with
     | .gpq, .creg => 0x120#32 | .creg, .gpq => 0x122#32 | .gpq, .dreg => 0x121#32 | .dreg, .gpq => 0x123#32 | _, _ => e.mainOp)
  else if e.enc == 0x56 then (match e.rule.ops with | f0 :: _ => if f0.role == .rm then e.altOp else e.mainOp | _ => e.mainOp)   -- ExtMov: store form = alternative opcode
  else e.mainOp

def legRuleOk (r : Rule) (nimm pp : Nat) : Bool :=
  r.modes &&& 2 != 0 && (r.space == 0 && (r.pp &&& 8 == 0 && (((r.pp &&& 1 != 0 || r.osz == 16) == (pp == 1)) && (((r.pp &&& 2 != 0) == (pp == 2)) &&
  (((r.pp &&& 4 != 0) == (pp == 3)) && (pp < 4 && (!r.ri && ((r.modKind == 1 || r.modKind == 2) && (r.modr == 8 && (r.modrm == 8 &&
  (r.immBytes == nimm && (r.relBytes == 0 && (!r.moff && (!r.a67 && !r.immRev))))))))))))))

theorem legRuleOk_spec (r : Rule) (n pp : Nat) (h : legRuleOk r n pp = true) : LegRule r n pp := by
  simp only [legRuleOk, Bool.and_eq_true, Bool.or_eq_true, beq_iff_eq, bne_iff_ne, ne_eq, Bool.not_eq_true', decide_eq_true_eq] at h
  obtain ⟨hmodes, hs, hpp8, h66, hF3, hF2, hpplt, hri, hmk, hmr, hmrm, himm, hrel, hmoff, ha67, hrev⟩ := h
  exact ⟨hmodes, hs, hpp8, by simpa using h66, by simpa using hF3, by simpa using hF2, hpplt, hri, hmk, hmr, hmrm, himm, hrel, hmoff, ha67, hrev⟩

def legAgreeOk (r : Rule) (op : BitVec 32) : Bool :=
  r.opcode == (op &&& 0xFF#32).toNat && (r.map == ((op >>> 8) &&& 3#32).toNat && ((wWant r == 2 || wWant r == ((op >>> 27) &&& 1#32).toNat) &&
  (op &&& 0xF7801C00#32 == 0#32 &&
  ((op >>> 8) &&& 3#32 != 0#32 || (!isLegacyPrefix (op.truncate 8) false && (op.truncate 8 : BitVec 8) >>> 4 != 4#8)))))

theorem legAgreeOk_spec (r : Rule) (op : BitVec 32) (h : legAgreeOk r op = true) : LegAgree r op ∧ op &&& 0xF7801C00#32 = 0#32 := by
  simp only [legAgreeOk, Bool.and_eq_true, Bool.or_eq_true, beq_iff_eq, bne_iff_ne, ne_eq, Bool.not_eq_true'] at h
  obtain ⟨hop, hmap, hw, hmask, hsafe⟩ := h
  refine ⟨⟨hop, hmap, hw, ?_⟩, hmask⟩
  intro h0
  rcases hsafe with h | h
  · exact absurd h0 h
  · exact h

def entryOkLrm (e : Entry) : Bool :=
  match e.rule.ops, e.kinds with
  | [f0, f1], [k0, k1] =>
    (e.enc == 0x4A || e.enc == 0x4D || e.enc == 0x14 || e.enc == 0x16 || e.enc == 0x21 || e.enc == 0x56 || e.enc == 0x2c) &&
    (legRuleOk e.rule 0 ((finalOpLeg e >>> 21) &&& 3#32).toNat && (legAgreeOk e.rule (finalOpLeg e) &&
    (f0.role == .reg && (f1.role == .rm && shapeOk2 e.rule f0 f1 k0 k1))))
  | _, _ => false

def entryOkLmr (e : Entry) : Bool :=
  match e.rule.ops, e.kinds with
  | [f0, f1], [k0, k1] =>
    (e.enc == 0x17 || e.enc == 0x18 || e.enc == 0x56 || e.enc == 0x2c) &&
    (legRuleOk e.rule 0 ((finalOpLeg e >>> 21) &&& 3#32).toNat && (legAgreeOk e.rule (finalOpLeg e) &&
    (f0.role == .rm && (f1.role == .reg && shapeOk2 e.rule f0 f1 k0 k1))))
  | _, _ => false

def entryOkLrmi (e : Entry) : Bool :=
  match e.rule.ops, e.kinds with
  | [f0, f1, f3], [k0, k1] =>
    (e.enc == 0x52 || e.enc == 0x53) &&
    (legRuleOk e.rule 1 ((finalOpLeg e >>> 21) &&& 3#32).toNat && (legAgreeOk e.rule (finalOpLeg e) &&
    (f0.role == .reg && (f1.role == .rm && (f3.role == .imm && (immBitsOf f3 == 8 && (!(immSignOf f3 == 1) && shapeOk2 e.rule f0 f1 k0 k1)))))))
  | _, _ => false

theorem lrm_entries_ok : lrmChunks.all (fun c => c.all entryOkLrm) = true := by decide +kernel
theorem lmr_entries_ok : lmrChunks.all (fun c => c.all entryOkLmr) = true := by decide +kernel
theorem lrmi_entries_ok : lrmiChunks.all (fun c => c.all entryOkLrmi) = true := by decide +kernel

/-- **front_cls_correct, legacy classes ExtRm, ExtRm_P, X86Rm, X86Rm_NoSize** (operands reg, r/m): for EVERY regenerated (row, form) pair and ALL
register numbers 0..15 the bytes `EmitX86R` produces for the class's opcode word satisfy the monitor. -/
theorem front_cls_correct_lrm (e : Entry) (ch : List Entry) (hch : ch ∈ lrmChunks) (he : e ∈ ch)
    (ctx : Spec.X86.Ctx) (r0 r1 : BitVec 32) (hm64 : ctx.mode64 = true) (h0 : r0 < 16#32) (h1 : r1 < 16#32) :
    ∃ bytes k0 k1, e.kinds = [k0, k1] ∧ emitX86R (finalOpLeg e) 0#32 r0 r1 0 0 = .ok bytes ∧
      formOk ctx e.rule [.reg k0 r0.toNat, .reg k1 r1.toNat] {} bytes = true := by
  have hok := mem_chunks_ok lrm_entries_ok e ch hch he
  unfold entryOkLrm at hok
  split at hok
  · rename_i f0 f1 k0 k1 hops hkinds
    simp only [Bool.and_eq_true, beq_iff_eq] at hok
    obtain ⟨-, hR, hA, ra, rb, hS⟩ := hok
    obtain ⟨A, hmask⟩ := legAgreeOk_spec _ _ hA
    obtain ⟨p0, p1, m0, m1⟩ := shapeOk2_spec _ _ _ _ _ hS
    obtain ⟨bytes, hb, hf⟩ := legR_2reg_formOk ctx e.rule (finalOpLeg e) r0 r1 k0 k1 f0 f1 hm64 (by simpa using (legRuleOk_spec _ _ _ hR).hmodes) hmask h0 h1 p0 p1 (legRuleOk_spec _ _ _ hR) A true
      (by simp [ra, rb]) (fun ia ib => by rw [hops]; exact alignOps2 _ _ _ _ _ (m0 ia) (m1 ib))
    exact ⟨bytes, k0, k1, hkinds, hb, by simpa using hf⟩
  · simp at hok

/-- **front_cls_correct, legacy classes X86Mr, X86Mr_NoSize** (operands r/m, reg). -/
theorem front_cls_correct_lmr (e : Entry) (ch : List Entry) (hch : ch ∈ lmrChunks) (he : e ∈ ch)
    (ctx : Spec.X86.Ctx) (r0 r1 : BitVec 32) (hm64 : ctx.mode64 = true) (h0 : r0 < 16#32) (h1 : r1 < 16#32) :
    ∃ bytes k0 k1, e.kinds = [k0, k1] ∧ emitX86R (finalOpLeg e) 0#32 r1 r0 0 0 = .ok bytes ∧
      formOk ctx e.rule [.reg k0 r0.toNat, .reg k1 r1.toNat] {} bytes = true := by
  have hok := mem_chunks_ok lmr_entries_ok e ch hch he
  unfold entryOkLmr at hok
  split at hok
  · rename_i f0 f1 k0 k1 hops hkinds
    simp only [Bool.and_eq_true, beq_iff_eq] at hok
    obtain ⟨-, hR, hA, ra, rb, hS⟩ := hok
    obtain ⟨A, hmask⟩ := legAgreeOk_spec _ _ hA
    obtain ⟨p0, p1, m0, m1⟩ := shapeOk2_spec _ _ _ _ _ hS
    obtain ⟨bytes, hb, hf⟩ := legR_2reg_formOk ctx e.rule (finalOpLeg e) r1 r0 k0 k1 f0 f1 hm64 (by simpa using (legRuleOk_spec _ _ _ hR).hmodes) hmask h1 h0 p0 p1 (legRuleOk_spec _ _ _ hR) A false
      (by simp [ra, rb]) (fun ia ib => by rw [hops]; exact alignOps2 _ _ _ _ _ (m0 ia) (m1 ib))
    exact ⟨bytes, k0, k1, hkinds, hb, by simpa using hf⟩
  · simp at hok

/-- **front_cls_correct, legacy classes ExtRmi, ExtRmi_P** (operands reg, r/m, imm8): for every 8-bit immediate the form admits. -/
theorem front_cls_correct_lrmi (e : Entry) (ch : List Entry) (hch : ch ∈ lrmiChunks) (he : e ∈ ch)
    (ctx : Spec.X86.Ctx) (r0 r1 : BitVec 32) (imm : BitVec 64) (hm64 : ctx.mode64 = true) (h0 : r0 < 16#32) (h1 : r1 < 16#32)
    (himm : ∀ f3, e.rule.ops[2]? = some f3 → formOpMatches e.rule.oszEff f3 (.imm imm) = true) :
    ∃ bytes k0 k1, e.kinds = [k0, k1] ∧ emitX86R (finalOpLeg e) 0#32 r0 r1 imm 1 = .ok bytes ∧
      formOk ctx e.rule [.reg k0 r0.toNat, .reg k1 r1.toNat, .imm imm] {} bytes = true := by
  have hok := mem_chunks_ok lrmi_entries_ok e ch hch he
  unfold entryOkLrmi at hok
  split at hok
  · rename_i f0 f1 f3 k0 k1 hops hkinds
    simp only [Bool.and_eq_true, beq_iff_eq, Bool.not_eq_true'] at hok
    obtain ⟨-, hR, hA, ra, rb, r3, hib, hsg, hS⟩ := hok
    obtain ⟨A, hmask⟩ := legAgreeOk_spec _ _ hA
    obtain ⟨p0, p1, m0, m1⟩ := shapeOk2_spec _ _ _ _ _ hS
    have m3 : formOpMatches e.rule.oszEff f3 (.imm imm) = true := himm f3 (by rw [hops]; rfl)
    obtain ⟨bytes, hb, hf⟩ := legR_2reg_imm_formOk ctx e.rule (finalOpLeg e) r0 r1 k0 k1 f0 f1 f3 imm hm64 (by simpa using (legRuleOk_spec _ _ _ hR).hmodes) hmask h0 h1 p0 p1 (legRuleOk_spec _ _ _ hR) A
      ra rb r3 hib hsg (fun ia ib => by rw [hops]; exact alignOps3i _ _ _ _ _ _ _ (m0 ia) (m1 ib) m3)
    exact ⟨bytes, k0, k1, hkinds, hb, hf⟩
  · simp at hok

/-! ### class X86Op (no explicit operands) -/

def entryOkLop (e : Entry) : Bool :=
  let r := e.rule
  let pp := ((e.mainOp >>> 21) &&& 3#32).toNat
  e.enc == 0x01 && (r.modes &&& 2 != 0 && (r.space == 0 && (r.pp &&& 8 == 0 && (((r.pp &&& 1 != 0 || r.osz == 16) == (pp == 1)) && (((r.pp &&& 2 != 0) == (pp == 2)) &&
  (((r.pp &&& 4 != 0) == (pp == 3)) && (!r.ri && (!r.a67 && (r.modKind == 0 && (r.immBytes == 0 && (r.relBytes == 0 && (!r.moff &&
  (r.ops.all (·.implicit) && legAgreeOk r e.mainOp)))))))))))))

theorem lop_entries_ok : lopChunks.all (fun c => c.all entryOkLop) = true := by decide +kernel

/-- **front_cls_correct, class X86Op**: for every regenerated (row, form) pair without explicit operands the bytes `EmitX86Op` writes
(mandatory prefix, REX.W, escape, opcode) satisfy the monitor. -/
theorem front_cls_correct_lop (e : Entry) (ch : List Entry) (hch : ch ∈ lopChunks) (he : e ∈ ch) (ctx : Spec.X86.Ctx) (hm64 : ctx.mode64 = true) :
    ∃ bytes, emitX86Op e.mainOp 0#32 0 0 = .ok bytes ∧ formOk ctx e.rule [] {} bytes = true := by
  have hok := mem_chunks_ok lop_entries_ok e ch hch he
  simp only [entryOkLop, Bool.and_eq_true, beq_iff_eq, bne_iff_ne, ne_eq, Bool.not_eq_true'] at hok
  obtain ⟨-, hmodes, hs, hpp8, h66, hF3, hF2, hri, ha67, hmk, himm, hrel, hmoff, himpl, hA⟩ := hok
  obtain ⟨A, hmask⟩ := legAgreeOk_spec _ _ hA
  exact x86Op_formOk ctx e.rule e.mainOp hm64 (by simpa using hmodes) hmask hs hpp8 (by simpa using h66) (by simpa using hF3) (by simpa using hF2)
    hri ha67 hmk himm hrel hmoff himpl A

end AsmjitVerif.Props.C01
