/-
  C20 (eighth file) — the machine-code column when an instruction has BOTH an unresolved label displacement and an immediate
  (`mov dword ptr [L0], 0x11223344` before `L0` is bound: buffer `C7 05 00000000 44332211`, column `C705........44332211`).

  What the column shows for unresolved fields: on x86 the `rel_size` bytes of the displacement that a fixup will patch later are
  printed as two dots per byte (they hold a zero placeholder in the buffer at that moment); every other byte — opcode, ModRM/SIB
  before it and the immediate after it — is printed as its two hex digits. AArch64 passes rel = imm = 0: an unresolved fixup field is
  inside the 32-bit instruction word and is shown as the zero bits that are in the buffer.
  `column_layout` / `column_reads_label_plus_imm` prove, for ALL byte strings, that the model's `finish_formatted_line` puts the
  immediate's bytes AFTER the dots and the leading bytes before them, and that the reader gets exactly these bytes back.
  The tie instantiates it with real streams: `coverage.targeted_cases.label_mem_plus_imm_with_dots` (960 real emitted lines per quick run).
-/
import AsmjitVerif.Props.C20

namespace AsmjitVerif.Props.C20
open AsmjitVerif.Format AsmjitVerif.FormatText

/-- appended bytes = leading bytes ++ displacement placeholder ++ immediate: the column is hex(leading) ++ dots ++ hex(immediate) -/
theorem column_layout (pre disp immb : List Nat) :
    columnText (pre ++ disp ++ immb) disp.length immb.length =
      appendHex pre ++ List.replicate (disp.length * 2) '.' ++ appendHex immb := by
  unfold columnText
  have h1 : (pre ++ disp ++ immb).length - disp.length - immb.length = pre.length := by simp; omega
  have h2 : (pre ++ disp ++ immb).length - immb.length = (pre ++ disp).length := by simp; omega
  rw [h1, h2, List.append_assoc pre disp immb, List.take_left' rfl, ← List.append_assoc, List.drop_left' rfl]

/-- … and it reads back to the leading bytes, `rel` unknown bytes, then exactly the immediate's bytes, in this order -/
theorem column_reads_label_plus_imm (pre disp immb : List Nat) (hb : ∀ b ∈ pre ++ disp ++ immb, b < 256) :
    parseColumn (columnText (pre ++ disp ++ immb) disp.length immb.length) =
      some (pre.map some ++ List.replicate disp.length none ++ immb.map some) := by
  rw [machine_code_column_exact _ _ _ hb]
  unfold columnMeaning
  have h1 : (pre ++ disp ++ immb).length - disp.length - immb.length = pre.length := by simp; omega
  have h2 : (pre ++ disp ++ immb).length - immb.length = (pre ++ disp).length := by simp; omega
  rw [h1, h2, List.append_assoc pre disp immb, List.take_left' rfl, ← List.append_assoc, List.drop_left' rfl]

/-- the whole logged line for such an instruction: text, padding, `; `, then that column -/
theorem logged_line_label_plus_imm (sb : Str) (pad0 pad1 : Nat) (pre disp immb : List Nat) (hne : pre ++ disp ++ immb ≠ []) :
    finishFormattedLine sb pad0 pad1 (some (pre ++ disp ++ immb)) disp.length immb.length none =
      padEnd sb (paddingOf pad0 44) ++ [';', ' '] ++
        (appendHex pre ++ List.replicate (disp.length * 2) '.' ++ appendHex immb) ++ ['\n'] := by
  rw [finish_line_shape sb pad0 pad1 _ _ _ hne, column_layout]

example : columnText ([0xC7, 0x05] ++ [0, 0, 0, 0] ++ [0x44, 0x33, 0x22, 0x11]) 4 4 = "C705........44332211".toList := by decide
example : parseColumn "C705........44332211".toList =
    some ([some 0xC7, some 0x05] ++ List.replicate 4 none ++ [some 0x44, some 0x33, some 0x22, some 0x11]) := by decide

end AsmjitVerif.Props.C20
