/-
C01 property theorems, front-end layer, part 1: VEX / EVEX register forms.

`*_parsed`: for ALL register numbers and ALL opcode words, the bytes the model's `EmitVexEvexR` produces in its EVEX, VEX3 and
VEX2 branch are parsed by the independent decoder (`Spec.X86.parse`) into fields that spell exactly (reg, vvvv, rm), the
rule's map / pp / W / L / opcode, provided the database rule agrees with the opcode word (`RowAgree`, decided row by row over
the regenerated tables in Props/C01Rows.lean).
`front_*`: hence the monitor `formOk` (= the property's predicate, Spec/X86Decode.lean) holds for the class's operands.
-/
import AsmjitVerif.Lemmas.X86Parse
import AsmjitVerif.Props.C01
set_option linter.constructorNameAsVariable false
namespace AsmjitVerif.Props.C01
open Spec.X86 Model.X86 AsmjitVerif.Lemmas.X86Parse

/-- the database rule and the (final) opcode word of the encoder agree on opcode byte, map, mandatory prefix, W and L -/
structure RowAgree (rule : Rule) (opcode : BitVec 32) (evexW : Bool) : Prop where
  hop : rule.opcode = (opcode &&& 0xFF#32).toNat
  hmap : rule.map = ((opcode >>> 8) &&& 0xF#32).toNat
  hpp : ppWant rule = ((opcode >>> 21) &&& 3#32).toNat
  hw : rule.w = 2 ∨ rule.w = (if evexW then ((opcode >>> 27) ||| (opcode >>> 28)) &&& 1#32 else (opcode >>> 27) &&& 1#32).toNat
  hl : rule.l = 3 ∨ rule.l = ((opcode >>> 29) &&& 3#32).toNat

theorem wWant_nonlegacy (rule : Rule) (hs : rule.space = 1 ∨ rule.space = 2 ∨ rule.space = 3) : wWant rule = rule.w := by
  rcases hs with h | h | h <;> simp [wWant, isLegacySpace, h]

/-- the ModRM byte of a register form -/
def modrmRR (opReg rm : BitVec 32) : BitVec 8 := (encodeMod 3#32 (opReg &&& 7#32) (rm &&& 7#32)).truncate 8

theorem modrmRR_mod (a b : BitVec 32) : bits (modrmRR a b) 6 2 = 3 :=
  congrArg BitVec.toNat (show BitVec.extractLsb' 6 2 (modrmRR a b) = 3#2 by simp only [modrmRR, encodeMod]; bv_decide)

/-- EVEX branch -/
theorem evexR_parsed (rule : Rule) (opcode reg vvvvv rm : BitVec 32) (imm : List (BitVec 8))
    (hr : reg < 32#32) (hv : vvvvv < 32#32) (hm : rm < 32#32) (hxop : opcode &&& 0x800#32 = 0#32)
    (R : VexRule rule imm.length) (hs : rule.space = 2) (A : RowAgree rule opcode true) :
    ∃ p, parse true rule (le32 (evexWord (xR opcode 0#32 reg vvvvv rm 0#32) opcode) ++ [opcode.truncate 8] ++
            ([modrmRR (reg + (vvvvv <<< 7)) rm] ++ imm)) = .ok p ∧
      VexParsed rule p (modrmRR (reg + (vvvvv <<< 7)) rm) ∧
      regNum p.R' p.R (bits (modrmRR (reg + (vvvvv <<< 7)) rm) 3 3) = reg.toNat ∧
      regNum p.V' false p.vvvv = vvvvv.toNat ∧
      regNum (p.vexKind == 4 && p.X) p.B (bits (modrmRR (reg + (vvvvv <<< 7)) rm) 0 3) = rm.toNat ∧ p.imm = imm := by
  obtain ⟨hop, hmap, hpp, hw, hl⟩ := A
  have hs' : rule.space = 1 ∨ rule.space = 2 ∨ rule.space = 3 := Or.inr (Or.inl hs)
  have hb0 : (evexWord (xR opcode 0#32 reg vvvvv rm 0#32) opcode).truncate 8 = 0x62#8 := by
    simp only [evexWord, xR, extractLLMMMMM, kLL_Mask, kMM_Mask, oEvex]; bv_decide
  obtain ⟨-, e15, e14, e13, e12, e11, e8, e23, e19, e18, e16, e31, e29, e28, e27, e24⟩ :=
    vex_evex_r_roundtrip opcode 0#32 reg vvvvv rm 0#32 hr hv hm (by decide) hxop (by decide)
  generalize evexWord (xR opcode 0#32 reg vvvvv rm 0#32) opcode = w at *
  simp only [le32, List.cons_append, List.nil_append, hb0]
  have hmodb := modrmRR_mod (reg + (vvvvv <<< 7)) rm
  rw [parse_evex_reg true rule _ _ _ _ _ imm (by simp) hs R.hpp8 (by rcases R.hmk with h | h <;> simp [h]) (by simp only [bit]; bv_decide)
        (by simp only [bit]; bv_decide) hmodb (by simp [R.himm, R.hrel]) R.hmoff]
  refine ⟨_, rfl, ?_, ?_, ?_, ?_, rfl⟩
  · refine ⟨Or.inr (Or.inr (Or.inl rfl)), rfl, rfl, rfl, hmodb, ?_, ?_, ?_, ?_, ?_, by simp, ?_⟩
    · show (opcode.truncate 8 : BitVec 8).toNat = rule.opcode
      rw [hop]; exact toNat_eq_of_zext _ _ (by omega) (by bv_decide)
    · show bits _ 0 3 = rule.map
      rw [hmap]; exact toNat_eq_of_zext _ _ (by omega) (by bv_decide)
    · show bits _ 0 2 = ppWant rule
      rw [hpp]; exact toNat_eq_of_zext _ _ (by omega) (by bv_decide)
    · rw [wWant_nonlegacy rule hs']
      rcases hw with h | h
      · exact Or.inl h
      · right
        simp only [↓reduceIte] at h
        have hc : ((opcode >>> 27) ||| (opcode >>> 28)) &&& 1#32 = 0#32 ∨ ((opcode >>> 27) ||| (opcode >>> 28)) &&& 1#32 = 1#32 := by bv_decide
        rcases hc with hc | hc
        · rw [h, hc]; simp only [bit]; simp; bv_decide
        · rw [h, hc]; simp only [bit]; simp; bv_decide
    · rcases hl with h | h
      · exact Or.inl h
      · right; show bits _ 5 2 = rule.l; rw [h]; exact toNat_eq_of_zext _ _ (by omega) (by bv_decide)
    · intro _
      refine ⟨?_, ?_, ?_, ?_⟩
      · exact congrArg BitVec.toNat (show BitVec.extractLsb' 0 3 _ = 0#3 by bv_decide)
      · simp only [bit]; bv_decide
      · simp only [bit]; bv_decide
      · show bits _ 0 3 < 8
        have := (BitVec.extractLsb' 0 3 (BitVec.truncate 8 (w >>> 8))).isLt
        exact this
  · exact regNum_eq _ _ _ reg (by simp only [bit, modrmRR, encodeMod]; bv_decide)
  · exact regNum_eq4 _ _ vvvvv (by simp only [bit]; bv_decide)
  · exact regNum_eq _ _ _ rm (by simp only [bit, modrmRR, encodeMod]; bv_decide)

/-- VEX3 branch (C4) -/
theorem vex3R_parsed (rule : Rule) (opcode reg vvvvv rm : BitVec 32) (imm : List (BitVec 8))
    (hr : reg < 16#32) (hv : vvvvv < 16#32) (hm : rm < 16#32) (hxop : opcode &&& 0x800#32 = 0#32) (hll : opcode &&& 0x40001000#32 = 0#32)
    (R : VexRule rule imm.length) (hs : rule.space = 1) (A : RowAgree rule opcode false) :
    ∃ p, parse true rule (le32 (vex3Word (vexPrep (xR opcode 0#32 reg vvvvv rm 0#32) opcode 0#32) opcode) ++
            ([modrmRR (reg + (vvvvv <<< 7)) rm] ++ imm)) = .ok p ∧
      VexParsed rule p (modrmRR (reg + (vvvvv <<< 7)) rm) ∧
      regNum p.R' p.R (bits (modrmRR (reg + (vvvvv <<< 7)) rm) 3 3) = reg.toNat ∧
      regNum p.V' false p.vvvv = vvvvv.toNat ∧
      regNum (p.vexKind == 4 && p.X) p.B (bits (modrmRR (reg + (vvvvv <<< 7)) rm) 0 3) = rm.toNat ∧ p.imm = imm := by
  obtain ⟨hop, hmap, hpp, hw, hl⟩ := A
  have hs' : rule.space = 1 ∨ rule.space = 2 ∨ rule.space = 3 := Or.inl hs
  obtain ⟨e0, -, e15, e14, e13, e8, e23, e19, e18, e16, e24⟩ :=
    vex3_r_roundtrip opcode 0#32 reg vvvvv rm hr hv hm (by decide) hll
  have hb0 : (vex3Word (vexPrep (xR opcode 0#32 reg vvvvv rm 0#32) opcode 0#32) opcode).truncate 8 = 0xC4#8 := by
    have := e0 hxop
    bv_decide
  generalize vex3Word (vexPrep (xR opcode 0#32 reg vvvvv rm 0#32) opcode 0#32) opcode = w at *
  simp only [le32, List.cons_append, List.nil_append, hb0]
  have hmodb := modrmRR_mod (reg + (vvvvv <<< 7)) rm
  rw [parse_vex3_reg true rule _ _ _ _ imm (by simp) hs R.hpp8 (by rcases R.hmk with h | h <;> simp [h]) hmodb (by simp [R.himm, R.hrel]) R.hmoff]
  refine ⟨_, rfl, ?_, ?_, ?_, ?_, rfl⟩
  · refine ⟨Or.inr (Or.inl rfl), rfl, rfl, rfl, hmodb, ?_, ?_, ?_, ?_, ?_, ?_, by simp⟩
    · show (BitVec.truncate 8 (w >>> 24)).toNat = rule.opcode
      rw [hop]; exact toNat_eq_of_zext _ _ (by omega) (by bv_decide)
    · show bits _ 0 5 = rule.map
      rw [hmap]; exact toNat_eq_of_zext _ _ (by omega) (by bv_decide)
    · show bits _ 0 2 = ppWant rule
      rw [hpp]; exact toNat_eq_of_zext _ _ (by omega) (by bv_decide)
    · rw [wWant_nonlegacy rule hs']
      rcases hw with h | h
      · exact Or.inl h
      · right
        simp only [Bool.false_eq_true, ↓reduceIte] at h
        have hc : (opcode >>> 27) &&& 1#32 = 0#32 ∨ (opcode >>> 27) &&& 1#32 = 1#32 := by bv_decide
        rcases hc with hc | hc
        · rw [h, hc]; simp only [bit]; simp; bv_decide
        · rw [h, hc]; simp only [bit]; simp; bv_decide
    · rcases hl with h | h
      · exact Or.inl h
      · right; show bits _ 2 1 = rule.l; rw [h]; exact toNat_eq_of_zext _ _ (by omega) (by bv_decide)
    · intro _
      show bits _ 2 1 ≤ 1
      have := (BitVec.extractLsb' 2 1 (BitVec.truncate 8 (w >>> 16))).isLt
      simp only [bits]; omega
  · exact regNum_eq _ _ _ reg (by simp only [bit, modrmRR, encodeMod]; bv_decide)
  · exact regNum_eq4 _ _ vvvvv (by simp only [bit]; bv_decide)
  · exact regNum_eq _ _ _ rm (by simp only [bit, modrmRR, encodeMod]; simp; bv_decide)

/-- VEX2 branch (C5), taken only when representable (`vex2_r_only_when_representable`) -/
theorem vex2R_parsed (rule : Rule) (opcode reg vvvvv rm : BitVec 32) (imm : List (BitVec 8))
    (hr : reg < 16#32) (hv : vvvvv < 16#32) (hm : rm < 16#32) (hll : opcode &&& 0x40001000#32 = 0#32) (hmm : opcode &&& 0x100#32 ≠ 0#32)
    (h2 : vexPrep (xR opcode 0#32 reg vvvvv rm 0#32) opcode 0#32 &&& 0x8000803E#32 = 0#32)
    (R : VexRule rule imm.length) (hs : rule.space = 1) (A : RowAgree rule opcode false) :
    ∃ p, parse true rule ([0xC5#8, (vex2Byte (vexPrep (xR opcode 0#32 reg vvvvv rm 0#32) opcode 0#32)).truncate 8, opcode.truncate 8] ++
            ([modrmRR (reg + (vvvvv <<< 7)) rm] ++ imm)) = .ok p ∧
      VexParsed rule p (modrmRR (reg + (vvvvv <<< 7)) rm) ∧
      regNum p.R' p.R (bits (modrmRR (reg + (vvvvv <<< 7)) rm) 3 3) = reg.toNat ∧
      regNum p.V' false p.vvvv = vvvvv.toNat ∧
      regNum (p.vexKind == 4 && p.X) p.B (bits (modrmRR (reg + (vvvvv <<< 7)) rm) 0 3) = rm.toNat ∧ p.imm = imm := by
  obtain ⟨hop, hmap, hpp, hw, hl⟩ := A
  have hs' : rule.space = 1 ∨ rule.space = 2 ∨ rule.space = 3 := Or.inl hs
  obtain ⟨hiff, hf⟩ := vex2_r_only_when_representable opcode 0#32 reg vvvvv rm hr hv hm (by decide) hll hmm
  obtain ⟨hrm8, hW0, hmm0, -⟩ := hiff.mp h2
  obtain ⟨e7, e3, e2, e0⟩ := hf h2
  generalize (BitVec.truncate 8 (vex2Byte (vexPrep (xR opcode 0#32 reg vvvvv rm 0#32) opcode 0#32)) : BitVec 8) = b1 at *
  simp only [List.cons_append, List.nil_append]
  have hmodb := modrmRR_mod (reg + (vvvvv <<< 7)) rm
  rw [parse_vex2_reg true rule _ _ _ imm (by simp) hs R.hpp8 (by rcases R.hmk with h | h <;> simp [h]) hmodb (by simp [R.himm, R.hrel]) R.hmoff]
  refine ⟨_, rfl, ?_, ?_, ?_, ?_, rfl⟩
  · refine ⟨Or.inl rfl, rfl, rfl, rfl, hmodb, ?_, ?_, ?_, ?_, ?_, ?_, by simp⟩
    · show (opcode.truncate 8 : BitVec 8).toNat = rule.opcode
      rw [hop]; exact toNat_eq_of_zext _ _ (by omega) (by bv_decide)
    · show 1 = rule.map
      rw [hmap]; exact (congrArg BitVec.toNat (show (opcode >>> 8) &&& 0xF#32 = 1#32 by bv_decide)).symm
    · show bits _ 0 2 = ppWant rule
      rw [hpp]; exact toNat_eq_of_zext _ _ (by omega) (by bv_decide)
    · rw [wWant_nonlegacy rule hs']
      rcases hw with h | h
      · exact Or.inl h
      · right
        simp only [Bool.false_eq_true, ↓reduceIte] at h
        have hc : (opcode >>> 27) &&& 1#32 = 0#32 := by bv_decide
        rw [h, hc]; simp
    · rcases hl with h | h
      · exact Or.inl h
      · right; show bits _ 2 1 = rule.l; rw [h]; exact toNat_eq_of_zext _ _ (by omega) (by bv_decide)
    · intro _
      show bits _ 2 1 ≤ 1
      have := (BitVec.extractLsb' 2 1 b1).isLt
      simp only [bits]; omega
  · exact regNum_eq _ _ _ reg (by simp only [bit, modrmRR, encodeMod]; simp; bv_decide)
  · exact regNum_eq4 _ _ vvvvv (by simp only [bit]; simp; bv_decide)
  · exact regNum_eq _ _ _ rm (by simp only [bit, modrmRR, encodeMod]; simp; bv_decide)

/-! ### the three branches of `EmitVexEvexR` as one case statement (no option, no {k}, no EVEX preference) -/

theorem emitVexEvexR_branches (c : Model.X86.Ctx) (opcode reg vvvvv rm : BitVec 32) (imm : BitVec 64) (n : Nat)
    (hpe : c.preferEvex = false) (hk : c.extraId = 0#32) :
    emitVexEvexR c opcode 0#32 (reg + (vvvvv <<< 7)) rm imm n =
      .ok (if xR opcode 0#32 reg vvvvv rm 0#32 &&& 0x00D78150#32 ≠ 0#32 then
             le32 (evexWord (xR opcode 0#32 reg vvvvv rm 0#32) opcode) ++ [opcode.truncate 8] ++
               ([modrmRR (reg + (vvvvv <<< 7)) rm] ++ emitImmByteOrDword imm n)
           else if vexPrep (xR opcode 0#32 reg vvvvv rm 0#32) opcode 0#32 &&& 0x8000803E#32 ≠ 0#32 then
             le32 (vex3Word (vexPrep (xR opcode 0#32 reg vvvvv rm 0#32) opcode 0#32) opcode) ++
               ([modrmRR (reg + (vvvvv <<< 7)) rm] ++ emitImmByteOrDword imm n)
           else
             [0xC5#8, (vex2Byte (vexPrep (xR opcode 0#32 reg vvvvv rm 0#32) opcode 0#32)).truncate 8, opcode.truncate 8] ++
               ([modrmRR (reg + (vvvvv <<< 7)) rm] ++ emitImmByteOrDword imm n)) := by
  have hx : xR opcode 0#32 reg vvvvv rm 0#32 = xOfR opcode 0#32 (reg + (vvvvv <<< 7)) rm 0#32 := rfl
  rw [hx]
  unfold xOfR
  simp [emitVexEvexR, vexEvexROptions, hpe, hk, bind, Except.bind, pure, Except.pure, modrmRR, oZMask, oER, oSAE]
  split
  · split <;> first | rfl | simp_all
  · first | rfl | simp_all

/-- shape [reg, vvvv, rm], EVEX rule: whatever `EmitVexEvexR` emits when the EVEX branch is taken satisfies the monitor -/
theorem vexR_rvm_formOk_evex (c : Model.X86.Ctx) (ctx : Spec.X86.Ctx) (rule : Rule) (opcode reg vvvvv rm : BitVec 32)
    (k0 k1 k2 : RegKind) (f0 f1 f2 : FormOp)
    (hpe : c.preferEvex = false) (hk : c.extraId = 0#32) (hm64 : ctx.mode64 = true) (hmode : (rule.modes &&& 2 != 0) = true)
    (hr : reg < 32#32) (hv : vvvvv < 32#32) (hm : rm < 32#32) (hxop : opcode &&& 0x800#32 = 0#32)
    (hev : xR opcode 0#32 reg vvvvv rm 0#32 &&& 0x00D78150#32 ≠ 0#32)
    (hk0 : PlainKind k0) (hk1 : PlainKind k1) (hk2 : PlainKind k2)
    (R : VexRule rule 0) (hs : rule.space = 2) (A : RowAgree rule opcode true)
    (hf0 : f0.role = .reg) (hf1 : f1.role = .vvvv) (hf2 : f2.role = .rm)
    (hal : alignOps rule.oszEff rule.ops [.reg k0 reg.toNat, .reg k1 vvvvv.toNat, .reg k2 rm.toNat] =
           some [(f0, some (.reg k0 reg.toNat)), (f1, some (.reg k1 vvvvv.toNat)), (f2, some (.reg k2 rm.toNat))]) :
    ∃ bytes, emitVexEvexR c opcode 0#32 (reg + (vvvvv <<< 7)) rm 0 0 = .ok bytes ∧
      formOk ctx rule [.reg k0 reg.toNat, .reg k1 vvvvv.toNat, .reg k2 rm.toNat] {} bytes = true := by
  rw [emitVexEvexR_branches c opcode reg vvvvv rm 0 0 hpe hk, if_pos hev]
  refine ⟨_, rfl, ?_⟩
  obtain ⟨p, hp, P, h0, h1, h2, -⟩ := evexR_parsed rule opcode reg vvvvv rm [] hr hv hm hxop R hs A
  simp only [emitImmByteOrDword] at *
  exact vex_rvm_formOk ctx rule p _ _ k0 k1 k2 f0 f1 f2 _ _ _ (by simpa [hm64] using hmode) hk0 hk1 hk2 R hf0 hf1 hf2 hal (by rw [hm64]; exact hp) P h0 h1 h2

/-- shape [reg, vvvv, rm], VEX rule: the VEX3 or VEX2 bytes `EmitVexEvexR` emits when EVEX is not needed satisfy the monitor -/
theorem vexR_rvm_formOk_vex (c : Model.X86.Ctx) (ctx : Spec.X86.Ctx) (rule : Rule) (opcode reg vvvvv rm : BitVec 32)
    (k0 k1 k2 : RegKind) (f0 f1 f2 : FormOp)
    (hpe : c.preferEvex = false) (hk : c.extraId = 0#32) (hm64 : ctx.mode64 = true) (hmode : (rule.modes &&& 2 != 0) = true)
    (hr : reg < 16#32) (hv : vvvvv < 16#32) (hm : rm < 16#32) (hxop : opcode &&& 0x800#32 = 0#32) (hll : opcode &&& 0x40001000#32 = 0#32)
    (hmm : opcode &&& 0x1F00#32 ≠ 0#32)
    (hk0 : PlainKind k0) (hk1 : PlainKind k1) (hk2 : PlainKind k2)
    (R : VexRule rule 0) (hs : rule.space = 1) (A : RowAgree rule opcode false)
    (hf0 : f0.role = .reg) (hf1 : f1.role = .vvvv) (hf2 : f2.role = .rm)
    (hal : alignOps rule.oszEff rule.ops [.reg k0 reg.toNat, .reg k1 vvvvv.toNat, .reg k2 rm.toNat] =
           some [(f0, some (.reg k0 reg.toNat)), (f1, some (.reg k1 vvvvv.toNat)), (f2, some (.reg k2 rm.toNat))]) :
    ∃ bytes, emitVexEvexR c opcode 0#32 (reg + (vvvvv <<< 7)) rm 0 0 = .ok bytes ∧
      formOk ctx rule [.reg k0 reg.toNat, .reg k1 vvvvv.toNat, .reg k2 rm.toNat] {} bytes = true := by
  have hnev : ¬ (xR opcode 0#32 reg vvvvv rm 0#32 &&& 0x00D78150#32 ≠ 0#32) := by
    rw [evex_r_chosen_iff opcode 0#32 reg vvvvv rm 0#32 (by bv_decide) (by bv_decide) (by bv_decide) (by decide) (by decide)]
    intro h
    rcases h with h | h | h | h | h | h | h <;> bv_decide
  rw [emitVexEvexR_branches c opcode reg vvvvv rm 0 0 hpe hk, if_neg hnev]
  by_cases h3 : vexPrep (xR opcode 0#32 reg vvvvv rm 0#32) opcode 0#32 &&& 0x8000803E#32 ≠ 0#32
  · rw [if_pos h3]
    refine ⟨_, rfl, ?_⟩
    obtain ⟨p, hp, P, h0, h1, h2, -⟩ := vex3R_parsed rule opcode reg vvvvv rm [] hr hv hm hxop hll R hs A
    simp only [emitImmByteOrDword] at *
    exact vex_rvm_formOk ctx rule p _ _ k0 k1 k2 f0 f1 f2 _ _ _ (by simpa [hm64] using hmode) hk0 hk1 hk2 R hf0 hf1 hf2 hal (by rw [hm64]; exact hp) P h0 h1 h2
  · rw [if_neg h3]
    refine ⟨_, rfl, ?_⟩
    have h3' : vexPrep (xR opcode 0#32 reg vvvvv rm 0#32) opcode 0#32 &&& 0x8000803E#32 = 0#32 := by simpa using h3
    have hmm1 : opcode &&& 0x100#32 ≠ 0#32 := by
      simp only [vexPrep, xR, extractLLMMMMM, kLL_Mask, kMM_Mask, oEvex, oVex3] at h3'
      bv_decide
    obtain ⟨p, hp, P, h0, h1, h2, -⟩ := vex2R_parsed rule opcode reg vvvvv rm [] hr hv hm hll hmm1 h3' R hs A
    simp only [emitImmByteOrDword] at *
    exact vex_rvm_formOk ctx rule p _ _ k0 k1 k2 f0 f1 f2 _ _ _ (by simpa [hm64] using hmode) hk0 hk1 hk2 R hf0 hf1 hf2 hal (by rw [hm64]; exact hp) P h0 h1 h2

/-- shape [reg, rm], EVEX rule: whatever `EmitVexEvexR` emits when the EVEX branch is taken satisfies the monitor -/
theorem vexR_rm_formOk_evex (c : Model.X86.Ctx) (ctx : Spec.X86.Ctx) (rule : Rule) (opcode reg rm : BitVec 32)
    (k0 k2 : RegKind) (f0 f2 : FormOp)
    (hpe : c.preferEvex = false) (hk : c.extraId = 0#32) (hm64 : ctx.mode64 = true) (hmode : (rule.modes &&& 2 != 0) = true)
    (hr : reg < 32#32) (hm : rm < 32#32) (hxop : opcode &&& 0x800#32 = 0#32)
    (hev : xR opcode 0#32 reg 0#32 rm 0#32 &&& 0x00D78150#32 ≠ 0#32)
    (hk0 : PlainKind k0) (hk2 : PlainKind k2)
    (R : VexRule rule 0) (hs : rule.space = 2) (A : RowAgree rule opcode true)
    (hf0 : f0.role = .reg) (hf2 : f2.role = .rm)
    (hal : alignOps rule.oszEff rule.ops [.reg k0 reg.toNat, .reg k2 rm.toNat] =
           some [(f0, some (.reg k0 reg.toNat)), (f2, some (.reg k2 rm.toNat))]) :
    ∃ bytes, emitVexEvexR c opcode 0#32 (reg + (0#32 <<< 7)) rm 0 0 = .ok bytes ∧
      formOk ctx rule [.reg k0 reg.toNat, .reg k2 rm.toNat] {} bytes = true := by
  rw [emitVexEvexR_branches c opcode reg 0#32 rm 0 0 hpe hk, if_pos hev]
  refine ⟨_, rfl, ?_⟩
  obtain ⟨p, hp, P, h0, h1, h2, -⟩ := evexR_parsed rule opcode reg 0#32 rm [] hr (by decide) hm hxop R hs A
  simp only [emitImmByteOrDword] at *
  exact vex_rm_formOk ctx rule p _ _ k0 k2 f0 f2 _ _ (by simpa [hm64] using hmode) hk0 hk2 R hf0 hf2 hal (by rw [hm64]; exact hp) P h0 h1 h2

/-- shape [reg, rm], VEX rule: the VEX3 or VEX2 bytes `EmitVexEvexR` emits when EVEX is not needed satisfy the monitor -/
theorem vexR_rm_formOk_vex (c : Model.X86.Ctx) (ctx : Spec.X86.Ctx) (rule : Rule) (opcode reg rm : BitVec 32)
    (k0 k2 : RegKind) (f0 f2 : FormOp)
    (hpe : c.preferEvex = false) (hk : c.extraId = 0#32) (hm64 : ctx.mode64 = true) (hmode : (rule.modes &&& 2 != 0) = true)
    (hr : reg < 16#32) (hm : rm < 16#32) (hxop : opcode &&& 0x800#32 = 0#32) (hll : opcode &&& 0x40001000#32 = 0#32)
    (hmm : opcode &&& 0x1F00#32 ≠ 0#32)
    (hk0 : PlainKind k0) (hk2 : PlainKind k2)
    (R : VexRule rule 0) (hs : rule.space = 1) (A : RowAgree rule opcode false)
    (hf0 : f0.role = .reg) (hf2 : f2.role = .rm)
    (hal : alignOps rule.oszEff rule.ops [.reg k0 reg.toNat, .reg k2 rm.toNat] =
           some [(f0, some (.reg k0 reg.toNat)), (f2, some (.reg k2 rm.toNat))]) :
    ∃ bytes, emitVexEvexR c opcode 0#32 (reg + (0#32 <<< 7)) rm 0 0 = .ok bytes ∧
      formOk ctx rule [.reg k0 reg.toNat, .reg k2 rm.toNat] {} bytes = true := by
  have hnev : ¬ (xR opcode 0#32 reg 0#32 rm 0#32 &&& 0x00D78150#32 ≠ 0#32) := by
    rw [evex_r_chosen_iff opcode 0#32 reg 0#32 rm 0#32 (by bv_decide) (by bv_decide) (by bv_decide) (by decide) (by decide)]
    intro h
    rcases h with h | h | h | h | h | h | h <;> bv_decide
  rw [emitVexEvexR_branches c opcode reg 0#32 rm 0 0 hpe hk, if_neg hnev]
  by_cases h3 : vexPrep (xR opcode 0#32 reg 0#32 rm 0#32) opcode 0#32 &&& 0x8000803E#32 ≠ 0#32
  · rw [if_pos h3]
    refine ⟨_, rfl, ?_⟩
    obtain ⟨p, hp, P, h0, h1, h2, -⟩ := vex3R_parsed rule opcode reg 0#32 rm [] hr (by decide) hm hxop hll R hs A
    simp only [emitImmByteOrDword] at *
    exact vex_rm_formOk ctx rule p _ _ k0 k2 f0 f2 _ _ (by simpa [hm64] using hmode) hk0 hk2 R hf0 hf2 hal (by rw [hm64]; exact hp) P h0 h1 h2
  · rw [if_neg h3]
    refine ⟨_, rfl, ?_⟩
    have h3' : vexPrep (xR opcode 0#32 reg 0#32 rm 0#32) opcode 0#32 &&& 0x8000803E#32 = 0#32 := by simpa using h3
    have hmm1 : opcode &&& 0x100#32 ≠ 0#32 := by
      simp only [vexPrep, xR, extractLLMMMMM, kLL_Mask, kMM_Mask, oEvex, oVex3] at h3'
      bv_decide
    obtain ⟨p, hp, P, h0, h1, h2, -⟩ := vex2R_parsed rule opcode reg 0#32 rm [] hr (by decide) hm hll hmm1 h3' R hs A
    simp only [emitImmByteOrDword] at *
    exact vex_rm_formOk ctx rule p _ _ k0 k2 f0 f2 _ _ (by simpa [hm64] using hmode) hk0 hk2 R hf0 hf2 hal (by rw [hm64]; exact hp) P h0 h1 h2

/-- shape [reg, vvvv, rm, imm8], EVEX rule: whatever `EmitVexEvexR` emits when the EVEX branch is taken satisfies the monitor -/
theorem vexR_rvmi_formOk_evex (c : Model.X86.Ctx) (ctx : Spec.X86.Ctx) (rule : Rule) (opcode reg vvvvv rm : BitVec 32)
    (k0 k1 k2 : RegKind) (f0 f1 f2 : FormOp)
    (hpe : c.preferEvex = false) (hk : c.extraId = 0#32) (hm64 : ctx.mode64 = true) (hmode : (rule.modes &&& 2 != 0) = true)
    (hr : reg < 32#32) (hv : vvvvv < 32#32) (hm : rm < 32#32) (hxop : opcode &&& 0x800#32 = 0#32)
    (hev : xR opcode 0#32 reg vvvvv rm 0#32 &&& 0x00D78150#32 ≠ 0#32)
    (hk0 : PlainKind k0) (hk1 : PlainKind k1) (hk2 : PlainKind k2)
    (R : VexRule rule 1) (f3 : FormOp) (imm : BitVec 64) (hf3 : f3.role = .imm) (hib : immBitsOf f3 = 8) (hs : rule.space = 2) (A : RowAgree rule opcode true)
    (hf0 : f0.role = .reg) (hf1 : f1.role = .vvvv) (hf2 : f2.role = .rm)
    (hal : alignOps rule.oszEff rule.ops [.reg k0 reg.toNat, .reg k1 vvvvv.toNat, .reg k2 rm.toNat, .imm imm] =
           some [(f0, some (.reg k0 reg.toNat)), (f1, some (.reg k1 vvvvv.toNat)), (f2, some (.reg k2 rm.toNat)), (f3, some (.imm imm))]) :
    ∃ bytes, emitVexEvexR c opcode 0#32 (reg + (vvvvv <<< 7)) rm imm 1 = .ok bytes ∧
      formOk ctx rule [.reg k0 reg.toNat, .reg k1 vvvvv.toNat, .reg k2 rm.toNat, .imm imm] {} bytes = true := by
  rw [emitVexEvexR_branches c opcode reg vvvvv rm imm 1 hpe hk, if_pos hev]
  refine ⟨_, rfl, ?_⟩
  obtain ⟨p, hp, P, h0, h1, h2, hi⟩ := evexR_parsed rule opcode reg vvvvv rm [imm.truncate 8] hr hv hm hxop R hs A
  simp only [emitImmByteOrDword, Nat.one_ne_zero, beq_self_eq_true, ↓reduceIte, show ((1:Nat) == 0) = false from rfl, Bool.false_eq_true] at *
  exact vex_rvmi_formOk ctx rule p _ _ k0 k1 k2 f0 f1 f2 _ _ _ (by simpa [hm64] using hmode) hk0 hk1 hk2 R f3 imm hf3 hib (by simp [hi]) hf0 hf1 hf2 hal (by rw [hm64]; exact hp) P h0 h1 h2

/-- shape [reg, vvvv, rm, imm8], VEX rule: the VEX3 or VEX2 bytes `EmitVexEvexR` emits when EVEX is not needed satisfy the monitor -/
theorem vexR_rvmi_formOk_vex (c : Model.X86.Ctx) (ctx : Spec.X86.Ctx) (rule : Rule) (opcode reg vvvvv rm : BitVec 32)
    (k0 k1 k2 : RegKind) (f0 f1 f2 : FormOp)
    (hpe : c.preferEvex = false) (hk : c.extraId = 0#32) (hm64 : ctx.mode64 = true) (hmode : (rule.modes &&& 2 != 0) = true)
    (hr : reg < 16#32) (hv : vvvvv < 16#32) (hm : rm < 16#32) (hxop : opcode &&& 0x800#32 = 0#32) (hll : opcode &&& 0x40001000#32 = 0#32)
    (hmm : opcode &&& 0x1F00#32 ≠ 0#32)
    (hk0 : PlainKind k0) (hk1 : PlainKind k1) (hk2 : PlainKind k2)
    (R : VexRule rule 1) (f3 : FormOp) (imm : BitVec 64) (hf3 : f3.role = .imm) (hib : immBitsOf f3 = 8) (hs : rule.space = 1) (A : RowAgree rule opcode false)
    (hf0 : f0.role = .reg) (hf1 : f1.role = .vvvv) (hf2 : f2.role = .rm)
    (hal : alignOps rule.oszEff rule.ops [.reg k0 reg.toNat, .reg k1 vvvvv.toNat, .reg k2 rm.toNat, .imm imm] =
           some [(f0, some (.reg k0 reg.toNat)), (f1, some (.reg k1 vvvvv.toNat)), (f2, some (.reg k2 rm.toNat)), (f3, some (.imm imm))]) :
    ∃ bytes, emitVexEvexR c opcode 0#32 (reg + (vvvvv <<< 7)) rm imm 1 = .ok bytes ∧
      formOk ctx rule [.reg k0 reg.toNat, .reg k1 vvvvv.toNat, .reg k2 rm.toNat, .imm imm] {} bytes = true := by
  have hnev : ¬ (xR opcode 0#32 reg vvvvv rm 0#32 &&& 0x00D78150#32 ≠ 0#32) := by
    rw [evex_r_chosen_iff opcode 0#32 reg vvvvv rm 0#32 (by bv_decide) (by bv_decide) (by bv_decide) (by decide) (by decide)]
    intro h
    rcases h with h | h | h | h | h | h | h <;> bv_decide
  rw [emitVexEvexR_branches c opcode reg vvvvv rm imm 1 hpe hk, if_neg hnev]
  by_cases h3 : vexPrep (xR opcode 0#32 reg vvvvv rm 0#32) opcode 0#32 &&& 0x8000803E#32 ≠ 0#32
  · rw [if_pos h3]
    refine ⟨_, rfl, ?_⟩
    obtain ⟨p, hp, P, h0, h1, h2, hi⟩ := vex3R_parsed rule opcode reg vvvvv rm [imm.truncate 8] hr hv hm hxop hll R hs A
    simp only [emitImmByteOrDword, Nat.one_ne_zero, beq_self_eq_true, ↓reduceIte, show ((1:Nat) == 0) = false from rfl, Bool.false_eq_true] at *
    exact vex_rvmi_formOk ctx rule p _ _ k0 k1 k2 f0 f1 f2 _ _ _ (by simpa [hm64] using hmode) hk0 hk1 hk2 R f3 imm hf3 hib (by simp [hi]) hf0 hf1 hf2 hal (by rw [hm64]; exact hp) P h0 h1 h2
  · rw [if_neg h3]
    refine ⟨_, rfl, ?_⟩
    have h3' : vexPrep (xR opcode 0#32 reg vvvvv rm 0#32) opcode 0#32 &&& 0x8000803E#32 = 0#32 := by simpa using h3
    have hmm1 : opcode &&& 0x100#32 ≠ 0#32 := by
      simp only [vexPrep, xR, extractLLMMMMM, kLL_Mask, kMM_Mask, oEvex, oVex3] at h3'
      bv_decide
    obtain ⟨p, hp, P, h0, h1, h2, hi⟩ := vex2R_parsed rule opcode reg vvvvv rm [imm.truncate 8] hr hv hm hll hmm1 h3' R hs A
    simp only [emitImmByteOrDword, Nat.one_ne_zero, beq_self_eq_true, ↓reduceIte, show ((1:Nat) == 0) = false from rfl, Bool.false_eq_true] at *
    exact vex_rvmi_formOk ctx rule p _ _ k0 k1 k2 f0 f1 f2 _ _ _ (by simpa [hm64] using hmode) hk0 hk1 hk2 R f3 imm hf3 hib (by simp [hi]) hf0 hf1 hf2 hal (by rw [hm64]; exact hp) P h0 h1 h2

/-- shape [reg, rm, imm8], EVEX rule: whatever `EmitVexEvexR` emits when the EVEX branch is taken satisfies the monitor -/
theorem vexR_rmi_formOk_evex (c : Model.X86.Ctx) (ctx : Spec.X86.Ctx) (rule : Rule) (opcode reg rm : BitVec 32)
    (k0 k2 : RegKind) (f0 f2 : FormOp)
    (hpe : c.preferEvex = false) (hk : c.extraId = 0#32) (hm64 : ctx.mode64 = true) (hmode : (rule.modes &&& 2 != 0) = true)
    (hr : reg < 32#32) (hm : rm < 32#32) (hxop : opcode &&& 0x800#32 = 0#32)
    (hev : xR opcode 0#32 reg 0#32 rm 0#32 &&& 0x00D78150#32 ≠ 0#32)
    (hk0 : PlainKind k0) (hk2 : PlainKind k2)
    (R : VexRule rule 1) (f3 : FormOp) (imm : BitVec 64) (hf3 : f3.role = .imm) (hib : immBitsOf f3 = 8) (hs : rule.space = 2) (A : RowAgree rule opcode true)
    (hf0 : f0.role = .reg) (hf2 : f2.role = .rm)
    (hal : alignOps rule.oszEff rule.ops [.reg k0 reg.toNat, .reg k2 rm.toNat, .imm imm] =
           some [(f0, some (.reg k0 reg.toNat)), (f2, some (.reg k2 rm.toNat)), (f3, some (.imm imm))]) :
    ∃ bytes, emitVexEvexR c opcode 0#32 (reg + (0#32 <<< 7)) rm imm 1 = .ok bytes ∧
      formOk ctx rule [.reg k0 reg.toNat, .reg k2 rm.toNat, .imm imm] {} bytes = true := by
  rw [emitVexEvexR_branches c opcode reg 0#32 rm imm 1 hpe hk, if_pos hev]
  refine ⟨_, rfl, ?_⟩
  obtain ⟨p, hp, P, h0, h1, h2, hi⟩ := evexR_parsed rule opcode reg 0#32 rm [imm.truncate 8] hr (by decide) hm hxop R hs A
  simp only [emitImmByteOrDword, Nat.one_ne_zero, beq_self_eq_true, ↓reduceIte, show ((1:Nat) == 0) = false from rfl, Bool.false_eq_true] at *
  exact vex_rmi_formOk ctx rule p _ _ k0 k2 f0 f2 _ _ (by simpa [hm64] using hmode) hk0 hk2 R f3 imm hf3 hib (by simp [hi]) hf0 hf2 hal (by rw [hm64]; exact hp) P h0 h1 h2

/-- shape [reg, rm, imm8], VEX rule: the VEX3 or VEX2 bytes `EmitVexEvexR` emits when EVEX is not needed satisfy the monitor -/
theorem vexR_rmi_formOk_vex (c : Model.X86.Ctx) (ctx : Spec.X86.Ctx) (rule : Rule) (opcode reg rm : BitVec 32)
    (k0 k2 : RegKind) (f0 f2 : FormOp)
    (hpe : c.preferEvex = false) (hk : c.extraId = 0#32) (hm64 : ctx.mode64 = true) (hmode : (rule.modes &&& 2 != 0) = true)
    (hr : reg < 16#32) (hm : rm < 16#32) (hxop : opcode &&& 0x800#32 = 0#32) (hll : opcode &&& 0x40001000#32 = 0#32)
    (hmm : opcode &&& 0x1F00#32 ≠ 0#32)
    (hk0 : PlainKind k0) (hk2 : PlainKind k2)
    (R : VexRule rule 1) (f3 : FormOp) (imm : BitVec 64) (hf3 : f3.role = .imm) (hib : immBitsOf f3 = 8) (hs : rule.space = 1) (A : RowAgree rule opcode false)
    (hf0 : f0.role = .reg) (hf2 : f2.role = .rm)
    (hal : alignOps rule.oszEff rule.ops [.reg k0 reg.toNat, .reg k2 rm.toNat, .imm imm] =
           some [(f0, some (.reg k0 reg.toNat)), (f2, some (.reg k2 rm.toNat)), (f3, some (.imm imm))]) :
    ∃ bytes, emitVexEvexR c opcode 0#32 (reg + (0#32 <<< 7)) rm imm 1 = .ok bytes ∧
      formOk ctx rule [.reg k0 reg.toNat, .reg k2 rm.toNat, .imm imm] {} bytes = true := by
  have hnev : ¬ (xR opcode 0#32 reg 0#32 rm 0#32 &&& 0x00D78150#32 ≠ 0#32) := by
    rw [evex_r_chosen_iff opcode 0#32 reg 0#32 rm 0#32 (by bv_decide) (by bv_decide) (by bv_decide) (by decide) (by decide)]
    intro h
    rcases h with h | h | h | h | h | h | h <;> bv_decide
  rw [emitVexEvexR_branches c opcode reg 0#32 rm imm 1 hpe hk, if_neg hnev]
  by_cases h3 : vexPrep (xR opcode 0#32 reg 0#32 rm 0#32) opcode 0#32 &&& 0x8000803E#32 ≠ 0#32
  · rw [if_pos h3]
    refine ⟨_, rfl, ?_⟩
    obtain ⟨p, hp, P, h0, h1, h2, hi⟩ := vex3R_parsed rule opcode reg 0#32 rm [imm.truncate 8] hr (by decide) hm hxop hll R hs A
    simp only [emitImmByteOrDword, Nat.one_ne_zero, beq_self_eq_true, ↓reduceIte, show ((1:Nat) == 0) = false from rfl, Bool.false_eq_true] at *
    exact vex_rmi_formOk ctx rule p _ _ k0 k2 f0 f2 _ _ (by simpa [hm64] using hmode) hk0 hk2 R f3 imm hf3 hib (by simp [hi]) hf0 hf2 hal (by rw [hm64]; exact hp) P h0 h1 h2
  · rw [if_neg h3]
    refine ⟨_, rfl, ?_⟩
    have h3' : vexPrep (xR opcode 0#32 reg 0#32 rm 0#32) opcode 0#32 &&& 0x8000803E#32 = 0#32 := by simpa using h3
    have hmm1 : opcode &&& 0x100#32 ≠ 0#32 := by
      simp only [vexPrep, xR, extractLLMMMMM, kLL_Mask, kMM_Mask, oEvex, oVex3] at h3'
      bv_decide
    obtain ⟨p, hp, P, h0, h1, h2, hi⟩ := vex2R_parsed rule opcode reg 0#32 rm [imm.truncate 8] hr (by decide) hm hll hmm1 h3' R hs A
    simp only [emitImmByteOrDword, Nat.one_ne_zero, beq_self_eq_true, ↓reduceIte, show ((1:Nat) == 0) = false from rfl, Bool.false_eq_true] at *
    exact vex_rmi_formOk ctx rule p _ _ k0 k2 f0 f2 _ _ (by simpa [hm64] using hmode) hk0 hk2 R f3 imm hf3 hib (by simp [hi]) hf0 hf2 hal (by rw [hm64]; exact hp) P h0 h1 h2


theorem emitPP_eq (opcode : BitVec 32) (h : opcode &&& 0x00800000#32 = 0#32) :
    emitPP opcode = ppBytes ((opcode >>> 21) &&& 3#32).toNat := by
  have hc : (opcode >>> 21) &&& 7#32 = 0#32 ∨ (opcode >>> 21) &&& 7#32 = 1#32 ∨ (opcode >>> 21) &&& 7#32 = 2#32 ∨ (opcode >>> 21) &&& 7#32 = 3#32 := by bv_decide
  have e : (opcode >>> 21) &&& 3#32 = (opcode >>> 21) &&& 7#32 := by bv_decide
  rw [e]
  rcases hc with c | c | c | c <;> simp [emitPP, c, ppBytes, opcodePP]

theorem emitMM_eq (opcode : BitVec 32) (h : opcode &&& 0x1C00#32 = 0#32) :
    emitMMAndOpcode opcode = legacyEscape ((opcode >>> 8) &&& 3#32).toNat ++ [opcode.truncate 8] := by
  have hc : (opcode >>> 8) &&& 3#32 = 0#32 ∨ (opcode >>> 8) &&& 3#32 = 1#32 ∨ (opcode >>> 8) &&& 3#32 = 2#32 ∨ (opcode >>> 8) &&& 3#32 = 3#32 := by bv_decide
  have e : (opcode &&& kMM_Mask) >>> 8 = (opcode >>> 8) &&& 3#32 := by simp only [kMM_Mask]; bv_decide
  simp only [emitMMAndOpcode, e]
  rcases hc with c | c | c | c <;> simp [c, legacyEscape]

/-- the REX byte `EmitX86R` writes, as an optional byte -/
def rexOf (opcode opReg rbReg : BitVec 32) : Option (BitVec 8) :=
  let rex := extractRex opcode 0#32 ||| ((opReg &&& 8#32) >>> 1) ||| ((rbReg &&& 8#32) >>> 3)
  if (rex &&& 0x7F#32) != 0#32 then some ((rex &&& 0x7F#32 ||| 0x40#32).truncate 8) else none

theorem emitX86R_bytes (opcode opReg rbReg : BitVec 32) (imm : BitVec 64) (n : Nat)
    (hopc : opcode &&& 0xF7801C00#32 = 0#32) (ho : opReg < 16#32) (hb : rbReg < 16#32) :
    emitX86R opcode 0#32 opReg rbReg imm n =
      .ok (ppBytes ((opcode >>> 21) &&& 3#32).toNat ++ (rexOf opcode opReg rbReg).toList ++ legacyEscape ((opcode >>> 8) &&& 3#32).toNat ++
           [opcode.truncate 8, modrmRR opReg rbReg] ++ emitImmediate imm n) := by
  have hrex : ¬ (extractRex opcode 0#32 ||| ((opReg &&& 8#32) >>> 1) ||| ((rbReg &&& 8#32) >>> 3)) > 0x80#32 := by
    simp only [extractRex]; bv_decide
  simp only [emitX86R, emitRex, hrex, ↓reduceIte, bind, Except.bind, pure, Except.pure,
    emitPP_eq opcode (by bv_decide), emitMM_eq opcode (by bv_decide), rexOf, modrmRR]
  split <;> simp

theorem toNat_div16_eq4 (b : BitVec 8) (h : b >>> 4 = 4#8) : b.toNat / 16 = 4 := by
  have := congrArg BitVec.toNat h
  simpa [BitVec.toNat_ushiftRight, Nat.shiftRight_eq_div_pow] using this

/-- opcode word and legacy rule agree -/
structure LegAgree (rule : Rule) (opcode : BitVec 32) : Prop where
  hop : rule.opcode = (opcode &&& 0xFF#32).toNat
  hmap : rule.map = ((opcode >>> 8) &&& 3#32).toNat
  hw : wWant rule = 2 ∨ wWant rule = ((opcode >>> 27) &&& 1#32).toNat
  hsafe : (opcode >>> 8) &&& 3#32 = 0#32 → isLegacyPrefix (opcode.truncate 8) false = false ∧ (opcode.truncate 8 : BitVec 8) >>> 4 ≠ 4#8

/-- `EmitX86R` (legacy register form): the bytes parse into fields spelling (reg, rm), for ALL register numbers 0..15 -/
theorem x86R_parsed (rule : Rule) (opcode opReg rbReg : BitVec 32) (imm : BitVec 64) (n : Nat)
    (hopc : opcode &&& 0xF7801C00#32 = 0#32) (ho : opReg < 16#32) (hb : rbReg < 16#32)
    (R : LegRule rule n ((opcode >>> 21) &&& 3#32).toNat) (A : LegAgree rule opcode) :
    ∃ bytes p, emitX86R opcode 0#32 opReg rbReg imm n = .ok bytes ∧ parse true rule bytes = .ok p ∧
      LegParsed rule p (modrmRR opReg rbReg) ((opcode >>> 21) &&& 3#32).toNat ∧
      regNum false p.R (bits (modrmRR opReg rbReg) 3 3) = opReg.toNat ∧
      regNum false p.B (bits (modrmRR opReg rbReg) 0 3) = rbReg.toNat ∧ p.imm = emitImmediate imm n := by
  obtain ⟨hop, hmap, hw, hsafe⟩ := A
  have hmodb := modrmRR_mod opReg rbReg
  have hlen : (emitImmediate imm n).length = rule.immBytes + rule.relBytes := by
    rw [(imm_le_exact imm n).1, R.himm, R.hrel]; rfl
  have hpplt : ((opcode >>> 21) &&& 3#32).toNat < 4 := by
    have : (opcode >>> 21) &&& 3#32 < 4#32 := by bv_decide
    simpa [BitVec.lt_def] using this
  have hmaplt : rule.map < 4 := by
    rw [hmap]
    have : (opcode >>> 8) &&& 3#32 < 4#32 := by bv_decide
    simpa [BitVec.lt_def] using this
  have hrexv : ∀ b, rexOf opcode opReg rbReg = some b → b >>> 4 = 4#8 ∧
      (b.getLsbD 3 = opcode.getLsbD 27) ∧ (b.getLsbD 2 = opReg.getLsbD 3) ∧ (b.getLsbD 0 = rbReg.getLsbD 3) := by
    intro b hb'
    unfold rexOf at hb'
    dsimp only at hb'
    split at hb'
    · injection hb' with hb'; subst hb'; simp only [extractRex] at *; refine ⟨?_, ?_, ?_, ?_⟩ <;> bv_decide
    · contradiction
  have hnone : rexOf opcode opReg rbReg = none → opcode.getLsbD 27 = false ∧ opReg.getLsbD 3 = false ∧ rbReg.getLsbD 3 = false := by
    intro hn
    unfold rexOf at hn
    dsimp only at hn
    split at hn
    · contradiction
    · rename_i hz; simp only [extractRex] at hz; refine ⟨?_, ?_, ?_⟩ <;> bv_decide
  have hrexH : ∀ b, rexOf opcode opReg rbReg = some b → b.toNat / 16 = 4 ∧ isLegacyPrefix b false = false := by
    intro b hb'
    obtain ⟨h4, -⟩ := hrexv b hb'
    refine ⟨toNat_div16_eq4 b h4, ?_⟩
    rw [Bool.eq_false_iff]
    intro hh
    simp only [isLegacyPrefix, Bool.or_eq_true, beq_iff_eq, Bool.false_and, Bool.or_false] at hh
    bv_decide
  have hoH : rule.map = 0 → isLegacyPrefix (opcode.truncate 8) false = false ∧
      (true = true → rexOf opcode opReg rbReg = none → (opcode.truncate 8 : BitVec 8).toNat / 16 ≠ 4) := by
    intro hm0
    have hm0' : (opcode >>> 8) &&& 3#32 = 0#32 := by
      apply BitVec.eq_of_toNat_eq; rw [← hmap, hm0]; rfl
    obtain ⟨s1, s2⟩ := hsafe hm0'
    refine ⟨s1, fun _ _ h => s2 ?_⟩
    apply BitVec.eq_of_toNat_eq
    simpa [BitVec.toNat_ushiftRight, Nat.shiftRight_eq_div_pow] using h
  have hparse := parse_legacy_reg true rule _ (rexOf opcode opReg rbReg) (opcode.truncate 8) (modrmRR opReg rbReg) (emitImmediate imm n)
    (by simp) hpplt R.hs R.hpp8 hmaplt (by rcases R.hmk with h | h <;> simp [h]) hrexH hoH hmodb hlen R.hmoff
  rw [hmap] at hparse
  refine ⟨_, _, emitX86R_bytes opcode opReg rbReg imm n hopc ho hb, hparse, ⟨rfl, rfl, rfl, hmodb, ?_, ?_, rfl⟩, ?_, ?_, rfl⟩
  · show (opcode.truncate 8 : BitVec 8).toNat = rule.opcode
    rw [hop]; exact toNat_eq_of_zext _ _ (by omega) (by bv_decide)
  · rcases hw with h | h
    · exact Or.inl h
    · right
      have hc : (opcode >>> 27) &&& 1#32 = 0#32 ∨ (opcode >>> 27) &&& 1#32 = 1#32 := by bv_decide
      simp only [rexBit]
      cases hr : rexOf opcode opReg rbReg with
      | none =>
        obtain ⟨w0, -, -⟩ := hnone hr
        rcases hc with hc | hc
        · rw [h, hc]; simp
        · exfalso; bv_decide
      | some b =>
        obtain ⟨-, wb, -, -⟩ := hrexv b hr
        simp only [bit]
        rcases hc with hc | hc
        · rw [h, hc, wb]; simp; bv_decide
        · rw [h, hc, wb]; simp; bv_decide
  · simp only [rexBit]
    cases hr : rexOf opcode opReg rbReg with
    | none =>
      obtain ⟨-, r0, -⟩ := hnone hr
      exact regNum_eq _ _ _ opReg (by simp only [modrmRR, encodeMod]; simp; bv_decide)
    | some b =>
      obtain ⟨-, -, rb, -⟩ := hrexv b hr
      exact regNum_eq _ _ _ opReg (by simp only [bit, modrmRR, encodeMod, rb]; simp; bv_decide)
  · simp only [rexBit]
    cases hr : rexOf opcode opReg rbReg with
    | none =>
      obtain ⟨-, -, b0⟩ := hnone hr
      exact regNum_eq _ _ _ rbReg (by simp only [modrmRR, encodeMod]; simp; bv_decide)
    | some b =>
      obtain ⟨-, -, -, bb⟩ := hrexv b hr
      exact regNum_eq _ _ _ rbReg (by simp only [bit, modrmRR, encodeMod, bb]; simp; bv_decide)


/-- legacy shape [reg-field operand, rm-field operand] in either operand order: the bytes of `EmitX86R` satisfy the monitor -/
theorem legR_2reg_formOk (ctx : Spec.X86.Ctx) (rule : Rule) (opcode opReg rbReg : BitVec 32) (ka kb : RegKind) (fa fb : FormOp)
    (hm64 : ctx.mode64 = true) (hmode : (rule.modes &&& 2 != 0) = true) (hopc : opcode &&& 0xF7801C00#32 = 0#32) (ho : opReg < 16#32) (hb : rbReg < 16#32)
    (hka : PlainKind ka) (hkb : PlainKind kb)
    (R : LegRule rule 0 ((opcode >>> 21) &&& 3#32).toNat) (A : LegAgree rule opcode)
    (regFirst : Bool)
    (hroles : if regFirst then fa.role = .reg ∧ fb.role = .rm else fa.role = .rm ∧ fb.role = .reg)
    (hal : ∀ ia ib, alignOps rule.oszEff rule.ops [.reg ka ia, .reg kb ib] = some [(fa, some (.reg ka ia)), (fb, some (.reg kb ib))]) :
    ∃ bytes, emitX86R opcode 0#32 opReg rbReg 0 0 = .ok bytes ∧
      formOk ctx rule (if regFirst then [.reg ka opReg.toNat, .reg kb rbReg.toNat] else [.reg ka rbReg.toNat, .reg kb opReg.toNat]) {} bytes = true := by
  obtain ⟨bytes, p, hb', hp, P, h0, h1, -⟩ := x86R_parsed rule opcode opReg rbReg 0 0 hopc ho hb R A
  refine ⟨bytes, hb', ?_⟩
  cases regFirst with
  | true =>
    simp only [↓reduceIte] at hroles ⊢
    exact leg_2reg_formOk ctx rule p _ bytes _ ka kb fa fb _ _ (by simpa [hm64] using hmode) hka hkb R (Or.inl ⟨hroles.1, hroles.2, h0, h1⟩) (hal _ _) (by rw [hm64]; exact hp) P
  | false =>
    simp only [Bool.false_eq_true, ↓reduceIte] at hroles ⊢
    exact leg_2reg_formOk ctx rule p _ bytes _ ka kb fa fb _ _ (by simpa [hm64] using hmode) hka hkb R (Or.inr ⟨hroles.1, hroles.2, h1, h0⟩) (hal _ _) (by rw [hm64]; exact hp) P

/-- legacy shape [reg, rm, imm8] -/
theorem legR_2reg_imm_formOk (ctx : Spec.X86.Ctx) (rule : Rule) (opcode opReg rbReg : BitVec 32) (ka kb : RegKind) (fa fb f3 : FormOp) (imm : BitVec 64)
    (hm64 : ctx.mode64 = true) (hmode : (rule.modes &&& 2 != 0) = true) (hopc : opcode &&& 0xF7801C00#32 = 0#32) (ho : opReg < 16#32) (hb : rbReg < 16#32)
    (hka : PlainKind ka) (hkb : PlainKind kb)
    (R : LegRule rule 1 ((opcode >>> 21) &&& 3#32).toNat) (A : LegAgree rule opcode)
    (hra : fa.role = .reg) (hrb : fb.role = .rm) (hf3 : f3.role = .imm) (hib : immBitsOf f3 = 8) (hsg : (immSignOf f3 == 1) = false)
    (hal : ∀ ia ib, alignOps rule.oszEff rule.ops [.reg ka ia, .reg kb ib, .imm imm] =
      some [(fa, some (.reg ka ia)), (fb, some (.reg kb ib)), (f3, some (.imm imm))]) :
    ∃ bytes, emitX86R opcode 0#32 opReg rbReg imm 1 = .ok bytes ∧
      formOk ctx rule [.reg ka opReg.toNat, .reg kb rbReg.toNat, .imm imm] {} bytes = true := by
  obtain ⟨bytes, p, hb', hp, P, h0, h1, hi⟩ := x86R_parsed rule opcode opReg rbReg imm 1 hopc ho hb R A
  refine ⟨bytes, hb', ?_⟩
  exact leg_2reg_imm_formOk ctx rule p _ bytes _ ka kb fa fb _ _ (by simpa [hm64] using hmode) hka hkb R f3 imm hf3 hib hsg (by simp [hi, emitImmediate])
    (Or.inl ⟨hra, hrb, h0, h1⟩) (hal _ _) (by rw [hm64]; exact hp) P

/-! ### class X86Op: no explicit operands, no ModRM -/

theorem emitX86Op_bytes (opcode : BitVec 32) (hopc : opcode &&& 0xF7801C00#32 = 0#32) :
    emitX86Op opcode 0#32 0 0 =
      .ok (ppBytes ((opcode >>> 21) &&& 3#32).toNat ++ (rexOf opcode 0#32 0#32).toList ++ legacyEscape ((opcode >>> 8) &&& 3#32).toNat ++
           [opcode.truncate 8]) := by
  have hrex : ¬ (extractRex opcode 0#32) > 0x80#32 := by simp only [extractRex]; bv_decide
  have e : extractRex opcode 0#32 ||| ((0#32 &&& 8#32) >>> 1) ||| ((0#32 &&& 8#32) >>> 3) = extractRex opcode 0#32 := by bv_decide
  simp only [emitX86Op, emitRex, hrex, ↓reduceIte, bind, Except.bind, pure, Except.pure,
    emitPP_eq opcode (by bv_decide), emitMM_eq opcode (by bv_decide), rexOf, e, emitImmediate]
  split <;> simp

/-- class X86Op: the bytes `EmitX86Op` produces satisfy the monitor for a form without explicit operands -/
theorem x86Op_formOk (ctx : Spec.X86.Ctx) (rule : Rule) (opcode : BitVec 32)
    (hm64 : ctx.mode64 = true) (hmode : (rule.modes &&& 2 != 0) = true) (hopc : opcode &&& 0xF7801C00#32 = 0#32)
    (hs : rule.space = 0) (hpp8 : rule.pp &&& 8 = 0)
    (h66 : (rule.pp &&& 1 != 0 || rule.osz == 16) = (((opcode >>> 21) &&& 3#32).toNat == 1))
    (hF3 : (rule.pp &&& 2 != 0) = (((opcode >>> 21) &&& 3#32).toNat == 2)) (hF2 : (rule.pp &&& 4 != 0) = (((opcode >>> 21) &&& 3#32).toNat == 3))
    (hri : rule.ri = false) (ha67 : rule.a67 = false) (hmk : rule.modKind = 0)
    (himm : rule.immBytes = 0) (hrel : rule.relBytes = 0) (hmoff : rule.moff = false)
    (himpl : rule.ops.all (·.implicit) = true) (A : LegAgree rule opcode) :
    ∃ bytes, emitX86Op opcode 0#32 0 0 = .ok bytes ∧ formOk ctx rule [] {} bytes = true := by
  obtain ⟨hop, hmap, hw, hsafe⟩ := A
  refine ⟨_, emitX86Op_bytes opcode hopc, ?_⟩
  have hpplt : ((opcode >>> 21) &&& 3#32).toNat < 4 := by
    have : (opcode >>> 21) &&& 3#32 < 4#32 := by bv_decide
    simpa [BitVec.lt_def] using this
  have hmaplt : rule.map < 4 := by
    rw [hmap]
    have : (opcode >>> 8) &&& 3#32 < 4#32 := by bv_decide
    simpa [BitVec.lt_def] using this
  have hrexv : ∀ b, rexOf opcode 0#32 0#32 = some b → b >>> 4 = 4#8 ∧ (b.getLsbD 3 = opcode.getLsbD 27) := by
    intro b hb'
    unfold rexOf at hb'
    dsimp only at hb'
    split at hb'
    · injection hb' with hb'; subst hb'; simp only [extractRex] at *; refine ⟨?_, ?_⟩ <;> bv_decide
    · contradiction
  have hnone : rexOf opcode 0#32 0#32 = none → opcode.getLsbD 27 = false := by
    intro hn
    unfold rexOf at hn
    dsimp only at hn
    split at hn
    · contradiction
    · rename_i hz; simp only [extractRex] at hz; bv_decide
  have hrexH : ∀ b, rexOf opcode 0#32 0#32 = some b → b.toNat / 16 = 4 ∧ isLegacyPrefix b false = false := by
    intro b hb'
    obtain ⟨h4, -⟩ := hrexv b hb'
    refine ⟨toNat_div16_eq4 b h4, ?_⟩
    rw [Bool.eq_false_iff]
    intro hh
    simp only [isLegacyPrefix, Bool.or_eq_true, beq_iff_eq, Bool.false_and, Bool.or_false] at hh
    bv_decide
  have hoH : rule.map = 0 → isLegacyPrefix (opcode.truncate 8) false = false ∧
      (rexOf opcode 0#32 0#32 = none → (opcode.truncate 8 : BitVec 8).toNat / 16 ≠ 4) := by
    intro hm0
    have hm0' : (opcode >>> 8) &&& 3#32 = 0#32 := by
      apply BitVec.eq_of_toNat_eq; rw [← hmap, hm0]; rfl
    obtain ⟨s1, s2⟩ := hsafe hm0'
    refine ⟨s1, fun _ h => s2 ?_⟩
    apply BitVec.eq_of_toNat_eq
    simpa [BitVec.toNat_ushiftRight, Nat.shiftRight_eq_div_pow] using h
  have hparse := parse_legacy_op rule _ (rexOf opcode 0#32 0#32) (opcode.truncate 8) hpplt hs hpp8 hmaplt hmk hrexH hoH himm hrel hmoff
  rw [hmap] at hparse
  refine leg_nullary_formOk ctx rule _ _ _ (by simpa [hm64] using hmode) hs hpp8 h66 hF3 hF2 hpplt hri ha67 himpl (by rw [hm64]; exact hparse)
    rfl rfl rfl ?_ ?_
  · show (opcode.truncate 8 : BitVec 8).toNat = rule.opcode
    rw [hop]; exact toNat_eq_of_zext _ _ (by omega) (by bv_decide)
  · rcases hw with h | h
    · exact Or.inl h
    · right
      have hc : (opcode >>> 27) &&& 1#32 = 0#32 ∨ (opcode >>> 27) &&& 1#32 = 1#32 := by bv_decide
      simp only [rexBit]
      cases hr : rexOf opcode 0#32 0#32 with
      | none =>
        have w0 := hnone hr
        rcases hc with hc | hc
        · rw [h, hc]; simp
        · exfalso; bv_decide
      | some b =>
        obtain ⟨-, wb⟩ := hrexv b hr
        simp only [bit]
        rcases hc with hc | hc
        · rw [h, hc, wb]; simp; bv_decide
        · rw [h, hc, wb]; simp; bv_decide

end AsmjitVerif.Props.C01
