/-
C03 x C02, shared model of `EmitOp_DispImm`: the field encoder of the CodeHolder model's direct AArch64 references
(`dispImm`, Model/RefSite.lean) and C02's model of the same C++ code (`A64Asm.emitDispImm`, Model/A64AsmMem.lean) are the same
function on the branch formats imm26 / imm19 / imm14. So the instruction word a direct label reference emits is the word C02
proves correct against the ISA database (Props/C02Rel: the field sign-extends, times 4, to `target - pc`; `judge … = .full`).
-/
import AsmjitVerif.Props.C03S
import AsmjitVerif.Props.C02Rel
namespace AsmjitVerif.CodeHolder
open AsmjitVerif.Offset

/-- proves one instance of "one function, two models" after unfolding -/
macro "same_disp_imm" v:ident n:num : tactic => `(tactic| (
  unfold A64Asm.emitDispImm dispImm
  try unfold A64Asm.fmtBranch26
  try unfold A64Asm.fmtBranch19
  try unfold A64Asm.fmtBranch14
  unfold A64Kind.fmt immValue lsbMask32 isEncodableOffset64
  dsimp only
  have m1 : BitVec.zeroExtend 64 (BitVec.ofNat 32 (2 ^ 2 - 1)) = BitVec.ofNat 64 (2 ^ 2 - 1) := by decide
  have m2 : BitVec.zeroExtend 64 (BitVec.ofNat 32 (2 ^ $n - 1)) = BitVec.ofNat 64 (2 ^ $n - 1) := by decide
  rw [m1, m2]
  by_cases c1 : ($v &&& BitVec.ofNat 64 (2 ^ 2 - 1) != 0) = true
  · have c1' : ($v &&& BitVec.ofNat 64 (2 ^ 2 - 1) != 0#64) = true := c1
    rw [if_pos c1, if_pos c1']
  · have c1' : ¬ ($v &&& BitVec.ofNat 64 (2 ^ 2 - 1) != 0#64) = true := c1
    rw [if_neg c1, if_neg c1']
    by_cases c2 : (((BitVec.sshiftRight $v 2) <<< (64 - $n)).sshiftRight (64 - $n) != (BitVec.sshiftRight $v 2)) = true
    · have c2' : (!((BitVec.sshiftRight $v 2) <<< (64 - $n)).sshiftRight (64 - $n) == (BitVec.sshiftRight $v 2)) = true := c2
      rw [if_pos c2, if_pos c2']
    · have c2' : ¬ (!((BitVec.sshiftRight $v 2) <<< (64 - $n)).sshiftRight (64 - $n) == (BitVec.sshiftRight $v 2)) = true := c2
      rw [if_neg c2, if_neg c2']
      simp))

theorem dispImm_is_c02_26 (v : BitVec 64) (opcode : BitVec 32) :
    A64Asm.emitDispImm A64Asm.fmtBranch26 opcode v =
      (match dispImm A64Kind.imm26.fmt v opcode with | some w => A64Asm.ok1 w | none => A64Asm.invalidDisplacement) := by
  same_disp_imm v 26

theorem dispImm_is_c02_19 (v : BitVec 64) (opcode : BitVec 32) :
    A64Asm.emitDispImm A64Asm.fmtBranch19 opcode v =
      (match dispImm A64Kind.imm19.fmt v opcode with | some w => A64Asm.ok1 w | none => A64Asm.invalidDisplacement) := by
  same_disp_imm v 19

theorem dispImm_is_c02_14 (v : BitVec 64) (opcode : BitVec 32) :
    A64Asm.emitDispImm A64Asm.fmtBranch14 opcode v =
      (match dispImm A64Kind.imm14.fmt v opcode with | some w => A64Asm.ok1 w | none => A64Asm.invalidDisplacement) := by
  same_disp_imm v 14

open AsmjitVerif.A64 AsmjitVerif.A64Asm AsmjitVerif.A64Spec in
/-- the target C02 sees for a direct label reference: C02 assembles at `baseAddress + pos`; a label bound `v` bytes away from
the instruction is the absolute target `baseAddress + pos + v` -/
theorem c02_relOffset_of_disp (f : RelFormat) (hp : f.page = false) (pos : Nat) (v : BitVec 64) :
    relOffset f pos (.imm (baseAddress + BitVec.ofNat 64 pos + v) 0) = .ok v := by
  simp only [relOffset, hp, Bool.false_eq_true, if_false]
  congr 1
  rw [BitVec.add_comm (baseAddress + BitVec.ofNat 64 pos) v, BitVec.add_sub_cancel]

open AsmjitVerif.A64 AsmjitVerif.A64Asm AsmjitVerif.A64Spec in
/-- **direct_b_isa / direct_bcond_isa / direct_tbz_isa.** The word the CodeHolder model emits for a direct `b`/`bl` (imm26),
`b.cond`/`cbz`/`ldr` literal (imm19), `tbz` (imm14) against a label `v` bytes away is the word C02's assembler model emits
for the absolute target `baseAddress + pos + v`, and (Props/C02Rel `emitRelNN_denotes`) its field, sign-extended and multiplied
by 4 as the ISA prescribes, added to the instruction's address gives exactly that target. -/
theorem direct_b_isa (opcode w : BitVec 32) (pos : Nat) (v : BitVec 64) (h : dispImm A64Kind.imm26.fmt v opcode = some w) :
    emitRel fmtBranch26 opcode pos (.imm (baseAddress + BitVec.ofNat 64 pos + v) 0) = .ok [w] ∧
    ∃ f, f < 2 ^ 26 ∧ w = opcode ||| (BitVec.ofNat 32 f <<< 0) ∧
      BitVec.ofInt 64 (((baseAddress + BitVec.ofNat 64 pos).toNat : Int) + sext 26 f * ((4 : Nat) : Int)) =
        baseAddress + BitVec.ofNat 64 pos + v := by
  have he : emitRel fmtBranch26 opcode pos (.imm (baseAddress + BitVec.ofNat 64 pos + v) 0) = .ok [w] := by
    unfold emitRel
    rw [c02_relOffset_of_disp _ rfl]
    simp only []
    rw [dispImm_is_c02_26, h]; rfl
  obtain ⟨f, hf, hws, hden⟩ := AsmjitVerif.C02.emitRel26_denotes opcode pos _ _ (.inl ⟨0, rfl⟩) [w] he
  exact ⟨he, f, hf, by simpa using hws, hden⟩

open AsmjitVerif.A64 AsmjitVerif.A64Asm AsmjitVerif.A64Spec in
theorem direct_bcond_isa (opcode w : BitVec 32) (pos : Nat) (v : BitVec 64) (h : dispImm A64Kind.imm19.fmt v opcode = some w) :
    emitRel fmtBranch19 opcode pos (.imm (baseAddress + BitVec.ofNat 64 pos + v) 0) = .ok [w] ∧
    ∃ f, f < 2 ^ 19 ∧ w = opcode ||| (BitVec.ofNat 32 f <<< 5) ∧
      BitVec.ofInt 64 (((baseAddress + BitVec.ofNat 64 pos).toNat : Int) + sext 19 f * ((4 : Nat) : Int)) =
        baseAddress + BitVec.ofNat 64 pos + v := by
  have he : emitRel fmtBranch19 opcode pos (.imm (baseAddress + BitVec.ofNat 64 pos + v) 0) = .ok [w] := by
    unfold emitRel
    rw [c02_relOffset_of_disp _ rfl]
    simp only []
    rw [dispImm_is_c02_19, h]; rfl
  obtain ⟨f, hf, hws, hden⟩ := AsmjitVerif.C02.emitRel19_denotes opcode pos _ _ (.inl ⟨0, rfl⟩) [w] he
  exact ⟨he, f, hf, by simpa using hws, hden⟩

open AsmjitVerif.A64 AsmjitVerif.A64Asm AsmjitVerif.A64Spec in
theorem direct_tbz_isa (opcode w : BitVec 32) (pos : Nat) (v : BitVec 64) (h : dispImm A64Kind.imm14.fmt v opcode = some w) :
    emitRel fmtBranch14 opcode pos (.imm (baseAddress + BitVec.ofNat 64 pos + v) 0) = .ok [w] ∧
    ∃ f, f < 2 ^ 14 ∧ w = opcode ||| (BitVec.ofNat 32 f <<< 5) ∧
      BitVec.ofInt 64 (((baseAddress + BitVec.ofNat 64 pos).toNat : Int) + sext 14 f * ((4 : Nat) : Int)) =
        baseAddress + BitVec.ofNat 64 pos + v := by
  have he : emitRel fmtBranch14 opcode pos (.imm (baseAddress + BitVec.ofNat 64 pos + v) 0) = .ok [w] := by
    unfold emitRel
    rw [c02_relOffset_of_disp _ rfl]
    simp only []
    rw [dispImm_is_c02_14, h]; rfl
  obtain ⟨f, hf, hws, hden⟩ := AsmjitVerif.C02.emitRel14_denotes opcode pos _ _ (.inl ⟨0, rfl⟩) [w] he
  exact ⟨he, f, hf, by simpa using hws, hden⟩

/-- what `a64RelLabel` does when the label is bound in the current section, as one equation -/
theorem a64_direct_word (s : State) (opcode : BitVec 32) (k : A64Kind) (l : Nat) (addend off : BitVec 64)
    (hl : s.labels[l]? = some (.bound s.cur off)) :
    a64RelLabel s opcode k l addend =
      (match dispImm k.fmt (off - BitVec.ofNat 64 s.curOff + addend) opcode with
       | some w => (s.emit (leBytes w.toNat 4), .ok)
       | none => (s, .invalidDisplacement)) := by
  unfold a64RelLabel
  simp only [hl, if_true]
  cases dispImm k.fmt (off - BitVec.ofNat 64 s.curOff + addend) opcode <;> rfl

/-- **direct_a64_final_word.** End to end: in every program `ops1 ++ [a64 k l a] ++ ops2 ++ [flatten, resolve]` with label `l`
already bound in the current section and the assembler answering kOk, the instruction word found at the site at the end of the
program is the word `EmitOp_DispImm` produced - the one `direct_b_isa` / `direct_bcond_isa` / `direct_tbz_isa` read with C02's
ISA-level spec. -/
theorem direct_a64_final_word (arch : Arch) (base : BitVec 64) (ops1 ops2 : List Op) (k : AKind) (l : Nat) (a off : BitVec 64)
    (h1 : ∀ o ∈ ops1, o.early = true) (h2 : ∀ o ∈ ops2, o.early = true)
    (ha : (run (State.init arch base) ops1).arch = .a64)
    (hl : (run (State.init arch base) ops1).labels[l]? = some (.bound (run (State.init arch base) ops1).cur off))
    (hok : (step (run (State.init arch base) ops1) (.a64 k l a)).2 = .ok) :
    let s := run (State.init arch base) ops1
    ∃ w, dispImm k.kind.fmt (off - BitVec.ofNat 64 s.curOff + a) k.opcode = some w ∧
      field (run (State.init arch base) (ops1 ++ [.a64 k l a] ++ ops2 ++ [.flatten, .resolve])).secs
        { sec := s.cur, offset := s.curOff, rel := a, fmt := k.kind.fmt, label := l } = some w.toNat := by
  intro s
  have ha' : s.arch = .a64 := ha
  have hstep : step s (.a64 k l a) = a64RelLabel s k.opcode k.kind l a := by
    simp only [step]
    rw [if_neg (by rw [ha']; simp)]
  rw [hstep, a64_direct_word s k.opcode k.kind l a off hl] at hok
  have hw := a64_direct_word s k.opcode k.kind l a off hl
  cases hd : dispImm k.kind.fmt (off - BitVec.ofNat 64 s.curOff + a) k.opcode with
  | none => rw [hd] at hok; cases hok
  | some w =>
    rw [hd] at hw
    have hop : (step s (.a64 k l a)).1 = s.emit ([] ++ leBytes w.toNat 4 ++ []) := by
      rw [hstep, hw]; simp
    have hsz : (k.kind.fmt).valueSize = 4 := by cases k <;> rfl
    have hf := direct_field_persists arch base ops1 ops2 (.a64 k l a) h1 h2 [] [] w.toNat 4
      { sec := s.cur, offset := s.curOff, rel := a, fmt := k.kind.fmt, label := l } rfl rfl hsz hop
    have hlt : w.toNat % 256 ^ 4 = w.toNat := Nat.mod_eq_of_lt (by have := w.isLt; omega)
    rw [hlt] at hf
    exact ⟨w, rfl, hf⟩

end AsmjitVerif.CodeHolder
