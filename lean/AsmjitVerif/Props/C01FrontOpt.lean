/-
C01 property theorems: the ENCODING-CHOICE options `evex()`, `vex3()`, `vex()` (and the options that do not touch the VEX-family prefix at all)
on the register forms of the VEX-family classes. `evex` forces the EVEX branch of `EmitVexEvexR` (same four prefix bytes as when EVEX is
needed), `vex3` forces the three-byte VEX prefix, `vex` only matters for instructions that prefer EVEX (excluded: `preferEvex = false`).
-/
import AsmjitVerif.Props.C01FrontAbs
import AsmjitVerif.Props.C01Rows32
set_option linter.constructorNameAsVariable false
set_option linter.unusedSimpArgs false
set_option linter.unusedVariables false
set_option maxRecDepth 100000
namespace AsmjitVerif.Props.C01
open Spec.X86 Model.X86 AsmjitVerif.Lemmas.X86Parse AsmjitVerif.Gen.X86ClassRows

/-- `EmitVexEvexR` with one encoding-choice option: the branch structure of `emitVexEvexR_branches`, the option entering the prefix word -/
theorem emitVexEvexR_branchesO (c : Model.X86.Ctx) (opt opcode reg vvvvv rm : BitVec 32) (imm : BitVec 64) (n : Nat)
    (hopt : opt = oEvex ∨ opt = oVex3 ∨ opt = oVex) (hpe : c.preferEvex = false) (hk : c.extraId = 0#32) :
    emitVexEvexR c opcode opt (reg + (vvvvv <<< 7)) rm imm n =
      .ok (if xR opcode opt reg vvvvv rm 0#32 &&& 0x00D78150#32 ≠ 0#32 then
             le32 (evexWord (xR opcode opt reg vvvvv rm 0#32) opcode) ++ [opcode.truncate 8] ++
               ([modrmRR (reg + (vvvvv <<< 7)) rm] ++ emitImmByteOrDword imm n)
           else if vexPrep (xR opcode opt reg vvvvv rm 0#32) opcode opt &&& 0x8000803E#32 ≠ 0#32 then
             le32 (vex3Word (vexPrep (xR opcode opt reg vvvvv rm 0#32) opcode opt) opcode) ++
               ([modrmRR (reg + (vvvvv <<< 7)) rm] ++ emitImmByteOrDword imm n)
           else
             [0xC5#8, (vex2Byte (vexPrep (xR opcode opt reg vvvvv rm 0#32) opcode opt)).truncate 8, opcode.truncate 8] ++
               ([modrmRR (reg + (vvvvv <<< 7)) rm] ++ emitImmByteOrDword imm n)) := by
  have hx : xR opcode opt reg vvvvv rm 0#32 = xOfR opcode opt (reg + (vvvvv <<< 7)) rm 0#32 := rfl
  rw [hx]
  unfold xOfR
  rcases hopt with h | h | h <;> subst h
  all_goals
    simp [emitVexEvexR, vexEvexROptions, hpe, hk, bind, Except.bind, pure, Except.pure, modrmRR, oZMask, oER, oSAE, oEvex, oVex3, oVex]
    split
    · split <;> first | rfl | simp_all
    · first | rfl | simp_all

/-- `evex()`: the EVEX branch is always taken and the bytes are those of the option-free EVEX branch (the force bit is not part of the prefix) -/
theorem emitVexEvexR_evexopt (c : Model.X86.Ctx) (opcode reg vvvvv rm : BitVec 32) (imm : BitVec 64) (n : Nat)
    (hpe : c.preferEvex = false) (hk : c.extraId = 0#32) :
    emitVexEvexR c opcode oEvex (reg + (vvvvv <<< 7)) rm imm n =
      .ok (le32 (evexWord (xR opcode 0#32 reg vvvvv rm 0#32) opcode) ++ [opcode.truncate 8] ++
            ([modrmRR (reg + (vvvvv <<< 7)) rm] ++ emitImmByteOrDword imm n)) := by
  have h1 : xR opcode oEvex reg vvvvv rm 0#32 &&& 0x00D78150#32 ≠ 0#32 := by
    simp only [xR, extractLLMMMMM, kLL_Mask, kMM_Mask, oEvex]; bv_decide
  have h2 : evexWord (xR opcode oEvex reg vvvvv rm 0#32) opcode = evexWord (xR opcode 0#32 reg vvvvv rm 0#32) opcode := by
    simp only [evexWord, xR, extractLLMMMMM, kLL_Mask, kMM_Mask, oEvex]; bv_decide
  rw [emitVexEvexR_branchesO c oEvex opcode reg vvvvv rm imm n (Or.inl rfl) hpe hk, if_pos h1, h2]

/-- `vex3()`: when EVEX is not needed the three-byte VEX (or XOP) prefix is emitted, with the bytes of the option-free VEX3 branch -/
theorem emitVexEvexR_vex3opt (c : Model.X86.Ctx) (opcode reg vvvvv rm : BitVec 32) (imm : BitVec 64) (n : Nat)
    (hpe : c.preferEvex = false) (hk : c.extraId = 0#32) (hnev : ¬ (xR opcode 0#32 reg vvvvv rm 0#32 &&& 0x00D78150#32 ≠ 0#32)) :
    emitVexEvexR c opcode oVex3 (reg + (vvvvv <<< 7)) rm imm n =
      .ok (le32 (vex3Word (vexPrep (xR opcode 0#32 reg vvvvv rm 0#32) opcode 0#32) opcode) ++
            ([modrmRR (reg + (vvvvv <<< 7)) rm] ++ emitImmByteOrDword imm n)) := by
  have h0 : xR opcode oVex3 reg vvvvv rm 0#32 = xR opcode 0#32 reg vvvvv rm 0#32 := by
    simp only [xR, extractLLMMMMM, kLL_Mask, kMM_Mask, oEvex, oVex3]; bv_decide
  have h1 : vexPrep (xR opcode 0#32 reg vvvvv rm 0#32) opcode oVex3 &&& 0x8000803E#32 ≠ 0#32 := by
    simp only [vexPrep, oVex3]; bv_decide
  have h2 : vex3Word (vexPrep (xR opcode 0#32 reg vvvvv rm 0#32) opcode oVex3) opcode = vex3Word (vexPrep (xR opcode 0#32 reg vvvvv rm 0#32) opcode 0#32) opcode := by
    simp only [vex3Word, vexPrep, vexPrefixTable, oVex3]; bv_decide
  rw [emitVexEvexR_branchesO c oVex3 opcode reg vvvvv rm imm n (Or.inr (Or.inl rfl)) hpe hk, h0, if_neg hnev, if_pos h1, h2]

/-- `vex()` changes nothing for an instruction that does not prefer EVEX -/
theorem emitVexEvexR_vexopt (c : Model.X86.Ctx) (opcode opReg rbReg : BitVec 32) (imm : BitVec 64) (n : Nat) (hpe : c.preferEvex = false) :
    emitVexEvexR c opcode oVex opReg rbReg imm n = emitVexEvexR c opcode 0#32 opReg rbReg imm n := by
  have e1 : extractLLMMMMM opcode 0x800#32 = extractLLMMMMM opcode 0#32 := by simp only [extractLLMMMMM, oEvex]; bv_decide
  simp [emitVexEvexR, vexEvexROptions, oVex, e1, oZMask, oER, oSAE, oVex3, vexPrep, hpe]

/-- `evex()` on shape rvm: the EVEX bytes satisfy the monitor whether or not EVEX was needed -/
theorem vexR_rvm_formOk_evexO (c : Model.X86.Ctx) (ctx : Spec.X86.Ctx) (rule : Rule) (opcode reg vvvvv rm : BitVec 32)
    (k0 k1 k2 : RegKind) (f0 f1 f2 : FormOp)
    (hpe : c.preferEvex = false) (hk : c.extraId = 0#32) (hm64 : ctx.mode64 = true) (hmode : (rule.modes &&& 2 != 0) = true)
    (hr : reg < 32#32) (hv : vvvvv < 32#32) (hm : rm < 32#32) (hxop : opcode &&& 0x800#32 = 0#32)
    (hk0 : PlainKind k0) (hk1 : PlainKind k1) (hk2 : PlainKind k2)
    (R : VexRule rule 0) (hs : rule.space = 2) (A : RowAgree rule opcode true)
    (hf0 : f0.role = .reg) (hf1 : f1.role = .vvvv) (hf2 : f2.role = .rm)
    (hal : alignOps rule.oszEff rule.ops [.reg k0 reg.toNat, .reg k1 vvvvv.toNat, .reg k2 rm.toNat] =
           some [(f0, some (.reg k0 reg.toNat)), (f1, some (.reg k1 vvvvv.toNat)), (f2, some (.reg k2 rm.toNat))]) :
    ∃ bytes, emitVexEvexR c opcode oEvex (reg + (vvvvv <<< 7)) rm 0 0 = .ok bytes ∧
      formOk ctx rule [.reg k0 reg.toNat, .reg k1 vvvvv.toNat, .reg k2 rm.toNat] {} bytes = true := by
  rw [emitVexEvexR_evexopt c opcode reg vvvvv rm 0 0 hpe hk]
  refine ⟨_, rfl, ?_⟩
  obtain ⟨p, hp, P, h0, h1, h2, -⟩ := evexR_parsed rule opcode reg vvvvv rm [] hr hv hm hxop R hs A
  simp only [emitImmByteOrDword] at *
  exact vex_rvm_formOk ctx rule p _ _ k0 k1 k2 f0 f1 f2 _ _ _ (by simpa [hm64] using hmode) hk0 hk1 hk2 R hf0 hf1 hf2 hal (by rw [hm64]; exact hp) P h0 h1 h2

/-- `vex3()` on shape rvm -/
theorem vexR_rvm_formOk_vex3O (c : Model.X86.Ctx) (ctx : Spec.X86.Ctx) (rule : Rule) (opcode reg vvvvv rm : BitVec 32)
    (k0 k1 k2 : RegKind) (f0 f1 f2 : FormOp)
    (hpe : c.preferEvex = false) (hk : c.extraId = 0#32) (hm64 : ctx.mode64 = true) (hmode : (rule.modes &&& 2 != 0) = true)
    (hr : reg < 16#32) (hv : vvvvv < 16#32) (hm : rm < 16#32) (hxop : opcode &&& 0x800#32 = 0#32) (hll : opcode &&& 0x40001000#32 = 0#32)
    (hmm : opcode &&& 0x1F00#32 ≠ 0#32)
    (hk0 : PlainKind k0) (hk1 : PlainKind k1) (hk2 : PlainKind k2)
    (R : VexRule rule 0) (hs : rule.space = 1) (A : RowAgree rule opcode false)
    (hf0 : f0.role = .reg) (hf1 : f1.role = .vvvv) (hf2 : f2.role = .rm)
    (hal : alignOps rule.oszEff rule.ops [.reg k0 reg.toNat, .reg k1 vvvvv.toNat, .reg k2 rm.toNat] =
           some [(f0, some (.reg k0 reg.toNat)), (f1, some (.reg k1 vvvvv.toNat)), (f2, some (.reg k2 rm.toNat))]) :
    ∃ bytes, emitVexEvexR c opcode oVex3 (reg + (vvvvv <<< 7)) rm 0 0 = .ok bytes ∧
      formOk ctx rule [.reg k0 reg.toNat, .reg k1 vvvvv.toNat, .reg k2 rm.toNat] {} bytes = true := by
  have hnev : ¬ (xR opcode 0#32 reg vvvvv rm 0#32 &&& 0x00D78150#32 ≠ 0#32) := by
    rw [evex_r_chosen_iff opcode 0#32 reg vvvvv rm 0#32 (by bv_decide) (by bv_decide) (by bv_decide) (by decide) (by decide)]
    intro h
    rcases h with h | h | h | h | h | h | h <;> bv_decide
  rw [emitVexEvexR_vex3opt c opcode reg vvvvv rm 0 0 hpe hk hnev]
  refine ⟨_, rfl, ?_⟩
  obtain ⟨p, hp, P, h0, h1, h2, -⟩ := vex3R_parsed rule opcode reg vvvvv rm [] hr hv hm hxop hll R hs A
  simp only [emitImmByteOrDword] at *
  exact vex_rvm_formOk ctx rule p _ _ k0 k1 k2 f0 f1 f2 _ _ _ (by simpa [hm64] using hmode) hk0 hk1 hk2 R hf0 hf1 hf2 hal (by rw [hm64]; exact hp) P h0 h1 h2

/-- `evex()` on shape rm: the EVEX bytes satisfy the monitor whether or not EVEX was needed -/
theorem vexR_rm_formOk_evexO (c : Model.X86.Ctx) (ctx : Spec.X86.Ctx) (rule : Rule) (opcode reg rm : BitVec 32)
    (k0 k2 : RegKind) (f0 f2 : FormOp)
    (hpe : c.preferEvex = false) (hk : c.extraId = 0#32) (hm64 : ctx.mode64 = true) (hmode : (rule.modes &&& 2 != 0) = true)
    (hr : reg < 32#32) (hm : rm < 32#32) (hxop : opcode &&& 0x800#32 = 0#32)
    (hk0 : PlainKind k0) (hk2 : PlainKind k2)
    (R : VexRule rule 0) (hs : rule.space = 2) (A : RowAgree rule opcode true)
    (hf0 : f0.role = .reg) (hf2 : f2.role = .rm)
    (hal : alignOps rule.oszEff rule.ops [.reg k0 reg.toNat, .reg k2 rm.toNat] =
           some [(f0, some (.reg k0 reg.toNat)), (f2, some (.reg k2 rm.toNat))]) :
    ∃ bytes, emitVexEvexR c opcode oEvex (reg + (0#32 <<< 7)) rm 0 0 = .ok bytes ∧
      formOk ctx rule [.reg k0 reg.toNat, .reg k2 rm.toNat] {} bytes = true := by
  rw [emitVexEvexR_evexopt c opcode reg 0#32 rm 0 0 hpe hk]
  refine ⟨_, rfl, ?_⟩
  obtain ⟨p, hp, P, h0, h1, h2, -⟩ := evexR_parsed rule opcode reg 0#32 rm [] hr (by decide) hm hxop R hs A
  simp only [emitImmByteOrDword] at *
  exact vex_rm_formOk ctx rule p _ _ k0 k2 f0 f2 _ _ (by simpa [hm64] using hmode) hk0 hk2 R hf0 hf2 hal (by rw [hm64]; exact hp) P h0 h1 h2

/-- `vex3()` on shape rm -/
theorem vexR_rm_formOk_vex3O (c : Model.X86.Ctx) (ctx : Spec.X86.Ctx) (rule : Rule) (opcode reg rm : BitVec 32)
    (k0 k2 : RegKind) (f0 f2 : FormOp)
    (hpe : c.preferEvex = false) (hk : c.extraId = 0#32) (hm64 : ctx.mode64 = true) (hmode : (rule.modes &&& 2 != 0) = true)
    (hr : reg < 16#32) (hm : rm < 16#32) (hxop : opcode &&& 0x800#32 = 0#32) (hll : opcode &&& 0x40001000#32 = 0#32)
    (hmm : opcode &&& 0x1F00#32 ≠ 0#32)
    (hk0 : PlainKind k0) (hk2 : PlainKind k2)
    (R : VexRule rule 0) (hs : rule.space = 1) (A : RowAgree rule opcode false)
    (hf0 : f0.role = .reg) (hf2 : f2.role = .rm)
    (hal : alignOps rule.oszEff rule.ops [.reg k0 reg.toNat, .reg k2 rm.toNat] =
           some [(f0, some (.reg k0 reg.toNat)), (f2, some (.reg k2 rm.toNat))]) :
    ∃ bytes, emitVexEvexR c opcode oVex3 (reg + (0#32 <<< 7)) rm 0 0 = .ok bytes ∧
      formOk ctx rule [.reg k0 reg.toNat, .reg k2 rm.toNat] {} bytes = true := by
  have hnev : ¬ (xR opcode 0#32 reg 0#32 rm 0#32 &&& 0x00D78150#32 ≠ 0#32) := by
    rw [evex_r_chosen_iff opcode 0#32 reg 0#32 rm 0#32 (by bv_decide) (by bv_decide) (by bv_decide) (by decide) (by decide)]
    intro h
    rcases h with h | h | h | h | h | h | h <;> bv_decide
  rw [emitVexEvexR_vex3opt c opcode reg 0#32 rm 0 0 hpe hk hnev]
  refine ⟨_, rfl, ?_⟩
  obtain ⟨p, hp, P, h0, h1, h2, -⟩ := vex3R_parsed rule opcode reg 0#32 rm [] hr (by decide) hm hxop hll R hs A
  simp only [emitImmByteOrDword] at *
  exact vex_rm_formOk ctx rule p _ _ k0 k2 f0 f2 _ _ (by simpa [hm64] using hmode) hk0 hk2 R hf0 hf2 hal (by rw [hm64]; exact hp) P h0 h1 h2

/-- `evex()` on shape rvmi: the EVEX bytes satisfy the monitor whether or not EVEX was needed -/
theorem vexR_rvmi_formOk_evexO (c : Model.X86.Ctx) (ctx : Spec.X86.Ctx) (rule : Rule) (opcode reg vvvvv rm : BitVec 32)
    (k0 k1 k2 : RegKind) (f0 f1 f2 : FormOp)
    (hpe : c.preferEvex = false) (hk : c.extraId = 0#32) (hm64 : ctx.mode64 = true) (hmode : (rule.modes &&& 2 != 0) = true)
    (hr : reg < 32#32) (hv : vvvvv < 32#32) (hm : rm < 32#32) (hxop : opcode &&& 0x800#32 = 0#32)
    (hk0 : PlainKind k0) (hk1 : PlainKind k1) (hk2 : PlainKind k2)
    (R : VexRule rule 1) (f3 : FormOp) (imm : BitVec 64) (hf3 : f3.role = .imm) (hib : immBitsOf f3 = 8) (hs : rule.space = 2) (A : RowAgree rule opcode true)
    (hf0 : f0.role = .reg) (hf1 : f1.role = .vvvv) (hf2 : f2.role = .rm)
    (hal : alignOps rule.oszEff rule.ops [.reg k0 reg.toNat, .reg k1 vvvvv.toNat, .reg k2 rm.toNat, .imm imm] =
           some [(f0, some (.reg k0 reg.toNat)), (f1, some (.reg k1 vvvvv.toNat)), (f2, some (.reg k2 rm.toNat)), (f3, some (.imm imm))]) :
    ∃ bytes, emitVexEvexR c opcode oEvex (reg + (vvvvv <<< 7)) rm imm 1 = .ok bytes ∧
      formOk ctx rule [.reg k0 reg.toNat, .reg k1 vvvvv.toNat, .reg k2 rm.toNat, .imm imm] {} bytes = true := by
  rw [emitVexEvexR_evexopt c opcode reg vvvvv rm imm 1 hpe hk]
  refine ⟨_, rfl, ?_⟩
  obtain ⟨p, hp, P, h0, h1, h2, hi⟩ := evexR_parsed rule opcode reg vvvvv rm [imm.truncate 8] hr hv hm hxop R hs A
  simp only [emitImmByteOrDword, Nat.one_ne_zero, beq_self_eq_true, ↓reduceIte, show ((1:Nat) == 0) = false from rfl, Bool.false_eq_true] at *
  exact vex_rvmi_formOk ctx rule p _ _ k0 k1 k2 f0 f1 f2 _ _ _ (by simpa [hm64] using hmode) hk0 hk1 hk2 R f3 imm hf3 hib (by simp [hi]) hf0 hf1 hf2 hal (by rw [hm64]; exact hp) P h0 h1 h2

/-- `vex3()` on shape rvmi -/
theorem vexR_rvmi_formOk_vex3O (c : Model.X86.Ctx) (ctx : Spec.X86.Ctx) (rule : Rule) (opcode reg vvvvv rm : BitVec 32)
    (k0 k1 k2 : RegKind) (f0 f1 f2 : FormOp)
    (hpe : c.preferEvex = false) (hk : c.extraId = 0#32) (hm64 : ctx.mode64 = true) (hmode : (rule.modes &&& 2 != 0) = true)
    (hr : reg < 16#32) (hv : vvvvv < 16#32) (hm : rm < 16#32) (hxop : opcode &&& 0x800#32 = 0#32) (hll : opcode &&& 0x40001000#32 = 0#32)
    (hmm : opcode &&& 0x1F00#32 ≠ 0#32)
    (hk0 : PlainKind k0) (hk1 : PlainKind k1) (hk2 : PlainKind k2)
    (R : VexRule rule 1) (f3 : FormOp) (imm : BitVec 64) (hf3 : f3.role = .imm) (hib : immBitsOf f3 = 8) (hs : rule.space = 1) (A : RowAgree rule opcode false)
    (hf0 : f0.role = .reg) (hf1 : f1.role = .vvvv) (hf2 : f2.role = .rm)
    (hal : alignOps rule.oszEff rule.ops [.reg k0 reg.toNat, .reg k1 vvvvv.toNat, .reg k2 rm.toNat, .imm imm] =
           some [(f0, some (.reg k0 reg.toNat)), (f1, some (.reg k1 vvvvv.toNat)), (f2, some (.reg k2 rm.toNat)), (f3, some (.imm imm))]) :
    ∃ bytes, emitVexEvexR c opcode oVex3 (reg + (vvvvv <<< 7)) rm imm 1 = .ok bytes ∧
      formOk ctx rule [.reg k0 reg.toNat, .reg k1 vvvvv.toNat, .reg k2 rm.toNat, .imm imm] {} bytes = true := by
  have hnev : ¬ (xR opcode 0#32 reg vvvvv rm 0#32 &&& 0x00D78150#32 ≠ 0#32) := by
    rw [evex_r_chosen_iff opcode 0#32 reg vvvvv rm 0#32 (by bv_decide) (by bv_decide) (by bv_decide) (by decide) (by decide)]
    intro h
    rcases h with h | h | h | h | h | h | h <;> bv_decide
  rw [emitVexEvexR_vex3opt c opcode reg vvvvv rm imm 1 hpe hk hnev]
  refine ⟨_, rfl, ?_⟩
  obtain ⟨p, hp, P, h0, h1, h2, hi⟩ := vex3R_parsed rule opcode reg vvvvv rm [imm.truncate 8] hr hv hm hxop hll R hs A
  simp only [emitImmByteOrDword, Nat.one_ne_zero, beq_self_eq_true, ↓reduceIte, show ((1:Nat) == 0) = false from rfl, Bool.false_eq_true] at *
  exact vex_rvmi_formOk ctx rule p _ _ k0 k1 k2 f0 f1 f2 _ _ _ (by simpa [hm64] using hmode) hk0 hk1 hk2 R f3 imm hf3 hib (by simp [hi]) hf0 hf1 hf2 hal (by rw [hm64]; exact hp) P h0 h1 h2

/-- `evex()` on shape rmi: the EVEX bytes satisfy the monitor whether or not EVEX was needed -/
theorem vexR_rmi_formOk_evexO (c : Model.X86.Ctx) (ctx : Spec.X86.Ctx) (rule : Rule) (opcode reg rm : BitVec 32)
    (k0 k2 : RegKind) (f0 f2 : FormOp)
    (hpe : c.preferEvex = false) (hk : c.extraId = 0#32) (hm64 : ctx.mode64 = true) (hmode : (rule.modes &&& 2 != 0) = true)
    (hr : reg < 32#32) (hm : rm < 32#32) (hxop : opcode &&& 0x800#32 = 0#32)
    (hk0 : PlainKind k0) (hk2 : PlainKind k2)
    (R : VexRule rule 1) (f3 : FormOp) (imm : BitVec 64) (hf3 : f3.role = .imm) (hib : immBitsOf f3 = 8) (hs : rule.space = 2) (A : RowAgree rule opcode true)
    (hf0 : f0.role = .reg) (hf2 : f2.role = .rm)
    (hal : alignOps rule.oszEff rule.ops [.reg k0 reg.toNat, .reg k2 rm.toNat, .imm imm] =
           some [(f0, some (.reg k0 reg.toNat)), (f2, some (.reg k2 rm.toNat)), (f3, some (.imm imm))]) :
    ∃ bytes, emitVexEvexR c opcode oEvex (reg + (0#32 <<< 7)) rm imm 1 = .ok bytes ∧
      formOk ctx rule [.reg k0 reg.toNat, .reg k2 rm.toNat, .imm imm] {} bytes = true := by
  rw [emitVexEvexR_evexopt c opcode reg 0#32 rm imm 1 hpe hk]
  refine ⟨_, rfl, ?_⟩
  obtain ⟨p, hp, P, h0, h1, h2, hi⟩ := evexR_parsed rule opcode reg 0#32 rm [imm.truncate 8] hr (by decide) hm hxop R hs A
  simp only [emitImmByteOrDword, Nat.one_ne_zero, beq_self_eq_true, ↓reduceIte, show ((1:Nat) == 0) = false from rfl, Bool.false_eq_true] at *
  exact vex_rmi_formOk ctx rule p _ _ k0 k2 f0 f2 _ _ (by simpa [hm64] using hmode) hk0 hk2 R f3 imm hf3 hib (by simp [hi]) hf0 hf2 hal (by rw [hm64]; exact hp) P h0 h1 h2

/-- `vex3()` on shape rmi -/
theorem vexR_rmi_formOk_vex3O (c : Model.X86.Ctx) (ctx : Spec.X86.Ctx) (rule : Rule) (opcode reg rm : BitVec 32)
    (k0 k2 : RegKind) (f0 f2 : FormOp)
    (hpe : c.preferEvex = false) (hk : c.extraId = 0#32) (hm64 : ctx.mode64 = true) (hmode : (rule.modes &&& 2 != 0) = true)
    (hr : reg < 16#32) (hm : rm < 16#32) (hxop : opcode &&& 0x800#32 = 0#32) (hll : opcode &&& 0x40001000#32 = 0#32)
    (hmm : opcode &&& 0x1F00#32 ≠ 0#32)
    (hk0 : PlainKind k0) (hk2 : PlainKind k2)
    (R : VexRule rule 1) (f3 : FormOp) (imm : BitVec 64) (hf3 : f3.role = .imm) (hib : immBitsOf f3 = 8) (hs : rule.space = 1) (A : RowAgree rule opcode false)
    (hf0 : f0.role = .reg) (hf2 : f2.role = .rm)
    (hal : alignOps rule.oszEff rule.ops [.reg k0 reg.toNat, .reg k2 rm.toNat, .imm imm] =
           some [(f0, some (.reg k0 reg.toNat)), (f2, some (.reg k2 rm.toNat)), (f3, some (.imm imm))]) :
    ∃ bytes, emitVexEvexR c opcode oVex3 (reg + (0#32 <<< 7)) rm imm 1 = .ok bytes ∧
      formOk ctx rule [.reg k0 reg.toNat, .reg k2 rm.toNat, .imm imm] {} bytes = true := by
  have hnev : ¬ (xR opcode 0#32 reg 0#32 rm 0#32 &&& 0x00D78150#32 ≠ 0#32) := by
    rw [evex_r_chosen_iff opcode 0#32 reg 0#32 rm 0#32 (by bv_decide) (by bv_decide) (by bv_decide) (by decide) (by decide)]
    intro h
    rcases h with h | h | h | h | h | h | h <;> bv_decide
  rw [emitVexEvexR_vex3opt c opcode reg 0#32 rm imm 1 hpe hk hnev]
  refine ⟨_, rfl, ?_⟩
  obtain ⟨p, hp, P, h0, h1, h2, hi⟩ := vex3R_parsed rule opcode reg 0#32 rm [imm.truncate 8] hr (by decide) hm hxop hll R hs A
  simp only [emitImmByteOrDword, Nat.one_ne_zero, beq_self_eq_true, ↓reduceIte, show ((1:Nat) == 0) = false from rfl, Bool.false_eq_true] at *
  exact vex_rmi_formOk ctx rule p _ _ k0 k2 f0 f2 _ _ (by simpa [hm64] using hmode) hk0 hk2 R f3 imm hf3 hib (by simp [hi]) hf0 hf2 hal (by rw [hm64]; exact hp) P h0 h1 h2

/-! ### table layer: every regenerated (row, form) pair of the register chunks -/

/-- **front_cls_correct with `evex()`**, classes VexRvm / VexRvm_Lx / VexRvm_Wx / VexRvm_Lx_KEvex: EVEX forms, ALL registers 0..31, whether or not EVEX was needed -/
theorem front_cls_correct_rvm_evexopt (e : Entry) (ch : List Entry) (hch : ch ∈ rvmChunks) (he : e ∈ ch) (hsp : e.rule.space = 2)
    (c : Model.X86.Ctx) (ctx : Spec.X86.Ctx) (reg vvvvv rm : BitVec 32)
    (hpe : c.preferEvex = false) (hk : c.extraId = 0#32) (hm64 : ctx.mode64 = true)
    (hr : reg < 32#32) (hv : vvvvv < 32#32) (hm : rm < 32#32) :
    ∃ bytes k0 k1 k2, e.kinds = [k0, k1, k2] ∧
      emitVexEvexR c (finalOp e 0x75) oEvex (packRegVvvvv reg.toNat vvvvv.toNat) (r32 rm.toNat) 0 0 = .ok bytes ∧
      formOk ctx e.rule [.reg k0 reg.toNat, .reg k1 vvvvv.toNat, .reg k2 rm.toNat] {} bytes = true := by
  have hok : entryOkRvm e = true := by
    have := rvm_entries_ok
    rw [List.all_eq_true] at this
    have h2 := this ch hch
    rw [List.all_eq_true] at h2
    exact h2 e he
  unfold entryOkRvm at hok
  split at hok
  · rename_i f0 f1 f2 k0 k1 k2 hops hkinds
    simp only [Bool.and_eq_true, Bool.or_eq_true, beq_iff_eq] at hok
    obtain ⟨-, hR, hA, -, r0, r1, r2, hS⟩ := hok
    obtain ⟨R, -⟩ := vexRuleOk_spec _ _ hR
    obtain ⟨A, hxop, -⟩ := rowAgreeOk_spec _ _ hA
    obtain ⟨p0, p1, p2, hal⟩ := shapeOk3_spec _ _ _ _ _ _ _ hops hS
    rw [hsp] at A
    obtain ⟨bytes, hb, hf⟩ := vexR_rvm_formOk_evexO c ctx e.rule (finalOp e 0x75) reg vvvvv rm k0 k1 k2 f0 f1 f2 hpe hk hm64 (by simpa using R.hmodes) hr hv hm hxop
      p0 p1 p2 R hsp A r0 r1 r2 (hal _ _ _)
    refine ⟨bytes, k0, k1, k2, hkinds, ?_, hf⟩
    rw [packRegVvvvv_eq reg vvvvv hr hv]
    simpa [r32] using hb
  · simp at hok

/-- **front_cls_correct with `vex3()`**, the same classes: VEX forms, registers 0..15, three-byte prefix -/
theorem front_cls_correct_rvm_vex3opt (e : Entry) (ch : List Entry) (hch : ch ∈ rvmChunks) (he : e ∈ ch) (hsp : e.rule.space = 1)
    (c : Model.X86.Ctx) (ctx : Spec.X86.Ctx) (reg vvvvv rm : BitVec 32)
    (hpe : c.preferEvex = false) (hk : c.extraId = 0#32) (hm64 : ctx.mode64 = true)
    (hr : reg < 16#32) (hv : vvvvv < 16#32) (hm : rm < 16#32) :
    ∃ bytes k0 k1 k2, e.kinds = [k0, k1, k2] ∧
      emitVexEvexR c (finalOp e 0x75) oVex3 (packRegVvvvv reg.toNat vvvvv.toNat) (r32 rm.toNat) 0 0 = .ok bytes ∧
      formOk ctx e.rule [.reg k0 reg.toNat, .reg k1 vvvvv.toNat, .reg k2 rm.toNat] {} bytes = true := by
  have hok : entryOkRvm e = true := by
    have := rvm_entries_ok
    rw [List.all_eq_true] at this
    have h2 := this ch hch
    rw [List.all_eq_true] at h2
    exact h2 e he
  unfold entryOkRvm at hok
  split at hok
  · rename_i f0 f1 f2 k0 k1 k2 hops hkinds
    simp only [Bool.and_eq_true, Bool.or_eq_true, beq_iff_eq] at hok
    obtain ⟨-, hR, hA, -, r0, r1, r2, hS⟩ := hok
    obtain ⟨R, -⟩ := vexRuleOk_spec _ _ hR
    obtain ⟨A, hxop, hvx⟩ := rowAgreeOk_spec _ _ hA
    obtain ⟨hll, hmm⟩ := hvx hsp
    obtain ⟨p0, p1, p2, hal⟩ := shapeOk3_spec _ _ _ _ _ _ _ hops hS
    have A' : RowAgree e.rule (finalOp e 0x75) false := by rw [hsp] at A; exact A
    obtain ⟨bytes, hb, hf⟩ := vexR_rvm_formOk_vex3O c ctx e.rule (finalOp e 0x75) reg vvvvv rm k0 k1 k2 f0 f1 f2 hpe hk hm64 (by simpa using R.hmodes) hr hv hm hxop hll hmm
      p0 p1 p2 R hsp A' r0 r1 r2 (hal _ _ _)
    refine ⟨bytes, k0, k1, k2, hkinds, ?_, hf⟩
    rw [packRegVvvvv_eq reg vvvvv (by bv_decide) (by bv_decide)]
    simpa [r32] using hb
  · simp at hok

/-- **front_cls_correct with `evex()` / `vex3()`**, shape rm -/
theorem front_cls_correct_rm_opt (opt : BitVec 32) (e : Entry) (ch : List Entry) (hch : ch ∈ rmChunks) (he : e ∈ ch)
    (c : Model.X86.Ctx) (ctx : Spec.X86.Ctx) (reg rm : BitVec 32)
    (hpe : c.preferEvex = false) (hk : c.extraId = 0#32) (hm64 : ctx.mode64 = true)
    (hids : (opt = oEvex ∧ e.rule.space = 2 ∧ reg < 32#32 ∧ rm < 32#32) ∨
            (opt = oVex3 ∧ e.rule.space = 1 ∧ reg < 16#32 ∧ rm < 16#32)) :
    ∃ bytes k0 k2, e.kinds = [k0, k2] ∧
      emitVexEvexR c (finalOp e 0x6B) opt (r32 reg.toNat) (r32 rm.toNat) 0 0 = .ok bytes ∧
      formOk ctx e.rule [.reg k0 reg.toNat, .reg k2 rm.toNat] {} bytes = true := by
  have hok := mem_chunks_ok rm_entries_ok e ch hch he
  unfold entryOkRm at hok
  split at hok
  · rename_i f0 f2 k0 k2 hops hkinds
    simp only [Bool.and_eq_true, Bool.or_eq_true, beq_iff_eq] at hok
    obtain ⟨-, hR, hA, -, r0, r2, hS⟩ := hok
    obtain ⟨R, -⟩ := vexRuleOk_spec _ _ hR
    obtain ⟨A, hxop, hvx⟩ := rowAgreeOk_spec _ _ hA
    obtain ⟨p0, p2, m0, m2⟩ := shapeOk2_spec _ _ _ _ _ hS
    have hal : ∀ i0 i2, alignOps e.rule.oszEff e.rule.ops [.reg k0 i0, .reg k2 i2] = some [(f0, some (.reg k0 i0)), (f2, some (.reg k2 i2))] := by
      intro i0 i2; rw [hops]; exact alignOps2 _ _ _ _ _ (m0 i0) (m2 i2)
    have e0 : reg + ((0#32 : BitVec 32) <<< 7) = reg := by bv_decide
    rcases hids with ⟨rfl, hsp, hr, hm⟩ | ⟨rfl, hsp, hr, hm⟩
    · rw [hsp] at A
      obtain ⟨bytes, hb, hf⟩ := vexR_rm_formOk_evexO c ctx e.rule (finalOp e 0x6B) reg rm k0 k2 f0 f2 hpe hk hm64 (by simpa using R.hmodes) hr hm hxop p0 p2 R hsp A r0 r2 (hal _ _)
      refine ⟨bytes, k0, k2, hkinds, ?_, hf⟩
      rw [e0] at hb
      simpa [r32] using hb
    · obtain ⟨hll, hmm⟩ := hvx hsp
      have A' : RowAgree e.rule (finalOp e 0x6B) false := by rw [hsp] at A; exact A
      obtain ⟨bytes, hb, hf⟩ := vexR_rm_formOk_vex3O c ctx e.rule (finalOp e 0x6B) reg rm k0 k2 f0 f2 hpe hk hm64 (by simpa using R.hmodes) hr hm hxop hll hmm p0 p2 R hsp A' r0 r2 (hal _ _)
      refine ⟨bytes, k0, k2, hkinds, ?_, hf⟩
      rw [e0] at hb
      simpa [r32] using hb
  · simp at hok

/-- **front_cls_correct with `evex()` / `vex3()`**, shape rvmi -/
theorem front_cls_correct_rvmi_opt (opt : BitVec 32) (e : Entry) (ch : List Entry) (hch : ch ∈ rvmiChunks) (he : e ∈ ch)
    (c : Model.X86.Ctx) (ctx : Spec.X86.Ctx) (reg vvvvv rm : BitVec 32) (imm : BitVec 64)
    (hpe : c.preferEvex = false) (hk : c.extraId = 0#32) (hm64 : ctx.mode64 = true)
    (himm : ∀ f3, e.rule.ops[3]? = some f3 → formOpMatches e.rule.oszEff f3 (.imm imm) = true)
    (hids : (opt = oEvex ∧ e.rule.space = 2 ∧ reg < 32#32 ∧ vvvvv < 32#32 ∧ rm < 32#32) ∨
            (opt = oVex3 ∧ e.rule.space = 1 ∧ reg < 16#32 ∧ vvvvv < 16#32 ∧ rm < 16#32)) :
    ∃ bytes k0 k1 k2, e.kinds = [k0, k1, k2] ∧
      emitVexEvexR c (finalOp e 0x7C) opt (packRegVvvvv reg.toNat vvvvv.toNat) (r32 rm.toNat) imm 1 = .ok bytes ∧
      formOk ctx e.rule [.reg k0 reg.toNat, .reg k1 vvvvv.toNat, .reg k2 rm.toNat, .imm imm] {} bytes = true := by
  have hok := mem_chunks_ok rvmi_entries_ok e ch hch he
  unfold entryOkRvmi at hok
  split at hok
  · rename_i f0 f1 f2 f3 k0 k1 k2 hops hkinds
    simp only [Bool.and_eq_true, Bool.or_eq_true, beq_iff_eq] at hok
    obtain ⟨-, hR, hA, -, r0, r1, r2, r3, hib, hS⟩ := hok
    obtain ⟨R, -⟩ := vexRuleOk_spec _ _ hR
    obtain ⟨A, hxop, hvx⟩ := rowAgreeOk_spec _ _ hA
    obtain ⟨p0, p1, p2, m0, m1, m2⟩ := shapeOk3_specB _ _ _ _ _ _ _ hS
    have m3 : formOpMatches e.rule.oszEff f3 (.imm imm) = true := himm f3 (by rw [hops]; rfl)
    have hal : ∀ i0 i1 i2, alignOps e.rule.oszEff e.rule.ops [.reg k0 i0, .reg k1 i1, .reg k2 i2, .imm imm] =
        some [(f0, some (.reg k0 i0)), (f1, some (.reg k1 i1)), (f2, some (.reg k2 i2)), (f3, some (.imm imm))] := by
      intro i0 i1 i2; rw [hops]; exact alignOps4 _ _ _ _ _ _ _ _ _ (m0 i0) (m1 i1) (m2 i2) m3
    rcases hids with ⟨rfl, hsp, hr, hv, hm⟩ | ⟨rfl, hsp, hr, hv, hm⟩
    · rw [hsp] at A
      obtain ⟨bytes, hb, hf⟩ := vexR_rvmi_formOk_evexO c ctx e.rule (finalOp e 0x7C) reg vvvvv rm k0 k1 k2 f0 f1 f2 hpe hk hm64 (by simpa using R.hmodes) hr hv hm hxop
        p0 p1 p2 R f3 imm r3 hib hsp A r0 r1 r2 (hal _ _ _)
      refine ⟨bytes, k0, k1, k2, hkinds, ?_, hf⟩
      rw [packRegVvvvv_eq reg vvvvv hr hv]
      simpa [r32] using hb
    · obtain ⟨hll, hmm⟩ := hvx hsp
      have A' : RowAgree e.rule (finalOp e 0x7C) false := by rw [hsp] at A; exact A
      obtain ⟨bytes, hb, hf⟩ := vexR_rvmi_formOk_vex3O c ctx e.rule (finalOp e 0x7C) reg vvvvv rm k0 k1 k2 f0 f1 f2 hpe hk hm64 (by simpa using R.hmodes) hr hv hm hxop hll hmm
        p0 p1 p2 R f3 imm r3 hib hsp A' r0 r1 r2 (hal _ _ _)
      refine ⟨bytes, k0, k1, k2, hkinds, ?_, hf⟩
      rw [packRegVvvvv_eq reg vvvvv (by bv_decide) (by bv_decide)]
      simpa [r32] using hb
  · simp at hok

/-- **front_cls_correct with `evex()` / `vex3()`**, shape rmi -/
theorem front_cls_correct_rmi_opt (opt : BitVec 32) (e : Entry) (ch : List Entry) (hch : ch ∈ rmiChunks) (he : e ∈ ch)
    (c : Model.X86.Ctx) (ctx : Spec.X86.Ctx) (reg rm : BitVec 32) (imm : BitVec 64)
    (hpe : c.preferEvex = false) (hk : c.extraId = 0#32) (hm64 : ctx.mode64 = true)
    (himm : ∀ f3, e.rule.ops[2]? = some f3 → formOpMatches e.rule.oszEff f3 (.imm imm) = true)
    (hids : (opt = oEvex ∧ e.rule.space = 2 ∧ reg < 32#32 ∧ rm < 32#32) ∨
            (opt = oVex3 ∧ e.rule.space = 1 ∧ reg < 16#32 ∧ rm < 16#32)) :
    ∃ bytes k0 k2, e.kinds = [k0, k2] ∧
      emitVexEvexR c (finalOp e 0x71) opt (r32 reg.toNat) (r32 rm.toNat) imm 1 = .ok bytes ∧
      formOk ctx e.rule [.reg k0 reg.toNat, .reg k2 rm.toNat, .imm imm] {} bytes = true := by
  have hok := mem_chunks_ok rmi_entries_ok e ch hch he
  unfold entryOkRmi at hok
  split at hok
  · rename_i f0 f2 f3 k0 k2 hops hkinds
    simp only [Bool.and_eq_true, Bool.or_eq_true, beq_iff_eq] at hok
    obtain ⟨-, hR, hA, -, r0, r2, r3, hib, hS⟩ := hok
    obtain ⟨R, -⟩ := vexRuleOk_spec _ _ hR
    obtain ⟨A, hxop, hvx⟩ := rowAgreeOk_spec _ _ hA
    obtain ⟨p0, p2, m0, m2⟩ := shapeOk2_spec _ _ _ _ _ hS
    have m3 : formOpMatches e.rule.oszEff f3 (.imm imm) = true := himm f3 (by rw [hops]; rfl)
    have hal : ∀ i0 i2, alignOps e.rule.oszEff e.rule.ops [.reg k0 i0, .reg k2 i2, .imm imm] =
        some [(f0, some (.reg k0 i0)), (f2, some (.reg k2 i2)), (f3, some (.imm imm))] := by
      intro i0 i2; rw [hops]; exact alignOps3i _ _ _ _ _ _ _ (m0 i0) (m2 i2) m3
    have e0 : reg + ((0#32 : BitVec 32) <<< 7) = reg := by bv_decide
    rcases hids with ⟨rfl, hsp, hr, hm⟩ | ⟨rfl, hsp, hr, hm⟩
    · rw [hsp] at A
      obtain ⟨bytes, hb, hf⟩ := vexR_rmi_formOk_evexO c ctx e.rule (finalOp e 0x71) reg rm k0 k2 f0 f2 hpe hk hm64 (by simpa using R.hmodes) hr hm hxop p0 p2 R f3 imm r3 hib hsp A r0 r2 (hal _ _)
      refine ⟨bytes, k0, k2, hkinds, ?_, hf⟩
      rw [e0] at hb
      simpa [r32] using hb
    · obtain ⟨hll, hmm⟩ := hvx hsp
      have A' : RowAgree e.rule (finalOp e 0x71) false := by rw [hsp] at A; exact A
      obtain ⟨bytes, hb, hf⟩ := vexR_rmi_formOk_vex3O c ctx e.rule (finalOp e 0x71) reg rm k0 k2 f0 f2 hpe hk hm64 (by simpa using R.hmodes) hr hm hxop hll hmm p0 p2 R f3 imm r3 hib hsp A' r0 r2 (hal _ _)
      refine ⟨bytes, k0, k2, hkinds, ?_, hf⟩
      rw [e0] at hb
      simpa [r32] using hb
  · simp at hok

/-! ### options that do not touch the emitters at all -/

/-- `EmitModSib` reads only the REX-forcing bit of the options -/
theorem emitModSib_lowopt (opt : BitVec 32) (hopt : opt &&& 0xFF000000#32 = 0#32) (c : Model.X86.Ctx) (pre : List (BitVec 8)) (ao : Nat)
    (opcode opReg rbReg rxReg rmInfo : BitVec 32) (m : Mem) (imm : BitVec 64) (n : Nat) (vs dw : Bool) :
    emitModSib c pre ao opcode opt opReg rbReg rxReg rmInfo m imm n vs dw = emitModSib c pre ao opcode 0#32 opReg rbReg rxReg rmInfo m imm n vs dw := by
  have h : opt &&& oRex = 0#32 := by simp only [oRex]; bv_decide
  have h0 : (0#32 : BitVec 32) &&& oRex = 0#32 := by decide
  simp only [emitModSib, h, h0]

/-- `vex()` changes nothing in `EmitVexEvexM` for an instruction that does not prefer EVEX: every memory-form class theorem admits it -/
theorem emitVexEvexM_vexopt (c : Model.X86.Ctx) (opcode opReg : BitVec 32) (m : Mem) (imm : BitVec 64) (n : Nat) (hpe : c.preferEvex = false) :
    emitVexEvexM c opcode oVex opReg m imm n = emitVexEvexM c opcode 0#32 opReg m imm n := by
  have e1 : extractLLMMMMM opcode oVex = extractLLMMMMM opcode 0#32 := by simp only [extractLLMMMMM, oEvex, oVex]; bv_decide
  have e2 : ∀ x, vexEvexMPrefix c x opcode oVex m = vexEvexMPrefix c x opcode 0#32 m := by
    intro x
    have : ∀ x', vexPrep x' opcode oVex = vexPrep x' opcode 0#32 := by intro x'; simp only [vexPrep, oVex, oVex3]; bv_decide
    simp only [vexEvexMPrefix, this]
  have e3 := emitModSib_lowopt oVex (by decide) c
  unfold emitVexEvexM
  simp only [e1, e2, e3, hpe, Bool.false_and, Bool.false_eq_true, ↓reduceIte,
    show (oVex &&& (oZMask ||| oER ||| oSAE) != 0#32) = false from by decide,
    show ((0#32 : BitVec 32) &&& (oZMask ||| oER ||| oSAE) != 0#32) = false from by decide]

/-- the legacy emitters read only bits 24..31 of the options (REX control): `long_form()`, `short_form()`, `mod_mr()`, `mod_rm()` change no byte -/
theorem legacy_emit_lowopt (opt : BitVec 32) (hopt : opt &&& 0xFF000000#32 = 0#32) :
    (∀ op a b i n, emitX86R op opt a b i n = emitX86R op 0#32 a b i n) ∧
    (∀ c op a m i n, emitX86M c op opt a m i n = emitX86M c op 0#32 a m i n) ∧
    (∀ op i n, emitX86Op op opt i n = emitX86Op op 0#32 i n) ∧
    (∀ op a i n, emitX86OpReg op opt a i n = emitX86OpReg op 0#32 a i n) := by
  have e : ∀ op, extractRex op opt = extractRex op 0#32 := by intro op; simp only [extractRex]; bv_decide
  refine ⟨?_, ?_, ?_, ?_⟩
  · intro op a b i n; simp only [emitX86R, e]
  · intro c op a m i n
    unfold emitX86M
    simp only [e, emitModSib_lowopt opt hopt]
  · intro op i n; simp only [emitX86Op, e]
  · intro op a i n; simp only [emitX86OpReg, e]

/-! ### `long_form()` on the legacy immediate forms: the class takes the long encoding whatever the value; by `legacy_emit_lowopt` the bytes
are those of the option-free emission the theorems `front_cls_correct_arith_imm`, `front_cls_correct_arith_mi`, `front_cls_correct_mov_ri` speak about -/

theorem dispatch_long (c : Model.X86.Ctx) (row : Row) (k : RegKind) (i : Nat) (m : Mem) (v : BitVec 64)
    (hk : k = .gpw ∨ k = .gpd ∨ k = .gpq) (hfit : k = .gpq → isInt32of64 v = true) :
    let imm1 := if kindSize k == 4 then signExtendInt32 v else v
    let opc : BitVec 32 := if kindSize k == 2 then 0x80#32 ||| kPP_66 else if kindSize k == 8 then 0x80#32 ||| kW else 0x80#32
    (row.encoding = 0x19 → dispatch c row oLongForm (.reg (rtypeOf k) i) (.imm v) .none .none =
        emitX86R (opc + 1#32) oLongForm ((row.mainOp >>> 18) &&& 7#32) (r32 i) imm1 (min (kindSize k) 4)) ∧
    (row.encoding = 0x2c → k = .gpq → dispatch c row oLongForm (.reg (rtypeOf k) i) (.imm v) .none .none =
        emitX86OpReg (addPrefixBySize 0xB8#32 8) oLongForm (r32 i) v 8) := by
  intro imm1 opc
  have hks : kindSize .gpw = 2 ∧ kindSize .gpd = 4 ∧ kindSize .gpq = 8 := by decide
  refine ⟨fun henc => ?_, fun henc hq => ?_⟩
  · rcases hk with h | h | h <;> subst h <;>
      (simp only [imm1, opc, hks.1, hks.2.1, hks.2.2]
       simp [dispatch, henc, sig3, Op.kind, Op.id, Op.rmSize, Op.immVal, rtypeOf, oLongForm, hfit, kPP_66, kW])
  · subst hq
    simp [dispatch, henc, sig3, Op.kind, Op.id, Op.rmSize, Op.isGp, Op.immVal, rtypeOf, oLongForm]

theorem dispatch_long_mi (c : Model.X86.Ctx) (row : Row) (m : Mem) (v : BitVec 64) (henc : row.encoding = 0x19)
    (hsz : m.size = 1 ∨ m.size = 2 ∨ m.size = 4 ∨ m.size = 8) :
    dispatch c row oLongForm (.mem m) (.imm v) .none .none =
      emitX86M c (addPrefixBySize (if m.size != 1 then 0x81#32 else 0x80#32) m.size) oLongForm ((row.mainOp >>> 18) &&& 7#32) m
        (if m.size == 4 then signExtendInt32 v else v) (min m.size 4) := by
  rcases hsz with hs | hs | hs | hs <;> simp [dispatch, henc, sig3, Op.kind, Op.rmSize, Op.immVal, hs, oLongForm]

/-! ### `evex()` on a memory form of an EVEX-only instruction (no VEX flag in the instruction table): the prefix word already selects EVEX, the
force bit is not part of the EVEX prefix - the option changes no byte, so every memory-form class theorem admits it for these instructions -/

theorem vexEvexMPrefix_forcebit (c : Model.X86.Ctx) (x opcode options : BitVec 32) (m : Mem) (h : x &&& 0x80DF8110#32 ≠ 0#32) :
    vexEvexMPrefix c (x ||| 0x10#32) opcode options m = vexEvexMPrefix c x opcode options m := by
  have h1 : ((x ||| 0x10#32) &&& 0x80DF8110#32 != 0#32) = true := by
    simp only [bne_iff_ne, ne_eq]; bv_decide
  have h2 : (x &&& 0x80DF8110#32 != 0#32) = true := by simpa using h
  have h3 : evexWord (x ||| 0x10#32) opcode = evexWord x opcode := by simp only [evexWord]; bv_decide
  simp only [vexEvexMPrefix, h1, h2, h3, ↓reduceIte, if_true]

theorem emitVexEvexM_evexopt_evexonly (c : Model.X86.Ctx) (opcode opReg : BitVec 32) (m : Mem) (imm : BitVec 64) (n : Nat)
    (hvf : c.vexFlag = false) (hpe : c.preferEvex = false) :
    emitVexEvexM c opcode oEvex opReg m imm n = emitVexEvexM c opcode 0#32 opReg m imm n := by
  have e1 : extractLLMMMMM opcode oEvex = extractLLMMMMM opcode 0#32 ||| 0x10#32 := by simp only [extractLLMMMMM, oEvex]; bv_decide
  have e3 := emitModSib_lowopt oEvex (by decide) c
  have e2 : ∀ x, vexEvexMPrefix c x opcode oEvex m = vexEvexMPrefix c x opcode 0#32 m := by
    intro x
    have : ∀ x', vexPrep x' opcode oEvex = vexPrep x' opcode 0#32 := by intro x'; simp only [vexPrep, oEvex, oVex3]; bv_decide
    simp only [vexEvexMPrefix, this]
  unfold emitVexEvexM
  simp only [e1, e2, e3, hpe, hvf, Bool.false_and, Bool.false_eq_true, ↓reduceIte, bind, Except.bind,
    show (oEvex &&& (oZMask ||| oER ||| oSAE) != 0#32) = false from by decide,
    show ((0#32 : BitVec 32) &&& (oZMask ||| oER ||| oSAE) != 0#32) = false from by decide]
  generalize ha : (if m.indexType > rtLabel then BitVec.ofNat 32 m.indexId else 0#32) = rx
  generalize hb : (if m.baseType > rtLabel then BitVec.ofNat 32 m.baseId else 0#32) = rb
  generalize hc : (if (m.bcst != 0) = true then 1#32 else 0#32) = bb
  have hx : (opReg <<< 4 &&& 0xF980#32 ||| rx <<< 3 &&& 0x40#32 ||| rx <<< 15 &&& 0x80000#32 ||| rb <<< 2 &&& 0x20#32 |||
        (extractLLMMMMM opcode 0#32 ||| 0x10#32) ||| c.extraId <<< 16 ||| bb <<< 20 ||| 0x80000000#32) =
      (opReg <<< 4 &&& 0xF980#32 ||| rx <<< 3 &&& 0x40#32 ||| rx <<< 15 &&& 0x80000#32 ||| rb <<< 2 &&& 0x20#32 |||
        extractLLMMMMM opcode 0#32 ||| c.extraId <<< 16 ||| bb <<< 20 ||| 0x80000000#32) ||| 0x10#32 := by bv_decide
  rw [hx, vexEvexMPrefix_forcebit _ _ _ _ _ (by bv_decide)]

/-! ### `evex()` on the memory forms of instructions that also have a VEX encoding: the emission equals the option-free emission of the same
instruction seen as EVEX-only (context with `vexFlag := false`): both force the EVEX branch, neither force bit is part of the prefix -/

theorem emitModSib_vexFlag (c : Model.X86.Ctx) (pre : List (BitVec 8)) (ao : Nat) (opcode options opReg rbReg rxReg rmInfo : BitVec 32) (m : Mem)
    (imm : BitVec 64) (n : Nat) (vs dw : Bool) :
    emitModSib { c with vexFlag := false } pre ao opcode options opReg rbReg rxReg rmInfo m imm n vs dw =
      emitModSib c pre ao opcode options opReg rbReg rxReg rmInfo m imm n vs dw := by
  simp only [emitModSib]

theorem emitVexEvexM_evexopt_ctx (c : Model.X86.Ctx) (opcode opReg : BitVec 32) (m : Mem) (imm : BitVec 64) (n : Nat) (hpe : c.preferEvex = false) :
    emitVexEvexM c opcode oEvex opReg m imm n = emitVexEvexM { c with vexFlag := false } opcode 0#32 opReg m imm n := by
  have hp : ∀ b : Bool, (c.preferEvex && b) = false := by intro b; rw [hpe]; rfl
  have e1 : extractLLMMMMM opcode oEvex = extractLLMMMMM opcode 0#32 ||| 0x10#32 := by simp only [extractLLMMMMM, oEvex]; bv_decide
  have e3 := emitModSib_lowopt oEvex (by decide) c
  have e4 := emitModSib_vexFlag c
  have e2 : ∀ x, vexEvexMPrefix c x opcode oEvex m = vexEvexMPrefix c x opcode 0#32 m := by
    intro x
    have : ∀ x', vexPrep x' opcode oEvex = vexPrep x' opcode 0#32 := by intro x'; simp only [vexPrep, oEvex, oVex3]; bv_decide
    simp only [vexEvexMPrefix, this]
  have e5 : ∀ x, vexEvexMPrefix { c with vexFlag := false } x opcode 0#32 m = vexEvexMPrefix c x opcode 0#32 m := by
    intro x; simp only [vexEvexMPrefix]
  have key : ∀ X : BitVec 32, vexEvexMPrefix c (X ||| 0x10#32) opcode 0#32 m = vexEvexMPrefix c (X ||| 0x80000000#32) opcode 0#32 m ∧
      vexEvexMPrefix c (X ||| 0x10#32 ||| 0x80000000#32) opcode 0#32 m = vexEvexMPrefix c (X ||| 0x80000000#32) opcode 0#32 m := by
    intro X
    have a1 : ((X ||| 0x10#32) &&& 0x80DF8110#32 != 0#32) = true := by simp only [bne_iff_ne, ne_eq]; bv_decide
    have a2 : ((X ||| 0x80000000#32) &&& 0x80DF8110#32 != 0#32) = true := by simp only [bne_iff_ne, ne_eq]; bv_decide
    have a3 : ((X ||| 0x10#32 ||| 0x80000000#32) &&& 0x80DF8110#32 != 0#32) = true := by simp only [bne_iff_ne, ne_eq]; bv_decide
    have w1 : evexWord (X ||| 0x10#32) opcode = evexWord (X ||| 0x80000000#32) opcode := by simp only [evexWord]; bv_decide
    have w2 : evexWord (X ||| 0x10#32 ||| 0x80000000#32) opcode = evexWord (X ||| 0x80000000#32) opcode := by simp only [evexWord]; bv_decide
    constructor <;> simp only [vexEvexMPrefix, a1, a2, a3, w1, w2, ↓reduceIte, if_true]
  unfold emitVexEvexM
  simp only [e1, e2, e3, e4, e5, hp, Bool.false_and, Bool.false_eq_true, ↓reduceIte, bind, Except.bind, Model.X86.Ctx.aoMask,
    show (oEvex &&& (oZMask ||| oER ||| oSAE) != 0#32) = false from by decide,
    show ((0#32 : BitVec 32) &&& (oZMask ||| oER ||| oSAE) != 0#32) = false from by decide]
  generalize ha : (if m.indexType > rtLabel then BitVec.ofNat 32 m.indexId else 0#32) = rx
  generalize hb : (if m.baseType > rtLabel then BitVec.ofNat 32 m.baseId else 0#32) = rb
  generalize hc : (if (m.bcst != 0) = true then 1#32 else 0#32) = bb
  have hx1 : (opReg <<< 4 &&& 0xF980#32 ||| rx <<< 3 &&& 0x40#32 ||| rx <<< 15 &&& 0x80000#32 ||| rb <<< 2 &&& 0x20#32 |||
        (extractLLMMMMM opcode 0#32 ||| 0x10#32) ||| c.extraId <<< 16 ||| bb <<< 20) =
      (opReg <<< 4 &&& 0xF980#32 ||| rx <<< 3 &&& 0x40#32 ||| rx <<< 15 &&& 0x80000#32 ||| rb <<< 2 &&& 0x20#32 |||
        extractLLMMMMM opcode 0#32 ||| c.extraId <<< 16 ||| bb <<< 20) ||| 0x10#32 := by bv_decide
  have hx2 : (opReg <<< 4 &&& 0xF980#32 ||| rx <<< 3 &&& 0x40#32 ||| rx <<< 15 &&& 0x80000#32 ||| rb <<< 2 &&& 0x20#32 |||
        (extractLLMMMMM opcode 0#32 ||| 0x10#32) ||| c.extraId <<< 16 ||| bb <<< 20 ||| 0x80000000#32) =
      (opReg <<< 4 &&& 0xF980#32 ||| rx <<< 3 &&& 0x40#32 ||| rx <<< 15 &&& 0x80000#32 ||| rb <<< 2 &&& 0x20#32 |||
        extractLLMMMMM opcode 0#32 ||| c.extraId <<< 16 ||| bb <<< 20) ||| 0x10#32 ||| 0x80000000#32 := by bv_decide
  cases hvf : c.vexFlag
  · simp only [Bool.false_eq_true, ↓reduceIte, hx2, (key _).2]
    try rfl
  · simp only [↓reduceIte, hx1, (key _).1]
    try rfl

theorem emitVexEvexM_evexopt_ctxZ (c : Model.X86.Ctx) (opcode opReg : BitVec 32) (m : Mem) (imm : BitVec 64) (n : Nat) (hpe : c.preferEvex = false) :
    emitVexEvexM c opcode (oZMask ||| oEvex) opReg m imm n = emitVexEvexM { c with vexFlag := false } opcode oZMask opReg m imm n := by
  have hp : ∀ b : Bool, (c.preferEvex && b) = false := by intro b; rw [hpe]; rfl
  have e1 : extractLLMMMMM opcode (oZMask ||| oEvex) = extractLLMMMMM opcode 0#32 ||| 0x10#32 := by simp only [extractLLMMMMM, oEvex, oZMask]; bv_decide
  have e1' : extractLLMMMMM opcode oZMask = extractLLMMMMM opcode 0#32 := by simp only [extractLLMMMMM, oEvex, oZMask]; bv_decide
  have e3 := emitModSib_lowopt (oZMask ||| oEvex) (by decide) c
  have e3' := emitModSib_lowopt oZMask (by decide) c
  have e4 := emitModSib_vexFlag c
  have e2 : ∀ x, vexEvexMPrefix c x opcode (oZMask ||| oEvex) m = vexEvexMPrefix c x opcode 0#32 m := by
    intro x
    have : ∀ x', vexPrep x' opcode (oZMask ||| oEvex) = vexPrep x' opcode 0#32 := by intro x'; simp only [vexPrep, oEvex, oVex3, oZMask]; bv_decide
    simp only [vexEvexMPrefix, this]
  have e5 : ∀ x, vexEvexMPrefix { c with vexFlag := false } x opcode oZMask m = vexEvexMPrefix c x opcode 0#32 m := by
    intro x
    have : ∀ x', vexPrep x' opcode oZMask = vexPrep x' opcode 0#32 := by intro x'; simp only [vexPrep, oVex3, oZMask]; bv_decide
    simp only [vexEvexMPrefix, this]
  have key : ∀ X : BitVec 32, vexEvexMPrefix c (X ||| 0x10#32) opcode 0#32 m = vexEvexMPrefix c (X ||| 0x80000000#32) opcode 0#32 m ∧
      vexEvexMPrefix c (X ||| 0x10#32 ||| 0x80000000#32) opcode 0#32 m = vexEvexMPrefix c (X ||| 0x80000000#32) opcode 0#32 m := by
    intro X
    have a1 : ((X ||| 0x10#32) &&& 0x80DF8110#32 != 0#32) = true := by simp only [bne_iff_ne, ne_eq]; bv_decide
    have a2 : ((X ||| 0x80000000#32) &&& 0x80DF8110#32 != 0#32) = true := by simp only [bne_iff_ne, ne_eq]; bv_decide
    have a3 : ((X ||| 0x10#32 ||| 0x80000000#32) &&& 0x80DF8110#32 != 0#32) = true := by simp only [bne_iff_ne, ne_eq]; bv_decide
    have w1 : evexWord (X ||| 0x10#32) opcode = evexWord (X ||| 0x80000000#32) opcode := by simp only [evexWord]; bv_decide
    have w2 : evexWord (X ||| 0x10#32 ||| 0x80000000#32) opcode = evexWord (X ||| 0x80000000#32) opcode := by simp only [evexWord]; bv_decide
    constructor <;> simp only [vexEvexMPrefix, a1, a2, a3, w1, w2, ↓reduceIte, if_true]
  unfold emitVexEvexM
  simp only [e1, e1', e2, e3, e3', e4, e5, hp, Bool.false_and, Bool.false_eq_true, ↓reduceIte, bind, Except.bind, Model.X86.Ctx.aoMask,
    show ((oZMask ||| oEvex) &&& (oZMask ||| oER ||| oSAE) != 0#32) = true from by decide,
    show ((oZMask ||| oEvex) &&& (oER ||| oSAE) != 0#32) = false from by decide,
    show (oZMask &&& (oZMask ||| oER ||| oSAE) != 0#32) = true from by decide,
    show (oZMask &&& (oER ||| oSAE) != 0#32) = false from by decide,
    show ((oZMask ||| oEvex) &&& oZMask) = oZMask from by decide, show (oZMask &&& oZMask) = oZMask from by decide]
  generalize ha : (if m.indexType > rtLabel then BitVec.ofNat 32 m.indexId else 0#32) = rx
  generalize hb : (if m.baseType > rtLabel then BitVec.ofNat 32 m.baseId else 0#32) = rb
  generalize hc : (if (m.bcst != 0) = true then 1#32 else 0#32) = bb
  cases hvf : c.vexFlag
  · simp only [Bool.false_eq_true, ↓reduceIte]
    have hx2 : (opReg <<< 4 &&& 0xF980#32 ||| rx <<< 3 &&& 0x40#32 ||| rx <<< 15 &&& 0x80000#32 ||| rb <<< 2 &&& 0x20#32 |||
          (extractLLMMMMM opcode 0#32 ||| 0x10#32) ||| c.extraId <<< 16 ||| bb <<< 20 ||| 0x80000000#32 ||| oZMask) =
        (opReg <<< 4 &&& 0xF980#32 ||| rx <<< 3 &&& 0x40#32 ||| rx <<< 15 &&& 0x80000#32 ||| rb <<< 2 &&& 0x20#32 |||
          extractLLMMMMM opcode 0#32 ||| c.extraId <<< 16 ||| bb <<< 20 ||| oZMask) ||| 0x10#32 ||| 0x80000000#32 := by simp only [oZMask]; bv_decide
    have hx3 : (opReg <<< 4 &&& 0xF980#32 ||| rx <<< 3 &&& 0x40#32 ||| rx <<< 15 &&& 0x80000#32 ||| rb <<< 2 &&& 0x20#32 |||
          extractLLMMMMM opcode 0#32 ||| c.extraId <<< 16 ||| bb <<< 20 ||| 0x80000000#32 ||| oZMask) =
        (opReg <<< 4 &&& 0xF980#32 ||| rx <<< 3 &&& 0x40#32 ||| rx <<< 15 &&& 0x80000#32 ||| rb <<< 2 &&& 0x20#32 |||
          extractLLMMMMM opcode 0#32 ||| c.extraId <<< 16 ||| bb <<< 20 ||| oZMask) ||| 0x80000000#32 := by simp only [oZMask]; bv_decide
    rw [hx2, hx3, (key _).2]
    try rfl
  · simp only [↓reduceIte]
    have hx1 : (opReg <<< 4 &&& 0xF980#32 ||| rx <<< 3 &&& 0x40#32 ||| rx <<< 15 &&& 0x80000#32 ||| rb <<< 2 &&& 0x20#32 |||
          (extractLLMMMMM opcode 0#32 ||| 0x10#32) ||| c.extraId <<< 16 ||| bb <<< 20 ||| oZMask) =
        (opReg <<< 4 &&& 0xF980#32 ||| rx <<< 3 &&& 0x40#32 ||| rx <<< 15 &&& 0x80000#32 ||| rb <<< 2 &&& 0x20#32 |||
          extractLLMMMMM opcode 0#32 ||| c.extraId <<< 16 ||| bb <<< 20 ||| oZMask) ||| 0x10#32 := by simp only [oZMask]; bv_decide
    have hx3 : (opReg <<< 4 &&& 0xF980#32 ||| rx <<< 3 &&& 0x40#32 ||| rx <<< 15 &&& 0x80000#32 ||| rb <<< 2 &&& 0x20#32 |||
          extractLLMMMMM opcode 0#32 ||| c.extraId <<< 16 ||| bb <<< 20 ||| 0x80000000#32 ||| oZMask) =
        (opReg <<< 4 &&& 0xF980#32 ||| rx <<< 3 &&& 0x40#32 ||| rx <<< 15 &&& 0x80000#32 ||| rb <<< 2 &&& 0x20#32 |||
          extractLLMMMMM opcode 0#32 ||| c.extraId <<< 16 ||| bb <<< 20 ||| oZMask) ||| 0x80000000#32 := by simp only [oZMask]; bv_decide
    rw [hx1, hx3, (key _).1]
    try rfl

/-- **front_cls_correct with a memory operand and `evex()`**, shape rvm: EVEX forms of instructions that also have a VEX encoding (and of the
EVEX-only ones), every `AddrForm` instance of the EVEX-only view of the context, masking {k} -/
theorem front_cls_correct_rvm_mem_evexopt (e : Entry) (ch : List Entry) (hch : ch ∈ rvmChunks) (he : e ∈ ch)
    (c : Model.X86.Ctx) (ctx : Spec.X86.Ctx) (reg vvvvv xb aaa : BitVec 32) (z : Bool) (size : Nat) (m : Mem) (mo : MemOp) (pfx : List (BitVec 8))
    (mb : BitVec 32 → BitVec 32 → BitVec 8) (sib : BitVec 32 → BitVec 32 → Option (BitVec 8)) (ds : BitVec 32 → BitVec 32 → List (BitVec 8))
    (AF : AddrForm { c with vexFlag := false } ctx m mo pfx xb aaa mb sib ds) (hsize : mo.size = size)
    (D : DecorAllowed e.rule aaa.toNat z false false)
    (hpe : c.preferEvex = false) (hm64 : ctx.mode64 = true)
    (hsz : ∀ f2, e.rule.ops[2]? = some f2 → hasMemAlt f2 size = true)
    (hids : e.rule.space = 2 ∧ reg < 32#32 ∧ vvvvv < 32#32) :
    ∃ bytes k0 k1 k2, e.kinds = [k0, k1, k2] ∧
      emitVexEvexM c (finalOp e 0x75) (zOpt z ||| oEvex) (packRegVvvvv reg.toNat vvvvv.toNat) m 0 0 = .ok bytes ∧
      formOk ctx e.rule [.reg k0 reg.toNat, .reg k1 vvvvv.toNat, .mem mo] (decorOf aaa.toNat z false false 0) bytes = true := by
  have hok := mem_chunks_ok rvm_mem_entries_ok e ch hch he
  unfold entryOkRvmMem at hok
  split at hok
  · rename_i f0 f1 f2 k0 k1 k2 hops hkinds
    have hm2 : hasMemAlt f2 size = true := hsz f2 (by rw [hops]; rfl)
    simp only [hasMemAlt_any f2 size hm2, Bool.not_true, Bool.false_or, Bool.and_eq_true, Bool.or_eq_true, beq_iff_eq] at hok
    obtain ⟨-, hC, r0, r1, r2, p0, p1, n0, n1, m0, m1⟩ := hok
    obtain ⟨R, hmode, -, A, hxop, hvex, hevex⟩ := memCoreOk_spec _ _ _ hC
    have hal : alignOps e.rule.oszEff e.rule.ops [.reg k0 reg.toNat, .reg k1 vvvvv.toNat, .mem mo] =
        some [(f0, some (.reg k0 reg.toNat)), (f1, some (.reg k1 vvvvv.toNat)), (f2, some (.mem mo))] := by
      rw [hops]
      exact alignOps3 _ _ _ _ _ _ _ (by rw [formOpMatches_reg_nofix _ _ _ _ n0]; exact m0) (by rw [formOpMatches_reg_nofix _ _ _ _ n1]; exact m1)
        (hasMemAlt_matches _ _ _ _ hm2 hsize AF.hvsib)
    obtain ⟨hsp, hr, hv⟩ := hids
    rw [hsp] at A
    obtain ⟨hs6, hN⟩ := hevex hsp
    have hev' : ({ c with vexFlag := false } : Model.X86.Ctx).vexFlag = false ∨ (xR (finalOp e 0x75) 0#32 reg vvvvv xb aaa ||| zOpt z) &&& 0x00D78110#32 ≠ 0#32 := Or.inl rfl
    obtain ⟨bytes, hb', hf⟩ := vexM_rvm_formOk_evex { c with vexFlag := false } ctx e.rule (finalOp e 0x75) reg vvvvv xb aaa z m mo pfx mb sib ds AF k0 k1 f0 f1 f2 hm64 hmode
      hr hv hxop hev' (plainKind_spec _ p0) (plainKind_spec _ p1) R D hsp A hs6 hN r0 r1 r2 hal
    refine ⟨bytes, k0, k1, k2, hkinds, ?_, hf⟩
    have hsw : ∀ op r mm i nn, emitVexEvexM c op (zOpt z ||| oEvex) r mm i nn = emitVexEvexM { c with vexFlag := false } op (zOpt z) r mm i nn := by
      intro op r mm i nn
      cases z
      · simpa [zOpt] using emitVexEvexM_evexopt_ctx c op r mm i nn hpe
      · simpa [zOpt] using emitVexEvexM_evexopt_ctxZ c op r mm i nn hpe
    rw [hsw]
    rw [packRegVvvvv_eq reg vvvvv hr hv]
    exact hb'
  · simp at hok

/-- **front_cls_correct with a memory operand and `evex()`**, shape rm: EVEX forms of instructions that also have a VEX encoding (and of the
EVEX-only ones), every `AddrForm` instance of the EVEX-only view of the context, masking {k} -/
theorem front_cls_correct_rm_mem_evexopt (e : Entry) (ch : List Entry) (hch : ch ∈ rmChunks) (he : e ∈ ch)
    (c : Model.X86.Ctx) (ctx : Spec.X86.Ctx) (reg xb aaa : BitVec 32) (z : Bool) (size : Nat) (m : Mem) (mo : MemOp) (pfx : List (BitVec 8))
    (mb : BitVec 32 → BitVec 32 → BitVec 8) (sib : BitVec 32 → BitVec 32 → Option (BitVec 8)) (ds : BitVec 32 → BitVec 32 → List (BitVec 8))
    (AF : AddrForm { c with vexFlag := false } ctx m mo pfx xb aaa mb sib ds) (hsize : mo.size = size)
    (D : DecorAllowed e.rule aaa.toNat z false false)
    (hpe : c.preferEvex = false) (hm64 : ctx.mode64 = true)
    (hsz : ∀ f2, e.rule.ops[1]? = some f2 → hasMemAlt f2 size = true)
    (hids : e.rule.space = 2 ∧ reg < 32#32) :
    ∃ bytes k0 k2, e.kinds = [k0, k2] ∧
      emitVexEvexM c (finalOpM e 0x6B size) (zOpt z ||| oEvex) (r32 reg.toNat) m 0 0 = .ok bytes ∧
      formOk ctx e.rule [.reg k0 reg.toNat, .mem mo] (decorOf aaa.toNat z false false 0) bytes = true := by
  have hok := mem_chunks_ok rm_mem_entries_ok e ch hch he
  unfold entryOkRmMem at hok
  split at hok
  · rename_i f0 f2 k0 k2 hops hkinds
    have hm2 : hasMemAlt f2 size = true := hsz f2 (by rw [hops]; rfl)
    have hok := allMemAlts_spec f2 _ size hok hm2
    simp only [Bool.and_eq_true, Bool.or_eq_true, beq_iff_eq] at hok
    obtain ⟨-, hC, r0, r2, p0, n0, m0⟩ := hok
    obtain ⟨R, hmode, -, A, hxop, hvex, hevex⟩ := memCoreOk_spec _ _ _ hC
    have hal : alignOps e.rule.oszEff e.rule.ops [.reg k0 reg.toNat, .mem mo] =
        some [(f0, some (.reg k0 reg.toNat)), (f2, some (.mem mo))] := by
      rw [hops]
      exact alignOps2 _ _ _ _ _ (by rw [formOpMatches_reg_nofix _ _ _ _ n0]; exact m0) (hasMemAlt_matches _ _ _ _ hm2 hsize AF.hvsib)
    have e0 : reg + ((0#32 : BitVec 32) <<< 7) = reg := by bv_decide
    obtain ⟨hsp, hr⟩ := hids
    rw [hsp] at A
    obtain ⟨hs6, hN⟩ := hevex hsp
    have hev' : ({ c with vexFlag := false } : Model.X86.Ctx).vexFlag = false ∨ (xR (finalOpM e 0x6B size) 0#32 reg 0#32 xb aaa ||| zOpt z) &&& 0x00D78110#32 ≠ 0#32 := Or.inl rfl
    obtain ⟨bytes, hb', hf⟩ := vexM_rm_formOk_evex { c with vexFlag := false } ctx e.rule (finalOpM e 0x6B size) reg xb aaa z m mo pfx mb sib ds AF k0 f0 f2 hm64 hmode
      hr hxop hev' (plainKind_spec _ p0) R D hsp A hs6 hN r0 r2 hal
    refine ⟨bytes, k0, k2, hkinds, ?_, hf⟩
    have hsw : ∀ op r mm i nn, emitVexEvexM c op (zOpt z ||| oEvex) r mm i nn = emitVexEvexM { c with vexFlag := false } op (zOpt z) r mm i nn := by
      intro op r mm i nn
      cases z
      · simpa [zOpt] using emitVexEvexM_evexopt_ctx c op r mm i nn hpe
      · simpa [zOpt] using emitVexEvexM_evexopt_ctxZ c op r mm i nn hpe
    rw [hsw]
    rw [e0] at hb'
    simpa [r32, zOpt] using hb'
  · simp at hok

/-- **front_cls_correct with a memory operand and `evex()`**, shape rvmi: EVEX forms of instructions that also have a VEX encoding (and of the
EVEX-only ones), every `AddrForm` instance of the EVEX-only view of the context, masking {k} -/
theorem front_cls_correct_rvmi_mem_evexopt (e : Entry) (ch : List Entry) (hch : ch ∈ rvmiChunks) (he : e ∈ ch)
    (c : Model.X86.Ctx) (ctx : Spec.X86.Ctx) (reg vvvvv xb aaa : BitVec 32) (z : Bool) (size : Nat) (m : Mem) (mo : MemOp) (pfx : List (BitVec 8)) (imm : BitVec 64)
    (mb : BitVec 32 → BitVec 32 → BitVec 8) (sib : BitVec 32 → BitVec 32 → Option (BitVec 8)) (ds : BitVec 32 → BitVec 32 → List (BitVec 8))
    (AF : AddrForm { c with vexFlag := false } ctx m mo pfx xb aaa mb sib ds) (hsize : mo.size = size)
    (D : DecorAllowed e.rule aaa.toNat z false false)
    (hpe : c.preferEvex = false) (hm64 : ctx.mode64 = true)
    (hsz : ∀ f2, e.rule.ops[2]? = some f2 → hasMemAlt f2 size = true)
    (himm : ∀ f3, e.rule.ops[3]? = some f3 → formOpMatches e.rule.oszEff f3 (.imm imm) = true)
    (hids : e.rule.space = 2 ∧ reg < 32#32 ∧ vvvvv < 32#32) :
    ∃ bytes k0 k1 k2, e.kinds = [k0, k1, k2] ∧
      emitVexEvexM c (finalOp e 0x7C) (zOpt z ||| oEvex) (packRegVvvvv reg.toNat vvvvv.toNat) m imm 1 = .ok bytes ∧
      formOk ctx e.rule [.reg k0 reg.toNat, .reg k1 vvvvv.toNat, .mem mo, .imm imm] (decorOf aaa.toNat z false false 0) bytes = true := by
  have hok := mem_chunks_ok rvmi_mem_entries_ok e ch hch he
  unfold entryOkRvmiMem at hok
  split at hok
  · rename_i f0 f1 f2 f3 k0 k1 k2 hops hkinds
    have hm2 : hasMemAlt f2 size = true := hsz f2 (by rw [hops]; rfl)
    have m3 : formOpMatches e.rule.oszEff f3 (.imm imm) = true := himm f3 (by rw [hops]; rfl)
    simp only [hasMemAlt_any f2 size hm2, Bool.not_true, Bool.false_or, Bool.and_eq_true, Bool.or_eq_true, beq_iff_eq] at hok
    obtain ⟨-, hC, r0, r1, r2, r3, hib, p0, p1, n0, n1, m0, m1⟩ := hok
    obtain ⟨R, hmode, -, A, hxop, hvex, hevex⟩ := memCoreOk_spec _ _ _ hC
    have hal : alignOps e.rule.oszEff e.rule.ops [.reg k0 reg.toNat, .reg k1 vvvvv.toNat, .mem mo, .imm imm] =
        some [(f0, some (.reg k0 reg.toNat)), (f1, some (.reg k1 vvvvv.toNat)), (f2, some (.mem mo)), (f3, some (.imm imm))] := by
      rw [hops]
      exact alignOps4 _ _ _ _ _ _ _ _ _ (by rw [formOpMatches_reg_nofix _ _ _ _ n0]; exact m0) (by rw [formOpMatches_reg_nofix _ _ _ _ n1]; exact m1)
        (hasMemAlt_matches _ _ _ _ hm2 hsize AF.hvsib) m3
    obtain ⟨hsp, hr, hv⟩ := hids
    rw [hsp] at A
    obtain ⟨hs6, hN⟩ := hevex hsp
    have hev' : ({ c with vexFlag := false } : Model.X86.Ctx).vexFlag = false ∨ (xR (finalOp e 0x7C) 0#32 reg vvvvv xb aaa ||| zOpt z) &&& 0x00D78110#32 ≠ 0#32 := Or.inl rfl
    obtain ⟨bytes, hb', hf⟩ := vexM_rvmi_formOk_evex { c with vexFlag := false } ctx e.rule (finalOp e 0x7C) reg vvvvv xb aaa z m mo pfx mb sib ds AF k0 k1 f0 f1 f2 hm64 hmode
      hr hv hxop hev' (plainKind_spec _ p0) (plainKind_spec _ p1) R D f3 imm r3 hib hsp A hs6 hN r0 r1 r2 hal
    refine ⟨bytes, k0, k1, k2, hkinds, ?_, hf⟩
    have hsw : ∀ op r mm i nn, emitVexEvexM c op (zOpt z ||| oEvex) r mm i nn = emitVexEvexM { c with vexFlag := false } op (zOpt z) r mm i nn := by
      intro op r mm i nn
      cases z
      · simpa [zOpt] using emitVexEvexM_evexopt_ctx c op r mm i nn hpe
      · simpa [zOpt] using emitVexEvexM_evexopt_ctxZ c op r mm i nn hpe
    rw [hsw]
    rw [packRegVvvvv_eq reg vvvvv hr hv]
    exact hb'
  · simp at hok

/-- **front_cls_correct with a memory operand and `evex()`**, shape rmi: EVEX forms of instructions that also have a VEX encoding (and of the
EVEX-only ones), every `AddrForm` instance of the EVEX-only view of the context, masking {k} -/
theorem front_cls_correct_rmi_mem_evexopt (e : Entry) (ch : List Entry) (hch : ch ∈ rmiChunks) (he : e ∈ ch)
    (c : Model.X86.Ctx) (ctx : Spec.X86.Ctx) (reg xb aaa : BitVec 32) (z : Bool) (size : Nat) (m : Mem) (mo : MemOp) (pfx : List (BitVec 8)) (imm : BitVec 64)
    (mb : BitVec 32 → BitVec 32 → BitVec 8) (sib : BitVec 32 → BitVec 32 → Option (BitVec 8)) (ds : BitVec 32 → BitVec 32 → List (BitVec 8))
    (AF : AddrForm { c with vexFlag := false } ctx m mo pfx xb aaa mb sib ds) (hsize : mo.size = size)
    (D : DecorAllowed e.rule aaa.toNat z false false)
    (hpe : c.preferEvex = false) (hm64 : ctx.mode64 = true)
    (hsz : ∀ f2, e.rule.ops[1]? = some f2 → hasMemAlt f2 size = true)
    (himm : ∀ f3, e.rule.ops[2]? = some f3 → formOpMatches e.rule.oszEff f3 (.imm imm) = true)
    (hids : e.rule.space = 2 ∧ reg < 32#32) :
    ∃ bytes k0 k2, e.kinds = [k0, k2] ∧
      emitVexEvexM c (finalOpM e 0x71 size) (zOpt z ||| oEvex) (r32 reg.toNat) m imm 1 = .ok bytes ∧
      formOk ctx e.rule [.reg k0 reg.toNat, .mem mo, .imm imm] (decorOf aaa.toNat z false false 0) bytes = true := by
  have hok := mem_chunks_ok rmi_mem_entries_ok e ch hch he
  unfold entryOkRmiMem at hok
  split at hok
  · rename_i f0 f2 f3 k0 k2 hops hkinds
    have hm2 : hasMemAlt f2 size = true := hsz f2 (by rw [hops]; rfl)
    have m3 : formOpMatches e.rule.oszEff f3 (.imm imm) = true := himm f3 (by rw [hops]; rfl)
    have hok := allMemAlts_spec f2 _ size hok hm2
    simp only [Bool.and_eq_true, Bool.or_eq_true, beq_iff_eq] at hok
    obtain ⟨-, hC, r0, r2, r3, hib, p0, n0, m0⟩ := hok
    obtain ⟨R, hmode, -, A, hxop, hvex, hevex⟩ := memCoreOk_spec _ _ _ hC
    have hal : alignOps e.rule.oszEff e.rule.ops [.reg k0 reg.toNat, .mem mo, .imm imm] =
        some [(f0, some (.reg k0 reg.toNat)), (f2, some (.mem mo)), (f3, some (.imm imm))] := by
      rw [hops]
      exact alignOps3i _ _ _ _ _ _ _ (by rw [formOpMatches_reg_nofix _ _ _ _ n0]; exact m0) (hasMemAlt_matches _ _ _ _ hm2 hsize AF.hvsib) m3
    have e0 : reg + ((0#32 : BitVec 32) <<< 7) = reg := by bv_decide
    obtain ⟨hsp, hr⟩ := hids
    rw [hsp] at A
    obtain ⟨hs6, hN⟩ := hevex hsp
    have hev' : ({ c with vexFlag := false } : Model.X86.Ctx).vexFlag = false ∨ (xR (finalOpM e 0x71 size) 0#32 reg 0#32 xb aaa ||| zOpt z) &&& 0x00D78110#32 ≠ 0#32 := Or.inl rfl
    obtain ⟨bytes, hb', hf⟩ := vexM_rmi_formOk_evex { c with vexFlag := false } ctx e.rule (finalOpM e 0x71 size) reg xb aaa z m mo pfx mb sib ds AF k0 f0 f2 hm64 hmode
      hr hxop hev' (plainKind_spec _ p0) R D f3 imm r3 hib hsp A hs6 hN r0 r2 hal
    refine ⟨bytes, k0, k2, hkinds, ?_, hf⟩
    have hsw : ∀ op r mm i nn, emitVexEvexM c op (zOpt z ||| oEvex) r mm i nn = emitVexEvexM { c with vexFlag := false } op (zOpt z) r mm i nn := by
      intro op r mm i nn
      cases z
      · simpa [zOpt] using emitVexEvexM_evexopt_ctx c op r mm i nn hpe
      · simpa [zOpt] using emitVexEvexM_evexopt_ctxZ c op r mm i nn hpe
    rw [hsw]
    rw [e0] at hb'
    simpa [r32, zOpt] using hb'
  · simp at hok

/-! ### 32-bit mode (`options` carries the invalid-REX mark 0x80000000 there): the same option lemmas and theorems -/

theorem emitVexEvexR_branchesO32 (c : Model.X86.Ctx) (opt opcode reg vvvvv rm : BitVec 32) (imm : BitVec 64) (n : Nat)
    (hopt : opt = 0x80000000#32 ||| oEvex ∨ opt = 0x80000000#32 ||| oVex3 ∨ opt = 0x80000000#32 ||| oVex) (hpe : c.preferEvex = false) (hk : c.extraId = 0#32) :
    emitVexEvexR c opcode opt (reg + (vvvvv <<< 7)) rm imm n =
      .ok (if xR opcode opt reg vvvvv rm 0#32 &&& 0x00D78150#32 ≠ 0#32 then
             le32 (evexWord (xR opcode opt reg vvvvv rm 0#32) opcode) ++ [opcode.truncate 8] ++
               ([modrmRR (reg + (vvvvv <<< 7)) rm] ++ emitImmByteOrDword imm n)
           else if vexPrep (xR opcode opt reg vvvvv rm 0#32) opcode opt &&& 0x8000803E#32 ≠ 0#32 then
             le32 (vex3Word (vexPrep (xR opcode opt reg vvvvv rm 0#32) opcode opt) opcode) ++
               ([modrmRR (reg + (vvvvv <<< 7)) rm] ++ emitImmByteOrDword imm n)
           else
             [0xC5#8, (vex2Byte (vexPrep (xR opcode opt reg vvvvv rm 0#32) opcode opt)).truncate 8, opcode.truncate 8] ++
               ([modrmRR (reg + (vvvvv <<< 7)) rm] ++ emitImmByteOrDword imm n)) := by
  have hx : xR opcode opt reg vvvvv rm 0#32 = xOfR opcode opt (reg + (vvvvv <<< 7)) rm 0#32 := rfl
  rw [hx]
  unfold xOfR
  rcases hopt with h | h | h <;> subst h
  all_goals
    simp [emitVexEvexR, vexEvexROptions, hpe, hk, bind, Except.bind, pure, Except.pure, modrmRR, oZMask, oER, oSAE, oEvex, oVex3, oVex]
    split
    · split <;> first | rfl | simp_all
    · first | rfl | simp_all

theorem emitVexEvexR_evexopt32 (c : Model.X86.Ctx) (opcode reg vvvvv rm : BitVec 32) (imm : BitVec 64) (n : Nat)
    (hpe : c.preferEvex = false) (hk : c.extraId = 0#32) :
    emitVexEvexR c opcode (0x80000000#32 ||| oEvex) (reg + (vvvvv <<< 7)) rm imm n =
      .ok (le32 (evexWord (xR opcode 0x80000000#32 reg vvvvv rm 0#32) opcode) ++ [opcode.truncate 8] ++
            ([modrmRR (reg + (vvvvv <<< 7)) rm] ++ emitImmByteOrDword imm n)) := by
  have h1 : xR opcode (0x80000000#32 ||| oEvex) reg vvvvv rm 0#32 &&& 0x00D78150#32 ≠ 0#32 := by
    simp only [xR, extractLLMMMMM, kLL_Mask, kMM_Mask, oEvex]; bv_decide
  have h2 : evexWord (xR opcode (0x80000000#32 ||| oEvex) reg vvvvv rm 0#32) opcode = evexWord (xR opcode 0x80000000#32 reg vvvvv rm 0#32) opcode := by
    simp only [evexWord, xR, extractLLMMMMM, kLL_Mask, kMM_Mask, oEvex]; bv_decide
  rw [emitVexEvexR_branchesO32 c _ opcode reg vvvvv rm imm n (Or.inl rfl) hpe hk, if_pos h1, h2]

theorem emitVexEvexR_vex3opt32 (c : Model.X86.Ctx) (opcode reg vvvvv rm : BitVec 32) (imm : BitVec 64) (n : Nat)
    (hpe : c.preferEvex = false) (hk : c.extraId = 0#32) (hnev : ¬ (xR opcode 0x80000000#32 reg vvvvv rm 0#32 &&& 0x00D78150#32 ≠ 0#32)) :
    emitVexEvexR c opcode (0x80000000#32 ||| oVex3) (reg + (vvvvv <<< 7)) rm imm n =
      .ok (le32 (vex3Word (vexPrep (xR opcode 0x80000000#32 reg vvvvv rm 0#32) opcode 0x80000000#32) opcode) ++
            ([modrmRR (reg + (vvvvv <<< 7)) rm] ++ emitImmByteOrDword imm n)) := by
  have h0 : xR opcode (0x80000000#32 ||| oVex3) reg vvvvv rm 0#32 = xR opcode 0x80000000#32 reg vvvvv rm 0#32 := by
    simp only [xR, extractLLMMMMM, kLL_Mask, kMM_Mask, oEvex, oVex3]; bv_decide
  have h1 : vexPrep (xR opcode 0x80000000#32 reg vvvvv rm 0#32) opcode (0x80000000#32 ||| oVex3) &&& 0x8000803E#32 ≠ 0#32 := by
    simp only [vexPrep, oVex3]; bv_decide
  have h2 : vex3Word (vexPrep (xR opcode 0x80000000#32 reg vvvvv rm 0#32) opcode (0x80000000#32 ||| oVex3)) opcode =
      vex3Word (vexPrep (xR opcode 0x80000000#32 reg vvvvv rm 0#32) opcode 0x80000000#32) opcode := by
    simp only [vex3Word, vexPrep, vexPrefixTable, oVex3]; bv_decide
  rw [emitVexEvexR_branchesO32 c _ opcode reg vvvvv rm imm n (Or.inr (Or.inl rfl)) hpe hk, h0, if_neg hnev, if_pos h1, h2]

theorem emitVexEvexR_vexopt32 (c : Model.X86.Ctx) (opcode opReg rbReg : BitVec 32) (imm : BitVec 64) (n : Nat) (hpe : c.preferEvex = false) :
    emitVexEvexR c opcode (0x80000000#32 ||| oVex) opReg rbReg imm n = emitVexEvexR c opcode 0x80000000#32 opReg rbReg imm n := by
  have e1 : extractLLMMMMM opcode 0x80000800#32 = extractLLMMMMM opcode 0x80000000#32 := by simp only [extractLLMMMMM, oEvex]; bv_decide
  simp [emitVexEvexR, vexEvexROptions, oVex, e1, oZMask, oER, oSAE, oVex3, vexPrep, hpe]

theorem vexR_rvm_formOk_evexO32 (c : Model.X86.Ctx) (ctx : Spec.X86.Ctx) (rule : Rule) (opcode reg vvvvv rm : BitVec 32)
    (k0 k1 k2 : RegKind) (f0 f1 f2 : FormOp)
    (hpe : c.preferEvex = false) (hk : c.extraId = 0#32) (hm64 : ctx.mode64 = false) (hmode : (rule.modes &&& 1 != 0) = true)
    (hr : reg < 8#32) (hv : vvvvv < 8#32) (hm : rm < 8#32) (hxop : opcode &&& 0x800#32 = 0#32)
    (hk0 : PlainKind k0) (hk1 : PlainKind k1) (hk2 : PlainKind k2)
    (R : VexRule rule 0) (hs : rule.space = 2) (A : RowAgree rule opcode true)
    (hf0 : f0.role = .reg) (hf1 : f1.role = .vvvv) (hf2 : f2.role = .rm)
    (hal : alignOps rule.oszEff rule.ops [.reg k0 reg.toNat, .reg k1 vvvvv.toNat, .reg k2 rm.toNat] =
           some [(f0, some (.reg k0 reg.toNat)), (f1, some (.reg k1 vvvvv.toNat)), (f2, some (.reg k2 rm.toNat))]) :
    ∃ bytes, emitVexEvexR c opcode (0x80000000#32 ||| oEvex) (reg + (vvvvv <<< 7)) rm 0 0 = .ok bytes ∧
      formOk ctx rule [.reg k0 reg.toNat, .reg k1 vvvvv.toNat, .reg k2 rm.toNat] {} bytes = true := by
  rw [emitVexEvexR_evexopt32 c opcode reg vvvvv rm 0 0 hpe hk]
  refine ⟨_, rfl, ?_⟩
  obtain ⟨p, hp, P, h0, h1, h2, -⟩ := evexR_parsed32 rule opcode reg vvvvv rm [] hr hv hm hxop R hs A
  simp only [emitImmByteOrDword] at *
  exact vex_rvm_formOk ctx rule p _ _ k0 k1 k2 f0 f1 f2 _ _ _ (by simpa [hm64] using hmode) hk0 hk1 hk2 R hf0 hf1 hf2 hal (by rw [hm64]; exact hp) P h0 h1 h2

theorem vexR_rvm_formOk_vex3O32 (c : Model.X86.Ctx) (ctx : Spec.X86.Ctx) (rule : Rule) (opcode reg vvvvv rm : BitVec 32)
    (k0 k1 k2 : RegKind) (f0 f1 f2 : FormOp)
    (hpe : c.preferEvex = false) (hk : c.extraId = 0#32) (hm64 : ctx.mode64 = false) (hmode : (rule.modes &&& 1 != 0) = true)
    (hr : reg < 8#32) (hv : vvvvv < 8#32) (hm : rm < 8#32) (hxop : opcode &&& 0x800#32 = 0#32) (hll : opcode &&& 0x40001000#32 = 0#32)
    (hmm : opcode &&& 0x1F00#32 ≠ 0#32)
    (hk0 : PlainKind k0) (hk1 : PlainKind k1) (hk2 : PlainKind k2)
    (R : VexRule rule 0) (hs : rule.space = 1) (A : RowAgree rule opcode false)
    (hf0 : f0.role = .reg) (hf1 : f1.role = .vvvv) (hf2 : f2.role = .rm)
    (hal : alignOps rule.oszEff rule.ops [.reg k0 reg.toNat, .reg k1 vvvvv.toNat, .reg k2 rm.toNat] =
           some [(f0, some (.reg k0 reg.toNat)), (f1, some (.reg k1 vvvvv.toNat)), (f2, some (.reg k2 rm.toNat))]) :
    ∃ bytes, emitVexEvexR c opcode (0x80000000#32 ||| oVex3) (reg + (vvvvv <<< 7)) rm 0 0 = .ok bytes ∧
      formOk ctx rule [.reg k0 reg.toNat, .reg k1 vvvvv.toNat, .reg k2 rm.toNat] {} bytes = true := by
  have hnev : ¬ (xR opcode 0x80000000#32 reg vvvvv rm 0#32 &&& 0x00D78150#32 ≠ 0#32) := by
    rw [evex_r_chosen_iff opcode 0x80000000#32 reg vvvvv rm 0#32 (by bv_decide) (by bv_decide) (by bv_decide) (by decide) (by decide)]
    intro h
    rcases h with h | h | h | h | h | h | h <;> bv_decide
  rw [emitVexEvexR_vex3opt32 c opcode reg vvvvv rm 0 0 hpe hk hnev]
  refine ⟨_, rfl, ?_⟩
  obtain ⟨p, hp, P, h0, h1, h2, -⟩ := vex3R_parsed32 rule opcode reg vvvvv rm [] hr hv hm hxop hll R hs A
  simp only [emitImmByteOrDword] at *
  exact vex_rvm_formOk ctx rule p _ _ k0 k1 k2 f0 f1 f2 _ _ _ (by simpa [hm64] using hmode) hk0 hk1 hk2 R hf0 hf1 hf2 hal (by rw [hm64]; exact hp) P h0 h1 h2

theorem vexR_rm_formOk_evexO32 (c : Model.X86.Ctx) (ctx : Spec.X86.Ctx) (rule : Rule) (opcode reg rm : BitVec 32)
    (k0 k2 : RegKind) (f0 f2 : FormOp)
    (hpe : c.preferEvex = false) (hk : c.extraId = 0#32) (hm64 : ctx.mode64 = false) (hmode : (rule.modes &&& 1 != 0) = true)
    (hr : reg < 8#32) (hm : rm < 8#32) (hxop : opcode &&& 0x800#32 = 0#32)
    (hk0 : PlainKind k0) (hk2 : PlainKind k2)
    (R : VexRule rule 0) (hs : rule.space = 2) (A : RowAgree rule opcode true)
    (hf0 : f0.role = .reg) (hf2 : f2.role = .rm)
    (hal : alignOps rule.oszEff rule.ops [.reg k0 reg.toNat, .reg k2 rm.toNat] =
           some [(f0, some (.reg k0 reg.toNat)), (f2, some (.reg k2 rm.toNat))]) :
    ∃ bytes, emitVexEvexR c opcode (0x80000000#32 ||| oEvex) (reg + (0#32 <<< 7)) rm 0 0 = .ok bytes ∧
      formOk ctx rule [.reg k0 reg.toNat, .reg k2 rm.toNat] {} bytes = true := by
  rw [emitVexEvexR_evexopt32 c opcode reg 0#32 rm 0 0 hpe hk]
  refine ⟨_, rfl, ?_⟩
  obtain ⟨p, hp, P, h0, h1, h2, -⟩ := evexR_parsed32 rule opcode reg 0#32 rm [] hr (by decide) hm hxop R hs A
  simp only [emitImmByteOrDword] at *
  exact vex_rm_formOk ctx rule p _ _ k0 k2 f0 f2 _ _ (by simpa [hm64] using hmode) hk0 hk2 R hf0 hf2 hal (by rw [hm64]; exact hp) P h0 h1 h2

theorem vexR_rm_formOk_vex3O32 (c : Model.X86.Ctx) (ctx : Spec.X86.Ctx) (rule : Rule) (opcode reg rm : BitVec 32)
    (k0 k2 : RegKind) (f0 f2 : FormOp)
    (hpe : c.preferEvex = false) (hk : c.extraId = 0#32) (hm64 : ctx.mode64 = false) (hmode : (rule.modes &&& 1 != 0) = true)
    (hr : reg < 8#32) (hm : rm < 8#32) (hxop : opcode &&& 0x800#32 = 0#32) (hll : opcode &&& 0x40001000#32 = 0#32)
    (hmm : opcode &&& 0x1F00#32 ≠ 0#32)
    (hk0 : PlainKind k0) (hk2 : PlainKind k2)
    (R : VexRule rule 0) (hs : rule.space = 1) (A : RowAgree rule opcode false)
    (hf0 : f0.role = .reg) (hf2 : f2.role = .rm)
    (hal : alignOps rule.oszEff rule.ops [.reg k0 reg.toNat, .reg k2 rm.toNat] =
           some [(f0, some (.reg k0 reg.toNat)), (f2, some (.reg k2 rm.toNat))]) :
    ∃ bytes, emitVexEvexR c opcode (0x80000000#32 ||| oVex3) (reg + (0#32 <<< 7)) rm 0 0 = .ok bytes ∧
      formOk ctx rule [.reg k0 reg.toNat, .reg k2 rm.toNat] {} bytes = true := by
  have hnev : ¬ (xR opcode 0x80000000#32 reg 0#32 rm 0#32 &&& 0x00D78150#32 ≠ 0#32) := by
    rw [evex_r_chosen_iff opcode 0x80000000#32 reg 0#32 rm 0#32 (by bv_decide) (by bv_decide) (by bv_decide) (by decide) (by decide)]
    intro h
    rcases h with h | h | h | h | h | h | h <;> bv_decide
  rw [emitVexEvexR_vex3opt32 c opcode reg 0#32 rm 0 0 hpe hk hnev]
  refine ⟨_, rfl, ?_⟩
  obtain ⟨p, hp, P, h0, h1, h2, -⟩ := vex3R_parsed32 rule opcode reg 0#32 rm [] hr (by decide) hm hxop hll R hs A
  simp only [emitImmByteOrDword] at *
  exact vex_rm_formOk ctx rule p _ _ k0 k2 f0 f2 _ _ (by simpa [hm64] using hmode) hk0 hk2 R hf0 hf2 hal (by rw [hm64]; exact hp) P h0 h1 h2

theorem vexR_rvmi_formOk_evexO32 (c : Model.X86.Ctx) (ctx : Spec.X86.Ctx) (rule : Rule) (opcode reg vvvvv rm : BitVec 32)
    (k0 k1 k2 : RegKind) (f0 f1 f2 : FormOp)
    (hpe : c.preferEvex = false) (hk : c.extraId = 0#32) (hm64 : ctx.mode64 = false) (hmode : (rule.modes &&& 1 != 0) = true)
    (hr : reg < 8#32) (hv : vvvvv < 8#32) (hm : rm < 8#32) (hxop : opcode &&& 0x800#32 = 0#32)
    (hk0 : PlainKind k0) (hk1 : PlainKind k1) (hk2 : PlainKind k2)
    (R : VexRule rule 1) (f3 : FormOp) (imm : BitVec 64) (hf3 : f3.role = .imm) (hib : immBitsOf f3 = 8) (hs : rule.space = 2) (A : RowAgree rule opcode true)
    (hf0 : f0.role = .reg) (hf1 : f1.role = .vvvv) (hf2 : f2.role = .rm)
    (hal : alignOps rule.oszEff rule.ops [.reg k0 reg.toNat, .reg k1 vvvvv.toNat, .reg k2 rm.toNat, .imm imm] =
           some [(f0, some (.reg k0 reg.toNat)), (f1, some (.reg k1 vvvvv.toNat)), (f2, some (.reg k2 rm.toNat)), (f3, some (.imm imm))]) :
    ∃ bytes, emitVexEvexR c opcode (0x80000000#32 ||| oEvex) (reg + (vvvvv <<< 7)) rm imm 1 = .ok bytes ∧
      formOk ctx rule [.reg k0 reg.toNat, .reg k1 vvvvv.toNat, .reg k2 rm.toNat, .imm imm] {} bytes = true := by
  rw [emitVexEvexR_evexopt32 c opcode reg vvvvv rm imm 1 hpe hk]
  refine ⟨_, rfl, ?_⟩
  obtain ⟨p, hp, P, h0, h1, h2, hi⟩ := evexR_parsed32 rule opcode reg vvvvv rm [imm.truncate 8] hr hv hm hxop R hs A
  simp only [emitImmByteOrDword, Nat.one_ne_zero, beq_self_eq_true, ↓reduceIte, show ((1:Nat) == 0) = false from rfl, Bool.false_eq_true] at *
  exact vex_rvmi_formOk ctx rule p _ _ k0 k1 k2 f0 f1 f2 _ _ _ (by simpa [hm64] using hmode) hk0 hk1 hk2 R f3 imm hf3 hib (by simp [hi]) hf0 hf1 hf2 hal (by rw [hm64]; exact hp) P h0 h1 h2

theorem vexR_rvmi_formOk_vex3O32 (c : Model.X86.Ctx) (ctx : Spec.X86.Ctx) (rule : Rule) (opcode reg vvvvv rm : BitVec 32)
    (k0 k1 k2 : RegKind) (f0 f1 f2 : FormOp)
    (hpe : c.preferEvex = false) (hk : c.extraId = 0#32) (hm64 : ctx.mode64 = false) (hmode : (rule.modes &&& 1 != 0) = true)
    (hr : reg < 8#32) (hv : vvvvv < 8#32) (hm : rm < 8#32) (hxop : opcode &&& 0x800#32 = 0#32) (hll : opcode &&& 0x40001000#32 = 0#32)
    (hmm : opcode &&& 0x1F00#32 ≠ 0#32)
    (hk0 : PlainKind k0) (hk1 : PlainKind k1) (hk2 : PlainKind k2)
    (R : VexRule rule 1) (f3 : FormOp) (imm : BitVec 64) (hf3 : f3.role = .imm) (hib : immBitsOf f3 = 8) (hs : rule.space = 1) (A : RowAgree rule opcode false)
    (hf0 : f0.role = .reg) (hf1 : f1.role = .vvvv) (hf2 : f2.role = .rm)
    (hal : alignOps rule.oszEff rule.ops [.reg k0 reg.toNat, .reg k1 vvvvv.toNat, .reg k2 rm.toNat, .imm imm] =
           some [(f0, some (.reg k0 reg.toNat)), (f1, some (.reg k1 vvvvv.toNat)), (f2, some (.reg k2 rm.toNat)), (f3, some (.imm imm))]) :
    ∃ bytes, emitVexEvexR c opcode (0x80000000#32 ||| oVex3) (reg + (vvvvv <<< 7)) rm imm 1 = .ok bytes ∧
      formOk ctx rule [.reg k0 reg.toNat, .reg k1 vvvvv.toNat, .reg k2 rm.toNat, .imm imm] {} bytes = true := by
  have hnev : ¬ (xR opcode 0x80000000#32 reg vvvvv rm 0#32 &&& 0x00D78150#32 ≠ 0#32) := by
    rw [evex_r_chosen_iff opcode 0x80000000#32 reg vvvvv rm 0#32 (by bv_decide) (by bv_decide) (by bv_decide) (by decide) (by decide)]
    intro h
    rcases h with h | h | h | h | h | h | h <;> bv_decide
  rw [emitVexEvexR_vex3opt32 c opcode reg vvvvv rm imm 1 hpe hk hnev]
  refine ⟨_, rfl, ?_⟩
  obtain ⟨p, hp, P, h0, h1, h2, hi⟩ := vex3R_parsed32 rule opcode reg vvvvv rm [imm.truncate 8] hr hv hm hxop hll R hs A
  simp only [emitImmByteOrDword, Nat.one_ne_zero, beq_self_eq_true, ↓reduceIte, show ((1:Nat) == 0) = false from rfl, Bool.false_eq_true] at *
  exact vex_rvmi_formOk ctx rule p _ _ k0 k1 k2 f0 f1 f2 _ _ _ (by simpa [hm64] using hmode) hk0 hk1 hk2 R f3 imm hf3 hib (by simp [hi]) hf0 hf1 hf2 hal (by rw [hm64]; exact hp) P h0 h1 h2

theorem vexR_rmi_formOk_evexO32 (c : Model.X86.Ctx) (ctx : Spec.X86.Ctx) (rule : Rule) (opcode reg rm : BitVec 32)
    (k0 k2 : RegKind) (f0 f2 : FormOp)
    (hpe : c.preferEvex = false) (hk : c.extraId = 0#32) (hm64 : ctx.mode64 = false) (hmode : (rule.modes &&& 1 != 0) = true)
    (hr : reg < 8#32) (hm : rm < 8#32) (hxop : opcode &&& 0x800#32 = 0#32)
    (hk0 : PlainKind k0) (hk2 : PlainKind k2)
    (R : VexRule rule 1) (f3 : FormOp) (imm : BitVec 64) (hf3 : f3.role = .imm) (hib : immBitsOf f3 = 8) (hs : rule.space = 2) (A : RowAgree rule opcode true)
    (hf0 : f0.role = .reg) (hf2 : f2.role = .rm)
    (hal : alignOps rule.oszEff rule.ops [.reg k0 reg.toNat, .reg k2 rm.toNat, .imm imm] =
           some [(f0, some (.reg k0 reg.toNat)), (f2, some (.reg k2 rm.toNat)), (f3, some (.imm imm))]) :
    ∃ bytes, emitVexEvexR c opcode (0x80000000#32 ||| oEvex) (reg + (0#32 <<< 7)) rm imm 1 = .ok bytes ∧
      formOk ctx rule [.reg k0 reg.toNat, .reg k2 rm.toNat, .imm imm] {} bytes = true := by
  rw [emitVexEvexR_evexopt32 c opcode reg 0#32 rm imm 1 hpe hk]
  refine ⟨_, rfl, ?_⟩
  obtain ⟨p, hp, P, h0, h1, h2, hi⟩ := evexR_parsed32 rule opcode reg 0#32 rm [imm.truncate 8] hr (by decide) hm hxop R hs A
  simp only [emitImmByteOrDword, Nat.one_ne_zero, beq_self_eq_true, ↓reduceIte, show ((1:Nat) == 0) = false from rfl, Bool.false_eq_true] at *
  exact vex_rmi_formOk ctx rule p _ _ k0 k2 f0 f2 _ _ (by simpa [hm64] using hmode) hk0 hk2 R f3 imm hf3 hib (by simp [hi]) hf0 hf2 hal (by rw [hm64]; exact hp) P h0 h1 h2

theorem vexR_rmi_formOk_vex3O32 (c : Model.X86.Ctx) (ctx : Spec.X86.Ctx) (rule : Rule) (opcode reg rm : BitVec 32)
    (k0 k2 : RegKind) (f0 f2 : FormOp)
    (hpe : c.preferEvex = false) (hk : c.extraId = 0#32) (hm64 : ctx.mode64 = false) (hmode : (rule.modes &&& 1 != 0) = true)
    (hr : reg < 8#32) (hm : rm < 8#32) (hxop : opcode &&& 0x800#32 = 0#32) (hll : opcode &&& 0x40001000#32 = 0#32)
    (hmm : opcode &&& 0x1F00#32 ≠ 0#32)
    (hk0 : PlainKind k0) (hk2 : PlainKind k2)
    (R : VexRule rule 1) (f3 : FormOp) (imm : BitVec 64) (hf3 : f3.role = .imm) (hib : immBitsOf f3 = 8) (hs : rule.space = 1) (A : RowAgree rule opcode false)
    (hf0 : f0.role = .reg) (hf2 : f2.role = .rm)
    (hal : alignOps rule.oszEff rule.ops [.reg k0 reg.toNat, .reg k2 rm.toNat, .imm imm] =
           some [(f0, some (.reg k0 reg.toNat)), (f2, some (.reg k2 rm.toNat)), (f3, some (.imm imm))]) :
    ∃ bytes, emitVexEvexR c opcode (0x80000000#32 ||| oVex3) (reg + (0#32 <<< 7)) rm imm 1 = .ok bytes ∧
      formOk ctx rule [.reg k0 reg.toNat, .reg k2 rm.toNat, .imm imm] {} bytes = true := by
  have hnev : ¬ (xR opcode 0x80000000#32 reg 0#32 rm 0#32 &&& 0x00D78150#32 ≠ 0#32) := by
    rw [evex_r_chosen_iff opcode 0x80000000#32 reg 0#32 rm 0#32 (by bv_decide) (by bv_decide) (by bv_decide) (by decide) (by decide)]
    intro h
    rcases h with h | h | h | h | h | h | h <;> bv_decide
  rw [emitVexEvexR_vex3opt32 c opcode reg 0#32 rm imm 1 hpe hk hnev]
  refine ⟨_, rfl, ?_⟩
  obtain ⟨p, hp, P, h0, h1, h2, hi⟩ := vex3R_parsed32 rule opcode reg 0#32 rm [imm.truncate 8] hr (by decide) hm hxop hll R hs A
  simp only [emitImmByteOrDword, Nat.one_ne_zero, beq_self_eq_true, ↓reduceIte, show ((1:Nat) == 0) = false from rfl, Bool.false_eq_true] at *
  exact vex_rmi_formOk ctx rule p _ _ k0 k2 f0 f2 _ _ (by simpa [hm64] using hmode) hk0 hk2 R f3 imm hf3 hib (by simp [hi]) hf0 hf2 hal (by rw [hm64]; exact hp) P h0 h1 h2

theorem front_cls_correct_rvm_evexopt32 (e : Entry) (ch : List Entry) (hch : ch ∈ rvmChunks) (he : e ∈ ch) (hsp : e.rule.space = 2)
    (c : Model.X86.Ctx) (ctx : Spec.X86.Ctx) (reg vvvvv rm : BitVec 32)
    (hpe : c.preferEvex = false) (hk : c.extraId = 0#32) (hm64 : ctx.mode64 = false) (hm32 : (e.rule.modes &&& 1 != 0) = true)
    (hr : reg < 8#32) (hv : vvvvv < 8#32) (hm : rm < 8#32) :
    ∃ bytes k0 k1 k2, e.kinds = [k0, k1, k2] ∧
      emitVexEvexR c (finalOp e 0x75) (0x80000000#32 ||| oEvex) (packRegVvvvv reg.toNat vvvvv.toNat) (r32 rm.toNat) 0 0 = .ok bytes ∧
      formOk ctx e.rule [.reg k0 reg.toNat, .reg k1 vvvvv.toNat, .reg k2 rm.toNat] {} bytes = true := by
  have hok : entryOkRvm e = true := by
    have := rvm_entries_ok
    rw [List.all_eq_true] at this
    have h2 := this ch hch
    rw [List.all_eq_true] at h2
    exact h2 e he
  unfold entryOkRvm at hok
  split at hok
  · rename_i f0 f1 f2 k0 k1 k2 hops hkinds
    simp only [Bool.and_eq_true, Bool.or_eq_true, beq_iff_eq] at hok
    obtain ⟨-, hR, hA, -, r0, r1, r2, hS⟩ := hok
    obtain ⟨R, -⟩ := vexRuleOk_spec _ _ hR
    obtain ⟨A, hxop, -⟩ := rowAgreeOk_spec _ _ hA
    obtain ⟨p0, p1, p2, hal⟩ := shapeOk3_spec _ _ _ _ _ _ _ hops hS
    rw [hsp] at A
    obtain ⟨bytes, hb, hf⟩ := vexR_rvm_formOk_evexO32 c ctx e.rule (finalOp e 0x75) reg vvvvv rm k0 k1 k2 f0 f1 f2 hpe hk hm64 hm32 hr hv hm hxop
      p0 p1 p2 R hsp A r0 r1 r2 (hal _ _ _)
    refine ⟨bytes, k0, k1, k2, hkinds, ?_, hf⟩
    rw [packRegVvvvv_eq reg vvvvv (by bv_decide) (by bv_decide)]
    simpa [r32] using hb
  · simp at hok

theorem front_cls_correct_rvm_vex3opt32 (e : Entry) (ch : List Entry) (hch : ch ∈ rvmChunks) (he : e ∈ ch) (hsp : e.rule.space = 1)
    (c : Model.X86.Ctx) (ctx : Spec.X86.Ctx) (reg vvvvv rm : BitVec 32)
    (hpe : c.preferEvex = false) (hk : c.extraId = 0#32) (hm64 : ctx.mode64 = false) (hm32 : (e.rule.modes &&& 1 != 0) = true)
    (hr : reg < 8#32) (hv : vvvvv < 8#32) (hm : rm < 8#32) :
    ∃ bytes k0 k1 k2, e.kinds = [k0, k1, k2] ∧
      emitVexEvexR c (finalOp e 0x75) (0x80000000#32 ||| oVex3) (packRegVvvvv reg.toNat vvvvv.toNat) (r32 rm.toNat) 0 0 = .ok bytes ∧
      formOk ctx e.rule [.reg k0 reg.toNat, .reg k1 vvvvv.toNat, .reg k2 rm.toNat] {} bytes = true := by
  have hok : entryOkRvm e = true := by
    have := rvm_entries_ok
    rw [List.all_eq_true] at this
    have h2 := this ch hch
    rw [List.all_eq_true] at h2
    exact h2 e he
  unfold entryOkRvm at hok
  split at hok
  · rename_i f0 f1 f2 k0 k1 k2 hops hkinds
    simp only [Bool.and_eq_true, Bool.or_eq_true, beq_iff_eq] at hok
    obtain ⟨-, hR, hA, -, r0, r1, r2, hS⟩ := hok
    obtain ⟨R, -⟩ := vexRuleOk_spec _ _ hR
    obtain ⟨A, hxop, hvx⟩ := rowAgreeOk_spec _ _ hA
    obtain ⟨hll, hmm⟩ := hvx hsp
    obtain ⟨p0, p1, p2, hal⟩ := shapeOk3_spec _ _ _ _ _ _ _ hops hS
    have A' : RowAgree e.rule (finalOp e 0x75) false := by rw [hsp] at A; exact A
    obtain ⟨bytes, hb, hf⟩ := vexR_rvm_formOk_vex3O32 c ctx e.rule (finalOp e 0x75) reg vvvvv rm k0 k1 k2 f0 f1 f2 hpe hk hm64 hm32 hr hv hm hxop hll hmm
      p0 p1 p2 R hsp A' r0 r1 r2 (hal _ _ _)
    refine ⟨bytes, k0, k1, k2, hkinds, ?_, hf⟩
    rw [packRegVvvvv_eq reg vvvvv (by bv_decide) (by bv_decide)]
    simpa [r32] using hb
  · simp at hok

theorem front_cls_correct_rm_opt32 (opt : BitVec 32) (e : Entry) (ch : List Entry) (hch : ch ∈ rmChunks) (he : e ∈ ch)
    (c : Model.X86.Ctx) (ctx : Spec.X86.Ctx) (reg rm : BitVec 32)
    (hpe : c.preferEvex = false) (hk : c.extraId = 0#32) (hm64 : ctx.mode64 = false) (hm32 : (e.rule.modes &&& 1 != 0) = true)
    (hids : (opt = 0x80000000#32 ||| oEvex ∧ e.rule.space = 2 ∧ reg < 8#32 ∧ rm < 8#32) ∨
            (opt = 0x80000000#32 ||| oVex3 ∧ e.rule.space = 1 ∧ reg < 8#32 ∧ rm < 8#32)) :
    ∃ bytes k0 k2, e.kinds = [k0, k2] ∧
      emitVexEvexR c (finalOp e 0x6B) opt (r32 reg.toNat) (r32 rm.toNat) 0 0 = .ok bytes ∧
      formOk ctx e.rule [.reg k0 reg.toNat, .reg k2 rm.toNat] {} bytes = true := by
  have hok := mem_chunks_ok rm_entries_ok e ch hch he
  unfold entryOkRm at hok
  split at hok
  · rename_i f0 f2 k0 k2 hops hkinds
    simp only [Bool.and_eq_true, Bool.or_eq_true, beq_iff_eq] at hok
    obtain ⟨-, hR, hA, -, r0, r2, hS⟩ := hok
    obtain ⟨R, -⟩ := vexRuleOk_spec _ _ hR
    obtain ⟨A, hxop, hvx⟩ := rowAgreeOk_spec _ _ hA
    obtain ⟨p0, p2, m0, m2⟩ := shapeOk2_spec _ _ _ _ _ hS
    have hal : ∀ i0 i2, alignOps e.rule.oszEff e.rule.ops [.reg k0 i0, .reg k2 i2] = some [(f0, some (.reg k0 i0)), (f2, some (.reg k2 i2))] := by
      intro i0 i2; rw [hops]; exact alignOps2 _ _ _ _ _ (m0 i0) (m2 i2)
    have e0 : reg + ((0#32 : BitVec 32) <<< 7) = reg := by bv_decide
    rcases hids with ⟨rfl, hsp, hr, hm⟩ | ⟨rfl, hsp, hr, hm⟩
    · rw [hsp] at A
      obtain ⟨bytes, hb, hf⟩ := vexR_rm_formOk_evexO32 c ctx e.rule (finalOp e 0x6B) reg rm k0 k2 f0 f2 hpe hk hm64 hm32 hr hm hxop p0 p2 R hsp A r0 r2 (hal _ _)
      refine ⟨bytes, k0, k2, hkinds, ?_, hf⟩
      rw [e0] at hb
      simpa [r32] using hb
    · obtain ⟨hll, hmm⟩ := hvx hsp
      have A' : RowAgree e.rule (finalOp e 0x6B) false := by rw [hsp] at A; exact A
      obtain ⟨bytes, hb, hf⟩ := vexR_rm_formOk_vex3O32 c ctx e.rule (finalOp e 0x6B) reg rm k0 k2 f0 f2 hpe hk hm64 hm32 hr hm hxop hll hmm p0 p2 R hsp A' r0 r2 (hal _ _)
      refine ⟨bytes, k0, k2, hkinds, ?_, hf⟩
      rw [e0] at hb
      simpa [r32] using hb
  · simp at hok

theorem front_cls_correct_rvmi_opt32 (opt : BitVec 32) (e : Entry) (ch : List Entry) (hch : ch ∈ rvmiChunks) (he : e ∈ ch)
    (c : Model.X86.Ctx) (ctx : Spec.X86.Ctx) (reg vvvvv rm : BitVec 32) (imm : BitVec 64)
    (hpe : c.preferEvex = false) (hk : c.extraId = 0#32) (hm64 : ctx.mode64 = false) (hm32 : (e.rule.modes &&& 1 != 0) = true)
    (himm : ∀ f3, e.rule.ops[3]? = some f3 → formOpMatches e.rule.oszEff f3 (.imm imm) = true)
    (hids : (opt = 0x80000000#32 ||| oEvex ∧ e.rule.space = 2 ∧ reg < 8#32 ∧ vvvvv < 8#32 ∧ rm < 8#32) ∨
            (opt = 0x80000000#32 ||| oVex3 ∧ e.rule.space = 1 ∧ reg < 8#32 ∧ vvvvv < 8#32 ∧ rm < 8#32)) :
    ∃ bytes k0 k1 k2, e.kinds = [k0, k1, k2] ∧
      emitVexEvexR c (finalOp e 0x7C) opt (packRegVvvvv reg.toNat vvvvv.toNat) (r32 rm.toNat) imm 1 = .ok bytes ∧
      formOk ctx e.rule [.reg k0 reg.toNat, .reg k1 vvvvv.toNat, .reg k2 rm.toNat, .imm imm] {} bytes = true := by
  have hok := mem_chunks_ok rvmi_entries_ok e ch hch he
  unfold entryOkRvmi at hok
  split at hok
  · rename_i f0 f1 f2 f3 k0 k1 k2 hops hkinds
    simp only [Bool.and_eq_true, Bool.or_eq_true, beq_iff_eq] at hok
    obtain ⟨-, hR, hA, -, r0, r1, r2, r3, hib, hS⟩ := hok
    obtain ⟨R, -⟩ := vexRuleOk_spec _ _ hR
    obtain ⟨A, hxop, hvx⟩ := rowAgreeOk_spec _ _ hA
    obtain ⟨p0, p1, p2, m0, m1, m2⟩ := shapeOk3_specB _ _ _ _ _ _ _ hS
    have m3 : formOpMatches e.rule.oszEff f3 (.imm imm) = true := himm f3 (by rw [hops]; rfl)
    have hal : ∀ i0 i1 i2, alignOps e.rule.oszEff e.rule.ops [.reg k0 i0, .reg k1 i1, .reg k2 i2, .imm imm] =
        some [(f0, some (.reg k0 i0)), (f1, some (.reg k1 i1)), (f2, some (.reg k2 i2)), (f3, some (.imm imm))] := by
      intro i0 i1 i2; rw [hops]; exact alignOps4 _ _ _ _ _ _ _ _ _ (m0 i0) (m1 i1) (m2 i2) m3
    rcases hids with ⟨rfl, hsp, hr, hv, hm⟩ | ⟨rfl, hsp, hr, hv, hm⟩
    · rw [hsp] at A
      obtain ⟨bytes, hb, hf⟩ := vexR_rvmi_formOk_evexO32 c ctx e.rule (finalOp e 0x7C) reg vvvvv rm k0 k1 k2 f0 f1 f2 hpe hk hm64 hm32 hr hv hm hxop
        p0 p1 p2 R f3 imm r3 hib hsp A r0 r1 r2 (hal _ _ _)
      refine ⟨bytes, k0, k1, k2, hkinds, ?_, hf⟩
      rw [packRegVvvvv_eq reg vvvvv (by bv_decide) (by bv_decide)]
      simpa [r32] using hb
    · obtain ⟨hll, hmm⟩ := hvx hsp
      have A' : RowAgree e.rule (finalOp e 0x7C) false := by rw [hsp] at A; exact A
      obtain ⟨bytes, hb, hf⟩ := vexR_rvmi_formOk_vex3O32 c ctx e.rule (finalOp e 0x7C) reg vvvvv rm k0 k1 k2 f0 f1 f2 hpe hk hm64 hm32 hr hv hm hxop hll hmm
        p0 p1 p2 R f3 imm r3 hib hsp A' r0 r1 r2 (hal _ _ _)
      refine ⟨bytes, k0, k1, k2, hkinds, ?_, hf⟩
      rw [packRegVvvvv_eq reg vvvvv (by bv_decide) (by bv_decide)]
      simpa [r32] using hb
  · simp at hok

theorem front_cls_correct_rmi_opt32 (opt : BitVec 32) (e : Entry) (ch : List Entry) (hch : ch ∈ rmiChunks) (he : e ∈ ch)
    (c : Model.X86.Ctx) (ctx : Spec.X86.Ctx) (reg rm : BitVec 32) (imm : BitVec 64)
    (hpe : c.preferEvex = false) (hk : c.extraId = 0#32) (hm64 : ctx.mode64 = false) (hm32 : (e.rule.modes &&& 1 != 0) = true)
    (himm : ∀ f3, e.rule.ops[2]? = some f3 → formOpMatches e.rule.oszEff f3 (.imm imm) = true)
    (hids : (opt = 0x80000000#32 ||| oEvex ∧ e.rule.space = 2 ∧ reg < 8#32 ∧ rm < 8#32) ∨
            (opt = 0x80000000#32 ||| oVex3 ∧ e.rule.space = 1 ∧ reg < 8#32 ∧ rm < 8#32)) :
    ∃ bytes k0 k2, e.kinds = [k0, k2] ∧
      emitVexEvexR c (finalOp e 0x71) opt (r32 reg.toNat) (r32 rm.toNat) imm 1 = .ok bytes ∧
      formOk ctx e.rule [.reg k0 reg.toNat, .reg k2 rm.toNat, .imm imm] {} bytes = true := by
  have hok := mem_chunks_ok rmi_entries_ok e ch hch he
  unfold entryOkRmi at hok
  split at hok
  · rename_i f0 f2 f3 k0 k2 hops hkinds
    simp only [Bool.and_eq_true, Bool.or_eq_true, beq_iff_eq] at hok
    obtain ⟨-, hR, hA, -, r0, r2, r3, hib, hS⟩ := hok
    obtain ⟨R, -⟩ := vexRuleOk_spec _ _ hR
    obtain ⟨A, hxop, hvx⟩ := rowAgreeOk_spec _ _ hA
    obtain ⟨p0, p2, m0, m2⟩ := shapeOk2_spec _ _ _ _ _ hS
    have m3 : formOpMatches e.rule.oszEff f3 (.imm imm) = true := himm f3 (by rw [hops]; rfl)
    have hal : ∀ i0 i2, alignOps e.rule.oszEff e.rule.ops [.reg k0 i0, .reg k2 i2, .imm imm] =
        some [(f0, some (.reg k0 i0)), (f2, some (.reg k2 i2)), (f3, some (.imm imm))] := by
      intro i0 i2; rw [hops]; exact alignOps3i _ _ _ _ _ _ _ (m0 i0) (m2 i2) m3
    have e0 : reg + ((0#32 : BitVec 32) <<< 7) = reg := by bv_decide
    rcases hids with ⟨rfl, hsp, hr, hm⟩ | ⟨rfl, hsp, hr, hm⟩
    · rw [hsp] at A
      obtain ⟨bytes, hb, hf⟩ := vexR_rmi_formOk_evexO32 c ctx e.rule (finalOp e 0x71) reg rm k0 k2 f0 f2 hpe hk hm64 hm32 hr hm hxop p0 p2 R f3 imm r3 hib hsp A r0 r2 (hal _ _)
      refine ⟨bytes, k0, k2, hkinds, ?_, hf⟩
      rw [e0] at hb
      simpa [r32] using hb
    · obtain ⟨hll, hmm⟩ := hvx hsp
      have A' : RowAgree e.rule (finalOp e 0x71) false := by rw [hsp] at A; exact A
      obtain ⟨bytes, hb, hf⟩ := vexR_rmi_formOk_vex3O32 c ctx e.rule (finalOp e 0x71) reg rm k0 k2 f0 f2 hpe hk hm64 hm32 hr hm hxop hll hmm p0 p2 R f3 imm r3 hib hsp A' r0 r2 (hal _ _)
      refine ⟨bytes, k0, k2, hkinds, ?_, hf⟩
      rw [e0] at hb
      simpa [r32] using hb
  · simp at hok

end AsmjitVerif.Props.C01
