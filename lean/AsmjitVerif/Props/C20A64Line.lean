/-
  C20 (sixth file) — whole-line parse-back for AArch64, at the strength of `x86_line_parse_back`.

  `a64_line_parse_back`: for every flag combination and every well-formed instruction (real id valid; operands non-none and `OpOKA`;
  a plain `[b]` memory operand only as the last operand — architectural syntax reads `[b], x` as ONE post-index operand)
  `parseA64Inst (a64FormatInstruction …)` returns exactly the mnemonic text of the id, the condition code (`b.eq`), and the operand
  readings in order, each agreeing with the operand given (`a64_line_operands_agree`).
  Operand kinds proved `OpOKA`: scalar registers (`a64_reg_operand_ok`, from `RegOK`: all architectural and virtual registers of the
  earlier theorems), immediates with and without shift/extend modifier (`a64_imm_operand_ok`: `12`, `-5`, `0xFF`, `lsl 12`,
  `uxtw 2`, all 13 modifiers), labels (`a64_label_operand_ok`), MEMORY operands (`a64_mem_operand_ok`, from `WFA64Mem`: offset /
  pre-index / post-index / register index with extend and shift — the operand's comma chunks are regrouped by the reader).
  Memory operands are therefore inside both line theorems: x86 via `mem_operand_ok` (size prefix, segment, base incl. `rip`,
  index*scale, signed/hex displacement, label+disp, and `{1toN}` through the chunk suffix), AArch64 via `a64_mem_operand_ok`.
  Vector registers with arrangement and element index (`v1.4s`, `v1.16b[5]`, `v1.4b[2]`: 64- and 128-bit vectors, b/h/s/d and the
  `.4b`/`.2h` groups) are `OpOKA` too (`a64_vec_operand_ok`), so every operand kind the AArch64 backend prints is inside the theorem
  (AsmJit passes `ld1`/`tbl` register sequences as separate vector operands; it has no AArch64 register-list operands).
-/
import AsmjitVerif.Lemmas.FormatA64Vec

namespace AsmjitVerif.Props.C20
open AsmjitVerif.Format AsmjitVerif.FormatText AsmjitVerif.Lemmas.FormatX86Mem AsmjitVerif.Lemmas.FormatA64Mem
open AsmjitVerif.Lemmas.FormatA64Line

theorem a64_reg_operand_ok (flags : Nat) (env : Env) (t id : Nat) (h : RegOK env (armFormatRegister env t id) t id)
    (hdot : '.' ∉ armFormatRegister env t id) : OpOKA flags env (.reg t id 0 none) := reg_opOKA flags env t id h hdot
theorem a64_imm_operand_ok (flags : Nat) (env : Env) (u pred : Nat) (hu : u < two64) (hp : pred < 14) :
    OpOKA flags env (.imm u pred) := imm_opOKA flags env u pred hu hp
theorem a64_label_operand_ok (flags : Nat) (env : Env) (id : Nat) (h : LabelOK env id)
    (hnr : parseA64Reg env (formatLabel env id) = none) : OpOKA flags env (.label id) := label_opOKA flags env id h hnr
theorem a64_mem_operand_ok (flags : Nat) (env : Env) (m : A64Mem) (wf : WFA64Mem env m) : OpOKA flags env (.a64mem m) :=
  mem_opOKA flags env m wf

theorem a64_vec_operand_ok (flags : Nat) (env : Env) (t id etype : Nat) (eidx : Option Nat) (hid : id < 32) (hk : VecKind t etype)
    (hidx : ∀ i, eidx = some i → i < two64) : OpOKA flags env (.reg t id etype eidx) := vec_opOKA flags env t id etype eidx hid hk hidx

/-- whole-line parse-back for AArch64 -/
theorem a64_line_parse_back (flags : Nat) (env : Env) (instId : Nat) (ops : List Operand)
    (h0 : instId % 65536 ≠ 0) (hid : instId % 65536 < a64InstCount)
    (hne : ∀ o ∈ ops, o ≠ Operand.none) (hok : ∀ o ∈ ops, OpOKA flags env o) (hgood : A64OpsOK ops) :
    parseA64Inst env (a64FormatInstruction flags env instId ops) =
      some { mnemonic := a64Name instId, cond := if a64Cc instId = 0 then none else some (armCondCode (a64Cc instId)),
             ops := ops.map fun o => { op := rdOpA flags env o } } :=
  a64_line_read flags env instId ops h0 hid hne hok hgood

theorem a64_line_operands_agree (flags : Nat) (env : Env) (o : Operand) (h : OpOKA flags env o) :
    opAgrees env o (rdOpA flags env o) = true := h.eq.2

/-! non-vacuity: `ldr x0, [x1, w2 uxtw 2]` (id 161), `ldr x0, [x1], 16`, `b.eq L0` shaped lines on a concrete environment -/
def envLA : Env := { arch := .a64, labels := some [], vregs := none }
def memLA : A64Mem := { base := .reg 6 1, index := some (5, 2), shiftOp := 8, shift := 2, off := 0, mode := 0, home := false }

open AsmjitVerif.Lemmas.FormatA64Mem in
theorem memLA_wf : WFA64Mem envLA memLA where
  base := a64_phys_regOK envLA rfl 6 1 "x1".toList (by decide +kernel)
  index := a64_phys_regOK envLA rfl 5 2 "w2".toList (by decide +kernel)
  form := Or.inr (Or.inl ⟨by decide, by decide, by decide, by decide, by decide⟩)

example : a64FormatInstruction 0 envLA 161 [.reg 6 0 0 none, .a64mem memLA] = "ldr x0, [x1, w2 uxtw 2]".toList := by decide +kernel
example : (parseA64Inst envLA (a64FormatInstruction 0 envLA (161 + 2 * 134217728) [.reg 6 0 0 none, .a64mem memLA])).map
    (fun p => (p.mnemonic, p.cond, p.ops.length)) = some ("ldr".toList, some "eq".toList, 2) := by decide +kernel

example : a64FormatOperand 0 envLA (.reg 11 1 3 (some 1)) = "v1.4s[1]".toList ∧ a64FormatOperand 0 envLA (.reg 10 2 1 none) = "v2.8b".toList := by
  decide +kernel
example : monOperand envLA (.reg 11 1 3 (some 1)) (formatOperand 0 envLA (.reg 11 1 3 (some 1))) = true := by decide +kernel

end AsmjitVerif.Props.C20
