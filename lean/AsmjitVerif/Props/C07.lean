/-
C07 — prolog/epilog preserve callee-saved state and keep frame areas disjoint.

Part 1 (`finalize_layout`): for EVERY frame handed to `FuncFrame::finalize` (any masks, sizes, flags; the
side conditions are: power-of-two alignments, no 32-bit wrap) the reported areas
  call area | local area | extra-register save area | DA slot | push/pop save area | return address
are ordered (hence pairwise disjoint), aligned as promised, and the stack-argument offset is the frame size
plus the return address.
-/
import AsmjitVerif.Lemmas.FrameArith
import AsmjitVerif.Lemmas.FrameX86WF
import AsmjitVerif.Lemmas.FrameA64Items
namespace AsmjitVerif.Frame

/-- side conditions on what the user / the register allocator puts into a frame before `finalize` -/
structure LayoutIn (g : Frame) : Prop where
  kA : ∃ k, k ≤ 7 ∧ g.finalAlign = 2 ^ k
  kV : ∃ j, j ≤ 7 ∧ g.srSize 1 = 2 ^ j
  sizes : g.callSize + g.localSize ≤ 2 ^ 29
  w : 0 < g.srSize 0 ∧ g.srSize 0 ≤ 8

/-- what `finalize` promises about the numbers it reports (`l` = the finalized frame) -/
structure LayoutOut (g l : Frame) : Prop where
  callFits : g.callSize ≤ l.localOff
  localAligned : l.localOff % g.finalAlign = 0
  localFits : l.localOff + g.localSize ≤ l.xOff
  vecAligned : l.alignedVecSR = true → g.alignedVecC = true → l.xOff % g.srSize 1 = 0
  daSlot : l.daOff ≠ invalidOff → l.xOff + l.xSize ≤ l.daOff ∧ l.daOff + g.srSize 0 ≤ l.ppOff
  noDaSlot : l.daOff = invalidOff → l.xOff + l.xSize ≤ l.ppOff
  total : l.ppOff + l.ppSize = l.finalSize
  aligned : (l.xOff + l.xSize ≠ 0 ∨ l.daOff ≠ invalidOff ∨ g.hasFuncCalls = true ∨ g.retAddrSize = 0) →
              (l.finalSize + g.retAddrSize) % g.finalAlign = 0
  noPad : ¬ (l.xOff + l.xSize ≠ 0 ∨ l.daOff ≠ invalidOff ∨ g.hasFuncCalls = true ∨ g.retAddrSize = 0) →
              l.finalSize = l.ppSize
  adjPlain : g.hasDA = false → l.stackAdj = l.ppOff ∧ l.saOffSp = l.finalSize + g.retAddrSize
  adjDA : g.hasDA = true → l.stackAdj % g.finalAlign = 0 ∧ l.ppOff ≤ l.stackAdj ∧ l.stackAdj < l.ppOff + g.finalAlign
  small : l.finalSize + g.retAddrSize < 2 ^ 30 ∧ l.stackAdj < 2 ^ 30

theorem finalize_layout (g : Frame) (h : LayoutIn g) : LayoutOut g g.layout := by
  obtain ⟨k, hk, hA⟩ := h.kA
  obtain ⟨j, hj, hV⟩ := h.kV
  have hsz := h.sizes
  obtain ⟨hw0, hw8⟩ := h.w
  have hpk : 2 ^ k ≤ 128 := by
    have : 2 ^ k ≤ 2 ^ 7 := Nat.pow_le_pow_right (by omega) hk
    omega
  have hpj : 2 ^ j ≤ 128 := by
    have : 2 ^ j ≤ 2 ^ 7 := Nat.pow_le_pow_right (by omega) hj
    omega
  have hpk0 : 0 < 2 ^ k := Nat.two_pow_pos k
  have hpj0 : 0 < 2 ^ j := Nat.two_pow_pos j
  have hpp : g.ppSizeC < 2 ^ 16 := by unfold Frame.ppSizeC u16; exact Nat.mod_lt _ (by omega)
  have hxs : g.xSizeC < 2 ^ 16 := by unfold Frame.xSizeC u16; exact Nat.mod_lt _ (by omega)
  have hras : g.retAddrSize ≤ 8 := by unfold Frame.retAddrSize; split <;> omega
  -- local offset
  have hLO : g.localOffC = alignUp g.callSize (2 ^ k) := by
    unfold Frame.localOffC u32; rw [hA, Nat.zero_add, Nat.mod_eq_of_lt (by omega)]
  obtain ⟨lo1, lo2, lo3⟩ := alignUp_spec g.callSize k (by omega) (by omega)
  rw [← hLO] at lo1 lo2 lo3
  -- extra save offset
  have hXO : g.xOffC = if g.alignedVecC then alignUp (g.localOffC + g.localSize) (2 ^ j) else g.localOffC + g.localSize := by
    unfold Frame.xOffC u32; rw [hV, Nat.mod_eq_of_lt (by omega)]
  obtain ⟨xo1, xo2, xo3⟩ := alignUp_spec (g.localOffC + g.localSize) j (by omega) (by omega)
  have hx1 : g.localOffC + g.localSize ≤ g.xOffC := by rw [hXO]; split <;> omega
  have hx2 : g.xOffC < g.localOffC + g.localSize + 2 ^ j := by rw [hXO]; split <;> omega
  have hx3 : g.alignedVecC = true → g.xOffC % 2 ^ j = 0 := by intro hv; rw [hXO, if_pos hv]; exact xo1
  -- DA slot
  have hDA : g.daOffC = if g.daSlotC then g.xOffC + g.xSizeC else invalidOff := by
    unfold Frame.daOffC u32; rw [Nat.mod_eq_of_lt (by omega)]
  have hVD : g.vDaC = if g.daSlotC then g.xOffC + g.xSizeC + g.srSize 0 else g.xOffC + g.xSizeC := by
    unfold Frame.vDaC Frame.regSize u32
    rw [Nat.mod_eq_of_lt (by omega : g.xOffC + g.xSizeC < 2 ^ 32)]
    split
    · rw [Nat.mod_eq_of_lt (by omega)]
    · rfl
  have hvd : g.vDaC < 2 ^ 29 + 2 ^ 17 := by rw [hVD]; split <;> omega
  -- alignment pad
  obtain ⟨pd1, pd2⟩ := alignUpDiff_spec (g.vDaC + g.ppSizeC + g.retAddrSize) k (by omega) (by omega)
  have hPO : g.ppOffC = if (g.vDaC != 0 || g.hasFuncCalls || g.retAddrSize == 0)
      then g.vDaC + alignUpDiff (g.vDaC + g.ppSizeC + g.retAddrSize) (2 ^ k) else g.vDaC := by
    unfold Frame.ppOffC u32; rw [hA]; dsimp only
    rw [Nat.mod_eq_of_lt (by omega : g.vDaC + g.ppSizeC + g.retAddrSize < 2 ^ 32)]
    split
    · rw [Nat.mod_eq_of_lt (by omega)]
    · rfl
  have hpo1 : g.vDaC ≤ g.ppOffC := by rw [hPO]; split <;> omega
  have hpo2 : g.ppOffC < g.vDaC + 2 ^ k := by rw [hPO]; split <;> omega
  have hFS : g.finalSizeC = g.ppOffC + g.ppSizeC := by
    unfold Frame.finalSizeC u32; rw [Nat.mod_eq_of_lt (by omega)]
  obtain ⟨sa1, sa2, sa3⟩ := alignUp_spec g.ppOffC k (by omega) (by omega)
  have hinv : invalidOff = 4294967295 := rfl
  refine ⟨?_, ?_, ?_, ?_, ?_, ?_, ?_, ?_, ?_, ?_, ?_, ?_⟩ <;> simp only [Frame.layout]
  · exact lo2
  · rw [hA]; exact lo1
  · exact hx1
  · intro _ hv; rw [hV]; exact hx3 hv
  · intro hne
    rw [hDA] at hne ⊢
    by_cases hd : g.daSlotC = true
    · rw [if_pos hd] at hne ⊢
      rw [hVD, if_pos hd] at hpo1
      omega
    · rw [if_neg hd] at hne; exact absurd rfl hne
  · intro he
    rw [hDA] at he
    by_cases hd : g.daSlotC = true
    · rw [if_pos hd] at he; omega
    · rw [hVD, if_neg hd] at hpo1; exact hpo1
  · exact hFS.symm
  · intro hc
    rw [hFS, hA]
    have hcond : (g.vDaC != 0 || g.hasFuncCalls || g.retAddrSize == 0) = true := by
      rcases hc with hc | hc | hc | hc
      · have : g.vDaC ≠ 0 := by rw [hVD]; split <;> omega
        simp [this]
      · rw [hDA] at hc
        by_cases hd : g.daSlotC = true
        · have : g.vDaC ≠ 0 := by rw [hVD, if_pos hd]; omega
          simp [this]
        · rw [if_neg hd] at hc; exact absurd rfl hc
      · simp [hc]
      · simp [hc]
    rw [hPO, if_pos hcond]
    have : g.vDaC + alignUpDiff (g.vDaC + g.ppSizeC + g.retAddrSize) (2 ^ k) + g.ppSizeC + g.retAddrSize
         = g.vDaC + g.ppSizeC + g.retAddrSize + alignUpDiff (g.vDaC + g.ppSizeC + g.retAddrSize) (2 ^ k) := by omega
    rw [this]; exact pd1
  · intro hc
    have h1 : g.xOffC + g.xSizeC = 0 := by
      apply Classical.byContradiction; intro hne; exact hc (Or.inl hne)
    have h2 : g.daOffC = invalidOff := by
      apply Classical.byContradiction; intro hne; exact hc (Or.inr (Or.inl hne))
    have h3 : g.hasFuncCalls = false := by
      cases hf : g.hasFuncCalls with
      | false => rfl
      | true => exact absurd (Or.inr (Or.inr (Or.inl hf))) hc
    have h4 : g.retAddrSize ≠ 0 := fun he => hc (Or.inr (Or.inr (Or.inr he)))
    have hd : ¬ (g.daSlotC = true) := by
      intro hd; rw [hDA, if_pos hd] at h2; omega
    have hv0 : g.vDaC = 0 := by rw [hVD, if_neg hd]; exact h1
    have hcond : (g.vDaC != 0 || g.hasFuncCalls || g.retAddrSize == 0) = false := by
      simp [hv0, h3, h4]
    rw [hFS, hPO, hcond]
    simp [hv0]
  · intro hda
    unfold Frame.stackAdjC Frame.saOffSpC
    simp only [hda]
    refine ⟨by simp, ?_⟩
    unfold Frame.retAddrSize Frame.regSize u32
    simp only [Bool.false_eq_true, if_false]
    split
    · simp
    · rw [Nat.mod_eq_of_lt (by omega)]
  · intro hda
    unfold Frame.stackAdjC
    simp only [hda, if_true]
    rw [hA]
    exact ⟨sa1, sa2, sa3⟩
  · refine ⟨by omega, ?_⟩
    unfold Frame.stackAdjC
    split
    · rw [hA]; omega
    · omega

/-- the same for `FuncFrame::finalize` as a whole (its first part only touches dirty masks and register ids) -/
theorem finalize_layout_full (f : Frame) (h : LayoutIn f) : LayoutOut f.fin1 f.finalize :=
  finalize_layout f.fin1 ⟨h.kA, h.kV, h.sizes, h.w⟩

/-- non-vacuity: a SysV frame with locals, calls and alignment 32 satisfies the side conditions … -/
def exFrame : Frame :=
  (((Frame.init ((initCallConv .x64 0 false).get (by decide)) (tbl4 0xF008 0 0 0) 0).setLocalSize 100).setLocalAlign 32).setCallSize 40
example : LayoutIn exFrame :=
  ⟨⟨5, by decide, by decide⟩, ⟨4, by decide, by decide⟩, by decide, by decide⟩
/-- … and the numbers are the expected ones (local area at 64, DA slot at 164, 6 pushes, aligned adjustment) -/
example : (exFrame.finalize.localOff, exFrame.finalize.daOff, exFrame.finalize.ppSize, exFrame.finalize.stackAdj) = (64, 164, 48, 224) := by decide

/-!
Part 2 (x86-32 / x86-64): `prolog ; any confined body ; epilog` on the stack machine.

`X86In` lists what an x86 calling convention and the user put into a frame before `finalize`
(register sizes of the convention, preserved GP mask below bit 16 with `sp` clear - the frame pointer need not
be preserved by the convention, fixes/C07-5 -, any attribute bits incl. a stale kAlignedVecSR, fixes/C07-6, minimum dynamic alignment = 2 x natural alignment, SA register unset or a real GP register).
`x86_wf_of_finalize` derives the well-formedness facts `X86WF` for the finalized frame, and
`x86_prolog_body_epilog` is the property itself for EVERY such frame, EVERY entry state the convention
allows and EVERY body confined to the declared areas.
-/

structure X86In (g : Frame) : Prop where
  arch : g.arch = .x86 ∨ g.arch = .x64
  sr0 : g.srSize 0 = g.arch.W ∧ g.srAlign 0 = g.arch.W
  sr1 : g.srSize 1 = 16 ∧ g.srAlign 1 = 16
  sr2 : g.srSize 2 = 8 ∧ g.srAlign 2 = 8
  sr3 : g.srSize 3 = 8 ∧ g.srAlign 3 = 8
  pres16 : g.preserved 0 < 2 ^ 16
  presSp : (g.preserved 0).testBit 4 = false
  nat : g.natAlign ≤ g.finalAlign ∧ g.minDynAlign = 2 * g.natAlign ∧ ∃ n, g.natAlign = 2 ^ n
  sa : g.saRegId = 0xFF ∨ g.saRegId < 16

theorem x86_wf_of_finalize (g : Frame) (hin : LayoutIn g) (hx : X86In g) : X86WF g.finalize := by
  have lay := finalize_layout_full g hin
  obtain ⟨k, hk, hA⟩ := hin.kA
  have hW : g.arch.W = 4 ∨ g.arch.W = 8 := by rcases hx.arch with h | h <;> simp [h, Arch.W]
  have hsp : g.arch.spId = 4 := by rcases hx.arch with h | h <;> simp [h, Arch.spId]
  have hfpid : g.arch.fpId = 5 := by rcases hx.arch with h | h <;> simp [h, Arch.fpId]
  have hlr : g.arch.lrId = none := by rcases hx.arch with h | h <;> simp [h, Arch.lrId]
  have hpk : 2 ^ k ≤ 128 := by
    have : 2 ^ k ≤ 2 ^ 7 := Nat.pow_le_pow_right (by omega) hk
    omega
  obtain ⟨s0a, s0b⟩ := hx.sr0
  obtain ⟨s1a, s1b⟩ := hx.sr1
  obtain ⟨s2a, s2b⟩ := hx.sr2
  obtain ⟨s3a, s3b⟩ := hx.sr3
  have hras : g.fin1.retAddrSize = g.arch.W := by
    unfold Frame.retAddrSize; simp only [Frame.fin1, hlr]; exact s0a
  -- the SA register chosen by finalize
  have hsaC : g.saC < 16 ∧ (g.hasDA = true → g.saC ≠ 4) := by
    unfold Frame.saC
    simp only [hsp, hfpid]
    rcases hx.sa with h | h
    · rw [h]; simp only [if_true]
      cases g.hasDA <;> simp
    · have h255 : g.saRegId ≠ 255 := by omega
      rw [if_neg h255]
      by_cases h4 : g.saRegId = 4
      · rw [h4]; cases g.hasDA <;> simp
      · have : ¬ (g.hasDA = true ∧ g.saRegId = 4) := fun hh => h4 hh.2
        rw [if_neg this]
        exact ⟨h, fun _ => h4⟩
  have hsaId : g.fin1.saRegId = g.saC := Nat.mod_eq_of_lt (by omega)
  -- dirty bits set by finalize
  have hd0 : g.fin1.dirty 0 = u32 g.dirty0C := rfl
  have hdirty5 : g.hasFP = true → (g.fin1.dirty 0).testBit 5 = true := by
    intro hfp
    rw [hd0, tb_u32 _ 5 (by omega)]
    unfold Frame.dirty0C
    simp only [hsp, hfpid, hlr, hfp, if_true]
    split
    · apply tb_or_left; apply tb_or_left; exact tb_or_bit _ 5
    · apply tb_or_left; exact tb_or_bit _ 5
  have hdirtySa : g.saC ≠ 4 → (g.fin1.dirty 0).testBit g.saC = true := by
    intro hne
    rw [hd0, tb_u32 _ _ (by omega)]
    unfold Frame.dirty0C
    simp only [hsp]
    rw [if_pos hne]
    exact tb_or_bit _ _
  -- save-area sizes
  have hn (gi : Nat) : g.fin1.nSaved gi ≤ 32 := nSaved_le _ _
  have hgs (gi j : Nat) (hj : j ≤ 4) (h1 : g.srSize gi = 2 ^ j) (h2 : g.srAlign gi = 2 ^ j) :
      g.fin1.groupSaveSize gi = g.fin1.nSaved gi * 2 ^ j := by
    have hpj : 2 ^ j ≤ 16 := by
      have : 2 ^ j ≤ 2 ^ 4 := Nat.pow_le_pow_right (by omega) hj
      omega
    have hnn := hn gi
    have hb : g.fin1.nSaved gi * 2 ^ j ≤ 32 * 16 := Nat.mul_le_mul hnn hpj
    unfold Frame.groupSaveSize popcnt32
    show alignUp (u32 (g.fin1.nSaved gi * g.srSize gi)) (g.srAlign gi) = _
    rw [h1, h2]
    have : u32 (g.fin1.nSaved gi * 2 ^ j) = g.fin1.nSaved gi * 2 ^ j := Nat.mod_eq_of_lt (by omega)
    rw [this]
    exact alignUp_mul _ j (by omega) (by omega)
  have hg0 : g.fin1.groupSaveSize 0 = g.arch.W * g.fin1.nSaved 0 := by
    rcases hW with h | h
    · rw [hgs 0 2 (by omega) (by rw [s0a, h]) (by rw [s0b, h]), h, Nat.mul_comm]
    · rw [hgs 0 3 (by omega) (by rw [s0a, h]) (by rw [s0b, h]), h, Nat.mul_comm]
  have hg1 : g.fin1.groupSaveSize 1 = 16 * g.fin1.nSaved 1 := by
    rw [hgs 1 4 (by omega) (by rw [s1a]) (by rw [s1b]), Nat.mul_comm]
  have hg2 : g.fin1.groupSaveSize 2 = 8 * g.fin1.nSaved 2 := by
    rw [hgs 2 3 (by omega) (by rw [s2a]) (by rw [s2b]), Nat.mul_comm]
  have hg3 : g.fin1.groupSaveSize 3 = 8 * g.fin1.nSaved 3 := by
    rw [hgs 3 3 (by omega) (by rw [s3a]) (by rw [s3b]), Nat.mul_comm]
  have hpp : g.fin1.ppSizeC = g.arch.W * g.fin1.nSaved 0 := by
    have h0 := hn 0
    have hb : g.arch.W * g.fin1.nSaved 0 ≤ 8 * 32 := Nat.mul_le_mul (by omega) h0
    unfold Frame.ppSizeC Frame.saveSizeSum u16 u32
    rw [range4]
    have ha : ∀ gi, hasPushPop g.fin1.arch gi = decide (gi = 0) := by
      intro gi; show hasPushPop g.arch gi = _
      rcases hx.arch with h | h <;> rw [h] <;> rfl
    simp [List.foldl, ha, hg0]
    omega
  have hxs : g.fin1.xSizeC = 16 * g.fin1.nSaved 1 + 8 * g.fin1.nSaved 2 + 8 * g.fin1.nSaved 3 := by
    have h1 := hn 1
    have h2 := hn 2
    have h3 := hn 3
    unfold Frame.xSizeC Frame.saveSizeSum u16 u32
    rw [range4]
    have ha : ∀ gi, hasPushPop g.fin1.arch gi = decide (gi = 0) := by
      intro gi; show hasPushPop g.arch gi = _
      rcases hx.arch with h | h <;> rw [h] <;> rfl
    simp [List.foldl, ha, hg1, hg2, hg3]
    omega
  -- attribute bits: finalize only recomputes kAlignedVecSR (bit 6)
  have hattr : ∀ i, i < 32 → i ≠ 6 → g.finalize.attrs.testBit i = g.attrs.testBit i := by
    intro i hi32 hi
    show (if g.fin1.alignedVecC then g.attrs ||| 0x40 else g.attrs &&& (2 ^ 32 - 1 - 0x40)).testBit i = _
    split
    · exact attrs_or40 _ i hi
    · exact attrs_clear40 _ i hi32 hi
  have hfp : g.finalize.hasFP = g.hasFP := hattr 4 (by omega) (by omega)
  have hcalls : g.finalize.hasFuncCalls = g.hasFuncCalls := hattr 5 (by omega) (by omega)
  have hav : g.finalize.alignedVecSR = g.fin1.alignedVecC := by
    show (if g.fin1.alignedVecC then g.attrs ||| 0x40 else g.attrs &&& (2 ^ 32 - 1 - 0x40)).testBit 6 = _
    cases h : g.fin1.alignedVecC with
    | true => simp only [if_true]; rw [Nat.testBit_or]; simp; exact Or.inr (by decide)
    | false => simp only [Bool.false_eq_true, if_false]; exact attrs_clear40_6 _
  obtain ⟨hp16, hp4, hp5⟩ := preserved0C_x86 g hfpid hlr hx.pres16 hx.presSp
  have hpres0 : g.fin1.preserved 0 = g.preserved0C := rfl
  have hdaOff : g.finalize.daOff = if g.fin1.daSlotC then u32 (g.fin1.xOffC + g.fin1.xSizeC) else invalidOff := rfl
  have hsmall := lay.small
  rw [hras] at hsmall
  have hinv : invalidOff = 4294967295 := rfl
  have hdaIff : g.finalize.daOff ≠ invalidOff ↔ (g.hasDA = true ∧ g.hasFP = false) := by
    have hslot : g.fin1.daSlotC = (g.hasDA && !g.hasFP) := rfl
    rw [hdaOff, hslot]
    constructor
    · intro h
      cases h1 : g.hasDA <;> cases h2 : g.hasFP <;> simp_all
    · rintro ⟨h1, h2⟩
      intro hbad
      have h3 := lay.noDaSlot (by rw [hdaOff, hslot]; exact hbad)
      have h4 := lay.total
      have e1 : g.finalize.xOff = g.fin1.xOffC := rfl
      have e2 : g.finalize.xSize = g.fin1.xSizeC := rfl
      rw [e1, e2] at h3
      simp only [h1, h2, Bool.not_false, Bool.and_self, if_true] at hbad
      unfold u32 at hbad
      rw [Nat.mod_eq_of_lt (by omega)] at hbad
      omega
  exact {
    arch := hx.arch
    kA := ⟨k, hk, hA⟩
    gp16 := by
      show g.fin1.dirty 0 &&& g.fin1.preserved 0 < _
      rw [hpres0]; exact Nat.lt_of_le_of_lt Nat.and_le_right hp16
    noSp := by
      show (g.fin1.dirty 0 &&& g.fin1.preserved 0).testBit 4 = false
      rw [hpres0, Nat.testBit_and, hp4, Bool.and_false]
    fpSaved := fun h => by
      rw [hfp] at h
      show (g.fin1.dirty 0 &&& g.fin1.preserved 0).testBit 5 = true
      rw [hpres0, Nat.testBit_and, hdirty5 h, hp5 h]; rfl
    ppSize := hpp
    xSize := hxs
    keep := ⟨s1a, s2a, s3a⟩
    localFits := lay.localFits
    da := fun h => by
      have := lay.daSlot h
      rw [show g.fin1.srSize 0 = g.arch.W from s0a] at this
      exact this
    noDa := lay.noDaSlot
    daIff := by rw [hfp]; exact hdaIff
    total := lay.total
    adjPlain := fun h => by
      have := lay.adjPlain h
      rw [hras] at this; exact this
    adjDA := fun h => by
      obtain ⟨a1, a2, a3⟩ := lay.adjDA h
      refine ⟨a1, a2, ?_, a3⟩
      show g.fin1.saOffSpC = invalidOff
      unfold Frame.saOffSpC
      have : g.fin1.hasDA = true := h
      simp only [this, if_true]
    aligned := fun hu => by
      have := lay.aligned (by
        unfold Frame.usesStack at hu
        rw [hcalls] at hu
        simp only [Bool.or_eq_true, bne_iff_ne, ne_eq] at hu
        rcases hu with (hu | hu) | hu
        · exact Or.inr (Or.inr (Or.inl hu))
        · exact Or.inl hu
        · exact Or.inr (Or.inl hu))
      rw [hras] at this; exact this
    vecAligned := fun hv => by
      rw [hav] at hv
      have hv' := hv
      unfold Frame.alignedVecC at hv'
      simp only [Bool.and_eq_true, decide_eq_true_eq, bne_iff_ne, ne_eq] at hv'
      obtain ⟨v1, v2⟩ := hv'
      have hx16 := lay.vecAligned (by rw [hav]; exact hv) hv
      rw [show g.fin1.srSize 1 = 16 from s1a] at hx16 v1
      refine ⟨hx16, ?_, ?_⟩
      · show 16 ∣ g.finalAlign
        rw [hA]
        have : g.fin1.finalAlign = 2 ^ k := hA
        rw [this] at v1
        exact pow2_dvd_of_le 4 k v1
      · unfold Frame.usesStack
        have : g.finalize.xSize = g.fin1.xSizeC := rfl
        simp only [Bool.or_eq_true, bne_iff_ne, ne_eq]
        left; right
        rw [this]; omega
    noDaNat := fun h => by
      obtain ⟨n1, n2, n, n3⟩ := hx.nat
      show g.finalAlign = g.natAlign
      have hda : g.hasDA = false := h
      unfold Frame.hasDA at hda
      simp only [decide_eq_false_iff_not, Nat.not_le] at hda
      rw [n2, hA, n3] at hda
      rw [hA, n3] at n1
      rw [hA, n3, pow2_between n k n1 hda]
    small := hsmall
    saValid := by
      show g.fin1.saRegId ≠ 255
      rw [hsaId]; omega
    saDA := fun h => by
      show g.fin1.saRegId ≠ 4
      rw [hsaId]; exact hsaC.2 h
    saDirty := fun h => by
      have h' : g.fin1.saRegId ≠ 4 := h
      rw [hsaId] at h'
      show (g.fin1.dirty 0).testBit g.fin1.saRegId = true
      rw [hsaId]; exact hdirtySa h'
    saOffSa := by
      rw [hfp]
      show g.fin1.saOffSaC = (if g.hasFP = true then 2 * g.arch.W else g.arch.W + g.fin1.ppSizeC)
      unfold Frame.saOffSaC Frame.regSize
      rw [show g.fin1.arch.lrId = none from hlr, Option.isNone_none, Bool.and_true]
      rw [hras, show g.fin1.hasFP = g.hasFP from rfl, show g.fin1.srSize 0 = g.arch.W from s0a]
      have hb : g.fin1.ppSizeC < 2 ^ 16 := by unfold Frame.ppSizeC u16; exact Nat.mod_lt _ (by omega)
      cases g.hasFP with
      | true => rcases hW with h | h <;> simp [u32, h]
      | false =>
        simp only [Bool.false_eq_true, if_false]; unfold u32; rw [Nat.mod_eq_of_lt (by omega)]
  }

/-- **C07 on x86-32 / x86-64.** For every frame `g` handed to `finalize` (side conditions `LayoutIn`,
`X86In`), every entry state allowed by the convention (return address on the stack, `sp + W` naturally
aligned, room for the frame) and EVERY body confined to the declared areas (`BodyOK`): the prolog runs without
fault, leaves the caller's memory (return address, arguments) untouched, gives the body the promised `sp`
alignment and the reported stack-argument offsets; the epilog then returns to the caller's return address with
`sp = entry sp + W + callee cleanup` and every callee-saved register (GP, vector, mask, mm) holding its entry
value. Covers frame pointer / no frame pointer, dynamic alignment with and without frame pointer (DA slot),
user-selected SA register, SSE/AVX save modes, callee-pops. -/
theorem x86_prolog_body_epilog (g : Frame) (hin : LayoutIn g) (hx : X86In g) (s0 : St)
    (hentry : entryOk g.finalize s0 = true)
    (hroom : g.finalize.finalSize + 2 * g.finalAlign ≤ s0.gp 4)
    (hbits : s0.gp 4 < 256 ^ g.arch.W) :
    ∃ s1, run g.arch (x86Prolog g.finalize) s0 = some s1 ∧ s1.ret = none
      ∧ bodyEntryOk g.finalize s0 s1 = true
      ∧ (∀ x, s0.gp 4 ≤ x → s1.mem x = s0.mem x)
      ∧ ∀ s2, BodyOK g.finalize (s0.gp 4) s1 s2 →
          ∃ s3, run g.arch (x86Epilog g.finalize) s2 = some s3 ∧ exitOk g.finalize s0 s3 = true ∧ s3.mem = s2.mem := by
  obtain ⟨s1, h1, h2, h3, h4, _, h6⟩ := x86_main g.finalize (x86_wf_of_finalize g hin hx) s0 hentry hroom hbits
  exact ⟨s1, h1, h2, h3, h4, h6⟩

/-- the hostile body the monitor uses is one of the bodies the theorem quantifies over -/
theorem junkBody_ok (f : Frame) (sp0 : Nat) (s1 : St) (h : s1.ret = none) : BodyOK f sp0 s1 (junkBody f sp0 s1) := by
  refine ⟨?_, ?_, ?_, ?_, h⟩
  · simp only [junkBody]
    have : f.bodyMayWrite 0 f.arch.spId = false := by simp [Frame.bodyMayWrite]
    rw [this]; rfl
  · intro a h1 h2
    simp only [junkBody]
    rw [if_neg (by omega), if_neg h2]
  · intro r hr
    simp only [junkBody, hr]; rfl
  · intro g r hg hr
    simp only [junkBody, hr]; simp

/-- every built-in x86 calling convention yields a frame satisfying the static part of `X86In` -/
theorem x86In_init (arch : Arch) (harch : arch = .x86 ∨ arch = .x64) (id : Nat) (win : Bool) (ci : CallConvInfo)
    (used : Nat → Nat) (arg : Nat) (h : initCallConv arch id win = some ci) :
    X86In (Frame.init ci used arg) := by
  have key : ci.arch = arch ∧ ci.srSize 0 = arch.W ∧ ci.srAlign 0 = arch.W ∧ ci.srSize 1 = 16 ∧ ci.srAlign 1 = 16
      ∧ ci.srSize 2 = 8 ∧ ci.srAlign 2 = 8 ∧ ci.srSize 3 = 8 ∧ ci.srAlign 3 = 8
      ∧ clearBit (ci.preserved 0) arch.spId < 2 ^ 16 ∧ (clearBit (ci.preserved 0) arch.spId).testBit 4 = false
      ∧ (clearBit (ci.preserved 0) arch.spId).testBit 5 = true ∧ (ci.natAlign = 4 ∨ ci.natAlign = 16) := by
    rcases harch with rfl | rfl <;> simp only [initCallConv] at h <;> (repeat' split at h) <;>
      first
      | (injection h with h; subst h; simp only [tbl4, Arch.W, Arch.spId]; decide)
      | (cases h)
  obtain ⟨k0, k1, k2, k3, k4, k5, k6, k7, k8, k9, k10, k11, k12⟩ := key
  have hnat : u8 ci.natAlign = ci.natAlign := by rcases k12 with h | h <;> rw [h] <;> rfl
  exact {
    arch := by show ci.arch = _ ∨ ci.arch = _; rw [k0]; exact harch
    sr0 := by show ci.srSize 0 = ci.arch.W ∧ ci.srAlign 0 = ci.arch.W; rw [k0]; exact ⟨k1, k2⟩
    sr1 := ⟨k3, k4⟩
    sr2 := ⟨k5, k6⟩
    sr3 := ⟨k7, k8⟩
    pres16 := by show clearBit (ci.preserved 0) ci.arch.spId < _; rw [k0]; exact k9
    presSp := by show (clearBit (ci.preserved 0) ci.arch.spId).testBit 4 = false; rw [k0]; exact k10
    nat := by
      show u8 ci.natAlign ≤ u8 ci.natAlign ∧ u8 (u32 (ci.natAlign * 2)) = 2 * u8 ci.natAlign ∧ ∃ n, u8 ci.natAlign = 2 ^ n
      rcases k12 with h | h <;> rw [h]
      · exact ⟨Nat.le_refl _, by decide, 2, by decide⟩
      · exact ⟨Nat.le_refl _, by decide, 4, by decide⟩
    sa := Or.inl rfl
  }

/-- the setters used between `init` and `finalize` keep `X86In` (alignments only grow the final alignment) -/
theorem x86In_setters (g : Frame) (hx : X86In g) (ls la cs ca : Nat) :
    X86In ((((g.setLocalSize ls).setLocalAlign la).setCallSize cs).setCallAlign ca) := by
  obtain ⟨n1, n2, n3⟩ := hx.nat
  exact { arch := hx.arch, sr0 := hx.sr0, sr1 := hx.sr1, sr2 := hx.sr2, sr3 := hx.sr3, pres16 := hx.pres16,
          presSp := hx.presSp, sa := hx.sa,
          nat := ⟨by
            show g.natAlign ≤ max3 g.natAlign (u8 ca) (u8 la)
            unfold max3; omega, n2, n3⟩ }

/-- non-vacuity: the example frame satisfies `X86In`, the SysV entry state of the monitor satisfies the entry
conditions, so `x86_prolog_body_epilog` applies to it … -/
example : X86In exFrame :=
  x86In_setters _ (x86In_init .x64 (Or.inr rfl) 0 false _ (tbl4 0xF008 0 0 0) 0 rfl) 100 32 40 0
example : entryOk exFrame.finalize (initState .x64 (0x40000000 - 8)) = true := by decide
/-- … and its prolog is the expected instruction list (dynamic alignment without frame pointer: DA slot). -/
example : x86Prolog exFrame.finalize
    = [.push 3, .push 5, .push 12, .push 13, .push 14, .push 15, .mov 5 4, .andImm 4 (-32), .sub 4 224, .stGp 4 164 5] := by
  decide

/-!
Part 3 (AArch64).  Full-strength statement (FALSE on the pinned tree, open finding C07-a64-dynalign):

    theorem a64_prolog_body_epilog : ∀ g, LayoutIn g → (AArch64 convention facts) → … same conclusion as on x86 …

The prolog / epilog of `a64emithelper.cpp` implement neither dynamic alignment nor an SA register other
than `sp`; `a64_dynalign_witness` proves the negation at the witness.  The `_partial` theorem carries the
extra hypotheses `A64In.align` (final alignment stays 16 < minimum dynamic alignment 32) and `A64In.sa`
(SA register unset or `sp`), which exclude exactly that class.
-/

structure A64In (g : Frame) : Prop where
  arch : g.arch = .a64
  sr0 : g.srSize 0 = 8 ∧ g.srAlign 0 = 16
  sr1 : (g.srSize 1 = 8 ∨ g.srSize 1 = 16) ∧ g.srAlign 1 = 16
  sr23 : g.srSize 2 = 0 ∧ g.srSize 3 = 0 ∧ g.srAlign 2 = 8 ∧ g.srAlign 3 = 1
  presSp : (g.preserved 0).testBit 31 = false
  /-- the link register is callee-saved (x29 need not be: fixes/C07-5) -/
  presLr : (g.preserved 0).testBit 30 = true
  pres23 : ∀ gi, 2 ≤ gi → g.preserved gi = 0
  nat : g.natAlign = 16 ∧ g.minDynAlign = 32 ∧ 16 ≤ g.finalAlign
  /-- SA register unset, `sp`, or any of x0 … x30 -/
  sa : g.saRegId = 0xFF ∨ g.saRegId ≤ 31
  cleanup : g.calleeCleanup = 0

theorem a64_wf_of_finalize (g : Frame) (hin : LayoutIn g) (ha : A64In g) : A64WF g.finalize := by
  have lay := finalize_layout_full g hin
  have harch := ha.arch
  obtain ⟨s0a, s0b⟩ := ha.sr0
  obtain ⟨s1a, s1b⟩ := ha.sr1
  obtain ⟨s2a, s3a, s2b, s3b⟩ := ha.sr23
  obtain ⟨hN, hM, hA16⟩ := ha.nat
  obtain ⟨k, hk7, hA⟩ := hin.kA
  have hk4 : 4 ≤ k := by
    rw [hA] at hA16
    exact (Nat.pow_le_pow_iff_right (by omega)).mp (show 2 ^ 4 ≤ 2 ^ k from hA16)
  have hsp : g.arch.spId = 31 := by rw [harch]; rfl
  have hlr : g.arch.lrId = some 30 := by rw [harch]; rfl
  have hfpid : g.arch.fpId = 29 := by rw [harch]; rfl
  have hdaDef : g.hasDA = decide (32 ≤ g.finalAlign) := by unfold Frame.hasDA; rw [hM]
  have hras : g.fin1.retAddrSize = 0 := by unfold Frame.retAddrSize; simp only [Frame.fin1, hlr]; rfl
  have hsaC : g.saC ≤ 31 ∧ (g.hasDA = true → g.saC ≠ 31) := by
    unfold Frame.saC
    simp only [hsp, hfpid]
    rcases ha.sa with h | h
    · rw [h]; simp only [if_true]
      cases g.hasDA <;> simp
    · by_cases h255 : g.saRegId = 255
      · omega
      · rw [if_neg h255]
        by_cases h31 : g.saRegId = 31
        · rw [h31]; cases g.hasDA <;> simp
        · have : ¬ (g.hasDA = true ∧ g.saRegId = 31) := fun hh => h31 hh.2
          rw [if_neg this]; exact ⟨h, fun _ => h31⟩
  have hsaId : g.fin1.saRegId = g.saC := Nat.mod_eq_of_lt (by omega)
  have hd0 : g.fin1.dirty 0 = u32 g.dirty0C := rfl
  have hdirtyFp : g.hasFP = true → (g.fin1.dirty 0).testBit 29 = true ∧ (g.fin1.dirty 0).testBit 30 = true := by
    intro hfp
    rw [hd0, tb_u32 _ 29 (by omega), tb_u32 _ 30 (by omega)]
    unfold Frame.dirty0C
    simp only [hsp, hfpid, hlr, hfp, if_true]
    split
    · exact ⟨tb_or_left _ _ _ (tb_or_left _ _ _ (tb_or_bit _ 29)), tb_or_left _ _ _ (tb_or_bit _ 30)⟩
    · exact ⟨tb_or_left _ _ _ (tb_or_bit _ 29), tb_or_bit _ 30⟩
  have hsaved (gi r : Nat) : (g.finalize.saved gi).testBit r = ((g.fin1.dirty gi).testBit r && (g.fin1.preserved gi).testBit r) := by
    show (g.fin1.dirty gi &&& g.fin1.preserved gi).testBit r = _
    rw [Nat.testBit_and]
  have hfinFP : g.finalize.hasFP = g.hasFP := by
    show (if g.fin1.alignedVecC then g.attrs ||| 0x40 else g.attrs &&& (2 ^ 32 - 1 - 0x40)).testBit 4 = _
    split
    · exact attrs_or40 _ 4 (by omega)
    · exact attrs_clear40 _ 4 (by omega) (by omega)
  -- GP preserved mask after finalize: FP and LR added when the frame pointer is preserved
  have hpres0 : g.fin1.preserved 0 = g.preserved0C := rfl
  have hp31 : g.preserved0C.testBit 31 = false := by
    unfold Frame.preserved0C
    split
    · simp only [hfpid, hlr]
      rw [tb_u32 _ 31 (by omega), Nat.testBit_or, Nat.testBit_or, ha.presSp, tb_bit, tb_bit]; rfl
    · exact ha.presSp
  have hp30 : g.preserved0C.testBit 30 = true := by
    unfold Frame.preserved0C
    split
    · simp only [hfpid, hlr]
      rw [tb_u32 _ 30 (by omega)]; exact tb_or_bit _ 30
    · exact ha.presLr
  have hp29 : g.hasFP = true → g.preserved0C.testBit 29 = true := by
    intro hfp
    unfold Frame.preserved0C
    simp only [hfp, if_true, hfpid, hlr]
    rw [tb_u32 _ 29 (by omega)]; exact tb_or_left _ _ _ (tb_or_bit _ 29)
  have hfpSaved : g.finalize.hasFP = true → (g.finalize.saved 0).testBit 29 = true ∧ (g.finalize.saved 0).testBit 30 = true := by
    intro hfp
    have hfp' : g.hasFP = true := by rw [← hfinFP]; exact hfp
    obtain ⟨d1, d2⟩ := hdirtyFp hfp'
    rw [hsaved, hsaved, d1, d2, hpres0, hp29 hfp', hp30]; exact ⟨rfl, rfl⟩
  have h31 : (g.finalize.saved 0).testBit 31 = false := by rw [hsaved, hpres0, hp31, Bool.and_false]
  obtain ⟨i1, i2, i3, i4, i5, i6, i7, i8, i9⟩ :=
    a64_items_facts g.finalize harch ⟨s0a, s0b⟩ ⟨s1a, s1b⟩ hfpSaved h31
  -- save-area sizes
  have hn0 := nSaved_le g.finalize 0
  have hn1 := nSaved_le g.finalize 1
  have hgs0 : g.fin1.groupSaveSize 0 = (g.finalize.nSaved 0 / 2) * 16 + (g.finalize.nSaved 0 % 2) * 16 := by
    unfold Frame.groupSaveSize popcnt32
    show alignUp (u32 (g.finalize.nSaved 0 * g.srSize 0)) (g.srAlign 0) = _
    rw [s0a, s0b]
    have : u32 (g.finalize.nSaved 0 * 8) = g.finalize.nSaved 0 * 8 := Nat.mod_eq_of_lt (by omega)
    rw [this, show (16 : Nat) = 2 ^ 4 by rfl, alignUp_pow2 _ 4 (by omega) (by omega)]
    omega
  have hgs1 : g.fin1.groupSaveSize 1 = (g.finalize.nSaved 1 / 2) * (g.srSize 1 * 2) + (g.finalize.nSaved 1 % 2) * 16 := by
    unfold Frame.groupSaveSize popcnt32
    show alignUp (u32 (g.finalize.nSaved 1 * g.srSize 1)) (g.srAlign 1) = _
    rw [s1b]
    rcases s1a with h | h <;> rw [h]
    · have : u32 (g.finalize.nSaved 1 * 8) = g.finalize.nSaved 1 * 8 := Nat.mod_eq_of_lt (by omega)
      rw [this, show (16 : Nat) = 2 ^ 4 by rfl, alignUp_pow2 _ 4 (by omega) (by omega)]
      omega
    · have : u32 (g.finalize.nSaved 1 * 16) = g.finalize.nSaved 1 * 16 := Nat.mod_eq_of_lt (by omega)
      rw [this, show (16 : Nat) = 2 ^ 4 by rfl, alignUp_pow2 _ 4 (by omega) (by omega)]
      omega
  have hgs2 : g.fin1.groupSaveSize 2 = 0 := by
    unfold Frame.groupSaveSize
    show alignUp (u32 (_ * g.srSize 2)) (g.srAlign 2) = 0
    rw [s2a, s2b, Nat.mul_zero]; decide
  have hgs3 : g.fin1.groupSaveSize 3 = 0 := by
    unfold Frame.groupSaveSize
    show alignUp (u32 (_ * g.srSize 3)) (g.srAlign 3) = 0
    rw [s3a, s3b, Nat.mul_zero]; decide
  have hpush : ∀ gi, hasPushPop g.fin1.arch gi = (decide (gi = 0) || decide (gi = 1)) := by
    intro gi; show hasPushPop g.arch gi = _; rw [harch]; rfl
  have hs1b : g.srSize 1 * 2 ≤ 32 := by rcases s1a with h | h <;> omega
  have hb1 : g.finalize.nSaved 1 / 2 * (g.srSize 1 * 2) ≤ 16 * 32 :=
    Nat.mul_le_mul (by omega) hs1b
  have hpp : g.finalize.ppSize = a64Total g.finalize := by
    show g.fin1.ppSizeC = _
    rw [i1, show g.finalize.srSize 1 = g.srSize 1 from rfl]
    unfold Frame.ppSizeC Frame.saveSizeSum u16 u32
    rw [range4]
    simp only [List.foldl, hpush, hgs0, hgs1]
    generalize g.finalize.nSaved 1 / 2 * (g.srSize 1 * 2) = X at hb1 ⊢
    simp
    omega
  have hxs : g.finalize.xSize = 0 := by
    show g.fin1.xSizeC = 0
    unfold Frame.xSizeC Frame.saveSizeSum u16 u32
    rw [range4]
    simp [List.foldl, hpush, hgs2, hgs3]
  have hpp16 : g.finalize.ppSize % 16 = 0 := by
    rw [hpp, i1]
    rcases s1a with h | h <;> rw [show g.finalize.srSize 1 = g.srSize 1 from rfl, h] <;> omega
  have hdaOffDef : g.finalize.daOff = if g.fin1.daSlotC then u32 (g.fin1.xOffC + g.fin1.xSizeC) else invalidOff := rfl
  have hslot : g.fin1.daSlotC = (g.hasDA && !g.hasFP) := rfl
  obtain ⟨hsm1, hsm2⟩ := lay.small
  rw [hras] at hsm1
  have hal := lay.aligned (Or.inr (Or.inr (Or.inr hras)))
  rw [hras] at hal
  have htot := lay.total
  have hinv : invalidOff = 4294967295 := rfl
  have exo : g.finalize.xOff = g.fin1.xOffC := rfl
  have exs : g.finalize.xSize = g.fin1.xSizeC := rfl
  have hxs0 : g.fin1.xSizeC = 0 := hxs
  have hdaIff : g.finalize.daOff ≠ invalidOff ↔ (g.hasDA = true ∧ g.hasFP = false) := by
    rw [hdaOffDef, hslot]
    constructor
    · intro h
      cases h1 : g.hasDA with
      | false => rw [h1] at h; exact absurd rfl h
      | true =>
        cases h2 : g.hasFP with
        | true => rw [h1, h2] at h; exact absurd rfl h
        | false => exact ⟨rfl, rfl⟩
    · rintro ⟨h1, h2⟩
      intro hbad
      have h3 := lay.noDaSlot (by rw [hdaOffDef, hslot]; exact hbad)
      rw [exo, exs] at h3
      simp only [h1, h2, Bool.not_false, Bool.and_self, if_true] at hbad
      unfold u32 at hbad
      rw [Nat.mod_eq_of_lt (by omega)] at hbad
      omega
  have hlocalPP : g.finalize.localEnd ≤ g.finalize.ppOff := by
    have h1 := lay.localFits
    show g.finalize.localOff + g.finalize.localSize ≤ g.finalize.ppOff
    have e : g.finalize.localSize = g.fin1.localSize := rfl
    by_cases hd : g.finalize.daOff = invalidOff
    · have h2 := lay.noDaSlot hd; omega
    · have h2 := lay.daSlot hd; omega
  have hkeys_mem : ∀ gi r, (gi, r) ∈ keysOf (a64Items g.finalize) ↔
      ((gi = 0 ∧ r ∈ bitsAsc (g.finalize.saved 0) 32) ∨ (gi = 1 ∧ r ∈ bitsAsc (g.finalize.saved 1) 32)) := by
    intro gi r
    rw [i5, List.mem_append, List.mem_map, List.mem_map]
    constructor
    · rintro (⟨x, hx, he⟩ | ⟨x, hx, he⟩)
      · obtain ⟨e1, e2⟩ := Prod.mk.inj he
        left; rw [← e1, ← e2]; exact ⟨rfl, (mem_a64GpIds _ hfpSaved x).mp hx⟩
      · obtain ⟨e1, e2⟩ := Prod.mk.inj he
        right; rw [← e1, ← e2]; exact ⟨rfl, hx⟩
    · rintro (⟨e1, hr⟩ | ⟨e1, hr⟩)
      · left; exact ⟨r, (mem_a64GpIds _ hfpSaved r).mpr hr, by rw [e1]⟩
      · right; exact ⟨r, hr, by rw [e1]⟩
  exact {
    arch := harch
    kA := ⟨k, hk4, hk7, hA⟩
    nat := hN
    saValid := by show g.fin1.saRegId ≤ 31; rw [hsaId]; exact hsaC.1
    saDA := fun h => by show g.fin1.saRegId ≠ 31; rw [hsaId]; exact hsaC.2 h
    saDirty := fun h => by
      have h' : g.fin1.saRegId ≠ 31 := h
      rw [hsaId] at h'
      show (g.fin1.dirty 0).testBit g.fin1.saRegId = true
      rw [hsaId, hd0, tb_u32 _ _ (by have := hsaC.1; omega)]
      unfold Frame.dirty0C
      simp only [hsp]
      rw [if_pos h']
      exact tb_or_bit _ _
    saOffSa := by
      show g.fin1.saOffSaC = g.fin1.ppSizeC
      unfold Frame.saOffSaC
      rw [show g.fin1.arch.lrId = some 30 from hlr]
      simp only [Option.isNone_some, Bool.and_false, Bool.false_eq_true, if_false]
      rw [hras, Nat.zero_add]
      unfold u32 Frame.ppSizeC u16
      have := Nat.mod_lt (g.fin1.saveSizeSum true) (show 0 < 2 ^ 16 by omega)
      rw [Nat.mod_eq_of_lt (by omega)]
    fpFirst := i9
    cleanup := ha.cleanup
    localFits := hlocalPP
    da := fun h => by
      obtain ⟨d1, d2⟩ := lay.daSlot h
      rw [show g.fin1.srSize 0 = 8 from s0a] at d2
      have h1 := lay.localFits
      refine ⟨?_, d2⟩
      show g.finalize.localOff + g.finalize.localSize ≤ g.finalize.daOff
      have e : g.finalize.localSize = g.fin1.localSize := rfl
      omega
    daIff := by rw [hfinFP]; exact hdaIff
    adjPlain := fun hnda => by
      have hnda' : g.hasDA = false := hnda
      obtain ⟨ap1, ap2⟩ := lay.adjPlain hnda'
      rw [hras] at ap2
      have hA4 : g.finalAlign = 16 := by
        rw [hdaDef] at hnda'
        simp only [decide_eq_false_iff_not, Nat.not_le] at hnda'
        rw [hA] at hnda' ⊢
        rw [pow2_between 4 k (by rw [hA] at hA16; exact hA16) (by omega)]
      have hA' : g.fin1.finalAlign = 16 := hA4
      rw [hA'] at hal
      exact ⟨ap1, by rw [ap1]; omega, by rw [ap2, Nat.add_zero], hA4⟩
    adjDA := fun hda => by
      obtain ⟨a1, a2, a3⟩ := lay.adjDA hda
      refine ⟨a1, a2, ?_, a3⟩
      show g.fin1.saOffSpC = invalidOff
      unfold Frame.saOffSpC
      have : g.fin1.hasDA = true := hda
      simp only [this, if_true]
    total := htot
    pei := ⟨hpp.symm, hpp16, hsm1, hsm2⟩
    first := fun it rest h => by
      have hoff := i4 it rest h
      have hasc := i2
      have hend := i3
      rw [h] at hasc hend
      simp only [itemsEnd] at hend
      obtain ⟨_, hasc2⟩ := hasc
      rw [hoff, Nat.zero_add] at hasc2 hend
      refine ⟨hoff, hasc2, by rw [hpp]; exact hend, (i7 it (by rw [h]; simp)).2.1⟩
    empty := fun h => by rw [hpp]; exact i8 h
    nodup := by
      rw [i5, List.nodup_append]
      refine ⟨?_, ?_, ?_⟩
      · rw [List.Nodup, List.pairwise_map]
        exact List.Pairwise.imp (fun hab h => hab (Prod.mk.inj h).2) (a64GpIds_nodup _)
      · rw [List.Nodup, List.pairwise_map]
        exact List.Pairwise.imp (fun hab h => hab (Prod.mk.inj h).2) (bitsAsc_nodup _ _)
      · intro x hx y hy
        rw [List.mem_map] at hx hy
        obtain ⟨_, _, rfl⟩ := hx
        obtain ⟨_, _, rfl⟩ := hy
        intro h; exact absurd (Prod.mk.inj h).1 (by decide)
    noSp := by
      intro h
      rcases (hkeys_mem 0 31).mp h with ⟨_, hr⟩ | ⟨h1, _⟩
      · rw [mem_bitsAsc, h31] at hr; exact absurd hr.2 (by simp)
      · exact absurd h1 (by decide)
    mv := i6
    keys := fun gi r hr => by
      rw [hkeys_mem, mem_bitsAsc, mem_bitsAsc]
      constructor
      · rintro (⟨e, _, h⟩ | ⟨e, _, h⟩) <;> subst e <;> exact ⟨by omega, h⟩
      · rintro ⟨hg, h⟩
        have : gi = 0 ∨ gi = 1 := by omega
        rcases this with e | e <;> subst e
        · exact Or.inl ⟨rfl, hr, h⟩
        · exact Or.inr ⟨rfl, hr, h⟩
    sizes := fun it hit => (i7 it hit).1
    fpMv := fun ⟨it, hit, hm⟩ => (i7 it hit).2.2 hm
    fpDirty := fun hfp => by
      have hfp' : g.hasFP = true := by rw [← hfinFP]; exact hfp
      exact (hdirtyFp hfp').1
    lrPres := hp30
    noX := fun gi hgi => by
      show g.fin1.dirty gi &&& g.fin1.preserved gi = 0
      have : g.fin1.preserved gi = g.preserved gi := by
        show (if gi = 0 then _ else g.preserved gi) = _
        rw [if_neg (by omega)]
      rw [this, ha.pres23 gi hgi, Nat.and_zero]
  }

/-- **C07 on AArch64** (full strength; with fixes/C07-8.patch the prolog / epilog implement dynamic alignment and the
SA register, so the former open finding C07-a64-dynalign is gone). For every frame handed to `finalize` under
`LayoutIn`, `A64In` (any alignment up to 128, any SA register x0 … x30 or `sp`), every entry state (`sp` 16-byte aligned,
return address in x30, room for the frame) and EVERY confined body: `stp/str` with the pre-indexed first pair, optional
`mov x29, sp`, `mov xSA, sp`, `and sp, xSA, #-align`, `sub sp` around the store to the DA slot; then `mov sp, x29` or
`add sp; ldr xSA; mov sp, xSA` or `add sp`, `ldp/ldr` in reverse with the post-indexed last pair and `ret x30`
return to the entry x30 with `sp` = entry `sp`, every callee-saved x/v register restored in the bytes the convention
declares, the promised body alignment and the stack arguments at `sa_reg + sa_offset`. -/
theorem a64_prolog_body_epilog (g : Frame) (hin : LayoutIn g) (ha : A64In g) (pro epi : List Instr)
    (hpro : a64Prolog g.finalize = some pro) (hepi : a64Epilog g.finalize = some epi) (s0 : St)
    (hentry : entryOk g.finalize s0 = true) (hroom : g.finalize.finalSize + 2 * g.finalAlign ≤ s0.gp 31)
    (hbits : s0.gp 31 < 2 ^ 64) (hlr : s0.gp 30 < 256 ^ 8) :
    ∃ s1, run .a64 pro s0 = some s1 ∧ s1.ret = none
      ∧ bodyEntryOk g.finalize s0 s1 = true
      ∧ (∀ x, s0.gp 31 ≤ x → s1.mem x = s0.mem x)
      ∧ ∀ s2, BodyOK g.finalize (s0.gp 31) s1 s2 →
          ∃ s3, run .a64 epi s2 = some s3 ∧ exitOk g.finalize s0 s3 = true ∧ s3.mem = s2.mem :=
  a64_main g.finalize (a64_wf_of_finalize g hin ha) pro epi hpro hepi s0 hentry hroom hbits hlr

/-- the witness frame of the former open finding: cdecl, x19 and v8 dirty, 100 bytes of locals aligned to 64 -/
def a64WitnessFrame : Frame :=
  (((Frame.init ((initCallConv .a64 0 false).get (by decide)) (tbl4 0x80000 0x100 0 0) 0).setLocalSize 100).setLocalAlign 64).finalize

/-- the former witness now behaves: the frame reports dynamic alignment 64 with x29 as SA register, and after the
repaired prolog `sp % 64 = 0` for the entry stack 0x40000000 and x29 + `sa_offset_from_sa` is the entry `sp` -/
theorem a64_dynalign_repaired :
    a64WitnessFrame.hasDA = true ∧ a64WitnessFrame.saRegId = 29 ∧ a64WitnessFrame.finalAlign = 64
    ∧ (run .a64 ((a64Prolog a64WitnessFrame).getD []) (initState .a64 0x40000000)).map
        (fun s1 => (s1.gp 31 % 64, s1.gp 29 + a64WitnessFrame.saOffSa)) = some (0, 0x40000000) := by
  decide

/-- every built-in AArch64 calling convention yields a frame satisfying `A64In` -/
theorem a64In_init (id : Nat) (win : Bool) (ci : CallConvInfo) (used : Nat → Nat) (arg : Nat)
    (h : initCallConv .a64 id win = some ci) : A64In (Frame.init ci used arg) := by
  have key : ci.arch = .a64 ∧ ci.srSize 0 = 8 ∧ ci.srAlign 0 = 16 ∧ (ci.srSize 1 = 8 ∨ ci.srSize 1 = 16) ∧ ci.srAlign 1 = 16
      ∧ ci.srSize 2 = 0 ∧ ci.srSize 3 = 0 ∧ ci.srAlign 2 = 8 ∧ ci.srAlign 3 = 1
      ∧ (clearBit (ci.preserved 0) 31).testBit 31 = false ∧ (clearBit (ci.preserved 0) 31).testBit 29 = true
      ∧ (clearBit (ci.preserved 0) 31).testBit 30 = true ∧ ci.preserved 2 = 0 ∧ ci.preserved 3 = 0
      ∧ (∀ gi, 4 ≤ gi → ci.preserved gi = 0) ∧ ci.natAlign = 16 ∧ ci.calleePops = false := by
    simp only [initCallConv] at h
    split at h <;> injection h with h <;> subst h <;>
      exact ⟨rfl, rfl, rfl, by decide, rfl, rfl, rfl, rfl, rfl, by decide, by decide, by decide, rfl, rfl,
        fun gi hgi => by match gi, hgi with | gi + 4, _ => rfl, rfl, rfl⟩
  obtain ⟨k0, k1, k2, k3, k4, k5, k6, k7, k8, k9, k10, k11, k12, k13, k14, k15, k16⟩ := key
  exact {
    arch := k0
    sr0 := ⟨k1, k2⟩
    sr1 := ⟨k3, k4⟩
    sr23 := ⟨k5, k6, k7, k8⟩
    presSp := by show (clearBit (ci.preserved 0) ci.arch.spId).testBit 31 = false; rw [k0]; exact k9
    presLr := by
      show (clearBit (ci.preserved 0) ci.arch.spId).testBit 30 = true
      rw [k0]; exact k11
    pres23 := fun gi hgi => by
      show (if gi = 0 then _ else ci.preserved gi) = 0
      rw [if_neg (by omega)]
      by_cases h2 : gi = 2
      · rw [h2]; exact k12
      · by_cases h3 : gi = 3
        · rw [h3]; exact k13
        · exact k14 gi (by omega)
    nat := by
      show u8 ci.natAlign = 16 ∧ u8 (u32 (ci.natAlign * 2)) = 32 ∧ 16 ≤ u8 ci.natAlign
      rw [k15]; decide
    sa := Or.inl rfl
    cleanup := by show (if ci.calleePops then _ else 0) = 0; rw [k16]; rfl
  }

/-! ### non-vacuity: both end-to-end theorems apply to concrete frames and entry states -/

/-- the hypotheses of `x86_prolog_body_epilog` are jointly satisfiable (SysV frame with dynamic alignment and
a DA slot, entry stack of the monitor), so its conclusion holds there for every confined body -/
example : ∃ s1, run .x64 (x86Prolog exFrame.finalize) (initState .x64 (0x40000000 - 8)) = some s1 ∧ s1.ret = none
    ∧ bodyEntryOk exFrame.finalize (initState .x64 (0x40000000 - 8)) s1 = true
    ∧ ∀ s2, BodyOK exFrame.finalize (0x40000000 - 8) s1 s2 →
        ∃ s3, run .x64 (x86Epilog exFrame.finalize) s2 = some s3
          ∧ exitOk exFrame.finalize (initState .x64 (0x40000000 - 8)) s3 = true := by
  obtain ⟨s1, h1, h2, h3, _, h5⟩ := x86_prolog_body_epilog exFrame
    ⟨⟨5, by decide, by decide⟩, ⟨4, by decide, by decide⟩, by decide, by decide⟩
    (x86In_setters _ (x86In_init .x64 (Or.inr rfl) 0 false _ (tbl4 0xF008 0 0 0) 0 rfl) 100 32 40 0)
    (initState .x64 (0x40000000 - 8)) (by decide) (by decide) (by decide)
  refine ⟨s1, h1, h2, h3, fun s2 hb => ?_⟩
  obtain ⟨s3, e1, e2, _⟩ := h5 s2 hb
  exact ⟨s3, e1, e2⟩

/-- an AAPCS64 frame: x19, x20, x21 and v8 dirty, preserved frame pointer, 5000 bytes of locals (two `sub`) -/
def exA64 : Frame :=
  let f := Frame.init ((initCallConv .a64 0 false).get (by decide)) (tbl4 0x380000 0x100 0 0) 0
  ({ f with attrs := 0x10 }.setLocalSize 5000).setLocalAlign 16

example : LayoutIn exA64 := ⟨⟨4, by decide, by decide⟩, ⟨3, by decide, by decide⟩, by decide, by decide⟩

example : ∃ s1, run .a64 ((a64Prolog exA64.finalize).getD []) (initState .a64 0x40000000) = some s1 ∧ s1.ret = none
    ∧ bodyEntryOk exA64.finalize (initState .a64 0x40000000) s1 = true
    ∧ ∀ s2, BodyOK exA64.finalize 0x40000000 s1 s2 →
        ∃ s3, run .a64 ((a64Epilog exA64.finalize).getD []) s2 = some s3
          ∧ exitOk exA64.finalize (initState .a64 0x40000000) s3 = true := by
  have hin : A64In exA64 := by
    have h := a64In_init 0 false _ (tbl4 0x380000 0x100 0 0) 0 rfl
    exact { arch := h.arch, sr0 := h.sr0, sr1 := h.sr1, sr23 := h.sr23, presSp := h.presSp, presLr := h.presLr,
            pres23 := h.pres23, nat := ⟨by decide, by decide, by decide⟩, sa := Or.inl rfl, cleanup := h.cleanup }
  obtain ⟨s1, h1, h2, h3, _, h5⟩ := a64_prolog_body_epilog exA64
    ⟨⟨4, by decide, by decide⟩, ⟨3, by decide, by decide⟩, by decide, by decide⟩ hin
    ((a64Prolog exA64.finalize).getD []) ((a64Epilog exA64.finalize).getD []) (by decide) (by decide)
    (initState .a64 0x40000000) (by decide) (by decide) (by decide) (by decide)
  refine ⟨s1, h1, h2, h3, fun s2 hb => ?_⟩
  obtain ⟨s3, e1, e2, _⟩ := h5 s2 hb
  exact ⟨s3, e1, e2⟩

/-- its prolog: FP/LR pair pre-indexed, `mov x29, sp` after it and after the first vector store, two `sub` -/
example : a64Prolog exA64.finalize = some
    [.stp 0 8 29 (some 30) 31 (-64) .pre, .mov 29 31, .stp 0 8 19 (some 20) 31 16 .fixed, .stp 0 8 21 none 31 32 .fixed,
     .stp 1 8 8 none 31 48 .fixed, .mov 29 31, .sub 31 (912 : Nat), .sub 31 (4096 : Nat)] := by
  decide

end AsmjitVerif.Frame
