import AsmjitVerif.Model.Frame
namespace AsmjitVerif.Frame
theorem c07_placeholder : alignUp 5 8 = 8 := by decide
end AsmjitVerif.Frame
