/-
C07 — prolog/epilog preserve callee-saved state and keep frame areas disjoint.

Part 1 (`finalize_layout`): for EVERY frame handed to `FuncFrame::finalize` (any masks, sizes, flags; the
side conditions are: power-of-two alignments, no 32-bit wrap) the reported areas
  call area | local area | extra-register save area | DA slot | push/pop save area | return address
are ordered (hence pairwise disjoint), aligned as promised, and the stack-argument offset is the frame size
plus the return address.
-/
import AsmjitVerif.Lemmas.FrameArith
namespace AsmjitVerif.Frame

/-- side conditions on what the user / the register allocator puts into a frame before `finalize` -/
structure LayoutIn (g : Frame) : Prop where
  kA : ∃ k, k ≤ 7 ∧ g.finalAlign = 2 ^ k
  kV : ∃ j, j ≤ 7 ∧ g.srSize 1 = 2 ^ j
  sizes : g.callSize + g.localSize ≤ 2 ^ 30
  w : 0 < g.srSize 0 ∧ g.srSize 0 ≤ 8

/-- what `finalize` promises about the numbers it reports (`l` = the finalized frame) -/
structure LayoutOut (g l : Frame) : Prop where
  callFits : g.callSize ≤ l.localOff
  localAligned : l.localOff % g.finalAlign = 0
  localFits : l.localOff + g.localSize ≤ l.xOff
  vecAligned : l.alignedVecSR = true → g.alignedVecC = true → l.xOff % g.srSize 1 = 0
  daSlot : l.daOff ≠ invalidOff → l.xOff + l.xSize ≤ l.daOff ∧ l.daOff + g.srSize 0 ≤ l.ppOff
  noDaSlot : l.daOff = invalidOff → l.xOff + l.xSize ≤ l.ppOff
  total : l.ppOff + l.ppSize = l.finalSize
  aligned : (l.xOff + l.xSize ≠ 0 ∨ l.daOff ≠ invalidOff ∨ g.hasFuncCalls = true ∨ g.retAddrSize = 0) →
              (l.finalSize + g.retAddrSize) % g.finalAlign = 0
  noPad : ¬ (l.xOff + l.xSize ≠ 0 ∨ l.daOff ≠ invalidOff ∨ g.hasFuncCalls = true ∨ g.retAddrSize = 0) →
              l.finalSize = l.ppSize
  adjPlain : g.hasDA = false → l.stackAdj = l.ppOff ∧ l.saOffSp = l.finalSize + g.retAddrSize
  adjDA : g.hasDA = true → l.stackAdj % g.finalAlign = 0 ∧ l.ppOff ≤ l.stackAdj ∧ l.stackAdj < l.ppOff + g.finalAlign
  small : l.finalSize + g.retAddrSize < 2 ^ 31 ∧ l.stackAdj < 2 ^ 31

theorem finalize_layout (g : Frame) (h : LayoutIn g) : LayoutOut g g.layout := by
  obtain ⟨k, hk, hA⟩ := h.kA
  obtain ⟨j, hj, hV⟩ := h.kV
  have hsz := h.sizes
  obtain ⟨hw0, hw8⟩ := h.w
  have hpk : 2 ^ k ≤ 128 := by
    have : 2 ^ k ≤ 2 ^ 7 := Nat.pow_le_pow_right (by omega) hk
    omega
  have hpj : 2 ^ j ≤ 128 := by
    have : 2 ^ j ≤ 2 ^ 7 := Nat.pow_le_pow_right (by omega) hj
    omega
  have hpk0 : 0 < 2 ^ k := Nat.two_pow_pos k
  have hpj0 : 0 < 2 ^ j := Nat.two_pow_pos j
  have hpp : g.ppSizeC < 2 ^ 16 := by unfold Frame.ppSizeC u16; exact Nat.mod_lt _ (by omega)
  have hxs : g.xSizeC < 2 ^ 16 := by unfold Frame.xSizeC u16; exact Nat.mod_lt _ (by omega)
  have hras : g.retAddrSize ≤ 8 := by unfold Frame.retAddrSize; split <;> omega
  -- local offset
  have hLO : g.localOffC = alignUp g.callSize (2 ^ k) := by
    unfold Frame.localOffC u32; rw [hA, Nat.zero_add, Nat.mod_eq_of_lt (by omega)]
  obtain ⟨lo1, lo2, lo3⟩ := alignUp_spec g.callSize k (by omega) (by omega)
  rw [← hLO] at lo1 lo2 lo3
  -- extra save offset
  have hXO : g.xOffC = if g.alignedVecC then alignUp (g.localOffC + g.localSize) (2 ^ j) else g.localOffC + g.localSize := by
    unfold Frame.xOffC u32; rw [hV, Nat.mod_eq_of_lt (by omega)]
  obtain ⟨xo1, xo2, xo3⟩ := alignUp_spec (g.localOffC + g.localSize) j (by omega) (by omega)
  have hx1 : g.localOffC + g.localSize ≤ g.xOffC := by rw [hXO]; split <;> omega
  have hx2 : g.xOffC < g.localOffC + g.localSize + 2 ^ j := by rw [hXO]; split <;> omega
  have hx3 : g.alignedVecC = true → g.xOffC % 2 ^ j = 0 := by intro hv; rw [hXO, if_pos hv]; exact xo1
  -- DA slot
  have hDA : g.daOffC = if g.daSlotC then g.xOffC + g.xSizeC else invalidOff := by
    unfold Frame.daOffC u32; rw [Nat.mod_eq_of_lt (by omega)]
  have hVD : g.vDaC = if g.daSlotC then g.xOffC + g.xSizeC + g.srSize 0 else g.xOffC + g.xSizeC := by
    unfold Frame.vDaC Frame.regSize u32
    rw [Nat.mod_eq_of_lt (by omega : g.xOffC + g.xSizeC < 2 ^ 32)]
    split
    · rw [Nat.mod_eq_of_lt (by omega)]
    · rfl
  have hvd : g.vDaC < 2 ^ 30 + 2 ^ 17 := by rw [hVD]; split <;> omega
  -- alignment pad
  obtain ⟨pd1, pd2⟩ := alignUpDiff_spec (g.vDaC + g.ppSizeC + g.retAddrSize) k (by omega) (by omega)
  have hPO : g.ppOffC = if (g.vDaC != 0 || g.hasFuncCalls || g.retAddrSize == 0)
      then g.vDaC + alignUpDiff (g.vDaC + g.ppSizeC + g.retAddrSize) (2 ^ k) else g.vDaC := by
    unfold Frame.ppOffC u32; rw [hA]; dsimp only
    rw [Nat.mod_eq_of_lt (by omega : g.vDaC + g.ppSizeC + g.retAddrSize < 2 ^ 32)]
    split
    · rw [Nat.mod_eq_of_lt (by omega)]
    · rfl
  have hpo1 : g.vDaC ≤ g.ppOffC := by rw [hPO]; split <;> omega
  have hpo2 : g.ppOffC < g.vDaC + 2 ^ k := by rw [hPO]; split <;> omega
  have hFS : g.finalSizeC = g.ppOffC + g.ppSizeC := by
    unfold Frame.finalSizeC u32; rw [Nat.mod_eq_of_lt (by omega)]
  obtain ⟨sa1, sa2, sa3⟩ := alignUp_spec g.ppOffC k (by omega) (by omega)
  have hinv : invalidOff = 4294967295 := rfl
  refine ⟨?_, ?_, ?_, ?_, ?_, ?_, ?_, ?_, ?_, ?_, ?_, ?_⟩ <;> simp only [Frame.layout]
  · exact lo2
  · rw [hA]; exact lo1
  · exact hx1
  · intro _ hv; rw [hV]; exact hx3 hv
  · intro hne
    rw [hDA] at hne ⊢
    by_cases hd : g.daSlotC = true
    · rw [if_pos hd] at hne ⊢
      rw [hVD, if_pos hd] at hpo1
      omega
    · rw [if_neg hd] at hne; exact absurd rfl hne
  · intro he
    rw [hDA] at he
    by_cases hd : g.daSlotC = true
    · rw [if_pos hd] at he; omega
    · rw [hVD, if_neg hd] at hpo1; exact hpo1
  · exact hFS.symm
  · intro hc
    rw [hFS, hA]
    have hcond : (g.vDaC != 0 || g.hasFuncCalls || g.retAddrSize == 0) = true := by
      rcases hc with hc | hc | hc | hc
      · have : g.vDaC ≠ 0 := by rw [hVD]; split <;> omega
        simp [this]
      · rw [hDA] at hc
        by_cases hd : g.daSlotC = true
        · have : g.vDaC ≠ 0 := by rw [hVD, if_pos hd]; omega
          simp [this]
        · rw [if_neg hd] at hc; exact absurd rfl hc
      · simp [hc]
      · simp [hc]
    rw [hPO, if_pos hcond]
    have : g.vDaC + alignUpDiff (g.vDaC + g.ppSizeC + g.retAddrSize) (2 ^ k) + g.ppSizeC + g.retAddrSize
         = g.vDaC + g.ppSizeC + g.retAddrSize + alignUpDiff (g.vDaC + g.ppSizeC + g.retAddrSize) (2 ^ k) := by omega
    rw [this]; exact pd1
  · intro hc
    have h1 : g.xOffC + g.xSizeC = 0 := by
      apply Classical.byContradiction; intro hne; exact hc (Or.inl hne)
    have h2 : g.daOffC = invalidOff := by
      apply Classical.byContradiction; intro hne; exact hc (Or.inr (Or.inl hne))
    have h3 : g.hasFuncCalls = false := by
      cases hf : g.hasFuncCalls with
      | false => rfl
      | true => exact absurd (Or.inr (Or.inr (Or.inl hf))) hc
    have h4 : g.retAddrSize ≠ 0 := fun he => hc (Or.inr (Or.inr (Or.inr he)))
    have hd : ¬ (g.daSlotC = true) := by
      intro hd; rw [hDA, if_pos hd] at h2; omega
    have hv0 : g.vDaC = 0 := by rw [hVD, if_neg hd]; exact h1
    have hcond : (g.vDaC != 0 || g.hasFuncCalls || g.retAddrSize == 0) = false := by
      simp [hv0, h3, h4]
    rw [hFS, hPO, hcond]
    simp [hv0]
  · intro hda
    unfold Frame.stackAdjC Frame.saOffSpC
    simp only [hda]
    refine ⟨by simp, ?_⟩
    unfold Frame.retAddrSize Frame.regSize u32
    simp only [Bool.false_eq_true, if_false]
    split
    · simp
    · rw [Nat.mod_eq_of_lt (by omega)]
  · intro hda
    unfold Frame.stackAdjC
    simp only [hda, if_true]
    rw [hA]
    exact ⟨sa1, sa2, sa3⟩
  · refine ⟨by omega, ?_⟩
    unfold Frame.stackAdjC
    split
    · rw [hA]; omega
    · omega

/-- the same for `FuncFrame::finalize` as a whole (its first part only touches dirty masks and register ids) -/
theorem finalize_layout_full (f : Frame) (h : LayoutIn f) : LayoutOut f.fin1 f.finalize :=
  finalize_layout f.fin1 ⟨h.kA, h.kV, h.sizes, h.w⟩

/-- non-vacuity: a SysV frame with locals, calls and alignment 32 satisfies the side conditions … -/
def exFrame : Frame :=
  (((Frame.init ((initCallConv .x64 0 false).get (by decide)) (tbl4 0xF008 0 0 0) 0).setLocalSize 100).setLocalAlign 32).setCallSize 40
example : LayoutIn exFrame :=
  ⟨⟨5, by decide, by decide⟩, ⟨4, by decide, by decide⟩, by decide, by decide⟩
/-- … and the numbers are the expected ones (local area at 64, DA slot at 164, 6 pushes, aligned adjustment) -/
example : (exFrame.finalize.localOff, exFrame.finalize.daOff, exFrame.finalize.ppSize, exFrame.finalize.stackAdj) = (64, 164, 48, 224) := by decide

end AsmjitVerif.Frame
