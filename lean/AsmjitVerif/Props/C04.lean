/-
C04 — relocated code addresses its absolute targets correctly at any base address.

The arithmetic of `CodeHolder::relocate_to_base` (Model/CodeHolder.lean `relocStep`) and of the known-base paths of the
assemblers (Model/RefSite.lean `x86JmpAbs`, `a64RelAbs`), for ALL 64-bit bases, section offsets, sites and targets
(so every straddle of 2^31 / 2^32 / 2^47 / 2^63 is inside the statements).  `site` below is
`section offset + source offset + region size` (the end of the instruction) relative to the base.
The relocation loop itself is an operation of the programs C03's invariants (`unresolved_count_exact`,
`fixups_well_formed`) quantify over; the run-time meaning of every relocated reference is judged on the real image by
Spec/RefSemantics.judge (kinds jmpAbs, a64Abs, abs32, dataAbs, dataDelta).
-/
import AsmjitVerif.Props.C03
import Std.Tactic.BVDecide
namespace AsmjitVerif.CodeHolder
open AsmjitVerif.Offset

/-- **reloc_rel_correct (AbsToRel / X64AddressEntry direct form).** If the value `payload - (base + site)` passes
`is_int_n<32>`, the CPU's `end of instruction + sext(rel32)` is exactly the payload. -/
theorem abs_to_rel_reaches (base site payload : BitVec 64) :
    let v := payload - (base + site)
    isInt32 v = true → (base + site) + (v.truncate 32).signExtend 64 = payload := by
  intro v h
  simp only [isInt32, beq_iff_eq] at h
  unfold v at h ⊢
  bv_decide

/-- **reloc_unreachable_reported.** If it does not pass the test, no rel32 whatsoever reaches the payload from that site
(so RelocOffsetOutOfRange / the address-table detour is not a false alarm). -/
theorem abs_to_rel_refused_unreachable (base site payload : BitVec 64) :
    isInt32 (payload - (base + site)) = false → ∀ r : BitVec 32, (base + site) + r.signExtend 64 ≠ payload := by
  intro h r
  simp only [isInt32, beq_eq_false_iff_ne, ne_eq] at h
  bv_decide

/-- 32-bit mode: the sign-extended low word always designates the target modulo 2^32 (wrap-around is correct there) -/
theorem abs_to_rel_32bit_wraps (base site payload : BitVec 64) :
    let v := payload - (base + site)
    ((base + site) + (v.truncate 32).signExtend 64).truncate 32 = (payload.truncate 32 : BitVec 32) := by
  intro v
  unfold v
  bv_decide

/-- address-table form: the rel32 of `FF /2|/4 [rip + rel32]` reaches the slot; base-independent because site and slot
move together -/
theorem addr_table_slot_reached (base addrSrc addrDst : BitVec 64) :
    let v := addrDst - addrSrc
    isInt32 v = true → (base + addrSrc) + (v.truncate 32).signExtend 64 = base + addrDst := by
  intro v h
  simp only [isInt32, beq_iff_eq] at h
  unfold v at h ⊢
  bv_decide

/-- **known_base_equiv (x86 jmp/call/jcc).** The rel32 computed at assembly time when the base is known
(`jump_address - (ip + base + section_offset) - inst32_size`) equals the one relocation computes afterwards
(`payload - (base + section_offset + source_offset + region_size)`) whenever both describe the same instruction end:
`ip + inst32_size = source_offset + region_size`. -/
theorem known_base_equiv_x86 (base so ip inst32 srcOff region target : BitVec 64) (h : ip + inst32 = srcOff + region) :
    target - (ip + base + so) - inst32 = target - (base + so + srcOff + region) := by
  have e : target - (ip + base + so) - inst32 = target - ((ip + inst32) + (base + so)) := by
    rw [BitVec.sub_sub]; congr 1; ac_rfl
  rw [e, h]; congr 1; ac_rfl

/-- **known_base_equiv (AArch64 b/bl/b.cond/cbz/tbz/adr).** `target - pc` at assembly time equals
`(target + 4) - (base + section_offset + code_offset + 4)` at relocation time. -/
theorem known_base_equiv_a64 (base so codeOff target : BitVec 64) :
    target - (base + so + codeOff) = (target + 4#64) - (base + so + codeOff + 4#64) := by
  bv_omega

/-- **reloc_abs_correct (RelToAbs).** What the relocation writes for an embedded label address / 32-bit absolute operand
is `base + target section offset + (label offset + addend)`; the unsigned 4-byte format accepts it iff it is below 2^32
(C17 `fU4_exact` / `fU4_refused`), so a 32-bit field never silently truncates a 64-bit address. -/
theorem rel_to_abs_value (s : State) (base : BitVec 64) (acc : RelocAcc) (re : Reloc) (src tgt : Section) (t : Nat)
    (hty : re.type = .relToAbs) (hsrc : acc.secs[re.srcSec]? = some src)
    (hb : ¬ (re.srcOff ≥ src.buf.length ∨ src.buf.length - re.srcOff < re.regionSize))
    (ht : re.tgtSec = some t) (htg : acc.secs[t]? = some tgt) :
    relocStep s base acc re =
      (match (acc.secs[re.srcSec]?).bind (fun sec => writeOffset sec.buf re.srcOff (re.payload + (base + tgt.offset)) re.fmt) with
       | some buf' => .ok { acc with secs := setBuf acc.secs re.srcSec buf' }
       | none => .error .invalidRelocEntry) := by
  unfold relocStep relocPrep relocFinish
  simp [hty, hsrc, hb, ht, htg]
  cases writeOffset src.buf re.srcOff (re.payload + (base + tgt.offset)) re.fmt <;> rfl

/-- non-vacuity / worked case: x86-64 `call 0x123456789abc` assembled without a base and relocated to 0x10000 goes
through the address table: `40 E8 rel32` becomes `FF 15 rel32`, the slot holds the target, and the table (last
section) shrinks to one slot -/
example :
    let s := run (State.init .x64 noBase) [.jmpAbs .call .dflt 0x123456789abc#64, .jmpAbs .jmp .dflt 0x2000#64, .flatten, .relocate 0x10000#64]
    (s.secs[0]?.map (·.buf)) = some [0xFF#8, 0x15#8, 0x0A#8, 0#8, 0#8, 0#8, 0x40#8, 0xE9#8, 0xF4#8, 0x1F#8, 0xFF#8, 0xFF#8] ∧
    (s.secs[1]?.map (·.buf)) = some [0xBC#8, 0x9A#8, 0x78#8, 0x56#8, 0x34#8, 0x12#8, 0#8, 0#8] ∧
    (s.secs[1]?.map (·.offset)) = some 0x10#64 := by decide

example : isInt32 (0x123456789abc#64 - (0x10000#64 + 6#64)) = false ∧ isInt32 (0x2000#64 - (0x10000#64 + 12#64)) = true := by decide

end AsmjitVerif.CodeHolder
