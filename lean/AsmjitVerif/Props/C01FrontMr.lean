/-
C01 property theorems: VEX-family shapes with the r/m operand first (classes VexMr_Lx, VexMri: vextract*, vpmov* down-converts, vcvtps2ph, ...),
register forms and memory-DESTINATION forms. Generated from the [reg, rm] compositions by swapping the operand order.
-/
import AsmjitVerif.Props.C01FrontMemX
import AsmjitVerif.Lemmas.X86ParseMr
set_option linter.constructorNameAsVariable false
set_option linter.unusedSimpArgs false
set_option linter.unusedVariables false
namespace AsmjitVerif.Props.C01
open Spec.X86 Model.X86 AsmjitVerif.Lemmas.X86Parse

/-- shape [rm, reg], EVEX rule: whatever `EmitVexEvexR` emits when the EVEX branch is taken satisfies the monitor -/
theorem vexR_mr_formOk_evex (c : Model.X86.Ctx) (ctx : Spec.X86.Ctx) (rule : Rule) (opcode reg rm : BitVec 32)
    (k0 k2 : RegKind) (f0 f2 : FormOp)
    (hpe : c.preferEvex = false) (hk : c.extraId = 0#32) (hm64 : ctx.mode64 = true) (hmode : (rule.modes &&& 2 != 0) = true)
    (hr : reg < 32#32) (hm : rm < 32#32) (hxop : opcode &&& 0x800#32 = 0#32)
    (hev : xR opcode 0#32 reg 0#32 rm 0#32 &&& 0x00D78150#32 ≠ 0#32)
    (hk0 : PlainKind k0) (hk2 : PlainKind k2)
    (R : VexRule rule 0) (hs : rule.space = 2) (A : RowAgree rule opcode true)
    (hf0 : f0.role = .reg) (hf2 : f2.role = .rm)
    (hal : alignOps rule.oszEff rule.ops [.reg k2 rm.toNat, .reg k0 reg.toNat] =
           some [(f2, some (.reg k2 rm.toNat)), (f0, some (.reg k0 reg.toNat))]) :
    ∃ bytes, emitVexEvexR c opcode 0#32 (reg + (0#32 <<< 7)) rm 0 0 = .ok bytes ∧
      formOk ctx rule [.reg k2 rm.toNat, .reg k0 reg.toNat] {} bytes = true := by
  rw [emitVexEvexR_branches c opcode reg 0#32 rm 0 0 hpe hk, if_pos hev]
  refine ⟨_, rfl, ?_⟩
  obtain ⟨p, hp, P, h0, h1, h2, -⟩ := evexR_parsed rule opcode reg 0#32 rm [] hr (by decide) hm hxop R hs A
  simp only [emitImmByteOrDword] at *
  exact vex_mr_formOk ctx rule p _ _ k0 k2 f0 f2 _ _ (by simpa [hm64] using hmode) hk0 hk2 R hf0 hf2 hal (by rw [hm64]; exact hp) P h0 h1 h2

/-- shape [rm, reg], VEX rule: the VEX3 or VEX2 bytes `EmitVexEvexR` emits when EVEX is not needed satisfy the monitor -/
theorem vexR_mr_formOk_vex (c : Model.X86.Ctx) (ctx : Spec.X86.Ctx) (rule : Rule) (opcode reg rm : BitVec 32)
    (k0 k2 : RegKind) (f0 f2 : FormOp)
    (hpe : c.preferEvex = false) (hk : c.extraId = 0#32) (hm64 : ctx.mode64 = true) (hmode : (rule.modes &&& 2 != 0) = true)
    (hr : reg < 16#32) (hm : rm < 16#32) (hxop : opcode &&& 0x800#32 = 0#32) (hll : opcode &&& 0x40001000#32 = 0#32)
    (hmm : opcode &&& 0x1F00#32 ≠ 0#32)
    (hk0 : PlainKind k0) (hk2 : PlainKind k2)
    (R : VexRule rule 0) (hs : rule.space = 1) (A : RowAgree rule opcode false)
    (hf0 : f0.role = .reg) (hf2 : f2.role = .rm)
    (hal : alignOps rule.oszEff rule.ops [.reg k2 rm.toNat, .reg k0 reg.toNat] =
           some [(f2, some (.reg k2 rm.toNat)), (f0, some (.reg k0 reg.toNat))]) :
    ∃ bytes, emitVexEvexR c opcode 0#32 (reg + (0#32 <<< 7)) rm 0 0 = .ok bytes ∧
      formOk ctx rule [.reg k2 rm.toNat, .reg k0 reg.toNat] {} bytes = true := by
  have hnev : ¬ (xR opcode 0#32 reg 0#32 rm 0#32 &&& 0x00D78150#32 ≠ 0#32) := by
    rw [evex_r_chosen_iff opcode 0#32 reg 0#32 rm 0#32 (by bv_decide) (by bv_decide) (by bv_decide) (by decide) (by decide)]
    intro h
    rcases h with h | h | h | h | h | h | h <;> bv_decide
  rw [emitVexEvexR_branches c opcode reg 0#32 rm 0 0 hpe hk, if_neg hnev]
  by_cases h3 : vexPrep (xR opcode 0#32 reg 0#32 rm 0#32) opcode 0#32 &&& 0x8000803E#32 ≠ 0#32
  · rw [if_pos h3]
    refine ⟨_, rfl, ?_⟩
    obtain ⟨p, hp, P, h0, h1, h2, -⟩ := vex3R_parsed rule opcode reg 0#32 rm [] hr (by decide) hm hxop hll R hs A
    simp only [emitImmByteOrDword] at *
    exact vex_mr_formOk ctx rule p _ _ k0 k2 f0 f2 _ _ (by simpa [hm64] using hmode) hk0 hk2 R hf0 hf2 hal (by rw [hm64]; exact hp) P h0 h1 h2
  · rw [if_neg h3]
    refine ⟨_, rfl, ?_⟩
    have h3' : vexPrep (xR opcode 0#32 reg 0#32 rm 0#32) opcode 0#32 &&& 0x8000803E#32 = 0#32 := by simpa using h3
    have hmm1 : opcode &&& 0x100#32 ≠ 0#32 := by
      simp only [vexPrep, xR, extractLLMMMMM, kLL_Mask, kMM_Mask, oEvex, oVex3] at h3'
      bv_decide
    obtain ⟨p, hp, P, h0, h1, h2, -⟩ := vex2R_parsed rule opcode reg 0#32 rm [] hr (by decide) hm hll hmm1 h3' R hs A
    simp only [emitImmByteOrDword] at *
    exact vex_mr_formOk ctx rule p _ _ k0 k2 f0 f2 _ _ (by simpa [hm64] using hmode) hk0 hk2 R hf0 hf2 hal (by rw [hm64]; exact hp) P h0 h1 h2

/-- shape [rm, reg, imm8], EVEX rule: whatever `EmitVexEvexR` emits when the EVEX branch is taken satisfies the monitor -/
theorem vexR_mri_formOk_evex (c : Model.X86.Ctx) (ctx : Spec.X86.Ctx) (rule : Rule) (opcode reg rm : BitVec 32)
    (k0 k2 : RegKind) (f0 f2 : FormOp)
    (hpe : c.preferEvex = false) (hk : c.extraId = 0#32) (hm64 : ctx.mode64 = true) (hmode : (rule.modes &&& 2 != 0) = true)
    (hr : reg < 32#32) (hm : rm < 32#32) (hxop : opcode &&& 0x800#32 = 0#32)
    (hev : xR opcode 0#32 reg 0#32 rm 0#32 &&& 0x00D78150#32 ≠ 0#32)
    (hk0 : PlainKind k0) (hk2 : PlainKind k2)
    (R : VexRule rule 1) (f3 : FormOp) (imm : BitVec 64) (hf3 : f3.role = .imm) (hib : immBitsOf f3 = 8) (hs : rule.space = 2) (A : RowAgree rule opcode true)
    (hf0 : f0.role = .reg) (hf2 : f2.role = .rm)
    (hal : alignOps rule.oszEff rule.ops [.reg k2 rm.toNat, .reg k0 reg.toNat, .imm imm] =
           some [(f2, some (.reg k2 rm.toNat)), (f0, some (.reg k0 reg.toNat)), (f3, some (.imm imm))]) :
    ∃ bytes, emitVexEvexR c opcode 0#32 (reg + (0#32 <<< 7)) rm imm 1 = .ok bytes ∧
      formOk ctx rule [.reg k2 rm.toNat, .reg k0 reg.toNat, .imm imm] {} bytes = true := by
  rw [emitVexEvexR_branches c opcode reg 0#32 rm imm 1 hpe hk, if_pos hev]
  refine ⟨_, rfl, ?_⟩
  obtain ⟨p, hp, P, h0, h1, h2, hi⟩ := evexR_parsed rule opcode reg 0#32 rm [imm.truncate 8] hr (by decide) hm hxop R hs A
  simp only [emitImmByteOrDword, Nat.one_ne_zero, beq_self_eq_true, ↓reduceIte, show ((1:Nat) == 0) = false from rfl, Bool.false_eq_true] at *
  exact vex_mri_formOk ctx rule p _ _ k0 k2 f0 f2 _ _ (by simpa [hm64] using hmode) hk0 hk2 R f3 imm hf3 hib (by simp [hi]) hf0 hf2 hal (by rw [hm64]; exact hp) P h0 h1 h2

/-- shape [rm, reg, imm8], VEX rule: the VEX3 or VEX2 bytes `EmitVexEvexR` emits when EVEX is not needed satisfy the monitor -/
theorem vexR_mri_formOk_vex (c : Model.X86.Ctx) (ctx : Spec.X86.Ctx) (rule : Rule) (opcode reg rm : BitVec 32)
    (k0 k2 : RegKind) (f0 f2 : FormOp)
    (hpe : c.preferEvex = false) (hk : c.extraId = 0#32) (hm64 : ctx.mode64 = true) (hmode : (rule.modes &&& 2 != 0) = true)
    (hr : reg < 16#32) (hm : rm < 16#32) (hxop : opcode &&& 0x800#32 = 0#32) (hll : opcode &&& 0x40001000#32 = 0#32)
    (hmm : opcode &&& 0x1F00#32 ≠ 0#32)
    (hk0 : PlainKind k0) (hk2 : PlainKind k2)
    (R : VexRule rule 1) (f3 : FormOp) (imm : BitVec 64) (hf3 : f3.role = .imm) (hib : immBitsOf f3 = 8) (hs : rule.space = 1) (A : RowAgree rule opcode false)
    (hf0 : f0.role = .reg) (hf2 : f2.role = .rm)
    (hal : alignOps rule.oszEff rule.ops [.reg k2 rm.toNat, .reg k0 reg.toNat, .imm imm] =
           some [(f2, some (.reg k2 rm.toNat)), (f0, some (.reg k0 reg.toNat)), (f3, some (.imm imm))]) :
    ∃ bytes, emitVexEvexR c opcode 0#32 (reg + (0#32 <<< 7)) rm imm 1 = .ok bytes ∧
      formOk ctx rule [.reg k2 rm.toNat, .reg k0 reg.toNat, .imm imm] {} bytes = true := by
  have hnev : ¬ (xR opcode 0#32 reg 0#32 rm 0#32 &&& 0x00D78150#32 ≠ 0#32) := by
    rw [evex_r_chosen_iff opcode 0#32 reg 0#32 rm 0#32 (by bv_decide) (by bv_decide) (by bv_decide) (by decide) (by decide)]
    intro h
    rcases h with h | h | h | h | h | h | h <;> bv_decide
  rw [emitVexEvexR_branches c opcode reg 0#32 rm imm 1 hpe hk, if_neg hnev]
  by_cases h3 : vexPrep (xR opcode 0#32 reg 0#32 rm 0#32) opcode 0#32 &&& 0x8000803E#32 ≠ 0#32
  · rw [if_pos h3]
    refine ⟨_, rfl, ?_⟩
    obtain ⟨p, hp, P, h0, h1, h2, hi⟩ := vex3R_parsed rule opcode reg 0#32 rm [imm.truncate 8] hr (by decide) hm hxop hll R hs A
    simp only [emitImmByteOrDword, Nat.one_ne_zero, beq_self_eq_true, ↓reduceIte, show ((1:Nat) == 0) = false from rfl, Bool.false_eq_true] at *
    exact vex_mri_formOk ctx rule p _ _ k0 k2 f0 f2 _ _ (by simpa [hm64] using hmode) hk0 hk2 R f3 imm hf3 hib (by simp [hi]) hf0 hf2 hal (by rw [hm64]; exact hp) P h0 h1 h2
  · rw [if_neg h3]
    refine ⟨_, rfl, ?_⟩
    have h3' : vexPrep (xR opcode 0#32 reg 0#32 rm 0#32) opcode 0#32 &&& 0x8000803E#32 = 0#32 := by simpa using h3
    have hmm1 : opcode &&& 0x100#32 ≠ 0#32 := by
      simp only [vexPrep, xR, extractLLMMMMM, kLL_Mask, kMM_Mask, oEvex, oVex3] at h3'
      bv_decide
    obtain ⟨p, hp, P, h0, h1, h2, hi⟩ := vex2R_parsed rule opcode reg 0#32 rm [imm.truncate 8] hr (by decide) hm hll hmm1 h3' R hs A
    simp only [emitImmByteOrDword, Nat.one_ne_zero, beq_self_eq_true, ↓reduceIte, show ((1:Nat) == 0) = false from rfl, Bool.false_eq_true] at *
    exact vex_mri_formOk ctx rule p _ _ k0 k2 f0 f2 _ _ (by simpa [hm64] using hmode) hk0 hk2 R f3 imm hf3 hib (by simp [hi]) hf0 hf2 hal (by rw [hm64]; exact hp) P h0 h1 h2

/-- shape [MEM, reg], EVEX rule: the bytes of `EmitVexEvexM` when the EVEX branch is taken (the instruction has no
VEX form, or a register / the opcode word needs EVEX) satisfy the monitor -/
theorem vexM_mr_formOk_evex (c : Model.X86.Ctx) (ctx : Spec.X86.Ctx) (rule : Rule) (opcode reg xb aaa : BitVec 32) (z : Bool) (m : Mem) (mo : MemOp) (pfx : List (BitVec 8))
    (mb : BitVec 32 → BitVec 32 → BitVec 8) (sib : BitVec 32 → BitVec 32 → Option (BitVec 8)) (ds : BitVec 32 → BitVec 32 → List (BitVec 8))
    (AF : AddrForm c ctx m mo pfx xb aaa mb sib ds)
    (k0 : RegKind) (f0 f2 : FormOp)
    (hz : z = false) (hm64 : ctx.mode64 = true) (hmode : (rule.modes &&& 2 != 0) = true)
    (hr : reg < 32#32) (hxop : opcode &&& 0x800#32 = 0#32)
    (hev : c.vexFlag = false ∨ (xR opcode 0#32 reg 0#32 xb aaa ||| zOpt z) &&& 0x00D78110#32 ≠ 0#32)
    (hk0 : PlainKind k0)
    (R : VexRuleM rule 0) (D : DecorAllowed rule aaa.toNat z false false) (hs : rule.space = 2) (A : RowAgree rule opcode true)
    (hs6 : cdShiftOf (evexCdOpcodeOf opcode) ≤ 6#32)
    (hN : disp8Nf rule ((opcode >>> 29) &&& 3#32).toNat ((((opcode >>> 27) ||| (opcode >>> 28)) &&& 1#32) == 1#32) false =
          2 ^ (cdShiftOf (evexCdOpcodeOf opcode)).toNat)
    (hf0 : f0.role = .reg) (hf2 : f2.role = .rm)
    (hal : alignOps rule.oszEff rule.ops [.mem mo, .reg k0 reg.toNat] =
           some [(f2, some (.mem mo)), (f0, some (.reg k0 reg.toNat))]) :
    ∃ bytes, emitVexEvexM c opcode (zOpt z) (reg + (0#32 <<< 7)) m 0 0 = .ok bytes ∧
      formOk ctx rule [.mem mo, .reg k0 reg.toNat] (decorOf aaa.toNat z false false 0) bytes = true := by
  rw [AF.emit opcode reg 0#32 z 0 0 hr (by decide) hxop, if_pos hev]
  refine ⟨_, rfl, ?_⟩
  have ho7 : (reg + (0#32 <<< 7)) &&& 7#32 < 8#32 := by bv_decide
  obtain ⟨s1, s2, s3, s4⟩ := AF.shape _ (cdShiftOf (evexCdOpcodeOf opcode)) ho7
  obtain ⟨p, hp, P, h0, h1, F, hNp, hi⟩ := evexG_parsed rule opcode reg 0#32 xb aaa z pfx _ _ _ [] AF.hpl hr (by decide) AF.hxb AF.haaa hxop R hs A s1 s2 s3 s4
  have hc := AF.chk rule p _ _ ho7 hs6 F (by rw [hNp]; exact hN)
  simp only [emitImmediate] at *
  exact vex_mr_mem_formOk ctx rule p _ _ pfx k0 f0 f2 _ _ _ _ _ hm64 hmode hk0 R hf0 hf2 hz AF.hpc D AF.hvsib (by simp [AF.hbc]) (by intro h; cases h) hal hp P h0 h1 hc

/-- shape [MEM, reg], VEX rule: the VEX3 or VEX2 bytes `EmitVexEvexM` emits when EVEX is not needed satisfy the monitor -/
theorem vexM_mr_formOk_vex (c : Model.X86.Ctx) (ctx : Spec.X86.Ctx) (rule : Rule) (opcode reg xb : BitVec 32) (m : Mem) (mo : MemOp) (pfx : List (BitVec 8))
    (mb : BitVec 32 → BitVec 32 → BitVec 8) (sib : BitVec 32 → BitVec 32 → Option (BitVec 8)) (ds : BitVec 32 → BitVec 32 → List (BitVec 8))
    (AF : AddrForm c ctx m mo pfx xb 0#32 mb sib ds)
    (k0 : RegKind) (f0 f2 : FormOp)
    (hvf : c.vexFlag = true)
    (hm64 : ctx.mode64 = true) (hmode : (rule.modes &&& 2 != 0) = true)
    (hr : reg < 16#32) (hxop : opcode &&& 0x800#32 = 0#32) (hll : opcode &&& 0x40001000#32 = 0#32)
    (hmm : opcode &&& 0x1F00#32 ≠ 0#32)
    (hk0 : PlainKind k0)
    (R : VexRuleM rule 0) (hs : rule.space = 1) (A : RowAgree rule opcode false)
    (hf0 : f0.role = .reg) (hf2 : f2.role = .rm)
    (hal : alignOps rule.oszEff rule.ops [.mem mo, .reg k0 reg.toNat] =
           some [(f2, some (.mem mo)), (f0, some (.reg k0 reg.toNat))]) :
    ∃ bytes, emitVexEvexM c opcode 0#32 (reg + (0#32 <<< 7)) m 0 0 = .ok bytes ∧
      formOk ctx rule [.mem mo, .reg k0 reg.toNat] {} bytes = true := by
  have hxb := AF.hxb
  have hnev : ¬ (c.vexFlag = false ∨ xR opcode 0#32 reg 0#32 xb 0#32 &&& 0x00D78110#32 ≠ 0#32) := by
    rw [hvf]
    simp only [xR, extractLLMMMMM, kLL_Mask, kMM_Mask, oEvex]
    intro h
    rcases h with h | h
    · exact absurd h (by decide)
    · bv_decide
  have hem := AF.emit opcode reg 0#32 false 0 0 (by bv_decide) (by bv_decide) hxop
  simp only [zOpt, Bool.false_eq_true, ↓reduceIte, BitVec.or_zero] at hem
  rw [hem, if_neg hnev]
  have ho7 : (reg + (0#32 <<< 7)) &&& 7#32 < 8#32 := by bv_decide
  obtain ⟨s1, s2, s3, s4⟩ := AF.shape _ 0#32 ho7
  by_cases h3 : vexPrep (xR opcode 0#32 reg 0#32 xb 0#32) opcode 0#32 &&& 0x8000807E#32 ≠ 0#32
  · rw [if_pos h3]
    refine ⟨_, rfl, ?_⟩
    obtain ⟨p, hp, P, h0, h1, F, hNp, hi⟩ := vex3G_parsed rule opcode reg 0#32 xb pfx _ _ _ [] AF.hpl hr (by decide) hxb hxop hll R hs A s1 s2 s3 s4
    have hc := AF.chk rule p _ _ ho7 (by decide) F (by rw [hNp]; rfl)
    simp only [emitImmediate] at *
    exact vex_mr_mem_formOk ctx rule p _ _ pfx k0 f0 f2 _ _ 0 false false hm64 hmode hk0 R hf0 hf2 rfl AF.hpc (decorAllowed_none rule) AF.hvsib (by simp [AF.hbc]) (by intro h; cases h) hal hp P h0 h1 hc
  · rw [if_neg h3]
    refine ⟨_, rfl, ?_⟩
    have h3' : vexPrep (xR opcode 0#32 reg 0#32 xb 0#32) opcode 0#32 &&& 0x8000807E#32 = 0#32 := by simpa using h3
    have hmm1 : opcode &&& 0x100#32 ≠ 0#32 := by
      simp only [vexPrep, xR, extractLLMMMMM, kLL_Mask, kMM_Mask, oEvex, oVex3] at h3'
      bv_decide
    obtain ⟨p, hp, P, h0, h1, F, hNp, hi⟩ := vex2G_parsed rule opcode reg 0#32 xb pfx _ _ _ [] AF.hpl hr (by decide) hxb hll hmm1 h3' R hs A s1 s2 s3 s4
    have hc := AF.chk rule p _ _ ho7 (by decide) F (by rw [hNp]; rfl)
    simp only [emitImmediate] at *
    exact vex_mr_mem_formOk ctx rule p _ _ pfx k0 f0 f2 _ _ 0 false false hm64 hmode hk0 R hf0 hf2 rfl AF.hpc (decorAllowed_none rule) AF.hvsib (by simp [AF.hbc]) (by intro h; cases h) hal hp P h0 h1 hc

/-- shape [MEM, reg, imm8], EVEX rule: the bytes of `EmitVexEvexM` when the EVEX branch is taken (the instruction has no
VEX form, or a register / the opcode word needs EVEX) satisfy the monitor -/
theorem vexM_mri_formOk_evex (c : Model.X86.Ctx) (ctx : Spec.X86.Ctx) (rule : Rule) (opcode reg xb aaa : BitVec 32) (z : Bool) (m : Mem) (mo : MemOp) (pfx : List (BitVec 8))
    (mb : BitVec 32 → BitVec 32 → BitVec 8) (sib : BitVec 32 → BitVec 32 → Option (BitVec 8)) (ds : BitVec 32 → BitVec 32 → List (BitVec 8))
    (AF : AddrForm c ctx m mo pfx xb aaa mb sib ds)
    (k0 : RegKind) (f0 f2 : FormOp)
    (hz : z = false) (hm64 : ctx.mode64 = true) (hmode : (rule.modes &&& 2 != 0) = true)
    (hr : reg < 32#32) (hxop : opcode &&& 0x800#32 = 0#32)
    (hev : c.vexFlag = false ∨ (xR opcode 0#32 reg 0#32 xb aaa ||| zOpt z) &&& 0x00D78110#32 ≠ 0#32)
    (hk0 : PlainKind k0)
    (R : VexRuleM rule 1) (D : DecorAllowed rule aaa.toNat z false false) (f3 : FormOp) (imm : BitVec 64) (hf3 : f3.role = .imm) (hib : immBitsOf f3 = 8) (hs : rule.space = 2) (A : RowAgree rule opcode true)
    (hs6 : cdShiftOf (evexCdOpcodeOf opcode) ≤ 6#32)
    (hN : disp8Nf rule ((opcode >>> 29) &&& 3#32).toNat ((((opcode >>> 27) ||| (opcode >>> 28)) &&& 1#32) == 1#32) false =
          2 ^ (cdShiftOf (evexCdOpcodeOf opcode)).toNat)
    (hf0 : f0.role = .reg) (hf2 : f2.role = .rm)
    (hal : alignOps rule.oszEff rule.ops [.mem mo, .reg k0 reg.toNat, .imm imm] =
           some [(f2, some (.mem mo)), (f0, some (.reg k0 reg.toNat)), (f3, some (.imm imm))]) :
    ∃ bytes, emitVexEvexM c opcode (zOpt z) (reg + (0#32 <<< 7)) m imm 1 = .ok bytes ∧
      formOk ctx rule [.mem mo, .reg k0 reg.toNat, .imm imm] (decorOf aaa.toNat z false false 0) bytes = true := by
  rw [AF.emit opcode reg 0#32 z imm 1 hr (by decide) hxop, if_pos hev]
  refine ⟨_, rfl, ?_⟩
  have ho7 : (reg + (0#32 <<< 7)) &&& 7#32 < 8#32 := by bv_decide
  obtain ⟨s1, s2, s3, s4⟩ := AF.shape _ (cdShiftOf (evexCdOpcodeOf opcode)) ho7
  obtain ⟨p, hp, P, h0, h1, F, hNp, hi⟩ := evexG_parsed rule opcode reg 0#32 xb aaa z pfx _ _ _ [imm.truncate 8] AF.hpl hr (by decide) AF.hxb AF.haaa hxop R hs A s1 s2 s3 s4
  have hc := AF.chk rule p _ _ ho7 hs6 F (by rw [hNp]; exact hN)
  simp only [emitImmediate] at *
  exact vex_mri_mem_formOk ctx rule p _ _ pfx k0 f0 f2 _ _ _ _ _ hm64 hmode hk0 R f3 imm hf3 hib (by simp [hi]) hf0 hf2 hz AF.hpc D AF.hvsib (by simp [AF.hbc]) (by intro h; cases h) hal hp P h0 h1 hc

/-- shape [MEM, reg, imm8], VEX rule: the VEX3 or VEX2 bytes `EmitVexEvexM` emits when EVEX is not needed satisfy the monitor -/
theorem vexM_mri_formOk_vex (c : Model.X86.Ctx) (ctx : Spec.X86.Ctx) (rule : Rule) (opcode reg xb : BitVec 32) (m : Mem) (mo : MemOp) (pfx : List (BitVec 8))
    (mb : BitVec 32 → BitVec 32 → BitVec 8) (sib : BitVec 32 → BitVec 32 → Option (BitVec 8)) (ds : BitVec 32 → BitVec 32 → List (BitVec 8))
    (AF : AddrForm c ctx m mo pfx xb 0#32 mb sib ds)
    (k0 : RegKind) (f0 f2 : FormOp)
    (hvf : c.vexFlag = true)
    (hm64 : ctx.mode64 = true) (hmode : (rule.modes &&& 2 != 0) = true)
    (hr : reg < 16#32) (hxop : opcode &&& 0x800#32 = 0#32) (hll : opcode &&& 0x40001000#32 = 0#32)
    (hmm : opcode &&& 0x1F00#32 ≠ 0#32)
    (hk0 : PlainKind k0)
    (R : VexRuleM rule 1) (f3 : FormOp) (imm : BitVec 64) (hf3 : f3.role = .imm) (hib : immBitsOf f3 = 8) (hs : rule.space = 1) (A : RowAgree rule opcode false)
    (hf0 : f0.role = .reg) (hf2 : f2.role = .rm)
    (hal : alignOps rule.oszEff rule.ops [.mem mo, .reg k0 reg.toNat, .imm imm] =
           some [(f2, some (.mem mo)), (f0, some (.reg k0 reg.toNat)), (f3, some (.imm imm))]) :
    ∃ bytes, emitVexEvexM c opcode 0#32 (reg + (0#32 <<< 7)) m imm 1 = .ok bytes ∧
      formOk ctx rule [.mem mo, .reg k0 reg.toNat, .imm imm] {} bytes = true := by
  have hxb := AF.hxb
  have hnev : ¬ (c.vexFlag = false ∨ xR opcode 0#32 reg 0#32 xb 0#32 &&& 0x00D78110#32 ≠ 0#32) := by
    rw [hvf]
    simp only [xR, extractLLMMMMM, kLL_Mask, kMM_Mask, oEvex]
    intro h
    rcases h with h | h
    · exact absurd h (by decide)
    · bv_decide
  have hem := AF.emit opcode reg 0#32 false imm 1 (by bv_decide) (by bv_decide) hxop
  simp only [zOpt, Bool.false_eq_true, ↓reduceIte, BitVec.or_zero] at hem
  rw [hem, if_neg hnev]
  have ho7 : (reg + (0#32 <<< 7)) &&& 7#32 < 8#32 := by bv_decide
  obtain ⟨s1, s2, s3, s4⟩ := AF.shape _ 0#32 ho7
  by_cases h3 : vexPrep (xR opcode 0#32 reg 0#32 xb 0#32) opcode 0#32 &&& 0x8000807E#32 ≠ 0#32
  · rw [if_pos h3]
    refine ⟨_, rfl, ?_⟩
    obtain ⟨p, hp, P, h0, h1, F, hNp, hi⟩ := vex3G_parsed rule opcode reg 0#32 xb pfx _ _ _ [imm.truncate 8] AF.hpl hr (by decide) hxb hxop hll R hs A s1 s2 s3 s4
    have hc := AF.chk rule p _ _ ho7 (by decide) F (by rw [hNp]; rfl)
    simp only [emitImmediate] at *
    exact vex_mri_mem_formOk ctx rule p _ _ pfx k0 f0 f2 _ _ 0 false false hm64 hmode hk0 R f3 imm hf3 hib (by simp [hi]) hf0 hf2 rfl AF.hpc (decorAllowed_none rule) AF.hvsib (by simp [AF.hbc]) (by intro h; cases h) hal hp P h0 h1 hc
  · rw [if_neg h3]
    refine ⟨_, rfl, ?_⟩
    have h3' : vexPrep (xR opcode 0#32 reg 0#32 xb 0#32) opcode 0#32 &&& 0x8000807E#32 = 0#32 := by simpa using h3
    have hmm1 : opcode &&& 0x100#32 ≠ 0#32 := by
      simp only [vexPrep, xR, extractLLMMMMM, kLL_Mask, kMM_Mask, oEvex, oVex3] at h3'
      bv_decide
    obtain ⟨p, hp, P, h0, h1, F, hNp, hi⟩ := vex2G_parsed rule opcode reg 0#32 xb pfx _ _ _ [imm.truncate 8] AF.hpl hr (by decide) hxb hll hmm1 h3' R hs A s1 s2 s3 s4
    have hc := AF.chk rule p _ _ ho7 (by decide) F (by rw [hNp]; rfl)
    simp only [emitImmediate] at *
    exact vex_mri_mem_formOk ctx rule p _ _ pfx k0 f0 f2 _ _ 0 false false hm64 hmode hk0 R f3 imm hf3 hib (by simp [hi]) hf0 hf2 rfl AF.hpc (decorAllowed_none rule) AF.hvsib (by simp [AF.hbc]) (by intro h; cases h) hal hp P h0 h1 hc

end AsmjitVerif.Props.C01
