/-
C02, end-to-end for kEncodingBaseMovKNZ (movz, movn, movk  Rd, #imm16 {, lsl #(0|16|32|48)}): every accepted instruction is
judged `full` over the database forms - all operands, every table row.
-/
import AsmjitVerif.Props.C02Bits
namespace AsmjitVerif.C02
open AsmjitVerif.A64 AsmjitVerif.A64Asm AsmjitVerif.A64Spec AsmjitVerif.Gen.A64Tables

theorem wide_fields (opc x hw imm rd mask value : BitVec 32)
    (hc : opc &&& 0x807FFFFF#32 = 0#32) (hm : mask &&& 0x007FFFFF#32 = 0#32) (hv : (opc ||| (x <<< 31)) &&& mask = value)
    (h0 : rd.ult 32#32 = true) (h1 : hw.ult 4#32 = true) (h2 : imm.ult 65536#32 = true) :
    (opc ||| (x <<< 31) ||| (hw <<< 21) ||| (imm <<< 5) ||| (rd <<< 0)) &&& mask = value ∧
    ((opc ||| (x <<< 31) ||| (hw <<< 21) ||| (imm <<< 5) ||| (rd <<< 0)) >>> 0) &&& 31#32 = rd ∧
    ((opc ||| (x <<< 31) ||| (hw <<< 21) ||| (imm <<< 5) ||| (rd <<< 0)) >>> 5) &&& 65535#32 = imm ∧
    ((opc ||| (x <<< 31) ||| (hw <<< 21) ||| (imm <<< 5) ||| (rd <<< 0)) >>> 21) &&& 3#32 = hw := by
  bv_decide

def isWideForm (f : Form) (wd : GpW) (b64 : Bool) (opcx : BitVec 32) : Bool :=
  f.ops == [.gp wd "Rd" false, .wide "imm" "hw" b64] &&
  f.fields.filter (·.name == "Rd") == [⟨"Rd", [⟨0, 0, 5⟩]⟩] &&
  f.fields.filter (·.name == "imm") == [⟨"imm", [⟨5, 0, 16⟩]⟩] &&
  f.fields.filter (·.name == "hw") == [⟨"hw", [⟨21, 0, 2⟩]⟩] &&
  f.freeFields.isEmpty && decide (f.mask < 2 ^ 32) && decide (f.value < 2 ^ 32) &&
  (BitVec.ofNat 32 f.mask &&& 0x007FFFFF#32 == 0#32) && (opcx &&& BitVec.ofNat 32 f.mask == BitVec.ofNat 32 f.value)

/-- the operand tail of a move-wide instruction as the spec reads it -/
def wideTailOk (imm16 hw : Nat) (b64 : Bool) (tail : List Operand) : Prop :=
  (b64 = true ∨ hw < 2) ∧
  match tail with
  | [.imm v _] => v.toNat = imm16 ∧ hw = 0
  | [.imm v _, .imm s ps] => v.toNat = imm16 ∧ ps = sopLSL ∧ s.toNat = 16 * hw
  | _ => False

theorem wide_describes (f : Form) (wd : GpW) (b64 : Bool) (opc x : BitVec 32) (o0 : Reg) (imm16 hw : Nat) (tail : List Operand) (pc : BitVec 64)
    (hf : isWideForm f wd b64 (opc ||| (x <<< 31)) = true) (hc : opc &&& 0x807FFFFF#32 = 0#32)
    (h0 : gpOk wd false o0) (hi : imm16 < 65536) (hh : hw < 4) (ht : wideTailOk imm16 hw b64 tail) :
    describes f (.reg o0 :: tail) pc
      (opc ||| (x <<< 31) ||| (BitVec.ofNat 32 hw <<< 21) ||| (BitVec.ofNat 32 imm16 <<< 5) ||| (BitVec.ofNat 32 (o0.id % 32) <<< 0)) = true := by
  simp only [isWideForm, Bool.and_eq_true, beq_iff_eq, decide_eq_true_eq] at hf
  obtain ⟨⟨⟨⟨⟨⟨⟨⟨hops, hRd⟩, hIm⟩, hHw⟩, _hfree⟩, hmlt⟩, hvlt⟩, hm⟩, hv⟩ := hf
  have hu1 : (BitVec.ofNat 32 hw).ult 4#32 = true := by simp [BitVec.ult, BitVec.toNat_ofNat]; omega
  have hu2 : (BitVec.ofNat 32 imm16).ult 65536#32 = true := by simp [BitVec.ult, BitVec.toNat_ofNat]; omega
  obtain ⟨k1, k2, k3, k4⟩ := wide_fields opc x (BitVec.ofNat 32 hw) (BitVec.ofNat 32 imm16) (BitVec.ofNat 32 (o0.id % 32))
    (BitVec.ofNat 32 f.mask) (BitVec.ofNat 32 f.value) hc hm hv (ofNat_mod32_ult _) hu1 hu2
  generalize hw' : (opc ||| (x <<< 31) ||| (BitVec.ofNat 32 hw <<< 21) ||| (BitVec.ofNat 32 imm16 <<< 5) ||| (BitVec.ofNat 32 (o0.id % 32) <<< 0)) = w at *
  have t : w.toNat &&& f.mask = f.value := by
    rw [toNat_and_mask w f.mask hmlt, k1]; simp [BitVec.toNat_ofNat, Nat.mod_eq_of_lt hvlt]
  have f0 : (w.toNat >>> 0) % 2 ^ 5 = o0.id % 32 := by rw [toNat_field, k2, ofNat_mod32_toNat]
  have f5 : (w.toNat >>> 5) % 2 ^ 16 = imm16 := by
    rw [toNat_fieldN w 5 16 (by decide), show (BitVec.ofNat 32 (2 ^ 16 - 1)) = 65535#32 from rfl, k3]
    simp [BitVec.toNat_ofNat]; omega
  have f21 : (w.toNat >>> 21) % 2 ^ 2 = hw := by
    rw [toNat_fieldN w 21 2 (by decide), show (BitVec.ofNat 32 (2 ^ 2 - 1)) = 3#32 from rfl, k4]
    simp [BitVec.toNat_ofNat]; omega
  have g0 := ctx_get_single f.fields w.toNat pc f.name "Rd" 0 hRd
  have g5 := ctx_get_one f.fields w.toNat pc f.name "imm" 5 16 hIm
  have g21 := ctx_get_one f.fields w.toNat pc f.name "hw" 21 2 hHw
  rw [f0] at g0; rw [f5] at g5; rw [f21] at g21
  have m0 := matchOp_gp _ wd "Rd" false o0 tail g0 h0
  obtain ⟨hb, hshape⟩ := ht
  have hcond : (!b64 && decide (hw ≥ 2)) = false := by
    rcases hb with hb | hb
    · simp [hb]
    · simp; intro _; omega
  match tail, hshape, m0 with
  | [.imm v p], ⟨hv1, hh0⟩, m0 =>
    simp only [describes, Form.matchesTemplate, t, hops, matchOps, m0]
    simp only [matchOp, g5, g21]
    simp [hv1, hh0, hcond]
  | [.imm v p, .imm s ps], ⟨hv1, hps, hs⟩, m0 =>
    simp only [describes, Form.matchesTemplate, t, hops, matchOps, m0]
    simp only [matchOp, g5, g21]
    simp [hv1, hps, hs, hcond]

def wideRowOk (name : String) (opcode : Nat) : Bool :=
  (w32 opcode &&& 0x807FFFFF#32 == 0#32) &&
  [(rtGp32, 0), (rtGp64, 1)].all fun tx =>
    (formsNamed name).any fun f => isWideForm f (wOfRt tx.1) (tx.1 == rtGp64) (w32 opcode ||| (BitVec.ofNat 32 tx.2 <<< 31))

set_option maxRecDepth 1000000 in
theorem rows_baseMovKNZ_have_forms :
    instTable.toList.all (fun r => r.enc != encBaseMovKNZ ||
      (match baseMovKNZ[r.idx]? with
       | some d => wideRowOk r.name d.opcode
       | none => false)) = true := by decide +kernel

def wideOperandTail (imm : BitVec 64) (p : Nat) (sh : Option (BitVec 64 × Nat)) : List Operand :=
  match sh with
  | none => [.imm imm p]
  | some (s, ps) => [.imm imm p, .imm s ps]

theorem movKNZ_accepts_facts (opc : Nat) (o0 : Reg) (imm : BitVec 64) (p : Nat) (sh : Option (BitVec 64 × Nat)) (hrt : o0.rt < 32)
    (ws : List (BitVec 32)) (h : emitMovKNZ opc o0 imm sh = .ok ws) :
    ∃ x hw, ((o0.rt = rtGp32 ∧ x = 0) ∨ (o0.rt = rtGp64 ∧ x = 1)) ∧ checkGpId o0 idZR = true ∧ imm.toNat < 65536 ∧ hw < 4 ∧
      wideTailOk imm.toNat hw (o0.rt == rtGp64) (wideOperandTail imm p sh) ∧
      ws = [w32 opc ||| addImm x 31 ||| addImm hw 21 ||| addImm imm.toNat 5 ||| addReg o0.id 0] := by
  unfold emitMovKNZ at h
  by_cases hx : (o0.rt + 2 ^ 32 - 5) % 2 ^ 32 > 1
  · simp only [hx, if_true, invalidInstruction] at h; cases h
  · simp only [hx, if_false] at h
    have hcase : (o0.rt = rtGp32 ∧ (o0.rt + 2 ^ 32 - 5) % 2 ^ 32 = 0) ∨ (o0.rt = rtGp64 ∧ (o0.rt + 2 ^ 32 - 5) % 2 ^ 32 = 1) := by
      simp only [rtGp32, rtGp64]; omega
    by_cases hid : checkGpId o0 idZR = true
    · simp only [hid, Bool.not_true, Bool.false_eq_true, if_false] at h
      match sh, h with
      | none, h =>
        simp only [] at h
        by_cases hi : imm.toNat > 0xFFFF
        · simp [hi, invalidImmediate] at h
        · simp only [hi, if_false, ok1, Result.ok.injEq] at h
          refine ⟨(o0.rt + 2 ^ 32 - 5) % 2 ^ 32, 0, ?_, hid, by omega, by omega, ?_, ?_⟩
          · rcases hcase with ⟨a, b⟩ | ⟨a, b⟩
            · exact Or.inl ⟨a, b⟩
            · exact Or.inr ⟨a, b⟩
          · simp [wideOperandTail, wideTailOk]
          · rw [← h]; simp [addImm]
      | some (sv, ps), h =>
        simp only [] at h
        by_cases c1 : (imm.toNat > 0xFFFF || sv.toNat > 48 || ps != sopLSL) = true
        · simp [c1, invalidImmediate] at h
        · simp only [c1, Bool.false_eq_true, if_false] at h
          by_cases c2 : ((sv.toNat >>> 4) <<< 4 != sv.toNat) = true
          · simp [c2, invalidImmediate] at h
          · simp only [c2, Bool.false_eq_true, if_false] at h
            split at h
            · simp [invalidImmediate] at h
            · rename_i c3
              simp only [ok1, Result.ok.injEq] at h
              have c1' : imm.toNat ≤ 0xFFFF ∧ sv.toNat ≤ 48 ∧ ps = sopLSL := by
                simp at c1; omega
              have c2' : (sv.toNat >>> 4) <<< 4 = sv.toNat := by simpa using c2
              have hsh : sv.toNat = 16 * (sv.toNat >>> 4) := by
                rw [Nat.shiftLeft_eq] at c2'; omega
              refine ⟨(o0.rt + 2 ^ 32 - 5) % 2 ^ 32, sv.toNat >>> 4, ?_, hid, by omega, ?_, ?_, by rw [← h]⟩
              · rcases hcase with ⟨a, b⟩ | ⟨a, b⟩
                · exact Or.inl ⟨a, b⟩
                · exact Or.inr ⟨a, b⟩
              · rw [Nat.shiftRight_eq_div_pow]; omega
              · simp only [wideOperandTail, wideTailOk]
                refine ⟨?_, trivial, c1'.2.2, hsh⟩
                rcases hcase with ⟨a, b⟩ | ⟨a, b⟩
                · right
                  simp [b] at c3
                  omega
                · left; simp [a]
    · simp [hid, invalidPhysId] at h

/-- **End-to-end, kEncodingBaseMovKNZ** (movz, movn, movk) -/
theorem movKNZ_end_to_end (r : InstRow) (hr : r ∈ instTable.toList) (henc : r.enc = encBaseMovKNZ)
    (d : BaseMovKNZRow) (hd : baseMovKNZ[r.idx]? = some d) (o0 : Reg) (imm : BitVec 64) (p : Nat) (sh : Option (BitVec 64 × Nat))
    (hrt : o0.rt < 32) (wf0 : GpWellFormed o0) (ws : List (BitVec 32)) (pc : BitVec 64) (hname : r.name ≠ "mov")
    (h : emitMovKNZ d.opcode o0 imm sh = .ok ws) :
    judge (formsNamed r.name) r.name (.reg o0 :: wideOperandTail imm p sh) pc (.ok ws) = .full := by
  have hrow := (List.all_eq_true.mp rows_baseMovKNZ_have_forms) r hr
  simp only [henc, bne_self_eq_false, Bool.false_or, hd] at hrow
  obtain ⟨x, hw, hcase, hid, himm, hhw, htail, hws⟩ := movKNZ_accepts_facts d.opcode o0 imm p sh hrt ws h
  simp only [wideRowOk, Bool.and_eq_true, beq_iff_eq] at hrow
  obtain ⟨hclean, hall⟩ := hrow
  have hmem : (o0.rt, x) ∈ [(rtGp32, 0), (rtGp64, 1)] := by
    rcases hcase with ⟨a, b⟩ | ⟨a, b⟩ <;> simp [a, b]
  have hcombo := (List.all_eq_true.mp hall) (o0.rt, x) hmem
  rw [List.any_eq_true] at hcombo
  obtain ⟨f, hfmem, hform⟩ := hcombo
  have hgw : gpWidthOk (wOfRt o0.rt) o0 = true := by
    rcases hcase with ⟨a, _⟩ | ⟨a, _⟩ <;> simp [wOfRt, gpWidthOk, a, rtGp32, rtGp64]
  have hnum := checked_id_designates o0 idZR (Or.inr rfl) hid
  rw [show (idZR == idSP) = false by decide] at hnum
  have g0 : gpOk (wOfRt o0.rt) false o0 := ⟨hgw, wf0.1, wf0.2, hnum⟩
  have hdesc := wide_describes f _ _ (w32 d.opcode) (BitVec.ofNat 32 x) o0 imm.toNat hw (wideOperandTail imm p sh) pc hform hclean g0 himm hhw htail
  have hfull : f.isPartial = false := by
    simp only [isWideForm, Bool.and_eq_true, beq_iff_eq] at hform
    obtain ⟨⟨⟨⟨⟨⟨⟨⟨hops, _⟩, _⟩, _⟩, hfree⟩, _⟩, _⟩, _⟩, _⟩ := hform
    simp [Form.isPartial, hops, OpSpec.isPartial, hfree]
  subst hws
  have hany : (formsNamed r.name).any (fun f => !f.isPartial && describes f (.reg o0 :: wideOperandTail imm p sh) pc
      (w32 d.opcode ||| addImm x 31 ||| addImm hw 21 ||| addImm imm.toNat 5 ||| addReg o0.id 0)) = true := by
    rw [List.any_eq_true]
    exact ⟨f, hfmem, by simp [hfull]; simpa [addImm, addReg] using hdesc⟩
  -- `judge` special-cases the pseudo instruction `mov`; movz/movn/movk are not it
  cases sh with
  | none =>
    have h2 := hany
    simp only [wideOperandTail] at h2
    simp [judge, wideOperandTail, hname, h2]
  | some sp =>
    obtain ⟨s, ps⟩ := sp
    have h2 := hany
    simp only [wideOperandTail] at h2
    simp [judge, wideOperandTail, h2]

end AsmjitVerif.C02
