/-
C17 — consequences of the exactness theorems that a user relies on directly, stated for EVERY displacement format the
backends construct (`formatsInUse`, regenerated from the sources on every run) and every 64-bit displacement.
Kernel-only reasoning on top of `offset_codec_exact`: no SAT certificate is added here (the axioms of these theorems are
those inherited from the per-format `*_exact` / `*_refused` theorems of Props/C17.lean).

 * `refused_iff_unrepresentable*` : the encoder refuses a displacement IF AND ONLY IF no field content designates it
                                    (never a silent truncation, never a spurious refusal) - the decision form of the property;
 * `encode_injective*`            : two different accepted displacements never share a field content;
 * `encode_canonical*`            : the accepted mask is the ONLY field content (within the field bits) that designates the
                                    displacement when the decoder is injective on field contents - stated as: any word
                                    that is `old ||| m` for a clean `old` decodes to the displacement, whatever `old` is
                                    (position independence of the surrounding opcode bits);
 * `patch_idempotent*`            : OR-ing the mask a second time changes nothing (re-resolving a fixup is harmless).
-/
import AsmjitVerif.Props.C17
import AsmjitVerif.Props.C17Generic
namespace AsmjitVerif.Offset

/-! ### 32-bit path (value sizes 1, 2, 4) -/

theorem refused_iff_unrepresentable32 (f : OffsetFormat) (he : Exact32 f) (hr : Refused32 f) (off : BitVec 64) :
    encodeOffset32 f off = none ↔ ∀ w : BitVec 32, decode32 f w ≠ off := by
  constructor
  · exact hr off
  · intro hall
    cases hm : encodeOffset32 f off with
    | none => rfl
    | some m =>
      have h := (he off m hm 0#32 (by simp)).1
      exact absurd h (hall _)

theorem encode_injective32 (f : OffsetFormat) (he : Exact32 f) (o1 o2 : BitVec 64) (m : BitVec 32)
    (h1 : encodeOffset32 f o1 = some m) (h2 : encodeOffset32 f o2 = some m) : o1 = o2 := by
  have a := (he o1 m h1 0#32 (by simp)).1
  have b := (he o2 m h2 0#32 (by simp)).1
  rw [← a, ← b]

theorem encode_canonical32 (f : OffsetFormat) (he : Exact32 f) (off : BitVec 64) (m : BitVec 32)
    (h : encodeOffset32 f off = some m) (old1 old2 : BitVec 32)
    (c1 : old1 &&& fieldMask32 f = 0#32) (c2 : old2 &&& fieldMask32 f = 0#32) :
    decode32 f (old1 ||| m) = decode32 f (old2 ||| m) := by
  rw [(he off m h old1 c1).1, (he off m h old2 c2).1]

theorem patch_idempotent32 (old m : BitVec 32) : (old ||| m) ||| m = old ||| m := by
  rw [BitVec.or_assoc, BitVec.or_self]

/-! ### 64-bit path (value size 8) -/

theorem refused_iff_unrepresentable64 (f : OffsetFormat) (he : Exact64 f) (hr : Refused64 f) (off : BitVec 64) :
    encodeOffset64 f off = none ↔ ∀ w : BitVec 64, decode64 f w ≠ off := by
  constructor
  · exact hr off
  · intro hall
    cases hm : encodeOffset64 f off with
    | none => rfl
    | some m =>
      have h := (he off m hm 0#64 (by simp)).1
      exact absurd h (hall _)

theorem encode_injective64 (f : OffsetFormat) (he : Exact64 f) (o1 o2 : BitVec 64) (m : BitVec 64)
    (h1 : encodeOffset64 f o1 = some m) (h2 : encodeOffset64 f o2 = some m) : o1 = o2 := by
  have a := (he o1 m h1 0#64 (by simp)).1
  have b := (he o2 m h2 0#64 (by simp)).1
  rw [← a, ← b]

theorem encode_canonical64 (f : OffsetFormat) (he : Exact64 f) (off : BitVec 64) (m : BitVec 64)
    (h : encodeOffset64 f off = some m) (old1 old2 : BitVec 64)
    (c1 : old1 &&& fieldMask64 f = 0#64) (c2 : old2 &&& fieldMask64 f = 0#64) :
    decode64 f (old1 ||| m) = decode64 f (old2 ||| m) := by
  rw [(he off m h old1 c1).1, (he off m h old2 c2).1]

theorem patch_idempotent64 (old m : BitVec 64) : (old ||| m) ||| m = old ||| m := by
  rw [BitVec.or_assoc, BitVec.or_self]

/-! ### for every format the current sources construct -/

/-- The decision form of C17 for one format: refusal exactly when unrepresentable, and accepted displacements are encoded injectively. -/
def CodecDecides (f : OffsetFormat) : Prop :=
  if f.valueSize = 8 then
    (∀ off, encodeOffset64 f off = none ↔ ∀ w : BitVec 64, decode64 f w ≠ off) ∧
    (∀ o1 o2 m, encodeOffset64 f o1 = some m → encodeOffset64 f o2 = some m → o1 = o2)
  else
    (∀ off, encodeOffset32 f off = none ↔ ∀ w : BitVec 32, decode32 f w ≠ off) ∧
    (∀ o1 o2 m, encodeOffset32 f o1 = some m → encodeOffset32 f o2 = some m → o1 = o2)

/-- **C17, decision form.** For every displacement format used by the backends (regenerated list) and all 2^64 displacements: the encoder
    refuses exactly the displacements that no field content designates, and never maps two accepted displacements to one field. -/
theorem offset_codec_decides : ∀ f ∈ formatsInUse, CodecDecides f := by
  intro f hf
  have h := offset_codec_exact f hf
  unfold CodecExact at h
  unfold CodecDecides
  split
  · rename_i h8
    rw [if_pos h8] at h
    exact ⟨refused_iff_unrepresentable64 f h.1 h.2, encode_injective64 f h.1⟩
  · rename_i h8
    rw [if_neg h8] at h
    exact ⟨refused_iff_unrepresentable32 f h.1 h.2, encode_injective32 f h.1⟩


/-- from the exactness statement of a format to its decision form (any format) -/
theorem CodecExact.decides {f : OffsetFormat} (h : CodecExact f) : CodecDecides f := by
  unfold CodecExact at h
  unfold CodecDecides
  split
  · rename_i h8
    rw [if_pos h8] at h
    exact ⟨refused_iff_unrepresentable64 f h.1 h.2, encode_injective64 f h.1⟩
  · rename_i h8
    rw [if_neg h8] at h
    exact ⟨refused_iff_unrepresentable32 f h.1 h.2, encode_injective32 f h.1⟩

/-- **decision form for EVERY signed / unsigned geometry** that fits its value word (bits, shift, discard symbolic): a format a future
    backend may add is covered without a new proof, as long as it is a plain signed / unsigned field. -/
theorem generic_codec_decides (t : OffsetType) (ht : t = .signed ∨ t = .unsigned) (size shift bits discard : Nat)
    (hsz : size = 1 ∨ size = 2 ∨ size = 4 ∨ size = 8)
    (hb : 1 ≤ bits) (hbs : bits + shift ≤ 8 * size) (hd : discard ≤ 32) :
    CodecDecides (immValue t size shift bits discard) :=
  (generic_codec_exact t ht size shift bits discard hsz hb hbs hd).decides

/-- non-vacuity: a geometry no backend uses (11-bit signed field at bit 3 of a 2-byte word, 1 bit discarded) -/
example : CodecDecides (immValue .signed 2 3 11 1) :=
  generic_codec_decides .signed (Or.inl rfl) 2 3 11 1 (by decide) (by decide) (by decide) (by decide)

/-- non-vacuity: the list of formats in use is not empty, and a concrete accepted / refused pair exists for the AArch64 imm19 branch format -/
example : formatsInUse ≠ [] := by decide
example : (encodeOffset32 fImm19 0x100#64).isSome = true ∧ (encodeOffset32 fImm19 0x102#64).isSome = false ∧
    (encodeOffset32 fImm19 0x100000#64).isSome = false := by decide

end AsmjitVerif.Offset
