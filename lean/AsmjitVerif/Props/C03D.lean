/-
C03, references encoded *directly* (the label is already bound in the current section when the instruction is assembled:
no fixup is created, nothing is logged). Site theorems: what `EmitJmpCall` / `EmitModSib [rip+label]` / a64 `EmitOp_Rel`
write in that case designates the label, in the CPU reading of the monitor (x86: end of instruction + sign-extended field;
AArch64: the Spec/Offset decoder applied to the instruction word, relative to the instruction's address).
Not proved here: that later calls leave these bytes alone (they are outside every fixup field and relocation region - the
monitor judges every such reference on every explored program, at the end of the program).
-/
import AsmjitVerif.Props.C03B
namespace AsmjitVerif.CodeHolder
open AsmjitVerif.Offset
open AsmjitVerif.RefSpec

theorem ite_none_some {α : Type} (c : Prop) [Decidable c] (x : Option α) (w : α)
    (h : (if c then none else x) = some w) : ¬ c ∧ x = some w := by
  by_cases hc : c
  · rw [if_pos hc] at h; cases h
  · rw [if_neg hc] at h; exact ⟨hc, h⟩

/-- **dispImm_exact.** `EmitOp_DispImm` (the assembler's own second field encoder): whenever it accepts a displacement, the
Spec/Offset decoder reads exactly that displacement back from the instruction word (opcode bits outside the field clear) -/
theorem dispImm_exact (k : A64Kind) (v : BitVec 64) (opcode w : BitVec 32)
    (hop : opcode &&& fieldMask32 k.fmt = 0#32) (h : dispImm k.fmt v opcode = some w) : decode32 k.fmt w = v := by
  cases k <;>
  · simp only [dispImm, A64Kind.fmt, immValue, lsbMask32, isEncodableOffset64, Nat.reducePow, Nat.reduceSub] at h
    simp only [fieldMask32, A64Kind.fmt, immValue, Nat.reducePow, Nat.reduceSub, Nat.reduceMul] at hop
    obtain ⟨h1, h⟩ := ite_none_some _ _ _ h
    obtain ⟨h2, h⟩ := ite_none_some _ _ _ h
    simp only [Option.some.injEq] at h
    subst h
    simp only [decode32, A64Kind.fmt, immValue, sext64, Nat.reducePow, Nat.reduceSub]
    bv_decide

/-- rel32 computed against a bound label: read from the end of the rel32 form it reaches the label -/
theorem rel32_reaches (ip i32 t : BitVec 64) (hr : isInt32 (t - ip - i32) = true) :
    ip + i32 + ((t - ip - i32).truncate 32).signExtend 64 = t := by
  simp only [isInt32, beq_iff_eq] at hr
  rw [hr]
  have h := BitVec.sub_add_cancel (t - ip) i32
  have h2 := BitVec.sub_add_cancel t ip
  have h3 : ip + i32 + (t - ip - i32) = (t - ip - i32 + i32) + ip := by ac_rfl
  rw [h3, h, h2]

/-- the short form: the rel8 `EmitJmpCallRel` derives from the rel32, read from the end of the 2-byte form -/
theorem rel8_reaches (ip i32 t : BitVec 64) (hsmall : i32 ≤ 15#64) (hr : isInt32 (t - ip - i32) = true)
    (h8 : isInt8of32 ((t - ip - i32).truncate 32 + i32.truncate 32 - 2#32) = true) :
    ip + 2#64 + (((t - ip - i32).truncate 32 + i32.truncate 32 - 2#32).truncate 8).signExtend 64 = t := by
  simp only [isInt32, isInt8of32] at hr h8
  bv_decide

/-- **direct_jmp_site.** 64-bit mode, jmp/jcc/call/jecxz/loop to a label already bound in the current section: out of rel32
range the site is refused; otherwise it is encoded by `EmitJmpCallRel` with the exact displacement, whose rel32 (read from the
end of the rel32 form) and rel8 (read from the end of the short form, when that is chosen) both reach the label's offset. -/
theorem direct_jmp_site (s : State) (sh : JShape) (opt : FormOpt) (l : Nat) (off : BitVec 64)
    (hl : s.labels[l]? = some (.bound s.cur off)) (h64 : s.arch.is32 = false) (hop : sh.op32.length ≤ 11) :
    let ip := BitVec.ofNat 64 (s.curOff + sh.pre.length)
    let i32 := BitVec.ofNat 64 (sh.op32.length + 4)
    let rel64 := off - ip - i32
    (isInt32 rel64 = false → x86JmpLabel s sh opt l = (s, .invalidDisplacement)) ∧
    (isInt32 rel64 = true →
      x86JmpLabel s sh opt l = emitJmpCallRel s sh opt (rel64.truncate 32) ∧
      ip + i32 + (rel64.truncate 32).signExtend 64 = off ∧
      (isInt8of32 (rel64.truncate 32 + BitVec.ofNat 32 (sh.op32.length + 4) - BitVec.ofNat 32 2) = true →
        ip + 2#64 + ((rel64.truncate 32 + BitVec.ofNat 32 (sh.op32.length + 4) - BitVec.ofNat 32 2).truncate 8).signExtend 64 = off)) := by
  intro ip i32 rel64
  have hx : x86JmpLabel s sh opt l =
      (if !s.arch.is32 && !isInt32 rel64 then (s, .invalidDisplacement) else emitJmpCallRel s sh opt (rel64.truncate 32)) := by
    unfold x86JmpLabel
    simp only [hl, if_true]
    rfl
  refine ⟨fun hr => ?_, fun hr => ⟨?_, rel32_reaches ip i32 off hr, fun h8 => ?_⟩⟩
  · rw [hx, h64, hr]; rfl
  · rw [hx, h64, hr]; rfl
  · have hlen : BitVec.ofNat 32 (sh.op32.length + 4) = i32.truncate 32 := by
      simp [i32, BitVec.truncate_eq_setWidth, BitVec.setWidth_ofNat_of_le]
    have hsmall : i32 ≤ 15#64 := by
      rw [BitVec.le_def]; simp only [i32, BitVec.toNat_ofNat]; omega
    rw [hlen] at h8 ⊢
    exact rel8_reaches ip i32 off hsmall hr h8

/-- **direct_rip_site.** 64-bit mode, `[rip + label + disp]` with the label already bound in the current section, followed
by `imm` immediate bytes: refused when out of disp32 range, otherwise the disp32 written - read from the end of the
instruction - designates `label offset + disp`. -/
theorem direct_rip_site (s : State) (sh : MShape) (l : Nat) (disp : BitVec 32) (off : BitVec 64)
    (hl : s.labels[l]? = some (.bound s.cur off)) (h64 : s.arch.is32 = false) :
    let fieldPos := BitVec.ofNat 64 (s.curOff + sh.lead.length)
    let k := BitVec.ofNat 64 (4 + sh.imm.length)
    let rel := disp.signExtend 64 - k + (off - fieldPos)
    (isInt32 rel = false → x86MemLabel s sh l disp = (s, .invalidDisplacement)) ∧
    (isInt32 rel = true →
      x86MemLabel s sh l disp = (s.emit (sh.lead ++ leBytes (rel.truncate 32).toNat 4 ++ sh.imm), .ok) ∧
      fieldPos + k + (rel.truncate 32).signExtend 64 = off + disp.signExtend 64) := by
  intro fieldPos k rel
  have hx : x86MemLabel s sh l disp =
      (if !isInt32 rel then (s, .invalidDisplacement) else (s.emit (sh.lead ++ leBytes (rel.truncate 32).toNat 4 ++ sh.imm), .ok)) := by
    unfold x86MemLabel
    simp only [hl, h64, if_true]
    rfl
  refine ⟨fun hr => by rw [hx, hr]; rfl, fun hr => ⟨by rw [hx, hr]; rfl, ?_⟩⟩
  simp only [isInt32, beq_iff_eq] at hr
  rw [hr]
  show fieldPos + k + (disp.signExtend 64 - k + (off - fieldPos)) = off + disp.signExtend 64
  simp only [BitVec.sub_eq_add_neg]
  have h1 : fieldPos + k + (BitVec.signExtend 64 disp + -k + (off + -fieldPos)) =
      (fieldPos + -fieldPos) + (k + -k) + (off + BitVec.signExtend 64 disp) := by ac_rfl
  rw [h1, BitVec.add_right_neg, BitVec.add_right_neg]
  simp

/-- **direct_a64_site.** AArch64 b/bl/b.cond/cbz/tbz/adr/adrp/ldr-literal to a label already bound in the current section:
the instruction word that is emitted decodes (Spec/Offset) to exactly `label offset - instruction offset + addend`, or the site
is refused with InvalidDisplacement - nothing is truncated. -/
theorem direct_a64_site (s : State) (opcode : BitVec 32) (k : A64Kind) (l : Nat) (addend off : BitVec 64)
    (hl : s.labels[l]? = some (.bound s.cur off)) (hop : opcode &&& fieldMask32 k.fmt = 0#32) :
    a64RelLabel s opcode k l addend = (s, .invalidDisplacement) ∨
    ∃ w, a64RelLabel s opcode k l addend = (s.emit (leBytes w.toNat 4), .ok) ∧
      decode32 k.fmt w = off - BitVec.ofNat 64 s.curOff + addend := by
  unfold a64RelLabel
  simp only [hl, if_true]
  cases hd : dispImm k.fmt (off - BitVec.ofNat 64 s.curOff + addend) opcode with
  | none => left; rfl
  | some w => right; exact ⟨w, rfl, dispImm_exact k _ opcode w hop hd⟩

end AsmjitVerif.CodeHolder
