/-
C19 — Constant pool returns aligned, stable, deduplicated offsets with exact contents.

Model: `Model/ConstPool.lean` (ConstPool::add / ConstPool_addGap / fill / reset, embed_const_pool's data effect).
Meaning of the property: `Spec/ConstPool.lean` (observer-level monitor `accepts`, no knowledge of trees or gaps).
Every theorem below quantifies over ALL histories (lists of `add data` with any byte string of any length – valid and
invalid sizes –, `reset`, `fill`, `embed`); none has a bound.  Helper lemmas: `Lemmas/ConstPool*.lean`.

`Reach s` = "s is the pool after some history"; by `reachable_inv` such a pool satisfies the invariant `Inv`.
-/
import AsmjitVerif.Lemmas.ConstPoolImage
import AsmjitVerif.Lemmas.ConstPoolEmit
namespace AsmjitVerif.ConstPool
open Spec

/-- `s` is the state of the pool after some history starting from `reset()` -/
def Reach (s : Pool) : Prop := ∃ ops, s = run ops

/-- **Refinement.** For every history the specification monitor accepts every answer the model gives: offsets
aligned / inside the reported size / covered by the alignment, equal constants ⇒ equal offsets for ever, placed
constants agree wherever they overlap, refused adds change nothing, every `fill` image (taken at any time) has the
reported length, carries every accepted constant at its offset and is zero elsewhere, `embed_const_pool` binds the label
at a multiple of the alignment and does not disturb earlier bytes. -/
theorem model_accepted_by_spec (ops : List Op) : accepts (trace Pool.init ops) = true := by
  unfold accepts
  rw [firstBad_trace ops Pool.init Mon.init 0 Inv.init rfl rfl]; rfl

/-- every reachable pool satisfies the invariant (for the ghost history of its accepted constants) -/
theorem reachable_inv (s : Pool) (h : Reach s) : ∃ hist, Inv s hist := by
  obtain ⟨ops, rfl⟩ := h
  exact runFrom_inv_any ops Pool.init [] Inv.init

/-- a size outside {1,2,4,8,16,32,64} is refused and the pool is untouched (any pool, reachable or not) -/
theorem add_invalid_rejected (s : Pool) (d : Bytes) (h : validSize d.length = false) :
    add s d = (s, .invalidArgument) := add_invalid s d h

/-- a valid size is always accepted; the offset is a multiple of the size, the constant lies inside the reported pool
size, and the reported alignment is a multiple of the size -/
theorem add_aligned (s : Pool) (hr : Reach s) (d : Bytes) (hv : validSize d.length = true) :
    ∃ off, (add s d).2 = .ok off ∧ d.length ∣ off ∧ off + d.length ≤ (add s d).1.size ∧
      d.length ∣ (add s d).1.alignment ∧ d.length ≤ (add s d).1.alignment ∧ s.size ≤ (add s d).1.size := by
  obtain ⟨hist, hinv⟩ := reachable_inv s hr
  obtain ⟨off, hres, hinv', hsz, _⟩ := add_inv s hist d hinv hv
  have := entry_ok _ _ hinv' ⟨d, off⟩ List.mem_cons_self
  exact ⟨off, hres, this.1, this.2.1, this.2.2.1, this.2.2.2.2, hsz⟩

/-- **Dedup + stability.** Once `add d` returned `off`, every later `add d` – after any further adds / fills / embeds,
valid or invalid – returns the same `off` and leaves the pool unchanged. -/
theorem add_dedup_stable (s : Pool) (hr : Reach s) (d : Bytes) (off : Nat) (h : (add s d).2 = .ok off)
    (more : List Op) (hnr : NoReset more) :
    add (runFrom (add s d).1 more) d = (runFrom (add s d).1 more, .ok off) := by
  obtain ⟨hist, hinv⟩ := reachable_inv s hr
  have hv : validSize d.length = true := by
    cases hv : validSize d.length with
    | true => rfl
    | false => rw [add_invalid s d hv] at h; exact absurd h (by simp)
  obtain ⟨off', hres, hinv', _, _⟩ := add_inv s hist d hinv hv
  rw [hres] at h; simp only [Result.ok.injEq] at h; subst h
  obtain ⟨h2, hinv2, hsub, _⟩ := runFrom_inv more _ _ hinv' hnr
  obtain ⟨i, n, hi, hl, hget, hoff⟩ := hinv2.tree.histNode ⟨d, off'⟩ (hsub _ List.mem_cons_self)
  rw [add_hit _ d i hi hl n hget, hoff]

/-- **Exact contents, for ever.** The bytes of every image written after `add d` returned `off` – however many
constants were added in between – are `d` at `off`. -/
theorem fill_exact (s : Pool) (hr : Reach s) (d : Bytes) (off : Nat) (h : (add s d).2 = .ok off)
    (more : List Op) (hnr : NoReset more) :
    slice (fill (runFrom (add s d).1 more)) off d.length = d := by
  obtain ⟨hist, hinv⟩ := reachable_inv s hr
  have hv : validSize d.length = true := by
    cases hv : validSize d.length with
    | true => rfl
    | false => rw [add_invalid s d hv] at h; exact absurd h (by simp)
  obtain ⟨off', hres, hinv', _, _⟩ := add_inv s hist d hinv hv
  rw [hres] at h; simp only [Result.ok.injEq] at h; subst h
  obtain ⟨h2, hinv2, hsub, _⟩ := runFrom_inv more _ _ hinv' hnr
  exact slice_of_pointwise _ _ _ (hist_image _ _ hinv2 ⟨d, off'⟩ (hsub _ List.mem_cons_self))

/-- the image has exactly the reported size (no write outside `[0, size)`) -/
theorem fill_length (s : Pool) (hr : Reach s) : (fill s).length = s.size := by
  obtain ⟨hist, hinv⟩ := reachable_inv s hr
  exact (fill_facts s hist hinv).1

/-- **Gaps are zero.** A position of the image that no storage-owning constant covers holds 0. -/
theorem fill_gaps_zero (s : Pool) (hr : Reach s) (p : Nat) (hp : p < s.size)
    (hfree : ∀ i n, NS s.tree i n → ¬ (n.offset ≤ p ∧ p < n.offset + 2 ^ i)) : (fill s)[p]? = some 0#8 := by
  obtain ⟨hist, hinv⟩ := reachable_inv s hr
  rcases (fill_facts s hist hinv).2 p with ⟨h1, _⟩ | ⟨i, n, hns, h3, h4, _⟩
  · rw [h1]; simp [hp]
  · exact absurd ⟨h3, h4⟩ (hfree i n hns)

/-- **Distinct storage never overlaps.** Two storage-owning nodes of a reachable pool are the same node or occupy
disjoint ranges; every recorded gap is disjoint from every storage-owning node and from every other gap. -/
theorem storage_disjoint (s : Pool) (hr : Reach s) :
    (∀ i j a b, NS s.tree i a → NS s.tree j b → (i = j ∧ a = b) ∨ a.offset + 2 ^ i ≤ b.offset ∨ b.offset + 2 ^ j ≤ a.offset) ∧
    (∀ i g j n, g ∈ getAt s.gaps i → NS s.tree j n → g.offset + g.size ≤ n.offset ∨ n.offset + 2 ^ j ≤ g.offset) ∧
    (∀ i j a b, a ∈ getAt s.gaps i → b ∈ getAt s.gaps j → i ≠ j → GDisj a b) := by
  obtain ⟨hist, hinv⟩ := reachable_inv s hr
  exact ⟨hinv.tree.disj, hinv.gaps.node, fun i j a b ha hb hij => hinv.gaps.cross i j hij a ha b hb⟩

/-- a shared (sub-constant) node lies inside a storage-owning node and carries exactly that node's bytes there;
every node of tree `i` has `2^i` bytes, an offset that is a multiple of `2^i`, and lies inside the pool -/
theorem nodes_wellformed (s : Pool) (hr : Reach s) (i : Nat) (n : Node) (hn : n ∈ getAt s.tree i) :
    i < 7 ∧ n.data.length = 2 ^ i ∧ 2 ^ i ∣ n.offset ∧ n.offset + 2 ^ i ≤ s.size ∧ 2 ^ i ∣ s.alignment ∧
    slice (fill s) n.offset (2 ^ i) = n.data := by
  obtain ⟨hist, hinv⟩ := reachable_inv s hr
  have hok := hinv.tree.ok i n hn
  refine ⟨hok.idx, hok.len, hok.al, hok.fit, ?_, ?_⟩
  · rcases hinv.pow with h0 | ⟨k, hk⟩
    · have := hok.le; have := Nat.two_pow_pos i; omega
    · rw [hk]; have := hok.le; rw [hk] at this
      exact Nat.pow_dvd_pow 2 ((Nat.pow_le_pow_iff_right (by decide)).1 this)
  · rw [← hok.len]
    exact slice_of_pointwise _ _ _ (fun k hk => fill_node s hist hinv i n hn k (by rw [← hok.len]; exact hk))

/-- `embed_const_pool` (data effect): label at a multiple of the alignment, earlier bytes intact, image follows -/
theorem embed_aligned (s : Pool) (pad : BitVec 8) (pre : Bytes) :
    pre.length ≤ (embed pad pre s).1 ∧ (embed pad pre s).1 % max s.alignment 1 = 0 ∧
    (embed pad pre s).2.take pre.length = pre ∧ (embed pad pre s).2.drop (embed pad pre s).1 = fill s := by
  have hge := alignUp_ge pre.length s.alignment
  refine ⟨hge, alignUp_mod _ _, by simp [embed], ?_⟩
  simp only [embed]
  rw [← List.append_assoc]
  apply List.drop_left'
  simp; omega

/-! ### pools in the section: `embed_const_pool`, the Compiler's local / global pools -/

/-- `embed_const_pool` is refused exactly for an invalid or an already bound label (and then nothing is emitted: the
result carries no section) -/
theorem embedPool_refused_iff (pad : BitVec 8) (s : Sect) (l : Nat) (p : Pool) :
    (∃ e, embedPool pad s l p = .error e) ↔ (¬ l < s.nlabels ∨ (s.offsetOf l).isSome = true) := by
  unfold embedPool
  by_cases h1 : l < s.nlabels
  · cases h2 : s.offsetOf l <;> simp [h1]
  · simp [h1]

/-- an accepted `embed_const_pool`: earlier bytes and label bindings are kept, no label is created, the label is bound at
a multiple of the pool alignment and the pool image follows it -/
theorem embedPool_ok_spec (pad : BitVec 8) (s s' : Sect) (l : Nat) (p : Pool) (h : embedPool pad s l p = .ok s') :
    Ext s s' ∧ Placed s' ⟨l, p⟩ :=
  ⟨embedPool_ext h, embedPool_placed (cp := ⟨l, p⟩) h⟩

/-- serialisation of a finished Compiler never hits a refused `embed_const_pool`: every pool node of the final node list
(ended functions' local pools, the global pool) is placed – label bound at a multiple of its alignment, image behind it -/
theorem compile_pools_placed (pad : BitVec 8) (epi : Bytes) (ops : List COp) :
    ∀ cp ∈ poolsOfItems (finalizeNodes (crun Comp.init ops) epi), Placed (compile pad epi ops) cp := by
  have hc := crun_cinv ops Comp.init CInv.init
  have hsub : (poolsOfItems (finalizeNodes (crun Comp.init ops) epi)).Sublist (poolsOf (crun Comp.init ops)) := by
    rw [finalize_pools]; unfold poolsOf
    exact List.Sublist.append_left (List.sublist_append_right _ _) _
  unfold compile layout
  refine layoutFold_placed pad _ _ (fun cp h => ⟨hc.2 cp (hsub.subset h), by simp [Sect.empty, Sect.offsetOf]⟩) ?_
  exact (hc.1).sublist (hsub.map _)

/-- **Constants of the Compiler.** `_new_const` answered `[label + disp]` for the bytes `d`.  Whatever follows (more
constants in any scope, code, functions opened and ended), after `finalize` there is a pool node with that label that
still has `d` at the returned offset; and unless that node is a local pool whose function was never ended, the label is
bound in the section at a multiple of the pool alignment, the section carries `d` at `label + off`, and that position is
a multiple of the constant's size.  (`disp = int32 off`; they agree below 2 GiB: `int32_of_lt`.) -/
theorem compile_const_in_image (pad : BitVec 8) (epi : Bytes) (pre post : List COp) (sc : Scope) (d : Bytes)
    (label : Nat) (disp : Int) (h : (newConst (crun Comp.init pre) sc d).2 = .mem label disp) :
    ∃ off cp, disp = int32 off ∧ cp ∈ poolsOf (crun Comp.init (pre ++ COp.newConst sc d :: post)) ∧ cp.label = label ∧
      d.length ∣ off ∧ off + d.length ≤ cp.pool.size ∧ d.length ∣ cp.pool.alignment ∧
      ((crun Comp.init (pre ++ COp.newConst sc d :: post)).loc ≠ some cp →
        ∃ L, (compile pad epi (pre ++ COp.newConst sc d :: post)).offsetOf label = some L ∧
          L % max cp.pool.alignment 1 = 0 ∧
          slice (compile pad epi (pre ++ COp.newConst sc d :: post)).buf (L + off) d.length = d ∧
          (L + off) % d.length = 0) := by
  have hall1 := (crun_keeps pre Comp.init AllInv.init).1
  obtain ⟨hst, hans⟩ := newConst_state (crun Comp.init pre) sc d
  obtain ⟨hist, hinv⟩ := curPool_inv (crun Comp.init pre) sc hall1
  rw [hans] at h
  cases hr : (add (curPool (crun Comp.init pre) sc).pool d).2 with
  | invalidArgument => rw [hr] at h; simp at h
  | ok off =>
    rw [hr] at h
    simp only [ConstAnswer.mem.injEq] at h
    obtain ⟨hlab, hdisp⟩ := h
    have hv : validSize d.length = true := by
      cases hv : validSize d.length with
      | true => rfl
      | false => rw [add_invalid _ d hv] at hr; exact absurd hr (by simp)
    obtain ⟨off', hres, hinv', _, _⟩ := add_inv _ hist d hinv hv
    rw [hr] at hres; simp only [Result.ok.injEq] at hres; subst hres
    -- right after the call the constant is held by the scope's pool node
    have hold2 : HoldsIn (cstep (crun Comp.init pre) (.newConst sc d)) label off d := by
      refine ⟨⟨(curPool (crun Comp.init pre) sc).label, (add (curPool (crun Comp.init pre) sc).pool d).1⟩, ?_, hlab, _, hinv', List.mem_cons_self⟩
      simp only [cstep]; rw [hst]
      cases sc with
      | loc => exact (mem_poolsOf _ _).2 (Or.inr (Or.inl rfl))
      | glob => exact (mem_poolsOf _ _).2 (Or.inr (Or.inr rfl))
    have hall2 := (cstep_keeps (crun Comp.init pre) (.newConst sc d) hall1).1
    have hrun : crun Comp.init (pre ++ COp.newConst sc d :: post) = crun (cstep (crun Comp.init pre) (.newConst sc d)) post := by
      simp [crun, List.foldl_append]
    obtain ⟨cp, hmem, hl, hist3, hinv3, he3⟩ := (crun_keeps post _ hall2).2 label off d hold2
    rw [← hrun] at hmem
    have hok := entry_ok _ _ hinv3 _ he3
    refine ⟨off, cp, hdisp.symm, hmem, hl, hok.1, hok.2.1, hok.2.2.1, fun hnl => ?_⟩
    have hin : cp ∈ poolsOfItems (finalizeNodes (crun Comp.init (pre ++ COp.newConst sc d :: post)) epi) := by
      rw [finalize_pools]
      rcases (mem_poolsOf _ cp).1 hmem with h1 | h1 | h1
      · exact List.mem_append_left _ h1
      · exact absurd h1 hnl
      · exact List.mem_append_right _ (by simp [h1])
    obtain ⟨L, hb, hal, hfit, hsl⟩ := compile_pools_placed pad epi _ cp hin
    have hflen : (fill cp.pool).length = cp.pool.size := (fill_facts _ _ hinv3).1
    refine ⟨L, hl ▸ hb, hal, ?_, ?_⟩
    · have h1 : slice (fill cp.pool) off d.length = d := slice_of_pointwise _ _ _ (hist_image _ _ hinv3 _ he3)
      rw [← slice_slice _ L (fill cp.pool).length off d.length (by rw [hflen]; exact hok.2.1), hsl]; exact h1
    · have hpos := hok.2.2.2.1
      have hle := hok.2.2.2.2
      have hmax : max cp.pool.alignment 1 = cp.pool.alignment := by simp only at hle hpos; omega
      rw [hmax] at hal
      have h1 : d.length ∣ L := Nat.dvd_trans hok.2.2.1 (Nat.dvd_of_mod_eq_zero hal)
      exact Nat.mod_eq_zero_of_dvd (Nat.dvd_add h1 hok.1)

/-! ### the 32-bit `Node::_offset` and the `int32_t` displacement -/

/-- while the pool stays within 4 GiB the truncation of the stored offsets changes nothing: every theorem above is a
theorem about the C++ with its `uint32_t` field -/
theorem add32_eq_add_below_4GiB (s : Pool) (hr : Reach s) (d : Bytes) (h : (add s d).1.size ≤ 2 ^ 32) :
    add32 s d = add s d := by
  obtain ⟨hist, hinv⟩ := reachable_inv s hr
  have hinv' : ∃ h2, Inv (add s d).1 h2 := by
    by_cases hv : validSize d.length = true
    · obtain ⟨off, _, hi, _, _⟩ := add_inv s hist d hinv hv; exact ⟨_, hi⟩
    · have hv' : validSize d.length = false := by simpa using hv
      rw [add_invalid s d hv']; exact ⟨hist, hinv⟩
  obtain ⟨h2, hi2⟩ := hinv'
  unfold add32
  have : wrapTree (add s d).1.tree = (add s d).1.tree := by
    apply wrapTree_id
    intro i n hn
    have hok := hi2.tree.ok i n hn
    have := hok.fit; have := Nat.two_pow_pos i; omega
  simp only [this]

/-- … and the first pool size at which it does: in a pool of exactly 4 GiB (the state below satisfies the invariant; a
reachable one needs 2^26 distinct 64-byte constants) a new constant is placed at offset 2^32, but asking for it again
returns 0 – the same constant, two offsets.  Not reachable in this sandbox (memory); listed as a limit, not a defect. -/
theorem add32_dedup_breaks_at_4GiB_witness :
    Inv { Pool.init with size := 2 ^ 32 } [] ∧
    (add32 { Pool.init with size := 2 ^ 32 } [1#8]).2 = .ok (2 ^ 32) ∧
    (add32 (add32 { Pool.init with size := 2 ^ 32 } [1#8]).1 [1#8]).2 = .ok 0 := by
  refine ⟨?_, by decide, by decide⟩
  refine ⟨⟨?_, ?_, ?_, ?_, ?_⟩, ⟨?_, ?_, ?_, ?_⟩, Or.inl rfl⟩ <;> simp [Pool.init, NS, getAt_nil]

/-- `_new_const` stores `int32_t(off)` in the memory operand: exact below 2 GiB, negative from 2 GiB on -/
theorem newConst_disp_int32 : (∀ n, n < 2 ^ 31 → int32 n = Int.ofNat n) ∧ int32 (2 ^ 31) = -(2 ^ 31 : Int) :=
  ⟨int32_of_lt, by decide⟩

/-! ### non-vacuity: the hypotheses are satisfiable and the monitor is not trivially true -/

-- a history with dedup, a shared sub-constant, gap creation and gap reuse; the model's answers are the expected ones
example : (trace Pool.init [.add [1#8], .add [1#8, 2#8, 3#8, 4#8, 5#8, 6#8, 7#8, 8#8], .add [5#8, 6#8, 7#8, 8#8], .add [9#8, 9#8],
    .add [1#8], .add [1#8, 2#8, 3#8], .fill]).map (fun o => match o with
      | .add _ (.ok off) sz _ => (off, sz) | .add _ .invalidArgument sz _ => (999, sz) | .fill img _ _ => (img.length, 0) | _ => (0, 0))
    = [(0, 1), (8, 16), (12, 16), (2, 16), (0, 16), (999, 16), (16, 0)] := by decide
example : Reach (run [.add [1#8], .add [1#8, 2#8]]) := ⟨_, rfl⟩
example : NoReset [.add [7#8], .fill] := by intro o ho; simp at ho; rcases ho with rfl | rfl <;> simp
-- the monitor rejects wrong answers: misaligned offset, lost dedup, overlap with different bytes, dirty gap, short image
example : accepts [.add [1#8, 2#8] (.ok 1) 3 2] = false := by decide
example : accepts [.add [1#8] (.ok 0) 1 1, .add [1#8] (.ok 1) 2 1] = false := by decide
example : accepts [.add [1#8, 2#8] (.ok 0) 2 2, .add [3#8] (.ok 1) 2 2] = false := by decide
example : accepts [.add [1#8] (.ok 0) 1 1, .add [1#8, 2#8] (.ok 2) 4 2, .fill [1#8, 7#8, 1#8, 2#8] 4 2] = false := by decide
example : accepts [.add [1#8] (.ok 0) 1 1, .fill [] 1 1] = false := by decide
example : accepts [.add [1#8, 2#8, 3#8] (.ok 0) 3 1] = false := by decide
example : accepts [.add [1#8, 2#8] (.ok 0) 2 0] = false := by decide   -- alignment 0 covers nothing
example : accepts [.add [1#8] (.ok 0) 1 1, .add [1#8, 2#8] (.ok 2) 4 2, .fill [1#8, 0#8, 1#8, 2#8] 4 2] = true := by decide

-- Compiler: two functions with local pools, a global pool, a constant handed out before its function is ended
example : (compile 0xCC#8 [0xC3#8] [.addFunc [], .newConst .loc [1#8, 2#8], .newConst .glob [9#8], .code [0x90#8], .endFunc [0xC3#8],
    .addFunc [], .newConst .loc [7#8], .endFunc [0xC3#8], .newConst .glob [5#8, 6#8]]).buf
    = [0x90#8, 0xC3#8, 1#8, 2#8, 0xC3#8, 7#8, 9#8, 0#8, 5#8, 6#8] := by decide
example : (newConst (crun Comp.init [.addFunc []]) .loc [1#8, 2#8]).2 = .mem 0 0 := by decide
example : (embedPool 0xCC#8 (newLabel (Sect.empty 0)) 0 (run [.add [1#8, 2#8]])).toOption.map (·.buf) = some [1#8, 2#8] := by decide
example : ∃ e, embedPool 0#8 (Sect.empty 0) 0 Pool.init = .error e := ⟨_, rfl⟩

end AsmjitVerif.ConstPool
