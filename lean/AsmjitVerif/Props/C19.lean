import AsmjitVerif.Model.ConstPool
import AsmjitVerif.Spec.ConstPool
namespace AsmjitVerif.ConstPool
open Spec

/-- a size that is 0 or above 64 is refused and leaves the pool untouched -/
theorem add_out_of_range_rejected (s : Pool) (d : Bytes) (h : d.length = 0 ∨ d.length > 64) :
    add s d = (s, .invalidArgument) := by
  unfold add; simp [kMaxSize, h]

end AsmjitVerif.ConstPool
