/-
C12 — theorems about the hand model of `query_rw_info` (Model/X86RW.lean) that hold for ALL inputs (every `OpRWInfo`, every mask),
not only for the rows of the behaviour table.  The model is tied to x86instapi.cpp by the correspondence on every query of the
sweep (0 differing answers on the repaired tree).
-/
import AsmjitVerif.Model.X86RW
import AsmjitVerif.Lemmas.X86RW
namespace Props.C12Model
open Model.X86RW Lemmas.X86RW

/-! ### theorems about the model of `query_rw_info` for ALL inputs (tied to the C++ by the correspondence on every query) -/

/-- `rw_handle_avx512`: merge-masking makes operand 0 a read operand whose read mask contains its write mask -/
theorem model_merge_masking_reads_dest (inst : Inst) (out : RWOut) (o : OpRW) (rest : List OpRW)
    (hk : inst.extraType = tMask) (hz : has inst.options oZMask = false) (hops : out.ops = o :: rest) :
    ∃ o', (handleAvx512 inst false out).ops = o' :: rest ∧ has o'.flags fR = true ∧ Nat.land o'.rmask o.wmask = o.wmask
      ∧ (handleAvx512 inst false out).extra.rmask = 0xFF ∧ has (handleAvx512 inst false out).extra.flags fR = true := by
  refine ⟨{ o with flags := Nat.lor o.flags fR, rmask := Nat.lor o.rmask o.wmask }, ?_, ?_, ?_, ?_, ?_⟩
  · simp [handleAvx512, hk, hz, hops, setOp]
  · exact has_lor_self _ _ (by decide)
  · show (o.rmask ||| o.wmask) &&& o.wmask = o.wmask
    apply Nat.eq_of_testBit_eq; intro i
    simp only [Nat.testBit_and, Nat.testBit_or]
    cases o.rmask.testBit i <;> cases o.wmask.testBit i <;> rfl
  · simp [handleAvx512, hk, hz, hops]
  · simp [handleAvx512, hk, hz, hops]
    exact has_lor_self _ _ (by decide)

/-- `rw_zero_extend_gp` in 64-bit mode: a 32-bit destination is reported as changing all eight bytes (written ∪ zero-extended) and
    carries `kZExt`, whatever the write mask was -/
theorem model_gp_write32_covers_register (o : OpRW) :
    Nat.land (Nat.lor (zeroExtendGp o 4 8).wmask (zeroExtendGp o 4 8).emask) 0xFF = 0xFF ∧ has (zeroExtendGp o 4 8).flags fZExt = true := by
  constructor
  · simp only [zeroExtendGp, Nat.reduceAdd, BEq.rfl, ↓reduceIte, not64]
    show (o.wmask ||| ((o.wmask &&& mask64) ^^^ mask64) &&& 0xFF) &&& 0xFF = 0xFF
    apply Nat.eq_of_testBit_eq; intro i
    simp only [Nat.testBit_and, Nat.testBit_or, Nat.testBit_xor, testBit_mask64, testBit_ff]
    by_cases h : i < 8
    · have h64 : i < 64 := by omega
      simp only [h, h64, decide_true, Bool.and_true]
      cases o.wmask.testBit i <;> rfl
    · simp [h]
  · simp only [zeroExtendGp, Nat.reduceAdd, BEq.rfl, ↓reduceIte]
    exact has_lor_self _ _ (by decide)

/-- … and claims nothing for any other register size (8/16-bit writes keep the other bytes, 64-bit writes need none) -/
theorem model_gp_no_zero_extension_other_sizes (o : OpRW) (s : Nat) (hs : s ≠ 4) : zeroExtendGp o s 8 = o := by
  have : (s + 4 == 8) = false := by
    cases h : (s + 4 == 8) with
    | false => rfl
    | true => exact absurd (by have := beq_iff_eq.mp h; omega) hs
  simp [zeroExtendGp, this]

-- non-vacuity: `vaddpd xmm1{k1}, xmm2, xmm3`-like output, 32-bit destination with a 4-byte write mask
example : (handleAvx512 ⟨1, 0, tMask, 1⟩ false ⟨0, 0, 0, 0, {}, [OpRW.reset fW 16, OpRW.reset fR 16]⟩).ops.head?.map (·.flags) = some 3 := by decide
example : (zeroExtendGp (OpRW.reset fW 4) 4 8).emask = 0xF0 := by decide
example : (zeroExtendGp (OpRW.reset fW 2) 2 8).emask = 0 := by decide

end Props.C12Model
