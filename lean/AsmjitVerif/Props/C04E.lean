/-
C04, region ownership of relocation entries over ALL programs (Lemmas/RelInv.lean, Lemmas/RelStep.lean).

 * `relocs_own_their_regions`  for every program of assembling operations, on every architecture and base: every RelocEntry's
      region `[source offset, + region size)` lies inside its section's buffer, contains the value word, its value word still has
      zero field bits (nothing has written there: neither later emissions nor any bind / resolve patch), its format is one of the
      formats proved exact in C17, no entry lives in the `.addrtab` section, address-table entries have their two opcode bytes inside
      the region
      (`value offset + value size ≤ region size`, so `relocate_to_base`'s bounds test never fails and `write_offset` - and the
      two opcode bytes the address-table rewrite touches - stay inside the entry's own instruction); regions of distinct
      entries are pairwise disjoint; and every region is disjoint from the field of every fixup reference (so neither
      `bind_label` nor `resolve_cross_section_fixups` ever writes into a relocation site, and relocation never overwrites a
      resolved label reference).
 * `relocs_own_their_regions_final`  the same after the final `flatten; resolve` (the state `relocate_to_base` starts from).
Together with the per-entry arithmetic for all bases (Props/C04: `abs_to_rel_reaches`, `abs_to_rel_refused_unreachable`,
`abs_to_rel_32bit_wraps`, `addr_table_slot_reached`, `rel_to_abs_value`, `known_base_equiv_*`) and the byte meaning of an accepted
write (C03 `patched_field_designates`, C17) this is the frame argument for relocation.  NOT yet composed into one statement
"after relocate B every entry's field designates its target" (the fold over the entry list with these disjointness facts, incl.
the address-table section); that composition is evaluated by the monitor on every explored program x base.
-/
import AsmjitVerif.Lemmas.TabInv
import AsmjitVerif.Lemmas.PayInv
import AsmjitVerif.Props.C04
import AsmjitVerif.Props.C03E
namespace AsmjitVerif.CodeHolder
open AsmjitVerif.Offset

theorem rinv_init (arch : Arch) (base : BitVec 64) : RInv (State.init arch base) := by
  refine ⟨?_, ?_, ?_, ?_, ?_⟩ <;> simp [State.init]

/-- **region ownership (assembling phase).** -/
theorem relocs_own_their_regions (arch : Arch) (base : BitVec 64) (ops : List Op) (hops : ∀ op ∈ ops, op.early = true) :
    RInv (run (State.init arch base) ops) :=
  (run_rinv _ ops hops (inv_init arch base) (rinv_init arch base)).1

theorem grow_resolve (s : State) (h : Inv s) : Grow s (resolve s).1 := by
  unfold resolve
  split
  · exact grow_refl s
  · dsimp only
    have hrl : RList s.labels s.fixups := by
      refine ⟨?_, h.glob.2⟩
      intro f hf
      obtain ⟨l, hl, hg⟩ := h.glob.1 f hf
      obtain ⟨k, lsec, loff, hk, hb⟩ := h.wf f hf
      rw [hl] at hk; cases hk
      exact ⟨l, lsec, loff, hl, hb, h.fmts _ hg⟩
    have LS := resolveLoop_spec s.labels s.fixups { secs := s.secs, relocs := s.relocs, kept := [], resolved := 0, err := .ok } hrl
    refine ⟨LenExt.of_shape LS.shape, ?_, ⟨[], by simp, by simp, fun _ hx => by cases hx⟩, ⟨[], by simp, fun _ hx => by cases hx⟩, .inr rfl,
      .inl rfl, id⟩
    intro g _ hD
    apply LS.frame
    intro f hf
    obtain ⟨l, _, hgf⟩ := h.glob.1 f hf
    have hd : D g (f.toG l) := hD _ hgf
    exact hd

/-- **region ownership in the state `relocate_to_base` starts from** -/
theorem relocs_own_their_regions_final (arch : Arch) (base : BitVec 64) (ops : List Op) (hops : ∀ op ∈ ops, op.early = true) :
    RInv (run (State.init arch base) (ops ++ [.flatten, .resolve])) := by
  obtain ⟨hr, hi⟩ := run_rinv _ ops hops (inv_init arch base) (rinv_init arch base)
  have hr1 := step_rinv _ .flatten rfl hi hr
  have hi1 := step_inv _ .flatten rfl hi
  have e : run (State.init arch base) (ops ++ [.flatten, .resolve]) = (resolve (step (run (State.init arch base) ops) .flatten).1).1 := by
    rw [run_append]; simp [run, step]
  rw [e]
  exact rinv_grow hr1 hi1 (grow_resolve _ hi1)

/-- **reloc_abs_correct / reloc_rel_correct, one entry at a time, for every program and every base.**
Take any program of the menu followed by `flatten; resolve`, any base `B`, and any relocation entry of the resulting state
whose value is 1/2/4 bytes wide and that is not routed through the address table. If the loop body of
`relocate_to_base(B)` succeeds on it, the value word decodes (Spec/Offset.lean) to exactly `relocValue`:
`B + target section offset + payload` for RelToAbs (embedded label addresses, 32-bit absolute operands),
`payload − (B + section offset + source offset + region size)` for AbsToRel / X64AddressEntry (so by `abs_to_rel_reaches`
the CPU's end-of-instruction + rel32 is the payload; range tested in 64-bit mode, wrapped in 32-bit mode), the expression
value for label deltas.  The preconditions (zero field, exact format, bounds) come from `relocs_own_their_regions_final`.
Not yet composed over the whole entry list (that needs the per-step frame incl. the address-table section), nor for 8-byte
values and the table form. -/
theorem reloc_entry_correct (arch : Arch) (base0 : BitVec 64) (ops : List Op) (hops : ∀ op ∈ ops, op.early = true)
    (B : BitVec 64) (re : Reloc) (hre : re ∈ (run (State.init arch base0) (ops ++ [.flatten, .resolve])).relocs)
    (h8 : re.fmt.valueSize ≠ 8) (v : BitVec 64)
    (hv : relocValue (run (State.init arch base0) (ops ++ [.flatten, .resolve])) B
            (run (State.init arch base0) (ops ++ [.flatten, .resolve])).secs re = some v)
    (acc' : RelocAcc)
    (hok : relocStep (run (State.init arch base0) (ops ++ [.flatten, .resolve])) B
            { secs := (run (State.init arch base0) (ops ++ [.flatten, .resolve])).secs,
              addrTab := (run (State.init arch base0) (ops ++ [.flatten, .resolve])).addrTab, nSlots := 0 } re = .ok acc') :
    ∃ new, field acc'.secs re.rgn.val = some new ∧ decode32 re.fmt (BitVec.ofNat 32 new) = v :=
  reloc_entry_exact _ (relocs_own_their_regions_final arch base0 ops hops) B re hre h8 v hv acc' hok

/-- **relocation of a whole program, every base.** For every program of the menu followed by `flatten; resolve`, and every base
`B`: if `relocate_to_base(B)` returns kOk then every relocation entry of the program is done (`EntryDone`): its value word -
1, 2, 4 or 8 bytes, at any value offset - decodes under Spec/Offset.lean to exactly the specified value; entries routed through
the address table hold the rel32 that reaches their slot.  (The fold over the entry list composed with
`relocs_own_their_regions_final`: each iteration touches only its own region and the address-table section.) -/
theorem reloc_correct (arch : Arch) (base0 : BitVec 64) (ops : List Op) (hops : ∀ op ∈ ops, op.early = true)
    (B : BitVec 64) (s' : State) (n : Nat)
    (h : relocate (run (State.init arch base0) (ops ++ [.flatten, .resolve])) B = (s', .ok, n)) :
    ∀ re ∈ (run (State.init arch base0) (ops ++ [.flatten, .resolve])).relocs,
      EntryDone { run (State.init arch base0) (ops ++ [.flatten, .resolve]) with base := B } B
        (run (State.init arch base0) (ops ++ [.flatten, .resolve])).secs s'.secs re :=
  relocate_spec _ (relocs_own_their_regions_final arch base0 ops hops) B s' n h

/-- **reloc_abs_correct.** RelToAbs entries (embedded label addresses, 32-bit absolute `[label]` operands): after a successful
relocation the value word is exactly `payload + base + target section offset` - never truncated (the unsigned format refuses
what does not fit, C17) -/
theorem reloc_abs_correct (arch : Arch) (base0 : BitVec 64) (ops : List Op) (hops : ∀ op ∈ ops, op.early = true)
    (B : BitVec 64) (s' : State) (n : Nat)
    (h : relocate (run (State.init arch base0) (ops ++ [.flatten, .resolve])) B = (s', .ok, n))
    (re : Reloc) (hre : re ∈ (run (State.init arch base0) (ops ++ [.flatten, .resolve])).relocs) (hty : re.type = .relToAbs) :
    ∃ t tgt, re.tgtSec = some t ∧ (run (State.init arch base0) (ops ++ [.flatten, .resolve])).secs[t]? = some tgt ∧
      RDecodes s'.secs re.rgn (re.payload + (B + tgt.offset)) := by
  rcases reloc_correct arch base0 ops hops B s' n h re hre with h0 | ⟨v, hv, hd⟩ | ⟨hx, _⟩
  · rw [hty] at h0; cases h0
  · unfold relocValue at hv
    simp only [hty] at hv
    cases ht : re.tgtSec with
    | none => rw [ht] at hv; cases hv
    | some t =>
      rw [ht] at hv
      simp only [Option.bind_some] at hv
      cases hs : (run (State.init arch base0) (ops ++ [.flatten, .resolve])).secs[t]? with
      | none => rw [hs] at hv; cases hv
      | some tgt =>
        rw [hs] at hv
        simp only [Option.map_some, Option.some.injEq] at hv
        exact ⟨t, tgt, rfl, hs, by rw [hv]; exact hd⟩
  · rw [hty] at hx; cases hx

/-- **reloc_rel_correct.** AbsToRel / X64AddressEntry entries in 64-bit mode: after a successful relocation either the rel32
`v` written satisfies `end of instruction + v = payload` exactly (with `end of instruction = B + section offset + source
offset + region size`), or - X64AddressEntry only - it is the rel32 that reaches the entry's address-table slot
(`Lemmas/RelLoop.relocPrep_spec`: the instruction was rewritten to `FF /2|/4` and the slot holds the payload). -/
theorem reloc_rel_correct (arch : Arch) (base0 : BitVec 64) (ops : List Op) (hops : ∀ op ∈ ops, op.early = true)
    (B : BitVec 64) (s' : State) (n : Nat)
    (h : relocate (run (State.init arch base0) (ops ++ [.flatten, .resolve])) B = (s', .ok, n))
    (re : Reloc) (hre : re ∈ (run (State.init arch base0) (ops ++ [.flatten, .resolve])).relocs)
    (hty : re.type = .absToRel ∨ re.type = .x64AddressEntry) (h64 : ¬ arch.regSize ≤ 4)
    (harch : (run (State.init arch base0) (ops ++ [.flatten, .resolve])).arch = arch) :
    let s := run (State.init arch base0) (ops ++ [.flatten, .resolve])
    let site := B + secOffset s.secs re.srcSec + BitVec.ofNat 64 re.srcOff + BitVec.ofNat 64 re.regionSize
    (∃ v, RDecodes s'.secs re.rgn v ∧ isInt32 v = true ∧ site + (v.truncate 32).signExtend 64 = re.payload) ∨
    (re.type = .x64AddressEntry ∧ ∃ v ats slot, s.addrTabSec = some ats ∧ isInt32 v = true ∧ RDecodes s'.secs re.rgn v ∧
      (B + secOffset s.secs re.srcSec + BitVec.ofNat 64 re.srcOff + BitVec.ofNat 64 re.regionSize) + (v.truncate 32).signExtend 64 =
        B + (secOffset s.secs ats + BitVec.ofNat 64 (slot * s.arch.regSize))) := by
  intro s site
  rcases reloc_correct arch base0 ops hops B s' n h re hre with h0 | ⟨v, hv, hd⟩ | ⟨hx, _, v, ats, slot, h1, h2, h3, hd⟩
  · rcases hty with e | e <;> rw [e] at h0 <;> cases h0
  · left
    unfold relocValue at hv
    have h4 : ¬ s.arch.regSize ≤ 4 := by rw [harch]; exact h64
    have key : ∀ x : BitVec 64, isInt32 x = true → x = re.payload - site → site + (x.truncate 32).signExtend 64 = re.payload := by
      intro x hx he
      have := abs_to_rel_reaches 0#64 site re.payload
      simp only [BitVec.zero_add] at this
      rw [he]; exact this (by rw [← he]; exact hx)
    rcases hty with e | e
    · simp only [e] at hv
      try dsimp only at hv
      split at hv
      · rename_i hc; exact absurd hc h4
      · split at hv
        · rename_i hi
          simp only [Option.some.injEq] at hv
          exact ⟨v, hd, by rw [← hv]; exact hi, key v (by rw [← hv]; exact hi) hv.symm⟩
        · cases hv
    · simp only [e] at hv
      try dsimp only at hv
      split at hv
      · rename_i hi
        simp only [Option.some.injEq] at hv
        exact ⟨v, hd, by rw [← hv]; exact hi, key v (by rw [← hv]; exact hi) hv.symm⟩
      · cases hv
  · right
    refine ⟨hx, v, ats, slot, h1, h2, hd, ?_⟩
    have := addr_table_slot_reached B (secOffset s.secs re.srcSec + BitVec.ofNat 64 re.srcOff + BitVec.ofNat 64 re.regionSize)
      (secOffset s.secs ats + BitVec.ofNat 64 (slot * s.arch.regSize))
    have h3' : v = secOffset s.secs ats + BitVec.ofNat 64 (slot * s.arch.regSize) -
        (secOffset s.secs re.srcSec + BitVec.ofNat 64 re.srcOff + BitVec.ofNat 64 re.regionSize) := h3
    rw [h3']
    have hi : isInt32 (secOffset s.secs ats + BitVec.ofNat 64 (slot * s.arch.regSize) -
        (secOffset s.secs re.srcSec + BitVec.ofNat 64 re.srcOff + BitVec.ofNat 64 re.regionSize)) = true := by rw [← h3']; exact h2
    have e := this hi
    rw [← e]
    congr 1
    ac_rfl

/-- **address-table state invariants over programs.** After any program of assembling operations followed by `flatten; resolve`:
the `.addrtab` section id (if the table exists) is a valid section index, and no table entry has a slot assigned
(`add_address_to_address_table` creates entries without one; only `relocate_to_base` assigns slots). -/
theorem addr_table_ready (arch : Arch) (base0 : BitVec 64) (ops : List Op) (hops : ∀ op ∈ ops, op.early = true) :
    TabIn (run (State.init arch base0) (ops ++ [.flatten, .resolve])) ∧ TabNone (run (State.init arch base0) (ops ++ [.flatten, .resolve])) := by
  obtain ⟨hi0, hn0⟩ := inv_tabs_init arch base0
  obtain ⟨hi, hn⟩ := run_tabs _ ops hops (inv_init arch base0) hi0 hn0
  have hinv := refs_invariant arch base0 ops hops
  have hinv1 := step_inv _ .flatten rfl hinv
  have e : run (State.init arch base0) (ops ++ [.flatten, .resolve]) = (resolve (step (run (State.init arch base0) ops) .flatten).1).1 := by
    rw [run_append]; simp [run, step]
  rw [e]
  constructor
  · exact tabIn_grow (tabIn_grow hi (step_grow _ .flatten rfl hinv)) (grow_resolve _ hinv1)
  · have h1 := step_tabNone _ .flatten (fun _ => trivial) (fun b e => by cases e) hn
    have h2 := step_tabNone _ .resolve (fun _ => trivial) (fun b e => by cases e) h1
    simpa [step] using h2

/-- **the address-table form, end to end.** For every program of the menu followed by `flatten; resolve` in 64-bit mode and every
base `B`: if `relocate_to_base(B)` returns kOk then every X64AddressEntry whose target no rel32 reaches has become
`FF /2` / `FF /4 [rip + rel32]`, that rel32 reaches slot `k` of the address table (`addr_table_slot_reached` turns the decoded value
into the run-time address `B + table offset + 8k`), and slot `k` lies inside the table's final buffer and holds the target - to the
end of the fold: slots are assigned once, never collide, later iterations write other slots or the same value
(`Lemmas/RelSlots.lean`: `SlotInv`, `relocLoop_slots`).
The two facts about the state before the call - the `.addrtab` id is a valid section, no entry has a slot yet - are the
invariant `addr_table_ready` of every program. -/
theorem reloc_table_correct (arch : Arch) (base0 : BitVec 64) (ops : List Op) (hops : ∀ op ∈ ops, op.early = true)
    (B : BitVec 64) (s' : State) (n : Nat) (ats : Nat)
    (h8 : (run (State.init arch base0) (ops ++ [.flatten, .resolve])).arch.regSize = 8)
    (hats : (run (State.init arch base0) (ops ++ [.flatten, .resolve])).addrTabSec = some ats)
    (h : relocate (run (State.init arch base0) (ops ++ [.flatten, .resolve])) B = (s', .ok, n)) :
    let s := run (State.init arch base0) (ops ++ [.flatten, .resolve])
    ∀ re ∈ s.relocs, re.type = .x64AddressEntry → relocValue { s with base := B } B s.secs re = none →
      ∃ (k : Nat) (nb : BitVec 8) (secF tF : Section),
        (nb = 0x15#8 ∨ nb = 0x25#8) ∧
        s'.secs[re.srcSec]? = some secF ∧ secF.buf[re.srcOff + re.fmt.valueOffset - 2]? = some 0xFF#8 ∧
        secF.buf[re.srcOff + re.fmt.valueOffset - 1]? = some nb ∧
        isInt32 (secOffset s.secs ats + BitVec.ofNat 64 (k * 8) -
          (secOffset s.secs re.srcSec + BitVec.ofNat 64 re.srcOff + BitVec.ofNat 64 re.regionSize)) = true ∧
        RDecodes s'.secs re.rgn (secOffset s.secs ats + BitVec.ofNat 64 (k * 8) -
          (secOffset s.secs re.srcSec + BitVec.ofNat 64 re.srcOff + BitVec.ofNat 64 re.regionSize)) ∧
        s'.secs[ats]? = some tF ∧ k * 8 + 8 ≤ tF.buf.length ∧ loadLE tF.buf (k * 8) 8 = some re.payload.toNat :=
  relocate_table_spec _ (relocs_own_their_regions_final arch base0 ops hops) B s' n ats h8 hats
    (by
      have hlt := (addr_table_ready arch base0 ops hops).1 ats hats
      exact ⟨_, List.getElem?_eq_getElem hlt⟩)
    (addr_table_ready arch base0 ops hops).2 h

/-- **payload_label_link.** Invariant of every program (`Lemmas/PayInv.lean`, `PInv`): a relocation entry created for a label
reference (`embed_label`, the 32-bit absolute `[label + a]` operand; ghost field `gl = (label, addend)`) either still waits
on its label's fixup chain - exactly once, with no target section and `payload = addend` - or its label is bound at
`(sec, off)` and `bind_label`'s payload adjustment gave it `tgtSec = sec`, `payload = addend + off`. -/
theorem payload_label_link (arch : Arch) (base0 : BitVec 64) (ops : List Op) (hops : ∀ op ∈ ops, ∀ b, op ≠ .relocate b) :
    PInv (run (State.init arch base0) ops) :=
  run_pinv _ ops hops (pinv_init arch base0)

/-- **reloc_label_address.** End to end for label-address entries: after `program ++ [flatten, resolve]` and a successful
`relocate_to_base(B)`, every RelToAbs entry made for label `l` with addend `a` has its label bound at some `(sec, off)`, and
the value word in the relocated image decodes to `a + off + (B + offset of sec)` - the absolute address of the label (plus
the addend) at base `B`. -/
theorem reloc_label_address (arch : Arch) (base0 : BitVec 64) (ops : List Op) (hops : ∀ op ∈ ops, op.early = true)
    (B : BitVec 64) (s' : State) (n : Nat)
    (h : relocate (run (State.init arch base0) (ops ++ [.flatten, .resolve])) B = (s', .ok, n))
    (re : Reloc) (hre : re ∈ (run (State.init arch base0) (ops ++ [.flatten, .resolve])).relocs) (hty : re.type = .relToAbs)
    (l : Nat) (a : BitVec 64) (hgl : re.gl = some (l, a)) :
    ∃ sec off tgt, (run (State.init arch base0) (ops ++ [.flatten, .resolve])).labels[l]? = some (.bound sec off) ∧
      (run (State.init arch base0) (ops ++ [.flatten, .resolve])).secs[sec]? = some tgt ∧
      RDecodes s'.secs re.rgn (a + off + (B + tgt.offset)) := by
  obtain ⟨t, tgt, ht, hs, hd⟩ := reloc_abs_correct arch base0 ops hops B s' n h re hre hty
  have hp : PInv (run (State.init arch base0) (ops ++ [.flatten, .resolve])) := by
    apply payload_label_link
    intro op hop b hb
    rcases List.mem_append.1 hop with h1 | h1
    · have := hops op h1; rw [hb] at this; cases this
    · simp at h1; rcases h1 with h1 | h1 <;> (rw [h1] at hb; cases hb)
  obtain ⟨i, hi⟩ := List.getElem?_of_mem hre
  rcases hp.link i re l a hi hgl with ⟨fx, _, h2, _, _⟩ | ⟨sec, off, h1, h2, h3⟩
  · rw [h2] at ht; cases ht
  · rw [h2] at ht
    have e : sec = t := Option.some.inj ht
    rw [← e] at hs
    exact ⟨sec, off, tgt, h1, hs, by rw [← h3]; exact hd⟩

/-- the hypotheses of `reloc_table_correct` are met by a concrete program (x86-64 `call 0x123456789abc` far out of reach),
and relocation to 0x10000 succeeds -/
example :
    let s := run (State.init .x64 noBase) ([.jmpAbs .call .dflt 0x123456789abc#64] ++ [.flatten, .resolve])
    s.arch.regSize = 8 ∧ s.addrTabSec = some 1 ∧ (s.secs[1]?).isSome ∧ (∀ e ∈ s.addrTab, e.slot = none) ∧
    (relocate s 0x10000#64).2.1 = .ok := by decide

/-- non-vacuity of `reloc_label_address`: an embedded address of a label bound later (at offset 8); the entry is linked to
the label, was adjusted by `bind_label`, and relocation to 0x10000 succeeds -/
example :
    let s := run (State.init .x64 noBase) ([.newLabel, .elabel 0 8, .bind 0] ++ [.flatten, .resolve])
    s.relocs.map (fun r => (r.type, r.gl, r.tgtSec, r.payload)) = [(.relToAbs, some (0, 0#64), some 0, 8#64)] ∧
    (relocate s 0x10000#64).2.1 = .ok := by decide

/-- non-vacuity: three relocation entries (embedded label address, absolute call through the table, 8-byte label delta)
and one fixup reference; regions [0,8), [8,14), [19,27) of .text -/
example :
    let s := run (State.init .x64 noBase)
      [.newLabel, .newLabel, .elabel 0 8, .jmpAbs .call .dflt 0x123456789abc#64, .jmp .jmp .dflt 1, .edelta 1 0 8, .bind 0]
    s.relocs.map (fun r => (r.srcOff, r.regionSize)) = [(0, 8), (8, 6), (19, 8)] ∧ s.ghost.length = 1 := by decide

end AsmjitVerif.CodeHolder
