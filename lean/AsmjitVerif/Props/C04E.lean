/-
C04, region ownership of relocation entries over ALL programs (Lemmas/RelInv.lean, Lemmas/RelStep.lean).

 * `relocs_own_their_regions`  for every program of assembling operations, on every architecture and base: every RelocEntry's
      region `[source offset, + region size)` lies inside its section's buffer, contains the value word, its value word still has
      zero field bits (nothing has written there: neither later emissions nor any bind / resolve patch), its format is one of the
      formats proved exact in C17, no entry lives in the `.addrtab` section, address-table entries have their two opcode bytes inside
      the region
      (`value offset + value size ≤ region size`, so `relocate_to_base`'s bounds test never fails and `write_offset` - and the
      two opcode bytes the address-table rewrite touches - stay inside the entry's own instruction); regions of distinct
      entries are pairwise disjoint; and every region is disjoint from the field of every fixup reference (so neither
      `bind_label` nor `resolve_cross_section_fixups` ever writes into a relocation site, and relocation never overwrites a
      resolved label reference).
 * `relocs_own_their_regions_final`  the same after the final `flatten; resolve` (the state `relocate_to_base` starts from).
Together with the per-entry arithmetic for all bases (Props/C04: `abs_to_rel_reaches`, `abs_to_rel_refused_unreachable`,
`abs_to_rel_32bit_wraps`, `addr_table_slot_reached`, `rel_to_abs_value`, `known_base_equiv_*`) and the byte meaning of an accepted
write (C03 `patched_field_designates`, C17) this is the frame argument for relocation.  NOT yet composed into one statement
"after relocate B every entry's field designates its target" (the fold over the entry list with these disjointness facts, incl.
the address-table section); that composition is evaluated by the monitor on every explored program x base.
-/
import AsmjitVerif.Lemmas.RelEntry
import AsmjitVerif.Props.C03E
namespace AsmjitVerif.CodeHolder
open AsmjitVerif.Offset

theorem rinv_init (arch : Arch) (base : BitVec 64) : RInv (State.init arch base) := by
  refine ⟨?_, ?_, ?_, ?_, ?_⟩ <;> simp [State.init]

/-- **region ownership (assembling phase).** -/
theorem relocs_own_their_regions (arch : Arch) (base : BitVec 64) (ops : List Op) (hops : ∀ op ∈ ops, op.early = true) :
    RInv (run (State.init arch base) ops) :=
  (run_rinv _ ops hops (inv_init arch base) (rinv_init arch base)).1

theorem grow_resolve (s : State) (h : Inv s) : Grow s (resolve s).1 := by
  unfold resolve
  split
  · exact grow_refl s
  · dsimp only
    have hrl : RList s.labels s.fixups := by
      refine ⟨?_, h.glob.2⟩
      intro f hf
      obtain ⟨l, hl, hg⟩ := h.glob.1 f hf
      obtain ⟨k, lsec, loff, hk, hb⟩ := h.wf f hf
      rw [hl] at hk; cases hk
      exact ⟨l, lsec, loff, hl, hb, h.fmts _ hg⟩
    have LS := resolveLoop_spec s.labels s.fixups { secs := s.secs, relocs := s.relocs, kept := [], resolved := 0, err := .ok } hrl
    refine ⟨LenExt.of_shape LS.shape, ?_, ⟨[], by simp, by simp, fun _ hx => by cases hx⟩, ⟨[], by simp, fun _ hx => by cases hx⟩, .inr rfl,
      .inl rfl, id⟩
    intro g _ hD
    apply LS.frame
    intro f hf
    obtain ⟨l, _, hgf⟩ := h.glob.1 f hf
    have hd : D g (f.toG l) := hD _ hgf
    exact hd

/-- **region ownership in the state `relocate_to_base` starts from** -/
theorem relocs_own_their_regions_final (arch : Arch) (base : BitVec 64) (ops : List Op) (hops : ∀ op ∈ ops, op.early = true) :
    RInv (run (State.init arch base) (ops ++ [.flatten, .resolve])) := by
  obtain ⟨hr, hi⟩ := run_rinv _ ops hops (inv_init arch base) (rinv_init arch base)
  have hr1 := step_rinv _ .flatten rfl hi hr
  have hi1 := step_inv _ .flatten rfl hi
  have e : run (State.init arch base) (ops ++ [.flatten, .resolve]) = (resolve (step (run (State.init arch base) ops) .flatten).1).1 := by
    rw [run_append]; simp [run, step]
  rw [e]
  exact rinv_grow hr1 hi1 (grow_resolve _ hi1)

/-- **reloc_abs_correct / reloc_rel_correct, one entry at a time, for every program and every base.**
Take any program of the menu followed by `flatten; resolve`, any base `B`, and any relocation entry of the resulting state
whose value is 1/2/4 bytes wide and that is not routed through the address table. If the loop body of
`relocate_to_base(B)` succeeds on it, the value word decodes (Spec/Offset.lean) to exactly `relocValue`:
`B + target section offset + payload` for RelToAbs (embedded label addresses, 32-bit absolute operands),
`payload − (B + section offset + source offset + region size)` for AbsToRel / X64AddressEntry (so by `abs_to_rel_reaches`
the CPU's end-of-instruction + rel32 is the payload; range tested in 64-bit mode, wrapped in 32-bit mode), the expression
value for label deltas.  The preconditions (zero field, exact format, bounds) come from `relocs_own_their_regions_final`.
Not yet composed over the whole entry list (that needs the per-step frame incl. the address-table section), nor for 8-byte
values and the table form. -/
theorem reloc_entry_correct (arch : Arch) (base0 : BitVec 64) (ops : List Op) (hops : ∀ op ∈ ops, op.early = true)
    (B : BitVec 64) (re : Reloc) (hre : re ∈ (run (State.init arch base0) (ops ++ [.flatten, .resolve])).relocs)
    (h8 : re.fmt.valueSize ≠ 8) (v : BitVec 64)
    (hv : relocValue (run (State.init arch base0) (ops ++ [.flatten, .resolve])) B
            (run (State.init arch base0) (ops ++ [.flatten, .resolve])).secs re = some v)
    (acc' : RelocAcc)
    (hok : relocStep (run (State.init arch base0) (ops ++ [.flatten, .resolve])) B
            { secs := (run (State.init arch base0) (ops ++ [.flatten, .resolve])).secs,
              addrTab := (run (State.init arch base0) (ops ++ [.flatten, .resolve])).addrTab, nSlots := 0 } re = .ok acc') :
    ∃ new, field acc'.secs re.rgn.val = some new ∧ decode32 re.fmt (BitVec.ofNat 32 new) = v :=
  reloc_entry_exact _ (relocs_own_their_regions_final arch base0 ops hops) B re hre h8 v hv acc' hok

/-- non-vacuity: three relocation entries (embedded label address, absolute call through the table, 8-byte label delta)
and one fixup reference; regions [0,8), [8,14), [19,27) of .text -/
example :
    let s := run (State.init .x64 noBase)
      [.newLabel, .newLabel, .elabel 0 8, .jmpAbs .call .dflt 0x123456789abc#64, .jmp .jmp .dflt 1, .edelta 1 0 8, .bind 0]
    s.relocs.map (fun r => (r.srcOff, r.regionSize)) = [(0, 8), (8, 6), (19, 8)] ∧ s.ghost.length = 1 := by decide

end AsmjitVerif.CodeHolder
