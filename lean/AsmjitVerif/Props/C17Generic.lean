/-
C17, parametric part: the signed / unsigned displacement codec is exact for **every** field geometry
(bits, shift, discard) that fits the value word - not only for the 13 formats the backends construct today.

  `signed_generic`, `unsigned_generic`       value sizes 1/2/4 (`encode_offset32`)
  `signed_generic64`, `unsigned_generic64`   value size 8      (`encode_offset64`)

each: accepted ⇒ the patched word decodes to exactly the displacement and no bit outside the field changes;
refused ⇒ no field content designates the displacement.  No case split over the triple is made anywhere: see
Lemmas/OffsetGeneric.lean (hand-proved bridge from the `Nat` parameters to bit-vector parameters + one SAT certificate
per statement in which bits/shift/discard are variables).  The concrete per-format theorems of Props/C17.lean are
re-derived from the parametric ones below (`*_from_generic`); the two ADR/ADRP formats have a fixed split layout and
are not instances.
-/
import AsmjitVerif.Props.C17
import AsmjitVerif.Lemmas.OffsetGeneric64
namespace AsmjitVerif.Offset

/-- **signed field, any geometry, value sizes 1/2/4.** -/
theorem signed_generic (size shift bits discard : Nat) (hsz : size = 1 ∨ size = 2 ∨ size = 4)
    (hb : 1 ≤ bits) (hbs : bits + shift ≤ 8 * size) (hd : discard ≤ 32) :
    Exact32 (immValue .signed size shift bits discard) ∧ Refused32 (immValue .signed size shift bits discard) := by
  have h32 : bits + shift ≤ 32 := by rcases hsz with h | h | h <;> omega
  have B1 := bv_le 1 bits hb (by omega)
  have B2 := bv_le bits 32 (by omega) (by omega)
  have B3 := bv_le shift 32 (by omega) (by omega)
  have B4 := bv_add_le bits shift 32 h32 (by omega)
  have B5 := bv_le discard 32 hd (by omega)
  constructor
  · intro off m h old hold
    rw [enc_signed32_bv size shift bits discard off hb (by omega) (by omega) (by omega) hd] at h
    rw [fieldMask32_bv .signed (Or.inl rfl) size shift bits discard (by omega) (by omega)] at hold ⊢
    rw [dec_signed32_bv size shift bits discard _ hb (by omega) (by omega) hd]
    exact s32_core_exact _ _ _ off m old B1 B2 B3 B4 B5 h hold
  · intro off h w
    rw [enc_signed32_bv size shift bits discard off hb (by omega) (by omega) (by omega) hd] at h
    rw [dec_signed32_bv size shift bits discard _ hb (by omega) (by omega) hd]
    exact s32_core_refused _ _ _ off w B1 B2 B3 B4 B5 h

/-- **unsigned field, any geometry, value sizes 1/2/4.** -/
theorem unsigned_generic (size shift bits discard : Nat) (hsz : size = 1 ∨ size = 2 ∨ size = 4)
    (hb : 1 ≤ bits) (hbs : bits + shift ≤ 8 * size) (hd : discard ≤ 32) :
    Exact32 (immValue .unsigned size shift bits discard) ∧ Refused32 (immValue .unsigned size shift bits discard) := by
  have h32 : bits + shift ≤ 32 := by rcases hsz with h | h | h <;> omega
  have B1 := bv_le 1 bits hb (by omega)
  have B2 := bv_le bits 32 (by omega) (by omega)
  have B3 := bv_le shift 32 (by omega) (by omega)
  have B4 := bv_add_le bits shift 32 h32 (by omega)
  have B5 := bv_le discard 32 hd (by omega)
  constructor
  · intro off m h old hold
    rw [enc_unsigned32_bv size shift bits discard off hb (by omega) (by omega) (by omega) hd] at h
    rw [fieldMask32_bv .unsigned (Or.inr rfl) size shift bits discard (by omega) (by omega)] at hold ⊢
    rw [dec_unsigned32_bv size shift bits discard _ (by omega) (by omega) hd]
    exact u32_core_exact _ _ _ off m old B1 B2 B3 B4 B5 h hold
  · intro off h w
    rw [enc_unsigned32_bv size shift bits discard off hb (by omega) (by omega) (by omega) hd] at h
    rw [dec_unsigned32_bv size shift bits discard _ (by omega) (by omega) hd]
    exact u32_core_refused _ _ _ off w B1 B2 B3 B4 B5 h

/-- **signed field, any geometry, value size 8.** -/
theorem signed_generic64 (shift bits discard : Nat) (hb : 1 ≤ bits) (hbs : bits + shift ≤ 64) (hd : discard ≤ 32) :
    Exact64 (immValue .signed 8 shift bits discard) ∧ Refused64 (immValue .signed 8 shift bits discard) := by
  have B1 := bv_le 1 bits hb (by omega)
  have B2 := bv_le bits 64 (by omega) (by omega)
  have B3 := bv_le shift 64 (by omega) (by omega)
  have B4 := bv_add_le bits shift 64 hbs (by omega)
  have B5 := bv_le discard 32 hd (by omega)
  constructor
  · intro off m h old hold
    rw [enc_signed64_bv shift bits discard off hb (by omega) (by omega) hd] at h
    rw [fieldMask64_bv .signed 8 shift bits discard (by omega) (by omega)] at hold ⊢
    rw [dec_signed64_bv 8 shift bits discard _ hb (by omega) (by omega) hd]
    exact s64_core_exact _ _ _ off m old B1 B2 B3 B4 B5 h hold
  · intro off h w
    rw [enc_signed64_bv shift bits discard off hb (by omega) (by omega) hd] at h
    rw [dec_signed64_bv 8 shift bits discard _ hb (by omega) (by omega) hd]
    exact s64_core_refused _ _ _ off w B1 B2 B3 B4 B5 h

/-- **unsigned field, any geometry, value size 8.** -/
theorem unsigned_generic64 (shift bits discard : Nat) (hb : 1 ≤ bits) (hbs : bits + shift ≤ 64) (hd : discard ≤ 32) :
    Exact64 (immValue .unsigned 8 shift bits discard) ∧ Refused64 (immValue .unsigned 8 shift bits discard) := by
  have B1 := bv_le 1 bits hb (by omega)
  have B2 := bv_le bits 64 (by omega) (by omega)
  have B3 := bv_le shift 64 (by omega) (by omega)
  have B4 := bv_add_le bits shift 64 hbs (by omega)
  have B5 := bv_le discard 32 hd (by omega)
  constructor
  · intro off m h old hold
    rw [enc_unsigned64_bv shift bits discard off hb (by omega) (by omega) hd] at h
    rw [fieldMask64_bv .unsigned 8 shift bits discard (by omega) (by omega)] at hold ⊢
    rw [dec_unsigned64_bv 8 shift bits discard _ (by omega) (by omega) hd]
    exact u64_core_exact _ _ _ off m old B1 B2 B3 B4 B5 h hold
  · intro off h w
    rw [enc_unsigned64_bv shift bits discard off hb (by omega) (by omega) hd] at h
    rw [dec_unsigned64_bv 8 shift bits discard _ (by omega) (by omega) hd]
    exact u64_core_refused _ _ _ off w B1 B2 B3 B4 B5 h

/-- the codec statement of C17 for every signed / unsigned geometry that fits its value word -/
theorem generic_codec_exact (t : OffsetType) (ht : t = .signed ∨ t = .unsigned) (size shift bits discard : Nat)
    (hsz : size = 1 ∨ size = 2 ∨ size = 4 ∨ size = 8)
    (hb : 1 ≤ bits) (hbs : bits + shift ≤ 8 * size) (hd : discard ≤ 32) :
    CodecExact (immValue t size shift bits discard) := by
  unfold CodecExact
  rcases hsz with h | h | h | h <;> subst h <;> rcases ht with h | h <;> subst h <;> simp only [immValue]
  all_goals first
    | exact signed_generic64 shift bits discard hb (by omega) hd
    | exact unsigned_generic64 shift bits discard hb (by omega) hd
    | exact signed_generic _ shift bits discard (by decide) hb (by omega) hd
    | exact unsigned_generic _ shift bits discard (by decide) hb (by omega) hd

/-- the mask never has a bit above the value word (matters for sizes 1 and 2), any geometry -/
theorem generic_fits (t : OffsetType) (ht : t = .signed ∨ t = .unsigned) (size shift bits discard : Nat)
    (hsz : size = 1 ∨ size = 2 ∨ size = 4) (hb : 1 ≤ bits) (hbs : bits + shift ≤ 8 * size) (hd : discard ≤ 32) :
    FitsValueSize (immValue t size shift bits discard) := by
  intro off m hm
  have hex : Exact32 (immValue t size shift bits discard) := by
    rcases ht with h | h <;> subst h
    · exact (signed_generic size shift bits discard hsz hb hbs hd).1
    · exact (unsigned_generic size shift bits discard hsz hb hbs hd).1
  have h0 := (hex off m hm 0#32 (by simp)).2
  have hmask : (fieldMask32 (immValue t size shift bits discard)).toNat < 2 ^ (8 * size) := by
    have hfm : fieldMask32 (immValue t size shift bits discard) = BitVec.ofNat 32 ((2 ^ bits - 1) * 2 ^ shift) := by
      rcases ht with h | h <;> subst h <;> rfl
    rw [hfm, BitVec.toNat_ofNat]
    have h1 : (2 ^ bits - 1) * 2 ^ shift < 2 ^ (bits + shift) := by
      rw [Nat.pow_add, Nat.sub_mul, Nat.one_mul]
      have := Nat.two_pow_pos shift
      have := Nat.mul_le_mul_right (2 ^ shift) (Nat.two_pow_pos bits)
      omega
    have h2 : 2 ^ (bits + shift) ≤ 2 ^ (8 * size) := Nat.pow_le_pow_right (by decide) hbs
    exact Nat.lt_of_le_of_lt (Nat.mod_le _ _) (Nat.lt_of_lt_of_le h1 h2)
  have hle : m.toNat ≤ (fieldMask32 (immValue t size shift bits discard)).toNat := by
    have h1 : m &&& ~~~ fieldMask32 (immValue t size shift bits discard) = 0#32 := by simpa using h0
    have h2 : m &&& fieldMask32 (immValue t size shift bits discard) = m := by
      generalize fieldMask32 (immValue t size shift bits discard) = x at h1
      bv_decide (config := { timeout := 300 })
    rw [← h2, BitVec.toNat_and]
    exact Nat.and_le_right
  show m.toNat < 2 ^ (8 * size)
  omega

/-- **byte level, any geometry.** `write_offset` with a format whose codec is exact and whose mask fits the value word:
the patched word decodes to exactly the displacement, its other bits are the old ones, no other byte changes. -/
theorem write_exact32_of (f : OffsetFormat) (hex : Exact32 f) (hfits : FitsValueSize f) (h8 : f.valueSize ≠ 8)
    (buf buf' : Bytes) (pos : Nat) (off : BitVec 64) (old : Nat)
    (hw : writeOffset buf pos off f = some buf')
    (hold : loadLE buf (pos + f.valueOffset) f.valueSize = some old)
    (hzero : BitVec.ofNat 32 old &&& fieldMask32 f = 0#32) :
    ∃ new, loadLE buf' (pos + f.valueOffset) f.valueSize = some new ∧
      decode32 f (BitVec.ofNat 32 new) = off ∧
      BitVec.ofNat 32 new &&& ~~~ fieldMask32 f = BitVec.ofNat 32 old ∧
      buf'.length = buf.length ∧
      ∀ i, (i < pos + f.valueOffset ∨ pos + f.valueOffset + f.valueSize ≤ i) → buf'[i]? = buf[i]? := by
  obtain ⟨hlen, hout, old', m, hold', hm, hnew⟩ := writeOffset_frame buf buf' pos off f hw
  rw [hold] at hold'; cases hold'
  simp only [h8, if_false] at hm
  cases he : encodeOffset32 f off with
  | none => simp [he] at hm
  | some mv =>
    simp only [he, Option.map_some, Option.some.injEq] at hm
    have hfit := hfits off mv he
    have hmm : m = mv.toNat := by rw [← hm]; exact Nat.mod_eq_of_lt hfit
    have := hex off mv he (BitVec.ofNat 32 old) hzero
    have e : BitVec.ofNat 32 (old ||| m) = BitVec.ofNat 32 old ||| mv := by
      rw [hmm]; apply BitVec.eq_of_toNat_eq; simp [BitVec.toNat_or]
    refine ⟨old ||| m, hnew, ?_, ?_, hlen, hout⟩
    · rw [e]; exact this.1
    · rw [e]; exact this.2

/-- byte level for every signed / unsigned geometry (value sizes 1/2/4, any value offset) -/
theorem write_exact32_generic (t : OffsetType) (ht : t = .signed ∨ t = .unsigned) (size voff shift bits discard : Nat)
    (hsz : size = 1 ∨ size = 2 ∨ size = 4) (hb : 1 ≤ bits) (hbs : bits + shift ≤ 8 * size) (hd : discard ≤ 32)
    (buf buf' : Bytes) (pos : Nat) (off : BitVec 64) (old : Nat)
    (hw : writeOffset buf pos off { immValue t size shift bits discard with valueOffset := voff } = some buf')
    (hold : loadLE buf (pos + voff) size = some old)
    (hzero : BitVec.ofNat 32 old &&& fieldMask32 (immValue t size shift bits discard) = 0#32) :
    ∃ new, loadLE buf' (pos + voff) size = some new ∧
      decode32 (immValue t size shift bits discard) (BitVec.ofNat 32 new) = off ∧
      BitVec.ofNat 32 new &&& ~~~ fieldMask32 (immValue t size shift bits discard) = BitVec.ofNat 32 old ∧
      buf'.length = buf.length ∧
      ∀ i, (i < pos + voff ∨ pos + voff + size ≤ i) → buf'[i]? = buf[i]? := by
  -- the value offset takes no part in encoding / decoding / the field mask
  have hex0 : Exact32 (immValue t size shift bits discard) := by
    rcases ht with h | h <;> subst h
    · exact (signed_generic size shift bits discard hsz hb hbs hd).1
    · exact (unsigned_generic size shift bits discard hsz hb hbs hd).1
  have hfit0 := generic_fits t ht size shift bits discard hsz hb hbs hd
  have henc : ∀ off, encodeOffset32 { immValue t size shift bits discard with valueOffset := voff } off =
      encodeOffset32 (immValue t size shift bits discard) off := by
    intro off; rcases ht with h | h <;> subst h <;> rfl
  have hdec : ∀ w, decode32 { immValue t size shift bits discard with valueOffset := voff } w =
      decode32 (immValue t size shift bits discard) w := by
    intro w; rcases ht with h | h <;> subst h <;> rfl
  have hfm : fieldMask32 { immValue t size shift bits discard with valueOffset := voff } =
      fieldMask32 (immValue t size shift bits discard) := by
    rcases ht with h | h <;> subst h <;> rfl
  have hex : Exact32 { immValue t size shift bits discard with valueOffset := voff } := by
    intro off m h old hold
    rw [henc] at h; rw [hfm] at hold ⊢; rw [hdec]
    exact hex0 off m h old hold
  have hfits : FitsValueSize { immValue t size shift bits discard with valueOffset := voff } := by
    intro off m h; rw [henc] at h; exact hfit0 off m h
  have h8 : ({ immValue t size shift bits discard with valueOffset := voff } : OffsetFormat).valueSize ≠ 8 := by
    show size ≠ 8; rcases hsz with h | h | h <;> omega
  have := write_exact32_of _ hex hfits h8 buf buf' pos off old hw hold (by rw [hfm]; exact hzero)
  rw [hfm] at this
  simp only [hdec] at this
  exact this

/-! ### the concrete formats as instances (the `bv_decide` per-format theorems of Props/C17.lean stay as a second proof) -/
theorem fS1_from_generic : Exact32 fS1 ∧ Refused32 fS1 := signed_generic 1 0 8 0 (by decide) (by decide) (by decide) (by decide)
theorem fS2_from_generic : Exact32 fS2 ∧ Refused32 fS2 := signed_generic 2 0 16 0 (by decide) (by decide) (by decide) (by decide)
theorem fS4_from_generic : Exact32 fS4 ∧ Refused32 fS4 := signed_generic 4 0 32 0 (by decide) (by decide) (by decide) (by decide)
theorem fS8_from_generic : Exact64 fS8 ∧ Refused64 fS8 := signed_generic64 0 64 0 (by decide) (by decide) (by decide)
theorem fU1_from_generic : Exact32 fU1 ∧ Refused32 fU1 := unsigned_generic 1 0 8 0 (by decide) (by decide) (by decide) (by decide)
theorem fU2_from_generic : Exact32 fU2 ∧ Refused32 fU2 := unsigned_generic 2 0 16 0 (by decide) (by decide) (by decide) (by decide)
theorem fU4_from_generic : Exact32 fU4 ∧ Refused32 fU4 := unsigned_generic 4 0 32 0 (by decide) (by decide) (by decide) (by decide)
theorem fU8_from_generic : Exact64 fU8 ∧ Refused64 fU8 := unsigned_generic64 0 64 0 (by decide) (by decide) (by decide)
theorem fImm19_from_generic : Exact32 fImm19 ∧ Refused32 fImm19 := signed_generic 4 5 19 2 (by decide) (by decide) (by decide) (by decide)
theorem fImm26_from_generic : Exact32 fImm26 ∧ Refused32 fImm26 := signed_generic 4 0 26 2 (by decide) (by decide) (by decide) (by decide)
theorem fImm14_from_generic : Exact32 fImm14 ∧ Refused32 fImm14 := signed_generic 4 5 14 2 (by decide) (by decide) (by decide) (by decide)

/-- every signed / unsigned format the current sources construct is an instance of the parametric theorems
(checked on the regenerated list: `1 ≤ bits`, `bits + shift ≤ 8·size`, `discard ≤ 32`, size ∈ {1,2,4,8}) -/
theorem formats_in_use_are_generic_instances : ∀ f ∈ formatsInUse, (f.type = .signed ∨ f.type = .unsigned) →
    (f.valueSize = 1 ∨ f.valueSize = 2 ∨ f.valueSize = 4 ∨ f.valueSize = 8) ∧ 1 ≤ f.bitCount ∧
    f.bitCount + f.bitShift ≤ 8 * f.valueSize ∧ f.discard ≤ 32 ∧ f.valueOffset = 0 := by decide

/-! non-vacuity: geometries no backend uses today, both sides of their limits -/
example : encodeOffset32 (immValue .signed 2 3 11 1) (BitVec.ofInt 64 (-2048)) = some 0x2000#32 := by decide
example : encodeOffset32 (immValue .signed 2 3 11 1) 2046#64 = some 0x1ff8#32 := by decide
example : encodeOffset32 (immValue .signed 2 3 11 1) 2048#64 = none := by decide
example : encodeOffset32 (immValue .unsigned 1 2 5 3) 248#64 = some 0x7c#32 ∧ encodeOffset32 (immValue .unsigned 1 2 5 3) 256#64 = none := by decide
example : encodeOffset64 (immValue .signed 8 7 20 32) 0x8000000000000#64 = none := by decide
example : encodeOffset64 (immValue .signed 8 7 20 32) 0x7FFFF00000000#64 = some 0x3ffff80#64 := by decide

end AsmjitVerif.Offset
