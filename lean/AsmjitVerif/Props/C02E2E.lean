/-
C02, end-to-end statement for the three-register class (kEncodingBaseRRR: adc, sbc, mul, udiv, crc32*, lslv, smulh, ...):

  every instruction the class model accepts is judged `full` by the property monitor `judge` over the forms of its
  mnemonic in the regenerated ISA database - for ALL register operands (types, ids), every row of the regenerated table.

Ingredients: `baseRRR_accepts_only_valid` (what the model accepts), `rrr_describes` (packed word is described by a form
with the RRR structure; bv_decide + Nat/BitVec bridge), `rows_baseRRR_have_forms` (`decide +kernel`: for every
instruction row of the class and every register-type combination the row admits, the database has a fully interpreted
form with that structure whose template equals the row's opcode constant) .
Hypothesis `GpWellFormed`: general purpose register operands carry no element type / index (the `a64::Gp` operand
class has no way to set them; the harness never generates them).
-/
import AsmjitVerif.Props.C02
import AsmjitVerif.Model.A64AsmMem
import AsmjitVerif.Lemmas.C02Describe
import AsmjitVerif.Gen.A64DB
namespace AsmjitVerif.C02
open AsmjitVerif.A64 AsmjitVerif.A64Asm AsmjitVerif.A64Spec AsmjitVerif.Gen.A64Tables

def formsNamed (n : String) : List Form := AsmjitVerif.Gen.A64DB.allForms.filter (·.name == n)

def wOfRt (rt : Nat) : GpW := if rt == rtGp32 then .w32 else .x64

def GpWellFormed (r : Reg) : Prop := r.et = 0 ∧ r.hasIdx = false

/-- decidable per-row condition tying the instruction table to the database -/
def rrrRowOk (name : String) (d : BaseRRRRow) : Bool :=
  (d.a_hi_id == idSP || d.a_hi_id == idZR) && (d.b_hi_id == idSP || d.b_hi_id == idZR) && (d.c_hi_id == idSP || d.c_hi_id == idZR) &&
  (w32 d.opcode &&& 0x001F03FF#32 == 0#32) && name != "mov" && decide (d.a_type ≤ 3) && decide (d.b_type ≤ 3) && decide (d.c_type ≤ 3) &&
  [rtGp32, rtGp64].all fun ta => [rtGp32, rtGp64].all fun tb => [rtGp32, rtGp64].all fun tc =>
    !(checkGpType { rt := ta, id := 0 } d.a_type && checkGpType { rt := tb, id := 0 } d.b_type && checkGpType { rt := tc, id := 0 } d.c_type &&
      (d.uniform == 0 || (ta == tb && tb == tc))) ||
    (formsNamed name).any fun f =>
      isRRRForm f (wOfRt ta) (wOfRt tb) (wOfRt tc) (d.a_hi_id == idSP) (d.b_hi_id == idSP) (d.c_hi_id == idSP)
        (w32 d.opcode ||| (BitVec.ofNat 32 (xOf { rt := ta, id := 0 } d.a_type) <<< 31))

set_option maxRecDepth 1000000 in
/-- every BaseRRR row of the regenerated instruction table has its database forms -/
theorem rows_baseRRR_have_forms :
    instTable.toList.all (fun r => r.enc != encBaseRRR ||
      (match baseRRR[r.idx]? with
       | some d => rrrRowOk r.name d
       | none => false)) = true := by decide +kernel

/-! ### from the model's checks to the spec's operand conditions -/

theorem gp_rt_of_check (r : Reg) (ty : Nat) (hty : ty ≤ 3) (h : checkGpType r ty = true) : r.rt = rtGp32 ∨ r.rt = rtGp64 := by
  unfold checkGpType at h
  by_cases hlt : r.rt < 7
  · have key : ∀ t : Fin 4, ∀ k : Fin 7, (((t.val <<< 5) >>> k.val) % 2 == 1) = true → k.val = 5 ∨ k.val = 6 := by decide
    have := key ⟨ty, by omega⟩ ⟨r.rt, hlt⟩ h
    simpa [rtGp32, rtGp64] using this
  · exfalso
    have h2 : ty <<< 5 < 2 ^ r.rt := by
      have : 2 ^ 7 ≤ 2 ^ r.rt := Nat.pow_le_pow_right (by decide) (by omega)
      rw [Nat.shiftLeft_eq]; omega
    rw [Nat.shiftRight_eq_div_pow, Nat.div_eq_of_lt h2] at h
    simp at h

theorem gpOk_of_checks (r : Reg) (ty hi : Nat) (hty : ty ≤ 3) (hhi : hi = idSP ∨ hi = idZR) (wf : GpWellFormed r)
    (ht : checkGpType r ty = true) (hid : checkGpId r hi = true) : gpOk (wOfRt r.rt) (hi == idSP) r := by
  refine ⟨?_, wf.1, wf.2, checked_id_designates r hi hhi hid⟩
  rcases gp_rt_of_check r ty hty ht with h | h <;> simp [wOfRt, gpWidthOk, h, rtGp32, rtGp64]

/-- everything the BaseRRR model establishes before it emits -/
theorem baseRRR_accepts_facts (d : BaseRRRRow) (o0 o1 o2 : Reg) (ws : List (BitVec 32)) (h : emitBaseRRR d o0 o1 o2 = .ok ws) :
    checkGpType o0 d.a_type = true ∧ checkGpType o1 d.b_type = true ∧ checkGpType o2 d.c_type = true ∧
    (d.uniform = 0 ∨ (o0.rt = o1.rt ∧ o1.rt = o2.rt)) ∧
    checkGpId o0 d.a_hi_id = true ∧ checkGpId o1 d.b_hi_id = true ∧ checkGpId o2 d.c_hi_id = true ∧
    ws = [w32 d.opcode ||| addImm (xOf o0 d.a_type) 31 ||| addReg o2.id 16 ||| addReg o1.id 5 ||| addReg o0.id 0] := by
  unfold emitBaseRRR at h
  repeat (split at h <;> try (simp [invalidInstruction, invalidPhysId] at h))
  simp [ok1] at h
  simp_all [Reg.sameSig]
  by_cases hu : d.uniform = 0 <;> simp_all

/-- **End-to-end, kEncodingBaseRRR**: whatever the class model accepts is judged `full` by the property monitor over the
database forms of the mnemonic - all register operands, every row of the regenerated instruction table. -/
theorem baseRRR_end_to_end (r : InstRow) (hr : r ∈ instTable.toList) (henc : r.enc = encBaseRRR)
    (d : BaseRRRRow) (hd : baseRRR[r.idx]? = some d) (o0 o1 o2 : Reg)
    (wf0 : GpWellFormed o0) (wf1 : GpWellFormed o1) (wf2 : GpWellFormed o2)
    (ws : List (BitVec 32)) (pc : BitVec 64) (h : emitBaseRRR d o0 o1 o2 = .ok ws) :
    judge (formsNamed r.name) r.name [.reg o0, .reg o1, .reg o2] pc (.ok ws) = .full := by
  have hrow := (List.all_eq_true.mp rows_baseRRR_have_forms) r hr
  simp only [henc, bne_self_eq_false, Bool.false_or, hd] at hrow
  obtain ⟨t0, t1, t2, huni, i0, i1, i2, hws⟩ := baseRRR_accepts_facts d o0 o1 o2 ws h
  simp only [rrrRowOk, Bool.and_eq_true, Bool.or_eq_true, beq_iff_eq, bne_iff_ne, ne_eq, decide_eq_true_eq] at hrow
  obtain ⟨⟨⟨⟨⟨⟨⟨⟨ha, hb⟩, hc⟩, hclean⟩, hname⟩, hta⟩, htb⟩, htc⟩, hall⟩ := hrow
  have r0 := gp_rt_of_check o0 d.a_type hta t0
  have r1 := gp_rt_of_check o1 d.b_type htb t1
  have r2 := gp_rt_of_check o2 d.c_type htc t2
  have m0 : o0.rt ∈ [rtGp32, rtGp64] := by simp; exact r0
  have m1 : o1.rt ∈ [rtGp32, rtGp64] := by simp; exact r1
  have m2 : o2.rt ∈ [rtGp32, rtGp64] := by simp; exact r2
  have hcombo := (List.all_eq_true.mp ((List.all_eq_true.mp ((List.all_eq_true.mp hall) o0.rt m0)) o1.rt m1)) o2.rt m2
  have hcond : (checkGpType { rt := o0.rt, id := 0 } d.a_type && checkGpType { rt := o1.rt, id := 0 } d.b_type &&
      checkGpType { rt := o2.rt, id := 0 } d.c_type && (d.uniform == 0 || (o0.rt == o1.rt && o1.rt == o2.rt))) = true := by
    have e0 : checkGpType { rt := o0.rt, id := 0 } d.a_type = checkGpType o0 d.a_type := rfl
    have e1 : checkGpType { rt := o1.rt, id := 0 } d.b_type = checkGpType o1 d.b_type := rfl
    have e2 : checkGpType { rt := o2.rt, id := 0 } d.c_type = checkGpType o2 d.c_type := rfl
    rw [e0, e1, e2, t0, t1, t2]
    rcases huni with hu | ⟨hu1, hu2⟩
    · simp [hu]
    · simp [hu1, hu2]
  simp only [hcond, Bool.not_true, Bool.false_or, List.any_eq_true] at hcombo
  obtain ⟨f, hfmem, hform⟩ := hcombo
  have ex : xOf { rt := o0.rt, id := 0 } d.a_type = xOf o0 d.a_type := rfl
  rw [ex] at hform
  have hdesc := rrr_describes f _ _ _ _ _ _ (w32 d.opcode) (BitVec.ofNat 32 (xOf o0 d.a_type)) o0 o1 o2 pc hform hclean
    (gpOk_of_checks o0 d.a_type d.a_hi_id hta ha wf0 t0 i0) (gpOk_of_checks o1 d.b_type d.b_hi_id htb hb wf1 t1 i1)
    (gpOk_of_checks o2 d.c_type d.c_hi_id htc hc wf2 t2 i2)
  have hfull : f.isPartial = false := by
    simp only [isRRRForm, Bool.and_eq_true, beq_iff_eq] at hform
    obtain ⟨⟨⟨⟨⟨⟨⟨⟨hops, _⟩, _⟩, _⟩, hfree⟩, _⟩, _⟩, _⟩, _⟩ := hform
    simp [Form.isPartial, hops, OpSpec.isPartial, hfree]
  subst hws
  have hany : (formsNamed r.name).any (fun f => !f.isPartial && describes f [.reg o0, .reg o1, .reg o2] pc
      (w32 d.opcode ||| addImm (xOf o0 d.a_type) 31 ||| addReg o2.id 16 ||| addReg o1.id 5 ||| addReg o0.id 0)) = true := by
    rw [List.any_eq_true]
    exact ⟨f, hfmem, by simp [hfull]; simpa [addImm, addReg] using hdesc⟩
  simp [judge, hany]

/-! ### the same end-to-end step for the other three-register classes (uniform W/X, ZR) -/

/-- per-row condition for a uniform three-register instruction with opcode constant `opcode` (sf at bit 31) -/
def uniformRRRRowOk (name : String) (opcode : Nat) : Bool :=
  (w32 opcode &&& 0x001F03FF#32 == 0#32) &&
  [rtGp32, rtGp64].all fun t =>
    (formsNamed name).any fun f =>
      isRRRForm f (wOfRt t) (wOfRt t) (wOfRt t) false false false
        (w32 opcode ||| (BitVec.ofNat 32 (xOf { rt := t, id := 0 } kWX) <<< 31))

theorem uniform_rrr_end_to_end (name : String) (opcode : Nat) (hrow : uniformRRRRowOk name opcode = true)
    (o0 o1 o2 : Reg) (wf0 : GpWellFormed o0) (wf1 : GpWellFormed o1) (wf2 : GpWellFormed o2)
    (t0 : checkGpType o0 kWX = true) (e1 : o0.rt = o1.rt) (e2 : o1.rt = o2.rt)
    (i0 : checkGpId o0 idZR = true) (i1 : checkGpId o1 idZR = true) (i2 : checkGpId o2 idZR = true) (pc : BitVec 64) :
    judge (formsNamed name) name [.reg o0, .reg o1, .reg o2] pc
      (.ok [w32 opcode ||| addImm (xOf o0 kWX) 31 ||| addReg o2.id 16 ||| addReg o1.id 5 ||| addReg o0.id 0]) = .full := by
  simp only [uniformRRRRowOk, Bool.and_eq_true, beq_iff_eq] at hrow
  obtain ⟨hclean, hall⟩ := hrow
  have r0 := gp_rt_of_check o0 kWX (by decide) t0
  have m0 : o0.rt ∈ [rtGp32, rtGp64] := by simp; exact r0
  have hcombo := (List.all_eq_true.mp hall) o0.rt m0
  rw [List.any_eq_true] at hcombo
  obtain ⟨f, hfmem, hform⟩ := hcombo
  have ex : xOf { rt := o0.rt, id := 0 } kWX = xOf o0 kWX := rfl
  rw [ex] at hform
  have t1 : checkGpType o1 kWX = true := by unfold checkGpType at *; rw [← e1]; exact t0
  have t2 : checkGpType o2 kWX = true := by unfold checkGpType at *; rw [← e2, ← e1]; exact t0
  have g0 := gpOk_of_checks o0 kWX idZR (by decide) (Or.inr rfl) wf0 t0 i0
  have g1 := gpOk_of_checks o1 kWX idZR (by decide) (Or.inr rfl) wf1 t1 i1
  have g2 := gpOk_of_checks o2 kWX idZR (by decide) (Or.inr rfl) wf2 t2 i2
  rw [← e1] at g1
  rw [← e2, ← e1] at g2
  have hz : (idZR == idSP) = false := by decide
  rw [hz] at g0 g1 g2
  have hdesc := rrr_describes f _ _ _ _ _ _ (w32 opcode) (BitVec.ofNat 32 (xOf o0 kWX)) o0 o1 o2 pc hform hclean g0 g1 g2
  have hfull : f.isPartial = false := by
    simp only [isRRRForm, Bool.and_eq_true, beq_iff_eq] at hform
    obtain ⟨⟨⟨⟨⟨⟨⟨⟨hops, _⟩, _⟩, _⟩, hfree⟩, _⟩, _⟩, _⟩, _⟩ := hform
    simp [Form.isPartial, hops, OpSpec.isPartial, hfree]
  have hany : (formsNamed name).any (fun f => !f.isPartial && describes f [.reg o0, .reg o1, .reg o2] pc
      (w32 opcode ||| addImm (xOf o0 kWX) 31 ||| addReg o2.id 16 ||| addReg o1.id 5 ||| addReg o0.id 0)) = true := by
    rw [List.any_eq_true]
    exact ⟨f, hfmem, by simp [hfull]; simpa [addImm, addReg] using hdesc⟩
  simp [judge, hany]

set_option maxRecDepth 1000000 in
/-- every BaseShift row (register form: lsl/lsr/asr/ror and lslv/lsrv/asrv/rorv) has its database forms -/
theorem rows_baseShift_have_forms :
    instTable.toList.all (fun r => r.enc != encBaseShift ||
      (match baseShift[r.idx]? with
       | some d => uniformRRRRowOk r.name d.register_op
       | none => false)) = true := by decide +kernel

set_option maxRecDepth 1000000 in
/-- every BaseMinMax row (register form: smax/smin/umax/umin) has its database forms -/
theorem rows_baseMinMax_have_forms :
    instTable.toList.all (fun r => r.enc != encBaseMinMax ||
      (match baseMinMax[r.idx]? with
       | some d => uniformRRRRowOk r.name d.register_op
       | none => false)) = true := by decide +kernel

theorem shiftReg_accepts_facts (d : BaseShiftRow) (o0 o1 o2 : Reg) (ws : List (BitVec 32)) (h : emitShiftReg d o0 o1 o2 = .ok ws) :
    checkGpType o0 kWX = true ∧ o0.rt = o1.rt ∧ o1.rt = o2.rt ∧
    checkGpId o0 idZR = true ∧ checkGpId o1 idZR = true ∧ checkGpId o2 idZR = true ∧
    ws = [w32 d.register_op ||| addImm (xOf o0 kWX) 31 ||| addReg o2.id 16 ||| addReg o1.id 5 ||| addReg o0.id 0] := by
  unfold emitShiftReg at h
  repeat (split at h <;> try (simp [invalidInstruction, invalidPhysId] at h))
  simp [ok1] at h
  simp_all [Reg.sameSig]

theorem minmaxReg_accepts_facts (d : BaseMinMaxRow) (o0 o1 o2 : Reg) (ws : List (BitVec 32)) (h : emitMinMaxReg d o0 o1 o2 = .ok ws) :
    checkGpType o0 kWX = true ∧ o0.rt = o1.rt ∧ o1.rt = o2.rt ∧
    checkGpId o0 idZR = true ∧ checkGpId o1 idZR = true ∧ checkGpId o2 idZR = true ∧
    ws = [w32 d.register_op ||| addImm (xOf o0 kWX) 31 ||| addReg o2.id 16 ||| addReg o1.id 5 ||| addReg o0.id 0] := by
  unfold emitMinMaxReg at h
  repeat (split at h <;> try (simp [invalidInstruction, invalidPhysId] at h))
  simp [ok1] at h
  simp_all [Reg.sameSig]

/-- **End-to-end, kEncodingBaseShift (register forms)** -/
theorem shiftReg_end_to_end (r : InstRow) (hr : r ∈ instTable.toList) (henc : r.enc = encBaseShift)
    (d : BaseShiftRow) (hd : baseShift[r.idx]? = some d) (o0 o1 o2 : Reg)
    (wf0 : GpWellFormed o0) (wf1 : GpWellFormed o1) (wf2 : GpWellFormed o2)
    (ws : List (BitVec 32)) (pc : BitVec 64) (h : emitShiftReg d o0 o1 o2 = .ok ws) :
    judge (formsNamed r.name) r.name [.reg o0, .reg o1, .reg o2] pc (.ok ws) = .full := by
  have hrow := (List.all_eq_true.mp rows_baseShift_have_forms) r hr
  simp only [henc, bne_self_eq_false, Bool.false_or, hd] at hrow
  obtain ⟨t0, e1, e2, i0, i1, i2, hws⟩ := shiftReg_accepts_facts d o0 o1 o2 ws h
  subst hws
  exact uniform_rrr_end_to_end r.name d.register_op hrow o0 o1 o2 wf0 wf1 wf2 t0 e1 e2 i0 i1 i2 pc

/-- **End-to-end, kEncodingBaseMinMax (register forms)** -/
theorem minmaxReg_end_to_end (r : InstRow) (hr : r ∈ instTable.toList) (henc : r.enc = encBaseMinMax)
    (d : BaseMinMaxRow) (hd : baseMinMax[r.idx]? = some d) (o0 o1 o2 : Reg)
    (wf0 : GpWellFormed o0) (wf1 : GpWellFormed o1) (wf2 : GpWellFormed o2)
    (ws : List (BitVec 32)) (pc : BitVec 64) (h : emitMinMaxReg d o0 o1 o2 = .ok ws) :
    judge (formsNamed r.name) r.name [.reg o0, .reg o1, .reg o2] pc (.ok ws) = .full := by
  have hrow := (List.all_eq_true.mp rows_baseMinMax_have_forms) r hr
  simp only [henc, bne_self_eq_false, Bool.false_or, hd] at hrow
  obtain ⟨t0, e1, e2, i0, i1, i2, hws⟩ := minmaxReg_accepts_facts d o0 o1 o2 ws h
  subst hws
  exact uniform_rrr_end_to_end r.name d.register_op hrow o0 o1 o2 wf0 wf1 wf2 t0 e1 e2 i0 i1 i2 pc

/-! ### kEncodingBaseRRRR (madd, msub, smaddl, smsubl, umaddl, umsubl) -/

def rrrrRowOk (name : String) (d : BaseRRRRRow) : Bool :=
  (d.a_hi_id == idSP || d.a_hi_id == idZR) && (d.b_hi_id == idSP || d.b_hi_id == idZR) && (d.c_hi_id == idSP || d.c_hi_id == idZR) &&
  (d.d_hi_id == idSP || d.d_hi_id == idZR) &&
  (w32 d.opcode &&& 0x001F7FFF#32 == 0#32) && decide (d.a_type ≤ 3) && decide (d.b_type ≤ 3) && decide (d.c_type ≤ 3) && decide (d.d_type ≤ 3) &&
  [rtGp32, rtGp64].all fun ta => [rtGp32, rtGp64].all fun tb => [rtGp32, rtGp64].all fun tc => [rtGp32, rtGp64].all fun td =>
    !(checkGpType { rt := ta, id := 0 } d.a_type && checkGpType { rt := tb, id := 0 } d.b_type && checkGpType { rt := tc, id := 0 } d.c_type &&
      checkGpType { rt := td, id := 0 } d.d_type && (d.uniform == 0 || (ta == tb && tb == tc && tc == td))) ||
    (formsNamed name).any fun f =>
      isRRRRForm f (wOfRt ta) (wOfRt tb) (wOfRt tc) (wOfRt td) (d.a_hi_id == idSP) (d.b_hi_id == idSP) (d.c_hi_id == idSP) (d.d_hi_id == idSP)
        (w32 d.opcode ||| (BitVec.ofNat 32 (xOf { rt := ta, id := 0 } d.a_type) <<< 31))

set_option maxRecDepth 1000000 in
theorem rows_baseRRRR_have_forms :
    instTable.toList.all (fun r => r.enc != encBaseRRRR ||
      (match baseRRRR[r.idx]? with
       | some d => rrrrRowOk r.name d
       | none => false)) = true := by decide +kernel

theorem baseRRRR_accepts_facts (d : BaseRRRRRow) (o0 o1 o2 o3 : Reg) (ws : List (BitVec 32)) (h : emitBaseRRRR d o0 o1 o2 o3 = .ok ws) :
    checkGpType o0 d.a_type = true ∧ checkGpType o1 d.b_type = true ∧ checkGpType o2 d.c_type = true ∧ checkGpType o3 d.d_type = true ∧
    (d.uniform = 0 ∨ (o0.rt = o1.rt ∧ o1.rt = o2.rt ∧ o2.rt = o3.rt)) ∧
    checkGpId o0 d.a_hi_id = true ∧ checkGpId o1 d.b_hi_id = true ∧ checkGpId o2 d.c_hi_id = true ∧ checkGpId o3 d.d_hi_id = true ∧
    ws = [w32 d.opcode ||| addImm (xOf o0 d.a_type) 31 ||| addReg o2.id 16 ||| addReg o3.id 10 ||| addReg o1.id 5 ||| addReg o0.id 0] := by
  unfold emitBaseRRRR at h
  repeat (split at h <;> try (simp [invalidInstruction, invalidPhysId] at h))
  simp [ok1] at h
  simp_all [Reg.sameSig]
  by_cases hu : d.uniform = 0 <;> simp_all

/-- **End-to-end, kEncodingBaseRRRR** -/
theorem baseRRRR_end_to_end (r : InstRow) (hr : r ∈ instTable.toList) (henc : r.enc = encBaseRRRR)
    (d : BaseRRRRRow) (hd : baseRRRR[r.idx]? = some d) (o0 o1 o2 o3 : Reg)
    (wf0 : GpWellFormed o0) (wf1 : GpWellFormed o1) (wf2 : GpWellFormed o2) (wf3 : GpWellFormed o3)
    (ws : List (BitVec 32)) (pc : BitVec 64) (h : emitBaseRRRR d o0 o1 o2 o3 = .ok ws) :
    judge (formsNamed r.name) r.name [.reg o0, .reg o1, .reg o2, .reg o3] pc (.ok ws) = .full := by
  have hrow := (List.all_eq_true.mp rows_baseRRRR_have_forms) r hr
  simp only [henc, bne_self_eq_false, Bool.false_or, hd] at hrow
  obtain ⟨t0, t1, t2, t3, huni, i0, i1, i2, i3, hws⟩ := baseRRRR_accepts_facts d o0 o1 o2 o3 ws h
  simp only [rrrrRowOk, Bool.and_eq_true, Bool.or_eq_true, beq_iff_eq, decide_eq_true_eq] at hrow
  obtain ⟨⟨⟨⟨⟨⟨⟨⟨⟨ha, hb⟩, hc⟩, hdd⟩, hclean⟩, hta⟩, htb⟩, htc⟩, htd⟩, hall⟩ := hrow
  have r0 := gp_rt_of_check o0 d.a_type hta t0
  have r1 := gp_rt_of_check o1 d.b_type htb t1
  have r2 := gp_rt_of_check o2 d.c_type htc t2
  have r3 := gp_rt_of_check o3 d.d_type htd t3
  have m0 : o0.rt ∈ [rtGp32, rtGp64] := by simp; exact r0
  have m1 : o1.rt ∈ [rtGp32, rtGp64] := by simp; exact r1
  have m2 : o2.rt ∈ [rtGp32, rtGp64] := by simp; exact r2
  have m3 : o3.rt ∈ [rtGp32, rtGp64] := by simp; exact r3
  have hcombo := (List.all_eq_true.mp ((List.all_eq_true.mp ((List.all_eq_true.mp ((List.all_eq_true.mp hall) o0.rt m0)) o1.rt m1)) o2.rt m2)) o3.rt m3
  have hcond : (checkGpType { rt := o0.rt, id := 0 } d.a_type && checkGpType { rt := o1.rt, id := 0 } d.b_type &&
      checkGpType { rt := o2.rt, id := 0 } d.c_type && checkGpType { rt := o3.rt, id := 0 } d.d_type &&
      (d.uniform == 0 || (o0.rt == o1.rt && o1.rt == o2.rt && o2.rt == o3.rt))) = true := by
    have e0 : checkGpType { rt := o0.rt, id := 0 } d.a_type = checkGpType o0 d.a_type := rfl
    have e1 : checkGpType { rt := o1.rt, id := 0 } d.b_type = checkGpType o1 d.b_type := rfl
    have e2 : checkGpType { rt := o2.rt, id := 0 } d.c_type = checkGpType o2 d.c_type := rfl
    have e3 : checkGpType { rt := o3.rt, id := 0 } d.d_type = checkGpType o3 d.d_type := rfl
    rw [e0, e1, e2, e3, t0, t1, t2, t3]
    rcases huni with hu | ⟨hu1, hu2, hu3⟩
    · simp [hu]
    · simp [hu1, hu2, hu3]
  simp only [hcond, Bool.not_true, Bool.false_or, List.any_eq_true] at hcombo
  obtain ⟨f, hfmem, hform⟩ := hcombo
  have ex : xOf { rt := o0.rt, id := 0 } d.a_type = xOf o0 d.a_type := rfl
  rw [ex] at hform
  have hdesc := rrrr_describes f _ _ _ _ _ _ _ _ (w32 d.opcode) (BitVec.ofNat 32 (xOf o0 d.a_type)) o0 o1 o2 o3 pc hform hclean
    (gpOk_of_checks o0 d.a_type d.a_hi_id hta ha wf0 t0 i0) (gpOk_of_checks o1 d.b_type d.b_hi_id htb hb wf1 t1 i1)
    (gpOk_of_checks o2 d.c_type d.c_hi_id htc hc wf2 t2 i2) (gpOk_of_checks o3 d.d_type d.d_hi_id htd hdd wf3 t3 i3)
  have hfull : f.isPartial = false := by
    simp only [isRRRRForm, Bool.and_eq_true, beq_iff_eq] at hform
    obtain ⟨⟨⟨⟨⟨⟨⟨⟨⟨hops, _⟩, _⟩, _⟩, _⟩, hfree⟩, _⟩, _⟩, _⟩, _⟩ := hform
    simp [Form.isPartial, hops, OpSpec.isPartial, hfree]
  subst hws
  have hany : (formsNamed r.name).any (fun f => !f.isPartial && describes f [.reg o0, .reg o1, .reg o2, .reg o3] pc
      (w32 d.opcode ||| addImm (xOf o0 d.a_type) 31 ||| addReg o2.id 16 ||| addReg o3.id 10 ||| addReg o1.id 5 ||| addReg o0.id 0)) = true := by
    rw [List.any_eq_true]
    exact ⟨f, hfmem, by simp [hfull]; simpa [addImm, addReg] using hdesc⟩
  simp [judge, hany]

/-! ### kEncodingBaseCSel (csel, csinc, csinv, csneg) -/

def cselRowOk (name : String) (opcode : Nat) : Bool :=
  (w32 opcode &&& 0x001FF3FF#32 == 0#32) &&
  [rtGp32, rtGp64].all fun t =>
    (formsNamed name).any fun f =>
      isCSelForm f (wOfRt t) (w32 opcode ||| (BitVec.ofNat 32 (xOf { rt := t, id := 0 } kWX) <<< 31))

set_option maxRecDepth 1000000 in
theorem rows_baseCSel_have_forms :
    instTable.toList.all (fun r => r.enc != encBaseCSel ||
      (match baseCSel[r.idx]? with
       | some d => cselRowOk r.name d.opcode
       | none => false)) = true := by decide +kernel

theorem csel_accepts_facts (opc : Nat) (o0 o1 o2 : Reg) (cond : BitVec 64) (ws : List (BitVec 32)) (h : emitCSel opc o0 o1 o2 cond = .ok ws) :
    checkGpType o0 kWX = true ∧ o0.rt = o1.rt ∧ o1.rt = o2.rt ∧
    checkGpId o0 idZR = true ∧ checkGpId o1 idZR = true ∧ checkGpId o2 idZR = true ∧ cond.toNat < 16 ∧
    ws = [w32 opc ||| addImm (xOf o0 kWX) 31 ||| addReg o2.id 16 ||| addImm (condCodeToOpcodeField cond.toNat) 12 ||| addReg o1.id 5 ||| addReg o0.id 0] := by
  unfold emitCSel at h
  repeat (split at h <;> try (simp [invalidInstruction, invalidPhysId, invalidImmediate] at h))
  simp [ok1] at h
  simp_all [Reg.sameSig]
  omega

/-- **End-to-end, kEncodingBaseCSel** -/
theorem csel_end_to_end (r : InstRow) (hr : r ∈ instTable.toList) (henc : r.enc = encBaseCSel)
    (d : BaseCSelRow) (hd : baseCSel[r.idx]? = some d) (o0 o1 o2 : Reg) (cond : BitVec 64) (p : Nat)
    (wf0 : GpWellFormed o0) (wf1 : GpWellFormed o1) (wf2 : GpWellFormed o2)
    (ws : List (BitVec 32)) (pc : BitVec 64) (h : emitCSel d.opcode o0 o1 o2 cond = .ok ws) :
    judge (formsNamed r.name) r.name [.reg o0, .reg o1, .reg o2, .imm cond p] pc (.ok ws) = .full := by
  have hrow := (List.all_eq_true.mp rows_baseCSel_have_forms) r hr
  simp only [henc, bne_self_eq_false, Bool.false_or, hd] at hrow
  obtain ⟨t0, e1, e2, i0, i1, i2, hcond, hws⟩ := csel_accepts_facts d.opcode o0 o1 o2 cond ws h
  simp only [cselRowOk, Bool.and_eq_true, beq_iff_eq] at hrow
  obtain ⟨hclean, hall⟩ := hrow
  have r0 := gp_rt_of_check o0 kWX (by decide) t0
  have m0 : o0.rt ∈ [rtGp32, rtGp64] := by simp; exact r0
  have hcombo := (List.all_eq_true.mp hall) o0.rt m0
  rw [List.any_eq_true] at hcombo
  obtain ⟨f, hfmem, hform⟩ := hcombo
  have ex : xOf { rt := o0.rt, id := 0 } kWX = xOf o0 kWX := rfl
  rw [ex] at hform
  have t1 : checkGpType o1 kWX = true := by unfold checkGpType at *; rw [← e1]; exact t0
  have t2 : checkGpType o2 kWX = true := by unfold checkGpType at *; rw [← e2, ← e1]; exact t0
  have g0 := gpOk_of_checks o0 kWX idZR (by decide) (Or.inr rfl) wf0 t0 i0
  have g1 := gpOk_of_checks o1 kWX idZR (by decide) (Or.inr rfl) wf1 t1 i1
  have g2 := gpOk_of_checks o2 kWX idZR (by decide) (Or.inr rfl) wf2 t2 i2
  rw [← e1] at g1
  rw [← e2, ← e1] at g2
  have hz : (idZR == idSP) = false := by decide
  rw [hz] at g0 g1 g2
  have hcf : condCodeToOpcodeField cond.toNat = condField cond.toNat := cond_field_agrees ⟨cond.toNat, hcond⟩
  have hdesc := csel_describes f _ (w32 d.opcode) (BitVec.ofNat 32 (xOf o0 kWX)) o0 o1 o2 cond p pc hform hclean g0 g1 g2 hcond
  have hfull : f.isPartial = false := by
    simp only [isCSelForm, Bool.and_eq_true, beq_iff_eq] at hform
    obtain ⟨⟨⟨⟨⟨⟨⟨⟨⟨hops, _⟩, _⟩, _⟩, _⟩, hfree⟩, _⟩, _⟩, _⟩, _⟩ := hform
    simp [Form.isPartial, hops, OpSpec.isPartial, hfree]
  subst hws
  have hany : (formsNamed r.name).any (fun f => !f.isPartial && describes f [.reg o0, .reg o1, .reg o2, .imm cond p] pc
      (w32 d.opcode ||| addImm (xOf o0 kWX) 31 ||| addReg o2.id 16 ||| addImm (condCodeToOpcodeField cond.toNat) 12 ||| addReg o1.id 5 ||| addReg o0.id 0)) = true := by
    rw [List.any_eq_true]
    exact ⟨f, hfmem, by simp [hfull]; rw [hcf]; simpa [addImm, addReg] using hdesc⟩
  simp [judge, hany]

/-! ### kEncodingBaseAddSub, immediate forms (add, adds, sub, subs  Rd, Rn, #imm {, lsl #0|12}) -/

theorem shl24_clean (a : BitVec 32) : (a <<< 24) &&& 0x007FFFFF#32 = 0#32 := by bv_decide

theorem imm12_shifted (imm : BitVec 64) (h : imm &&& ~~~0xFFF000#64 = 0#64) :
    (imm.toNat >>> 12) * 4096 = imm.toNat ∧ imm.toNat >>> 12 < 4096 := by
  have h1 : (imm >>> 12) <<< 12 = imm := by bv_decide
  have h2 : (imm >>> 12).ult 4096#64 = true := by bv_decide
  have h3 : (imm >>> 12).toNat = imm.toNat >>> 12 := by simp [BitVec.toNat_ushiftRight]
  have h4 : (imm.toNat >>> 12) < 4096 := by rw [← h3]; simpa [BitVec.ult] using h2
  refine ⟨?_, h4⟩
  have := congrArg BitVec.toNat h1
  rw [BitVec.toNat_shiftLeft, h3, Nat.shiftLeft_eq] at this
  have hlt : imm.toNat >>> 12 * 2 ^ 12 < 2 ^ 64 := by omega
  rw [Nat.mod_eq_of_lt hlt] at this
  omega

def addSubOperandTail (imm : BitVec 64) (p : Nat) (sh : Option (BitVec 64 × Nat)) : List Operand :=
  match sh with
  | none => [.imm imm p]
  | some (s, ps) => [.imm imm p, .imm s ps]

theorem addSubFields_facts (imm : BitVec 64) (shift field shf : Nat) (hk : shift < 2) (h : addSubImmFields imm shift = some (field, shf)) :
    field < 4096 ∧ shf < 2 ∧ field * (if shf == 1 then 4096 else 1) = imm.toNat * (if shift == 1 then 4096 else 1) := by
  unfold addSubImmFields at h
  by_cases hbig : imm.toNat > 0xFFF
  · simp only [hbig, if_true] at h
    by_cases hs0 : shift = 0
    · by_cases hzz : imm &&& ~~~0xFFF000#64 = 0#64
      · obtain ⟨e1, e2⟩ := imm12_shifted imm hzz
        simp [hs0] at h
        obtain ⟨_, rfl, rfl⟩ := h
        subst hs0
        simp; omega
      · have hlit : (~~~0xFFF000#64 : BitVec 64) = 18446744073692778495#64 := by decide
        rw [hlit] at hzz
        simp [hs0] at h
        exact absurd h.1 hzz
    · simp [hs0] at h
  · simp only [hbig, if_false, Option.some.injEq, Prod.mk.injEq] at h
    obtain ⟨rfl, rfl⟩ := h
    exact ⟨by omega, hk, rfl⟩

theorem addSubShift_facts (sh : Option (BitVec 64 × Nat)) (k : Nat) (h : addSubShiftOf sh = some k) :
    k < 2 ∧ (sh = none ∧ k = 0 ∨ ∃ s, sh = some (s, sopLSL) ∧ (s.toNat = 0 ∧ k = 0 ∨ s.toNat = 12 ∧ k = 1)) := by
  unfold addSubShiftOf at h
  match sh, h with
  | none, h => simp at h; exact ⟨by omega, Or.inl ⟨rfl, h.symm⟩⟩
  | some (v, pp), h =>
    simp only [] at h
    by_cases hp' : pp = sopLSL
    · subst hp'
      by_cases a : v = 0
      · subst a; simp at h; exact ⟨by omega, Or.inr ⟨0, rfl, Or.inl ⟨rfl, h.symm⟩⟩⟩
      · by_cases b : v = 12
        · subst b; simp at h; exact ⟨by omega, Or.inr ⟨12, rfl, Or.inr ⟨rfl, h.symm⟩⟩⟩
        · simp at h
          exact absurd (h.1 (by simpa using a)) (by simpa using b)
    · simp [hp'] at h

theorem addSubImm_accepts_facts (d : BaseAddSubRow) (o0 o1 : Reg) (imm : BitVec 64) (p : Nat) (sh : Option (BitVec 64 × Nat))
    (ws : List (BitVec 32)) (h : emitAddSubImm d o0 o1 imm sh = .ok ws) :
    checkGpType o0 kWX = true ∧ o0.rt = o1.rt ∧
    checkGpId o0 (if (w32 d.immediate_op <<< 24).getLsbD 29 then idZR else idSP) = true ∧ checkGpId o1 idSP = true ∧
    ∃ field shf, field < 4096 ∧ shf < 2 ∧ addSubTailOk field shf (addSubOperandTail imm p sh) ∧
      ws = [(w32 d.immediate_op <<< 24) ||| addImm (xOf o0 kWX) 31 ||| addImm shf 22 ||| addImm field 10 ||| addReg o1.id 5 ||| addReg o0.id 0] := by
  unfold emitAddSubImm at h
  by_cases c0 : (checkGpType o0 kWX && o0.sameSig o1) = true
  · simp only [c0, Bool.not_true, Bool.false_eq_true, if_false] at h
    have ⟨t0, ss⟩ : checkGpType o0 kWX = true ∧ o0.sameSig o1 = true := by simpa using c0
    have ert : o0.rt = o1.rt := by simp [Reg.sameSig] at ss; exact ss.1.1.1
    by_cases c1 : (!checkGpId o0 (if (w32 d.immediate_op <<< 24).getLsbD 29 then idZR else idSP) || !checkGpId o1 idSP) = true
    · simp only [c1, if_true, invalidPhysId] at h; cases h
    · simp only [c1, Bool.false_eq_true, if_false] at h
      have ⟨i0, i1⟩ : checkGpId o0 (if (w32 d.immediate_op <<< 24).getLsbD 29 then idZR else idSP) = true ∧ checkGpId o1 idSP = true := by
        simpa using c1
      refine ⟨t0, ert, i0, i1, ?_⟩
      cases hk : addSubShiftOf sh with
      | none => rw [hk] at h; simp [invalidImmediate] at h
      | some k =>
        rw [hk] at h
        simp only [] at h
        cases hf : addSubImmFields imm k with
        | none => rw [hf] at h; simp [invalidImmediate] at h
        | some fs =>
          obtain ⟨field, shf⟩ := fs
          rw [hf] at h
          simp only [ok1, Result.ok.injEq] at h
          obtain ⟨hk2, hshape⟩ := addSubShift_facts sh k hk
          obtain ⟨f1, f2, f3⟩ := addSubFields_facts imm k field shf hk2 hf
          refine ⟨field, shf, f1, f2, ?_, h.symm⟩
          rcases hshape with ⟨rfl, rfl⟩ | ⟨s, rfl, ⟨hs0, rfl⟩ | ⟨hs12, rfl⟩⟩
          · simp [addSubOperandTail, addSubTailOk]; simpa using f3.symm
          · simp [addSubOperandTail, addSubTailOk, hs0]; simpa using f3.symm
          · simp [addSubOperandTail, addSubTailOk, hs12]; simpa using f3.symm
  · simp only [c0, Bool.not_false, if_true, invalidInstruction] at h; cases h

def addSubImmRowOk (name : String) (d : BaseAddSubRow) : Bool :=
  [rtGp32, rtGp64].all fun t =>
    (formsNamed name).any fun f =>
      isAddSubImmForm f (wOfRt t) (!(w32 d.immediate_op <<< 24).getLsbD 29) true
        ((w32 d.immediate_op <<< 24) ||| (BitVec.ofNat 32 (xOf { rt := t, id := 0 } kWX) <<< 31))

set_option maxRecDepth 1000000 in
theorem rows_baseAddSub_imm_have_forms :
    instTable.toList.all (fun r => r.enc != encBaseAddSub ||
      (match baseAddSub[r.idx]? with
       | some d => addSubImmRowOk r.name d
       | none => false)) = true := by decide +kernel

/-- **End-to-end, kEncodingBaseAddSub (immediate forms)**: `add/adds/sub/subs Rd, Rn, #imm {, lsl #0|12}` -/
theorem addSubImm_end_to_end (r : InstRow) (hr : r ∈ instTable.toList) (henc : r.enc = encBaseAddSub)
    (d : BaseAddSubRow) (hd : baseAddSub[r.idx]? = some d) (o0 o1 : Reg) (imm : BitVec 64) (p : Nat) (sh : Option (BitVec 64 × Nat))
    (wf0 : GpWellFormed o0) (wf1 : GpWellFormed o1)
    (ws : List (BitVec 32)) (pc : BitVec 64) (h : emitAddSubImm d o0 o1 imm sh = .ok ws) :
    judge (formsNamed r.name) r.name (.reg o0 :: .reg o1 :: addSubOperandTail imm p sh) pc (.ok ws) = .full := by
  have hrow := (List.all_eq_true.mp rows_baseAddSub_imm_have_forms) r hr
  simp only [henc, bne_self_eq_false, Bool.false_or, hd] at hrow
  obtain ⟨t0, e1, i0, i1, field, shf, hfl, hsl, htail, hws⟩ := addSubImm_accepts_facts d o0 o1 imm p sh ws h
  have r0 := gp_rt_of_check o0 kWX (by decide) t0
  have m0 : o0.rt ∈ [rtGp32, rtGp64] := by simp; exact r0
  have hcombo := (List.all_eq_true.mp hrow) o0.rt m0
  rw [List.any_eq_true] at hcombo
  obtain ⟨f, hfmem, hform⟩ := hcombo
  have ex : xOf { rt := o0.rt, id := 0 } kWX = xOf o0 kWX := rfl
  rw [ex] at hform
  have t1 : checkGpType o1 kWX = true := by unfold checkGpType at *; rw [← e1]; exact t0
  have g1 := gpOk_of_checks o1 kWX idSP (by decide) (Or.inl rfl) wf1 t1 i1
  rw [← e1] at g1
  have hsp : (idSP == idSP) = true := by decide
  rw [hsp] at g1
  have g0 : gpOk (wOfRt o0.rt) (!(w32 d.immediate_op <<< 24).getLsbD 29) o0 := by
    cases hb : (w32 d.immediate_op <<< 24).getLsbD 29 with
    | true =>
      rw [hb] at i0
      simp only [if_true] at i0
      have := gpOk_of_checks o0 kWX idZR (by decide) (Or.inr rfl) wf0 t0 i0
      rw [show (idZR == idSP) = false by decide] at this
      exact this
    | false =>
      rw [hb] at i0
      simp only [Bool.false_eq_true, if_false] at i0
      have := gpOk_of_checks o0 kWX idSP (by decide) (Or.inl rfl) wf0 t0 i0
      rw [hsp] at this
      exact this
  have hdesc := addsub_imm_describes f _ _ _ (w32 d.immediate_op <<< 24) (BitVec.ofNat 32 (xOf o0 kWX)) o0 o1 field shf
    (addSubOperandTail imm p sh) pc hform (shl24_clean _) g0 g1 hfl hsl htail
  have hfull : f.isPartial = false := by
    simp only [isAddSubImmForm, Bool.and_eq_true, beq_iff_eq] at hform
    obtain ⟨⟨⟨⟨⟨⟨⟨⟨⟨hops, _⟩, _⟩, _⟩, _⟩, hfree⟩, _⟩, _⟩, _⟩, _⟩ := hform
    simp [Form.isPartial, hops, OpSpec.isPartial, hfree]
  subst hws
  have hany : (formsNamed r.name).any (fun f => !f.isPartial && describes f (.reg o0 :: .reg o1 :: addSubOperandTail imm p sh) pc
      ((w32 d.immediate_op <<< 24) ||| addImm (xOf o0 kWX) 31 ||| addImm shf 22 ||| addImm field 10 ||| addReg o1.id 5 ||| addReg o0.id 0)) = true := by
    rw [List.any_eq_true]
    exact ⟨f, hfmem, by simp [hfull]; simpa [addImm, addReg] using hdesc⟩
  cases sh with
  | none =>
    have h2 := hany
    simp only [addSubOperandTail] at h2
    simp [judge, addSubOperandTail, h2]
  | some sp =>
    obtain ⟨s, ps⟩ := sp
    have h2 := hany
    simp only [addSubOperandTail] at h2
    simp [judge, addSubOperandTail, h2]

end AsmjitVerif.C02
