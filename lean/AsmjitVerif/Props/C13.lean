/-
C13 (name leg): the textual name of every instruction maps back to an instruction id that carries this name - the
same id wherever the name is unique.

Hand model: Model/InstName.lean (decode_to_buffer, compare_string_views, find_instruction, find_alias, string_to_inst_id).
Meaning: Spec/InstName.lean (`roundTripOk`, `aliasOk`, textbook `lexLt`). General lemmas: Lemmas/InstName.lean
(`bsearch_finds`, `bsearch_sound`: for *any* table). The facts about the tables of the current sources are `decide +kernel`
over `Gen/X86Names.lean`, `Gen/A64Names.lean`, `Gen/X86DBAliases.lean`, regenerated from the compiler on every run.
-/
import AsmjitVerif.Lemmas.InstName
import AsmjitVerif.Gen.X86Names
import AsmjitVerif.Gen.A64Names
import AsmjitVerif.Gen.X86DBAliases
set_option maxRecDepth 1000000
namespace AsmjitVerif.C13
open AsmjitVerif.InstName

/-! ### general part (any tables) -/

theorem allIdsInSpan_spec (T : NameTables) (names : List (List Nat)) (h : allIdsInSpan T names = true)
    (id : Nat) (h0 : 0 < id) (hlt : id < names.length) : idInSpan T names id = true := by
  simp only [allIdsInSpan, List.all_eq_true] at h
  have hz : id < names.zipIdx.length := by simpa using hlt
  have hm := h (names.zipIdx[id]) (List.getElem_mem hz)
  simp only [List.getElem_zipIdx, Nat.zero_add, Bool.or_eq_true, beq_iff_eq] at hm
  rcases hm with hm | hm
  · omega
  · unfold idInSpan
    rw [List.getD_eq_getElem?_getD, List.getElem?_eq_getElem hlt]
    simpa [nameInSpan] using hm

theorem allSpansOk_spec (T : NameTables) (pn : List (List Nat)) (h : allSpansOk T pn = true)
    (p : Nat) (hp : p < 26) (h0 : (T.spans.getD p (0, 0)).1 ≠ 0) : spanOk T pn p = true := by
  simp only [allSpansOk, List.all_eq_true, List.mem_range, Bool.or_eq_true, beq_iff_eq] at h
  rcases h p hp with h | h
  · exact absurd h h0
  · exact h

theorem idInSpan_len (T : NameTables) (names : List (List Nat)) (id : Nat) (h : idInSpan T names id = true) :
    (names.getD id []).length ≠ 0 ∧ (names.getD id []).length ≤ T.maxLen := by
  unfold idInSpan at h
  cases hn : names.getD id [] with
  | nil => rw [hn] at h; exact absurd h (by simp)
  | cons c r =>
    rw [hn] at h
    simp only [Bool.and_eq_true, decide_eq_true_eq] at h
    simp only [List.length_cons]
    omega

theorem letter_has_span (T : NameTables) (names : List (List Nat)) (id : Nat) (h : idInSpan T names id = true) :
    letterOf names id < 26 ∧ (T.spans.getD (letterOf names id) (0, 0)).1 ≠ 0 := by
  unfold idInSpan at h
  unfold letterOf
  cases hn : names.getD id [] with
  | nil => rw [hn] at h; exact absurd h (by simp)
  | cons c r =>
    rw [hn] at h
    simp only [Bool.and_eq_true, decide_eq_true_eq, bne_iff_ne, ne_eq] at h
    obtain ⟨⟨⟨⟨⟨c1, c2⟩, cz⟩, c3⟩, c4⟩, _⟩ := h
    have hcc : 97 ≤ c ∧ c ≤ 122 := ⟨c1, c2⟩
    simp only [hcc, and_self, if_true]
    exact ⟨by omega, cz⟩

theorem idAt_nil (T : NameTables) (h : T.sortedIds = []) (i : Nat) : idAt T i = i := by
  unfold idAt; rw [if_pos h]

theorem posNames_nil (T : NameTables) (names : List (List Nat)) (h : T.sortedIds = []) : posNames T names = names := by
  unfold posNames; rw [if_pos h]

/-- Round trip through `find_instruction` when the ids themselves are sorted (no sorted id table), for every table
    whose index is well formed at the letter of `id`: the printed name of `id` is found again, as `id`. -/
theorem find_roundtrip (T : NameTables) (names : List (List Nat)) (hd : decodeOk T names = true) (hnil : T.sortedIds = [])
    (hids : allIdsInSpan T names = true) (id : Nat) (h0 : 0 < id) (hlt : id < T.count)
    (hsp : spanOk T names (letterOf names id) = true) : findInstruction T (names.getD id []) = id := by
  have hlen := names_length T names hd
  have hs : sortedIdsOk T = true := by unfold sortedIdsOk; rw [hnil]; rfl
  have h := findInstruction_finds T names hd hs id
    (by rw [posNames_nil T names hnil]; exact allIdsInSpan_spec T names hids id h0 (by omega))
    (by rw [posNames_nil T names hnil]; exact hsp)
  rw [posNames_nil T names hnil, idAt_nil T hnil] at h
  exact h

theorem allNamesIndexed_spec (T : NameTables) (pn names : List (List Nat)) (posOfId : List Nat)
    (h : allNamesIndexed T pn names posOfId = true) (id : Nat) (h0 : 0 < id) (hlt : id < names.length) :
    idInSpan T pn (posOfId.getD id 0) = true ∧ pn.getD (posOfId.getD id 0) [] = names.getD id [] := by
  simp only [allNamesIndexed, Bool.and_eq_true, beq_iff_eq, List.all_eq_true] at h
  obtain ⟨hl, h⟩ := h
  have hz : id < ((names.zip posOfId).zipIdx).length := by simp [List.length_zip]; omega
  have hm := h (((names.zip posOfId).zipIdx)[id]) (List.getElem_mem hz)
  simp only [List.getElem_zipIdx, List.getElem_zip, Nat.zero_add, Bool.or_eq_true, beq_iff_eq, Bool.and_eq_true] at hm
  have e : names.getD id [] = names[id] := by
    rw [List.getD_eq_getElem?_getD, List.getElem?_eq_getElem hlt]; rfl
  have e2 : posOfId.getD id 0 = posOfId[id]'(by omega) := by
    rw [List.getD_eq_getElem?_getD, List.getElem?_eq_getElem (by omega)]; rfl
  rcases hm with hm | ⟨hm1, hm2⟩
  · omega
  · rw [e, e2]
    refine ⟨?_, hm2⟩
    unfold idInSpan
    rw [hm2]
    simpa [nameInSpan] using hm1

/-- Round trip through `find_instruction` with a sorted id table: the printed name of `id` is found again, as an id
    that prints the same name (`pn` = the names by search position). -/
theorem find_roundtrip_sorted (T : NameTables) (names pn : List (List Nat)) (posOfId : List Nat) (hpn : posNames T names = pn)
    (hd : decodeOk T names = true) (hs : sortedIdsOk T = true)
    (hidx : allNamesIndexed T pn names posOfId = true) (hspans : allSpansOk T pn = true)
    (id : Nat) (h0 : 0 < id) (hlt : id < T.count) :
    findInstruction T (names.getD id []) < T.count ∧
    names.getD (findInstruction T (names.getD id [])) [] = names.getD id [] := by
  subst hpn
  have hlen := names_length T names hd
  have ⟨hin, hpn⟩ := allNamesIndexed_spec T _ names posOfId hidx id h0 (by omega)
  have ⟨p1, p2⟩ := letter_has_span T (posNames T names) _ hin
  have hsp := allSpansOk_spec T _ hspans _ p1 p2
  have hf := findInstruction_finds T names hd hs _ hin hsp
  rw [hpn] at hf
  have hpos : posOfId.getD id 0 < (posNames T names).length := by
    have hne : (posNames T names).getD (posOfId.getD id 0) [] ≠ [] := by
      rw [hpn]
      have := idInSpan_len T (posNames T names) _ hin
      rw [hpn] at this
      intro e; rw [e] at this; simp at this
    apply Classical.byContradiction
    intro hge
    rw [List.getD_eq_getElem?_getD, List.getElem?_eq_none (by omega)] at hne
    simp at hne
  have ⟨q1, q2⟩ := posNames_getD T names hd hs _ hpos
  rw [hf]
  exact ⟨q1, by rw [← q2, hpn]⟩

/-- a name that occurs once in the table belongs to one id -/
theorem occ_unique (l : List (List Nat)) (s : List Nat) : ∀ i j, i < l.length → j < l.length →
    l.getD i [] = s → l.getD j [] = s → occurrences l s = 1 → i = j := by
  unfold occurrences
  induction l with
  | nil => intro i j hi; simp at hi
  | cons x xs ih =>
    intro i j hi hj ei ej hocc
    have hmem : ∀ k, k < xs.length → xs.getD k [] = s → s ∈ xs.filter (· == s) := by
      intro k hk ek
      rw [List.getD_eq_getElem?_getD, List.getElem?_eq_getElem hk] at ek
      exact List.mem_filter.mpr ⟨by rw [← ek]; exact List.getElem_mem hk, by simp⟩
    cases i with
    | zero =>
      cases j with
      | zero => rfl
      | succ j =>
        simp only [List.getD_cons_zero] at ei
        simp only [List.getD_cons_succ] at ej
        subst ei
        simp only [List.filter_cons, beq_self_eq_true, if_true, List.length_cons] at hocc
        have := hmem j (by simpa using hj) ej
        have hz : (xs.filter (· == x)).length = 0 := by omega
        rw [List.length_eq_zero_iff.mp hz] at this
        simp at this
    | succ i =>
      cases j with
      | zero =>
        simp only [List.getD_cons_zero] at ej
        simp only [List.getD_cons_succ] at ei
        subst ej
        simp only [List.filter_cons, beq_self_eq_true, if_true, List.length_cons] at hocc
        have := hmem i (by simpa using hi) ei
        have hz : (xs.filter (· == x)).length = 0 := by omega
        rw [List.length_eq_zero_iff.mp hz] at this
        simp at this
      | succ j =>
        simp only [List.getD_cons_succ] at ei ej
        by_cases hx : x = s
        · subst hx
          simp only [List.filter_cons, beq_self_eq_true, if_true, List.length_cons] at hocc
          have := hmem i (by simpa using hi) ei
          have hz : (xs.filter (· == x)).length = 0 := by omega
          rw [List.length_eq_zero_iff.mp hz] at this
          simp at this
        · have hb : (x == s) = false := by simpa using hx
          simp only [List.filter_cons, hb] at hocc
          have := ih i j (by simpa using hi) (by simpa using hj) ei ej (by simpa using hocc)
          omega

/-! ### x86 -/

namespace X86
open AsmjitVerif.Gen.X86Names

theorem decode_ok : decodeOk tables names = true := by decide +kernel
theorem ids_in_span : allIdsInSpan tables names = true := by decide +kernel
theorem spans_sorted : allSpansOk tables names = true := by decide +kernel
theorem sorted_ids_ok : sortedIdsOk tables = true := by decide +kernel
theorem spans_in_table : ∀ p, (tables.spans.getD p (0, 0)).2 ≤ (posNames tables names).length := by
  intro p
  by_cases hp : p < 26
  · have : ∀ q, q < 26 → (tables.spans.getD q (0, 0)).2 ≤ (posNames tables names).length := by decide +kernel
    exact this p hp
  · have hl : tables.spans.length = 26 := by decide +kernel
    rw [List.getD_eq_getElem?_getD, List.getElem?_eq_none (by omega)]
    simp

/-- x86, all 1 647 ids: `string_to_inst_id(inst_id_to_string(id)) = id`. -/
theorem name_roundtrip (id : Nat) (h0 : 0 < id) (hlt : id < tables.count) :
    x86StringToInstId tables aliasTables (names.getD id []) = id := by
  have hlen : names.length = tables.count := by decide +kernel
  have hin := allIdsInSpan_spec tables names ids_in_span id h0 (by omega)
  have ⟨l1, l2⟩ := idInSpan_len tables names id hin
  have ⟨p1, p2⟩ := letter_has_span tables names id hin
  have hsp : spanOk tables names (letterOf names id) = true :=
    allSpansOk_spec tables names spans_sorted _ p1 p2
  have hf := find_roundtrip tables names decode_ok rfl ids_in_span id h0 hlt hsp
  unfold x86StringToInstId
  have hc : ¬ ((names.getD id []).length = 0 ∨ (names.getD id []).length > tables.maxLen) := by omega
  rw [if_neg hc]
  simp only [hf]
  rw [if_pos (by omega)]

/-- hence the property predicate (Spec `roundTripOk`) holds at every id - in particular names are unique on x86 -/
theorem roundtrip_monitor (id : Nat) (h0 : 0 < id) (hlt : id < tables.count) :
    roundTripOk names id (x86StringToInstId tables aliasTables (names.getD id [])) = true := by
  have hlen : names.length = tables.count := by decide +kernel
  rw [name_roundtrip id h0 hlt]
  simp only [roundTripOk, Bool.and_eq_true, bne_iff_ne, ne_eq, decide_eq_true_eq, Bool.or_eq_true, beq_self_eq_true, or_true, and_true]
  omega

/-- whatever x86 `string_to_inst_id` answers for *any* string: an id that prints exactly this string, or the target of
    the alias-table entry that spells it. Nothing else is ever returned. -/
theorem lookup_sound (s : List Nat) (hr : x86StringToInstId tables aliasTables s ≠ 0) :
    names.getD (x86StringToInstId tables aliasTables s) [] = s ∨
    ∃ a, a < aliasTables.count ∧ aliasKeyOf aliasTables a = s ∧ x86StringToInstId tables aliasTables s = aliasTables.ids.getD a 0 := by
  unfold x86StringToInstId at hr ⊢
  split at hr
  · exact absurd rfl hr
  · rename_i hc
    rw [if_neg hc]
    by_cases hf : findInstruction tables s ≠ 0
    · simp only [hf, ne_eq, not_false_eq_true, if_true]
      left
      exact (findInstruction_sound tables names decode_ok sorted_ids_ok spans_in_table s hf).2
    · simp only [hf, if_false] at hr ⊢
      cases ha : findAlias aliasTables s with
      | none => rw [ha] at hr; exact absurd rfl hr
      | some a =>
        right
        have ⟨b1, b2, b3⟩ := bsearch_sound _ _ _ _ _ _ ha
        exact ⟨a, by omega, b3, rfl⟩

/-- Every alias spelling of the ISA database (for an instruction AsmJit has) is looked up to an id that prints as the
    database's primary name of that instruction. -/
theorem alias_roundtrip :
    (AsmjitVerif.Gen.X86DBAliases.dbAliases.all fun (a, p) => aliasOk names p (x86StringToInstId tables aliasTables a)) = true := by
  decide +kernel

/-- and the alias table contains nothing the database does not know -/
theorem alias_table_in_db :
    ((List.range aliasTables.count).all fun a =>
      AsmjitVerif.Gen.X86DBAliases.dbAliases.any fun (al, p) =>
        al == aliasKeyOf aliasTables a && names.getD (aliasTables.ids.getD a 0) [] == p) = true := by
  decide +kernel

-- non-vacuity: "add" is id 9's name and is found; "jae" is an alias of jnb; an unknown string gives kIdNone
example : names.getD 9 [] = [97, 100, 100] ∧ x86StringToInstId tables aliasTables [97, 100, 100] = 9 := by decide +kernel
example : names.getD (x86StringToInstId tables aliasTables [106, 97, 101]) [] = [106, 110, 98] := by decide +kernel
example : x86StringToInstId tables aliasTables [97, 100, 101] = 0 := by decide +kernel

end X86

/-! ### AArch64

The AArch64 ids are not in alphabetical order (a general-purpose run followed by a SIMD run `_v` that reuses mnemonics, and
22 further descents inside the first run such as `extr, eret` or `tst, tbnz`). On the pinned tree `_inst_name_index`
spanned ids and `find_instruction` bisected an unsorted range (finding C13-a64-names, DESIGN.md section 7 #16: 186 of 775
names were looked up to kIdNone). fixes/C13-8.patch generates a table of ids sorted by name (one id per distinct name) and
lets the spans refer to positions in it; the theorems below are about the tables of the *current* tree and close exactly
when that table is present and sorted. -/

namespace A64
open AsmjitVerif.Gen.A64Names

theorem decode_ok : decodeOk tables names = true := by decide +kernel
theorem sorted_ids_ok : sortedIdsOk tables = true := by decide +kernel
/-- the names by search position, as the translator printed them, are what the sorted id table says -/
theorem pos_names_eq : posNames tables names = sortedNames := by decide +kernel
theorem names_indexed : allNamesIndexed tables sortedNames names posOfId = true := by decide +kernel
theorem spans_sorted : allSpansOk tables sortedNames = true := by decide +kernel
theorem spans_in_table : ∀ p, (tables.spans.getD p (0, 0)).2 ≤ (posNames tables names).length := by
  intro p
  rw [pos_names_eq]
  by_cases hp : p < 26
  · have : ∀ q, q < 26 → (tables.spans.getD q (0, 0)).2 ≤ sortedNames.length := by decide +kernel
    exact this p hp
  · have hl : tables.spans.length = 26 := by decide +kernel
    rw [List.getD_eq_getElem?_getD, List.getElem?_eq_none (by omega)]
    simp

/-- AArch64, all 775 ids: the printed name of `id` is looked up to an id that prints the same name (general lemma
    `bsearch_finds` + kernel-checked facts about the regenerated tables). -/
theorem name_roundtrip (id : Nat) (h0 : 0 < id) (hlt : id < tables.count) :
    a64StringToInstId tables (names.getD id []) < tables.count ∧
    names.getD (a64StringToInstId tables (names.getD id [])) [] = names.getD id [] := by
  have hlen : names.length = tables.count := by decide +kernel
  have ⟨hin, hpn⟩ := allNamesIndexed_spec tables sortedNames names posOfId names_indexed id h0 (by omega)
  have hl := idInSpan_len tables sortedNames _ hin
  rw [hpn] at hl
  have h := find_roundtrip_sorted tables names sortedNames posOfId pos_names_eq decode_ok sorted_ids_ok names_indexed spans_sorted id h0 hlt
  unfold a64StringToInstId
  have hc : ¬ ((names.getD id []).length = 0 ∨ (names.getD id []).length > tables.maxLen) := by omega
  rw [if_neg hc]
  exact h

/-- the property predicate (Spec `roundTripOk`) at every id - including "the same id wherever the name is unique" -/
theorem roundtrip_monitor (id : Nat) (h0 : 0 < id) (hlt : id < tables.count) :
    roundTripOk names id (a64StringToInstId tables (names.getD id [])) = true := by
  have hlen : names.length = tables.count := by decide +kernel
  have h00 : names.getD 0 [] = [] := by decide +kernel
  have ⟨h1, h2⟩ := name_roundtrip id h0 hlt
  have hin := (allNamesIndexed_spec tables sortedNames names posOfId names_indexed id h0 (by omega))
  have hl := idInSpan_len tables sortedNames _ hin.1
  rw [hin.2] at hl
  have hne : a64StringToInstId tables (names.getD id []) ≠ 0 := by
    intro e; rw [e, h00] at h2; rw [← h2] at hl; simp at hl
  simp only [roundTripOk, Bool.and_eq_true, bne_iff_ne, ne_eq, decide_eq_true_eq, beq_iff_eq, Bool.or_eq_true]
  refine ⟨⟨⟨hne, by omega⟩, h2⟩, ?_⟩
  by_cases hocc : occurrences names (names.getD id []) = 1
  · right
    exact occ_unique names _ _ _ (by omega) (by omega) h2 rfl hocc
  · left; exact hocc

/-- a lookup never yields an id that prints differently -/
theorem lookup_sound (s : List Nat) (hr : a64StringToInstId tables s ≠ 0) :
    names.getD (a64StringToInstId tables s) [] = s := by
  unfold a64StringToInstId at hr ⊢
  split at hr
  · exact absurd rfl hr
  · rename_i hc
    rw [if_neg hc]
    exact (findInstruction_sound tables names decode_ok sorted_ids_ok spans_in_table s hr).2

-- non-vacuity: `ret` (lost on the pinned tree) and `fadd` are found; `abs` names a general-purpose and a SIMD id and is
-- looked up to the general-purpose one
example : ∃ id, 0 < id ∧ id < tables.count ∧ names.getD id [] = [114, 101, 116] ∧
    a64StringToInstId tables [114, 101, 116] = id := ⟨names.idxOf [114, 101, 116], by decide +kernel⟩
example : occurrences names [97, 98, 115] = 2 ∧ a64StringToInstId tables [97, 98, 115] = 1 := by decide +kernel
example : a64StringToInstId tables [114, 101, 122] = 0 := by decide +kernel

end A64

end AsmjitVerif.C13
