/-
C13 (name leg): the textual name of every instruction maps back to an instruction id that carries this name - the
same id wherever the name is unique.

Hand model: Model/InstName.lean (decode_to_buffer, compare_string_views, find_instruction, find_alias, string_to_inst_id).
Meaning: Spec/InstName.lean (`roundTripOk`, `aliasOk`, textbook `lexLt`). General lemmas: Lemmas/InstName.lean
(`bsearch_finds`, `bsearch_sound`: for *any* table). The facts about the tables of the current sources are `decide +kernel`
over `Gen/X86Names.lean`, `Gen/A64Names.lean`, `Gen/X86DBAliases.lean`, regenerated from the compiler on every run.
-/
import AsmjitVerif.Lemmas.InstName
import AsmjitVerif.Gen.X86Names
import AsmjitVerif.Gen.A64Names
import AsmjitVerif.Gen.X86DBAliases
set_option maxRecDepth 1000000
namespace AsmjitVerif.C13
open AsmjitVerif.InstName

/-! ### general part (any tables) -/

theorem allIdsInSpan_spec (T : NameTables) (names : List (List Nat)) (h : allIdsInSpan T names = true)
    (id : Nat) (h0 : 0 < id) (hlt : id < names.length) : idInSpan T names id = true := by
  simp only [allIdsInSpan, List.all_eq_true] at h
  have hz : id < names.zipIdx.length := by simpa using hlt
  have hm := h (names.zipIdx[id]) (List.getElem_mem hz)
  simp only [List.getElem_zipIdx, Nat.zero_add, Bool.or_eq_true, beq_iff_eq] at hm
  rcases hm with hm | hm
  · omega
  · unfold idInSpan
    rw [List.getD_eq_getElem?_getD, List.getElem?_eq_getElem hlt]
    simpa [nameInSpan] using hm

theorem allSpansOk_spec (T : NameTables) (names : List (List Nat)) (h : allSpansOk T names = true)
    (p : Nat) (hp : p < 26) (h0 : (T.spans.getD p (0, 0)).1 ≠ 0) : spanOk T names p = true := by
  simp only [allSpansOk, List.all_eq_true, List.mem_range, Bool.or_eq_true, beq_iff_eq] at h
  rcases h p hp with h | h
  · exact absurd h h0
  · exact h

/-- Round trip through `find_instruction`, for every table whose index is well formed at the letter of `id`:
    the printed name of `id` is found again, as `id`. -/
theorem find_roundtrip (T : NameTables) (names : List (List Nat)) (hd : decodeOk T names = true)
    (hids : allIdsInSpan T names = true) (id : Nat) (h0 : 0 < id) (hlt : id < T.count)
    (hsp : spanOk T names (letterOf names id) = true) : findInstruction T (names.getD id []) = id := by
  have hlen : names.length = T.count := by
    simp only [decodeOk, Bool.and_eq_true, beq_iff_eq] at hd; exact hd.1.1
  exact findInstruction_finds T names hd id (allIdsInSpan_spec T names hids id h0 (by omega)) hsp

theorem idInSpan_len (T : NameTables) (names : List (List Nat)) (id : Nat) (h : idInSpan T names id = true) :
    (names.getD id []).length ≠ 0 ∧ (names.getD id []).length ≤ T.maxLen := by
  unfold idInSpan at h
  cases hn : names.getD id [] with
  | nil => rw [hn] at h; exact absurd h (by simp)
  | cons c r =>
    rw [hn] at h
    simp only [Bool.and_eq_true, decide_eq_true_eq] at h
    simp only [List.length_cons]
    omega

theorem letter_has_span (T : NameTables) (names : List (List Nat)) (id : Nat) (h : idInSpan T names id = true) :
    letterOf names id < 26 ∧ (T.spans.getD (letterOf names id) (0, 0)).1 ≠ 0 := by
  unfold idInSpan at h
  unfold letterOf
  cases hn : names.getD id [] with
  | nil => rw [hn] at h; exact absurd h (by simp)
  | cons c r =>
    rw [hn] at h
    simp only [Bool.and_eq_true, decide_eq_true_eq, bne_iff_ne, ne_eq] at h
    obtain ⟨⟨⟨⟨⟨c1, c2⟩, cz⟩, c3⟩, c4⟩, _⟩ := h
    have hcc : 97 ≤ c ∧ c ≤ 122 := ⟨c1, c2⟩
    simp only [hcc, and_self, if_true]
    exact ⟨by omega, cz⟩

/-! ### x86 -/

namespace X86
open AsmjitVerif.Gen.X86Names

theorem decode_ok : decodeOk tables names = true := by decide +kernel
theorem ids_in_span : allIdsInSpan tables names = true := by decide +kernel
theorem spans_sorted : allSpansOk tables names = true := by decide +kernel
theorem spans_in_table : ∀ p, (tables.spans.getD p (0, 0)).2 ≤ tables.count := by
  intro p
  by_cases hp : p < 26
  · have : ∀ q, q < 26 → (tables.spans.getD q (0, 0)).2 ≤ tables.count := by decide +kernel
    exact this p hp
  · have hl : tables.spans.length = 26 := by decide +kernel
    rw [List.getD_eq_getElem?_getD, List.getElem?_eq_none (by omega)]
    simp

/-- x86, all 1 647 ids: `string_to_inst_id(inst_id_to_string(id)) = id`. -/
theorem name_roundtrip (id : Nat) (h0 : 0 < id) (hlt : id < tables.count) :
    x86StringToInstId tables aliasTables (names.getD id []) = id := by
  have hlen : names.length = tables.count := by decide +kernel
  have hin := allIdsInSpan_spec tables names ids_in_span id h0 (by omega)
  have ⟨l1, l2⟩ := idInSpan_len tables names id hin
  have ⟨p1, p2⟩ := letter_has_span tables names id hin
  have hsp : spanOk tables names (letterOf names id) = true :=
    allSpansOk_spec tables names spans_sorted _ p1 p2
  have hf := find_roundtrip tables names decode_ok ids_in_span id h0 hlt hsp
  unfold x86StringToInstId
  have hc : ¬ ((names.getD id []).length = 0 ∨ (names.getD id []).length > tables.maxLen) := by omega
  rw [if_neg hc]
  simp only [hf]
  rw [if_pos (by omega)]

/-- hence the property predicate (Spec `roundTripOk`) holds at every id - in particular names are unique on x86 -/
theorem roundtrip_monitor (id : Nat) (h0 : 0 < id) (hlt : id < tables.count) :
    roundTripOk names id (x86StringToInstId tables aliasTables (names.getD id [])) = true := by
  have hlen : names.length = tables.count := by decide +kernel
  rw [name_roundtrip id h0 hlt]
  simp only [roundTripOk, Bool.and_eq_true, bne_iff_ne, ne_eq, decide_eq_true_eq, Bool.or_eq_true, beq_self_eq_true, or_true, and_true]
  omega

/-- whatever x86 `string_to_inst_id` answers for *any* string: an id that prints exactly this string, or the target of
    the alias-table entry that spells it. Nothing else is ever returned. -/
theorem lookup_sound (s : List Nat) (hr : x86StringToInstId tables aliasTables s ≠ 0) :
    names.getD (x86StringToInstId tables aliasTables s) [] = s ∨
    ∃ a, a < aliasTables.count ∧ aliasKeyOf aliasTables a = s ∧ x86StringToInstId tables aliasTables s = aliasTables.ids.getD a 0 := by
  unfold x86StringToInstId at hr ⊢
  split at hr
  · exact absurd rfl hr
  · rename_i hc
    rw [if_neg hc]
    by_cases hf : findInstruction tables s ≠ 0
    · simp only [hf, ne_eq, not_false_eq_true, if_true]
      left
      exact (findInstruction_sound tables names decode_ok spans_in_table s hf).2
    · simp only [hf, if_false] at hr ⊢
      cases ha : findAlias aliasTables s with
      | none => rw [ha] at hr; exact absurd rfl hr
      | some a =>
        right
        have ⟨b1, b2, b3⟩ := bsearch_sound _ _ _ _ _ _ ha
        exact ⟨a, by omega, b3, rfl⟩

/-- Every alias spelling of the ISA database (for an instruction AsmJit has) is looked up to an id that prints as the
    database's primary name of that instruction. -/
theorem alias_roundtrip :
    (AsmjitVerif.Gen.X86DBAliases.dbAliases.all fun (a, p) => aliasOk names p (x86StringToInstId tables aliasTables a)) = true := by
  decide +kernel

/-- and the alias table contains nothing the database does not know -/
theorem alias_table_in_db :
    ((List.range aliasTables.count).all fun a =>
      AsmjitVerif.Gen.X86DBAliases.dbAliases.any fun (al, p) =>
        al == aliasKeyOf aliasTables a && names.getD (aliasTables.ids.getD a 0) [] == p) = true := by
  decide +kernel

-- non-vacuity: "add" is id 9's name and is found; "jae" is an alias of jnb; an unknown string gives kIdNone
example : names.getD 9 [] = [97, 100, 100] ∧ x86StringToInstId tables aliasTables [97, 100, 100] = 9 := by decide +kernel
example : names.getD (x86StringToInstId tables aliasTables [106, 97, 101]) [] = [106, 110, 98] := by decide +kernel
example : x86StringToInstId tables aliasTables [97, 100, 101] = 0 := by decide +kernel

end X86

/-! ### AArch64

Full-strength statement (does NOT hold on the pinned tree - known finding C13-a64-names, DESIGN.md section 7 #16):

  theorem name_roundtrip (id) (h0 : 0 < id) (hlt : id < tables.count) :
      roundTripOk names id (a64StringToInstId tables (names.getD id [])) = true

The AArch64 ids are not in alphabetical order (a general-purpose run followed by a SIMD run `_v`, and 22 further
descents inside the first run such as `extr, eret` or `tst, tbnz`), but `_inst_name_index` spans from the first to the
last id of a letter, so `find_instruction` bisects an unsorted range. Proved instead: the round trip for every id whose
letter has a strictly increasing span (`name_roundtrip_partial`; the extra hypothesis excludes exactly the finding's
class), that a lookup never returns an id with a different name (`lookup_sound`), and the failure at a witness. -/

namespace A64
open AsmjitVerif.Gen.A64Names

theorem decode_ok : decodeOk tables names = true := by decide +kernel
theorem ids_in_span : allIdsInSpan tables names = true := by decide +kernel
theorem spans_in_table : ∀ p, (tables.spans.getD p (0, 0)).2 ≤ tables.count := by
  intro p
  by_cases hp : p < 26
  · have : ∀ q, q < 26 → (tables.spans.getD q (0, 0)).2 ≤ tables.count := by decide +kernel
    exact this p hp
  · have hl : tables.spans.length = 26 := by decide +kernel
    rw [List.getD_eq_getElem?_getD, List.getElem?_eq_none (by omega)]
    simp

theorem name_roundtrip_partial (id : Nat) (h0 : 0 < id) (hlt : id < tables.count)
    (hsp : spanOk tables names (letterOf names id) = true) :
    a64StringToInstId tables (names.getD id []) = id := by
  have hlen : names.length = tables.count := by decide +kernel
  have hin := allIdsInSpan_spec tables names ids_in_span id h0 (by omega)
  have ⟨l1, l2⟩ := idInSpan_len tables names id hin
  have hf := find_roundtrip tables names decode_ok ids_in_span id h0 hlt hsp
  unfold a64StringToInstId
  have hc : ¬ ((names.getD id []).length = 0 ∨ (names.getD id []).length > tables.maxLen) := by omega
  rw [if_neg hc, hf]

/-- a lookup never yields an id that prints differently: the defect can only lose a name, not confuse two -/
theorem lookup_sound (s : List Nat) (hr : a64StringToInstId tables s ≠ 0) :
    names.getD (a64StringToInstId tables s) [] = s := by
  unfold a64StringToInstId at hr ⊢
  split at hr
  · exact absurd rfl hr
  · rename_i hc
    rw [if_neg hc]
    exact (findInstruction_sound tables names decode_ok spans_in_table s hr).2

/-- the finding at its witness: `ret` is the printed name of an id, yet it is looked up to kIdNone -/
theorem name_roundtrip_witness :
    (∃ id, id < tables.count ∧ names.getD id [] = [114, 101, 116]) ∧ a64StringToInstId tables [114, 101, 116] = 0 ∧
    spanOk tables names (114 - 97) = false := by
  refine ⟨⟨names.idxOf [114, 101, 116], ?_, ?_⟩, ?_, ?_⟩ <;> decide +kernel

-- non-vacuity of the partial theorem: letter `f` (fabd .. fsub, SIMD only) has a sorted span and `fadd` is found
example : spanOk tables names (102 - 97) = true := by decide +kernel
example : ∃ id, 0 < id ∧ id < tables.count ∧ names.getD id [] = [102, 97, 100, 100] ∧
    a64StringToInstId tables [102, 97, 100, 100] = id := ⟨names.idxOf [102, 97, 100, 100], by decide +kernel⟩

end A64

end AsmjitVerif.C13
