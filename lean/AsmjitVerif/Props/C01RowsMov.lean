/-
C01 property theorems, class X86Mov, general-purpose forms: `mov reg, reg` for ALL sizes incl. the 8-bit registers AH..BH / SPL..DIL
(same REX logic as X86Arith), `mov MEM, reg` and `mov reg, MEM` with 16 / 32 / 64-bit registers and any `AddrFormL` address form.
(Segment / control / debug registers, the moffs forms and immediates are not in the model: `unmodelled`.)
-/
import AsmjitVerif.Props.C01RowsLegMem
import AsmjitVerif.Props.C01FrontOpReg
set_option linter.constructorNameAsVariable false
set_option linter.unusedSimpArgs false
set_option linter.unusedVariables false
set_option maxRecDepth 100000
namespace AsmjitVerif.Props.C01
open Spec.X86 Model.X86 AsmjitVerif.Lemmas.X86Parse AsmjitVerif.Gen.X86ClassRows

/-- opcode words the class hands to the emitters -/
def finalOpMovRR (e : Entry) : BitVec 32 :=
  if is8 (e.kinds.getD 0 .none) then 0x88#32 else addPrefixBySize 0x89#32 (kindSize (e.kinds.getD 0 .none))
def finalOpMovMR (e : Entry) : BitVec 32 := addArithBySize 0#32 (kindSize (e.kinds.getD 1 .none)) + 0x88#32
def finalOpMovRM (e : Entry) : BitVec 32 := addArithBySize 0#32 (kindSize (e.kinds.getD 0 .none)) + 0x8A#32

def entryOkMovRR (e : Entry) : Bool :=
  match e.rule.ops, e.kinds with
  | [f0, f1], [k0, k1] =>
    e.enc == 0x2C && (legRuleOk e.rule 0 ((finalOpMovRR e >>> 21) &&& 3#32).toNat && (legAgreeOk e.rule (finalOpMovRR e) &&
    (f0.role == .rm && (f1.role == .reg && (((is8 k0 && is8 k1) || (plainKind k0 && plainKind k1 && !is8 k0)) &&
    (noFix f0 && (noFix f1 && (formOpMatches e.rule.oszEff f0 (.reg k0 0) && formOpMatches e.rule.oszEff f1 (.reg k1 0)))))))))
  | _, _ => false

def entryOkMovMrMem (e : Entry) : Bool :=
  match e.rule.ops, e.kinds with
  | [f0, f1], [k0, k1] =>
    is8 k0 || !anyMemAlt f0 ||
    (e.enc == 0x2C && (legCoreA e (finalOpMovMR e) &&
    (f0.role == .rm && (f1.role == .reg && (plainKind k1 && (noFix f1 && formOpMatches e.rule.oszEff f1 (.reg k1 0)))))))
  | _, _ => false

def entryOkMovRmMem (e : Entry) : Bool :=
  match e.rule.ops, e.kinds with
  | [f0, f1], [k0, _] =>
    is8 k0 || !anyMemAlt f1 ||
    (e.enc == 0x2C && (legCoreA e (finalOpMovRM e) &&
    (f0.role == .reg && (f1.role == .rm && (plainKind k0 && (noFix f0 && formOpMatches e.rule.oszEff f0 (.reg k0 0)))))))
  | _, _ => false

theorem mov_rr_entries_ok : lmovChunks.all (fun c => c.all entryOkMovRR) = true := by decide +kernel
theorem mov_mr_mem_entries_ok : lmovChunks.all (fun c => c.all entryOkMovMrMem) = true := by decide +kernel
theorem mov_rm_mem_entries_ok : lmovrmChunks.all (fun c => c.all entryOkMovRmMem) = true := by decide +kernel

/-- **front_cls_correct, class X86Mov, `mov reg, reg`**: ALL register numbers 0..15 (AH..BH: ids 0..3), all operand sizes. -/
theorem front_cls_correct_mov_rr (e : Entry) (ch : List Entry) (hch : ch ∈ lmovChunks) (he : e ∈ ch)
    (ctx : Spec.X86.Ctx) (r0 r1 : BitVec 32) (hm64 : ctx.mode64 = true) (h0 : r0 < 16#32) (h1 : r1 < 16#32)
    (hhi : ∀ k0 k1, e.kinds = [k0, k1] → (k0 = .gpbhi → r0 < 4#32) ∧ (k1 = .gpbhi → r1 < 4#32))
    (bytes : List (BitVec 8)) :
    ∃ k0 k1, e.kinds = [k0, k1] ∧
      (arithRRemit (finalOpMovRR e) k0 k1 r0 r1 = .ok bytes → formOk ctx e.rule [.reg k0 r0.toNat, .reg k1 r1.toNat] {} bytes = true) := by
  have hok := mem_chunks_ok mov_rr_entries_ok e ch hch he
  unfold entryOkMovRR at hok
  split at hok
  · rename_i f0 f1 k0 k1 hops hkinds
    simp only [Bool.and_eq_true, beq_iff_eq, Bool.or_eq_true, Bool.not_eq_true'] at hok
    obtain ⟨-, hR, hA, ra, rb, hkk, n0, n1, m0, m1⟩ := hok
    obtain ⟨A, hmask⟩ := legAgreeOk_spec _ _ hA
    have R := legRuleOk_spec _ _ _ hR
    have hal : alignOps e.rule.oszEff e.rule.ops [.reg k0 r0.toNat, .reg k1 r1.toNat] =
        some [(f0, some (.reg k0 r0.toNat)), (f1, some (.reg k1 r1.toNat))] := by
      rw [hops]
      exact alignOps2 _ _ _ _ _ (by rw [formOpMatches_reg_nofix _ _ _ _ n0]; exact m0) (by rw [formOpMatches_reg_nofix _ _ _ _ n1]; exact m1)
    obtain ⟨hh0, hh1⟩ := hhi k0 k1 hkinds
    refine ⟨k0, k1, hkinds, ?_⟩
    intro hb
    rcases hkk with ⟨a8, b8⟩ | ⟨⟨pa, pb⟩, na8⟩
    · simp only [arithRRemit, a8, ↓reduceIte] at hb
      exact arith8_formOk ctx e.rule (finalOpMovRR e) r0 r1 k0 k1 f0 f1 hm64 (by simpa using R.hmodes) hmask (is8_spec _ a8) (is8_spec _ b8)
        h0 hh0 h1 hh1 R A ra rb hal bytes hb
    · simp only [arithRRemit, na8, Bool.false_eq_true, ↓reduceIte] at hb
      obtain ⟨bytes', hb', hf⟩ := legR_2reg_formOk ctx e.rule (finalOpMovRR e) r1 r0 k0 k1 f0 f1 hm64 (by simpa using R.hmodes) hmask h1 h0
        (plainKind_spec _ pa) (plainKind_spec _ pb) R A false (by simp [ra, rb])
        (fun ia ib => by rw [hops]; exact alignOps2 _ _ _ _ _ (by rw [formOpMatches_reg_nofix _ _ _ _ n0]; exact m0) (by rw [formOpMatches_reg_nofix _ _ _ _ n1]; exact m1))
      rw [hb'] at hb
      injection hb with hb
      subst hb
      simpa using hf
  · simp at hok

/-- **front_cls_correct, class X86Mov, `mov MEM, reg`** (16 / 32 / 64-bit registers) -/
theorem front_cls_correct_mov_mr_mem (e : Entry) (ch : List Entry) (hch : ch ∈ lmovChunks) (he : e ∈ ch)
    (c : Model.X86.Ctx) (ctx : Spec.X86.Ctx) (r0 xb : BitVec 32) (size : Nat) (m : Mem) (mo : MemOp) (pfx : List (BitVec 8))
    (mb : BitVec 32 → BitVec 8) (sib : Option (BitVec 8)) (ds : List (BitVec 8))
    (AF : AddrFormL c ctx m mo pfx xb mb sib ds) (hsize : mo.size = size) (hm64 : ctx.mode64 = true) (h0 : r0 < 16#32)
    (hsz : ∀ f0, e.rule.ops[0]? = some f0 → hasMemAlt f0 size = true)
    (h8 : ∀ k0 k1, e.kinds = [k0, k1] → is8 k0 = false) :
    ∃ bytes k0 k1, e.kinds = [k0, k1] ∧ emitX86M c (finalOpMovMR e) 0#32 r0 m 0 0 = .ok bytes ∧
      formOk ctx e.rule [.mem mo, .reg k1 r0.toNat] {} bytes = true := by
  have hok := mem_chunks_ok mov_mr_mem_entries_ok e ch hch he
  unfold entryOkMovMrMem at hok
  split at hok
  · rename_i f0 f1 k0 k1 hops hkinds
    have hm0 : hasMemAlt f0 size = true := hsz f0 (by rw [hops]; rfl)
    simp only [h8 k0 k1 hkinds, hasMemAlt_any f0 size hm0, Bool.not_true, Bool.false_or, Bool.or_self, Bool.and_eq_true, Bool.or_eq_true, beq_iff_eq] at hok
    obtain ⟨-, hC, ra, rb, p1, n1, m1⟩ := hok
    obtain ⟨R, hmode, A, hmask⟩ := legCoreA_spec _ _ hC
    have hal : alignOps e.rule.oszEff e.rule.ops [.mem mo, .reg k1 r0.toNat] = some [(f0, some (.mem mo)), (f1, some (.reg k1 r0.toNat))] := by
      rw [hops]
      exact alignOps2 _ _ _ _ _ (hasMemAlt_matches _ _ _ _ hm0 hsize AF.hvsib) (by rw [formOpMatches_reg_nofix _ _ _ _ n1]; exact m1)
    obtain ⟨bytes, hb, hf⟩ := legM_mr_formOk c ctx e.rule (finalOpMovMR e) r0 xb m mo pfx mb sib ds AF k1 f0 f1 hm64 hmode hmask h0
      (plainKind_spec _ p1) R A ra rb hal
    exact ⟨bytes, k0, k1, hkinds, hb, hf⟩
  · simp at hok

/-- **front_cls_correct, class X86Mov, `mov reg, MEM`** (16 / 32 / 64-bit registers) -/
theorem front_cls_correct_mov_rm_mem (e : Entry) (ch : List Entry) (hch : ch ∈ lmovrmChunks) (he : e ∈ ch)
    (c : Model.X86.Ctx) (ctx : Spec.X86.Ctx) (r0 xb : BitVec 32) (size : Nat) (m : Mem) (mo : MemOp) (pfx : List (BitVec 8))
    (mb : BitVec 32 → BitVec 8) (sib : Option (BitVec 8)) (ds : List (BitVec 8))
    (AF : AddrFormL c ctx m mo pfx xb mb sib ds) (hsize : mo.size = size) (hm64 : ctx.mode64 = true) (h0 : r0 < 16#32)
    (hsz : ∀ f1, e.rule.ops[1]? = some f1 → hasMemAlt f1 size = true)
    (h8 : ∀ k0 k1, e.kinds = [k0, k1] → is8 k0 = false) :
    ∃ bytes k0 k1, e.kinds = [k0, k1] ∧ emitX86M c (finalOpMovRM e) 0#32 r0 m 0 0 = .ok bytes ∧
      formOk ctx e.rule [.reg k0 r0.toNat, .mem mo] {} bytes = true := by
  have hok := mem_chunks_ok mov_rm_mem_entries_ok e ch hch he
  unfold entryOkMovRmMem at hok
  split at hok
  · rename_i f0 f1 k0 k1 hops hkinds
    have hm1 : hasMemAlt f1 size = true := hsz f1 (by rw [hops]; rfl)
    simp only [h8 k0 k1 hkinds, hasMemAlt_any f1 size hm1, Bool.not_true, Bool.false_or, Bool.or_self, Bool.and_eq_true, Bool.or_eq_true, beq_iff_eq] at hok
    obtain ⟨-, hC, ra, rb, p0, n0, m0⟩ := hok
    obtain ⟨R, hmode, A, hmask⟩ := legCoreA_spec _ _ hC
    have hal : alignOps e.rule.oszEff e.rule.ops [.reg k0 r0.toNat, .mem mo] = some [(f0, some (.reg k0 r0.toNat)), (f1, some (.mem mo))] := by
      rw [hops]
      exact alignOps2 _ _ _ _ _ (by rw [formOpMatches_reg_nofix _ _ _ _ n0]; exact m0) (hasMemAlt_matches _ _ _ _ hm1 hsize AF.hvsib)
    obtain ⟨bytes, hb, hf⟩ := legM_rm_formOk c ctx e.rule (finalOpMovRM e) r0 xb m mo pfx mb sib ds AF k0 f0 f1 hm64 hmode hmask h0
      (plainKind_spec _ p0) R A ra rb hal
    exact ⟨bytes, k0, k1, hkinds, hb, hf⟩
  · simp at hok

/-- the class switch reaches exactly these emissions -/
theorem dispatch_mov_rr (c : Model.X86.Ctx) (row : Row) (k0 k1 : RegKind) (i0 i1 : Nat) (henc : row.encoding = 0x2c)
    (hk : (is8 k0 = true ∧ is8 k1 = true) ∨ (k0 = k1 ∧ (k0 = .gpw ∨ k0 = .gpd ∨ k0 = .gpq))) :
    dispatch c row 0#32 (.reg (rtypeOf k0) i0) (.reg (rtypeOf k1) i1) .none .none =
      arithRRemit (if is8 k0 then 0x88#32 else addPrefixBySize 0x89#32 (kindSize k0)) k0 k1 (r32 i0) (r32 i1) := by
  rcases hk with ⟨a, b⟩ | ⟨rfl, h | h | h⟩
  · rcases is8_spec _ a with h0 | h0 <;> rcases is8_spec _ b with h1 | h1 <;> subst h0 <;> subst h1 <;>
      simp [dispatch, henc, sig3, Op.kind, Op.id, Op.rmSize, Op.isGp, rtypeOf, arithRRemit, is8, kindSize, fixupGpb, fixK, Op.isGp8Hi, oModRM]
  all_goals
    subst h; simp [dispatch, henc, sig3, Op.kind, Op.id, Op.rmSize, Op.isGp, rtypeOf, arithRRemit, is8, kindSize, oModRM]

theorem dispatch_mov_mem (c : Model.X86.Ctx) (row : Row) (k : RegKind) (i : Nat) (m : Mem) (henc : row.encoding = 0x2c)
    (hk : k = .gpw ∨ k = .gpd ∨ k = .gpq) (hm : ¬ (i = 0 ∧ m.baseType = 0 ∧ m.indexType = 0)) :
    dispatch c row 0#32 (.mem m) (.reg (rtypeOf k) i) .none .none = emitX86M c (addArithBySize 0#32 (kindSize k) + 0x88#32) 0#32 (r32 i) m 0 0 ∧
    dispatch c row 0#32 (.reg (rtypeOf k) i) (.mem m) .none .none = emitX86M c (addArithBySize 0#32 (kindSize k) + 0x8A#32) 0#32 (r32 i) m 0 0 := by
  have hm' : (i == 0 && m.baseType == 0 && m.indexType == 0) = false := by
    simp only [Bool.and_eq_false_iff, beq_eq_false_iff_ne]
    by_cases h1 : i = 0 <;> by_cases h2 : m.baseType = 0 <;> by_cases h3 : m.indexType = 0 <;> simp_all
  rcases hk with h | h | h <;> subst h <;> constructor <;>
    simp [dispatch, henc, sig3, Op.kind, Op.id, Op.rmSize, Op.isGp, rtypeOf, kindSize, hm']

/-! ### class X86Lea -/

def finalOpLea (e : Entry) : BitVec 32 := addPrefixBySize e.mainOp (kindSize (e.kinds.getD 0 .none))

/-- the form operand accepts a memory operand of any size -/
def memAnyAlt (f : FormOp) : Bool := f.alts.any fun a => match a with | .mem Option.none .none => true | _ => false

theorem memAnyAlt_matches (osz : Nat) (f : FormOp) (m : MemOp) (h : memAnyAlt f = true) (hvs : vsibOf m = .none) :
    formOpMatches osz f (.mem m) = true := by
  unfold memAnyAlt at h
  unfold formOpMatches
  rw [List.any_eq_true] at h ⊢
  obtain ⟨a, ha, hm⟩ := h
  refine ⟨a, ha, ?_⟩
  cases a with
  | mem s vs =>
    cases s with
    | some s' => simp at hm
    | none =>
      cases vs <;> simp at hm
      simp [altMatches, hvs]
  | _ => simp at hm

def entryOkLea (e : Entry) : Bool :=
  match e.rule.ops, e.kinds with
  | [f0, f1], [k0] =>
    e.enc == 0x2B && (legCoreA e (finalOpLea e) &&
    (f0.role == .reg && (f1.role == .rm && (memAnyAlt f1 && (plainKind k0 && (noFix f0 && formOpMatches e.rule.oszEff f0 (.reg k0 0)))))))
  | _, _ => false

theorem lea_entries_ok : lleaChunks.all (fun c => c.all entryOkLea) = true := by decide +kernel

/-- **front_cls_correct, class X86Lea, `lea reg, MEM`** (16 / 32 / 64-bit destination, any `AddrFormL` address form) -/
theorem front_cls_correct_lea (e : Entry) (ch : List Entry) (hch : ch ∈ lleaChunks) (he : e ∈ ch)
    (c : Model.X86.Ctx) (ctx : Spec.X86.Ctx) (r0 xb : BitVec 32) (m : Mem) (mo : MemOp) (pfx : List (BitVec 8))
    (mb : BitVec 32 → BitVec 8) (sib : Option (BitVec 8)) (ds : List (BitVec 8))
    (AF : AddrFormL c ctx m mo pfx xb mb sib ds) (hm64 : ctx.mode64 = true) (h0 : r0 < 16#32) :
    ∃ bytes k0, e.kinds = [k0] ∧ emitX86M c (finalOpLea e) 0#32 r0 m 0 0 = .ok bytes ∧
      formOk ctx e.rule [.reg k0 r0.toNat, .mem mo] {} bytes = true := by
  have hok := mem_chunks_ok lea_entries_ok e ch hch he
  unfold entryOkLea at hok
  split at hok
  · rename_i f0 f1 k0 hops hkinds
    simp only [Bool.and_eq_true, beq_iff_eq] at hok
    obtain ⟨-, hC, ra, rb, hma, p0, n0, m0⟩ := hok
    obtain ⟨R, hmode, A, hmask⟩ := legCoreA_spec _ _ hC
    have hal : alignOps e.rule.oszEff e.rule.ops [.reg k0 r0.toNat, .mem mo] = some [(f0, some (.reg k0 r0.toNat)), (f1, some (.mem mo))] := by
      rw [hops]
      exact alignOps2 _ _ _ _ _ (by rw [formOpMatches_reg_nofix _ _ _ _ n0]; exact m0) (memAnyAlt_matches _ _ _ hma AF.hvsib)
    obtain ⟨bytes, hb, hf⟩ := legM_rm_formOk c ctx e.rule (finalOpLea e) r0 xb m mo pfx mb sib ds AF k0 f0 f1 hm64 hmode hmask h0
      (plainKind_spec _ p0) R A ra rb hal
    exact ⟨bytes, k0, hkinds, hb, hf⟩
  · simp at hok

theorem dispatch_lea (c : Model.X86.Ctx) (row : Row) (k : RegKind) (i : Nat) (m : Mem) (henc : row.encoding = 0x2b)
    (hk : k = .gpw ∨ k = .gpd ∨ k = .gpq) :
    dispatch c row 0#32 (.reg (rtypeOf k) i) (.mem m) .none .none = emitX86M c (addPrefixBySize row.mainOp (kindSize k)) 0#32 (r32 i) m 0 0 := by
  rcases hk with h | h | h <;> subst h <;> simp [dispatch, henc, sig3, Op.kind, Op.id, Op.rmSize, rtypeOf, kindSize]

/-! ### class X86Mov: `mov r16|r32|r64, imm` (B8+r iw|id|iq; a 64-bit register takes this form when the value is not a sign-extended imm32) -/

def movRiOpc (e : Entry) : BitVec 32 := addPrefixBySize 0xB8#32 (kindSize (e.kinds.getD 0 .none))

def entryOkMovRi (e : Entry) : Bool :=
  let r := e.rule
  let op := movRiOpc e
  let pp := ((op >>> 21) &&& 3#32).toNat
  match e.rule.ops, e.kinds with
  | [f0, f3], [k0] =>
    let s := kindSize k0
    e.enc == 0x2c && ((s == 2 || s == 4 || s == 8) && (r.modes &&& 2 != 0 && (r.space == 0 && (r.pp &&& 8 == 0 && (((r.pp &&& 1 != 0 || r.osz == 16) == (pp == 1)) &&
    (((r.pp &&& 2 != 0) == (pp == 2)) && (((r.pp &&& 4 != 0) == (pp == 3)) && (r.ri && (!r.a67 && (r.modKind == 0 && (r.immBytes == s && (r.relBytes == 0 &&
    (!r.moff && (op &&& 0xF7801C07#32 == 0#32 && (r.opcode == (op &&& 0xFF#32).toNat && (r.map == ((op >>> 8) &&& 3#32).toNat &&
    ((wWant r == 2 || wWant r == ((op >>> 27) &&& 1#32).toNat) &&
    (((op >>> 8) &&& 3#32 != 0#32 || [0#32, 1#32, 2#32, 3#32, 4#32, 5#32, 6#32, 7#32].all (fun r7 =>
        !isLegacyPrefix ((op + r7).truncate 8) false && ((op + r7).truncate 8 : BitVec 8) >>> 4 != 4#8)) &&
    (plainKind k0 && (f0.role == .opc && (noFix f0 && (formOpMatches r.oszEff f0 (.reg k0 0) &&
    (f3.role == .imm && (!r.immRev && (immBitsOf f3 == 8 * s && !immSignCase r f3)))))))))))))))))))))))))
  | _, _ => false

theorem movri_entries_ok : lmovriChunks.all (fun c => c.all entryOkMovRi) = true := by decide +kernel

/-- **front_cls_correct, class X86Mov, `mov reg, imm`** (B8+r with a 16 / 32 / 64-bit immediate): ALL registers 0..15, EVERY immediate value -/
theorem front_cls_correct_mov_ri (e : Entry) (ch : List Entry) (hch : ch ∈ lmovriChunks) (he : e ∈ ch)
    (ctx : Spec.X86.Ctx) (r : BitVec 32) (v : BitVec 64) (hm64 : ctx.mode64 = true) (hr : r < 16#32)
    (himm : ∀ f3, e.rule.ops[1]? = some f3 → formOpMatches e.rule.oszEff f3 (.imm v) = true) :
    ∃ bytes k0, e.kinds = [k0] ∧ emitX86OpReg (movRiOpc e) 0#32 r v (kindSize k0) = .ok bytes ∧
      formOk ctx e.rule [.reg k0 r.toNat, .imm v] {} bytes = true := by
  have hok := mem_chunks_ok movri_entries_ok e ch hch he
  unfold entryOkMovRi at hok
  dsimp only at hok
  split at hok
  · rename_i f0 f3 k0 hops hkinds
    have m3 : formOpMatches e.rule.oszEff f3 (.imm v) = true := himm f3 (by rw [hops]; rfl)
    simp only [Bool.and_eq_true, Bool.or_eq_true, beq_iff_eq, bne_iff_ne, ne_eq, Bool.not_eq_true', decide_eq_true_eq] at hok
    obtain ⟨-, hs3, hmodes, hs, hpp8, h66, hF3, hF2, hri, ha67, hmk, hib, hrel, hmoff, hmask, hop, hmap, hw, hsafe, pk, r0, n0, m0, r3, hrev, hnb, hsc⟩ := hok
    have hs' : kindSize k0 = 2 ∨ kindSize k0 = 4 ∨ kindSize k0 = 8 := by omega
    have hal : alignOps e.rule.oszEff e.rule.ops [.reg k0 r.toNat, .imm v] = some [(f0, some (.reg k0 r.toNat)), (f3, some (.imm v))] := by
      rw [hops]
      exact alignOps2 _ _ _ _ _ (by rw [formOpMatches_reg_nofix _ _ _ _ n0]; exact m0) m3
    have hn : immBytesOf (immBitsOf f3) = kindSize k0 := by
      rw [hnb]; rcases hs' with h | h | h <;> rw [h] <;> decide
    have hn4 : immBitsOf f3 ≠ 4 := by rw [hnb]; rcases hs' with h | h | h <;> rw [h] <;> decide
    obtain ⟨bytes, hb, hf⟩ := opRegImm_formOk ctx e.rule (movRiOpc e) r k0 f0 f3 v v (kindSize k0) hm64 (by simpa using hmodes) hmask hr hs hpp8
      (by simpa using h66) (by simpa using hF3) (by simpa using hF2) hri ha67 hmk hib hrel hmoff hop hmap hw
      (by
        intro h0 r7 hr7
        rcases hsafe with h | h
        · exact absurd h0 h
        · have := all8 _ h r7 hr7
          simp only [Bool.and_eq_true, Bool.not_eq_true', bne_iff_ne, ne_eq] at this
          exact this)
      (plainKind_spec _ pk) r0 (by
        intro p hp
        refine immConds_ok ctx e.rule p f3 v r3 hn4 hrev ?_
        rw [hn, hp, take_emitImmediate]
        have hsc' : (immSignOf f3 == 1 && e.rule.oszEff != 0 && decide (8 * kindSize k0 < e.rule.oszEff)) = immSignCase e.rule f3 := by
          simp [immSignCase, hn]
        rw [hsc', hsc]
        simp [emitImmediate_leBytes]) hal
    exact ⟨bytes, k0, hkinds, hb, hf⟩
  · simp at hok

/-- the class switch (no encoding options): B8+r for 16 / 32-bit registers always, for a 64-bit register when the value is not representable
as a sign-extended imm32 (otherwise the class prefers `REX.W C7 /0 id`) -/
theorem dispatch_mov_ri (c : Model.X86.Ctx) (row : Row) (k : RegKind) (i : Nat) (v : BitVec 64) (henc : row.encoding = 0x2c)
    (hk : k = .gpw ∨ k = .gpd ∨ k = .gpq) (hfit : k = .gpq → isInt32of64 v = false) :
    dispatch c row 0#32 (.reg (rtypeOf k) i) (.imm v) .none .none =
      emitX86OpReg (addPrefixBySize 0xB8#32 (kindSize k)) 0#32 (r32 i) v (kindSize k) := by
  rcases hk with h | h | h <;> subst h <;>
    simp [dispatch, henc, sig3, Op.kind, Op.id, Op.rmSize, Op.isGp, Op.immVal, rtypeOf, kindSize, oLongForm, hfit]

/-! ### class X86Mov: `mov r64, imm32` sign-extended (REX.W C7 /0 id) - the form the class prefers when the value is representable -/

def entryOkMovRmi (e : Entry) : Bool :=
  match e.rule.ops, e.kinds with
  | [f0, f3], [k0] =>
    e.enc == 0x2c && (k0 == .gpq && (plainKind k0 && (f0.role == .rm && (f3.role == .imm && (noFix f0 && (formOpMatches e.rule.oszEff f0 (.reg k0 0) &&
    (!e.rule.immRev && (immBitsOf f3 == 32 && (immSignCase e.rule f3 && (e.rule.oszEff == 64 &&
    (legRuleDOk e.rule 4 (((kW ||| 0xC7#32) >>> 21) &&& 3#32).toNat 0 && legAgreeOk e.rule (kW ||| 0xC7#32))))))))))))
  | _, _ => false

theorem movrmi_entries_ok : lmovrmiChunks.all (fun c => c.all entryOkMovRmi) = true := by decide +kernel

theorem front_cls_correct_mov_r64_imm32 (e : Entry) (ch : List Entry) (hch : ch ∈ lmovrmiChunks) (he : e ∈ ch)
    (ctx : Spec.X86.Ctx) (r0 : BitVec 32) (v : BitVec 64) (hm64 : ctx.mode64 = true) (h0 : r0 < 16#32)
    (himm : ∀ f3, e.rule.ops[1]? = some f3 → formOpMatches e.rule.oszEff f3 (.imm v) = true)
    (hfit : isInt32of64 v = true) :
    ∃ bytes, e.kinds = [.gpq] ∧ emitX86R (kW ||| 0xC7#32) 0#32 0#32 r0 v 4 = .ok bytes ∧
      formOk ctx e.rule [.reg .gpq r0.toNat, .imm v] {} bytes = true := by
  have hok := mem_chunks_ok movrmi_entries_ok e ch hch he
  unfold entryOkMovRmi at hok
  split at hok
  · rename_i f0 f3 k0 hops hkinds
    have m3 : formOpMatches e.rule.oszEff f3 (.imm v) = true := himm f3 (by rw [hops]; rfl)
    simp only [Bool.and_eq_true, Bool.or_eq_true, beq_iff_eq, bne_iff_ne, ne_eq, Bool.not_eq_true', decide_eq_true_eq] at hok
    obtain ⟨-, hq, pk, ra, r3, n0, m0, hrev, hnb, hsc, hosz, hR, hA⟩ := hok
    subst hq
    obtain ⟨A, hmask⟩ := legAgreeOk_spec _ _ hA
    have R := legRuleDOk_spec _ _ _ _ hR
    have hal : alignOps e.rule.oszEff e.rule.ops [.reg .gpq r0.toNat, .imm v] = some [(f0, some (.reg .gpq r0.toNat)), (f3, some (.imm v))] := by
      rw [hops]
      exact alignOps2 _ _ _ _ _ (by rw [formOpMatches_reg_nofix _ _ _ _ n0]; exact m0) m3
    have hn : immBytesOf (immBitsOf f3) = 4 := by rw [hnb]; decide
    have hn4 : immBitsOf f3 ≠ 4 := by rw [hnb]; decide
    obtain ⟨bytes, hb, hf⟩ := rmImm_formOk ctx e.rule (kW ||| 0xC7#32) 0#32 r0 .gpq f0 f3 v v 4 hm64
      (by simpa using R.hmodes) hmask (plainKind_spec _ pk) (by decide) h0 R A ra (by
        intro p hp
        refine immConds_ok ctx e.rule p f3 v r3 hn4 hrev ?_
        rw [hn, hp, take_emitImmediate]
        have hsc' : (immSignOf f3 == 1 && e.rule.oszEff != 0 && decide (8 * 4 < e.rule.oszEff)) = immSignCase e.rule f3 := by
          simp [immSignCase, hn]
        rw [hsc', hsc]
        simp only [↓reduceIte, decide_eq_true_eq, hosz]
        rw [emitImmediate_leBytes, leNat_leBytes4]
        have := sext32_mod v hfit
        simpa using this) hal
    exact ⟨bytes, hkinds, hb, hf⟩
  · simp at hok

theorem dispatch_mov_r64_imm32 (c : Model.X86.Ctx) (row : Row) (i : Nat) (v : BitVec 64) (henc : row.encoding = 0x2c) (hfit : isInt32of64 v = true) :
    dispatch c row 0#32 (.reg (rtypeOf .gpq) i) (.imm v) .none .none = emitX86R (kW ||| 0xC7#32) 0#32 0#32 (r32 i) v 4 := by
  simp [dispatch, henc, sig3, Op.kind, Op.id, Op.rmSize, Op.isGp, Op.immVal, rtypeOf, oLongForm, hfit]

/-! ### class X86Mov: `mov MEM, imm` (C6 /0 ib, C7 /0 iw|id, REX.W C7 /0 id sign-extended) -/

def movMiOpc (e : Entry) : BitVec 32 :=
  let s := kindSize (e.kinds.getD 0 .none)
  addPrefixBySize (if s != 1 then 0xC7#32 else 0xC6#32) s

def entryOkMovMi (e : Entry) : Bool :=
  match e.rule.ops, e.kinds with
  | [f0, f3], [k0] =>
    let s := kindSize k0
    !anyMemAlt f0 ||
    (e.enc == 0x2c && ((s == 1 || s == 2 || s == 4 || s == 8) && (legRuleMDOk e.rule (min s 4) ((movMiOpc e >>> 21) &&& 3#32).toNat 0 &&
    (legAgreeOk e.rule (movMiOpc e) && (movMiOpc e &&& 0xF780FC00#32 == 0#32 && (f0.role == .rm && (f3.role == .imm && (hasMemAlt f0 s &&
    (immBitsOf f3 == 8 * min s 4 && (!immSignCase e.rule f3 || (s == 8 && e.rule.oszEff == 64)))))))))))
  | _, _ => false

theorem movmi_entries_ok : lmovmiChunks.all (fun c => c.all entryOkMovMi) = true := by decide +kernel
theorem movmi_all_mem : lmovmiChunks.all (fun c => c.all (fun e => match e.rule.ops with | [f0, _] => anyMemAlt f0 | _ => true)) = true := by decide +kernel

/-- **front_cls_correct, class X86Mov, `mov MEM, imm`**: memory operands of 1 / 2 / 4 / 8 bytes, every address form with an `AddrFormL`
instance, every immediate (for a 64-bit destination: representable as a sign-extended imm32). -/
theorem front_cls_correct_mov_mi_mem (e : Entry) (ch : List Entry) (hch : ch ∈ lmovmiChunks) (he : e ∈ ch)
    (c : Model.X86.Ctx) (ctx : Spec.X86.Ctx) (xb : BitVec 32) (m : Mem) (mo : MemOp) (pfx : List (BitVec 8))
    (mb : BitVec 32 → BitVec 8) (sib : Option (BitVec 8)) (ds : List (BitVec 8))
    (AF : AddrFormL c ctx m mo pfx xb mb sib ds) (v : BitVec 64) (hm64 : ctx.mode64 = true)
    (hsize : mo.size = kindSize (e.kinds.getD 0 .none))
    (himm : ∀ f3, e.rule.ops[1]? = some f3 → formOpMatches e.rule.oszEff f3 (.imm v) = true)
    (hfit : kindSize (e.kinds.getD 0 .none) = 8 → isInt32of64 v = true) :
    ∃ bytes k0, e.kinds = [k0] ∧ emitX86M c (movMiOpc e) 0#32 0#32 m v (min (kindSize k0) 4) = .ok bytes ∧
      formOk ctx e.rule [.mem mo, .imm v] {} bytes = true := by
  have hok := mem_chunks_ok movmi_entries_ok e ch hch he
  unfold entryOkMovMi at hok
  split at hok
  · rename_i f0 f3 k0 hops hkinds
    have m3 : formOpMatches e.rule.oszEff f3 (.imm v) = true := himm f3 (by rw [hops]; rfl)
    simp only [hkinds, List.getD_cons_zero] at hsize hfit
    have hcases : anyMemAlt f0 = false ∨ anyMemAlt f0 = true := by cases anyMemAlt f0 <;> simp
    simp only [Bool.and_eq_true, Bool.or_eq_true, beq_iff_eq, bne_iff_ne, ne_eq, Bool.not_eq_true', decide_eq_true_eq] at hok
    rcases hok with hno | ⟨-, hs', hR, hA, hmask, ra, r3, hma, hnb, hscase⟩
    · -- the generated chunk has a memory alternative in every entry (decided below)
      exfalso
      have hall := mem_chunks_ok movmi_all_mem e ch hch he
      simp only [hops] at hall
      rw [hno] at hall
      exact absurd hall (by decide)
    · obtain ⟨R, hmode⟩ := legRuleMDOk_spec _ _ _ _ hR
      have A := (legAgreeOk_spec _ _ hA).1
      have hs : kindSize k0 = 1 ∨ kindSize k0 = 2 ∨ kindSize k0 = 4 ∨ kindSize k0 = 8 := by omega
      have hal : alignOps e.rule.oszEff e.rule.ops [.mem mo, .imm v] = some [(f0, some (.mem mo)), (f3, some (.imm v))] := by
        rw [hops]
        exact alignOps2 _ _ _ _ _ (hasMemAlt_matches _ _ _ _ hma hsize AF.hvsib) m3
      have hn : immBytesOf (immBitsOf f3) = min (kindSize k0) 4 := by
        rw [hnb]; rcases hs with h | h | h | h <;> rw [h] <;> decide
      have hn4 : immBitsOf f3 ≠ 4 := by rw [hnb]; rcases hs with h | h | h | h <;> rw [h] <;> decide
      obtain ⟨bytes, hb, hf⟩ := legM_mi_formOk c ctx e.rule (movMiOpc e) 0#32 xb m mo pfx mb sib ds AF f0 f3 0 v v (min (kindSize k0) 4) hm64 hmode hmask
        (by decide) R (by intro _; rfl) A ra (by
          intro p hp
          refine immConds_ok ctx e.rule p f3 v r3 hn4 R.hrev ?_
          rw [hn, hp, take_emitImmediate]
          have hsc : (immSignOf f3 == 1 && e.rule.oszEff != 0 && decide (8 * min (kindSize k0) 4 < e.rule.oszEff)) = immSignCase e.rule f3 := by
            simp [immSignCase, hn]
          rw [hsc]
          rcases hscase with hsf | ⟨hs8, hosz⟩
          · rw [hsf]; simp [emitImmediate_leBytes]
          · cases hsc2 : immSignCase e.rule f3
            · simp [emitImmediate_leBytes]
            · simp only [↓reduceIte, decide_eq_true_eq]
              simp only [hs8, hosz, show min 8 4 = 4 from rfl]
              rw [emitImmediate_leBytes, leNat_leBytes4]
              have := sext32_mod v (hfit hs8)
              simpa using this) hal
      exact ⟨bytes, k0, hkinds, hb, hf⟩
  · simp at hok

theorem dispatch_mov_mi (c : Model.X86.Ctx) (row : Row) (m : Mem) (v : BitVec 64) (henc : row.encoding = 0x2c) (hsz : m.size ≠ 0) :
    dispatch c row 0#32 (.mem m) (.imm v) .none .none =
      emitX86M c (addPrefixBySize (if m.size != 1 then 0xC7#32 else 0xC6#32) m.size) 0#32 0#32 m v (min m.size 4) := by
  have h : (m.size == 0) = false := by simpa using hsz
  simp [dispatch, henc, sig3, Op.kind, Op.rmSize, Op.immVal, h]

/-! ### class X86Arith: `op MEM, imm` (80 /d ib; 83 /d ib sign-extended; 81 /d iw|id, sign-extended imm32 for a 64-bit destination) -/

def arithMiOp83 (e : Entry) : BitVec 32 := addPrefixBySize 0x83#32 (kindSize (e.kinds.getD 0 .none))
def arithMiOpL (e : Entry) : BitVec 32 :=
  let s := kindSize (e.kinds.getD 0 .none)
  addPrefixBySize (if s != 1 then 0x81#32 else 0x80#32) s

def entryOkArithMi (e : Entry) : Bool :=
  match e.rule.ops, e.kinds with
  | [f0, f3], [k0] =>
    let s := kindSize k0
    let r := e.rule
    (k0 == .gpq && immSignOf f3 == 2) || !anyMemAlt f0 ||
    (e.enc == 0x19 && ((s == 1 || s == 2 || s == 4 || s == 8) && (f0.role == .rm && (f3.role == .imm && (hasMemAlt f0 s &&
    ((s != 1 && (immBitsOf f3 == 8 && (immSignCase r f3 && (r.oszEff == 8 * s && (legRuleMDOk r 1 ((arithMiOp83 e >>> 21) &&& 3#32).toNat (digitOf e).toNat &&
        (legAgreeOk r (arithMiOp83 e) && arithMiOp83 e &&& 0xF780FC00#32 == 0#32)))))) ||
     (immBitsOf f3 == 8 * min s 4 && ((s == 1 || immBitsOf f3 != 8) && ((!immSignCase r f3 || (s == 8 && r.oszEff == 64)) &&
        (legRuleMDOk r (min s 4) ((arithMiOpL e >>> 21) &&& 3#32).toNat (digitOf e).toNat && (legAgreeOk r (arithMiOpL e) &&
         arithMiOpL e &&& 0xF780FC00#32 == 0#32)))))))))))
  | _, _ => false

theorem arithmi_entries_ok : larithmiChunks.all (fun c => c.all entryOkArithMi) = true := by decide +kernel
theorem arithmi_all_mem : larithmiChunks.all (fun c => c.all (fun e => match e.rule.ops with | [f0, _] => anyMemAlt f0 | _ => true)) = true := by decide +kernel
theorem arithmi8_sign_ok : larithmiChunks.all (fun c => c.all (fun e => match e.rule.ops, e.kinds with
  | [_, f3], [k0] => kindSize k0 == 1 || immBitsOf f3 != 8 || immSignOf f3 == 1 | _, _ => true)) = true := by decide +kernel

/-- **front_cls_correct, class X86Arith, `op MEM16|32|64, imm8`** (83 /d ib, sign-extended): every address form with an `AddrFormL` instance,
every immediate the class encodes in this form (`isInt8` of the value, after sign-extension from 32 bits for a 32-bit destination). -/
theorem front_cls_correct_arith_mi8s (e : Entry) (ch : List Entry) (hch : ch ∈ larithmiChunks) (he : e ∈ ch)
    (c : Model.X86.Ctx) (ctx : Spec.X86.Ctx) (xb : BitVec 32) (m : Mem) (mo : MemOp) (pfx : List (BitVec 8))
    (mb : BitVec 32 → BitVec 8) (sib : Option (BitVec 8)) (ds : List (BitVec 8))
    (AF : AddrFormL c ctx m mo pfx xb mb sib ds) (v : BitVec 64) (hm64 : ctx.mode64 = true)
    (hsize : mo.size = kindSize (e.kinds.getD 0 .none)) (hs1 : kindSize (e.kinds.getD 0 .none) ≠ 1)
    (h8 : ∀ f3, e.rule.ops[1]? = some f3 → immBitsOf f3 = 8)
    (himm : ∀ f3, e.rule.ops[1]? = some f3 → formOpMatches e.rule.oszEff f3 (.imm v) = true)
    (hfit : isInt8of64 (arithImm1 e v) = true) :
    ∃ bytes, emitX86M c (arithMiOp83 e) 0#32 (digitOf e) m (arithImm1 e v) 1 = .ok bytes ∧ formOk ctx e.rule [.mem mo, .imm v] {} bytes = true := by
  have hok := mem_chunks_ok arithmi_entries_ok e ch hch he
  unfold entryOkArithMi at hok
  split at hok
  · rename_i f0 f3 k0 hops hkinds
    have hb8 : immBitsOf f3 = 8 := h8 f3 (by rw [hops]; rfl)
    have m3 : formOpMatches e.rule.oszEff f3 (.imm v) = true := himm f3 (by rw [hops]; rfl)
    simp only [hkinds, List.getD_cons_zero] at hsize hs1
    simp only [hb8, Bool.and_eq_true, Bool.or_eq_true, beq_iff_eq, bne_iff_ne, ne_eq, Bool.not_eq_true', decide_eq_true_eq] at hok
    rcases hok with (⟨hq, h32⟩ | hno) | ⟨-, hs', ra, r3, hma, hcase⟩
    · exfalso
      have hall := mem_chunks_ok arithmi8_sign_ok e ch hch he
      simp only [hops, hkinds, hb8] at hall
      have hs1' : (kindSize k0 == 1) = false := by simpa using hs1
      simp [hs1'] at hall
      omega
    · exfalso
      have hall := mem_chunks_ok arithmi_all_mem e ch hch he
      simp only [hops] at hall
      rw [hno] at hall
      exact absurd hall (by decide)
    · rcases hcase with ⟨-, -, hsc, hosz, hR, hA, hmask⟩ | ⟨hnb, h1, -⟩
      · obtain ⟨R, hmode⟩ := legRuleMDOk_spec _ _ _ _ hR
        have A := (legAgreeOk_spec _ _ hA).1
        have hs : (kindSize k0 = 2 ∨ kindSize k0 = 4) ∨ kindSize k0 = 8 := by omega
        have hal : alignOps e.rule.oszEff e.rule.ops [.mem mo, .imm v] = some [(f0, some (.mem mo)), (f3, some (.imm v))] := by
          rw [hops]
          exact alignOps2 _ _ _ _ _ (hasMemAlt_matches _ _ _ _ hma hsize AF.hvsib) m3
        have hd : digitOf e < 8#32 := by simp only [digitOf]; bv_decide
        exact legM_mi_formOk c ctx e.rule (arithMiOp83 e) (digitOf e) xb m mo pfx mb sib ds AF f0 f3 (digitOf e).toNat v (arithImm1 e v) 1 hm64 hmode hmask
          hd R (by intro _; rfl) A ra (by
            intro p hp
            refine immConds_ok ctx e.rule p f3 v r3 (by rw [hb8]; decide) R.hrev ?_
            have hsc' : (immSignOf f3 == 1 && e.rule.oszEff != 0 && decide (8 * immBytesOf (immBitsOf f3) < e.rule.oszEff)) = true := by
              simpa [immSignCase] using hsc
            rw [hsc', hb8]
            simp only [↓reduceIte, decide_eq_true_eq, immBytesOf, show (8:Nat) ≤ 8 from Nat.le_refl 8, hp, emitImmediate, List.take, leNat, Nat.mul_zero, Nat.add_zero, Nat.mul_one]
            obtain ⟨a64, a32, a16⟩ := sext8_mod (arithImm1 e v) hfit
            simp only [arithImm1, hkinds, List.getD_cons_zero] at a64 a32 a16 hfit ⊢
            rw [hosz]
            rcases hs with (hs | hs) | hs <;> rw [hs] at a64 a32 a16 ⊢
            · simpa using a16
            · simp only [beq_self_eq_true, ↓reduceIte] at a32 ⊢
              rw [sext32_low] at a32
              simpa using a32
            · simpa using a64) hal
      · rcases h1 with h1 | h1
        · exact absurd h1 hs1
        · first | exact absurd hb8 h1 | exact absurd trivial h1
  · simp at hok

/-- **front_cls_correct, class X86Arith, `op MEM8, imm8` (80 /d ib) and `op MEM16|32|64, imm16|imm32` (81 /d iw|id; sign-extended imm32 with
REX.W)**: every address form with an `AddrFormL` instance; the long form is the one the class uses when the value does not fit imm8. -/
theorem front_cls_correct_arith_mi (e : Entry) (ch : List Entry) (hch : ch ∈ larithmiChunks) (he : e ∈ ch)
    (c : Model.X86.Ctx) (ctx : Spec.X86.Ctx) (xb : BitVec 32) (m : Mem) (mo : MemOp) (pfx : List (BitVec 8))
    (mb : BitVec 32 → BitVec 8) (sib : Option (BitVec 8)) (ds : List (BitVec 8))
    (AF : AddrFormL c ctx m mo pfx xb mb sib ds) (v : BitVec 64) (hm64 : ctx.mode64 = true)
    (hsize : mo.size = kindSize (e.kinds.getD 0 .none))
    (hn8 : ∀ f3, e.rule.ops[1]? = some f3 → kindSize (e.kinds.getD 0 .none) ≠ 1 → immBitsOf f3 ≠ 8)
    (hnz : ∀ f3, e.rule.ops[1]? = some f3 → ¬ (e.kinds = [.gpq] ∧ immSignOf f3 = 2))
    (himm : ∀ f3, e.rule.ops[1]? = some f3 → formOpMatches e.rule.oszEff f3 (.imm v) = true)
    (hfit : kindSize (e.kinds.getD 0 .none) = 8 → isInt32of64 v = true) :
    ∃ bytes k0, e.kinds = [k0] ∧ emitX86M c (arithMiOpL e) 0#32 (digitOf e) m (arithImm1 e v) (min (kindSize k0) 4) = .ok bytes ∧
      formOk ctx e.rule [.mem mo, .imm v] {} bytes = true := by
  have hok := mem_chunks_ok arithmi_entries_ok e ch hch he
  unfold entryOkArithMi at hok
  split at hok
  · rename_i f0 f3 k0 hops hkinds
    have hz := hnz f3 (by rw [hops]; rfl)
    have hb8 := hn8 f3 (by rw [hops]; rfl)
    have m3 : formOpMatches e.rule.oszEff f3 (.imm v) = true := himm f3 (by rw [hops]; rfl)
    simp only [hkinds, List.getD_cons_zero] at hsize hfit hb8
    simp only [Bool.and_eq_true, Bool.or_eq_true, beq_iff_eq, bne_iff_ne, ne_eq, Bool.not_eq_true', decide_eq_true_eq] at hok
    rcases hok with (⟨hq, h32⟩ | hno) | ⟨-, hs, ra, r3, hma, hcase⟩
    · exact absurd ⟨by rw [hkinds, hq], h32⟩ hz
    · exfalso
      have hall := mem_chunks_ok arithmi_all_mem e ch hch he
      simp only [hops] at hall
      rw [hno] at hall
      exact absurd hall (by decide)
    · rcases hcase with ⟨hs1, h8', -⟩ | ⟨hnb, -, hscase, hR, hA, hmask⟩
      · exact absurd h8' (hb8 hs1)
      · obtain ⟨R, hmode⟩ := legRuleMDOk_spec _ _ _ _ hR
        have A := (legAgreeOk_spec _ _ hA).1
        have hs' : kindSize k0 = 1 ∨ kindSize k0 = 2 ∨ kindSize k0 = 4 ∨ kindSize k0 = 8 := by omega
        have hal : alignOps e.rule.oszEff e.rule.ops [.mem mo, .imm v] = some [(f0, some (.mem mo)), (f3, some (.imm v))] := by
          rw [hops]
          exact alignOps2 _ _ _ _ _ (hasMemAlt_matches _ _ _ _ hma hsize AF.hvsib) m3
        have hd : digitOf e < 8#32 := by simp only [digitOf]; bv_decide
        have hn : immBytesOf (immBitsOf f3) = min (kindSize k0) 4 := by
          rw [hnb]; rcases hs' with h | h | h | h <;> rw [h] <;> decide
        have hn4 : immBitsOf f3 ≠ 4 := by rw [hnb]; rcases hs' with h | h | h | h <;> rw [h] <;> decide
        have hbytes : emitImmediate (arithImm1 e v) (min (kindSize k0) 4) = leBytes v.toNat (min (kindSize k0) 4) := by
          simp only [arithImm1, hkinds, List.getD_cons_zero]
          rcases hs' with h | h | h | h <;> rw [h]
          · simp [emitImmediate_leBytes]
          · simp [emitImmediate_leBytes]
          · simp only [beq_self_eq_true, ↓reduceIte, show min 4 4 = 4 from rfl]
            rw [emitImmediate_sext32, emitImmediate_leBytes]
          · simp [emitImmediate_leBytes]
        obtain ⟨bytes, hb, hf⟩ := legM_mi_formOk c ctx e.rule (arithMiOpL e) (digitOf e) xb m mo pfx mb sib ds AF f0 f3 (digitOf e).toNat v (arithImm1 e v)
          (min (kindSize k0) 4) hm64 hmode hmask hd R (by intro _; rfl) A ra (by
            intro p hp
            refine immConds_ok ctx e.rule p f3 v r3 hn4 R.hrev ?_
            rw [hn, hp, take_emitImmediate, hbytes]
            have hsc : (immSignOf f3 == 1 && e.rule.oszEff != 0 && decide (8 * min (kindSize k0) 4 < e.rule.oszEff)) = immSignCase e.rule f3 := by
              simp [immSignCase, hn]
            rw [hsc]
            rcases hscase with hsf | ⟨hs8, hosz⟩
            · rw [hsf]; simp
            · cases hsc2 : immSignCase e.rule f3
              · simp
              · simp only [↓reduceIte, decide_eq_true_eq]
                simp only [hs8, hosz, show min 8 4 = 4 from rfl]
                rw [leNat_leBytes4]
                have := sext32_mod v (hfit hs8)
                simpa using this) hal
        exact ⟨bytes, k0, hkinds, hb, hf⟩
  · simp at hok

/-- the class switch for `op MEM, imm` (no encoding options) -/
theorem dispatch_arith_mi (c : Model.X86.Ctx) (row : Row) (m : Mem) (v : BitVec 64) (henc : row.encoding = 0x19)
    (hsz : m.size = 1 ∨ m.size = 2 ∨ m.size = 4 ∨ m.size = 8) :
    let imm1 := if m.size == 4 then signExtendInt32 v else v
    (m.size ≠ 1 → isInt8of64 imm1 = true → dispatch c row 0#32 (.mem m) (.imm v) .none .none =
        emitX86M c (addPrefixBySize 0x83#32 m.size) 0#32 ((row.mainOp >>> 18) &&& 7#32) m imm1 1) ∧
    ((m.size = 1 ∨ isInt8of64 imm1 = false) → dispatch c row 0#32 (.mem m) (.imm v) .none .none =
        emitX86M c (addPrefixBySize (if m.size != 1 then 0x81#32 else 0x80#32) m.size) 0#32 ((row.mainOp >>> 18) &&& 7#32) m imm1 (min m.size 4)) := by
  intro imm1
  refine ⟨fun h1 h8 => ?_, fun h => ?_⟩
  · rcases hsz with hs | hs | hs | hs
    · exact absurd hs h1
    all_goals
      simp only [imm1, hs] at h8 ⊢
      simp at h8
      simp [dispatch, henc, sig3, Op.kind, Op.rmSize, Op.immVal, hs, h8, oLongForm]
  · rcases hsz with hs | hs | hs | hs
    · by_cases h8 : isInt8of64 v = true
      · simp [dispatch, henc, sig3, Op.kind, Op.rmSize, Op.immVal, hs, h8, oLongForm, imm1]
      · have h8' : isInt8of64 v = false := by simpa using h8
        simp [dispatch, henc, sig3, Op.kind, Op.rmSize, Op.immVal, hs, h8', oLongForm, imm1]
    all_goals
      rcases h with h | h
      · omega
      · simp only [imm1, hs] at h ⊢
        simp at h
        simp [dispatch, henc, sig3, Op.kind, Op.rmSize, Op.immVal, hs, h, oLongForm]

/-! ### class X86Rot: `op MEM, imm8` (C0|C1 /d ib; imm8 ≠ 1) -/

def entryOkRotMi (e : Entry) : Bool :=
  match e.rule.ops, e.kinds with
  | [f0, f3], [k0] =>
    let s := kindSize k0
    !anyMemAlt f0 ||
    (e.enc == 0x37 && (legRuleMDOk e.rule 1 ((finalOpRot e >>> 21) &&& 3#32).toNat (digitOf e).toNat && (legAgreeOk e.rule (finalOpRot e) &&
    (finalOpRot e &&& 0xF780FC00#32 == 0#32 && (f0.role == .rm && (f3.role == .imm && (hasMemAlt f0 s && (immBitsOf f3 == 8 && !immSignCase e.rule f3))))))))
  | _, _ => false

theorem rotmi_entries_ok : lrotChunks.all (fun c => c.all entryOkRotMi) = true := by decide +kernel

/-- **front_cls_correct, class X86Rot, `op MEM, imm8`**: memory operands of 1 / 2 / 4 / 8 bytes, every address form with an `AddrFormL`
instance, every imm8 the form admits (the class masks the value to 8 bits; value 1 selects the shift-by-1 opcode instead). -/
theorem front_cls_correct_rot_mi (e : Entry) (ch : List Entry) (hch : ch ∈ lrotChunks) (he : e ∈ ch)
    (c : Model.X86.Ctx) (ctx : Spec.X86.Ctx) (xb : BitVec 32) (m : Mem) (mo : MemOp) (pfx : List (BitVec 8))
    (mb : BitVec 32 → BitVec 8) (sib : Option (BitVec 8)) (ds : List (BitVec 8))
    (AF : AddrFormL c ctx m mo pfx xb mb sib ds) (v : BitVec 64) (hm64 : ctx.mode64 = true)
    (hsize : mo.size = kindSize (e.kinds.getD 0 .none))
    (hmem : ∀ f0, e.rule.ops[0]? = some f0 → anyMemAlt f0 = true)
    (himm : ∀ f3, e.rule.ops[1]? = some f3 → formOpMatches e.rule.oszEff f3 (.imm v) = true) :
    ∃ bytes, emitX86M c (finalOpRot e) 0#32 (digitOf e) m (v &&& 0xFF#64) 1 = .ok bytes ∧ formOk ctx e.rule [.mem mo, .imm v] {} bytes = true := by
  have hok := mem_chunks_ok rotmi_entries_ok e ch hch he
  unfold entryOkRotMi at hok
  split at hok
  · rename_i f0 f3 k0 hops hkinds
    have m3 : formOpMatches e.rule.oszEff f3 (.imm v) = true := himm f3 (by rw [hops]; rfl)
    have hma0 := hmem f0 (by rw [hops]; rfl)
    simp only [hkinds, List.getD_cons_zero] at hsize
    simp only [hma0, Bool.not_true, Bool.false_or, Bool.and_eq_true, Bool.or_eq_true, beq_iff_eq, bne_iff_ne, ne_eq, Bool.not_eq_true', decide_eq_true_eq] at hok
    obtain ⟨-, hR, hA, hmask, ra, r3, hma, hb8, hsc⟩ := hok
    obtain ⟨R, hmode⟩ := legRuleMDOk_spec _ _ _ _ hR
    have A := (legAgreeOk_spec _ _ hA).1
    have hal : alignOps e.rule.oszEff e.rule.ops [.mem mo, .imm v] = some [(f0, some (.mem mo)), (f3, some (.imm v))] := by
      rw [hops]
      exact alignOps2 _ _ _ _ _ (hasMemAlt_matches _ _ _ _ hma hsize AF.hvsib) m3
    have hd : digitOf e < 8#32 := by simp only [digitOf]; bv_decide
    exact legM_mi_formOk c ctx e.rule (finalOpRot e) (digitOf e) xb m mo pfx mb sib ds AF f0 f3 (digitOf e).toNat v (v &&& 0xFF#64) 1 hm64 hmode hmask
      hd R (by intro _; rfl) A ra (by
        intro p hp
        refine immConds_ok ctx e.rule p f3 v r3 (by rw [hb8]; decide) R.hrev ?_
        have hn : immBytesOf (immBitsOf f3) = 1 := by rw [hb8]; decide
        rw [hn, hp, take_emitImmediate]
        have hsc' : (immSignOf f3 == 1 && e.rule.oszEff != 0 && decide (8 * 1 < e.rule.oszEff)) = immSignCase e.rule f3 := by
          simp [immSignCase, hn]
        rw [hsc', hsc, emitImmediate_and8, emitImmediate_leBytes]
        simp) hal
  · simp at hok

theorem dispatch_rot_mi (c : Model.X86.Ctx) (row : Row) (m : Mem) (v : BitVec 64) (henc : row.encoding = 0x37) (hsz : m.size ≠ 0)
    (hne : v &&& 0xFF#64 ≠ 1#64) :
    dispatch c row 0#32 (.mem m) (.imm v) .none .none =
      emitX86M c (addArithBySize row.mainOp m.size - 0x10#32) 0#32 ((row.mainOp >>> 18) &&& 7#32) m (v &&& 0xFF#64) 1 := by
  have h : (m.size == 0) = false := by simpa using hsz
  have hne' : (v &&& 0xFF#64 == 1#64) = false := by simpa using hne
  simp [dispatch, henc, sig3, Op.kind, Op.rmSize, Op.immVal, h, hne']

/-! ### class X86Test: `test MEM, imm` (F6 /0 ib, F7 /0 iw|id, REX.W F7 /0 id sign-extended): the alternative opcode of the row -/

def testMiOpc (e : Entry) : BitVec 32 :=
  let s := kindSize (e.kinds.getD 0 .none)
  addArithBySize e.altOp s

def entryOkTestMi (e : Entry) : Bool :=
  match e.rule.ops, e.kinds with
  | [f0, f3], [k0] =>
    let s := kindSize k0
    !anyMemAlt f0 ||
    (e.enc == 0x3d && ((s == 1 || s == 2 || s == 4 || s == 8) && (legRuleMDOk e.rule (min s 4) ((testMiOpc e >>> 21) &&& 3#32).toNat ((e.altOp >>> 18) &&& 7#32).toNat &&
    (legAgreeOk e.rule (testMiOpc e) && (testMiOpc e &&& 0xF780FC00#32 == 0#32 && (f0.role == .rm && (f3.role == .imm && (hasMemAlt f0 s &&
    (immBitsOf f3 == 8 * min s 4 && (!immSignCase e.rule f3 || (s == 8 && e.rule.oszEff == 64)))))))))))
  | _, _ => false

theorem testmi_entries_ok : ltestmiChunks.all (fun c => c.all entryOkTestMi) = true := by decide +kernel
theorem testmi_all_mem : ltestmiChunks.all (fun c => c.all (fun e => match e.rule.ops with | [f0, _] => anyMemAlt f0 | _ => true)) = true := by decide +kernel

/-- **front_cls_correct, class X86Test, `test MEM, imm`**: memory operands of 1 / 2 / 4 / 8 bytes, every address form with an `AddrFormL`
instance, every immediate (for a 64-bit destination: representable as a sign-extended imm32). -/
theorem front_cls_correct_test_mi_mem (e : Entry) (ch : List Entry) (hch : ch ∈ ltestmiChunks) (he : e ∈ ch)
    (c : Model.X86.Ctx) (ctx : Spec.X86.Ctx) (xb : BitVec 32) (m : Mem) (mo : MemOp) (pfx : List (BitVec 8))
    (mb : BitVec 32 → BitVec 8) (sib : Option (BitVec 8)) (ds : List (BitVec 8))
    (AF : AddrFormL c ctx m mo pfx xb mb sib ds) (v : BitVec 64) (hm64 : ctx.mode64 = true)
    (hsize : mo.size = kindSize (e.kinds.getD 0 .none))
    (himm : ∀ f3, e.rule.ops[1]? = some f3 → formOpMatches e.rule.oszEff f3 (.imm v) = true)
    (hfit : kindSize (e.kinds.getD 0 .none) = 8 → isInt32of64 v = true) :
    ∃ bytes k0, e.kinds = [k0] ∧ emitX86M c (testMiOpc e) 0#32 ((e.altOp >>> 18) &&& 7#32) m v (min (kindSize k0) 4) = .ok bytes ∧
      formOk ctx e.rule [.mem mo, .imm v] {} bytes = true := by
  have hok := mem_chunks_ok testmi_entries_ok e ch hch he
  unfold entryOkTestMi at hok
  split at hok
  · rename_i f0 f3 k0 hops hkinds
    have m3 : formOpMatches e.rule.oszEff f3 (.imm v) = true := himm f3 (by rw [hops]; rfl)
    simp only [hkinds, List.getD_cons_zero] at hsize hfit
    have hcases : anyMemAlt f0 = false ∨ anyMemAlt f0 = true := by cases anyMemAlt f0 <;> simp
    simp only [Bool.and_eq_true, Bool.or_eq_true, beq_iff_eq, bne_iff_ne, ne_eq, Bool.not_eq_true', decide_eq_true_eq] at hok
    rcases hok with hno | ⟨-, hs', hR, hA, hmask, ra, r3, hma, hnb, hscase⟩
    · -- the generated chunk has a memory alternative in every entry (decided below)
      exfalso
      have hall := mem_chunks_ok testmi_all_mem e ch hch he
      simp only [hops] at hall
      rw [hno] at hall
      exact absurd hall (by decide)
    · obtain ⟨R, hmode⟩ := legRuleMDOk_spec _ _ _ _ hR
      have A := (legAgreeOk_spec _ _ hA).1
      have hs : kindSize k0 = 1 ∨ kindSize k0 = 2 ∨ kindSize k0 = 4 ∨ kindSize k0 = 8 := by omega
      have hal : alignOps e.rule.oszEff e.rule.ops [.mem mo, .imm v] = some [(f0, some (.mem mo)), (f3, some (.imm v))] := by
        rw [hops]
        exact alignOps2 _ _ _ _ _ (hasMemAlt_matches _ _ _ _ hma hsize AF.hvsib) m3
      have hn : immBytesOf (immBitsOf f3) = min (kindSize k0) 4 := by
        rw [hnb]; rcases hs with h | h | h | h <;> rw [h] <;> decide
      have hn4 : immBitsOf f3 ≠ 4 := by rw [hnb]; rcases hs with h | h | h | h <;> rw [h] <;> decide
      obtain ⟨bytes, hb, hf⟩ := legM_mi_formOk c ctx e.rule (testMiOpc e) ((e.altOp >>> 18) &&& 7#32) xb m mo pfx mb sib ds AF f0 f3 ((e.altOp >>> 18) &&& 7#32).toNat v v (min (kindSize k0) 4) hm64 hmode hmask
        (by bv_decide) R (by intro _; rfl) A ra (by
          intro p hp
          refine immConds_ok ctx e.rule p f3 v r3 hn4 R.hrev ?_
          rw [hn, hp, take_emitImmediate]
          have hsc : (immSignOf f3 == 1 && e.rule.oszEff != 0 && decide (8 * min (kindSize k0) 4 < e.rule.oszEff)) = immSignCase e.rule f3 := by
            simp [immSignCase, hn]
          rw [hsc]
          rcases hscase with hsf | ⟨hs8, hosz⟩
          · rw [hsf]; simp [emitImmediate_leBytes]
          · cases hsc2 : immSignCase e.rule f3
            · simp [emitImmediate_leBytes]
            · simp only [↓reduceIte, decide_eq_true_eq]
              simp only [hs8, hosz, show min 8 4 = 4 from rfl]
              rw [emitImmediate_leBytes, leNat_leBytes4]
              have := sext32_mod v (hfit hs8)
              simpa using this) hal
      exact ⟨bytes, k0, hkinds, hb, hf⟩
  · simp at hok

theorem dispatch_test_mi (c : Model.X86.Ctx) (row : Row) (m : Mem) (v : BitVec 64) (henc : row.encoding = 0x3d) (hsz : m.size ≠ 0) :
    dispatch c row 0#32 (.mem m) (.imm v) .none .none =
      emitX86M c (addArithBySize row.altOp m.size) 0#32 ((row.altOp >>> 18) &&& 7#32) m v (min m.size 4) := by
  have h : (m.size == 0) = false := by simpa using hsz
  simp [dispatch, henc, sig3, Op.kind, Op.rmSize, Op.immVal, h]

/-! ### class X86Rot: `op MEM, cl` (D2|D3 /d) and `op MEM, 1` (D0|D1 /d) -/

def entryOkRotXMem (e : Entry) : Bool :=
  match e.rule.ops, e.kinds with
  | [f0, f1], [k0] =>
    !anyMemAlt f0 ||
    (e.enc == 0x37 && (legRuleMDOk e.rule 0 ((rotXOpc e >>> 21) &&& 3#32).toNat (digitOf e).toNat && (legAgreeOk e.rule (rotXOpc e) &&
    (rotXOpc e &&& 0xF780FC00#32 == 0#32 && (f0.role == .rm && (f1.role == .none && hasMemAlt f0 (kindSize k0)))))))
  | _, _ => false

theorem rotx_mem_entries_ok : lrotxChunks.all (fun c => c.all entryOkRotXMem) = true := by decide +kernel

/-- **front_cls_correct, class X86Rot, `op MEM, cl` and `op MEM, 1`**: memory operands of 1 / 2 / 4 / 8 bytes, every address form with an
`AddrFormL` instance; the second operand is whatever the form's fixed operand admits and is not encoded. -/
theorem front_cls_correct_rot_x_mem (e : Entry) (ch : List Entry) (hch : ch ∈ lrotxChunks) (he : e ∈ ch)
    (c : Model.X86.Ctx) (ctx : Spec.X86.Ctx) (xb : BitVec 32) (m : Mem) (mo : MemOp) (pfx : List (BitVec 8))
    (mb : BitVec 32 → BitVec 8) (sib : Option (BitVec 8)) (ds : List (BitVec 8))
    (AF : AddrFormL c ctx m mo pfx xb mb sib ds) (o1 : Operand) (imm : BitVec 64) (hm64 : ctx.mode64 = true)
    (hsize : mo.size = kindSize (e.kinds.getD 0 .none))
    (hmem : ∀ f0, e.rule.ops[0]? = some f0 → anyMemAlt f0 = true)
    (ho1 : (∃ v, o1 = .imm v) ∨ (∃ k i, o1 = .reg k i))
    (hm1 : ∀ f1, e.rule.ops[1]? = some f1 → formOpMatches e.rule.oszEff f1 o1 = true) :
    ∃ bytes, emitX86M c (rotXOpc e) 0#32 (digitOf e) m imm 0 = .ok bytes ∧ formOk ctx e.rule [.mem mo, o1] {} bytes = true := by
  have hok := mem_chunks_ok rotx_mem_entries_ok e ch hch he
  unfold entryOkRotXMem at hok
  split at hok
  · rename_i f0 f1 k0 hops hkinds
    have m1 : formOpMatches e.rule.oszEff f1 o1 = true := hm1 f1 (by rw [hops]; rfl)
    have hma0 := hmem f0 (by rw [hops]; rfl)
    simp only [hkinds, List.getD_cons_zero] at hsize
    simp only [hma0, Bool.not_true, Bool.false_or, Bool.and_eq_true, beq_iff_eq] at hok
    obtain ⟨-, hR, hA, hmask, ra, r1, hma⟩ := hok
    obtain ⟨R, hmode⟩ := legRuleMDOk_spec _ _ _ _ hR
    have A := (legAgreeOk_spec _ _ hA).1
    have hal : alignOps e.rule.oszEff e.rule.ops [.mem mo, o1] = some [(f0, some (.mem mo)), (f1, some o1)] := by
      rw [hops]
      exact alignOps2 _ _ _ _ _ (hasMemAlt_matches _ _ _ _ hma hsize AF.hvsib) m1
    have hd : digitOf e < 8#32 := by simp only [digitOf]; bv_decide
    rcases ho1 with ⟨v, rfl⟩ | ⟨k, i, rfl⟩
    · exact legM_mi_formOk c ctx e.rule (rotXOpc e) (digitOf e) xb m mo pfx mb sib ds AF f0 f1 (digitOf e).toNat v imm 0 hm64 hmode hmask
        hd R (by intro _; rfl) A ra (by intro p _; simp [opConds, r1, allOk]) hal
    · exact legM_mreg_formOk c ctx e.rule (rotXOpc e) (digitOf e) xb m mo pfx mb sib ds AF f0 f1 (digitOf e).toNat k i imm 0 hm64 hmode hmask
        hd R (by intro _; rfl) A ra (by intro p _; simp [opConds, r1, allOk]) hal
  · simp at hok

theorem dispatch_rot_x_mem (c : Model.X86.Ctx) (row : Row) (m : Mem) (v : BitVec 64) (henc : row.encoding = 0x37) (hsz : m.size ≠ 0) :
    dispatch c row 0#32 (.mem m) (.reg (rtypeOf .gpb) 1) .none .none =
      emitX86M c (addArithBySize row.mainOp m.size + 2#32) 0#32 ((row.mainOp >>> 18) &&& 7#32) m 0 0 ∧
    (v &&& 0xFF#64 = 1#64 → dispatch c row 0#32 (.mem m) (.imm v) .none .none =
      emitX86M c (addArithBySize row.mainOp m.size) 0#32 ((row.mainOp >>> 18) &&& 7#32) m (v &&& 0xFF#64) 0) := by
  have h : (m.size == 0) = false := by simpa using hsz
  refine ⟨?_, fun h1 => ?_⟩
  · simp [dispatch, henc, sig3, Op.kind, Op.id, Op.rmSize, rtypeOf, h]
  · simp [dispatch, henc, sig3, Op.kind, Op.rmSize, Op.immVal, h, h1, oLongForm]

end AsmjitVerif.Props.C01
