/-
C03 and `BaseAssembler::set_offset`: what the property can still promise when emission is not append-only.

`set_offset(k)` rewinds the cursor; what is emitted afterwards *overwrites* `[k, k+n)` (and appends past the old end). CodeHolder
keeps no record of what was overwritten: a fixup whose field was overwritten is still patched at its recorded offset - the
displacement is OR-ed into whatever bytes are there (witness runs in notes/C03.md) - so nothing can be promised for it.
This file states and proves the part that survives: **an overwrite that stays clear of every logged fixup field keeps the
invariant** `Inv` (hence every end-to-end theorem of Props/C03E/C03B/C03R, which only need `Inv` at the state they start
from): the references whose fields are not overwritten still resolve to where their labels are bound.
The op language of the check does not contain `set_offset` (the monitor's cursor bookkeeping and the relocation-region
invariants of C04 assume append-only emission); the harness has a witness-only `setoffset` op.
-/
import AsmjitVerif.Props.C03R
namespace AsmjitVerif.CodeHolder
open AsmjitVerif.Offset

/-- `set_offset(pos); embed(bs); set_offset(end)` for a write that stays inside the current buffer -/
def overwrite (s : State) (pos : Nat) (bs : Bytes) : State :=
  { s with secs := modifySec s.secs s.cur (fun sec => { sec with buf := blit sec.buf pos bs }) }

/-- the rewound write touches no logged fixup field -/
def Clear (s : State) (pos n : Nat) : Prop :=
  ∀ g ∈ s.ghost, g.sec ≠ s.cur ∨ g.offset + g.fmt.valueSize ≤ pos ∨ pos + n ≤ g.offset

theorem blit_length (buf bs : Bytes) (pos : Nat) (h : pos + bs.length ≤ buf.length) : (blit buf pos bs).length = buf.length := by
  unfold blit
  simp only [List.length_append, List.length_take, List.length_drop]
  omega

theorem blit_get_outside (buf bs : Bytes) (pos i : Nat) (h : pos + bs.length ≤ buf.length) (ho : i < pos ∨ pos + bs.length ≤ i) :
    (blit buf pos bs)[i]? = buf[i]? := by
  unfold blit
  rcases ho with ho | ho
  · rw [List.append_assoc, List.getElem?_append_left (by simp; omega), List.getElem?_take_of_lt ho]
  · rw [List.getElem?_append_right (by simp; omega)]
    simp only [List.length_append, List.length_take, List.getElem?_drop]
    congr 1
    omega

theorem field_overwrite (s : State) (pos : Nat) (bs : Bytes) (g : GRef) (hin : pos + bs.length ≤ s.curOff)
    (hc : g.sec ≠ s.cur ∨ g.offset + g.fmt.valueSize ≤ pos ∨ pos + bs.length ≤ g.offset) :
    field (overwrite s pos bs).secs g = field s.secs g := by
  unfold field overwrite
  by_cases hs : g.sec = s.cur
  · cases hsec : s.secs[s.cur]? with
    | none => unfold modifySec; rw [hsec]
    | some sec =>
      have hlen : pos + bs.length ≤ sec.buf.length := by
        have : s.curOff = sec.buf.length := by unfold State.curOff; rw [hsec]
        omega
      rw [hs, modifySec_get_same _ _ _ _ hsec, hsec]
      simp only [Option.bind_some]
      apply loadLE_congr
      intro i h1 h2
      apply blit_get_outside _ _ _ _ hlen
      rcases hc with hc | hc | hc
      · exact absurd hs hc
      · left; omega
      · right; omega
  · rw [modifySec_get_ne _ _ _ _ (fun e => hs e.symm)]

/-- **inv_overwrite.** A rewound write that stays inside the buffer and clear of every logged fixup field keeps the invariant. -/
theorem inv_overwrite (s : State) (pos : Nat) (bs : Bytes) (h : Inv s) (hin : pos + bs.length ≤ s.curOff)
    (hc : Clear s pos bs.length) : Inv (overwrite s pos bs) := by
  have hlens : LensEq s.secs (overwrite s pos bs).secs := by
    intro j
    unfold secLen overwrite
    by_cases hij : s.cur = j
    · subst hij
      cases hsec : s.secs[s.cur]? with
      | none => unfold modifySec; rw [hsec]; dsimp only; rw [hsec]
      | some sec =>
        rw [modifySec_get_same _ _ _ _ hsec]
        have : s.curOff = sec.buf.length := by unfold State.curOff; rw [hsec]
        exact blit_length _ _ _ (by omega)
    · rw [modifySec_get_ne _ _ _ _ hij]
  refine ⟨?_, h.fmts, ?_, h.disj, ?_, h.lab, h.glob, h.wf⟩
  · show s.cur < (modifySec _ _ _).length
    rw [modifySec_length]; exact h.cur
  · intro g hg
    obtain ⟨sec, h1, h2⟩ := h.inb g hg
    cases hs' : (overwrite s pos bs).secs[g.sec]? with
    | none =>
      exfalso
      have : g.sec < (overwrite s pos bs).secs.length := by
        show g.sec < (modifySec _ _ _).length
        rw [modifySec_length]; exact getElem?_lt h1
      rw [List.getElem?_eq_none_iff] at hs'; omega
    | some sec' =>
      have hl : sec'.buf.length = sec.buf.length := by
        have := hlens g.sec; unfold secLen at this; rw [h1, hs'] at this; exact this
      exact ⟨sec', hs', by omega⟩
  · intro g hg
    exact status_mono (s := s) (s' := overwrite s pos bs) id id (fun _ _ hb => hb) (field_overwrite s pos bs g hin (hc g hg)) (h.status g hg)

/-- reachable states when rewound writes are allowed *clear of logged fields*: they all satisfy the invariant, so after
`flatten` + `resolve` every logged reference still designates its label (`final_resolve`) -/
inductive ReachO (arch : Arch) (base : BitVec 64) : State → Prop
  | init : ReachO arch base (State.init arch base)
  | step (s : State) (op : Op) : ReachO arch base s → op.early = true → ReachO arch base (step s op).1
  | overwrite (s : State) (pos : Nat) (bs : Bytes) : ReachO arch base s → pos + bs.length ≤ s.curOff → Clear s pos bs.length →
      ReachO arch base (overwrite s pos bs)

theorem reachO_inv {arch : Arch} {base : BitVec 64} {s : State} (h : ReachO arch base s) : Inv s := by
  induction h with
  | init => exact inv_init arch base
  | step s op _ hop ih => exact step_inv s op hop ih
  | overwrite s pos bs _ hin hc ih => exact inv_overwrite s pos bs ih hin hc

/-- **set_offset_promise.** Programs with rewound writes that stay clear of the logged fixup fields: after `flatten` + `resolve`
every reference ever created through a fixup designates the laid-out position of its label plus the addend, or is still
pending with an untouched zero field - exactly `resolved_ref_correct`, for the larger class of programs. -/
theorem set_offset_promise {arch : Arch} {base : BitVec 64} {s : State} (h : ReachO arch base s) :
    ∀ g ∈ (resolve (flatten s).1).1.ghost, Final (resolve (flatten s).1).1 g :=
  final_resolve _ (step_inv s .flatten rfl (reachO_inv h))

end AsmjitVerif.CodeHolder
