/-
C01 helper lemmas, spec side: the legacy two-register shape lemma for ARBITRARY register kinds, in particular the 8-bit registers whose
conditions involve the REX prefix (SPL..DIL need one, AH..BH forbid one and decode as 4..7).
-/
import AsmjitVerif.Lemmas.X86Parse
set_option linter.constructorNameAsVariable false
set_option linter.unusedSimpArgs false
set_option linter.unusedVariables false
namespace AsmjitVerif.Lemmas.X86Parse
open Spec.X86

/-- the register conditions of the monitor as one Boolean -/
def regOkB (k : RegKind) (id n : Nat) (p : Parsed) : Bool := allOk (regConds "" k id n p)

theorem allOk_regConds (w : String) (k : RegKind) (id n : Nat) (p : Parsed) : allOk (regConds w k id n p) = regOkB k id n p := by
  cases k <;> rfl

/-- legacy shape [reg, rm] / [rm, reg] with arbitrary register kinds -/
theorem leg_2reg_formOkG (ctx : Spec.X86.Ctx) (rule : Rule) (p : Parsed) (mb : BitVec 8) (bytes : List (BitVec 8)) (pp : Nat)
    (ka kb : RegKind) (fa fb : FormOp) (ia ib : Nat)
    (hmode : ((if ctx.mode64 then rule.modes &&& 2 else rule.modes &&& 1) != 0) = true)
    (R : LegRule rule 0 pp)
    (hroles : (fa.role = .reg ∧ fb.role = .rm ∧ regOkB ka ia (regNum false p.R (bits mb 3 3)) p = true ∧ regOkB kb ib (regNum false p.B (bits mb 0 3)) p = true) ∨
              (fa.role = .rm ∧ fb.role = .reg ∧ regOkB ka ia (regNum false p.B (bits mb 0 3)) p = true ∧ regOkB kb ib (regNum false p.R (bits mb 3 3)) p = true))
    (hal : alignOps rule.oszEff rule.ops [.reg ka ia, .reg kb ib] = some [(fa, some (.reg ka ia)), (fb, some (.reg kb ib))])
    (hparse : parse ctx.mode64 rule bytes = .ok p) (P : LegParsed rule p mb pp) :
    formOk ctx rule [.reg ka ia, .reg kb ib] {} bytes = true := by
  obtain ⟨hvk, hpfx, hmodrm, hmod, hop, hw, hR'⟩ := P
  obtain ⟨hmodes, hs, hpp8, h66, hF3, hF2, hpplt, hri, hmk, hmr, hmrm, himm, hrel, hmoff, ha67, hrev⟩ := R
  obtain ⟨c66, cF3, cF2, cF0, c9B, c67, cseg, ccont⟩ := count_ppBytes pp hpplt
  have hleg : isLegacySpace rule = true := by simp [isLegacySpace, hs]
  simp only [formOk, conds, hal, hparse, hmode]
  rcases hroles with ⟨ra, rb, na, nb⟩ | ⟨ra, rb, na, nb⟩
  all_goals
    simp only [allOk_cons, allOk_append, decorConds, headConds, prefixConds, modrmConds, operandConds, opConds, tailConds, ra, rb,
      allOk_regConds, allOk_nil, memOperandOf, implMemOf, usesVvvv, memDestOf,
      hasBcst, hleg, hri, hmodrm, hpfx, hvk, c66, cF3, cF2, cF0, c9B, c67, cseg, ccont, h66, hF3, hF2, hR']
    simp [hop, na, nb, hmod, hmr, hmrm, hs, hpp8, ha67, allOk]
    exact ⟨⟨hw, by simpa using c66, by simpa using cF3, by simpa using cF2, cF0, c9B, by omega, by simpa using ccont⟩,
      by rcases hmk with h | h <;> omega⟩

/-- legacy shape [rm, imm8] with an opcode-extension digit in ModRM.reg (`/d ib`), arbitrary register kind -/
theorem leg_rm_imm8_formOkG (ctx : Spec.X86.Ctx) (rule : Rule) (p : Parsed) (mb : BitVec 8) (bytes : List (BitVec 8)) (pp d : Nat)
    (ka : RegKind) (fa f3 : FormOp) (ia : Nat) (v : BitVec 64)
    (hmode : ((if ctx.mode64 then rule.modes &&& 2 else rule.modes &&& 1) != 0) = true)
    (R : LegRuleD rule 1 pp d) (hd : d < 8) (hdig : bits mb 3 3 = d)
    (hra : fa.role = .rm) (hf3 : f3.role = .imm) (hib : immBitsOf f3 = 8) (hsg : (immSignOf f3 == 1) = false)
    (himmp : p.imm = [BitVec.ofNat 8 v.toNat])
    (hreg : regOkB ka ia (regNum false p.B (bits mb 0 3)) p = true)
    (hal : alignOps rule.oszEff rule.ops [.reg ka ia, .imm v] = some [(fa, some (.reg ka ia)), (f3, some (.imm v))])
    (hparse : parse ctx.mode64 rule bytes = .ok p) (P : LegParsed rule p mb pp) :
    formOk ctx rule [.reg ka ia, .imm v] {} bytes = true := by
  obtain ⟨hvk, hpfx, hmodrm, hmod, hop, hw, hR'⟩ := P
  obtain ⟨hmodes, hs, hpp8, h66, hF3, hF2, hpplt, hri, hmk, hmr, hmrm, himm, hrel, hmoff, ha67, hrev⟩ := R
  obtain ⟨c66, cF3, cF2, cF0, c9B, c67, cseg, ccont⟩ := count_ppBytes pp hpplt
  have hleg : isLegacySpace rule = true := by simp [isLegacySpace, hs]
  simp only [formOk, conds, hal, hparse, hmode]
  simp only [allOk_cons, allOk_append, decorConds, headConds, prefixConds, modrmConds, operandConds, opConds, tailConds, hra, hf3, hib, hsg, himmp, immBytesOf, hrev,
    Bool.false_and, Bool.false_eq_true, ↓reduceIte,
    allOk_regConds, allOk_nil, memOperandOf, implMemOf, usesVvvv, memDestOf,
    hasBcst, hleg, hri, hmodrm, hpfx, hvk, c66, cF3, cF2, cF0, c9B, c67, cseg, ccont, h66, hF3, hF2, hR']
  simp [hop, hreg, hmod, hmr, hmrm, hs, hpp8, ha67, allOk, leBytes, hdig]
  exact ⟨⟨hw, by simpa using c66, by simpa using cF3, by simpa using cF2, cF0, c9B, by omega, by simpa using ccont⟩,
    by rcases hmk with h | h <;> omega⟩

/-- legacy form with the register in the low 3 bits of the opcode byte (`50+r`), no ModRM -/
theorem leg_opreg_formOk (ctx : Spec.X86.Ctx) (rule : Rule) (p : Parsed) (bytes : List (BitVec 8)) (pp : Nat)
    (k : RegKind) (f0 : FormOp) (id : Nat)
    (hmode : ((if ctx.mode64 then rule.modes &&& 2 else rule.modes &&& 1) != 0) = true)
    (hs : rule.space = 0) (hpp8 : rule.pp &&& 8 = 0)
    (h66 : (rule.pp &&& 1 != 0 || rule.osz == 16) = (pp == 1)) (hF3 : (rule.pp &&& 2 != 0) = (pp == 2)) (hF2 : (rule.pp &&& 4 != 0) = (pp == 3))
    (hpplt : pp < 4) (hri : rule.ri = true) (ha67 : rule.a67 = false)
    (hk : PlainKind k) (hf0 : f0.role = .opc)
    (hal : alignOps rule.oszEff rule.ops [.reg k id] = some [(f0, some (.reg k id))])
    (hparse : parse ctx.mode64 rule bytes = .ok p)
    (hvk : p.vexKind = 0) (hpfx : p.prefixes = ppBytes pp) (hmodrm : p.modrm = Option.none) (hop : (p.opcode &&& 0xF8#8).toNat = rule.opcode)
    (hw : wWant rule = 2 ∨ p.W = (wWant rule == 1))
    (hreg : regNum false p.B (bits p.opcode 0 3) = id) :
    formOk ctx rule [.reg k id] {} bytes = true := by
  obtain ⟨c66, cF3, cF2, cF0, c9B, c67, cseg, ccont⟩ := count_ppBytes pp hpplt
  have hleg : isLegacySpace rule = true := by simp [isLegacySpace, hs]
  simp only [formOk, conds, hal, hparse, hmode]
  simp only [allOk_cons, allOk_append, decorConds, headConds, prefixConds, modrmConds, operandConds, opConds, tailConds, hf0,
    regConds_plain _ _ _ _ _ hk, allOk_nil, memOperandOf, implMemOf, usesVvvv, memDestOf,
    hasBcst, hleg, hri, hmodrm, hpfx, hvk, c66, cF3, cF2, cF0, c9B, c67, cseg, ccont, h66, hF3, hF2, List.foldl, List.find?]
  simp [hop, hreg, hs, hpp8, ha67, allOk]
  exact ⟨hw, by simpa using c66, by simpa using cF3, by simpa using cF2, cF0, c9B, by omega, by simpa using ccont⟩

/-- legacy shape [register in the opcode byte, imm] (`B8+r iw|id|iq`): the immediate's own conditions are a hypothesis -/
theorem leg_opreg_imm_formOk (ctx : Spec.X86.Ctx) (rule : Rule) (p : Parsed) (bytes : List (BitVec 8)) (pp : Nat)
    (k : RegKind) (f0 f3 : FormOp) (id : Nat) (v : BitVec 64)
    (hmode : ((if ctx.mode64 then rule.modes &&& 2 else rule.modes &&& 1) != 0) = true)
    (hs : rule.space = 0) (hpp8 : rule.pp &&& 8 = 0)
    (h66 : (rule.pp &&& 1 != 0 || rule.osz == 16) = (pp == 1)) (hF3 : (rule.pp &&& 2 != 0) = (pp == 2)) (hF2 : (rule.pp &&& 4 != 0) = (pp == 3))
    (hpplt : pp < 4) (hri : rule.ri = true) (ha67 : rule.a67 = false)
    (hk : PlainKind k) (hf0 : f0.role = .opc)
    (hic : allOk (opConds ctx rule p 0 f3 (.imm v)).1 = true)
    (hal : alignOps rule.oszEff rule.ops [.reg k id, .imm v] = some [(f0, some (.reg k id)), (f3, some (.imm v))])
    (hparse : parse ctx.mode64 rule bytes = .ok p)
    (hvk : p.vexKind = 0) (hpfx : p.prefixes = ppBytes pp) (hmodrm : p.modrm = Option.none) (hop : (p.opcode &&& 0xF8#8).toNat = rule.opcode)
    (hw : wWant rule = 2 ∨ p.W = (wWant rule == 1))
    (hreg : regNum false p.B (bits p.opcode 0 3) = id) :
    formOk ctx rule [.reg k id, .imm v] {} bytes = true := by
  obtain ⟨c66, cF3, cF2, cF0, c9B, c67, cseg, ccont⟩ := count_ppBytes pp hpplt
  have hleg : isLegacySpace rule = true := by simp [isLegacySpace, hs]
  have h2 : (opConds ctx rule p 0 f0 (.reg k id)).2 = 0 := by simp [opConds, hf0]
  simp only [formOk, conds, hal, hparse, hmode]
  simp only [operandConds, h2]
  generalize opConds ctx rule p 0 f3 (.imm v) = X at hic ⊢
  simp only [allOk_cons, allOk_append, decorConds, headConds, prefixConds, modrmConds, operandConds, opConds, tailConds, hf0,
    regConds_plain _ _ _ _ _ hk, allOk_nil, memOperandOf, implMemOf, usesVvvv, memDestOf, hic,
    hasBcst, hleg, hri, hmodrm, hpfx, hvk, c66, cF3, cF2, cF0, c9B, c67, cseg, ccont, h66, hF3, hF2, List.foldl, List.find?]
  simp [hop, hreg, hs, hpp8, ha67, allOk]
  exact ⟨hw, by simpa using c66, by simpa using cF3, by simpa using cF2, cF0, c9B, by omega, by simpa using ccont⟩

/-- legacy shape [rm, imm] with an opcode-extension digit (`/d ib|iw|id`), arbitrary register kind, ANY immediate width / signedness: the
immediate's own conditions of the monitor are a hypothesis (`hic`) -/
theorem leg_rm_imm_formOkG (ctx : Spec.X86.Ctx) (rule : Rule) (p : Parsed) (mb : BitVec 8) (bytes : List (BitVec 8)) (pp d nimm : Nat)
    (ka : RegKind) (fa f3 : FormOp) (ia : Nat) (v : BitVec 64)
    (hmode : ((if ctx.mode64 then rule.modes &&& 2 else rule.modes &&& 1) != 0) = true)
    (R : LegRuleD rule nimm pp d) (hd : d < 8) (hdig : bits mb 3 3 = d)
    (hra : fa.role = .rm)
    (hic : allOk (opConds ctx rule p 0 f3 (.imm v)).1 = true)
    (hreg : regOkB ka ia (regNum false p.B (bits mb 0 3)) p = true)
    (hal : alignOps rule.oszEff rule.ops [.reg ka ia, .imm v] = some [(fa, some (.reg ka ia)), (f3, some (.imm v))])
    (hparse : parse ctx.mode64 rule bytes = .ok p) (P : LegParsed rule p mb pp) :
    formOk ctx rule [.reg ka ia, .imm v] {} bytes = true := by
  obtain ⟨hvk, hpfx, hmodrm, hmod, hop, hw, hR'⟩ := P
  obtain ⟨hmodes, hs, hpp8, h66, hF3, hF2, hpplt, hri, hmk, hmr, hmrm, himm, hrel, hmoff, ha67, hrev⟩ := R
  obtain ⟨c66, cF3, cF2, cF0, c9B, c67, cseg, ccont⟩ := count_ppBytes pp hpplt
  have hleg : isLegacySpace rule = true := by simp [isLegacySpace, hs]
  have h2 : (opConds ctx rule p 0 fa (.reg ka ia)).2 = 0 := by simp [opConds, hra, hmodrm]
  simp only [formOk, conds, hal, hparse, hmode]
  simp only [operandConds, h2]
  generalize opConds ctx rule p 0 f3 (.imm v) = X at hic ⊢
  simp only [allOk_cons, allOk_append, decorConds, headConds, prefixConds, modrmConds, opConds, tailConds, hra,
    allOk_regConds, allOk_nil, memOperandOf, implMemOf, usesVvvv, memDestOf, hic,
    hasBcst, hleg, hri, hmodrm, hpfx, hvk, c66, cF3, cF2, cF0, c9B, c67, cseg, ccont, h66, hF3, hF2, hR']
  simp [hop, hreg, hmod, hmr, hmrm, hs, hpp8, ha67, allOk, hdig]
  exact ⟨⟨hw, by simpa using c66, by simpa using cF3, by simpa using cF2, cF0, c9B, by omega, by simpa using ccont⟩,
    by rcases hmk with h | h <;> omega⟩

/-- legacy shape [rm] (one register operand; `/r` with a free reg field, or a digit), arbitrary register kind -/
theorem leg_r_formOkG (ctx : Spec.X86.Ctx) (rule : Rule) (p : Parsed) (mb : BitVec 8) (bytes : List (BitVec 8)) (pp d : Nat)
    (ka : RegKind) (fa : FormOp) (ia : Nat)
    (hmode : ((if ctx.mode64 then rule.modes &&& 2 else rule.modes &&& 1) != 0) = true)
    (R : LegRuleD rule 0 pp d) (hdig : d < 8 → bits mb 3 3 = d)
    (hra : fa.role = .rm)
    (hreg : regOkB ka ia (regNum false p.B (bits mb 0 3)) p = true)
    (hal : alignOps rule.oszEff rule.ops [.reg ka ia] = some [(fa, some (.reg ka ia))])
    (hparse : parse ctx.mode64 rule bytes = .ok p) (P : LegParsed rule p mb pp) :
    formOk ctx rule [.reg ka ia] {} bytes = true := by
  obtain ⟨hvk, hpfx, hmodrm, hmod, hop, hw, hR'⟩ := P
  obtain ⟨hmodes, hs, hpp8, h66, hF3, hF2, hpplt, hri, hmk, hmr, hmrm, himm, hrel, hmoff, ha67, hrev⟩ := R
  obtain ⟨c66, cF3, cF2, cF0, c9B, c67, cseg, ccont⟩ := count_ppBytes pp hpplt
  have hleg : isLegacySpace rule = true := by simp [isLegacySpace, hs]
  have h2 : (opConds ctx rule p 0 fa (.reg ka ia)).2 = 0 := by simp [opConds, hra, hmodrm]
  simp only [formOk, conds, hal, hparse, hmode]
  simp only [operandConds, h2]
  simp only [allOk_cons, allOk_append, decorConds, headConds, prefixConds, modrmConds, opConds, tailConds, hra,
    allOk_regConds, allOk_nil, memOperandOf, implMemOf, usesVvvv, memDestOf,
    hasBcst, hleg, hri, hmodrm, hpfx, hvk, c66, cF3, cF2, cF0, c9B, c67, cseg, ccont, h66, hF3, hF2, hR']
  simp [hop, hreg, hmod, hmr, hmrm, hs, hpp8, ha67, allOk]
  and_intros
  all_goals first
    | exact hw
    | exact cF0
    | exact c9B
    | (rcases hmk with h | h <;> omega)
    | (intro hh; exact hdig hh)
    | (intro hh; have := hdig hh; omega)
    | omega
    | (simpa using c66)
    | (simpa using cF3)
    | (simpa using cF2)
    | (simpa using ccont)
    | simp_all

/-- the same with a register as the second operand (fixed `cl` of the shifts: role none) -/
theorem leg_rm_fixreg_formOkG (ctx : Spec.X86.Ctx) (rule : Rule) (p : Parsed) (mb : BitVec 8) (bytes : List (BitVec 8)) (pp d nimm : Nat)
    (ka : RegKind) (fa f3 : FormOp) (ia : Nat) (k1 : RegKind) (i1 : Nat)
    (hmode : ((if ctx.mode64 then rule.modes &&& 2 else rule.modes &&& 1) != 0) = true)
    (R : LegRuleD rule nimm pp d) (hd : d < 8) (hdig : bits mb 3 3 = d)
    (hra : fa.role = .rm)
    (hic : allOk (opConds ctx rule p 0 f3 (.reg k1 i1)).1 = true)
    (hreg : regOkB ka ia (regNum false p.B (bits mb 0 3)) p = true)
    (hal : alignOps rule.oszEff rule.ops [.reg ka ia, .reg k1 i1] = some [(fa, some (.reg ka ia)), (f3, some (.reg k1 i1))])
    (hparse : parse ctx.mode64 rule bytes = .ok p) (P : LegParsed rule p mb pp) :
    formOk ctx rule [.reg ka ia, .reg k1 i1] {} bytes = true := by
  obtain ⟨hvk, hpfx, hmodrm, hmod, hop, hw, hR'⟩ := P
  obtain ⟨hmodes, hs, hpp8, h66, hF3, hF2, hpplt, hri, hmk, hmr, hmrm, himm, hrel, hmoff, ha67, hrev⟩ := R
  obtain ⟨c66, cF3, cF2, cF0, c9B, c67, cseg, ccont⟩ := count_ppBytes pp hpplt
  have hleg : isLegacySpace rule = true := by simp [isLegacySpace, hs]
  have h2 : (opConds ctx rule p 0 fa (.reg ka ia)).2 = 0 := by simp [opConds, hra, hmodrm]
  simp only [formOk, conds, hal, hparse, hmode]
  simp only [operandConds, h2]
  generalize opConds ctx rule p 0 f3 (.reg k1 i1) = X at hic ⊢
  simp only [allOk_cons, allOk_append, decorConds, headConds, prefixConds, modrmConds, opConds, tailConds, hra,
    allOk_regConds, allOk_nil, memOperandOf, implMemOf, usesVvvv, memDestOf, hic,
    hasBcst, hleg, hri, hmodrm, hpfx, hvk, c66, cF3, cF2, cF0, c9B, c67, cseg, ccont, h66, hF3, hF2, hR']
  simp [hop, hreg, hmod, hmr, hmrm, hs, hpp8, ha67, allOk, hdig]
  exact ⟨⟨hw, by simpa using c66, by simpa using cF3, by simpa using cF2, cF0, c9B, by omega, by simpa using ccont⟩,
    by rcases hmk with h | h <;> omega⟩

/-- legacy shape [rm, x] with an opcode-extension digit, arbitrary register kind, second operand an immediate (any width / implied `1`) or a
register (fixed `cl`): the second operand's own conditions of the monitor are a hypothesis (`hic`) -/
theorem leg_rm_any_formOkG (ctx : Spec.X86.Ctx) (rule : Rule) (p : Parsed) (mb : BitVec 8) (bytes : List (BitVec 8)) (pp d nimm : Nat)
    (ka : RegKind) (fa f3 : FormOp) (ia : Nat) (o1 : Operand)
    (ho1 : (∃ v, o1 = .imm v) ∨ (∃ k i, o1 = .reg k i))
    (hmode : ((if ctx.mode64 then rule.modes &&& 2 else rule.modes &&& 1) != 0) = true)
    (R : LegRuleD rule nimm pp d) (hd : d < 8) (hdig : bits mb 3 3 = d)
    (hra : fa.role = .rm)
    (hic : allOk (opConds ctx rule p 0 f3 o1).1 = true)
    (hreg : regOkB ka ia (regNum false p.B (bits mb 0 3)) p = true)
    (hal : alignOps rule.oszEff rule.ops [.reg ka ia, o1] = some [(fa, some (.reg ka ia)), (f3, some o1)])
    (hparse : parse ctx.mode64 rule bytes = .ok p) (P : LegParsed rule p mb pp) :
    formOk ctx rule [.reg ka ia, o1] {} bytes = true := by
  rcases ho1 with ⟨v, rfl⟩ | ⟨k, i, rfl⟩
  · exact leg_rm_imm_formOkG ctx rule p mb bytes pp d nimm ka fa f3 ia v hmode R hd hdig hra hic hreg hal hparse P
  · exact leg_rm_fixreg_formOkG ctx rule p mb bytes pp d nimm ka fa f3 ia k i hmode R hd hdig hra hic hreg hal hparse P

/-- legacy form without ModRM, with immediate bytes: [66|F3|F2]? [REX]? escape opcode (64-bit mode) -/
theorem parse_legacy_op_imm (r : Rule) (pp : Nat) (rex : Option (BitVec 8)) (o : BitVec 8) (imm : List (BitVec 8))
    (hpp : pp < 4) (hs : r.space = 0) (hfw : r.pp &&& 8 = 0) (hmap : r.map < 4) (hmk : r.modKind = 0)
    (hrex : ∀ b, rex = some b → b.toNat / 16 = 4 ∧ isLegacyPrefix b false = false)
    (ho : r.map = 0 → isLegacyPrefix o false = false ∧ (rex = none → o.toNat / 16 ≠ 4))
    (hlen : imm.length = r.immBytes + r.relBytes) (hmoff : r.moff = false) :
    parse true r (ppBytes pp ++ rex.toList ++ legacyEscape r.map ++ o :: imm) =
      .ok { prefixes := ppBytes pp, rex := rex, W := rexBit rex 3, R := rexBit rex 2, X := rexBit rex 1, B := rexBit rex 0,
            map := r.map, opcode := o, imm := imm,
            length := (ppBytes pp).length + rex.toList.length + (legacyEscape r.map).length + 1 + imm.length } := by
  have hpp' : pp = 0 ∨ pp = 1 ∨ pp = 2 ∨ pp = 3 := by omega
  have hmap' : r.map = 0 ∨ r.map = 1 ∨ r.map = 2 ∨ r.map = 3 := by omega
  cases rex with
  | none =>
    rcases hmap' with m | m | m | m
    · obtain ⟨ho1, ho2⟩ := ho m
      have ho2' := ho2 rfl
      rcases hpp' with h | h | h | h <;> subst h <;>
        (simp [parse, takePrefixes, isLP_66, isLP_F3, isLP_F2, isLP_0F, rexBit, ppBytes, legacyEscape, bind, Except.bind, pure, Except.pure, m, hs, hfw, hmk,
          hlen, hmoff, ho1, ho2'] <;> try omega)
    all_goals
      rcases hpp' with h | h | h | h <;> subst h <;>
        (simp [parse, takePrefixes, isLP_66, isLP_F3, isLP_F2, isLP_0F, rexBit, ppBytes, legacyEscape, bind, Except.bind, pure, Except.pure, m, hs, hfw, hmk,
          hlen, hmoff] <;> try omega)
  | some b =>
    obtain ⟨hb1, hb2⟩ := hrex b rfl
    rcases hmap' with m | m | m | m
    all_goals
      rcases hpp' with h | h | h | h <;> subst h <;>
        (simp [parse, takePrefixes, isLP_66, isLP_F3, isLP_F2, isLP_0F, rexBit, ppBytes, legacyEscape, bind, Except.bind, pure, Except.pure, m, hs, hfw, hmk,
          hlen, hmoff, hb1, hb2] <;> try omega)

/-- legacy form without ModRM: a fixed register (accumulator) operand that is not encoded, and an immediate of any width -/
theorem leg_acc_imm_formOk (ctx : Spec.X86.Ctx) (rule : Rule) (p : Parsed) (bytes : List (BitVec 8)) (pp : Nat)
    (k : RegKind) (f0 f3 : FormOp) (id : Nat) (v : BitVec 64)
    (hmode : ((if ctx.mode64 then rule.modes &&& 2 else rule.modes &&& 1) != 0) = true)
    (hs : rule.space = 0) (hpp8 : rule.pp &&& 8 = 0)
    (h66 : (rule.pp &&& 1 != 0 || rule.osz == 16) = (pp == 1)) (hF3 : (rule.pp &&& 2 != 0) = (pp == 2)) (hF2 : (rule.pp &&& 4 != 0) = (pp == 3))
    (hpplt : pp < 4) (hri : rule.ri = false) (ha67 : rule.a67 = false)
    (hf0 : f0.role = .none)
    (hic : allOk (opConds ctx rule p 0 f3 (.imm v)).1 = true)
    (hal : alignOps rule.oszEff rule.ops [.reg k id, .imm v] = some [(f0, some (.reg k id)), (f3, some (.imm v))])
    (hparse : parse ctx.mode64 rule bytes = .ok p)
    (hvk : p.vexKind = 0) (hpfx : p.prefixes = ppBytes pp) (hmodrm : p.modrm = Option.none) (hop : p.opcode.toNat = rule.opcode)
    (hw : wWant rule = 2 ∨ p.W = (wWant rule == 1)) :
    formOk ctx rule [.reg k id, .imm v] {} bytes = true := by
  obtain ⟨c66, cF3, cF2, cF0, c9B, c67, cseg, ccont⟩ := count_ppBytes pp hpplt
  have hleg : isLegacySpace rule = true := by simp [isLegacySpace, hs]
  have h2 : (opConds ctx rule p 0 f0 (.reg k id)).2 = 0 := by simp [opConds, hf0]
  have h1 : (opConds ctx rule p 0 f0 (.reg k id)).1 = [] := by simp [opConds, hf0]
  simp only [formOk, conds, hal, hparse, hmode]
  simp only [operandConds, h2, h1]
  generalize opConds ctx rule p 0 f3 (.imm v) = X at hic ⊢
  simp only [allOk_cons, allOk_append, decorConds, headConds, prefixConds, modrmConds, tailConds, hf0,
    allOk_nil, memOperandOf, implMemOf, usesVvvv, memDestOf, hic,
    hasBcst, hleg, hri, hmodrm, hpfx, hvk, c66, cF3, cF2, cF0, c9B, c67, cseg, ccont, h66, hF3, hF2, List.foldl, List.find?, List.nil_append]
  simp [hop, hs, hpp8, ha67, allOk]
  exact ⟨hw, by simpa using c66, by simpa using cF3, by simpa using cF2, cF0, c9B, by omega, by simpa using ccont⟩

/-- legacy moffs form (A0..A3) without a 67 prefix, 64-bit mode: the 8 address bytes follow the opcode: [66|F3|F2]? [REX]? escape opcode (64-bit mode) -/
theorem parse_legacy_op_moff (r : Rule) (pp : Nat) (rex : Option (BitVec 8)) (o : BitVec 8) (imm : List (BitVec 8))
    (hpp : pp < 4) (hs : r.space = 0) (hfw : r.pp &&& 8 = 0) (hmap : r.map < 4) (hmk : r.modKind = 0)
    (hrex : ∀ b, rex = some b → b.toNat / 16 = 4 ∧ isLegacyPrefix b false = false)
    (ho : r.map = 0 → isLegacyPrefix o false = false ∧ (rex = none → o.toNat / 16 ≠ 4))
    (hlen : imm.length = 8) (himm0 : r.immBytes = 0) (hrel0 : r.relBytes = 0) (hmoff : r.moff = true) :
    parse true r (ppBytes pp ++ rex.toList ++ legacyEscape r.map ++ o :: imm) =
      .ok { prefixes := ppBytes pp, rex := rex, W := rexBit rex 3, R := rexBit rex 2, X := rexBit rex 1, B := rexBit rex 0,
            map := r.map, opcode := o, imm := imm,
            length := (ppBytes pp).length + rex.toList.length + (legacyEscape r.map).length + 1 + imm.length } := by
  have hpp' : pp = 0 ∨ pp = 1 ∨ pp = 2 ∨ pp = 3 := by omega
  have hmap' : r.map = 0 ∨ r.map = 1 ∨ r.map = 2 ∨ r.map = 3 := by omega
  cases rex with
  | none =>
    rcases hmap' with m | m | m | m
    · obtain ⟨ho1, ho2⟩ := ho m
      have ho2' := ho2 rfl
      rcases hpp' with h | h | h | h <;> subst h <;>
        (simp [parse, takePrefixes, isLP_66, isLP_F3, isLP_F2, isLP_0F, rexBit, ppBytes, legacyEscape, bind, Except.bind, pure, Except.pure, m, hs, hfw, hmk,
          hlen, himm0, hrel0, hmoff, ho1, ho2'] <;> try omega)
    all_goals
      rcases hpp' with h | h | h | h <;> subst h <;>
        (simp [parse, takePrefixes, isLP_66, isLP_F3, isLP_F2, isLP_0F, rexBit, ppBytes, legacyEscape, bind, Except.bind, pure, Except.pure, m, hs, hfw, hmk,
          hlen, himm0, hrel0, hmoff] <;> try omega)
  | some b =>
    obtain ⟨hb1, hb2⟩ := hrex b rfl
    rcases hmap' with m | m | m | m
    all_goals
      rcases hpp' with h | h | h | h <;> subst h <;>
        (simp [parse, takePrefixes, isLP_66, isLP_F3, isLP_F2, isLP_0F, rexBit, ppBytes, legacyEscape, bind, Except.bind, pure, Except.pure, m, hs, hfw, hmk,
          hlen, himm0, hrel0, hmoff, hb1, hb2] <;> try omega)


/-- legacy moffs load `mov acc, [moffs]`: fixed accumulator (not encoded) and an absolute address after the opcode -/
theorem leg_acc_moff_formOk (ctx : Spec.X86.Ctx) (rule : Rule) (p : Parsed) (bytes : List (BitVec 8)) (pp : Nat)
    (k : RegKind) (f0 f3 : FormOp) (id : Nat) (m : MemOp)
    (hmode : ((if ctx.mode64 then rule.modes &&& 2 else rule.modes &&& 1) != 0) = true)
    (hs : rule.space = 0) (hpp8 : rule.pp &&& 8 = 0)
    (h66 : (rule.pp &&& 1 != 0 || rule.osz == 16) = (pp == 1)) (hF3 : (rule.pp &&& 2 != 0) = (pp == 2)) (hF2 : (rule.pp &&& 4 != 0) = (pp == 3))
    (hpplt : pp < 4) (hri : rule.ri = false) (ha67 : rule.a67 = false)
    (hf0 : f0.role = .none) (hf3 : f3.role = .moff)
    (hbk : m.baseKind = .none) (hik : m.indexKind = .none) (hseg : m.seg = 0) (hbc : m.bcst = 0) (himm0 : rule.immBytes = 0)
    (haddr : leNat (p.imm.take p.imm.length) = m.disp.toNat)
    (hal : alignOps rule.oszEff rule.ops [.reg k id, .mem m] = some [(f0, some (.reg k id)), (f3, some (.mem m))])
    (hparse : parse ctx.mode64 rule bytes = .ok p)
    (hvk : p.vexKind = 0) (hpfx : p.prefixes = ppBytes pp) (hmodrm : p.modrm = Option.none) (hop : p.opcode.toNat = rule.opcode)
    (hw : wWant rule = 2 ∨ p.W = (wWant rule == 1)) :
    formOk ctx rule [.reg k id, .mem m] {} bytes = true := by
  obtain ⟨c66, cF3, cF2, cF0, c9B, c67, cseg, ccont⟩ := count_ppBytes pp hpplt
  have hleg : isLegacySpace rule = true := by simp [isLegacySpace, hs]
  simp only [formOk, conds, hal, hparse, hmode]
  simp only [allOk_cons, allOk_append, decorConds, headConds, prefixConds, modrmConds, operandConds, opConds, tailConds, hf0, hf3,
    allOk_nil, memOperandOf, implMemOf, usesVvvv, memDestOf,
    hasBcst, hleg, hri, hmodrm, hpfx, hvk, c66, cF3, cF2, cF0, c9B, c67, cseg, ccont, h66, hF3, hF2, List.foldl, List.find?, List.nil_append]
  simp [hop, hs, hpp8, ha67, allOk, hbk, hik, hseg, hbc, himm0, haddr, segPrefix]
  and_intros
  all_goals first
    | exact hw
    | exact cF0
    | exact c9B
    | omega
    | (simpa using c66)
    | (simpa using cF3)
    | (simpa using cF2)
    | (simpa using cseg)
    | (simpa using ccont)
    | simp_all

/-- legacy moffs store `mov [moffs], acc` -/
theorem leg_moff_acc_formOk (ctx : Spec.X86.Ctx) (rule : Rule) (p : Parsed) (bytes : List (BitVec 8)) (pp : Nat)
    (k : RegKind) (f0 f3 : FormOp) (id : Nat) (m : MemOp)
    (hmode : ((if ctx.mode64 then rule.modes &&& 2 else rule.modes &&& 1) != 0) = true)
    (hs : rule.space = 0) (hpp8 : rule.pp &&& 8 = 0)
    (h66 : (rule.pp &&& 1 != 0 || rule.osz == 16) = (pp == 1)) (hF3 : (rule.pp &&& 2 != 0) = (pp == 2)) (hF2 : (rule.pp &&& 4 != 0) = (pp == 3))
    (hpplt : pp < 4) (hri : rule.ri = false) (ha67 : rule.a67 = false)
    (hf0 : f0.role = .none) (hf3 : f3.role = .moff)
    (hbk : m.baseKind = .none) (hik : m.indexKind = .none) (hseg : m.seg = 0) (hbc : m.bcst = 0) (himm0 : rule.immBytes = 0)
    (haddr : leNat (p.imm.take p.imm.length) = m.disp.toNat)
    (hal : alignOps rule.oszEff rule.ops [.mem m, .reg k id] = some [(f3, some (.mem m)), (f0, some (.reg k id))])
    (hparse : parse ctx.mode64 rule bytes = .ok p)
    (hvk : p.vexKind = 0) (hpfx : p.prefixes = ppBytes pp) (hmodrm : p.modrm = Option.none) (hop : p.opcode.toNat = rule.opcode)
    (hw : wWant rule = 2 ∨ p.W = (wWant rule == 1)) :
    formOk ctx rule [.mem m, .reg k id] {} bytes = true := by
  obtain ⟨c66, cF3, cF2, cF0, c9B, c67, cseg, ccont⟩ := count_ppBytes pp hpplt
  have hleg : isLegacySpace rule = true := by simp [isLegacySpace, hs]
  simp only [formOk, conds, hal, hparse, hmode]
  simp only [allOk_cons, allOk_append, decorConds, headConds, prefixConds, modrmConds, operandConds, opConds, tailConds, hf0, hf3,
    allOk_nil, memOperandOf, implMemOf, usesVvvv, memDestOf,
    hasBcst, hleg, hri, hmodrm, hpfx, hvk, c66, cF3, cF2, cF0, c9B, c67, cseg, ccont, h66, hF3, hF2, List.foldl, List.find?, List.nil_append]
  simp [hop, hs, hpp8, ha67, allOk, hbk, hik, hseg, hbc, himm0, haddr, segPrefix]
  and_intros
  all_goals first
    | exact hw
    | exact cF0
    | exact c9B
    | omega
    | (simpa using c66)
    | (simpa using cF3)
    | (simpa using cF2)
    | (simpa using cseg)
    | (simpa using ccont)
    | simp_all

end AsmjitVerif.Lemmas.X86Parse
