/-
C18 — ArenaTree::remove, part 16: bookkeeping lemmas for the final assembly.
-/
import AsmjitVerif.Lemmas.C18TreeRem15
namespace AsmjitVerif.Tree.Rem
open AsmjitVerif.Tree AsmjitVerif.Tree.Spec

theorem _root_.AsmjitVerif.Tree.Spec.Rep.io_key {h : Tree} {n : Nat} {t : T} (hr : Rep h n t) :
    ∀ p ∈ t.io, (nd h p.1).key = p.2 := by
  induction hr with
  | nil => intro p hp; simp [T.io] at hp
  | @node n k c L R h2 hlt hk hc _ _ ihL ihR =>
    intro p hp
    simp only [T.io, List.mem_append, List.mem_cons] at hp
    rcases hp with hp | rfl | hp
    · exact ihL p hp
    · exact hk
    · exact ihR p hp

theorem RepC.key {h : Tree} {ctx : List Frame} (hr : RepC h ctx) : ∀ G ∈ ctx, (nd h G.i).key = G.k := by
  induction ctx with
  | nil => intro G hG; cases hG
  | cons F up ih =>
    intro G hG
    rcases List.mem_cons.mp hG with rfl | hG
    · exact hr.2.2.1
    · exact ih hr.2.2.2.2.2.2 G hG

theorem plug_append (A B : List Frame) (s : T) : plug (A ++ B) s = plug B (plug A s) := by
  induction A generalizing s with
  | nil => rfl
  | cons F A ih => simp only [List.cons_append, plug]; exact ih _

theorem right_spine_io (bl : List Frame) (hd : ∀ B ∈ bl, B.d = true) : ∃ M, ∀ s, (plug bl s).io = M ++ s.io := by
  induction bl with
  | nil => exact ⟨[], fun s => rfl⟩
  | cons F bl ih =>
    obtain ⟨M, hM⟩ := ih (fun B hB => hd B (by simp [hB]))
    refine ⟨M ++ F.sib.io ++ [(F.i, F.k)], fun s => ?_⟩
    simp only [plug, hM, mkT_io, hd F (by simp), if_true]; simp

theorem frame_mem_plug_io (bl : List Frame) (s : T) (G : Frame) (hG : G ∈ bl) : (G.i, G.k) ∈ (plug bl s).io := by
  induction bl generalizing s with
  | nil => cases hG
  | cons F bl ih =>
    simp only [plug]
    rcases List.mem_cons.mp hG with rfl | hG
    · apply plug_sub_mem; rw [mkT_io]; split <;> simp
    · exact ih _ hG

/-- `_root = head.right; _root->_make_black()` -/
theorem finish_root {h2 : Tree} {X : T} (ur : Rep h2 (nd h2 1).r X) (hnd : X.idxs.Nodup) :
    Represents (makeBlack { h2 with root := child h2 1 true } (child h2 1 true)) (X.setRed false) ∧
    (makeBlack { h2 with root := child h2 1 true } (child h2 1 true)).nodes.size = h2.nodes.size := by
  have hr' : child h2 1 true = (nd h2 1).r := rfl
  rw [hr']
  generalize (nd h2 1).r = r at *
  refine ⟨⟨?_, by rw [T.setRed_idxs]; exact hnd⟩, by rw [makeBlack_size]⟩
  show Rep _ (makeBlack _ r).root _
  rw [makeBlack_eq, root_upd]
  show Rep _ r _
  by_cases hr0 : r = 0
  · have : X = .nil := (Rep.nil_iff ur).mp hr0
    rw [this, hr0]; exact Rep.nil
  · obtain ⟨_, _, _, _, r2, rs, _⟩ := ur.acc hr0
    have ur' : Rep { h2 with root := r } r X := ur.frame rfl (fun i _ => rfl)
    have rs' : r < ({ h2 with root := r } : Tree).nodes.size := rs
    rw [← makeBlack_eq]
    generalize ({ h2 with root := r } : Tree) = h3 at ur' rs'
    refine ur'.setRed false (by rw [makeBlack_size]) ?_ ?_ hnd
    · rw [makeBlack_nd h3 r hr0 rs' r, if_pos rfl]
    · intro i _ hne; rw [makeBlack_nd h3 r hr0 rs' i, if_neg hne]

/-- from "the in-order sequence loses exactly (node, kn)" to the set-level statement -/
theorem erase_conclusion {t X : T} {node kn : Nat} {A B : List (Nat × Nat)} (e1 : t.io = A ++ (node, kn) :: B)
    (e2 : X.io = A ++ B) (hbst : t.BST) (hnd : t.idxs.Nodup) :
    (X.setRed false).keys = setErase kn t.keys ∧ (X.setRed false).BST ∧
    (X.setRed false).idxs.Perm (t.idxs.erase node) ∧ (X.setRed false).isRed = false := by
  have hkeys : t.keys = A.map Prod.snd ++ kn :: B.map Prod.snd := by rw [← T.io_keys, e1]; simp
  have hkeys2 : X.keys = A.map Prod.snd ++ B.map Prod.snd := by rw [← T.io_keys, e2]; simp
  have hidx : t.idxs = A.map Prod.fst ++ node :: B.map Prod.fst := by rw [← T.io_idxs, e1]; simp
  have hidx2 : X.idxs = A.map Prod.fst ++ B.map Prod.fst := by rw [← T.io_idxs, e2]; simp
  obtain ⟨se, ss⟩ := setErase_mid (A.map Prod.snd) (B.map Prod.snd) kn (by rw [← hkeys]; exact hbst)
  have hnL : node ∉ A.map Prod.fst := by
    rw [hidx] at hnd
    have := (List.nodup_append.mp hnd).2.2
    intro hm; exact this node hm node (by simp) rfl
  have ek : (X.setRed false).keys = X.keys := by rw [← T.io_keys, T.setRed_io, T.io_keys]
  refine ⟨?_, ?_, ?_, ?_⟩
  · rw [ek, hkeys2, hkeys, se]
  · show Sorted (X.setRed false).keys
    rw [ek, hkeys2]; exact ss
  · rw [T.setRed_idxs, hidx2, hidx, List.erase_append_right _ hnL]; simp
  · cases X <;> rfl

end AsmjitVerif.Tree.Rem
