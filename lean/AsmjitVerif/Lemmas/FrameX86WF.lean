/- C07: small facts used to derive `X86WF` for the frames `FuncFrame::finalize` produces. -/
import AsmjitVerif.Lemmas.FrameX86Main
namespace AsmjitVerif.Frame

theorem alignUp_mul (n k : Nat) (hk : k ≤ 31) (h : n * 2 ^ k + 2 ^ k ≤ 2 ^ 32) :
    alignUp (n * 2 ^ k) (2 ^ k) = n * 2 ^ k := by
  rw [alignUp_pow2 _ k hk h]
  have hp : 0 < 2 ^ k := Nat.two_pow_pos k
  have : (n * 2 ^ k + (2 ^ k - 1)) % 2 ^ k = 2 ^ k - 1 := by
    rw [Nat.mul_comm, Nat.mul_add_mod, Nat.mod_eq_of_lt (by omega)]
  rw [this]; omega

theorem tb_or_bit (x i : Nat) : (x ||| bit i).testBit i = true := by
  unfold bit; rw [Nat.testBit_or, Nat.testBit_two_pow_self, Bool.or_true]

theorem tb_or_left (x y i : Nat) (h : x.testBit i = true) : (x ||| y).testBit i = true := by
  rw [Nat.testBit_or, h, Bool.true_or]

theorem tb_u32 (x i : Nat) (hi : i < 32) : (u32 x).testBit i = x.testBit i := by
  unfold u32; rw [Nat.testBit_mod_two_pow]; simp [hi]

theorem range4 : List.range 4 = [0, 1, 2, 3] := by decide

theorem pow2_between (n k : Nat) (h1 : 2 ^ n ≤ 2 ^ k) (h2 : 2 ^ k < 2 * 2 ^ n) : k = n := by
  have a : n ≤ k := (Nat.pow_le_pow_iff_right (by omega)).mp h1
  have b : k < n + 1 := by
    apply (Nat.pow_lt_pow_iff_right (a := 2) (by omega)).mp
    rw [Nat.pow_succ]; omega
  omega

theorem pow2_dvd_of_le (j k : Nat) (h : 2 ^ j ≤ 2 ^ k) : 2 ^ j ∣ 2 ^ k := by
  have : j ≤ k := (Nat.pow_le_pow_iff_right (by omega)).mp h
  exact Nat.pow_dvd_pow 2 this

theorem attrs_or40 (a i : Nat) (hi : i ≠ 6) : (a ||| 0x40).testBit i = a.testBit i := by
  rw [Nat.testBit_or]
  have : Nat.testBit 0x40 i = false := by
    rw [show (0x40 : Nat) = 2 ^ 6 by rfl, Nat.testBit_two_pow]; simp; omega
  rw [this, Bool.or_false]

end AsmjitVerif.Frame
