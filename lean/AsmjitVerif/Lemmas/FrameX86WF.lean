/- C07: small facts used to derive `X86WF` for the frames `FuncFrame::finalize` produces. -/
import AsmjitVerif.Lemmas.FrameX86Main
namespace AsmjitVerif.Frame

theorem alignUp_mul (n k : Nat) (hk : k ≤ 31) (h : n * 2 ^ k + 2 ^ k ≤ 2 ^ 32) :
    alignUp (n * 2 ^ k) (2 ^ k) = n * 2 ^ k := by
  rw [alignUp_pow2 _ k hk h]
  have hp : 0 < 2 ^ k := Nat.two_pow_pos k
  have : (n * 2 ^ k + (2 ^ k - 1)) % 2 ^ k = 2 ^ k - 1 := by
    rw [Nat.mul_comm, Nat.mul_add_mod, Nat.mod_eq_of_lt (by omega)]
  rw [this]; omega

theorem tb_or_bit (x i : Nat) : (x ||| bit i).testBit i = true := by
  unfold bit; rw [Nat.testBit_or, Nat.testBit_two_pow_self, Bool.or_true]

theorem tb_or_left (x y i : Nat) (h : x.testBit i = true) : (x ||| y).testBit i = true := by
  rw [Nat.testBit_or, h, Bool.true_or]

theorem tb_u32 (x i : Nat) (hi : i < 32) : (u32 x).testBit i = x.testBit i := by
  unfold u32; rw [Nat.testBit_mod_two_pow]; simp [hi]

theorem range4 : List.range 4 = [0, 1, 2, 3] := by decide

theorem pow2_between (n k : Nat) (h1 : 2 ^ n ≤ 2 ^ k) (h2 : 2 ^ k < 2 * 2 ^ n) : k = n := by
  have a : n ≤ k := (Nat.pow_le_pow_iff_right (by omega)).mp h1
  have b : k < n + 1 := by
    apply (Nat.pow_lt_pow_iff_right (a := 2) (by omega)).mp
    rw [Nat.pow_succ]; omega
  omega

theorem pow2_dvd_of_le (j k : Nat) (h : 2 ^ j ≤ 2 ^ k) : 2 ^ j ∣ 2 ^ k := by
  have : j ≤ k := (Nat.pow_le_pow_iff_right (by omega)).mp h
  exact Nat.pow_dvd_pow 2 this

theorem attrs_or40 (a i : Nat) (hi : i ≠ 6) : (a ||| 0x40).testBit i = a.testBit i := by
  rw [Nat.testBit_or]
  have : Nat.testBit 0x40 i = false := by
    rw [show (0x40 : Nat) = 2 ^ 6 by rfl, Nat.testBit_two_pow]; simp; omega
  rw [this, Bool.or_false]

theorem attrs_clear40 (a i : Nat) (hi : i < 32) (h6 : i ≠ 6) : (a &&& (2 ^ 32 - 1 - 0x40)).testBit i = a.testBit i := by
  rw [Nat.testBit_and]
  have : ∀ j, j < 32 → j ≠ 6 → Nat.testBit (2 ^ 32 - 1 - 0x40) j = true := by decide
  rw [this i hi h6, Bool.and_true]

theorem attrs_clear40_6 (a : Nat) : (a &&& (2 ^ 32 - 1 - 0x40)).testBit 6 = false := by
  rw [Nat.testBit_and]
  have : Nat.testBit (2 ^ 32 - 1 - 0x40) 6 = false := by decide
  rw [this, Bool.and_false]

theorem tb_bit (i j : Nat) : (bit i).testBit j = decide (i = j) := by
  unfold bit; rw [Nat.testBit_two_pow]

/-- x86: the GP preserved mask after `finalize` -/
theorem preserved0C_x86 (g : Frame) (hfpid : g.arch.fpId = 5) (hlr : g.arch.lrId = none) (h16 : g.preserved 0 < 2 ^ 16)
    (h4 : (g.preserved 0).testBit 4 = false) :
    g.preserved0C < 2 ^ 16 ∧ g.preserved0C.testBit 4 = false ∧ (g.hasFP = true → g.preserved0C.testBit 5 = true) := by
  unfold Frame.preserved0C
  cases hfp : g.hasFP with
  | false => simp only [Bool.false_eq_true, if_false]; exact ⟨h16, h4, fun h => absurd h (by simp)⟩
  | true =>
    simp only [if_true, hfpid, hlr]
    have hlt : (g.preserved 0 ||| bit 5) ||| 0 < 2 ^ 16 := by
      rw [Nat.or_zero]; exact Nat.or_lt_two_pow h16 (by decide)
    have hu : u32 ((g.preserved 0 ||| bit 5) ||| 0) = (g.preserved 0 ||| bit 5) ||| 0 := Nat.mod_eq_of_lt (by omega)
    rw [hu]
    refine ⟨hlt, ?_, fun _ => tb_or_left _ _ _ (tb_or_bit _ 5)⟩
    rw [Nat.or_zero, Nat.testBit_or, h4, tb_bit]; rfl

end AsmjitVerif.Frame
