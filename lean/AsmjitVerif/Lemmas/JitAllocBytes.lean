/- C09: used bytes of all blocks = bytes of the live spans + padding granules (`GInv`). -/
import AsmjitVerif.Lemmas.JitAllocDiv
namespace AsmjitVerif.JitAlloc


/-- effect of the block loop on the sum of an arbitrary per-block weight -/
theorem scanPass_aggW (w : Block → Nat) (d : Nat) (sel : Block → Bool) (k : Nat)
    (hn : ∀ b b', b.tryAlloc k = (b', none) → w b' = w b)
    (hs : ∀ b b' idx, sel b = true → b.tryAlloc k = (b', some idx) → w (b'.commit idx k) = w b + d) :
    ∀ (bs : List Block), agg w (scanPass sel k bs).1 = agg w bs + (if (scanPass sel k bs).2.isSome then d else 0) := by
  intro bs
  induction bs with
  | nil => simp [scanPass]
  | cons b bs ih =>
    unfold scanPass
    by_cases hsel : sel b = true
    · simp only [hsel, if_true]
      rcases hta : b.tryAlloc k with ⟨b', _ | idx⟩
      · simp only [agg_cons, hn b b' hta, ih]; omega
      · simp only [agg_cons, hs b b' idx hsel hta, Option.isSome_some, if_true]; omega
    · simp only [hsel, Bool.false_eq_true, if_false, agg_cons, ih]; omega

theorem twoPass_aggW (w : Block → Nat) (d : Nat) (sel1 sel2 : Block → Bool) (k : Nat)
    (hn : ∀ b b', b.tryAlloc k = (b', none) → w b' = w b)
    (hs : ∀ b b' idx, (sel1 b = true ∨ sel2 b = true) → b.tryAlloc k = (b', some idx) → w (b'.commit idx k) = w b + d)
    (bs : List Block) (r2 : List Block × Option Found)
    (hr2 : r2 = if (scanPass sel1 k bs).2.isSome then scanPass sel1 k bs else scanPass sel2 k (scanPass sel1 k bs).1) :
    agg w r2.1 = agg w bs + (if r2.2.isSome then d else 0) := by
  have s1 := scanPass_aggW w d sel1 k hn (fun b b' idx h => hs b b' idx (Or.inl h)) bs
  by_cases h1 : (scanPass sel1 k bs).2.isSome = true
  · simp only [h1, if_true] at hr2 s1
    subst hr2
    simp only [h1, if_true]; exact s1
  · have s2 := scanPass_aggW w d sel2 k hn (fun b b' idx h => hs b b' idx (Or.inr h)) (scanPass sel1 k bs).1
    simp only [h1, Bool.false_eq_true, if_false] at hr2 s1
    subst hr2
    rw [s2, s1]; omega




def wUB (cfg : Config) (b : Block) : Nat := b.areaUsed * cfg.poolGran b.pool
def wPB (cfg : Config) (b : Block) : Nat := b.padN * cfg.poolGran b.pool

theorem fresh_used (nb : Block) (hnb : nb.areaUsed = nb.padN) (k : Nat) :
    (({ nb with searchStart := nb.searchStart + k, largest := nb.largest - k }).markAllocated nb.padN (nb.padN + k)).areaUsed =
    (({ nb with searchStart := nb.searchStart + k, largest := nb.largest - k }).markAllocated nb.padN (nb.padN + k)).padN + k := by
  simp only [markAllocated_areaUsed, markAllocated_padN]
  show nb.areaUsed + (nb.padN + k - nb.padN) = nb.padN + k
  rw [hnb]; omega

/-- what a successful `alloc` does to the block list and to the used / padding byte totals -/
theorem alloc_effect {a : Alloc} {T} (req : Nat) (sp : SpanOut) (h : AInv a T) (hok : (a.alloc req).2 = .ok sp) :
    ((a.alloc req).1.blocks.map (fun b => (b.id, b.pool, b.blockSize)) = a.blocks.map (fun b => (b.id, b.pool, b.blockSize)) ∧
      agg (wUB a.cfg) (a.alloc req).1.blocks = agg (wUB a.cfg) a.blocks + sp.size ∧
      agg (wPB a.cfg) (a.alloc req).1.blocks = agg (wPB a.cfg) a.blocks) ∨
    (∃ fb : Block, (a.alloc req).1.blocks.map (fun b => (b.id, b.pool, b.blockSize)) =
        a.blocks.map (fun b => (b.id, b.pool, b.blockSize)) ++ [(fb.id, fb.pool, fb.blockSize)] ∧
      fb.id = a.nextId ∧ sp.blk = a.nextId ∧ fb.pool = sp.pool ∧ fb.blockSize = sp.blockSize ∧
      agg (wUB a.cfg) (a.alloc req).1.blocks = agg (wUB a.cfg) a.blocks + wPB a.cfg fb + sp.size ∧
      agg (wPB a.cfg) (a.alloc req).1.blocks = agg (wPB a.cfg) a.blocks + wPB a.cfg fb) := by
  unfold Alloc.alloc at hok ⊢
  simp only at hok ⊢
  split at hok
  · simp at hok
  · split at hok
    · simp at hok
    · rename_i hs0 hmax
      simp only [hs0, hmax, if_false]
      have hal := alignUp_mod req a.cfg.gran
      generalize alignUp req a.cfg.gran = size at hs0 hal hok
      have hg := poolGran_pos h.wf (sizeToPoolId a.cfg size)
      have hdvd := sizeToPoolId_dvd a.cfg size hal
      have hsz := (ceil_mul_of_dvd size _ hg hdvd).symm
      have hn : 0 < (size + a.cfg.poolGran (sizeToPoolId a.cfg size) - 1) / a.cfg.poolGran (sizeToPoolId a.cfg size) := by
        apply Nat.pos_of_ne_zero
        intro h0
        rw [h0] at hsz
        omega
      generalize hk : (size + a.cfg.poolGran (sizeToPoolId a.cfg size) - 1) / a.cfg.poolGran (sizeToPoolId a.cfg size) = k at hn hsz
      generalize hs1 : (fun (b : Block) => b.pool == sizeToPoolId a.cfg size && decide ((a.pool (sizeToPoolId a.cfg size)).cursor.getD 0 ≤ b.id)) = sel1
      generalize hs2 : (fun (b : Block) => b.pool == sizeToPoolId a.cfg size && decide (b.id < (a.pool (sizeToPoolId a.cfg size)).cursor.getD 0)) = sel2
      have hselp : ∀ b, (sel1 b = true ∨ sel2 b = true) → b.pool = sizeToPoolId a.cfg size := by
        intro b hb
        rcases hb with hb | hb
        · rw [← hs1] at hb; simp at hb; exact hb.1
        · rw [← hs2] at hb; simp at hb; exact hb.1
      have tp := twoPass_spec sel1 sel2 k hn (T := T) a.blocks h.ids h.blk _ rfl
      have tU := twoPass_aggW (wUB a.cfg) (k * a.cfg.poolGran (sizeToPoolId a.cfg size)) sel1 sel2 k
        (by intro b b' ht; obtain ⟨f1, _, f3, _⟩ := tryAlloc_acct ht; simp [wUB, f1, f3])
        (by
          intro b b' idx hsel ht
          obtain ⟨f1, _, f3, _⟩ := tryAlloc_acct ht
          obtain ⟨c1, _, c3, _⟩ := commit_acct b' idx k
          simp only [wUB, c1, c3, f1, f3, hselp b hsel, Nat.add_mul]) a.blocks _ rfl
      have tP := twoPass_aggW (wPB a.cfg) 0 sel1 sel2 k
        (by intro b b' ht; obtain ⟨f1, _, _, _, f5⟩ := tryAlloc_acct ht; simp [wPB, Block.padN, f1, f5])
        (by
          intro b b' idx _ ht
          obtain ⟨f1, _, _, _, f5⟩ := tryAlloc_acct ht
          obtain ⟨c1, _, _, _⟩ := commit_acct b' idx k
          simp [wPB, c1, f1, Block.padN, Block.commit, f5]) a.blocks _ rfl
      unfold Alloc.allocIn at hok ⊢
      simp only [hk, hs1, hs2] at hok ⊢
      split at hok
      · rename_i id idx w hr
        rw [hr] at tp tU tP
        simp only [Option.isSome_some, if_true, Nat.add_zero] at tU tP
        simp only [Alloc.allocFound] at hok
        simp at hok
        left
        simp only [Alloc.allocFound, setPool_blocks]
        refine ⟨tp.1, ?_, tP⟩
        rw [tU, ← hok]; simp only; omega
      · rename_i hr
        rw [hr] at tp tU tP
        simp only [Option.isSome_none, Bool.false_eq_true, if_false, Nat.add_zero] at tU tP
        obtain ⟨hmap, _⟩ := tp
        have hfresh : ∀ x ∈ (if (scanPass sel1 k a.blocks).2.isSome then scanPass sel1 k a.blocks
            else scanPass sel2 k (scanPass sel1 k a.blocks).1).1, x.id < a.nextId := fun x hx => by
          obtain ⟨y, hy, e⟩ := exists_of_map_eq hmap.symm x hx
          simp at e
          have := h.fresh y hy
          omega
        generalize hR : (if (scanPass sel1 k a.blocks).2.isSome then scanPass sel1 k a.blocks
            else scanPass sel2 k (scanPass sel1 k a.blocks).1).1 = R at hok tU tP hmap hfresh ⊢
        right
        rw [allocNew_blocks hfresh]
        simp only [Alloc.allocNew] at hok
        simp at hok
        subst hok
        have key : ∀ fb : Block, fb.id = a.nextId → fb.pool = sizeToPoolId a.cfg size →
            fb.blockSize = idealBlockSize { a with blocks := R } (sizeToPoolId a.cfg size) size → fb.areaUsed = fb.padN + k →
            ∃ fb' : Block, List.map (fun b => (b.id, b.pool, b.blockSize)) (R ++ [fb]) =
                List.map (fun b => (b.id, b.pool, b.blockSize)) a.blocks ++ [(fb'.id, fb'.pool, fb'.blockSize)] ∧
              fb'.id = a.nextId ∧ a.nextId = a.nextId ∧ fb'.pool = sizeToPoolId a.cfg size ∧
              fb'.blockSize = idealBlockSize { a with blocks := R } (sizeToPoolId a.cfg size) size ∧
              agg (wUB a.cfg) (R ++ [fb]) = agg (wUB a.cfg) a.blocks + wPB a.cfg fb' + size ∧
              agg (wPB a.cfg) (R ++ [fb]) = agg (wPB a.cfg) a.blocks + wPB a.cfg fb' := by
          intro fb e1 e2 e3 e4
          refine ⟨fb, by simp only [List.map_append, hmap]; rfl, e1, rfl, e2, e3, ?_, ?_⟩
          · simp only [agg_append, agg_cons, agg_nil, tU, Nat.add_zero, wUB, wPB, e4, e2, Nat.add_mul]
            omega
          · simp only [agg_append, agg_cons, agg_nil, tP, Nat.add_zero]
        exact key _ (by simp [newBlock, Block.clear]) (by simp [newBlock, Block.clear]) (by simp [newBlock, Block.clear])
          (fresh_used _ rfl k)




/-- bytes the caller holds -/
def liveBytes (tab : List Handle) : Nat := (tab.map fun h => if h.live then h.size else 0).sum

/-- used bytes of all blocks = bytes of the live spans + the padding granules -/
def GInv (s : St) : Prop := agg (wUB s.a.cfg) s.a.blocks = liveBytes s.tab + agg (wPB s.a.cfg) s.a.blocks

theorem liveBytes_append (tab : List Handle) (h : Handle) : liveBytes (tab ++ [h]) = liveBytes tab + (if h.live then h.size else 0) := by
  simp [liveBytes]

theorem liveBytes_kill : ∀ (tab : List Handle) (j : Nat) (hd : Handle), tab[j]? = some hd → hd.live = true →
    liveBytes (killHandle tab j) + hd.size = liveBytes tab := by
  intro tab
  induction tab with
  | nil => intro j hd h; simp at h
  | cons x xs ih =>
    intro j hd h hl
    cases j with
    | zero =>
      simp at h; subst h
      rw [killHandle_cons_zero]
      simp [liveBytes, hl]; omega
    | succ j =>
      simp at h
      rw [killHandle_cons_succ]
      have := ih j hd h hl
      simp only [liveBytes, List.map_cons, List.sum_cons] at this ⊢
      omega

theorem setHandleSize_cons_zero (x : Handle) (xs : List Handle) (sz : Nat) :
    setHandleSize (x :: xs) 0 sz = { x with size := sz } :: xs := by
  simp only [setHandleSize, List.mapIdx_cons]
  congr 1
  exact mapIdx_self _ _ (by intro i y; simp)

theorem setHandleSize_cons_succ (x : Handle) (xs : List Handle) (j sz : Nat) :
    setHandleSize (x :: xs) (j + 1) sz = x :: setHandleSize xs j sz := by
  simp only [setHandleSize, List.mapIdx_cons]
  congr 1
  apply List.mapIdx_eq_mapIdx_iff.mpr
  intro i hi
  simp

theorem liveBytes_setSize : ∀ (tab : List Handle) (j sz : Nat) (hd : Handle), tab[j]? = some hd → hd.live = true →
    liveBytes (setHandleSize tab j sz) + hd.size = liveBytes tab + sz := by
  intro tab
  induction tab with
  | nil => intro j sz hd h; simp at h
  | cons x xs ih =>
    intro j sz hd h hl
    cases j with
    | zero =>
      simp at h; subst h
      rw [setHandleSize_cons_zero]
      simp [liveBytes, hl]; omega
    | succ j =>
      simp at h
      rw [setHandleSize_cons_succ]
      have := ih j sz hd h hl
      simp only [liveBytes, List.map_cons, List.sum_cons] at this ⊢
      omega

theorem liveBytes_dead (tab : List Handle) : liveBytes (tab.map fun _ => ({ live := false, blk := 0, off := 0, size := 0 } : Handle)) = 0 := by
  unfold liveBytes
  induction tab with
  | nil => rfl
  | cons x xs ih => simpa using ih




theorem agg_map_same (w : Block → Nat) (f : Block → Block) (hf : ∀ y, w (f y) = w y) (l : List Block) : agg w (l.map f) = agg w l := by
  induction l with
  | nil => rfl
  | cons x xs ih => simp [hf x, ih]

theorem modify_ids {bs : List Block} {b b' : Block} (hid : b'.id = b.id) :
    (bs.map fun x => if x.id = b.id then b' else x).map (·.id) = bs.map (·.id) := by
  rw [List.map_map]
  apply List.map_congr_left
  intro x _
  simp only [Function.comp]
  split
  · rename_i e; rw [hid, e]
  · rfl

theorem GInv.trans {s s' : St} (hI : Inv s) (hG : GInv s) {l : TLabel} (t : Trans s l s') : GInv s' := by
  unfold GInv at *
  have hc := t.cfg
  rw [hc]
  cases t with
  | same => exact hG
  | allocErr req e h =>
    have ha : (s.a.alloc req).1 = s.a := (alloc_spec req hI.toAInv hI.spans_fresh).1 e h
    simp only [ha, liveBytes_append]
    simpa using hG
  | allocOk req sp h =>
    simp only [liveBytes_append, if_true]
    rcases alloc_effect req sp hI.toAInv h with ⟨_, e1, e2⟩ | ⟨fb, _, _, _, _, _, e1, e2⟩
    · rw [e1, e2]; omega
    · rw [e1, e2]; omega
  | release j hd h1 h2 h3 =>
    obtain ⟨b, hb, e, st, n0, o1, o2⟩ := hI.owned j hd h1 h2
    have hS : TT s b.id b.pool st n0 := ⟨j, hd, h1, h2, e.symm, o1, o2⟩
    obtain ⟨hB, hC⟩ := hI.blk b hb
    obtain ⟨hle, _⟩ := span_le_used hB hC hS
    obtain ⟨b', f1, f2, f3, f4, f5, f6, f7, hstruct⟩ := release_struct hI.toAInv hb hS
    rw [e, ← o1] at hstruct
    have hk := liveBytes_kill s.tab j hd h1 h2
    have mU := agg_modify (b' := b') (wUB s.a.cfg) s.a.blocks hI.ids hb
    have mP := agg_modify (b' := b') (wPB s.a.cfg) s.a.blocks hI.ids hb
    rw [e] at mU mP
    have wU : wUB s.a.cfg b' + n0 * s.a.cfg.poolGran b.pool = wUB s.a.cfg b := by
      simp only [wUB, f2, f6, ← Nat.add_mul]; congr 1; omega
    have wP : wPB s.a.cfg b' = wPB s.a.cfg b := by simp [wPB, Block.padN, f2, f5]
    rcases hstruct with hs | ⟨hemp, hs⟩
    · simp only [hs]; rw [o2] at hk; omega
    · simp only [hs]
      have hMids : ((s.a.blocks.map fun x => if x.id = b.id then b' else x).map (·.id)).Pairwise (· < ·) := by
        rw [modify_ids f1]; exact hI.ids
      have hmem : b' ∈ (s.a.blocks.map fun x => if x.id = b.id then b' else x) := List.mem_map.mpr ⟨b, hb, by simp⟩
      have rU := agg_remove (wUB s.a.cfg) _ hMids hmem
      have rP := agg_remove (wPB s.a.cfg) _ hMids hmem
      rw [f1, e] at rU rP
      have hue : wUB s.a.cfg b' = wPB s.a.cfg b' := by simp only [wUB, wPB, f7 hemp]
      rw [o2] at hk; omega
  | shrinkSome j hd n sz h1 h2 h3 h4 =>
    obtain ⟨b, hb, e, st, n0, o1, o2⟩ := hI.owned j hd h1 h2
    have hS : TT s b.id b.pool st n0 := ⟨j, hd, h1, h2, e.symm, o1, o2⟩
    obtain ⟨hB, hC⟩ := hI.blk b hb
    obtain ⟨hle, _⟩ := span_le_used hB hC hS
    have spec := shrink_spec hI.toAInv hb hS n (Nat.pos_of_ne_zero h3) _ _ rfl rfl
    have hst := shrink_struct hI.toAInv hb hS n
    rw [e, ← o1] at spec hst
    obtain ⟨hm, c1, c2, c3⟩ := spec
    generalize hmm : (n + s.a.cfg.poolGran b.pool - 1) / s.a.cfg.poolGran b.pool = m at hm c1 c2 c3 hst
    have hlt : m < n0 ∧ sz = m * s.a.cfg.poolGran b.pool := by
      rcases Nat.lt_trichotomy n0 m with c | c | c
      · have := c1 c; rw [this] at h4; simp at h4
      · have := (c2 c.symm).1; rw [this] at h4; simp at h4
      · have := (c3 c).1; rw [this] at h4; simp at h4; exact ⟨c, h4.symm⟩
    rcases hst with ⟨hgt, _⟩ | ⟨b', f1, f2, f3, f4, f5, f6, _, hs⟩
    · omega
    · have hk := liveBytes_setSize s.tab j sz hd h1 h2
      have mU := agg_modify (b' := b') (wUB s.a.cfg) s.a.blocks hI.ids hb
      have mP := agg_modify (b' := b') (wPB s.a.cfg) s.a.blocks hI.ids hb
      rw [e] at mU mP
      have wU : wUB s.a.cfg b' + (n0 - m) * s.a.cfg.poolGran b.pool = wUB s.a.cfg b := by
        simp only [wUB, f2, f6, ← Nat.add_mul]; congr 1; omega
      have wP : wPB s.a.cfg b' = wPB s.a.cfg b := by simp [wPB, Block.padN, f2, f5]
      have hsub : (n0 - m) * s.a.cfg.poolGran b.pool + m * s.a.cfg.poolGran b.pool = n0 * s.a.cfg.poolGran b.pool := by
        rw [← Nat.add_mul]; congr 1; omega
      have hsz := hlt.2
      simp only [hs]; omega
  | shrinkNone j hd n h1 h2 h3 h4 =>
    obtain ⟨b, hb, e, st, n0, o1, o2⟩ := hI.owned j hd h1 h2
    have hS : TT s b.id b.pool st n0 := ⟨j, hd, h1, h2, e.symm, o1, o2⟩
    have spec := shrink_spec hI.toAInv hb hS n (Nat.pos_of_ne_zero h3) _ _ rfl rfl
    have hst := shrink_struct hI.toAInv hb hS n
    rw [e, ← o1] at spec hst
    obtain ⟨hm, c1, c2, c3⟩ := spec
    generalize hmm : (n + s.a.cfg.poolGran b.pool - 1) / s.a.cfg.poolGran b.pool = m at hm c1 c2 c3 hst
    have heq : m = n0 := by
      rcases Nat.lt_trichotomy n0 m with c | c | c
      · have := c1 c; rw [this] at h4; simp at h4
      · exact c.symm
      · have := (c3 c).1; rw [this] at h4; simp at h4
    rcases hst with ⟨hgt, _⟩ | ⟨b', f1, f2, f3, f4, f5, f6, _, hs⟩
    · omega
    · have mU := agg_modify (b' := b') (wUB s.a.cfg) s.a.blocks hI.ids hb
      have mP := agg_modify (b' := b') (wPB s.a.cfg) s.a.blocks hI.ids hb
      rw [e] at mU mP
      have wU : wUB s.a.cfg b' = wUB s.a.cfg b := by simp only [wUB, f2, f6, heq]; congr 1; omega
      have wP : wPB s.a.cfg b' = wPB s.a.cfg b := by simp [wPB, Block.padN, f2, f5]
      simp only [hs]; omega
  | write j hd byte h1 h2 =>
    simp only [Alloc.writeMem, Alloc.modifyBlock]
    rw [agg_map_same (wUB s.a.cfg) _ (by intro y; split <;> rfl), agg_map_same (wPB s.a.cfg) _ (by intro y; split <;> rfl)]
    exact hG
  | reset hard =>
    rw [liveBytes_dead, Nat.zero_add]
    simp only [Alloc.reset]
    -- every kept block uses exactly its padding
    have hw : ∀ x ∈ (s.a.blocks.filterMap fun b => if s.a.keeps hard b then some (wipeOut s.a.cfg b) else none),
        wUB s.a.cfg x = wPB s.a.cfg x := by
      intro x hx
      obtain ⟨y, hy, hf⟩ := List.mem_filterMap.mp hx
      by_cases hk : s.a.keeps hard y = true
      · simp [hk] at hf
        rw [← hf]
        obtain ⟨_, hC⟩ := hI.blk y hy
        unfold wipeOut
        split
        · rename_i he; simp only [wUB, wPB, hC.emp he]
        · split <;> rfl
      · simp [hk] at hf
    unfold agg
    congr 1
    exact List.map_congr_left hw



end AsmjitVerif.JitAlloc
