/- C09 refinement (model run ⊑ monitor): allocation: answer fields, error cases, monitor gap search vs. model free runs. -/
import AsmjitVerif.Lemmas.JitAllocSimOps6
namespace AsmjitVerif.JitAlloc
open Spec

/-- size and pool of a span `alloc` returns -/
theorem alloc_fields {a : Alloc} {req : Nat} {sp : SpanOut} (h : (a.alloc req).2 = .ok sp) :
    sp.size = alignUp req a.cfg.gran ∧ sp.pool = sizeToPoolId a.cfg sp.size ∧ alignUp req a.cfg.gran ≠ 0 ∧
    ¬ alignUp req a.cfg.gran - 1 ≥ 2147483647 ∧ (a.alloc req) = a.allocIn (alignUp req a.cfg.gran) := by
  unfold Alloc.alloc at h ⊢
  simp only at h ⊢
  split at h
  · simp at h
  · split at h
    · simp at h
    · rename_i h0 hmax
      have hlast : (if alignUp req a.cfg.gran = 0 then (a, Except.error Err.InvalidArgument)
          else if alignUp req a.cfg.gran - 1 ≥ 2147483647 then (a, Except.error Err.TooLarge)
          else a.allocIn (alignUp req a.cfg.gran)) = a.allocIn (alignUp req a.cfg.gran) := by
        rw [if_neg h0, if_neg hmax]
      unfold Alloc.allocIn at h
      simp only at h
      split at h
      · simp only [Alloc.allocFound] at h; simp at h; subst h; exact ⟨rfl, rfl, h0, hmax, hlast⟩
      · simp only [Alloc.allocNew] at h; simp at h; subst h; exact ⟨rfl, rfl, h0, hmax, hlast⟩

theorem alloc_err_req {a : Alloc} (hwf : WF a.cfg) (hgr : a.cfg.gran ≤ 1024) {req : Nat} {e : Err} (h : (a.alloc req).2 = .error e) :
    ¬(1 ≤ req ∧ req ≤ 1073741824) := by
  unfold Alloc.alloc at h
  simp only at h
  have hge := alignUp_ge req a.cfg.gran hwf.1
  have hle : alignUp req a.cfg.gran ≤ req + a.cfg.gran - 1 := by
    unfold alignUp
    have h1 := Nat.div_add_mod (req + a.cfg.gran - 1) a.cfg.gran
    rw [Nat.mul_comm] at h1
    omega
  split at h
  · rename_i h0; intro hh; omega
  · split at h
    · rename_i hmax; intro hh; omega
    · rename_i h0 hmax
      exfalso
      unfold Alloc.allocIn at h
      simp only at h
      split at h
      · simp [Alloc.allocFound] at h
      · simp [Alloc.allocNew] at h

end AsmjitVerif.JitAlloc

namespace AsmjitVerif.JitAlloc
open Spec

/-- a free gap the ghost sees is a run of free granules in the model's block -/
theorem hasGap_hasRun {g : Ghost} {s : St} (hS : Sim g s) (hG : Good s) {b : Block} (hb : b ∈ s.a.blocks) (n : Nat) (hn : 0 < n)
    (hgap : g.hasGap (toGB b) (n * s.a.cfg.poolGran b.pool) = true) : HasRun b n := by
  have hI := hG.inv
  have hg := poolGran_pos hI.wf b.pool
  obtain ⟨hB, _⟩ := hI.blk b hb
  have hD := hG.div b hb
  unfold Ghost.hasGap at hgap
  simp only [List.any_eq_true, Bool.and_eq_true, decide_eq_true_eq, List.all_eq_true] at hgap
  obtain ⟨c, hc, hfit, hall⟩ := hgap
  -- the candidate is a whole number of granules
  have hcq : ∃ q, c = q * s.a.cfg.poolGran b.pool := by
    rcases List.mem_cons.mp hc with rfl | hc
    · exact ⟨0, by simp⟩
    · obtain ⟨⟨o, sz⟩, hm, rfl⟩ := List.mem_map.mp hc
      rcases (mem_occupied hS b o sz).mp hm with ⟨_, rfl, rfl⟩ | ⟨x, hx, rfl, rfl⟩
      · exact ⟨1, by simp⟩
      · obtain ⟨st, n', _, o1, o2⟩ := liveIn_span hS hI hb hx
        exact ⟨st + n', by simp only [o1, o2, Nat.add_mul]⟩
  obtain ⟨q, rfl⟩ := hcq
  have hfit' : q + n ≤ b.areaSize := by
    have : (q + n) * s.a.cfg.poolGran b.pool ≤ b.areaSize * s.a.cfg.poolGran b.pool := by
      rw [hD.area, Nat.add_mul]; exact hfit
    exact Nat.le_of_mul_le_mul_right this hg
  refine ⟨q, hfit', ?_⟩
  intro j h1 h2
  cases hu : bit b.used j
  · rfl
  · exfalso
    have mulmono : ∀ a c : Nat, a < c → a * s.a.cfg.poolGran b.pool < c * s.a.cfg.poolGran b.pool :=
      fun a c h => Nat.mul_lt_mul_of_pos_right h hg
    rcases (hB.used j (by omega)).mp hu with ⟨hp, rfl⟩ | ⟨st, n', hSp, a1, a2⟩
    · have hm : (0, s.a.cfg.poolGran b.pool) ∈ g.occupied (toGB b) := by
        apply (mem_occupied hS b _ _).mpr
        left
        refine ⟨?_, rfl, rfl⟩
        have := hD.padc; rw [this] at hp; simpa using hp
      have := hall _ hm
      have hq0 : q = 0 := by omega
      subst hq0
      simp only [overlaps, Nat.zero_mul, Nat.zero_add, Bool.not_eq_true', Bool.and_eq_false_iff, decide_eq_false_iff_not] at this
      have : 0 < n * s.a.cfg.poolGran b.pool := Nat.mul_pos hn hg
      omega
    · obtain ⟨x, hx, e1, e2⟩ := (hS.spans _ _ _ _).mp hSp
      have hm : (st * s.a.cfg.poolGran b.pool, n' * s.a.cfg.poolGran b.pool) ∈ g.occupied (toGB b) :=
        (mem_occupied hS b _ _).mpr (Or.inr ⟨x, hx, e1, e2⟩)
      have := hall _ hm
      simp only [overlaps, Bool.not_eq_true', Bool.and_eq_false_iff, decide_eq_false_iff_not] at this
      have l1 := mulmono q (st + n') (by omega)
      have l2 := mulmono st (q + n) (by omega)
      rw [Nat.add_mul] at l1 l2
      omega

end AsmjitVerif.JitAlloc
