/- C20 helper lemmas: the AArch64 instruction line — comma chunks, regrouping of memory operands, mnemonic with condition. -/
import AsmjitVerif.Lemmas.FormatLineFull

namespace AsmjitVerif.Lemmas.FormatA64Line
open AsmjitVerif.Format AsmjitVerif.FormatText AsmjitVerif.Lemmas.FormatLex AsmjitVerif.Lemmas.FormatNum
open AsmjitVerif.Lemmas.FormatX86Mem AsmjitVerif.Lemmas.FormatA64Mem

/-! ### comma chunks of a list of texts -/

def commaPieces : List Str → List Piece
  | [] => []
  | c :: cs => (none, c) :: cs.map (fun x => (some ',', ' ' :: x))

/-- texts joined by `, ` -/
def joinComma : List Str → Str
  | [] => []
  | [c] => c
  | c :: d :: r => c ++ ',' :: ' ' :: joinComma (d :: r)

theorem flatten_tailmap : ∀ cs : List Str,
    flattenPieces (cs.map (fun x => ((some ',' : Option Char), ' ' :: x))) = cs.flatMap (fun x => ',' :: ' ' :: x)
  | [] => rfl
  | c :: cs => by simp [flattenPieces, flatten_tailmap cs]

theorem joinComma_cons (c : Str) : ∀ cs : List Str, joinComma (c :: cs) = c ++ cs.flatMap (fun x => ',' :: ' ' :: x)
  | [] => by simp [joinComma]
  | d :: r => by simp [joinComma, joinComma_cons d r]

theorem join_flatten (c : Str) (cs : List Str) : joinComma (c :: cs) = flattenPieces (commaPieces (c :: cs)) := by
  rw [joinComma_cons]; simp [commaPieces, flattenPieces, flatten_tailmap]

theorem tailmap_ok : ∀ cs : List Str, (∀ c ∈ cs, ',' ∉ c) →
    TailOK (fun c => c == ',') (cs.map (fun x => ((some ',' : Option Char), ' ' :: x)))
  | [], _ => by simp [TailOK]
  | c :: cs, h => by
    simp only [List.map_cons, TailOK]
    refine ⟨by decide, ?_, tailmap_ok cs (fun x hx => h x (List.mem_cons_of_mem _ hx))⟩
    intro x hx
    simp only [List.mem_cons] at hx
    rcases hx with e | e
    · subst e; decide
    · have := h c (List.mem_cons_self ..)
      simp; intro e'; subst e'; exact this e

theorem tailmap_chunks : ∀ cs : List Str,
    (cs.map (fun x => ((some ',' : Option Char), ' ' :: x))).mapM chunkOfPiece = some cs
  | [] => by simp
  | c :: cs => by simp [chunkOfPiece, tailmap_chunks cs]

/-- cutting a `, `-joined text at the commas gives the chunks back -/
theorem comma_lex (c : Str) (cs : List Str) (hne : c ≠ []) (hc : ∀ x ∈ c :: cs, ',' ∉ x) :
    ((lexPieces (fun ch => ch == ',') (joinComma (c :: cs)).length (joinComma (c :: cs))).mapM chunkOfPiece) = some (c :: cs) := by
  rw [join_flatten]
  have hok : PiecesOK (fun ch => ch == ',') (commaPieces (c :: cs)) := by
    simp only [commaPieces, PiecesOK]
    refine ⟨hne, ?_, tailmap_ok cs (fun x hx => hc x (List.mem_cons_of_mem _ hx))⟩
    intro x hx
    have := hc c (List.mem_cons_self ..)
    simp; intro e; subst e; exact this hx
  rw [lex_pieces _ _ hok]
  show ((none, c) :: cs.map (fun x => ((some ',' : Option Char), ' ' :: x))).mapM chunkOfPiece = some (c :: cs)
  rw [List.mapM_cons, tailmap_chunks]
  rfl

/-! ### regrouping -/

/-- an operand as comma chunks: one chunk, or the two chunks of a memory operand -/
inductive Item
  | one (s : Str)
  | two (a b : Str)

def Item.chunks : Item → List Str
  | .one s => [s]
  | .two a b => [a, b]

def Item.text : Item → Str
  | .one s => s
  | .two a b => a ++ ',' :: ' ' :: b

def opensGroup (a : Str) : Prop := a.head? = some '[' ∧ a.getLast? ≠ some '!'
instance (a : Str) : Decidable (opensGroup a) := by unfold opensGroup; infer_instance

/-- a single chunk that would open a group may only be the last operand -/
def GoodItems : List Item → Prop
  | [] => True
  | [.one _] => True
  | .one s :: r => ¬ opensGroup s ∧ GoodItems r
  | .two a _ :: r => opensGroup a ∧ GoodItems r

theorem flatMap_one (s : Str) (r : List Item) : (Item.one s :: r).flatMap Item.chunks = s :: r.flatMap Item.chunks := by
  rw [List.flatMap_cons]; rfl
theorem flatMap_two (a b : Str) (r : List Item) : (Item.two a b :: r).flatMap Item.chunks = a :: b :: r.flatMap Item.chunks := by
  rw [List.flatMap_cons]; rfl
theorem flatMap_ne (i : Item) (r : List Item) : ∃ b R, (i :: r).flatMap Item.chunks = b :: R := by
  cases i with
  | one s => exact ⟨s, _, flatMap_one s r⟩
  | two a b => exact ⟨a, _, flatMap_two a b r⟩

theorem group_items : ∀ its : List Item, GoodItems its → groupChunks (its.flatMap Item.chunks) = its.map Item.text
  | [], _ => by simp [groupChunks]
  | [.one s], _ => by simp [Item.chunks, Item.text, groupChunks]
  | .one s :: i :: r, h => by
    have h' : ¬ opensGroup s ∧ GoodItems (i :: r) := by simpa [GoodItems] using h
    have ih := group_items (i :: r) h'.2
    have hno : ¬ (s.head? = some '[' ∧ s.getLast? ≠ some '!') := h'.1
    obtain ⟨b, R, hc⟩ := flatMap_ne i r
    rw [hc] at ih
    rw [flatMap_one, hc]
    simp only [groupChunks]
    rw [if_neg hno, ih]
    rfl
  | .two a b :: r, h => by
    have h' : opensGroup a ∧ GoodItems r := by
      cases r <;> simpa [GoodItems] using h
    have ih := group_items r h'.2
    have hyes : a.head? = some '[' ∧ a.getLast? ≠ some '!' := h'.1
    rw [flatMap_two]
    simp only [groupChunks]
    rw [if_pos hyes, ih]
    rfl

theorem join_items : ∀ its : List Item, its ≠ [] → joinComma (its.flatMap Item.chunks) = joinComma (its.map Item.text)
  | [], h => absurd rfl h
  | [.one s], _ => by simp [Item.chunks, Item.text]
  | [.two a b], _ => by simp [Item.chunks, Item.text, joinComma]
  | .one s :: i :: r, _ => by
    have ih := join_items (i :: r) (by simp)
    obtain ⟨b, R, hc⟩ := flatMap_ne i r
    rw [hc] at ih
    rw [flatMap_one, hc]
    simp only [List.map_cons, Item.text, joinComma] at ih ⊢
    rw [ih]
  | .two a b :: i :: r, _ => by
    have ih := join_items (i :: r) (by simp)
    obtain ⟨c, R, hc⟩ := flatMap_ne i r
    rw [hc] at ih
    rw [flatMap_two, hc]
    simp only [List.map_cons, Item.text, joinComma, List.append_assoc, List.cons_append] at ih ⊢
    rw [ih]

end AsmjitVerif.Lemmas.FormatA64Line
