/- Inv is preserved by `new_fixup` followed by the emission of the bytes that contain the field (all reference sites). -/
import AsmjitVerif.Lemmas.RefInv
namespace AsmjitVerif.CodeHolder
open AsmjitVerif.Offset

theorem toG_toFixup (f : Fixup) (l : Nat) (h : f.lr = none) : (f.toG l).toFixup none = f := by
  cases f; simp_all [Fixup.toG, GRef.toFixup]

theorem toG_toFixup_some (f : Fixup) (l : Nat) : (f.toG l).toFixup (some l) = { f with lr := some l } := by
  cases f; simp [Fixup.toG, GRef.toFixup]

theorem toG_setLr (f : Fixup) (k : Nat) (x : Option Nat) : ({ f with lr := x } : Fixup).toG k = f.toG k := rfl

theorem Df_of_D {a b : Fixup} {l k : Nat} (h : D (a.toG l) (b.toG k)) : Df a b := h

theorem mem_logRef (g : List GRef) (l : Nat) (f : Fixup) (x : GRef) (h : x ∈ g) : x ∈ logRef g l f := by
  unfold logRef; split
  · exact List.mem_append_left _ h
  · exact h

theorem getElem?_lt {α} {l : List α} {i : Nat} {a : α} (h : l[i]? = some a) : i < l.length := by
  rcases Nat.lt_or_ge i l.length with h' | h'
  · exact h'
  · rw [List.getElem?_eq_none h'] at h; cases h

theorem toFixup_none_eq {g : GRef} {f : Fixup} (h : g.toFixup none = f) : f.lr = none ∧ g = f.toG g.label := by
  subst h; cases g; exact ⟨rfl, rfl⟩

theorem toFixup_some_eq {g : GRef} {f : Fixup} {l : Nat} (h : g.toFixup (some g.label) = { f with lr := some l }) : g = f.toG l := by
  cases g; cases f
  simp only [GRef.toFixup, Fixup.mk.injEq, Option.some.injEq] at h
  obtain ⟨h1, h2, h3, h4, h5⟩ := h
  subst h1 h2 h3 h4 h5; rfl

/-- **the reference-site step.** `s1` satisfies the invariant; a fixup for the word at the end of the current section
is created and `tail` (which contains that word, with a zero field) is emitted. -/
theorem inv_newFixup_emit (s1 : State) (h : Inv s1) (l : Nat) (f : Fixup) (tail : Bytes)
    (hsec : f.sec = s1.cur) (hoff : f.offset = s1.curOff)
    (hfmt : f.lr = none → f.fmt ∈ fixupFormats)
    (htail : f.lr = none → ∃ old0, loadLE tail 0 f.fmt.valueSize = some old0 ∧ BitVec.ofNat 32 old0 &&& fieldMask32 f.fmt = 0#32)
    (hrel : f.lr ≠ none → ∀ sec off, s1.labels[l]? ≠ some (.bound sec off)) :
    Inv ((newFixup s1 l f).emit tail) := by
  obtain ⟨sec0, hsec0⟩ : ∃ sec0, s1.secs[s1.cur]? = some sec0 := ⟨s1.secs[s1.cur]'h.cur, by simp [h.cur]⟩
  have hcurOff : s1.curOff = sec0.buf.length := by unfold State.curOff; rw [hsec0]
  -- what the emission does to the buffers, for old references
  have hext : SecsExt s1.secs (modifySec s1.secs s1.cur (fun sec => { sec with buf := sec.buf ++ tail })) :=
    secsExt_modifySec _ _ _ (fun x => ⟨tail, rfl⟩)
  have hcur' : s1.cur < (modifySec s1.secs s1.cur (fun sec => { sec with buf := sec.buf ++ tail })).length := by
    rw [modifySec_length]; exact h.cur
  unfold newFixup
  cases hl : s1.labels[l]? with
  | none => exact h.frame (frame_emit _ _ h.cur)
  | some le =>
    cases hlr : f.lr with
    | some rid =>
      -- a fixup that only feeds a relocation: nothing is logged; the label must be unbound
      cases le with
      | bound sec off => exact absurd hl (hrel (by simp [hlr]) sec off)
      | unbound fx =>
        dsimp only
        have hlog : logRef s1.ghost l f = s1.ghost := by unfold logRef; rw [hlr]
        refine ⟨hcur', ?_, ?_, ?_, ?_, ?_, ?_, ?_⟩
        · show ∀ g ∈ logRef s1.ghost l f, _; rw [hlog]; exact h.fmts
        · show ∀ g ∈ logRef s1.ghost l f, _; rw [hlog]; intro g hg; exact (h.inb g hg).ext hext
        · show (logRef s1.ghost l f).Pairwise D; rw [hlog]; exact h.disj
        · show ∀ g ∈ logRef s1.ghost l f, _; rw [hlog]; intro g hg
          refine status_mono ?_ ?_ ?_ (field_ext hext (h.inb g hg)) (h.status g hg)
          · rintro (⟨fx', h1, h2⟩ | h1)
            · left
              by_cases hgl : l = g.label
              · subst hgl
                rw [hl] at h1; cases h1
                exact ⟨f :: fx, by simp [getElem?_lt hl], List.mem_cons_of_mem _ h2⟩
              · exact ⟨fx', by show (s1.labels.set l _)[g.label]? = _; rw [List.getElem?_set_ne hgl]; exact h1, h2⟩
            · exact .inr h1
          · rintro (⟨fx', h1, h2⟩ | h1)
            · replace h1 : (s1.labels.set l (LabelEntry.unbound (f :: fx)))[g.label]? = some (LabelEntry.unbound fx') := h1
              by_cases hgl : l = g.label
              · rw [← hgl, show (s1.labels.set l (LabelEntry.unbound (f :: fx)))[l]? = some (LabelEntry.unbound (f :: fx)) by simp [getElem?_lt hl]] at h1
                cases h1
                simp only [List.mem_cons] at h2
                rcases h2 with h2 | h2
                · have := (toFixup_none_eq h2).1; rw [hlr] at this; cases this
                · exact .inl ⟨fx, by rw [← hgl]; exact hl, h2⟩
              · rw [List.getElem?_set_ne hgl] at h1
                exact .inl ⟨fx', h1, h2⟩
            · exact .inr h1
          · intro sec off hb
            exact bound_after_set _ _ _ _ hl _ _ _ hb
        · intro l' fx' hl'
          replace hl' : (s1.labels.set l (LabelEntry.unbound (f :: fx)))[l']? = some (LabelEntry.unbound fx') := hl'
          show _ ∧ _
          by_cases hll : l = l'
          · subst hll
            have : (s1.labels.set l (LabelEntry.unbound (f :: fx)))[l]? = some (LabelEntry.unbound (f :: fx)) := by
              simp [getElem?_lt hl]
            rw [this] at hl'; cases hl'
            have hold := h.lab l fx hl
            constructor
            · intro f' hf' hn
              simp only [List.mem_cons] at hf'
              rcases hf' with rfl | hf'
              · rw [hlr] at hn; cases hn
              · show _ ∈ logRef s1.ghost l f; rw [hlog]; exact hold.1 f' hf' hn
            · have : (f :: fx).filter (fun f => f.lr.isNone) = fx.filter (fun f => f.lr.isNone) := by
                simp [hlr]
              rw [this]; exact hold.2
          · have : (s1.labels.set l (LabelEntry.unbound (f :: fx)))[l']? = s1.labels[l']? := List.getElem?_set_ne hll
            rw [this] at hl'
            have hold := h.lab l' fx' hl'
            exact ⟨fun f' hf' hn => by show _ ∈ logRef s1.ghost l f; rw [hlog]; exact hold.1 f' hf' hn, hold.2⟩
        · show (∀ f' ∈ s1.fixups, ∃ l', f'.lr = some l' ∧ f'.toG l' ∈ logRef s1.ghost l f) ∧ _
          rw [hlog]; exact h.glob
        · have := newFixup_fixupsWF s1 l f h.wf
          unfold newFixup at this; rw [hl] at this
          exact this
    | none =>
      -- a patchable fixup: logged as g
      have hf := hfmt hlr
      obtain ⟨old0, hld, hz⟩ := htail hlr
      have hsz := fmt_size_pos hf
      have hreg := emit_new_region s1.secs s1.cur sec0 hsec0 tail (f.toG l) hsec (by rw [← hcurOff]; exact hoff) hsz.1 old0 hld
      have hlog : logRef s1.ghost l f = s1.ghost ++ [f.toG l] := by unfold logRef; rw [hlr]
      have hDnew : ∀ g' ∈ s1.ghost, D g' (f.toG l) := fun g' hg' => hreg.2.2 g' (h.inb g' hg')
      have hfmts : ∀ g ∈ s1.ghost ++ [f.toG l], g.fmt ∈ fixupFormats := by
        intro g hg; simp only [List.mem_append, List.mem_singleton] at hg
        rcases hg with hg | rfl
        · exact h.fmts g hg
        · exact hf
      have hinb : ∀ g ∈ s1.ghost ++ [f.toG l], InB (modifySec s1.secs s1.cur (fun sec => { sec with buf := sec.buf ++ tail })) g := by
        intro g hg; simp only [List.mem_append, List.mem_singleton] at hg
        rcases hg with hg | rfl
        · exact (h.inb g hg).ext hext
        · exact hreg.1
      have hdisj : (s1.ghost ++ [f.toG l]).Pairwise D := by
        rw [List.pairwise_append]
        refine ⟨h.disj, by simp, ?_⟩
        intro a ha b hb; simp only [List.mem_singleton] at hb; subst hb; exact hDnew a ha
      have hzero : FieldZero (modifySec s1.secs s1.cur (fun sec => { sec with buf := sec.buf ++ tail })) (f.toG l) :=
        ⟨old0, hreg.2.1, hz⟩
      cases le with
      | unbound fx =>
        dsimp only
        have hget : (s1.labels.set l (LabelEntry.unbound (f :: fx)))[l]? = some (LabelEntry.unbound (f :: fx)) := by
          simp [getElem?_lt hl]
        refine ⟨hcur', ?_, ?_, ?_, ?_, ?_, ?_, ?_⟩
        · show ∀ g ∈ logRef s1.ghost l f, _; rw [hlog]; exact hfmts
        · show ∀ g ∈ logRef s1.ghost l f, _; rw [hlog]; exact hinb
        · show (logRef s1.ghost l f).Pairwise D; rw [hlog]; exact hdisj
        · show ∀ g ∈ logRef s1.ghost l f, _; rw [hlog]; intro g hg
          simp only [List.mem_append, List.mem_singleton] at hg
          rcases hg with hg | rfl
          · refine status_mono ?_ ?_ ?_ (field_ext hext (h.inb g hg)) (h.status g hg)
            · rintro (⟨fx', h1, h2⟩ | h1)
              · left
                by_cases hgl : l = g.label
                · subst hgl
                  rw [hl] at h1; cases h1
                  exact ⟨f :: fx, hget, List.mem_cons_of_mem _ h2⟩
                · exact ⟨fx', by show (s1.labels.set l _)[g.label]? = _; rw [List.getElem?_set_ne hgl]; exact h1, h2⟩
              · exact .inr h1
            · rintro (⟨fx', h1, h2⟩ | h1)
              · replace h1 : (s1.labels.set l (LabelEntry.unbound (f :: fx)))[g.label]? = some (LabelEntry.unbound fx') := h1
                by_cases hgl : l = g.label
                · rw [← hgl, hget] at h1; cases h1
                  simp only [List.mem_cons] at h2
                  rcases h2 with h2 | h2
                  · have e : g = f.toG l := by rw [hgl]; exact (toFixup_none_eq h2).2
                    have hd := hDnew g hg
                    rw [← e] at hd
                    exact absurd hd (D_irrefl (fmt_size_pos (h.fmts g hg)).1)
                  · exact .inl ⟨fx, by rw [← hgl]; exact hl, h2⟩
                · rw [List.getElem?_set_ne hgl] at h1
                  exact .inl ⟨fx', h1, h2⟩
              · exact .inr h1
            · intro sec off hb
              exact bound_after_set _ _ _ _ hl _ _ _ hb
          · left
            refine ⟨.inl ⟨f :: fx, hget, ?_⟩, hzero⟩
            rw [toG_toFixup f l hlr]; exact List.mem_cons_self
        · intro l' fx' hl'
          replace hl' : (s1.labels.set l (LabelEntry.unbound (f :: fx)))[l']? = some (LabelEntry.unbound fx') := hl'
          show _ ∧ _
          by_cases hll : l = l'
          · subst hll
            rw [hget] at hl'; cases hl'
            have hold := h.lab l fx hl
            constructor
            · intro f' hf' hn
              show _ ∈ logRef s1.ghost l f; rw [hlog]
              simp only [List.mem_cons] at hf'
              rcases hf' with rfl | hf'
              · exact List.mem_append_right _ (List.mem_singleton.mpr rfl)
              · exact List.mem_append_left _ (hold.1 f' hf' hn)
            · have : (f :: fx).filter (fun f => f.lr.isNone) = f :: fx.filter (fun f => f.lr.isNone) := by
                simp [hlr]
              rw [this, List.pairwise_cons]
              refine ⟨?_, hold.2⟩
              intro f' hf'
              rw [List.mem_filter] at hf'
              have hn : f'.lr = none := by
                cases hx : f'.lr with
                | none => rfl
                | some _ => rw [hx] at hf'; simp at hf'
              exact Df_of_D (D_symm (hDnew _ (hold.1 f' hf'.1 hn)))
          · have : (s1.labels.set l (LabelEntry.unbound (f :: fx)))[l']? = s1.labels[l']? := List.getElem?_set_ne hll
            rw [this] at hl'
            have hold := h.lab l' fx' hl'
            exact ⟨fun f' hf' hn => by
              show _ ∈ logRef s1.ghost l f; rw [hlog]; exact List.mem_append_left _ (hold.1 f' hf' hn), hold.2⟩
        · show (∀ f' ∈ s1.fixups, ∃ l', f'.lr = some l' ∧ f'.toG l' ∈ logRef s1.ghost l f) ∧ _
          rw [hlog]
          exact ⟨fun f' hf' => by
            obtain ⟨l', h1, h2⟩ := h.glob.1 f' hf'
            exact ⟨l', h1, List.mem_append_left _ h2⟩, h.glob.2⟩
        · have := newFixup_fixupsWF s1 l f h.wf
          unfold newFixup at this; rw [hl] at this
          exact this
      | bound bsec boff =>
        dsimp only
        refine ⟨hcur', ?_, ?_, ?_, ?_, ?_, ?_, ?_⟩
        · show ∀ g ∈ logRef s1.ghost l f, _; rw [hlog]; exact hfmts
        · show ∀ g ∈ logRef s1.ghost l f, _; rw [hlog]; exact hinb
        · show (logRef s1.ghost l f).Pairwise D; rw [hlog]; exact hdisj
        · show ∀ g ∈ logRef s1.ghost l f, _; rw [hlog]; intro g hg
          simp only [List.mem_append, List.mem_singleton] at hg
          rcases hg with hg | rfl
          · refine status_mono ?_ ?_ ?_ (field_ext hext (h.inb g hg)) (h.status g hg)
            · rintro (h1 | h1)
              · exact .inl h1
              · exact .inr (List.mem_cons_of_mem _ h1)
            · rintro (h1 | h1)
              · exact .inl h1
              · replace h1 : g.toFixup (some g.label) ∈ ({ f with lr := some l } : Fixup) :: s1.fixups := h1
                simp only [List.mem_cons] at h1
                rcases h1 with h1 | h1
                · have e := toFixup_some_eq h1
                  have hd := hDnew g hg
                  rw [← e] at hd
                  exact absurd hd (D_irrefl (fmt_size_pos (h.fmts g hg)).1)
                · exact .inr h1
            · intro _ _ hb; exact hb
          · left
            refine ⟨.inr ?_, hzero⟩
            show (f.toG l).toFixup (some l) ∈ ({ f with lr := some l } : Fixup) :: s1.fixups
            rw [toG_toFixup_some]; exact List.mem_cons_self
        · intro l' fx' hl'
          replace hl' : s1.labels[l']? = some (LabelEntry.unbound fx') := hl'
          have hold := h.lab l' fx' hl'
          exact ⟨fun f' hf' hn => by
            show _ ∈ logRef s1.ghost l f; rw [hlog]; exact List.mem_append_left _ (hold.1 f' hf' hn), hold.2⟩
        · show (∀ f' ∈ ({ f with lr := some l } : Fixup) :: s1.fixups, ∃ l', f'.lr = some l' ∧ f'.toG l' ∈ logRef s1.ghost l f) ∧
            (({ f with lr := some l } : Fixup) :: s1.fixups).Pairwise Df
          rw [hlog]
          constructor
          · intro f' hf'
            simp only [List.mem_cons] at hf'
            rcases hf' with rfl | hf'
            · exact ⟨l, rfl, List.mem_append_right _ (List.mem_singleton.mpr rfl)⟩
            · obtain ⟨l', h1, h2⟩ := h.glob.1 f' hf'
              exact ⟨l', h1, List.mem_append_left _ h2⟩
          · rw [List.pairwise_cons]
            refine ⟨?_, h.glob.2⟩
            intro f' hf'
            obtain ⟨l', _, h2⟩ := h.glob.1 f' hf'
            exact Df_of_D (l := l) (k := l') (D_symm (hDnew _ h2))
        · have := newFixup_fixupsWF s1 l f h.wf
          unfold newFixup at this; rw [hl] at this
          exact this

end AsmjitVerif.CodeHolder
