/-
C18 — ArenaTree insert, part 10: `insert_refines` (B) — `ArenaTree::insert` on a heap that represents a red-black
search tree yields a heap that represents a red-black search tree with the key inserted; and the insert/get half
of the sequence theorem (D).  Core-only.
-/
import AsmjitVerif.Lemmas.C18TreeIns9
namespace AsmjitVerif.Tree.Ins
open AsmjitVerif.Tree AsmjitVerif.Tree.Spec

/-! ### `setInsert` keeps lists sorted -/

theorem mem_setInsert {k x : Nat} {s : List Nat} : x ∈ setInsert k s ↔ x = k ∨ x ∈ s := by
  induction s with
  | nil => simp [setInsert]
  | cons a l ih =>
    simp only [setInsert]
    split
    · simp
    · split
      · rename_i h1 h2; subst h2; simp
      · simp only [List.mem_cons, ih]
        constructor
        · rintro (h | h | h) <;> simp [h]
        · rintro (h | h | h) <;> simp [h]

theorem sorted_setInsert {k : Nat} {s : List Nat} (hs : Sorted s) : Sorted (setInsert k s) := by
  induction s with
  | nil => simp [setInsert, Sorted]
  | cons a l ih =>
    have h1 := sorted_cons.1 hs
    simp only [setInsert]
    split
    · rename_i hlt
      rw [sorted_cons]
      refine ⟨?_, hs⟩
      intro x hx
      simp only [List.mem_cons] at hx
      rcases hx with hx | hx
      · omega
      · exact Nat.lt_trans hlt (h1.1 x hx)
    · split
      · exact hs
      · rename_i h2 h3
        rw [sorted_cons]
        refine ⟨?_, ih h1.2⟩
        intro x hx
        rcases mem_setInsert.1 hx with hx | hx
        · omega
        · exact h1.1 x hx

/-! ### `newNode` -/

theorem nd_newNode_other (h : Tree) (k i : Nat) (hi : i ≠ h.nodes.size) : nd (newNode h k).1 i = nd h i := by
  simp only [newNode, nd, Array.getD_eq_getD_getElem?, Array.getElem?_push]
  rw [if_neg hi]

theorem nd_newNode_same (h : Tree) (k : Nat) : nd (newNode h k).1 h.nodes.size = { key := k } := by
  simp only [newNode, nd, Array.getD_eq_getD_getElem?, Array.getElem?_push]
  simp

theorem size_newNode (h : Tree) (k : Nat) : (newNode h k).1.nodes.size = h.nodes.size + 1 := by
  simp only [newNode, Array.size_push]

/-- paint the root black (`_root->_make_black()`) -/
def blacken : T → T
  | .nil => .nil
  | .node i k _ l r => .node i k false l r

theorem nd_setRoot (h : Tree) (r i : Nat) : nd { h with root := r } i = nd h i := rfl

/-- B. `ArenaTree::insert(node)` for a fresh node carrying a key that is not in the tree.
Fuel: `3·(black height)+1 ≤ kFuel`; a double rotation re-visits one level, so the loop may need more iterations
than `height+1` — the potential is 3 iterations per black level. -/
theorem insert_refines {h : Tree} {t : T} {k n : Nat} (hr : Represents h t) (hb : t.BST) (hrb : t.RB)
    (hk : k ∉ t.keys) (hsz : 2 ≤ h.nodes.size) (hn : t.blackH n) (hfuel : 3 * n + 1 ≤ kFuel) :
    ∃ t', Represents (insertNode (newNode h k).1 (newNode h k).2) t' ∧ t'.keys = setInsert k t.keys ∧ t'.BST ∧
      t'.RB ∧ t'.idxs.Perm ((newNode h k).2 :: t.idxs) ∧
      (insertNode (newNode h k).1 (newNode h k).2).nodes.size = h.nodes.size + 1 ∧
      (∀ i, i ≠ 1 → i ∉ (newNode h k).2 :: t.idxs →
        nd (insertNode (newNode h k).1 (newNode h k).2) i = nd (newNode h k).1 i) := by
  obtain ⟨hrep, hnd⟩ := hr
  have hidx := Rep_idx_ge hrep
  have e2 : (newNode h k).2 = h.nodes.size := rfl
  have eroot1 : (newNode h k).1.root = h.root := rfl
  have hsz1 := size_newNode h k
  have hc1 := nd_newNode_other h k
  have hcn := nd_newNode_same h k
  rw [e2]
  generalize (newNode h k).1 = h1 at *
  generalize hnn : h.nodes.size = nn at *
  have hnnI : nn ∉ t.idxs := fun e => by have := (hidx nn e).2; omega
  have rep1 : Rep h1 h.root t :=
    Rep_frame hrep (fun i hi => hc1 i (fun e => hnnI (e ▸ hi))) (by omega)
  unfold insertNode
  rw [eroot1]
  by_cases hroot : h.root = 0
  · -- empty tree
    rw [if_pos hroot]
    have ht : t = .nil := (Rep_nil_iff hrep).1 hroot
    subst ht
    refine ⟨.node nn k false .nil .nil, ⟨?_, by simp [T.idxs]⟩, rfl, by simp [T.BST, T.keys, Sorted],
      ⟨rfl, ⟨(fun e => nomatch e), trivial, trivial⟩, 1, .black .nil .nil⟩, List.Perm.refl _, hsz1, fun _ _ _ => rfl⟩
    refine .node (by omega) (by simp only [hsz1]; omega) ?_ ?_ ?_ ?_
    · simp only [nd_setRoot, hcn]
    · simp only [nd_setRoot, hcn]
    · simp only [nd_setRoot, hcn]; exact .nil
    · simp only [nd_setRoot, hcn]; exact .nil
  · rw [if_neg hroot]
    simp only []
    -- the heap at loop entry
    have soa : SameOut [1] h1 (upd h1 1 (fun _ => { r := h.root })) := SameOut.upd _ _ _ _ (by simp)
    have ca : nd (upd h1 1 (fun _ => { r := h.root })) 1 = { r := h.root } :=
      nd_upd_same _ _ _ (by omega) (by omega)
    have roota : (upd h1 1 (fun _ => { r := h.root })).root = h.root := by rw [root_upd, eroot1]
    generalize upd h1 1 (fun _ => { r := h.root }) = ha at *
    have sob : SameOut [nn] ha (makeRed ha nn) := SameOut.upd _ _ _ _ (by simp)
    have cb : nd (makeRed ha nn) nn = { key := k, red := true } := by
      simp only [makeRed]
      rw [nd_upd_same _ _ _ (by omega) (by rw [soa.size]; omega), soa.cells nn (by simp; omega), hcn]
    have rootb : (makeRed ha nn).root = h.root := by simp only [makeRed, root_upd, roota]
    generalize makeRed ha nn = hb' at *
    have c1b : nd hb' 1 = { r := h.root } := by rw [sob.cells 1 (by simp; omega), ca]
    have szb : hb'.nodes.size = nn + 1 := by rw [sob.size, soa.size, hsz1]
    have repb : Rep hb' h.root t := by
      refine Rep_sameOut (Rep_sameOut rep1 soa ?_) sob ?_
      · intro i hi; have := (hidx i hi).1; simp only [List.mem_singleton]; omega
      · intro i hi; simp only [List.mem_singleton]; exact fun e => hnnI (e ▸ hi)
    have ht : t ≠ .nil := fun e => hroot ((Rep_nil_iff hrep).2 e)
    let C : Cfg := ⟨hb', nn, k, t.keys, t.idxs⟩
    have hpost := loop_spec C hb hk kFuel .N [] t hb' 0 0 1 h.root false false
      ⟨by simp only [rootOf, c1b, plug]; exact repb, hnd, rfl, List.Perm.refl _, SameOut.refl _ _,
        (show 1 < hb'.nodes.size by omega)⟩
      ⟨hnnI, (show 2 ≤ nn by omega), (show nn < hb'.nodes.size by omega), cb⟩
      ⟨(fun _ h => nomatch h), (fun _ h => nomatch h)⟩ ⟨hrb.2.1, hrb.2.2⟩ repb
      ⟨rfl, rfl, rfl, ht, hrb.1⟩ ⟨n, hn, by rw [hrb.1]; simpa using hfuel⟩
    rw [rootb]
    obtain ⟨W, core, colW⟩ := hpost
    simp only [C] at core
    generalize insertLoop kFuel hb' nn 0 0 1 h.root false false = hc at *
    have hWk : W.keys = setInsert k t.keys := core.keys
    have hWnn : W ≠ .nil := by
      intro e; rw [e] at hWk
      have : k ∈ setInsert k t.keys := mem_setInsert.2 (Or.inl rfl)
      rw [← hWk] at this; cases this
    have hchild : child hc 1 true = rootOf hc := rfl
    rw [hchild]
    cases W with
    | nil => exact absurd rfl hWnn
    | node r kr c L R =>
    have hrr := core.rep
    have er : rootOf hc = r := (Rep_rootIdx hrr).symm
    rw [er] at hrr ⊢
    have hndW := core.nodup
    rw [nodup_node] at hndW
    cases hrr with
    | node r2 rlt rk rc rl rrr =>
    have sof : SameOut [r] hc (makeBlack { hc with root := r } r) := by
      simp only [makeBlack]
      refine ⟨fun i hi => ?_, ?_⟩
      · rw [nd_upd_other _ _ _ _ (fun e => hi (by simp [e]))]; rfl
      · rw [size_upd]
    have cf : nd (makeBlack { hc with root := r } r) r = { nd hc r with red := false } :=
      nd_upd_same { hc with root := r } r _ (by omega) rlt
    have rootf : (makeBlack { hc with root := r } r).root = r := by simp only [makeBlack, root_upd]
    generalize makeBlack { hc with root := r } r = hf at *
    refine ⟨.node r kr false L R, ⟨?_, core.nodup⟩, hWk, ?_, ⟨rfl, ?_, ?_⟩, core.idxs, ?_, ?_⟩
    · rw [rootf]
      refine .node r2 (by rw [sof.size]; exact rlt) (by rw [cf]; exact rk) (by rw [cf]) ?_ ?_
      · rw [cf]
        exact Rep_sameOut rl sof (fun i hi => by simp only [List.mem_singleton]; exact fun e => hndW.1 (e ▸ hi))
      · rw [cf]
        exact Rep_sameOut rrr sof (fun i hi => by simp only [List.mem_singleton]; exact fun e => hndW.2.1 (e ▸ hi))
    · show Sorted (T.node r kr false L R).keys
      have : (T.node r kr false L R).keys = (T.node r kr c L R).keys := rfl
      rw [this, hWk]; exact sorted_setInsert hb
    · have := colW.1
      simp only [T.noRedRed] at this ⊢
      exact ⟨(fun e => nomatch e), this.2⟩
    · obtain ⟨m, hm⟩ := colW.2
      cases hm with
      | red h1' h2' => exact ⟨_, .black h1' h2'⟩
      | black h1' h2' => exact ⟨_, .black h1' h2'⟩
    · rw [sof.size, core.same.size, szb]
    · intro i hi1 hi2
      have hir : i ≠ r := by
        intro e
        have : r ∈ nn :: t.idxs := core.idxs.mem_iff.1 (by simp [T.idxs])
        exact hi2 (e ▸ this)
      rw [sof.cells i (by simp [hir]), core.same.cells i ?_, sob.cells i ?_, soa.cells i (by simp [hi1])]
      · simp only [List.mem_cons, not_or] at hi2; simp only [List.mem_singleton]; exact hi2.1
      · simp only [List.mem_cons, not_or] at hi2 ⊢
        exact ⟨hi1, hi2.1, hi2.2⟩

end AsmjitVerif.Tree.Ins
